import Octo.Lemmas.Triggers
/-!
  A trigger object (any nesting of `MultiTrigger`) behaves as the flat list of its primitive triggers:
  every method maps over the leaves, `Poll` concatenates their polls in order.  All reasoning about
  trigger configurations is done on that list.
-/
namespace Octo.Trig
open Octo Octo.TMap

section Flat
variable (wl : WKey → WKey → Bool)

mutual
theorem leaves_keyReceived : ∀ (t : TState) (k : Key),
    (t.keyReceived wl k).leaves = t.leaves.map (fun l => l.keyReceived wl k)
  | .leaf l, k => by simp [TState.keyReceived, TState.leaves]
  | .multi ts, k => by simp only [TState.keyReceived, TState.leaves]; exact leavesL_keyReceivedL ts k
theorem leavesL_keyReceivedL : ∀ (ts : List TState) (k : Key),
    TState.leavesL (TState.keyReceivedL wl ts k) = (TState.leavesL ts).map (fun l => l.keyReceived wl k)
  | [], k => by simp [TState.keyReceivedL, TState.leavesL]
  | t :: ts, k => by
    simp [TState.keyReceivedL, TState.leavesL, leaves_keyReceived t k, leavesL_keyReceivedL ts k]
end

mutual
theorem leaves_watermarkReceived : ∀ (t : TState) (w : Int),
    (t.watermarkReceived w).leaves = t.leaves.map (fun l => l.watermarkReceived w)
  | .leaf l, w => by simp [TState.watermarkReceived, TState.leaves]
  | .multi ts, w => by simp only [TState.watermarkReceived, TState.leaves]; exact leavesL_watermarkReceivedL ts w
theorem leavesL_watermarkReceivedL : ∀ (ts : List TState) (w : Int),
    TState.leavesL (TState.watermarkReceivedL ts w) = (TState.leavesL ts).map (fun l => l.watermarkReceived w)
  | [], w => by simp [TState.watermarkReceivedL, TState.leavesL]
  | t :: ts, w => by
    simp [TState.watermarkReceivedL, TState.leavesL, leaves_watermarkReceived t w, leavesL_watermarkReceivedL ts w]
end

mutual
theorem leaves_endOfStream : ∀ (t : TState), t.endOfStream.leaves = t.leaves.map (fun l => l.endOfStream)
  | .leaf l => by simp [TState.endOfStream, TState.leaves]
  | .multi ts => by simp only [TState.endOfStream, TState.leaves]; exact leavesL_endOfStreamL ts
theorem leavesL_endOfStreamL : ∀ (ts : List TState),
    TState.leavesL (TState.endOfStreamL ts) = (TState.leavesL ts).map (fun l => l.endOfStream)
  | [] => by simp [TState.endOfStreamL, TState.leavesL]
  | t :: ts => by
    simp [TState.endOfStreamL, TState.leavesL, leaves_endOfStream t, leavesL_endOfStreamL ts]
end

mutual
theorem poll_fst : ∀ (t : TState), (t.poll wl).1 = t.leaves.flatMap (fun l => (l.poll wl).1)
  | .leaf l => by simp [TState.poll, TState.leaves]
  | .multi ts => by simp only [TState.poll, TState.leaves]; exact pollL_fst ts
theorem pollL_fst : ∀ (ts : List TState),
    (TState.pollL wl ts).1 = (TState.leavesL ts).flatMap (fun l => (l.poll wl).1)
  | [] => by simp [TState.pollL, TState.leavesL]
  | t :: ts => by
    simp [TState.pollL, TState.leavesL, poll_fst t, pollL_fst ts, List.flatMap_append]
end

mutual
theorem poll_snd : ∀ (t : TState), (t.poll wl).2.leaves = t.leaves.map (fun l => (l.poll wl).2)
  | .leaf l => by simp [TState.poll, TState.leaves]
  | .multi ts => by simp only [TState.poll, TState.leaves]; exact pollL_snd ts
theorem pollL_snd : ∀ (ts : List TState),
    TState.leavesL (TState.pollL wl ts).2 = (TState.leavesL ts).map (fun l => (l.poll wl).2)
  | [] => by simp [TState.pollL, TState.leavesL]
  | t :: ts => by
    simp [TState.pollL, TState.leavesL, poll_snd t, pollL_snd ts]
end

end Flat

/-! ### freshly materialised triggers -/
def Leaf.isInit : Leaf → Prop
  | .counting _ counts e tt => counts = [] ∧ e = false ∧ tt = []
  | .watermark _ tks e _ => tks = [] ∧ e = false
  | .eos ks e => ks = [] ∧ e = false

mutual
theorem init_leaves : ∀ (c : TCfg), ∀ l ∈ c.init.leaves, l.isInit
  | .counting n => by simp [TCfg.init, TState.leaves, Leaf.isInit]
  | .watermark i => by simp [TCfg.init, TState.leaves, Leaf.isInit]
  | .eos => by simp [TCfg.init, TState.leaves, Leaf.isInit]
  | .multi ts => by simp only [TCfg.init, TState.leaves]; exact initL_leaves ts
theorem initL_leaves : ∀ (cs : List TCfg), ∀ l ∈ TState.leavesL (TCfg.initL cs), l.isInit
  | [] => by simp [TCfg.initL, TState.leavesL]
  | c :: cs => by
    simp only [TCfg.initL, TState.leavesL, List.mem_append]
    intro l hl
    rcases hl with h | h
    · exact init_leaves c l h
    · exact initL_leaves cs l h
end

mutual
theorem live_leaves : ∀ (c : TCfg), c.live = true → c.init.leaves ≠ []
  | .counting n, _ => by simp [TCfg.init, TState.leaves]
  | .watermark i, _ => by simp [TCfg.init, TState.leaves]
  | .eos, _ => by simp [TCfg.init, TState.leaves]
  | .multi ts, h => by
    simp only [TCfg.init, TState.leaves]
    simp only [TCfg.live] at h
    exact liveL_leaves ts h
theorem liveL_leaves : ∀ (cs : List TCfg), TCfg.liveL cs = true → TState.leavesL (TCfg.initL cs) ≠ []
  | [], h => by simp [TCfg.liveL] at h
  | c :: cs, h => by
    simp only [TCfg.liveL, Bool.or_eq_true] at h
    simp only [TCfg.initL, TState.leavesL, ne_eq, List.append_eq_nil_iff, not_and]
    rcases h with h | h
    · intro h1; exact absurd h1 (live_leaves c h)
    · intro _; exact liveL_leaves cs h
end

/-! ### the keys a trigger stores are keys it received -/
namespace Leaf
variable {wl : WKey → WKey → Bool}

def allKeys (P : Key → Prop) : Leaf → Prop
  | .counting _ counts _ tt => (∀ e ∈ counts, P e.1) ∧ (∀ k ∈ tt, P k)
  | .watermark _ tks _ _ => ∀ x ∈ tks, P x.1.key
  | .eos ks _ => ∀ e ∈ ks, P e.1

theorem allKeys_init {P : Key → Prop} (l : Leaf) (h : l.isInit) : l.allKeys P := by
  cases l <;> simp_all [isInit, allKeys]

theorem wf_init (l : Leaf) (h : l.isInit) : l.wf := by
  cases l <;> simp_all [isInit, wf]

theorem pend_init (l : Leaf) (h : l.isInit) (k : Key) : l.pend wl k = false := by
  cases l <;> simp_all [isInit, pend, has]

theorem allKeys_keyReceived {P : Key → Prop} (l : Leaf) (k : Key) (hk : P k) (h : l.allKeys P) :
    (l.keyReceived wl k).allKeys P := by
  cases l with
  | counting n counts e tt =>
    simp only [allKeys] at h
    simp only [keyReceived]
    cases hf : find keyLess k counts with
    | none =>
      simp only []
      split
      · refine ⟨fun e he => h.1 e (mem_erase.mp he).1, fun k' hk' => ?_⟩
        simp only [List.mem_append, List.mem_singleton] at hk'
        rcases hk' with h1 | h1
        · exact h.2 k' h1
        · rw [h1]; exact hk
      · refine ⟨fun e he => ?_, h.2⟩
        rcases mem_insert.mp he with h1 | h1
        · rw [h1]; exact hk
        · exact h.1 e h1.1
    | some kc =>
      have hm := (find_some_mem hf).1
      simp only []
      split
      · refine ⟨fun e he => h.1 e (mem_erase.mp he).1, fun k' hk' => ?_⟩
        simp only [List.mem_append, List.mem_singleton] at hk'
        rcases hk' with h1 | h1
        · exact h.2 k' h1
        · rw [h1]; exact h.1 kc hm
      · refine ⟨fun e he => ?_, h.2⟩
        rcases mem_insert.mp he with h1 | h1
        · rw [h1]; exact h.1 kc hm
        · exact h.1 e h1.1
  | watermark idx tks e wm =>
    simp only [allKeys] at h
    simp only [keyReceived, allKeys]
    intro x hx
    rcases mem_insert.mp hx with h1 | h1
    · rw [h1]; exact hk
    · exact h x h1.1
  | eos ks e =>
    simp only [allKeys] at h
    simp only [keyReceived, allKeys]
    intro x hx
    rcases mem_insert.mp hx with h1 | h1
    · rw [h1]; exact hk
    · exact h x h1.1

theorem allKeys_watermarkReceived {P : Key → Prop} (l : Leaf) (w : Int) (h : l.allKeys P) :
    (l.watermarkReceived w).allKeys P := by
  cases l <;> simpa [watermarkReceived, allKeys] using h
theorem allKeys_endOfStream {P : Key → Prop} (l : Leaf) (h : l.allKeys P) : l.endOfStream.allKeys P := by
  cases l <;> simpa [endOfStream, allKeys] using h

theorem allKeys_poll {P : Key → Prop} (l : Leaf) (h : l.allKeys P) :
    (l.poll wl).2.allKeys P ∧ ∀ k ∈ (l.poll wl).1, P k := by
  cases l with
  | counting n counts e tt =>
    simp only [allKeys] at h
    simp only [poll, allKeys]
    refine ⟨⟨h.1, by simp⟩, fun k hk => ?_⟩
    simp only [List.mem_append] at hk
    rcases hk with h1 | h1
    · exact h.2 k h1
    · split at h1
      · simp only [keys, List.mem_map] at h1
        obtain ⟨x, hx, rfl⟩ := h1
        exact h.1 x hx
      · simp at h1
  | watermark idx tks e wm =>
    simp only [allKeys] at h
    simp only [poll, allKeys]
    refine ⟨fun x hx => h x (mem_foldl_erase (fun q : Key => (⟨timeAt idx q, q⟩ : WKey)) _ _ hx), fun k hk => ?_⟩
    split at hk
    · simp only [List.mem_map] at hk
      obtain ⟨x, hx, rfl⟩ := hk
      exact h x (List.takeWhile_subset _ hx)
    · simp only [List.mem_map] at hk
      obtain ⟨x, hx, rfl⟩ := hk
      exact h x hx
  | eos ks e =>
    simp only [allKeys] at h
    simp only [poll, allKeys]
    refine ⟨h, fun k hk => ?_⟩
    split at hk
    · simp only [keys, List.mem_map] at hk
      obtain ⟨x, hx, rfl⟩ := hk
      exact h x hx
    · simp at hk

end Leaf

end Octo.Trig
