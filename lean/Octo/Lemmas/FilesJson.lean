import Octo.Model.JsonFile
import Octo.Lemmas.TyIsLaws
/-! JSON datasource: `getOctoSQLValue` reports `ok` exactly for the values the type can represent, and then the
    value it returns matches the type and carries what the document contains. -/
namespace Octo.Files
open Octo Octo.Ty

/-- structural induction over `Ty` (a nested inductive): composite types get the hypothesis for their parts -/
theorem Ty.induct (P : Ty → Prop)
    (hlist : ∀ e, P e → P (.list e))
    (hstruct : ∀ ns ts, (∀ t ∈ ts, P t) → P (.struct ns ts))
    (htuple : ∀ ts, (∀ t ∈ ts, P t) → P (.tuple ts))
    (hunion : ∀ alts, (∀ t ∈ alts, P t) → P (.union alts))
    (hnull : P .null) (hint : P .int) (hfloat : P .float) (hbool : P .bool) (hstr : P .str) (htime : P .time)
    (hdur : P .dur) (hlistNil : P .listNil) (hany : P .any) : ∀ t, P t := by
  have aux : ∀ n, ∀ t : Ty, t.size ≤ n → P t := by
    intro n
    induction n with
    | zero => intro t h; have := Ty.size_pos t; omega
    | succ n ih =>
      intro t h
      cases t with
      | list e => exact hlist e (ih e (by simp only [Ty.size] at h; omega))
      | struct ns ts =>
        refine hstruct ns ts (fun t ht => ih t ?_)
        have := Ty.size_le_sizeList ht; simp only [Ty.size] at h; omega
      | tuple ts =>
        refine htuple ts (fun t ht => ih t ?_)
        have := Ty.size_le_sizeList ht; simp only [Ty.size] at h; omega
      | union ts =>
        refine hunion ts (fun t ht => ih t ?_)
        have := Ty.size_le_sizeList ht; simp only [Ty.size] at h; omega
      | null => exact hnull | int => exact hint | float => exact hfloat | bool => exact hbool
      | str => exact hstr | time => exact htime | dur => exact hdur | listNil => exact hlistNil | any => exact hany
  exact fun t => aux t.size t (Nat.le_refl _)

theorem getValue_null (t : Ty) (oj : Option J) (h : oj = none ∨ oj = some .null) : getValue t oj = (.null, nullOk t) := by
  rcases h with h | h <;> subst h <;> simp [getValue]

/-! ### `ok` ⇔ representable -/

theorem andOk_snd (l : List (Value × Bool)) : (andOk l).2 = l.all (·.2) := rfl
theorem andOk_fst (l : List (Value × Bool)) : (andOk l).1 = l.map (·.1) := rfl

theorem getFields_ok (o : J) : ∀ (ts : List Ty) (ns : List Name),
    (∀ t ∈ ts, ∀ oj, (getValue t oj).2 = fits t oj) → (getFields ns ts o).2 = fitsFields ns ts o
  | [], ns, _ => by simp [getFields, fitsFields]
  | t :: ts, ns, h => by
    simp only [getFields, fitsFields]
    rw [h t (by simp), getFields_ok o ts ns.tail (fun t' ht' => h t' (by simp [ht']))]

theorem getUnion_ok (j : J) : ∀ (alts : List Ty),
    (∀ t ∈ alts, ∀ oj, (getValue t oj).2 = fits t oj) → (getUnion alts j).2 = fitsAny alts j
  | [], _ => by simp [getUnion, fitsAny]
  | a :: as, h => by
    simp only [getUnion, fitsAny]
    rw [← h a (by simp)]
    by_cases hc : (getValue a (some j)).2 = true
    · simp [hc]
    · simp only [hc, Bool.false_eq_true, if_false, Bool.false_or]
      exact getUnion_ok j as (fun t' ht' => h t' (by simp [ht']))

/-- **`getOctoSQLValue` reports ok exactly when the JSON value is representable in the type** -/
theorem getValue_ok_iff_fits : ∀ (t : Ty) (oj : Option J), (getValue t oj).2 = fits t oj := by
  apply Ty.induct
  · intro e ih oj
    cases oj with
    | none => simp [getValue, fits]
    | some j =>
      cases j <;> simp [getValue, fits, andOk_snd]
      next xs => simp only [Function.comp_def, ih]
  · intro ns ts ih oj
    cases oj with
    | none => simp [getValue, fits]
    | some j =>
      cases j <;> simp [getValue, fits]
      next ks vs => exact getFields_ok _ ts ns ih
  · intro ts _ oj
    cases oj with
    | none => simp [getValue, fits]
    | some j => cases j <;> simp [getValue, fits]
  · intro alts ih oj
    cases oj with
    | none => simp [getValue, fits]
    | some j =>
      cases j <;> simp [getValue, fits] <;> exact getUnion_ok _ alts ih
  case htime =>
    intro oj
    cases oj with
    | none => simp [getValue, fits]
    | some j =>
      cases j <;> simp [getValue, fits]
      next s tm => cases tm <;> simp [getValue]
  case hlistNil =>
    intro oj
    cases oj with
    | none => simp [getValue, fits]
    | some j =>
      cases j <;> simp [getValue, fits]
      next xs => cases xs <;> simp
  all_goals
    intro oj
    cases oj with
    | none => simp [getValue, fits]
    | some j => cases j <;> simp [getValue, fits]

/-! ### an accepted value matches the type -/

theorem conforms_null_of_nullOk (t : Ty) (h : nullOk t = true) : conforms t .null = true := by
  simp only [nullOk, beq_iff_eq] at h
  exact Ty.is_sound h .null (by simp [conforms])

def ConformsP (t : Ty) : Prop := ∀ oj, (getValue t oj).2 = true → conforms t (getValue t oj).1 = true

theorem getFields_conforms (o : J) : ∀ (ts : List Ty) (ns : List Name), (∀ t ∈ ts, ConformsP t) →
    (getFields ns ts o).2 = true → conformsZip ts (getFields ns ts o).1 = true
  | [], ns, _, _ => by simp [getFields, conformsZip]
  | t :: ts, ns, h, hok => by
    simp only [getFields, Bool.and_eq_true] at hok ⊢
    simp only [conformsZip, Bool.and_eq_true]
    exact ⟨h t (by simp) _ hok.1, getFields_conforms o ts ns.tail (fun t' ht' => h t' (by simp [ht'])) hok.2⟩

theorem getUnion_conforms (j : J) : ∀ (alts : List Ty), (∀ t ∈ alts, ConformsP t) →
    (getUnion alts j).2 = true → conformsAny alts (getUnion alts j).1 = true
  | [], _, h => by simp [getUnion] at h
  | a :: as, h, hok => by
    simp only [getUnion] at hok ⊢
    by_cases hc : (getValue a (some j)).2 = true
    · simp only [hc, if_true, conformsAny, Bool.or_eq_true]
      exact Or.inl (h a (by simp) _ hc)
    · simp only [hc, Bool.false_eq_true, if_false] at hok ⊢
      simp only [conformsAny, Bool.or_eq_true]
      exact Or.inr (getUnion_conforms j as (fun t' ht' => h t' (by simp [ht'])) hok)

theorem list_conforms (e : Ty) (ih : ConformsP e) : ∀ (xs : List J),
    (xs.map fun x => getValue e (some x)).all (·.2) = true →
    ((xs.map fun x => getValue e (some x)).map (·.1)).all (fun v => conforms e v) = true
  | [], _ => by simp
  | x :: xs, h => by
    simp only [List.map_cons, List.all_cons, Bool.and_eq_true] at h ⊢
    exact ⟨ih _ h.1, list_conforms e ih xs h.2⟩

/-- **every value `getOctoSQLValue` accepts matches the type it was converted for** -/
theorem getValue_conforms : ∀ (t : Ty), ConformsP t := by
  apply Ty.induct
  · intro e ih oj hok
    cases oj with
    | none => rw [getValue_null _ _ (Or.inl rfl)] at hok ⊢; exact conforms_null_of_nullOk _ hok
    | some j =>
      cases j with
      | null => rw [getValue_null _ _ (Or.inr rfl)] at hok ⊢; exact conforms_null_of_nullOk _ hok
      | arr xs =>
        simp only [getValue, andOk_snd, andOk_fst] at hok ⊢
        simp only [conforms]
        exact list_conforms e ih xs hok
      | bool _ => simp [getValue] at hok
      | num _ => simp [getValue] at hok
      | str _ _ => simp [getValue] at hok
      | obj _ _ => simp [getValue] at hok
  · intro ns ts ih oj hok
    cases oj with
    | none => rw [getValue_null _ _ (Or.inl rfl)] at hok ⊢; exact conforms_null_of_nullOk _ hok
    | some j =>
      cases j with
      | null => rw [getValue_null _ _ (Or.inr rfl)] at hok ⊢; exact conforms_null_of_nullOk _ hok
      | obj ks vs =>
        simp only [getValue] at hok ⊢
        simp only [conforms]
        exact getFields_conforms _ ts ns ih hok
      | bool _ => simp [getValue] at hok
      | num _ => simp [getValue] at hok
      | str _ _ => simp [getValue] at hok
      | arr _ => simp [getValue] at hok
  · intro ts _ oj hok
    cases oj with
    | none => rw [getValue_null _ _ (Or.inl rfl)] at hok ⊢; exact conforms_null_of_nullOk _ hok
    | some j =>
      cases j with
      | null => rw [getValue_null _ _ (Or.inr rfl)] at hok ⊢; exact conforms_null_of_nullOk _ hok
      | _ => simp [getValue] at hok
  · intro alts ih oj hok
    cases oj with
    | none => rw [getValue_null _ _ (Or.inl rfl)] at hok ⊢; exact conforms_null_of_nullOk _ hok
    | some j =>
      cases j with
      | null => rw [getValue_null _ _ (Or.inr rfl)] at hok ⊢; exact conforms_null_of_nullOk _ hok
      | bool b => simp only [getValue] at hok ⊢; simp only [conforms]; exact getUnion_conforms _ alts ih hok
      | num b => simp only [getValue] at hok ⊢; simp only [conforms]; exact getUnion_conforms _ alts ih hok
      | str s tm => simp only [getValue] at hok ⊢; simp only [conforms]; exact getUnion_conforms _ alts ih hok
      | arr xs => simp only [getValue] at hok ⊢; simp only [conforms]; exact getUnion_conforms _ alts ih hok
      | obj ks vs => simp only [getValue] at hok ⊢; simp only [conforms]; exact getUnion_conforms _ alts ih hok
  all_goals
    intro oj hok
    cases oj with
    | none => rw [getValue_null _ _ (Or.inl rfl)] at hok ⊢; exact conforms_null_of_nullOk _ hok
    | some j =>
      cases j with
      | null => rw [getValue_null _ _ (Or.inr rfl)] at hok ⊢; exact conforms_null_of_nullOk _ hok
      | bool b => simp [getValue] at hok ⊢ <;> simp [conforms]
      | num b => simp [getValue] at hok ⊢ <;> simp [conforms]
      | str s tm => cases tm <;> simp [getValue] at hok ⊢ <;> simp [conforms]
      | arr xs => cases xs <;> simp [getValue] at hok ⊢ <;> simp [conforms]
      | obj ks vs => simp [getValue] at hok ⊢ <;> simp [conforms]

/-! ### an accepted value carries what the document contains -/

def RepresentsP (t : Ty) : Prop := ∀ oj, (getValue t oj).2 = true → represents t (getValue t oj).1 oj = true

theorem represents_null (t : Ty) (oj : Option J) (h : oj = none ∨ oj = some .null) : represents t .null oj = true := by
  rcases h with h | h <;> subst h <;> cases t <;> simp [represents]

theorem getFields_represents (o : J) : ∀ (ts : List Ty) (ns : List Name), (∀ t ∈ ts, RepresentsP t) →
    (getFields ns ts o).2 = true → representsFields ns ts (getFields ns ts o).1 o = true
  | [], ns, _, _ => by simp [getFields, representsFields]
  | t :: ts, ns, h, hok => by
    simp only [getFields, Bool.and_eq_true] at hok ⊢
    simp only [representsFields, Bool.and_eq_true]
    exact ⟨h t (by simp) _ hok.1, getFields_represents o ts ns.tail (fun t' ht' => h t' (by simp [ht'])) hok.2⟩

theorem getUnion_represents (j : J) : ∀ (alts : List Ty), (∀ t ∈ alts, RepresentsP t) →
    (getUnion alts j).2 = true → representsAny alts (getUnion alts j).1 j = true
  | [], _, h => by simp [getUnion] at h
  | a :: as, h, hok => by
    simp only [getUnion] at hok ⊢
    by_cases hc : (getValue a (some j)).2 = true
    · simp only [hc, if_true, representsAny, Bool.or_eq_true]
      exact Or.inl (h a (by simp) _ hc)
    · simp only [hc, Bool.false_eq_true, if_false] at hok ⊢
      simp only [representsAny, Bool.or_eq_true]
      exact Or.inr (getUnion_represents j as (fun t' ht' => h t' (by simp [ht'])) hok)

theorem list_represents (e : Ty) (ih : RepresentsP e) : ∀ (xs : List J),
    (xs.map fun x => getValue e (some x)).all (·.2) = true →
    zipAll (fun v x => represents e v (some x)) ((xs.map fun x => getValue e (some x)).map (·.1)) xs = true
  | [], _ => by simp [zipAll]
  | x :: xs, h => by
    simp only [List.map_cons, List.all_cons, Bool.and_eq_true] at h
    simp only [List.map_cons, zipAll, Bool.and_eq_true]
    exact ⟨ih _ h.1, list_represents e ih xs h.2⟩

/-- **every value `getOctoSQLValue` accepts is the value the document contains** (read back through the type) -/
theorem getValue_represents : ∀ (t : Ty), RepresentsP t := by
  apply Ty.induct
  · intro e ih oj hok
    cases oj with
    | none => rw [getValue_null _ _ (Or.inl rfl)]; exact represents_null _ _ (Or.inl rfl)
    | some j =>
      cases j with
      | null => rw [getValue_null _ _ (Or.inr rfl)]; exact represents_null _ _ (Or.inr rfl)
      | arr xs =>
        simp only [getValue, andOk_snd, andOk_fst] at hok ⊢
        simp only [represents]
        exact list_represents e ih xs hok
      | bool _ => simp [getValue] at hok
      | num _ => simp [getValue] at hok
      | str _ _ => simp [getValue] at hok
      | obj _ _ => simp [getValue] at hok
  · intro ns ts ih oj hok
    cases oj with
    | none => rw [getValue_null _ _ (Or.inl rfl)]; exact represents_null _ _ (Or.inl rfl)
    | some j =>
      cases j with
      | null => rw [getValue_null _ _ (Or.inr rfl)]; exact represents_null _ _ (Or.inr rfl)
      | obj ks vs =>
        simp only [getValue] at hok ⊢
        simp only [represents]
        exact getFields_represents _ ts ns ih hok
      | bool _ => simp [getValue] at hok
      | num _ => simp [getValue] at hok
      | str _ _ => simp [getValue] at hok
      | arr _ => simp [getValue] at hok
  · intro ts _ oj hok
    cases oj with
    | none => rw [getValue_null _ _ (Or.inl rfl)]; exact represents_null _ _ (Or.inl rfl)
    | some j =>
      cases j with
      | null => rw [getValue_null _ _ (Or.inr rfl)]; exact represents_null _ _ (Or.inr rfl)
      | _ => simp [getValue] at hok
  · intro alts ih oj hok
    cases oj with
    | none => rw [getValue_null _ _ (Or.inl rfl)]; exact represents_null _ _ (Or.inl rfl)
    | some j =>
      cases j with
      | null => rw [getValue_null _ _ (Or.inr rfl)]; exact represents_null _ _ (Or.inr rfl)
      | bool b =>
        simp only [getValue] at hok ⊢
        have := getUnion_represents _ alts ih hok
        cases hv : (getUnion alts (J.bool b)).1 <;> simp only [hv, represents] at this ⊢ <;> exact this
      | num b =>
        simp only [getValue] at hok ⊢
        have := getUnion_represents _ alts ih hok
        cases hv : (getUnion alts (J.num b)).1 <;> simp only [hv, represents] at this ⊢ <;> exact this
      | str s tm =>
        simp only [getValue] at hok ⊢
        have := getUnion_represents _ alts ih hok
        cases hv : (getUnion alts (J.str s tm)).1 <;> simp only [hv, represents] at this ⊢ <;> exact this
      | arr xs =>
        simp only [getValue] at hok ⊢
        have := getUnion_represents _ alts ih hok
        cases hv : (getUnion alts (J.arr xs)).1 <;> simp only [hv, represents] at this ⊢ <;> exact this
      | obj ks vs =>
        simp only [getValue] at hok ⊢
        have := getUnion_represents _ alts ih hok
        cases hv : (getUnion alts (J.obj ks vs)).1 <;> simp only [hv, represents] at this ⊢ <;> exact this
  all_goals
    intro oj hok
    cases oj with
    | none => rw [getValue_null _ _ (Or.inl rfl)]; exact represents_null _ _ (Or.inl rfl)
    | some j =>
      cases j with
      | null => rw [getValue_null _ _ (Or.inr rfl)]; exact represents_null _ _ (Or.inr rfl)
      | bool b => simp [getValue] at hok ⊢ <;> simp [represents]
      | num b => simp [getValue] at hok ⊢ <;> simp [represents]
      | str s tm => cases tm <;> simp [getValue] at hok ⊢ <;> simp [represents]
      | arr xs => cases xs <;> simp [getValue] at hok ⊢ <;> simp [represents]
      | obj ks vs => simp [getValue] at hok ⊢ <;> simp [represents]

theorem allSome_spec {α} : ∀ (l : List (Option α)) (r : List α), allSome l = some r →
    r.length = l.length ∧ ∀ (i : Nat) (x : α), r[i]? = some x → l[i]? = some (some x)
  | [], r, h => by simp only [allSome, Option.some.injEq] at h; subst h; simp
  | none :: _, _, h => by simp [allSome] at h
  | some a :: l, r, h => by
    simp only [allSome, Option.map_eq_some_iff] at h
    obtain ⟨r', hr', rfl⟩ := h
    obtain ⟨hl, hi⟩ := allSome_spec l r' hr'
    refine ⟨by simp [hl], ?_⟩
    intro i x hx
    cases i with
    | zero => simpa using hx
    | succ i => simpa using hi i x (by simpa using hx)

theorem allSome_eq_map {α} : ∀ (l : List (Option α)) (r : List α), allSome l = some r → l = r.map some
  | [], r, h => by simp only [allSome, Option.some.injEq] at h; subst h; rfl
  | none :: _, _, h => by simp [allSome] at h
  | some a :: l, r, h => by
    simp only [allSome, Option.map_eq_some_iff] at h
    obtain ⟨r', hr', rfl⟩ := h
    simp [allSome_eq_map l r' hr']

end Octo.Files
