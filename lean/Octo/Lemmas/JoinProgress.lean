import Octo.Lemmas.JoinFinal
/-!
  Absence of panics: when does `run cfg σ` end in `.ok`?  The Go code panics in `receiveRecord` in two
  ways: a key column index out of range, and `EventTimes[1:]` of an empty slice (a retraction of a
  row that its own tree does not hold).  This file proves that neither happens when
  * every record has its key columns,
  * records that carry an event time are never retractions, and
  * the records without event time of each input form, in arrival order, a valid changelog
  — which covers append-only streams and tables / changelogs without event times (the C02 case).
-/
namespace Octo.Join
open Octo

variable {cfg : Cfg} {W : List Rec → List Rec → Row → Int}

def KeysOK (cfg : Cfg) (left : Bool) (x : Rec) : Prop :=
  ∃ k, keyOf (if left then cfg.keysL else cfg.keysR) x.vals = some k

/-- processing `x` against its own tree does not slice an empty `EventTimes` -/
def SafeStore (cfg : Cfg) (left : Bool) (tm : Tree) (x : Rec) : Prop :=
  ∀ key, keyOf (if left then cfg.keysL else cfg.keysR) x.vals = some key → hasNull key = false →
    x.retr = true → timesOf x.vals (subsOf key tm) ≠ []

def untimed (x : Rec) : Bool := x.et.isNone

/-! ### receiveRecord returns -/
theorem store_some {t : Tree} {key : Row} {x : Rec} (h : x.retr = true → timesOf x.vals (subsOf key t) ≠ []) :
    ∃ res, store t key x = some res := by
  unfold store newTimes
  by_cases hr : x.retr = true
  · have := h hr
    rw [if_pos hr]
    cases ht : timesOf x.vals (subsOf key t) with
    | nil => exact absurd ht this
    | cons a ts => exact ⟨_, rfl⟩
  · rw [if_neg hr]; exact ⟨_, rfl⟩

theorem recv_store_some (hc : cfg.nullMatch = false) {left : Bool} {tm to : Tree} {x : Rec}
    (hk : KeysOK cfg left x) (hs : SafeStore cfg left tm x) :
    ∃ tm' em, recv cfg (some tm) (some to) left x false = some (some tm', em) := by
  obtain ⟨key, hkey⟩ := hk
  unfold recv
  by_cases ho : cfg.outer = true
  · rw [if_pos ho]
    unfold ojRecv
    rw [hkey]
    simp only [hc, Bool.not_false, Bool.true_and]
    by_cases hn : hasNull key = true
    · rw [if_pos hn]; exact ⟨_, _, rfl⟩
    · have hn' : hasNull key = false := by cases hh : hasNull key <;> simp_all
      rw [if_neg hn]
      obtain ⟨res, hres⟩ := store_some (hs key hkey hn')
      rw [hres]
      simp only
      by_cases he : (subsOf key to).isEmpty = true
      · rw [if_pos he]; exact ⟨_, _, rfl⟩
      · rw [if_neg he]; exact ⟨_, _, rfl⟩
  · rw [if_neg ho]
    unfold sjRecv
    rw [hkey]
    simp only [hc, Bool.not_false, Bool.true_and]
    by_cases hn : hasNull key = true
    · rw [if_pos hn]; exact ⟨_, _, rfl⟩
    · have hn' : hasNull key = false := by cases hh : hasNull key <;> simp_all
      rw [if_neg hn]
      obtain ⟨res, hres⟩ := store_some (hs key hkey hn')
      simp only [Bool.false_eq_true, if_false, hres, Option.map_some]
      exact ⟨_, _, rfl⟩

theorem recv_osr_some (hc : cfg.nullMatch = false) (ho : cfg.outer = false) {left : Bool} {to : Tree} {x : Rec}
    (hk : KeysOK cfg left x) : ∃ em, recv cfg none (some to) left x true = some (none, em) := by
  obtain ⟨key, hkey⟩ := hk
  unfold recv
  rw [ho]
  simp only [Bool.false_eq_true, if_false]
  unfold sjRecv
  rw [hkey]
  simp only [hc, Bool.not_false, Bool.true_and]
  by_cases hn : hasNull key = true
  · rw [if_pos hn]; exact ⟨_, rfl⟩
  · rw [if_neg hn]; simp only [if_true]; exact ⟨_, rfl⟩

theorem safe_of_insert {left : Bool} {tm : Tree} {x : Rec} (h : x.retr = false) : SafeStore cfg left tm x := by
  intro _ _ _ hr; rw [h] at hr; cases hr

theorem procList_store_progress (hc : cfg.nullMatch = false) {left : Bool} {to : Tree} :
    ∀ (xs : List Rec) (tm : Tree), (∀ x ∈ xs, x.retr = false ∧ KeysOK cfg left x) →
      ∃ tm' em, procList cfg left false (some to) (some tm) xs = (some tm', em, true)
  | [], tm, _ => ⟨tm, [], rfl⟩
  | x :: xs, tm, h => by
    obtain ⟨tm1, em1, h1⟩ := recv_store_some hc (to := to) (h x (by simp)).2 (safe_of_insert (tm := tm) (h x (by simp)).1)
    obtain ⟨tm2, em2, h2⟩ := procList_store_progress hc (to := to) xs tm1 (fun y hy => h y (by simp [hy]))
    refine ⟨tm2, em1 ++ em2, ?_⟩
    simp only [procList, h1, h2]

theorem procList_osr_progress (hc : cfg.nullMatch = false) (ho : cfg.outer = false) {left : Bool} {to : Tree} :
    ∀ (xs : List Rec), (∀ x ∈ xs, KeysOK cfg left x) →
      ∃ em, procList cfg left true (some to) none xs = (none, em, true)
  | [], _ => ⟨[], rfl⟩
  | x :: xs, h => by
    obtain ⟨em1, h1⟩ := recv_osr_some hc ho (to := to) (h x (by simp))
    obtain ⟨em2, h2⟩ := procList_osr_progress hc ho (to := to) xs (fun y hy => h y (by simp [hy]))
    refine ⟨em1 ++ em2, ?_⟩
    simp only [procList, h1, h2]

/-! ### processRecordsUpTo returns -/
theorem processSide_left_progress (hc : cfg.nullMatch = false) {s : St} {PL PR : List Rec} {drop : Option Bool} (b : Bound)
    (hd : drop.isSome = true → cfg.outer = false) (ht : TreesOK cfg s PL PR drop)
    (hb : ∀ x ∈ bufAll s.bufL, x.retr = false ∧ KeysOK cfg true x) :
    ∃ s', processSide cfg true s b drop.isSome = .ok s' := by
  unfold processSide
  simp only [if_true]
  have hb' : ∀ x ∈ (Buf.emit b s.bufL).1, x.retr = false ∧ KeysOK cfg true x := fun x hx => hb x (mem_emit_of hx)
  cases drop with
  | none =>
    obtain ⟨tl, tr, hl, hr, _, _⟩ := ht
    rw [hr, hl]
    obtain ⟨tm', em, hp⟩ := procList_store_progress hc (to := tr) (Buf.emit b s.bufL).1 tl hb'
    simp only [Option.isSome_some, if_true, Option.isSome_none, hp]
    exact ⟨_, rfl⟩
  | some side =>
    have hno := hd rfl
    cases side with
    | true =>
      obtain ⟨hl, _, tr, hr, _⟩ := ht
      rw [hr, hl]
      obtain ⟨em, hp⟩ := procList_osr_progress hc hno (to := tr) (Buf.emit b s.bufL).1 (fun x hx => (hb' x hx).2)
      simp only [Option.isSome_some, if_true, hp]
      exact ⟨_, rfl⟩
    | false =>
      obtain ⟨hr, _, _, _, _⟩ := ht
      rw [hr]
      simp only [Option.isSome_none, Bool.false_eq_true, if_false]
      exact ⟨_, rfl⟩

theorem processSide_right_progress (hc : cfg.nullMatch = false) {s : St} {PL PR : List Rec} {drop : Option Bool} (b : Bound)
    (hd : drop.isSome = true → cfg.outer = false) (ht : TreesOK cfg s PL PR drop)
    (hb : ∀ x ∈ bufAll s.bufR, x.retr = false ∧ KeysOK cfg false x) :
    ∃ s', processSide cfg false s b drop.isSome = .ok s' := by
  unfold processSide
  simp only [Bool.false_eq_true, if_false]
  have hb' : ∀ x ∈ (Buf.emit b s.bufR).1, x.retr = false ∧ KeysOK cfg false x := fun x hx => hb x (mem_emit_of hx)
  cases drop with
  | none =>
    obtain ⟨tl, tr, hl, hr, _, _⟩ := ht
    rw [hr, hl]
    obtain ⟨tm', em, hp⟩ := procList_store_progress hc (to := tl) (Buf.emit b s.bufR).1 tr hb'
    simp only [Option.isSome_some, if_true, Option.isSome_none, hp]
    exact ⟨_, rfl⟩
  | some side =>
    have hno := hd rfl
    cases side with
    | false =>
      obtain ⟨hr, _, tl, hl, _⟩ := ht
      rw [hr, hl]
      obtain ⟨em, hp⟩ := procList_osr_progress hc hno (to := tl) (Buf.emit b s.bufR).1 (fun x hx => (hb' x hx).2)
      simp only [Option.isSome_some, if_true, hp]
      exact ⟨_, rfl⟩
    | true =>
      obtain ⟨hl, _, _, _, _⟩ := ht
      rw [hl]
      simp only [Option.isSome_none, Bool.false_eq_true, if_false]
      exact ⟨_, rfl⟩

theorem processUpTo_progress (ok : RecvOK cfg W) (hc : cfg.nullMatch = false) {s : St} {PL PR : List Rec}
    {drop : Option Bool} (b : Bound)
    (hd : drop.isSome = true → cfg.outer = false) (hcore : Core cfg W s PL PR drop)
    (hshL : ∀ x ∈ bufAll s.bufL, Shape cfg true x)
    (hbL : ∀ x ∈ bufAll s.bufL, x.retr = false ∧ KeysOK cfg true x)
    (hbR : ∀ x ∈ bufAll s.bufR, x.retr = false ∧ KeysOK cfg false x) :
    ∃ s', processUpTo cfg s b drop.isSome = .ok s' := by
  unfold processUpTo
  obtain ⟨s1, h1⟩ := processSide_left_progress hc b hd hcore.trees hbL
  rw [h1]
  simp only
  obtain ⟨c1, _, b2, _⟩ := processSide_left ok hd hcore hshL h1
  exact processSide_right_progress hc b hd c1.trees (by rw [b2]; exact hbR)

/-! ### the events return -/
/-- buffered records are insertions with their key columns -/
def BufSafe (cfg : Cfg) (s : St) : Prop :=
  (∀ x ∈ bufAll s.bufL, x.retr = false ∧ KeysOK cfg true x) ∧ (∀ x ∈ bufAll s.bufR, x.retr = false ∧ KeysOK cfg false x)

theorem onWm_progress (ok : RecvOK cfg W) (hc : cfg.nullMatch = false) {s : St} {RL RR PL PR : List Rec} (left : Bool) (w : Int)
    (hi : Inv cfg W s none RL RR PL PR) (hshL : ∀ x ∈ RL, Shape cfg true x) (hb : BufSafe cfg s) :
    ∃ s', onWm cfg s left w = .ok s' := by
  unfold onWm
  generalize hs0 : (if left = true then { s with lw := some w } else { s with rw := some w } : St) = s0
  have e4 : s0.bufL = s.bufL := by subst hs0; cases left <;> rfl
  have e5 : s0.bufR = s.bufR := by subst hs0; cases left <;> rfl
  have e6 : s0.out = s.out := by subst hs0; cases left <;> rfl
  have e7 : s0.treeL = s.treeL := by subst hs0; cases left <;> rfl
  have e8 : s0.treeR = s.treeR := by subst hs0; cases left <;> rfl
  simp only []
  generalize (if left = true then if after s0.lw s0.rw = true then s0.rw else s0.lw
      else if after s0.rw s0.lw = true then s0.lw else s0.rw) = mn
  cases mn with
  | none => exact ⟨_, rfl⟩
  | some m =>
    simp only
    by_cases ha : after (some m) s0.minW = true
    · rw [if_pos ha]
      have hcore : Core cfg W { s0 with minW := some m } PL PR none :=
        ⟨by show ∀ row, net (recs s0.out) row = _; rw [e6]; exact hi.core.out, by
          obtain ⟨tl, tr, hl, hr, repl, repr⟩ := hi.core.trees
          exact ⟨tl, tr, by show s0.treeL = _; rw [e7]; exact hl, by show s0.treeR = _; rw [e8]; exact hr, repl, repr⟩⟩
      obtain ⟨s1, h1⟩ := processUpTo_progress ok hc (drop := none) (.at (some m)) (by simp) hcore
        (by show ∀ x ∈ bufAll s0.bufL, _; rw [e4]; exact inv_shapeL hi hshL)
        (by show ∀ x ∈ bufAll s0.bufL, _; rw [e4]; exact hb.1)
        (by show ∀ x ∈ bufAll s0.bufR, _; rw [e5]; exact hb.2)
      have h1' : processUpTo cfg { s0 with minW := some m } (.at (some m)) false = .ok s1 := h1
      rw [h1']
      exact ⟨_, rfl⟩
    · rw [if_neg ha]; exact ⟨_, rfl⟩

theorem onFirstClose_progress (ok : RecvOK cfg W) (hc : cfg.nullMatch = false) (hsw : cfg.switchOsr = false)
    {s : St} {RL RR PL PR : List Rec} (leftDone : Bool)
    (hi : Inv cfg W s none RL RR PL PR) (hshL : ∀ x ∈ RL, Shape cfg true x) (hb : BufSafe cfg s) :
    ∃ p, onFirstClose cfg s leftDone = .ok p := by
  unfold onFirstClose
  simp only [hsw, Bool.and_false]
  have hcore : Core cfg W { s with minW := if leftDone = true then s.rw else s.lw } PL PR none :=
    ⟨hi.core.out, hi.core.trees⟩
  obtain ⟨s1, h1⟩ := processUpTo_progress ok hc (drop := none) (.at (if leftDone = true then s.rw else s.lw)) (by simp) hcore
    (by show ∀ x ∈ bufAll s.bufL, _; exact inv_shapeL hi hshL) (by exact hb.1) (by exact hb.2)
  have h1' : processUpTo cfg { s with minW := if leftDone = true then s.rw else s.lw }
      (.at (if leftDone = true then s.rw else s.lw)) false = .ok s1 := h1
  rw [h1']
  exact ⟨_, rfl⟩

theorem onWmOne_progress (ok : RecvOK cfg W) (hc : cfg.nullMatch = false)
    {s : St} {drop : Option Bool} {RL RR PL PR : List Rec} (leftDone : Bool) (w : Int)
    (hd : drop.isSome = true → cfg.outer = false)
    (hi : Inv cfg W s drop RL RR PL PR) (hshL : ∀ x ∈ RL, Shape cfg true x) (hb : BufSafe cfg s) :
    ∃ p, onWmOne cfg s leftDone drop.isSome w = .ok p := by
  unfold onWmOne
  obtain ⟨s1, h1⟩ := processUpTo_progress ok hc (.at (some w)) hd hi.core (inv_shapeL hi hshL) hb.1 hb.2
  rw [h1]
  exact ⟨_, rfl⟩

theorem onSecondClose_progress (ok : RecvOK cfg W) (hc : cfg.nullMatch = false)
    {s : St} {drop : Option Bool} {RL RR PL PR : List Rec}
    (hd : drop.isSome = true → cfg.outer = false)
    (hi : Inv cfg W s drop RL RR PL PR) (hshL : ∀ x ∈ RL, Shape cfg true x) (hb : BufSafe cfg s) :
    ∃ s', onSecondClose cfg s drop.isSome = .ok s' := by
  unfold onSecondClose
  exact processUpTo_progress ok hc .top hd hi.core (inv_shapeL hi hshL) hb.1 hb.2

theorem onRec_left_progress (hc : cfg.nullMatch = false) {s : St} {drop : Option Bool} {RL RR PL PR : List Rec} {x : Rec}
    (hd : drop.isSome = true → cfg.outer = false) (hopen : drop ≠ some false)
    (hi : Inv cfg W s drop RL RR PL PR) (hk : KeysOK cfg true x)
    (hsafe : x.et = none → ∀ tl, s.treeL = some tl → SafeStore cfg true tl x) :
    ∃ s', onRec cfg s true x drop.isSome = .ok s' := by
  unfold onRec
  cases het : x.et with
  | some t => exact ⟨_, rfl⟩
  | none =>
    simp only
    unfold directRecv
    simp only [if_true]
    cases drop with
    | none =>
      obtain ⟨tl, tr, hl, hr, _, _⟩ := hi.core.trees
      obtain ⟨tm', em, h1⟩ := recv_store_some hc (to := tr) hk (hsafe het tl hl)
      rw [hl, hr]
      simp only [Option.isSome_none, h1]
      exact ⟨_, rfl⟩
    | some side =>
      have hno := hd rfl
      cases side with
      | false => exact absurd rfl hopen
      | true =>
        obtain ⟨hl, _, tr, hr, _⟩ := hi.core.trees
        obtain ⟨em, h1⟩ := recv_osr_some hc hno (to := tr) hk
        rw [hl, hr]
        simp only [Option.isSome_some, h1]
        exact ⟨_, rfl⟩

theorem onRec_right_progress (hc : cfg.nullMatch = false) {s : St} {drop : Option Bool} {RL RR PL PR : List Rec} {x : Rec}
    (hd : drop.isSome = true → cfg.outer = false) (hopen : drop ≠ some true)
    (hi : Inv cfg W s drop RL RR PL PR) (hk : KeysOK cfg false x)
    (hsafe : x.et = none → ∀ tr, s.treeR = some tr → SafeStore cfg false tr x) :
    ∃ s', onRec cfg s false x drop.isSome = .ok s' := by
  unfold onRec
  cases het : x.et with
  | some t => exact ⟨_, rfl⟩
  | none =>
    simp only
    unfold directRecv
    simp only [Bool.false_eq_true, if_false]
    cases drop with
    | none =>
      obtain ⟨tl, tr, hl, hr, _, _⟩ := hi.core.trees
      obtain ⟨tm', em, h1⟩ := recv_store_some hc (to := tl) hk (hsafe het tr hr)
      rw [hl, hr]
      simp only [Option.isSome_none, h1]
      exact ⟨_, rfl⟩
    | some side =>
      have hno := hd rfl
      cases side with
      | true => exact absurd rfl hopen
      | false =>
        obtain ⟨hr, _, tl, hl, _⟩ := hi.core.trees
        obtain ⟨em, h1⟩ := recv_osr_some hc hno (to := tl) hk
        rw [hl, hr]
        simp only [Option.isSome_some, h1]
        exact ⟨_, rfl⟩

/-! ### a retraction without event time finds its row -/
theorem getElem?_congr : ∀ {a b : Row}, cmpList a b = 0 → ∀ (i : Nat) {v : Value}, a[i]? = some v →
    ∃ v', b[i]? = some v' ∧ cmp v v' = 0
  | [], [], _, i, v, h => by simp at h
  | [], _ :: _, h, _, _, _ => by simp [cmpList, cmpListWith] at h
  | _ :: _, [], h, _, _, _ => by simp [cmpList, cmpListWith] at h
  | x :: xs, y :: ys, h, i, v, hv => by
    have hh := (cmpList_cons_eq x y xs ys).mp h
    cases i with
    | zero =>
      simp only [List.getElem?_cons_zero] at hv ⊢
      have := Option.some.inj hv; subst this
      exact ⟨y, rfl, hh.1⟩
    | succ i =>
      simp only [List.getElem?_cons_succ] at hv ⊢
      exact getElem?_congr hh.2 i hv

theorem keyOf_congr {a b : Row} (h : cmpList a b = 0) : ∀ (cols : List Nat) {ka : Row}, keyOf cols a = some ka →
    ∃ kb, keyOf cols b = some kb ∧ cmpList ka kb = 0
  | [], ka, hk => by
    simp only [keyOf] at hk
    have := Option.some.inj hk; subst this
    exact ⟨[], rfl, rfl⟩
  | i :: is, ka, hk => by
    simp only [keyOf] at hk
    cases hv : a[i]? with
    | none => rw [hv] at hk; simp at hk
    | some v =>
      cases hr : keyOf is a with
      | none => rw [hv, hr] at hk; simp at hk
      | some vs =>
        rw [hv, hr] at hk
        simp only at hk
        have := Option.some.inj hk; subst this
        obtain ⟨v', hv', hc⟩ := getElem?_congr h i hv
        obtain ⟨vs', hr', hcs⟩ := keyOf_congr h is hr
        refine ⟨v' :: vs', ?_, (cmpList_cons_eq v v' vs vs').mpr ⟨hc, hcs⟩⟩
        simp only [keyOf, hv', hr']

/-- for a record `x` stored under `key`, the other records count towards `x`'s row exactly by their weight -/
theorem repTerm_eq_weight {left : Bool} {x : Rec} {key : Row}
    (hkey : keyOf (if left then cfg.keysL else cfg.keysR) x.vals = some key) (hn : hasNull key = false) (p : Rec) :
    repTerm cfg left key (gEq x.vals) p = p.weight x.vals := by
  unfold repTerm Rec.weight gEq sgn
  by_cases hr : rowEq p.vals x.vals = true
  · have hc : cmpList x.vals p.vals = 0 := cmpList_eq_symm (rowEq_iff.mp hr)
    obtain ⟨kp, hkp, hck⟩ := keyOf_congr hc _ hkey
    have hnp : hasNull kp = false := by rw [← hasNull_congr hck]; exact hn
    have : storedKey cfg left p = some kp := keyOf_storedKey hkp hnp
    rw [this]
    simp only [cmpList_eq_symm hck, if_true, hr]
    split <;> simp
  · have hr' : rowEq p.vals x.vals = false := by cases h : rowEq p.vals x.vals <;> simp_all
    simp only [hr']
    cases storedKey cfg left p with
    | none => rfl
    | some kp => simp

theorem wsum_filter_le (f : Rec → Int) (q : Rec → Bool) : ∀ (l : List Rec), (∀ p ∈ l, q p = false → 0 ≤ f p) →
    wsum f (l.filter q) ≤ wsum f l
  | [], _ => by simp [wsum]
  | p :: l, h => by
    have ih := wsum_filter_le f q l (fun p' hp' => h p' (by simp [hp']))
    rw [List.filter_cons]
    by_cases hq : q p = true
    · rw [if_pos hq]; simp only [wsum]; omega
    · rw [if_neg hq]
      have := h p (by simp) (by cases hh : q p <;> simp_all)
      simp only [wsum]; omega

theorem weight_nonneg_of_insert {p : Rec} (h : p.retr = false) (row : Row) : 0 ≤ p.weight row := by
  unfold Rec.weight; rw [h]; split <;> simp

/-- if the untimed records processed so far (`U`) followed by `x` are a valid changelog, the tree holds `x`'s row -/
theorem safe_of_valid {left : Bool} {tl : Tree} {PL U : List Rec} {x : Rec}
    (hrep : Rep cfg left tl PL) (htimed : ∀ p ∈ PL, untimed p = false → p.retr = false)
    (hU : PL.filter untimed = U) (hval : 0 ≤ net (U ++ [x]) x.vals) : SafeStore cfg left tl x := by
  intro key hkey hn hretr hnil
  have h1 : ((timesOf x.vals (subsOf key tl)).length : Int) = net PL x.vals := by
    rw [timesOf_length (subsOf_sorted hrep.1 key), hrep.2 key _ (congr_gEq _), net_eq_wsum]
    exact wsum_congr (fun p _ => repTerm_eq_weight hkey hn p)
  rw [hnil] at h1
  have h2 : net (PL.filter untimed) x.vals ≤ net PL x.vals := by
    rw [net_eq_wsum, net_eq_wsum]
    exact wsum_filter_le _ _ _ (fun p hp hq => weight_nonneg_of_insert (htimed p hp hq) _)
  have h3 : net (U ++ [x]) x.vals = net U x.vals - 1 := by
    rw [net_append]
    simp [net, Rec.weight, rowEq_refl, hretr]; omega
  rw [hU] at h2
  simp at h1
  omega

theorem take_snoc (x : Rec) (V : List Rec) : ∀ U : List Rec, (U ++ x :: V).take (U.length + 1) = U ++ [x]
  | [] => by simp
  | u :: U => by simp [take_snoc x V U]

theorem validLog_prefix {U V : List Rec} {x : Rec} (h : ValidLog (U ++ x :: V)) (row : Row) : 0 ≤ net (U ++ [x]) row := by
  have := h (U.length + 1) row
  rw [take_snoc] at this
  exact this

/-! ### buffers hold timed records only -/
theorem mem_emit_snd {bd : Bound} {b : Buf} {x : Rec} (h : x ∈ bufAll (Buf.emit bd b).2) : x ∈ bufAll b := by
  rw [bufAll_emit bd b]; simp [h]

theorem filter_untimed_released {P P' R : List Rec} {buf : Buf} (hrel : Released P P' buf)
    (hbuf : ∀ x ∈ bufAll buf, untimed x = false) (h : P.filter untimed = R.filter untimed) :
    P'.filter untimed = R.filter untimed := by
  obtain ⟨b, hb, hmem⟩ := hrel
  rw [hb, List.filter_append, h, filter_eq_nil_of (l := b), List.append_nil]
  intro x hx; exact hbuf x (hmem x hx)

end Octo.Join
