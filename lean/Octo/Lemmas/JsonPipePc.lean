import Octo.Lemmas.JsonPipeLocal
/-! Program-counter level invariants of a single pipe (reader / consumer / `done` / contexts). -/
namespace Octo.JsonPipe

theorem finishBatch_cases (P : Pipe) :
    ((finishBatch P) = { P with cpc := .ret, ret := .ok } ∧ P.readerDone = true ∧ P.startIndex = P.linesRead)
    ∨ ((finishBatch P) = { P with cpc := .sel } ∧ ¬ (P.readerDone = true ∧ P.startIndex = P.linesRead)) := by
  unfold finishBatch
  split
  · rename_i h; exact Or.inl ⟨rfl, h⟩
  · rename_i h; exact Or.inr ⟨rfl, h⟩

theorem finishBatch_sel (P : Pipe) (h : (finishBatch P).cpc = .sel) :
    ¬ ((finishBatch P).readerDone = true ∧ (finishBatch P).startIndex = (finishBatch P).linesRead) := by
  rcases finishBatch_cases P with ⟨e, _⟩ | ⟨e, hn⟩
  · rw [e] at h; simp at h
  · rw [e]; exact hn

theorem procBatch_sel (P : Pipe) (j : Job) (h : (procBatch P j).cpc = .sel) :
    ¬ ((procBatch P j).readerDone = true ∧ (procBatch P j).startIndex = (procBatch P j).linesRead) := by
  rcases procBatch_cases P j with hr | ⟨Q, _, hq⟩
  · rw [hr.1] at h; contradiction
  · rw [hq] at h ⊢; exact finishBatch_sel Q h

structure PInv (P : Pipe) : Prop where
  batchPos : 1 ≤ P.batch
  unreadPos : (P.rpc = .sel ∨ P.rpc = .hold ∨ P.rpc = .write) → 1 ≤ P.unread
  exitLocal : P.cpc = .exit ↔ P.localCancelled = true
  lr : P.linesRead = P.nextLine
  readerExit : P.rpc = .exit → (P.cancelled = true ∨ P.done.isSome = true ∨ P.doneNil = true)
  doneSent : (P.done.isSome = true ∨ P.doneNil = true) → P.rpc = .exit
  rdNil : P.readerDone = true → P.doneNil = true
  nilLoop : P.doneNil = true → (P.cpc = .ret ∨ P.cpc = .exit ∨ P.readerDone = true)
  check : P.readerDone = true → (P.cpc = .ret ∨ P.cpc = .exit ∨ P.startIndex ≠ P.linesRead)

theorem pinv_init {P : Pipe} (h : P.IsInit) : PInv P := by
  obtain ⟨lines, batch, se, bad, st, hb, rfl⟩ := h
  refine ⟨hb, ?_, by simp [Pipe.init], rfl, ?_, by simp [Pipe.init], by simp [Pipe.init], by simp [Pipe.init], by simp [Pipe.init]⟩
  · simp only [Pipe.init]
    split <;> simp <;> omega
  · simp only [Pipe.init]
    split <;> simp

theorem pinv_step {p : Nat} {P P' : Pipe} (h : PInv P) (hs : PipeStep p P P') : PInv P' := by
  obtain ⟨h1, h2, h3, h4, h5, h6, h7, h8, h9⟩ := h
  cases hs with
  | rTok a b => exact ⟨h1, fun _ => h2 (Or.inl a), h3, h4, by simp, fun x => by simp_all, h7, h8, h9⟩
  | rStop a b => exact ⟨h1, by simp, h3, h4, fun _ => Or.inl b, fun _ => rfl, h7, h8, h9⟩
  | rSub a => exact ⟨h1, fun _ => h2 (Or.inr (Or.inl a)), h3, h4, by simp, fun x => by simp_all, h7, h8, h9⟩
  | rWrite a =>
    refine ⟨h1, ?_, h3, by simp [h4], ?_, fun x => by simp_all, h7, h8, ?_⟩
    · simp only
      split <;> simp <;> omega
    · simp only
      split <;> simp
    · intro x
      have hd := h6 (Or.inr (h7 x))
      rw [a] at hd; contradiction
  | rDone a => exact ⟨h1, by simp, h3, h4, fun _ => by simp, fun _ => rfl, h7, h8, h9⟩
  | wSend j a => exact ⟨h1, h2, h3, h4, h5, h6, h7, h8, h9⟩
  | cRecv k j rest a b =>
    exact ⟨h1, h2, by simpa [a] using h3, h4, h5, h6, h7, fun x => by have := h8 x; simp_all,
      fun x => by have := h9 x; simp_all⟩
  | cTok j a b =>
    exact ⟨h1, h2, by simpa [a] using h3, h4, h5, h6, h7, fun x => by have := h8 x; simp_all,
      fun x => by have := h9 x; simp_all⟩
  | cProc j a =>
    obtain ⟨fr, hc⟩ := procBatch_frame P j
    have hsel := procBatch_sel P j
    refine ⟨by rw [fr.batch]; exact h1, by rw [fr.rpc, fr.unread]; exact h2, ?_, by rw [fr.linesRead, fr.nextLine]; exact h4,
      by rw [fr.rpc, fr.cancelled, fr.done, fr.doneNil]; exact h5, by rw [fr.rpc, fr.done, fr.doneNil]; exact h6,
      by rw [fr.readerDone, fr.doneNil]; exact h7, ?_, ?_⟩
    · rw [fr.localCancelled]
      have : P.localCancelled = false := by
        cases hl : P.localCancelled with
        | false => rfl
        | true => have := h3.mpr hl; rw [a] at this; contradiction
      rcases hc with hc | hc <;> simp [hc, this]
    · rw [fr.doneNil, fr.readerDone]
      intro x
      have := h8 x
      rw [a] at this
      rcases hc with hc | hc
      · simp_all
      · exact Or.inl hc
    · intro x
      rcases hc with hc | hc
      · right; right
        intro e
        exact hsel hc ⟨x, e⟩
      · exact Or.inl hc
  | cDoneErr a b c =>
    refine ⟨h1, h2, by simpa [a] using h3, h4, fun x => by have := h5 x; simp_all, fun _ => h6 (Or.inl (by simp [c])), ?_, by simp, by simp⟩
    intro x
    have := h7 x; simp_all
  | cDoneOk a b c =>
    have hrx : P.rpc = .exit := h6 (Or.inl (by simp [c]))
    split
    · refine ⟨h1, h2, by simpa [a] using h3, h4, fun x => by simp, fun _ => hrx, by simp, by simp, by simp⟩
    · rename_i hne
      refine ⟨h1, h2, by simpa [a] using h3, h4, fun x => by simp, fun _ => hrx, by simp, by simp, ?_⟩
      intro _; right; right; exact hne
  | cCtx a b =>
    exact ⟨h1, h2, by simpa [a] using h3, h4, h5, h6, h7, fun _ => Or.inl rfl, fun _ => Or.inl rfl⟩
  | cCancel a =>
    refine ⟨h1, h2, by simp, h4, fun x => by simp [Pipe.cancelled], h6, h7, fun _ => Or.inr (Or.inl rfl), fun _ => Or.inr (Or.inl rfl)⟩
  | pCancel a =>
    refine ⟨h1, h2, h3, h4, fun x => by simp [Pipe.cancelled], h6, h7, h8, h9⟩
  | rTrunc u a b c =>
    have hne : P.rpc ≠ .exit := by
      rcases c with c | ⟨c | c, _⟩ <;> rw [c] <;> simp
    have hne' : (if P.rpc = .sel ∧ u = 0 then RPc.fin else P.rpc) ≠ .exit := by
      split
      · simp
      · exact hne
    refine ⟨h1, ?_, h3, h4, fun x => absurd x hne', fun x => absurd (h6 x) hne, h7, h8, h9⟩
    intro hx
    simp only at hx ⊢
    rcases c with c | ⟨c, hcur⟩
    · by_cases hu : u = 0
      · simp [c, hu] at hx
      · omega
    · have hpos := h2 (by rcases c with c | c <;> simp [c])
      simp only [Pipe.cur] at hcur
      omega

end Octo.JsonPipe
