import Octo.Lemmas.OpsBuffer
import Octo.Lemmas.OpsLinear
/-!
  Octo.Lemmas.OpsWm — watermarks and late records (C18): monotone watermarks and `NoLate` are
  inherited by sublists and by record-wise rewrites that keep event times; properties of the
  event-time buffer specification `bufSpec`.
-/
namespace Octo.Ops
open Octo

/-! ### Mono -/
theorem mono_iff_pairwise (l : List Int) : Mono l ↔ l.Pairwise (· ≤ ·) := by
  induction l with
  | nil => simp [Mono]
  | cons a as ih =>
    cases as with
    | nil => simp [Mono]
    | cons b bs =>
      simp only [Mono, ih, List.pairwise_cons]
      constructor
      · rintro ⟨hab, hb, hbs⟩
        refine ⟨?_, hb, hbs⟩
        intro c hc
        rcases List.mem_cons.mp hc with h | h
        · subst h; exact hab
        · have := hb c h; omega
      · rintro ⟨ha, hb, hbs⟩
        exact ⟨ha b List.mem_cons_self, hb, hbs⟩

theorem mono_sublist {l l' : List Int} (h : l'.Sublist l) (hm : Mono l) : Mono l' := by
  rw [mono_iff_pairwise] at *
  exact List.Pairwise.sublist h hm

theorem wms_append (a b : List Msg) : wms (a ++ b) = wms a ++ wms b := by
  induction a with
  | nil => rfl
  | cons x xs ih => cases x <;> simp [wms, ih]

theorem wms_sublist {l l' : List Msg} (h : l'.Sublist l) : (wms l').Sublist (wms l) := by
  induction h with
  | slnil => exact List.Sublist.slnil
  | cons a _ ih => cases a <;> simp only [wms] <;> first | exact ih | exact List.Sublist.cons _ ih
  | cons_cons a _ ih => cases a <;> simp only [wms] <;> first | exact ih | exact List.Sublist.cons_cons _ ih

/-! ### NoLate -/
theorem okAfter_mono {s s' : List Int} (h : ∀ w ∈ s', w ∈ s) {r : Rec} (hr : okAfter s r) : okAfter s' r :=
  fun e he w hw => hr e he w (h w hw)

theorem noLateFrom_mono (ms : List Msg) : ∀ {s s' : List Int}, (∀ w ∈ s', w ∈ s) → NoLateFrom s ms → NoLateFrom s' ms := by
  induction ms with
  | nil => intro _ _ _ _; trivial
  | cons m ms ih =>
    intro s s' h hn
    cases m with
    | wm t =>
      simp only [NoLateFrom] at *
      exact ih (by intro w hw; rcases List.mem_cons.mp hw with h' | h'
                   · exact h' ▸ List.mem_cons_self
                   · exact List.mem_cons_of_mem _ (h w h')) hn
    | data r =>
      simp only [NoLateFrom] at *
      exact ⟨okAfter_mono h hn.1, ih h hn.2⟩

theorem noLateFrom_sublist {l l' : List Msg} (h : l'.Sublist l) : ∀ {s : List Int}, NoLateFrom s l → NoLateFrom s l' := by
  induction h with
  | slnil => intro _ _; trivial
  | cons a _ ih =>
    intro s hn
    cases a with
    | wm t => simp only [NoLateFrom] at hn; exact noLateFrom_mono _ (fun w hw => List.mem_cons_of_mem _ hw) (ih hn)
    | data r => simp only [NoLateFrom] at hn; exact ih hn.2
  | cons_cons a _ ih =>
    intro s hn
    cases a with
    | wm t => simp only [NoLateFrom] at *; exact ih hn
    | data r => simp only [NoLateFrom] at *; exact ⟨hn.1, ih hn.2⟩

theorem noLateFrom_append (a b : List Msg) : ∀ (s : List Int),
    NoLateFrom s (a ++ b) ↔ NoLateFrom s a ∧ NoLateFrom ((wms a).reverse ++ s) b := by
  induction a with
  | nil => intro s; simp [NoLateFrom, wms]
  | cons m ms ih =>
    intro s
    cases m with
    | wm t => simp only [List.cons_append, NoLateFrom, ih, wms, List.reverse_cons, List.append_assoc, List.singleton_append, List.nil_append]
    | data r => simp only [List.cons_append, NoLateFrom, ih, wms, and_assoc]

/-- records only: no new watermark is seen -/
theorem noLateFrom_data (l : List Rec) (s : List Int) :
    NoLateFrom s (l.map .data) ↔ ∀ r ∈ l, okAfter s r := by
  induction l with
  | nil => simp [NoLateFrom]
  | cons r rs ih => simp [NoLateFrom, ih]

theorem wms_map_data (l : List Rec) : wms (l.map .data) = [] := by
  induction l with
  | nil => rfl
  | cons r rs ih => simpa [wms] using ih

/-- a record-wise rewrite that forwards watermarks and keeps event times preserves `NoLate` -/
theorem noLateFrom_flatMap (emit : Msg → List Msg) (hw : ∀ t, emit (.wm t) = [.wm t])
    (hd : ∀ r, ∃ l : List Rec, emit (.data r) = l.map .data ∧ ∀ q ∈ l, q.et = r.et) (ms : List Msg) :
    ∀ s, NoLateFrom s ms → NoLateFrom s (ms.flatMap emit) := by
  induction ms with
  | nil => intro _ _; trivial
  | cons m ms ih =>
    intro s hn
    cases m with
    | wm t =>
      simp only [List.flatMap_cons, hw, NoLateFrom, List.cons_append, List.nil_append] at *
      exact ih _ hn
    | data r =>
      obtain ⟨l, hl, het⟩ := hd r
      simp only [List.flatMap_cons, hl, NoLateFrom] at *
      rw [noLateFrom_append, wms_map_data]
      refine ⟨(noLateFrom_data l s).mpr ?_, by simpa using ih s hn.2⟩
      intro q hq e he w hw'
      exact hn.1 e (by rw [← het q hq]; exact he) w hw'

theorem okAfter_iff (s : List Int) (r : Rec) : okAfter s r ↔ okAfterB s r = true := by
  simp only [okAfter, okAfterB]
  cases r.et with
  | none => simp
  | some e => simp

theorem noLateFrom_iff (ms : List Msg) : ∀ s, NoLateFrom s ms ↔ noLateFromB s ms = true := by
  induction ms with
  | nil => intro s; simp [NoLateFrom, noLateFromB]
  | cons m ms ih =>
    intro s
    cases m with
    | wm t => simp only [NoLateFrom, noLateFromB, ih]
    | data r => simp only [NoLateFrom, noLateFromB, ih, okAfter_iff, Bool.and_eq_true]

theorem mono_iff_B (l : List Int) : Mono l ↔ monoB l = true := by
  induction l with
  | nil => simp [Mono, monoB]
  | cons a as ih =>
    cases as with
    | nil => simp [Mono, monoB]
    | cons b bs => simp only [Mono, monoB, ih, Bool.and_eq_true, decide_eq_true_eq]

/-! ### the buffer specification -/
theorem dataOf_eq (l : List (Int × Rec)) : dataOf l = (l.map (·.2)).map .data := by
  simp [dataOf, List.map_map, Function.comp_def]

theorem wms_dataOf (l : List (Int × Rec)) : wms (dataOf l) = [] := by
  simp only [dataOf]
  induction l with
  | nil => rfl
  | cons r rs ih => simpa [wms] using ih

theorem wms_bufSpec (ms : List Msg) : ∀ p, wms (bufSpec p ms) = wms ms := by
  induction ms with
  | nil => intro p; simp [bufSpec, wms_dataOf, wms]
  | cons m ms ih =>
    intro p
    cases m with
    | wm w => simp [bufSpec, wms_append, wms_dataOf, wms, ih]
    | data r =>
      cases het : r.et with
      | none => simp [bufSpec, het, wms, ih]
      | some t => simp [bufSpec, het, wms, ih]

theorem mem_insByEt (t : Int) (r : Rec) (l : List (Int × Rec)) (q : Int × Rec) :
    q ∈ insByEt t r l ↔ q = (t, r) ∨ q ∈ l := by
  induction l with
  | nil => simp [insByEt]
  | cons a as ih =>
    obtain ⟨u, x⟩ := a
    simp only [insByEt]
    split
    · simp
    · simp only [List.mem_cons, ih]
      constructor
      · rintro (h | h | h) <;> simp [h]
      · rintro (h | h | h) <;> simp [h]

theorem mem_sortByEt (p : List (Int × Rec)) (q : Int × Rec) : q ∈ sortByEt p ↔ q ∈ p := by
  have : ∀ acc : List (Int × Rec), q ∈ p.foldl (fun acc a => insByEt a.1 a.2 acc) acc ↔ q ∈ acc ∨ q ∈ p := by
    induction p with
    | nil => intro acc; simp
    | cons a as ih =>
      intro acc
      simp only [List.foldl_cons, ih, mem_insByEt, List.mem_cons]
      constructor
      · rintro ((h | h) | h)
        · right; left; exact h
        · left; exact h
        · right; right; exact h
      · rintro (h | h | h)
        · left; right; exact h
        · left; left; exact h
        · right; exact h
  simpa [sortByEt] using this []

/-- the buffer does not create late data: pending records are above every watermark seen -/
theorem noLate_bufSpec (ms : List Msg) : ∀ (p : List (Int × Rec)) (s : List Int),
    (∀ q ∈ p, q.2.et = some q.1 ∧ ∀ w ∈ s, w < q.1) → NoLateFrom s ms → NoLateFrom s (bufSpec p ms) := by
  induction ms with
  | nil =>
    intro p s hp _
    simp only [bufSpec]
    rw [dataOf_eq, noLateFrom_data]
    intro r hr e he w hw
    simp only [List.mem_map, List.mem_filter, mem_sortByEt] at hr
    obtain ⟨q, ⟨hq, _⟩, rfl⟩ := hr
    have := hp q hq
    rw [this.1] at he; cases he
    exact this.2 w hw
  | cons m ms ih =>
    intro p s hp hn
    cases m with
    | data r =>
      simp only [NoLateFrom] at hn
      cases het : r.et with
      | none =>
        simp only [bufSpec, het, NoLateFrom]
        exact ⟨hn.1, ih p s hp hn.2⟩
      | some t =>
        simp only [bufSpec, het]
        apply ih _ s _ hn.2
        intro q hq
        rcases List.mem_append.mp hq with h | h
        · exact hp q h
        · simp only [List.mem_singleton] at h; subst h
          exact ⟨het, fun w hw => hn.1 t het w hw⟩
    | wm w =>
      simp only [NoLateFrom] at hn
      simp only [bufSpec, List.append_assoc, List.singleton_append]
      rw [noLateFrom_append, wms_dataOf]
      constructor
      · rw [dataOf_eq, noLateFrom_data]
        intro r hr e he w' hw'
        simp only [List.mem_map, List.mem_filter, mem_sortByEt] at hr
        obtain ⟨q, ⟨hq, _⟩, rfl⟩ := hr
        have := hp q hq
        rw [this.1] at he; cases he
        exact this.2 w' hw'
      · simp only [List.reverse_nil, List.nil_append, NoLateFrom]
        apply ih _ _ _ hn
        intro q hq
        simp only [List.mem_filter, Bool.not_eq_eq_eq_not, Bool.not_true, decide_eq_false_iff_not] at hq
        refine ⟨(hp q hq.1).1, ?_⟩
        intro w' hw'
        rcases List.mem_cons.mp hw' with h | h
        · subst h; omega
        · exact (hp q hq.1).2 w' h

end Octo.Ops
