import Octo.Model.FileQueue
/-! The reorder queue: the invariant that ties queue / startIndex / produced records to the set of lines that have
    arrived, preserved by every arrival, and what it implies when the consumer decides to stop. -/
namespace Octo.Files

variable {α : Type}

theorem extendTo_get (q : List (Option α)) (idx i : Nat) :
    (extendTo q idx)[i]? = if i < q.length then q[i]? else if i ≤ idx then some none else none := by
  unfold extendTo
  by_cases h : i < q.length
  · simp [h, List.getElem?_append_left h]
  · simp only [h, if_false]
    rw [List.getElem?_append_right (by omega)]
    by_cases h2 : i ≤ idx
    · simp only [h2, if_true]
      rw [List.getElem?_replicate]
      simp; omega
    · simp only [h2, if_false]
      rw [List.getElem?_replicate]
      simp; omega

theorem extendTo_length (q : List (Option α)) (idx : Nat) : idx < (extendTo q idx).length := by
  unfold extendTo; simp; omega

theorem setAt_get : ∀ (q : List (Option α)) (idx : Nat) (r : α) (i : Nat), idx < q.length →
    (setAt q idx r)[i]? = if i = idx then some (some r) else q[i]?
  | [], _, _, _, h => by simp at h
  | x :: xs, 0, r, i, _ => by
    cases i <;> simp [setAt]
  | x :: xs, idx + 1, r, i, h => by
    cases i with
    | zero => simp [setAt]
    | succ i =>
      simp only [setAt, List.getElem?_cons_succ]
      rw [setAt_get xs idx r i (by simpa using h)]
      simp

/-- the invariant -/
structure Inv (recs : List α) (A : Nat → Prop) (st : QState α) : Prop where
  out_eq : st.out = recs.take st.start
  start_le : st.start ≤ recs.length
  pend : ∀ i r, st.queue[i]? = some (some r) → recs[st.start + i]? = some r
  head : ∀ r, st.queue[0]? ≠ some (some r)
  arr : ∀ l, A l ↔ (l < st.start ∨ ∃ i r, l = st.start + i ∧ st.queue[i]? = some (some r))

theorem Inv.init (recs : List α) : Inv recs (fun _ => False) (QState.init : QState α) :=
  ⟨by simp [QState.init], by simp [QState.init], by simp [QState.init], by simp [QState.init],
   by simp [QState.init]⟩

/-- `flush` moves the leading run of arrived lines to the output -/
theorem flush_spec (recs : List α) : ∀ (q : List (Option α)) (s : Nat) (out : List α),
    out = recs.take s → s ≤ recs.length → (∀ i r, q[i]? = some (some r) → recs[s + i]? = some r) →
    ∃ k, (flush q s out).start = s + k ∧ (flush q s out).queue = q.drop k ∧
      (flush q s out).out = recs.take (s + k) ∧ s + k ≤ recs.length ∧
      (∀ i, i < k → ∃ r, q[i]? = some (some r)) ∧ (∀ r, (q.drop k)[0]? ≠ some (some r))
  | [], s, out, ho, hs, _ => ⟨0, by simp [flush], by simp [flush], by simp [flush, ho], by simpa using hs, by simp, by simp⟩
  | none :: q, s, out, ho, hs, _ => ⟨0, by simp [flush], by simp [flush], by simp [flush, ho], by simpa using hs, by simp, by simp⟩
  | some r :: q, s, out, ho, hs, hp => by
    have h0 : recs[s]? = some r := by simpa using hp 0 r (by simp)
    have hlt : s < recs.length := by
      have := (List.getElem?_eq_some_iff.mp h0).1; exact this
    obtain ⟨k, h1, h2, h3, h4, h5, h6⟩ := flush_spec recs q (s + 1) (out ++ [r])
      (by rw [List.take_succ, ho, h0]; rfl) (by omega)
      (by intro i r' hi; have := hp (i + 1) r' (by simpa using hi); rw [← this]; congr 1; omega)
    refine ⟨k + 1, ?_, ?_, ?_, ?_, ?_, ?_⟩
    · simp only [flush]; rw [h1]; omega
    · simp only [flush]; rw [h2]; simp
    · simp only [flush]; rw [h3]; congr 1; omega
    · omega
    · intro i hi
      cases i with
      | zero => exact ⟨r, by simp⟩
      | succ i => simpa using h5 i (by omega)
    · simpa using h6

/-- one line arrives -/
theorem placeOne_inv (recs : List α) (A : Nat → Prop) (st : QState α) (l : Nat) (r : α)
    (inv : Inv recs A st) (hl : ¬ A l) (hr : recs[l]? = some r) :
    ∃ st', placeOne st l r = some st' ∧ Inv recs (fun x => x = l ∨ A x) st' := by
  have hge : ¬ l < st.start := fun h => hl ((inv.arr l).mpr (Or.inl h))
  unfold placeOne
  rw [if_neg hge]
  refine ⟨_, rfl, ?_⟩
  -- the queue after the store
  have hq2 : ∀ i, (setAt (extendTo st.queue (l - st.start)) (l - st.start) r)[i]? =
      if i = l - st.start then some (some r)
      else if i < st.queue.length then st.queue[i]? else if i ≤ l - st.start then some none else none := by
    intro i
    rw [setAt_get _ _ _ _ (extendTo_length _ _), extendTo_get]
  have hsome : ∀ i r', (setAt (extendTo st.queue (l - st.start)) (l - st.start) r)[i]? = some (some r') ↔
      (i = l - st.start ∧ r' = r) ∨ (i ≠ l - st.start ∧ st.queue[i]? = some (some r')) := by
    intro i r'
    rw [hq2]
    by_cases h1 : i = l - st.start
    · simp [h1]; exact eq_comm
    · simp only [h1, if_false, false_and, false_or, ne_eq, not_false_eq_true, true_and]
      by_cases h2 : i < st.queue.length
      · simp [h2]
      · simp only [h2, if_false]
        have : st.queue[i]? = none := List.getElem?_eq_none (by omega)
        rw [this]
        split <;> simp
  obtain ⟨k, h1, h2, h3, h4, h5, h6⟩ := flush_spec recs
    (setAt (extendTo st.queue (l - st.start)) (l - st.start) r) st.start st.out inv.out_eq inv.start_le
    (by
      intro i r' hi
      rcases (hsome i r').mp hi with ⟨hi1, hr1⟩ | ⟨_, hi2⟩
      · subst hr1; rw [hi1]; rw [← hr]; congr 1; omega
      · exact inv.pend i r' hi2)
  refine ⟨h3 ▸ h1 ▸ rfl, h1 ▸ h4, ?_, ?_, ?_⟩
  · intro i r' hi
    rw [h2, List.getElem?_drop] at hi
    rcases (hsome _ r').mp hi with ⟨hi1, hr1⟩ | ⟨_, hi2⟩
    · subst hr1; rw [h1, ← hr]; congr 1; omega
    · have := inv.pend _ r' hi2; rw [h1, ← this]; congr 1; omega
  · intro r'; rw [h2]; exact h6 r'
  · intro x
    rw [h1, h2]
    constructor
    · rintro (hx | hx)
      · by_cases hk : l - st.start < k
        · left; omega
        · right
          refine ⟨l - st.start - k, r, by omega, ?_⟩
          rw [List.getElem?_drop]
          exact (hsome _ r).mpr (Or.inl ⟨by omega, rfl⟩)
      · rcases (inv.arr x).mp hx with hx | ⟨i, r', hxi, hqi⟩
        · left; omega
        · have hne : i ≠ l - st.start := by
            intro he; apply hl; rw [show l = x by omega]; exact hx
          by_cases hk : i < k
          · left; omega
          · right
            refine ⟨i - k, r', by omega, ?_⟩
            rw [List.getElem?_drop]
            exact (hsome _ r').mpr (Or.inr ⟨by omega, by rw [show k + (i - k) = i by omega]; exact hqi⟩)
    · rintro (hx | ⟨i, r', hxi, hqi⟩)
      · by_cases hs : x < st.start
        · right; exact (inv.arr x).mpr (Or.inl hs)
        · obtain ⟨r', hr'⟩ := h5 (x - st.start) (by omega)
          rcases (hsome _ r').mp hr' with ⟨hi1, _⟩ | ⟨_, hi2⟩
          · left; omega
          · right; exact (inv.arr x).mpr (Or.inr ⟨x - st.start, r', by omega, hi2⟩)
      · rw [List.getElem?_drop] at hqi
        rcases (hsome _ r').mp hqi with ⟨hi1, _⟩ | ⟨_, hi2⟩
        · left; omega
        · right; exact (inv.arr x).mpr (Or.inr ⟨k + i, r', by omega, hi2⟩)

end Octo.Files

namespace Octo.Files
variable {α : Type}

/-- consequences of the invariant -/
theorem Inv.lt_length {recs : List α} {A : Nat → Prop} {st : QState α} (inv : Inv recs A st) {l : Nat} (h : A l) :
    l < recs.length := by
  rcases (inv.arr l).mp h with h | ⟨i, r, hl, hq⟩
  · have := inv.start_le; omega
  · have := inv.pend i r hq
    have := (List.getElem?_eq_some_iff.mp this).1
    omega

theorem Inv.start_eq {recs : List α} {A : Nat → Prop} {st : QState α} (inv : Inv recs A st)
    (hall : ∀ l, l < recs.length → A l) : st.start = recs.length := by
  have h1 := inv.start_le
  by_cases h : st.start < recs.length
  · exfalso
    rcases (inv.arr st.start).mp (hall _ h) with h' | ⟨i, r, hl, hq⟩
    · omega
    · have : i = 0 := by omega
      subst this
      exact inv.head r hq
  · omega

theorem Inv.all_arrived {recs : List α} {A : Nat → Prop} {st : QState α} (inv : Inv recs A st)
    (h : st.start = recs.length) : ∀ l, l < recs.length → A l :=
  fun l hl => (inv.arr l).mpr (Or.inl (by omega))

theorem Inv.out_all {recs : List α} {A : Nat → Prop} {st : QState α} (inv : Inv recs A st)
    (h : st.start = recs.length) : st.out = recs := by
  rw [inv.out_eq, h, List.take_length]

theorem Inv.congr {recs : List α} {A B : Nat → Prop} {st : QState α} (inv : Inv recs A st) (h : ∀ l, A l ↔ B l) :
    Inv recs B st :=
  ⟨inv.out_eq, inv.start_le, inv.pend, inv.head, fun l => (h l).symm.trans (inv.arr l)⟩

/-- the items of one batch: every line parsed to its record, none has arrived before (`A`) or earlier in the batch -/
def ItemsOK (recs : List α) : (Nat → Prop) → List (Nat × Option α) → Prop
  | _, [] => True
  | A, (l, x) :: rest => (∃ r, x = some r ∧ recs[l]? = some r) ∧ ¬ A l ∧ ItemsOK recs (fun y => y = l ∨ A y) rest

/-- the set of arrived lines after a batch -/
def after (A : Nat → Prop) (items : List (Nat × Option α)) : Nat → Prop :=
  fun y => A y ∨ ∃ p ∈ items, p.1 = y

theorem placeAll_inv (recs : List α) : ∀ (items : List (Nat × Option α)) (A : Nat → Prop) (st : QState α),
    Inv recs A st → ItemsOK recs A items →
    ∃ st', placeAll st items = .ok st' ∧ Inv recs (after A items) st'
  | [], A, st, inv, _ => ⟨st, rfl, inv.congr (by simp [after])⟩
  | (l, x) :: rest, A, st, inv, h => by
    obtain ⟨⟨r, hx, hr⟩, hA, hrest⟩ := h
    subst hx
    obtain ⟨st1, h1, inv1⟩ := placeOne_inv recs A st l r inv hA hr
    obtain ⟨st2, h2, inv2⟩ := placeAll_inv recs rest _ st1 inv1 hrest
    refine ⟨st2, by simp [placeAll, h1, h2], inv2.congr ?_⟩
    intro y
    simp only [after, List.mem_cons]
    constructor
    · rintro ((h | h) | ⟨p, hp, hy⟩)
      · exact Or.inr ⟨(l, some r), Or.inl rfl, h.symm⟩
      · exact Or.inl h
      · exact Or.inr ⟨p, Or.inr hp, hy⟩
    · rintro (h | ⟨p, hp | hp, hy⟩)
      · exact Or.inl (Or.inr h)
      · subst hp; exact Or.inl (Or.inl hy.symm)
      · exact Or.inr ⟨p, hp, hy⟩

/-- the events still to come: non-empty batches of fresh, correctly parsed lines; `done` exactly once iff
    `needDone`; and when nothing is left every line has arrived -/
def EvOK (recs : List α) : (Nat → Prop) → Bool → List (Event α) → Prop
  | A, needDone, [] => needDone = false ∧ ∀ l, l < recs.length → A l
  | A, needDone, .batch items :: evs => items ≠ [] ∧ ItemsOK recs A items ∧ EvOK recs (after A items) needDone evs
  | A, needDone, .done e :: evs => e = false ∧ needDone = true ∧ EvOK recs A false evs

/-- once every line has been flushed no batch can be outstanding -/
theorem EvOK.nil_of_all {recs : List α} {A : Nat → Prop} {evs : List (Event α)}
    (h : EvOK recs A false evs) (hall : ∀ l, l < recs.length → A l) : evs = [] := by
  cases evs with
  | nil => rfl
  | cons e evs =>
    exfalso
    cases e with
    | done e => exact absurd h.2.1 (by simp)
    | batch items =>
      obtain ⟨hne, hi, _⟩ := h
      cases items with
      | nil => exact hne rfl
      | cons p rest =>
        obtain ⟨l, x⟩ := p
        obtain ⟨⟨r, _, hr⟩, hA, _⟩ := hi
        exact hA (hall l (List.getElem?_eq_some_iff.mp hr).1)

/-- **the consumer loop**: from a state satisfying the invariant, on any well-formed remaining schedule, the loop
    neither panics, errors nor hangs, stops exactly when the last event has been consumed, and has then produced
    every record in line order. -/
theorem consume_ok (recs : List α) : ∀ (evs : List (Event α)) (A : Nat → Prop) (st : QState α) (readerDone : Bool),
    Inv recs A st → EvOK recs A (!readerDone) evs → (readerDone = true → st.start ≠ recs.length) →
    consume recs.length st readerDone evs = .stopped recs []
  | [], A, st, readerDone, inv, h, hnd => by
    exfalso
    have hd : readerDone = true := by cases readerDone <;> simp_all [EvOK]
    exact hnd hd (inv.start_eq h.2)
  | .batch items :: evs, A, st, readerDone, inv, h, hnd => by
    obtain ⟨_, hi, hrest⟩ := h
    obtain ⟨st', hp, inv'⟩ := placeAll_inv recs items A st inv hi
    simp only [consume, hp]
    by_cases hstop : (readerDone && st'.start == recs.length) = true
    · rw [if_pos hstop]
      simp only [Bool.and_eq_true, beq_iff_eq] at hstop
      have hrd : (!readerDone) = false := by simp [hstop.1]
      rw [hrd] at hrest
      rw [hrest.nil_of_all (inv'.all_arrived hstop.2), inv'.out_all hstop.2]
    · rw [if_neg hstop]
      exact consume_ok recs evs _ st' readerDone inv' hrest (by
        intro hd; simp only [hd, Bool.true_and, beq_iff_eq] at hstop; exact hstop)
  | .done e :: evs, A, st, readerDone, inv, h, hnd => by
    obtain ⟨he, hneed, hrest⟩ := h
    subst he
    simp only [consume, Bool.false_eq_true, if_false]
    by_cases hstop : (st.start == recs.length) = true
    · rw [if_pos hstop]
      simp only [beq_iff_eq] at hstop
      rw [hrest.nil_of_all (inv.all_arrived hstop), inv.out_all hstop]
    · rw [if_neg hstop]
      exact consume_ok recs evs A st true inv (by simpa using hrest) (by
        intro _; simpa using hstop)

end Octo.Files

namespace Octo.Files
variable {α : Type}

/-! ### from "the arrival order is a permutation of the reader's batches" to a well-formed schedule -/

/-- the batches still to come are fresh w.r.t. the arrived set `A` -/
structure Fresh (recs : List α) (A : Nat → Prop) (bs : List (List (Nat × Option α))) : Prop where
  nodup : (bs.flatten.map Prod.fst).Nodup
  parsed : ∀ p ∈ bs.flatten, ∃ r, p.2 = some r ∧ recs[p.1]? = some r
  nonempty : ∀ b ∈ bs, b ≠ []
  cover : ∀ l, l < recs.length → A l ∨ l ∈ bs.flatten.map Prod.fst
  fresh : ∀ l ∈ bs.flatten.map Prod.fst, ¬ A l

theorem items_ok (recs : List α) : ∀ (items : List (Nat × Option α)) (A : Nat → Prop),
    (items.map Prod.fst).Nodup → (∀ p ∈ items, ∃ r, p.2 = some r ∧ recs[p.1]? = some r) →
    (∀ l ∈ items.map Prod.fst, ¬ A l) → ItemsOK recs A items
  | [], _, _, _, _ => trivial
  | (l, x) :: rest, A, hn, hp, hf => by
    simp only [List.map_cons, List.nodup_cons] at hn
    refine ⟨by simpa using hp (l, x) (by simp), hf l (by simp), ?_⟩
    apply items_ok recs rest _ hn.2 (fun p hp' => hp p (by simp [hp']))
    intro l' hl' h
    rcases h with h | h
    · subst h; exact hn.1 hl'
    · exact hf l' (by simp only [List.map_cons, List.mem_cons]; exact Or.inr hl') h

theorem Fresh.tail {recs : List α} {A : Nat → Prop} {b : List (Nat × Option α)} {bs : List (List (Nat × Option α))}
    (h : Fresh recs A (b :: bs)) : ItemsOK recs A b ∧ b ≠ [] ∧ Fresh recs (after A b) bs := by
  have hn := h.nodup
  simp only [List.flatten_cons, List.map_append, List.nodup_append] at hn
  refine ⟨?_, h.nonempty b (by simp), ?_⟩
  · exact items_ok recs b A hn.1 (fun p hp => h.parsed p (by simp [hp]))
      (fun l hl => h.fresh l (by simp only [List.flatten_cons, List.map_append, List.mem_append]; exact Or.inl hl))
  · refine ⟨hn.2.1, fun p hp => h.parsed p (by simp [hp]), fun b' hb' => h.nonempty b' (by simp [hb']), ?_, ?_⟩
    · intro l hl
      rcases h.cover l hl with hA | hm
      · exact Or.inl (Or.inl hA)
      · simp only [List.flatten_cons, List.map_append, List.mem_append] at hm
        rcases hm with hm | hm
        · left; right
          obtain ⟨p, hp, hpl⟩ := List.mem_map.mp hm
          exact ⟨p, hp, hpl⟩
        · exact Or.inr hm
    · intro l hl hafter
      rcases hafter with hA | ⟨p, hp, hpl⟩
      · exact h.fresh l (by simp only [List.flatten_cons, List.map_append, List.mem_append]; exact Or.inr hl) hA
      · exact hn.2.2 l (List.mem_map.mpr ⟨p, hp, hpl⟩) l hl rfl

theorem batches_evok (recs : List α) : ∀ (bs : List (List (Nat × Option α))) (A : Nat → Prop),
    Fresh recs A bs → EvOK recs A false (bs.map .batch)
  | [], A, h => ⟨rfl, fun l hl => by
      rcases h.cover l hl with h | h
      · exact h
      · simp at h⟩
  | b :: bs, A, h => by
    obtain ⟨h1, h2, h3⟩ := h.tail
    exact ⟨h2, h1, batches_evok recs bs _ h3⟩

theorem schedule_nil (pos : Nat) : schedule ([] : List (List (Nat × Option α))) pos = [.done false] := by
  simp [schedule]
theorem schedule_zero (bs : List (List (Nat × Option α))) : schedule bs 0 = .done false :: bs.map .batch := by
  simp [schedule]
theorem schedule_succ (b : List (Nat × Option α)) (bs : List (List (Nat × Option α))) (pos : Nat) :
    schedule (b :: bs) (pos + 1) = .batch b :: schedule bs pos := by
  simp [schedule]

theorem schedule_evok (recs : List α) : ∀ (bs : List (List (Nat × Option α))) (pos : Nat) (A : Nat → Prop),
    Fresh recs A bs → EvOK recs A true (schedule bs pos)
  | [], pos, A, h => by
    rw [schedule_nil]
    exact ⟨rfl, rfl, batches_evok recs [] A h⟩
  | b :: bs, 0, A, h => by
    rw [schedule_zero]
    exact ⟨rfl, rfl, batches_evok recs (b :: bs) A h⟩
  | b :: bs, pos + 1, A, h => by
    rw [schedule_succ]
    obtain ⟨h1, h2, h3⟩ := h.tail
    exact ⟨h2, h1, schedule_evok recs bs pos _ h3⟩

/-! ### the reader's batches -/

theorem number_append : ∀ (l1 l2 : List α) (s : Nat), number s (l1 ++ l2) = number s l1 ++ number (s + l1.length) l2
  | [], l2, s => by simp [number]
  | x :: l1, l2, s => by
    simp only [List.cons_append, number, List.length_cons]
    rw [number_append l1 l2 (s + 1), show s + 1 + l1.length = s + (l1.length + 1) by omega]

theorem number_fst : ∀ (xs : List α) (s : Nat), (number s xs).map Prod.fst = List.range' s xs.length
  | [], _ => rfl
  | x :: xs, s => by simp [number, number_fst xs (s + 1), List.range'_succ]

theorem number_mem : ∀ (xs : List α) (s : Nat) (p : Nat × α), p ∈ number s xs → s ≤ p.1 ∧ xs[p.1 - s]? = some p.2
  | [], _, _, h => by simp [number] at h
  | x :: xs, s, p, h => by
    simp only [number, List.mem_cons] at h
    rcases h with h | h
    · subst h; simp
    · have := number_mem xs (s + 1) p h
      refine ⟨by omega, ?_⟩
      rw [show p.1 - s = (p.1 - (s + 1)) + 1 by omega]
      simpa using this.2

theorem mkBatchesFrom_flatten (b : Nat) (hb : 0 < b) : ∀ (fuel s : Nat) (xs : List α), xs.length ≤ fuel →
    (mkBatchesFrom b fuel s xs).flatten = number s xs
  | 0, s, xs, h => by
    have : xs = [] := by cases xs <;> simp_all
    subst this; simp [mkBatchesFrom, number]
  | fuel + 1, s, [], _ => by simp [mkBatchesFrom, number]
  | fuel + 1, s, x :: xs, h => by
    simp only [mkBatchesFrom, List.flatten_cons]
    rw [mkBatchesFrom_flatten b hb fuel (s + b) _ (by simp only [List.length_drop, List.length_cons] at h ⊢; omega)]
    conv => rhs; rw [← List.take_append_drop b (x :: xs)]
    rw [number_append]
    by_cases hd : (x :: xs).drop b = []
    · rw [hd]; simp [number]
    · have : ((x :: xs).take b).length = b := by
        rw [List.length_take]
        have : b < (x :: xs).length := by
          apply Nat.lt_of_not_le; intro hle; exact hd (List.drop_eq_nil_of_le hle)
        omega
      rw [this]

theorem mkBatchesFrom_nonempty (b : Nat) (hb : 0 < b) : ∀ (fuel s : Nat) (xs : List α),
    ∀ batch ∈ mkBatchesFrom b fuel s xs, batch ≠ []
  | 0, _, _ => by simp [mkBatchesFrom]
  | _ + 1, _, [] => by simp [mkBatchesFrom]
  | fuel + 1, s, x :: xs => by
    intro batch hm
    simp only [mkBatchesFrom, List.mem_cons] at hm
    rcases hm with hm | hm
    · subst hm
      cases b with
      | zero => omega
      | succ b => simp [number]
    · exact mkBatchesFrom_nonempty b hb fuel _ _ batch hm

/-- what the parser workers hand to the consumer when every line parses: the reader's jobs with records -/
def parsedBatches (b : Nat) (recs : List α) : List (List (Nat × Option α)) :=
  (mkBatches b recs).map (parseBatch some)

theorem parsedBatches_flatten (b : Nat) (hb : 0 < b) (recs : List α) :
    (parsedBatches b recs).flatten = (number 0 recs).map (fun p => (p.1, some p.2)) := by
  unfold parsedBatches mkBatches parseBatch
  rw [← List.map_flatten, mkBatchesFrom_flatten b hb _ _ _ (Nat.le_refl _)]

theorem fresh_of_perm (b : Nat) (hb : 0 < b) (recs : List α) (bs : List (List (Nat × Option α)))
    (hp : bs.Perm (parsedBatches b recs)) : Fresh recs (fun _ => False) bs := by
  have hflat : bs.flatten.Perm ((number 0 recs).map (fun p => (p.1, some p.2))) := by
    rw [← parsedBatches_flatten b hb recs]; exact hp.flatten
  have hlines : (bs.flatten.map Prod.fst).Perm (List.range' 0 recs.length) := by
    have := hflat.map Prod.fst
    rw [List.map_map] at this
    have e : (Prod.fst ∘ fun (p : Nat × α) => (p.1, some p.2)) = Prod.fst := by funext p; rfl
    rw [e, number_fst] at this
    exact this
  refine ⟨hlines.symm.nodup (List.nodup_range' (step := 1)), ?_, ?_, ?_, by simp⟩
  · intro p hp'
    have := hflat.mem_iff.mp hp'
    obtain ⟨q, hq, hqp⟩ := List.mem_map.mp this
    subst hqp
    have := number_mem recs 0 q hq
    exact ⟨q.2, rfl, by simpa using this.2⟩
  · intro batch hb'
    have := hp.mem_iff.mp hb'
    unfold parsedBatches at this
    obtain ⟨job, hj, hjb⟩ := List.mem_map.mp this
    subst hjb
    have := mkBatchesFrom_nonempty b hb _ _ _ job hj
    unfold parseBatch
    simpa using this
  · intro l hl
    right
    exact hlines.mem_iff.mpr (by simp [List.mem_range']; omega)

end Octo.Files

namespace Octo.Files
variable {α β : Type}

/-! ### the workers' output when every line parses -/

theorem number_map (g : α → β) : ∀ (xs : List α) (s : Nat),
    (number s xs).map (fun p => (p.1, g p.2)) = number s (xs.map g)
  | [], _ => rfl
  | x :: xs, s => by simp [number, number_map g xs (s + 1)]

theorem mkBatchesFrom_map (g : α → β) (b : Nat) : ∀ (fuel s : Nat) (xs : List α),
    (mkBatchesFrom b fuel s xs).map (fun job => job.map fun p => (p.1, g p.2)) = mkBatchesFrom b fuel s (xs.map g)
  | 0, _, _ => rfl
  | _ + 1, _, [] => rfl
  | fuel + 1, s, x :: xs => by
    simp only [mkBatchesFrom, List.map_cons]
    rw [mkBatchesFrom_map g b fuel (s + b), number_map]
    have e1 : (g x :: xs.map g).take b = ((x :: xs).take b).map g := by rw [List.map_take]; rfl
    have e2 : (g x :: xs.map g).drop b = ((x :: xs).drop b).map g := by rw [List.map_drop]; rfl
    rw [e1, e2]

/-- the batches the parser workers hand to the consumer are `parsedBatches` of the records, when every line parses -/
theorem parseBatch_batches (parse : α → Option β) (b : Nat) (lines : List α) (recs : List β)
    (h : lines.map parse = recs.map some) :
    (mkBatches b lines).map (parseBatch parse) = parsedBatches b recs := by
  have hl : lines.length = recs.length := by simpa using congrArg List.length h
  unfold parsedBatches mkBatches parseBatch
  rw [mkBatchesFrom_map parse b, mkBatchesFrom_map some b, h, hl]

end Octo.Files
