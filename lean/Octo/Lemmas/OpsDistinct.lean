import Octo.Lemmas.OpsNet
/-!
  Octo.Lemmas.OpsDistinct — association lists keyed by `rowEq` (the model of the hash maps) and the
  Distinct node: the invariant "output so far = ind(state + rest) − ind(state)".
-/
namespace Octo.Ops
open Octo

/-! ### association lists -/
theorem aget_congr (l : List (Row × β)) {y y' : Row} (h : rowEq y y' = true) : aget l y = aget l y' := by
  induction l with
  | nil => rfl
  | cons a as ih =>
    simp only [aget, List.find?_cons] at *
    rw [rowEq_congr_right h a.1]
    split
    · rfl
    · exact ih

theorem aget_key (l : List (Row × β)) (y : Row) (p : Row × β) (h : aget l y = some p) : rowEq p.1 y = true := by
  simp only [aget] at h
  have := List.find?_some h
  exact this

theorem aget_aremove (l : List (Row × β)) (k y : Row) :
    aget (aremove l k) y = if rowEq k y then none else aget l y := by
  induction l with
  | nil => simp [aget, aremove]
  | cons a as ih =>
    simp only [aget, aremove, List.filter_cons, List.find?_cons] at *
    cases hak : rowEq a.1 k
    · simp only [Bool.not_false, ↓reduceIte, List.find?_cons]
      cases hay : rowEq a.1 y
      · simp only [Bool.false_eq_true, ↓reduceIte]; exact ih
      · simp only [↓reduceIte]
        have : rowEq k y = false := by
          cases hky : rowEq k y
          · rfl
          · have := rowEq_trans hay (by rwa [rowEq_symm] : rowEq y k = true); simp [this] at hak
        simp [this]
    · simp only [Bool.not_true, Bool.false_eq_true, ↓reduceIte]
      rw [ih]
      cases hky : rowEq k y
      · have : rowEq a.1 y = false := by
          cases hay : rowEq a.1 y
          · rfl
          · have := rowEq_trans (by rwa [rowEq_symm] : rowEq k a.1 = true) hay; simp [this] at hky
        simp [this]
      · simp

theorem aget_aput (l : List (Row × β)) (k : Row) (v : β) (y : Row) :
    aget (aput l k v) y = if rowEq k y then some (k, v) else aget l y := by
  simp only [aput, aget, List.find?_cons]
  cases h : rowEq k y
  · simp only [Bool.false_eq_true, ↓reduceIte]
    have := aget_aremove l k y
    simp only [aget, h, Bool.false_eq_true, ↓reduceIte] at this
    exact this
  · simp

/-! ### Distinct -/
theorem getc_congr (cnt : List (Row × Int)) {y y' : Row} (h : rowEq y y' = true) : getc cnt y = getc cnt y' := by
  simp only [getc, aget_congr cnt h]

theorem getc_aput (cnt : List (Row × Int)) (k : Row) (v : Int) (y : Row) :
    getc (aput cnt k v) y = if rowEq k y then v else getc cnt y := by
  cases h : rowEq k y <;> simp [getc, aget_aput, h]

theorem getc_aremove (cnt : List (Row × Int)) (k y : Row) :
    getc (aremove cnt k) y = if rowEq k y then 0 else getc cnt y := by
  cases h : rowEq k y <;> simp [getc, aget_aremove, h]

/-- indicator of positive multiplicity -/
def ind (n : Int) : Int := if n > 0 then 1 else 0

/-- what the Distinct callback does to the counts and what it emits, for a record that does not
    drive the count of its row below zero -/
theorem distinct_step (cnt : List (Row × Int)) (r : Rec) (hc : ∀ y, 0 ≤ getc cnt y)
    (hr : 0 ≤ getc cnt r.vals + sgn r) :
    ∃ cnt' out, distinctOp.onMsg cnt (.data r) = (cnt', out, none) ∧
      (∀ y, getc cnt' y = getc cnt y + r.weight y) ∧
      (∀ y, net (recs out) y = ind (getc cnt y + r.weight y) - ind (getc cnt y)) ∧
      (recs out = [] ∨ recs out = [r]) := by
  have hc0 := hc r.vals
  cases hretr : r.retr
  · -- addition
    simp [sgn, hretr] at hr
    by_cases h1 : getc cnt r.vals = 0
    · refine ⟨aput cnt r.vals 1, [.data r], ?_, ?_, ?_, Or.inr rfl⟩
      · simp [distinctOp, hretr, h1]
      · intro y; rw [getc_aput, weight_eq]; simp only [sgn, hretr]
        split
        · rename_i h; rw [← getc_congr cnt h, h1]; simp
        · simp
      · intro y; simp only [recs, net, weight_eq, sgn, hretr, ind]
        split
        · rename_i h; rw [← getc_congr cnt h, h1]; simp
        · simp
    · refine ⟨aput cnt r.vals (getc cnt r.vals + 1), [], ?_, ?_, ?_, Or.inl rfl⟩
      · simp only [distinctOp, hretr]
        have : getc cnt r.vals + 1 > 0 := by omega
        have h2 : ¬ (getc cnt r.vals + 1 = 1) := by omega
        simp [this, h2]
      · intro y; rw [getc_aput, weight_eq]; simp only [sgn, hretr]
        split
        · rename_i h; rw [← getc_congr cnt h]; simp
        · simp
      · intro y; simp only [recs, net, weight_eq, sgn, hretr, ind]
        split
        · rename_i h; rw [← getc_congr cnt h]; simp; split <;> split <;> omega
        · simp
  · -- retraction
    simp [sgn, hretr] at hr
    by_cases h1 : getc cnt r.vals = 1
    · refine ⟨aremove cnt r.vals, [.data r], ?_, ?_, ?_, Or.inr rfl⟩
      · simp [distinctOp, hretr, h1]
      · intro y; rw [getc_aremove, weight_eq]; simp only [sgn, hretr]
        split
        · rename_i h; rw [← getc_congr cnt h, h1]; simp
        · simp
      · intro y; simp only [recs, net, weight_eq, sgn, hretr, ind]
        split
        · rename_i h; rw [← getc_congr cnt h, h1]; simp
        · simp
    · refine ⟨aput cnt r.vals (getc cnt r.vals - 1), [], ?_, ?_, ?_, Or.inl rfl⟩
      · simp only [distinctOp, hretr]
        have : getc cnt r.vals - 1 > 0 := by omega
        simp [this]; omega
      · intro y; rw [getc_aput, weight_eq]; simp only [sgn, hretr]
        split
        · rename_i h; rw [← getc_congr cnt h]; simp; omega
        · simp
      · intro y; simp only [recs, net, weight_eq, sgn, hretr, ind]
        split
        · rename_i h; rw [← getc_congr cnt h]; simp; split <;> split <;> omega
        · simp

theorem ind_nonneg (n : Int) : 0 ≤ ind n := by simp only [ind]; split <;> omega

/-- the generalised Distinct invariant (DESIGN §2.8), for a run from any non-negative count state -/
theorem distinct_runFrom (ms : List Msg) :
    ∀ cnt : List (Row × Int), (∀ y, 0 ≤ getc cnt y) →
      (∀ n y, 0 ≤ getc cnt y + net ((recs ms).take n) y) →
      (distinctOp.runFrom cnt ms false).2 = none ∧
      (∀ y, net (recs (distinctOp.runFrom cnt ms false).1) y = ind (getc cnt y + net (recs ms) y) - ind (getc cnt y)) ∧
      ValidFrom (fun y => ind (getc cnt y)) (recs (distinctOp.runFrom cnt ms false).1) := by
  induction ms with
  | nil =>
    intro cnt hc _
    refine ⟨rfl, ?_, ?_⟩
    · intro y; simp [Op.runFrom, distinctOp, recs, net]
    · simp only [Op.runFrom, distinctOp, recs]; exact validFrom_nil (fun y => ind_nonneg _)
  | cons m ms ih =>
    intro cnt hc hv
    cases m with
    | wm t =>
      have hstep : distinctOp.onMsg cnt (.wm t) = (cnt, [], none) := rfl
      simp only [Op.runFrom, hstep, List.nil_append]
      simpa [recs] using ih cnt hc (by simpa [recs] using hv)
    | data r =>
      have h1 := hv 1 r.vals
      simp only [recs, List.take_succ_cons, List.take_zero, net, weight_eq, rowEq_refl, ↓reduceIte, Int.add_zero] at h1
      obtain ⟨cnt', out, hstep, hcnt', hout, hshape⟩ := distinct_step cnt r hc h1
      have hc' : ∀ y, 0 ≤ getc cnt' y := by
        intro y
        have := hv 1 y
        simp only [recs, List.take_succ_cons, List.take_zero, net, Int.add_zero] at this
        rw [hcnt']; exact this
      have hv' : ∀ n y, 0 ≤ getc cnt' y + net ((recs ms).take n) y := by
        intro n y
        have := hv (n + 1) y
        simp only [recs, List.take_succ_cons, net] at this
        rw [hcnt']; omega
      obtain ⟨e, hn, hval⟩ := ih cnt' hc' hv'
      simp only [Op.runFrom, hstep]
      refine ⟨e, ?_, ?_⟩
      · intro y
        simp only [recs_append, net_append, hout, hn, hcnt', recs, net]
        have : getc cnt y + r.weight y + net (recs ms) y = getc cnt y + (r.weight y + net (recs ms) y) := by omega
        rw [this]; omega
      · simp only [recs_append]
        apply validFrom_append
        · rcases hshape with h | h
          · rw [h]; exact validFrom_nil (fun y => ind_nonneg _)
          · rw [h]
            intro n y
            cases n with
            | zero => simpa [net] using ind_nonneg (getc cnt y)
            | succ n =>
              have := hout y
              rw [h] at this
              simp only [List.take_succ_cons, List.take_nil]
              have h3 := ind_nonneg (getc cnt y + r.weight y)
              omega
        · have e2 : (fun y => ind (getc cnt y) + net (recs out) y) = (fun y => ind (getc cnt' y)) := by
            funext y; rw [hout, hcnt']; omega
          rw [e2]; exact hval

end Octo.Ops
