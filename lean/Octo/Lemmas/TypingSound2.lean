import Octo.Lemmas.TypingSound
/-! Octo.Lemmas.TypingSound2 — soundness lemmas for `->` (object field access) and COALESCE. -/
namespace Octo.Tc
open Octo Octo.Ty

/-! ### `->` -/

theorem conformsZip_get : ∀ (ts : List Ty) (xs : List Value) (i : Nat) (t : Ty) (x : Value),
    conformsZip ts xs = true → ts[i]? = some t → xs[i]? = some x → conforms t x = true
  | [], _, _, _, _, _, ht, _ => by simp at ht
  | _ :: _, [], _, _, _, hc, _, _ => by simp [conformsZip] at hc
  | t' :: ts, x' :: xs, 0, t, x, hc, ht, hx => by
    simp only [conformsZip, Bool.and_eq_true] at hc
    simp only [List.getElem?_cons_zero, Option.some.injEq] at ht hx
    subst ht; subst hx; exact hc.1
  | t' :: ts, x' :: xs, i + 1, t, x, hc, ht, hx => by
    simp only [conformsZip, Bool.and_eq_true] at hc
    simp only [List.getElem?_cons_succ] at ht hx
    exact conformsZip_get ts xs i t x hc.2 ht hx

theorem id8_struct {s : Ty} (h : s.id = 8) : ∃ ns ts, s = .struct ns ts := by
  cases s <;> simp [Ty.id] at h
  exact ⟨_, _, rfl⟩

theorem nonNullable_struct_null (s : Ty) (hs : s.id = 8) : nonNullable (.union [s, .null]) = s := by
  obtain ⟨ns, ts, rfl⟩ := id8_struct hs
  simp [nonNullable, Ty.id]

/-- `TypecheckPossiblyNullableStruct` -/
theorem possiblyNullableStruct_sound {S : Sig} {Γ : Ctx} {p obj : PExpr} (hs : Sound S Γ p)
    (h : possiblyNullableStruct p = .ok obj) : Sound S Γ obj := by
  unfold possiblyNullableStruct at h
  cases hnn : nonNullable p.ty with
  | struct ns ts => simp only [hnn, Except.ok.injEq] at h; subst h; exact hs
  | union alts =>
    simp only [hnn] at h
    cases hf : findAltById 8 alts with
    | none => simp [hf] at h
    | some s =>
      simp only [hf, Except.ok.injEq] at h
      subst h
      have ⟨hm, hid⟩ := findAltById_spec 8 alts s hf
      have wnn : wf (.union alts) = true := by rw [← hnn]; exact nonNullable_wf hs.1
      have ws := wf_alt wnn hm
      obtain ⟨ns, ts, rfl⟩ := id8_struct hid
      have wU : wf (.union [.struct ns ts, .null]) = true := by
        rw [wf_union]
        refine ⟨by simp [altsPlain, isUnion, isAny], by simp [distinctIds, Ty.id], ?_⟩
        rw [wfList_iff]; intro a ha
        simp only [List.mem_cons, List.not_mem_nil, or_false] at ha
        rcases ha with rfl | rfl
        · exact ws
        · simp [wf]
      refine ⟨wU, ?_⟩
      intro hp ρ v he hv
      simp only [coalesceOk] at hp
      simp only [eval] at hv
      cases hav : eval S Γ ρ p with
      | val w =>
        simp only [hav] at hv
        split at hv
        · rename_i hr
          simp only [Res.val.injEq] at hv; subst hv
          simp only [PExpr.ty]
          rw [conforms_union_iff]
          have hcw := hs.2 hp ρ w he hav
          simp only [targetIds, List.map, Ty.id, List.contains_cons, List.contains_nil, Bool.or_false, Bool.or_eq_true,
            beq_iff_eq] at hr
          rcases hr with hr | hr
          · -- an object: it is a value of the object alternative
            have hne : w ≠ .null := by rintro rfl; simp [Value.rank] at hr
            have hc' := nonNullable_conforms_of_wf hs.1 hcw hne
            rw [hnn] at hc'
            exact ⟨_, by simp, conforms_alt_of_rank wnn hm hc' (by simpa [Ty.id] using hr)⟩
          · have : w = .null := by cases w <;> simp [Value.rank] at hr; rfl
            subst this
            exact ⟨.null, by simp, by simp [conforms]⟩
        · cases hv
      | err => simp [hav] at hv
      | panic => simp [hav] at hv
      | unmodelled => simp [hav] at hv
  | _ => simp [hnn] at h

theorem fieldIndex_lt (n : Name) : ∀ (ns : List Name) (i : Nat), fieldIndex n ns = some i → i < ns.length
  | [], _, h => by simp [fieldIndex] at h
  | m :: ms, i, h => by
    simp only [fieldIndex] at h
    by_cases hm : m = n
    · simp only [hm, if_true, Option.some.injEq] at h; subst h; simp
    · simp only [hm, if_false, Option.map_eq_some_iff] at h
      obtain ⟨j, hj, rfl⟩ := h
      have := fieldIndex_lt n ms j hj
      simp; omega

/-- `ObjectFieldAccess.Typecheck` + `Materialize` + `Evaluate` -/
theorem field_sound {S : Sig} {Γ : Ctx} {name : Name} {obj p : PExpr} (hs : Sound S Γ obj)
    (h : typecheckField name obj = .ok p) : Sound S Γ p := by
  unfold typecheckField at h
  cases hnn : nonNullable obj.ty with
  | struct ns ts =>
    simp only [hnn] at h
    cases hfi : fieldIndex name ns with
    | none => simp [hfi] at h
    | some i =>
      simp only [hfi] at h
      cases hft : ts[i]? with
      | none => simp [hft] at h
      | some ft =>
        simp only [hft] at h
        have wnn : wf (.struct ns ts) = true := by rw [← hnn]; exact nonNullable_wf hs.1
        have wft : wf ft = true := by
          rw [wf_struct] at wnn
          exact (wfList_iff _).mp wnn.2.2 ft (List.mem_of_getElem? hft)
        -- what evaluation yields, independent of the two typing cases
        have hval : ∀ ρ v, coalesceOk obj = true → EnvConforms Γ ρ →
            (match eval S Γ ρ obj with
              | .val .null => Res.val .null
              | .val (.struct xs) =>
                (match xs[((fieldIndex name (fieldNames obj.ty)).getD 0)]? with
                  | some x => .val x
                  | none => .panic)
              | .val _ => .panic
              | r => r) = .val v →
            (v = .null ∧ conforms obj.ty .null = true) ∨ conforms ft v = true := by
          intro ρ v hp he hv
          cases hav : eval S Γ ρ obj with
          | val w =>
            have hcw := hs.2 hp ρ w he hav
            rw [hav] at hv
            cases w with
            | null => simp only [Res.val.injEq] at hv; subst hv; exact Or.inl ⟨rfl, hcw⟩
            | struct xs =>
              simp only [fieldNames, hnn, hfi, Option.getD_some] at hv
              cases hx : xs[i]? with
              | none => simp [hx] at hv
              | some x =>
                simp only [hx, Res.val.injEq] at hv; subst hv
                have hc' := nonNullable_conforms_of_wf hs.1 hcw (by simp)
                rw [hnn] at hc'
                simp only [conforms] at hc'
                exact Or.inr (conformsZip_get ts xs i ft x hc' hft hx)
            | _ => simp at hv
          | err => rw [hav] at hv; simp at hv
          | panic => rw [hav] at hv; simp at hv
          | unmodelled => rw [hav] at hv; simp at hv
        by_cases hst : isStructTy obj.ty = true
        · simp only [hst, if_true, Except.ok.injEq] at h
          subst h
          refine ⟨wft, ?_⟩
          intro hp ρ v he hv
          simp only [coalesceOk] at hp
          simp only [eval] at hv
          rcases hval ρ v hp he hv with ⟨_, hn⟩ | hc
          · -- an object type has no NULL value
            cases hot : obj.ty <;> simp [hot, isStructTy] at hst
            rw [hot] at hn; simp [conforms] at hn
          · exact hc
        · simp only [hst, Bool.false_eq_true, if_false] at h
          cases hsum : typeSum ft .null with
          | none => simp [hsum] at h
          | some t =>
            simp only [hsum, Except.ok.injEq] at h
            subst h
            refine ⟨typeSum_wf hsum wft (by simp [wf]), ?_⟩
            intro hp ρ v he hv
            simp only [coalesceOk] at hp
            simp only [eval] at hv
            rcases hval ρ v hp he hv with ⟨rfl, _⟩ | hc
            · exact (typeSum_null_char hsum .null).mpr (Or.inr rfl)
            · exact (typeSum_null_char hsum v).mpr (Or.inl hc)
  | _ => simp [hnn] at h


/-! ### COALESCE over struct-, tuple- and `Any`-free argument types -/

theorem plainDataList_iff : ∀ (l : List Ty), plainDataList l = true ↔ ∀ a ∈ l, plainData a = true
  | [] => by simp [plainDataList]
  | a :: as => by simp [plainDataList, plainDataList_iff as]

theorem plainData_noRec_aux : ∀ (n : Nat) (t : Ty), t.size ≤ n → plainData t = true → noRec t = true := by
  intro n
  induction n with
  | zero => intro t h; have := size_pos t; omega
  | succ n ih =>
    intro t hsz hp
    cases t with
    | list e => simp only [plainData] at hp; simp only [noRec]; exact ih e (by simp only [Ty.size] at hsz; omega) hp
    | union alts =>
      simp only [plainData] at hp
      simp only [noRec]
      rw [noRecList_iff]
      intro a ha
      have := size_le_sizeList ha
      exact ih a (by simp only [Ty.size] at hsz; omega) ((plainDataList_iff alts).mp hp a ha)
    | struct _ _ => simp [plainData] at hp
    | tuple _ => simp [plainData] at hp
    | any => simp [plainData] at hp
    | _ => simp [noRec]

theorem plainData_noRec {t : Ty} (h : plainData t = true) : noRec t = true := plainData_noRec_aux t.size t (Nat.le_refl _) h

theorem noRecVList_iff : ∀ (l : List Value), Value.noRecVList l = true ↔ ∀ x ∈ l, x.noRecV = true
  | [] => by simp [Value.noRecVList]
  | a :: as => by simp [Value.noRecVList, noRecVList_iff as]

/-- a value of a struct-, tuple- and `Any`-free type contains no struct and no tuple -/
theorem conforms_plain_noRecV : ∀ (n : Nat) (t : Ty) (v : Value), t.size ≤ n → plainData t = true → conforms t v = true →
    v.noRecV = true := by
  intro n
  induction n with
  | zero => intro t _ h; have := size_pos t; omega
  | succ n ih =>
    intro t v hsz hp hc
    cases t with
    | list e =>
      cases v <;> simp [conforms] at hc
      rename_i xs
      simp only [plainData] at hp
      simp only [Value.noRecV]
      rw [noRecVList_iff]
      intro x hx
      exact ih e x (by simp only [Ty.size] at hsz; omega) hp (hc x hx)
    | union alts =>
      simp only [plainData] at hp
      rw [conforms_union_iff] at hc
      obtain ⟨a, ha, hav⟩ := hc
      have := size_le_sizeList ha
      exact ih a v (by simp only [Ty.size] at hsz; omega) ((plainDataList_iff alts).mp hp a ha) hav
    | listNil =>
      cases v <;> simp [conforms] at hc
      subst hc; simp [Value.noRecV, Value.noRecVList]
    | struct _ _ => simp [plainData] at hp
    | tuple _ => simp [plainData] at hp
    | any => simp [plainData] at hp
    | _ => cases v <;> simp [conforms] at hc <;> simp [Value.noRecV]

theorem mapM_id_of_forall {α} (f : α → Option α) : ∀ (l r : List α), (∀ x ∈ l, ∀ y, f x = some y → y = x) → l.mapM f = some r → r = l
  | [], r, _, h => by simp at h; exact h
  | x :: xs, r, hf, h => by
    simp only [List.mapM_cons, Option.bind_eq_bind] at h
    cases hx : f x with
    | none => simp [hx] at h
    | some y =>
      simp only [hx, Option.bind_some] at h
      cases hxs : xs.mapM f with
      | none => simp [hxs] at h
      | some ys =>
        simp only [hxs, Option.bind_some, Option.pure_def, Option.some.injEq] at h
        subst h
        rw [hf x (by simp) y hx, mapM_id_of_forall f xs ys (fun z hz => hf z (by simp [hz])) hxs]

/-- `ObjectLayoutFixer.fixLayout` returns a value without objects and tuples unchanged -/
theorem fixLayout_id : ∀ (fuel : Nat) (m : Coal.Mapping) (v r : Value), v.noRecV = true → Coal.fixLayout fuel m v = some r → r = v := by
  intro fuel
  induction fuel with
  | zero => intro m v r _ h; simp [Coal.fixLayout] at h
  | succ n ih =>
    intro m v r hn h
    cases v with
    | struct xs => simp [Value.noRecV] at hn
    | tuple xs => simp [Value.noRecV] at hn
    | list xs =>
      simp only [Value.noRecV] at hn
      simp only [Coal.fixLayout] at h
      cases xs with
      | nil => simp at h; exact h.symm
      | cons x xs' =>
        cases hl : m.li with
        | nil => simp [hl] at h
        | cons em _ =>
          simp only [hl] at h
          cases hm : (x :: xs').mapM (fun y => Coal.fixLayout n em y) with
          | none => simp [hm] at h
          | some ys =>
            simp only [hm, Option.some.injEq] at h
            subst h
            congr
            exact mapM_id_of_forall _ _ ys (fun y hy z hz => ih em y z ((noRecVList_iff _).mp hn y hy) hz) hm
    | _ => simp [Coal.fixLayout] at h; exact h.symm

/-- the static type of COALESCE: every argument type `Is` it (struct/tuple-free argument types) -/
theorem coalesceTy_upper : ∀ (as : List PExpr) (t T : Ty), coalesceTy t as = .ok T → wf t = true → noRec t = true →
    (∀ a ∈ as, wf a.ty = true ∧ noRec a.ty = true) →
    wf T = true ∧ t.is T = .is ∧ ∀ a ∈ as, a.ty.is T = .is
  | [], t, T, h, wt, _, _ => by
    simp only [coalesceTy, Except.ok.injEq] at h; subst h
    exact ⟨wt, Ty.is_refl _, by simp⟩
  | a :: as, t, T, h, wt, nt, ha => by
    simp only [coalesceTy] at h
    cases hs : typeSum t a.ty with
    | none => simp [hs] at h
    | some s =>
      simp only [hs] at h
      have ⟨wa, na⟩ := ha a (by simp)
      have ⟨u1, u2, ns⟩ := typeSum_upper_noRec hs nt na
      have ⟨wT, hsT, hrest⟩ := coalesceTy_upper as s T h (typeSum_wf hs wt wa) ns (fun b hb => ha b (by simp [hb]))
      refine ⟨wT, Ty.is_trans u1 hsT, ?_⟩
      intro b hb
      simp only [List.mem_cons] at hb
      rcases hb with rfl | hb
      · exact Ty.is_trans u2 hsT
      · exact hrest b hb

theorem evalCoalesce_spec (S : Sig) (Γ : Ctx) (ρ : List (List Value)) (he : EnvConforms Γ ρ) (T : Ty) :
    ∀ (ms : List Coal.Mapping) (args : List PExpr) (v : Value),
      (∀ a ∈ args, Sound S Γ a ∧ plainData a.ty = true ∧ a.ty.is T = .is) → coalesceOkList args = true →
      (conforms T .null = true ∨ (args ≠ [] ∧ ms.length = args.length)) →
      evalCoalesce S Γ ρ ms args = .val v → conforms T v = true
  | [], [], v, _, _, hn, h => by
    simp only [evalCoalesce, Res.val.injEq] at h; subst h
    rcases hn with hn | ⟨hn, _⟩
    · exact hn
    · exact absurd rfl hn
  | [], _ :: _, v, _, _, hn, h => by
    simp only [evalCoalesce, Res.val.injEq] at h; subst h
    rcases hn with hn | ⟨_, hn⟩
    · exact hn
    · simp at hn
  | _ :: _, [], v, _, _, hn, h => by
    simp only [evalCoalesce, Res.val.injEq] at h; subst h
    rcases hn with hn | ⟨hn, _⟩
    · exact hn
    · exact absurd rfl hn
  | m :: ms, a :: as, v, hs, hp, _, h => by
    simp only [evalCoalesce] at h
    simp only [coalesceOkList, Bool.and_eq_true] at hp
    have ⟨hsa, hpa, hia⟩ := hs a (by simp)
    cases hav : eval S Γ ρ a with
    | val w =>
      simp only [hav] at h
      have hcw := hsa.2 hp.1 ρ w he hav
      by_cases hnull : isNullV w = true
      · simp only [hnull, if_true] at h
        have : w = .null := (isNullV_iff w).mp hnull
        subst this
        exact evalCoalesce_spec S Γ ρ he T ms as v (fun b hb => hs b (by simp [hb])) hp.2
          (Or.inl (Ty.is_sound hia .null hcw)) h
      · simp only [hnull, Bool.false_eq_true, if_false] at h
        cases hf : Coal.fixLayout (Coal.fuelFor w) m w with
        | none => simp [hf] at h
        | some r =>
          simp only [hf, Res.val.injEq] at h
          subst h
          have := fixLayout_id _ m w r (conforms_plain_noRecV _ a.ty w (Nat.le_refl _) hpa hcw) hf
          subst this
          exact Ty.is_sound hia r hcw
    | err => simp [hav] at h
    | panic => simp [hav] at h
    | unmodelled => simp [hav] at h

theorem mapM_length {α β} (f : α → Option β) : ∀ (l : List α) (r : List β), l.mapM f = some r → r.length = l.length
  | [], r, h => by simp at h; subst h; rfl
  | x :: xs, r, h => by
    simp only [List.mapM_cons, Option.bind_eq_bind] at h
    cases hx : f x with
    | none => simp [hx] at h
    | some y =>
      simp only [hx, Option.bind_some] at h
      cases hxs : xs.mapM f with
      | none => simp [hxs] at h
      | some ys =>
        simp only [hxs, Option.bind_some, Option.pure_def, Option.some.injEq] at h
        subst h
        simp [mapM_length f xs ys hxs]

/-- well-formedness of the COALESCE type needs no side condition -/
theorem coalesceTy_wf : ∀ (as : List PExpr) (t T : Ty), coalesceTy t as = .ok T → wf t = true → (∀ a ∈ as, wf a.ty = true) →
    wf T = true
  | [], t, T, h, wt, _ => by simp only [coalesceTy, Except.ok.injEq] at h; subst h; exact wt
  | a :: as, t, T, h, wt, ha => by
    simp only [coalesceTy] at h
    cases hs : typeSum t a.ty with
    | none => simp [hs] at h
    | some s =>
      simp only [hs] at h
      exact coalesceTy_wf as s T h (typeSum_wf hs wt (ha a (by simp))) (fun b hb => ha b (by simp [hb]))

/-- COALESCE over struct-, tuple- and `Any`-free argument types -/
theorem coalesce_sound_plain {S : Sig} {Γ : Ctx} {p : PExpr} {ps : List PExpr} {T : Ty} (hargs : ∀ a ∈ p :: ps, Sound S Γ a)
    (h : coalesceTy p.ty ps = .ok T) (hpl : coalesceOkList (p :: ps) = true) (hplain : ∀ a ∈ p :: ps, plainData a.ty = true)
    (ρ : List (List Value)) (v : Value) (he : EnvConforms Γ ρ) (hv : eval S Γ ρ (.coalesce T (p :: ps)) = .val v) :
    conforms T v = true := by
  have ⟨_, h0, hrest⟩ := coalesceTy_upper ps p.ty T h (hargs p (by simp)).1 (plainData_noRec (hplain p (by simp)))
    (fun a ha => ⟨(hargs a (by simp [ha])).1, plainData_noRec (hplain a (by simp [ha]))⟩)
  have hall : ∀ a ∈ p :: ps, Sound S Γ a ∧ plainData a.ty = true ∧ a.ty.is T = .is := by
    intro a ha
    refine ⟨hargs a ha, hplain a ha, ?_⟩
    simp only [List.mem_cons] at ha
    rcases ha with rfl | ha
    · exact h0
    · exact hrest a ha
  simp only [eval] at hv
  cases hm : layoutMappings T (p :: ps) with
  | none => simp [hm] at hv
  | some ms =>
    simp only [hm] at hv
    have hlen : ms.length = (p :: ps).length := mapM_length _ _ ms hm
    exact evalCoalesce_spec S Γ ρ he T ms (p :: ps) v hall hpl (Or.inr ⟨by simp, hlen⟩) hv

end Octo.Tc
