import Octo.Lemmas.TyWf
/-! `TypeSum` of well-formed types is well formed (and the sum of two plain types with the same `TypeID` is a
    plain type with that `TypeID`). -/
namespace Octo
namespace Ty

def plain (t : Ty) : Prop := t.isUnion = false ∧ t.isAny = false

def WfFor (f : Ty → Ty → Option Ty) : Prop :=
  ∀ x y s, f x y = some s → wf x = true → wf y = true →
    wf s = true ∧ (plain x → plain y → x.id = y.id → plain s ∧ s.id = x.id)

theorem same_id_cases {x y : Ty} (hx : plain x) (hy : plain y) (h : x.id = y.id) :
    (∃ ns1 ts1 ns2 ts2, x = .struct ns1 ts1 ∧ y = .struct ns2 ts2) ∨ (x = .listNil ∧ y = .listNil) ∨
    (∃ e, x = .listNil ∧ y = .list e) ∨ (∃ e, x = .list e ∧ y = .listNil) ∨
    (∃ e1 e2, x = .list e1 ∧ y = .list e2) ∨ (∃ ts1 ts2, x = .tuple ts1 ∧ y = .tuple ts2) ∨ x = y := by
  obtain ⟨hx1, hx2⟩ := hx
  obtain ⟨hy1, hy2⟩ := hy
  cases x <;> simp [isUnion] at hx1 <;> simp [isAny] at hx2 <;>
    cases y <;> simp [isUnion] at hy1 <;> simp [isAny] at hy2 <;> simp [Ty.id] at h <;> simp

theorem wf_struct (ns : List Name) (ts : List Ty) :
    wf (.struct ns ts) = true ↔ strictSortedNames ns = true ∧ ns.length = ts.length ∧ wfList ts = true := by
  simp [wf, and_assoc]

theorem wf_union (alts : List Ty) :
    wf (.union alts) = true ↔ altsPlain alts = true ∧ distinctIds alts = true ∧ wfList alts = true := by
  simp [wf, and_assoc]

theorem wf_null : wf .null = true := by simp [wf]

theorem foldl_wf {f : Ty → Ty → Option Ty} (hf : WfFor f) : ∀ (alts : List Ty) (out c : Ty),
    optFoldl f out alts = some c → wf out = true → (∀ a ∈ alts, wf a = true) → wf c = true
  | [], out, c, hc, ho, _ => by simp only [optFoldl, Option.some.injEq] at hc; subst hc; exact ho
  | a :: as, out, c, hc, ho, ha => by
    simp only [optFoldl] at hc
    cases hs : f out a with
    | none => simp [hs] at hc
    | some out' =>
      simp only [hs] at hc
      exact foldl_wf hf as out' c hc (hf out a out' hs ho (ha a (by simp))).1 (fun b hb => ha b (by simp [hb]))

theorem wf_step {f : Ty → Ty → Option Ty} (hf : WfFor f) : WfFor (typeSumStep f) := by
  intro a b c hc wa wb
  unfold typeSumStep at hc
  by_cases h1 : a.is b = .is
  · rw [if_pos h1] at hc
    cases hc
    exact ⟨wb, fun _ hb hid => ⟨hb, hid.symm⟩⟩
  rw [if_neg h1] at hc
  by_cases h2 : b.is a = .is
  · rw [if_pos h2] at hc
    cases hc
    exact ⟨wa, fun ha _ _ => ⟨ha, rfl⟩⟩
  rw [if_neg h2] at hc
  have hbA : b.isAny = false := by
    cases hb : b.isAny
    · rfl
    · cases eq_any_of_isAny hb; simp at h1
  have haA : a.isAny = false := by
    cases ha : a.isAny
    · rfl
    · cases eq_any_of_isAny ha; simp at h2
  split at hc
  · -- struct / struct
    rename_i ns1 ts1 ns2 ts2
    simp only [Option.map_eq_some_iff] at hc
    obtain ⟨tys, hm, rfl⟩ := hc
    rw [wf_struct] at wa wb
    have ⟨hl, hmem⟩ := optMap_spec _ _ hm
    refine ⟨?_, fun _ _ _ => ⟨⟨rfl, rfl⟩, rfl⟩⟩
    rw [wf_struct]
    refine ⟨strictSorted_sortNames _, hl.symm, (wfList_iff _).mpr ?_⟩
    intro r hr
    obtain ⟨name, _, hfield⟩ := hmem r hr
    unfold structField at hfield
    have w1 := (wfList_iff _).mp wa.2.2
    have w2 := (wfList_iff _).mp wb.2.2
    cases l1 : lookupLast name ns1 ts1 <;> cases l2 : lookupLast name ns2 ts2 <;> simp only [l1, l2] at hfield
    · cases hfield
    · exact (hf _ _ r hfield (w2 _ (lookupLast_mem _ _ _ _ l2)) wf_null).1
    · exact (hf _ _ r hfield (w1 _ (lookupLast_mem _ _ _ _ l1)) wf_null).1
    · exact (hf _ _ r hfield (w1 _ (lookupLast_mem _ _ _ _ l1)) (w2 _ (lookupLast_mem _ _ _ _ l2))).1
  · cases hc; exact ⟨wa, fun ha _ _ => ⟨ha, rfl⟩⟩
  · cases hc; exact ⟨wb, fun _ hb hid => ⟨hb, hid.symm⟩⟩
  · cases hc; exact ⟨wa, fun ha _ _ => ⟨ha, rfl⟩⟩
  · -- list / list
    simp only [Option.map_eq_some_iff] at hc
    obtain ⟨s, hs, rfl⟩ := hc
    simp only [wf] at wa wb ⊢
    exact ⟨(hf _ _ s hs wa wb).1, fun _ _ _ => ⟨⟨rfl, rfl⟩, rfl⟩⟩
  · -- tuple / tuple
    rename_i ts1 ts2
    simp only [Option.map_eq_some_iff] at hc
    obtain ⟨tys, hm, rfl⟩ := hc
    simp only [wf] at wa wb ⊢
    refine ⟨(wfList_iff _).mpr ?_, fun _ _ _ => ⟨⟨rfl, rfl⟩, rfl⟩⟩
    have w1 := (wfList_iff _).mp wa
    have w2 := (wfList_iff _).mp wb
    intro r hr
    split at hm
    · obtain ⟨x, hx, h'⟩ := tupleMerge_spec _ _ _ hm r hr
      rcases h' with ⟨y, hy, h'⟩ | h'
      · exact (hf _ _ r h' (w1 x hx) (w2 y hy)).1
      · exact (hf _ _ r h' (w1 x hx) wf_null).1
    · obtain ⟨x, hx, h'⟩ := tupleMerge_spec _ _ _ hm r hr
      rcases h' with ⟨y, hy, h'⟩ | h'
      · exact (hf _ _ r h' (w2 x hx) (w1 y hy)).1
      · exact (hf _ _ r h' (w2 x hx) wf_null).1
  · -- union / union
    refine ⟨foldl_wf hf _ _ c hc wa ?_, fun ha _ _ => by simp [plain, isUnion] at ha⟩
    rw [wf_union] at wb
    exact (wfList_iff _).mp wb.2.2
  · -- swap
    rename_i alts2 _
    exact ⟨(hf _ _ c hc wb wa).1, fun _ hb _ => by simp [plain, isUnion] at hb⟩
  · -- union alts, plain b
    rename_i alts hbU
    have hbU' : b.isUnion = false := by
      cases hb : b.isUnion
      · rfl
      · obtain ⟨l, rfl⟩ := eq_union_of_isUnion hb; exact absurd rfl (hbU l)
    refine ⟨?_, fun ha _ _ => by simp [plain, isUnion] at ha⟩
    rw [wf_union] at wa
    obtain ⟨wp, wd, wl⟩ := wa
    have wp' := (altsPlain_iff _).mp wp
    have wl' := (wfList_iff _).mp wl
    split at hc
    · rename_i hany
      simp only [Option.map_eq_some_iff] at hc
      obtain ⟨alts', hm, rfl⟩ := hc
      obtain ⟨pre, a0, post, r, e1, e2, e3, e4⟩ := mergeFirst_split _ _ _ hm hany
      have ha0 : a0 ∈ alts := by rw [e1]; simp
      have ⟨wr, hr⟩ := hf a0 b r e3 (wl' a0 ha0) wb
      have ⟨pr, idr⟩ := hr (wp' a0 ha0) ⟨hbU', hbA⟩ e2
      rw [wf_union]
      refine ⟨(altsPlain_iff _).mpr ?_, ?_, (wfList_iff _).mpr ?_⟩
      · intro x hx
        rw [e4] at hx
        simp only [List.mem_append, List.mem_cons] at hx
        rcases hx with hx | rfl | hx
        · exact wp' x (by rw [e1]; simp [hx])
        · exact pr
        · exact wp' x (by rw [e1]; simp [hx])
      · rw [distinctIds_congr alts' alts (by rw [e4, e1]; simp [idr]), wd]
      · intro x hx
        rw [e4] at hx
        simp only [List.mem_append, List.mem_cons] at hx
        rcases hx with hx | rfl | hx
        · exact wl' x (by rw [e1]; simp [hx])
        · exact wr
        · exact wl' x (by rw [e1]; simp [hx])
    · rename_i hany
      cases hc
      have hno : ∀ x ∈ alts, x.id ≠ b.id := by
        intro x hx hid
        exact hany (List.any_eq_true.mpr ⟨x, hx, by simp [hid]⟩)
      rw [wf_union]
      refine ⟨(altsPlain_iff _).mpr ?_, ?_, (wfList_iff _).mpr ?_⟩
      · intro x hx
        rw [mem_sortById, List.mem_append] at hx
        rcases hx with hx | hx
        · exact wp' x hx
        · simp only [List.mem_singleton] at hx; subst hx; exact ⟨hbU', hbA⟩
      · exact distinctIds_sortById _ (distinctIds_append_single _ _ wd hno)
      · intro x hx
        rw [mem_sortById, List.mem_append] at hx
        rcases hx with hx | hx
        · exact wl' x hx
        · simp only [List.mem_singleton] at hx; subst hx; exact wb
  · -- neither is a union, different kinds
    rename_i haU hbU _ _ _ _ _ _ _
    cases hc
    have haU' : a.isUnion = false := by
      cases ha : a.isUnion
      · rfl
      · obtain ⟨l, rfl⟩ := eq_union_of_isUnion ha; exact absurd rfl (haU l)
    have hbU' : b.isUnion = false := by
      cases hb : b.isUnion
      · rfl
      · obtain ⟨l, rfl⟩ := eq_union_of_isUnion hb; exact absurd rfl (hbU l)
    have hne : a.id ≠ b.id := by
      intro hid
      rcases same_id_cases ⟨haU', haA⟩ ⟨hbU', hbA⟩ hid with ⟨_, _, _, _, rfl, rfl⟩ | ⟨rfl, rfl⟩ | ⟨_, rfl, rfl⟩ |
          ⟨_, rfl, rfl⟩ | ⟨_, _, rfl, rfl⟩ | ⟨_, _, rfl, rfl⟩ | rfl
      all_goals first | (exact h1 (is_refl _)) | (simp at *; done) | skip
      all_goals (rename_i h _ _ _ _ _ _; first | exact h _ _ _ _ rfl rfl | skip)
    refine ⟨?_, fun _ _ hid => absurd hid hne⟩
    rw [wf_union]
    refine ⟨(altsPlain_iff _).mpr ?_, ?_, (wfList_iff _).mpr ?_⟩
    · intro x hx
      rw [mem_sortById] at hx
      simp only [List.mem_cons, List.not_mem_nil, or_false] at hx
      rcases hx with rfl | rfl
      · exact ⟨haU', haA⟩
      · exact ⟨hbU', hbA⟩
    · apply distinctIds_sortById
      simp [distinctIds, hne]
    · intro x hx
      rw [mem_sortById] at hx
      simp only [List.mem_cons, List.not_mem_nil, or_false] at hx
      rcases hx with rfl | rfl
      · exact wa
      · exact wb

theorem wfFor_F : ∀ (n : Nat), WfFor (typeSumF n)
  | 0 => by intro a b c h; simp [typeSumF] at h
  | n + 1 => by
    intro a b c hc
    simp only [typeSumF] at hc
    exact wf_step (wfFor_F n) a b c hc

end Ty
end Octo
