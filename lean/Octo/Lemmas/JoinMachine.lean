import Octo.Lemmas.JoinRecv
/-!
  The scheduling half of the join proofs: buffers, `processRecordsUpTo`, the phase switch and the
  run over an arbitrary interleaving — generic in the node (`RecvOK` is what the machine needs to
  know about `receiveRecord`).
-/
namespace Octo.Join
open Octo

/-! ### what the machine needs from `receiveRecord` -/
/-- records have the width the OuterJoin node was built for (irrelevant for StreamJoin) -/
def Shape (cfg : Cfg) (left : Bool) (x : Rec) : Prop :=
  cfg.outer = true → x.vals.length = (if left then cfg.nL else cfg.nR)

structure RecvOK (cfg : Cfg) (W : List Rec → List Rec → Row → Int) : Prop where
  store : ∀ {left : Bool} {tm to : Tree} {Pm Po : List Rec} {x : Rec} {my' : Option Tree} {em : List Rec},
    Rep cfg left tm Pm → Rep cfg (!left) to Po → Shape cfg left x →
    recv cfg (some tm) (some to) left x false = some (my', em) →
    ∃ tm', my' = some tm' ∧ Rep cfg left tm' (Pm ++ [x]) ∧
      ∀ row, net em row = sideW W left (Pm ++ [x]) Po row - sideW W left Pm Po row
  osr : cfg.outer = false → ∀ {left : Bool} {to : Tree} (Pm : List Rec) {Po : List Rec} {x : Rec} {my' : Option Tree} {em : List Rec},
    Rep cfg (!left) to Po →
    recv cfg none (some to) left x true = some (my', em) →
    my' = none ∧ ∀ row, net em row = sideW W left (Pm ++ [x]) Po row - sideW W left Pm Po row
  permL : ∀ {L L' : List Rec} (R : List Rec) (row : Row), List.Perm L L' → W L R row = W L' R row
  permR : ∀ (L : List Rec) {R R' : List Rec} (row : Row), List.Perm R R' → W L R row = W L R' row
  nil : ∀ row, W [] [] row = 0

/-! ### buffers -/
def bufAll : Buf → List Rec
  | [] => []
  | (_, rs) :: rest => rs ++ bufAll rest

theorem bufAll_add (t : Int) (r : Rec) : ∀ b : Buf, List.Perm (bufAll (Buf.add t r b)) (bufAll b ++ [r])
  | [] => by simp [Buf.add, bufAll]
  | (t', rs) :: rest => by
    simp only [Buf.add]
    by_cases h1 : t < t'
    · simp only [h1, if_true, bufAll]
      have : List.Perm ([r] ++ (rs ++ bufAll rest)) ((rs ++ bufAll rest) ++ [r]) := List.perm_append_comm
      simpa using this
    · by_cases h2 : t = t'
      · subst h2
        simp only [Int.lt_irrefl, if_false, if_true, bufAll, List.append_assoc]
        have : List.Perm ([r] ++ bufAll rest) (bufAll rest ++ [r]) := List.perm_append_comm
        exact List.Perm.append_left rs this
      · simp only [h1, h2, if_false, bufAll]
        have := bufAll_add t r rest
        have := List.Perm.append_left rs this
        simpa [List.append_assoc] using this

theorem bufAll_emit (bd : Bound) : ∀ b : Buf, bufAll b = (Buf.emit bd b).1 ++ bufAll (Buf.emit bd b).2
  | [] => rfl
  | (t, rs) :: rest => by
    simp only [Buf.emit]
    by_cases h : bd.releases t = true
    · simp only [h, if_true, bufAll, List.append_assoc]
      rw [← bufAll_emit bd rest]
    · simp [h, bufAll]

theorem emit_top : ∀ b : Buf, Buf.emit .top b = (bufAll b, [])
  | [] => rfl
  | (t, rs) :: rest => by
    simp only [Buf.emit, Bound.releases, if_true, emit_top rest, bufAll]

theorem emit_nil (bd : Bound) : Buf.emit bd [] = ([], []) := rfl

theorem buf_isEmpty {b : Buf} (h : b.isEmpty = true) : b = [] := List.isEmpty_iff.mp h

/-! ### the callback loop of one Emit -/
theorem procList_store {cfg : Cfg} {W : List Rec → List Rec → Row → Int} (ok : RecvOK cfg W) {left : Bool} {to : Tree}
    {Po : List Rec} (ho : Rep cfg (!left) to Po) :
    ∀ (xs : List Rec) {tm : Tree} {Pm : List Rec} {my' : Option Tree} {em : List Rec},
      Rep cfg left tm Pm → (∀ x ∈ xs, Shape cfg left x) →
      procList cfg left false (some to) (some tm) xs = (my', em, true) →
      ∃ tm', my' = some tm' ∧ Rep cfg left tm' (Pm ++ xs) ∧
        ∀ row, net em row = sideW W left (Pm ++ xs) Po row - sideW W left Pm Po row
  | [], tm, Pm, my', em, hm, _, h => by
    simp only [procList] at h
    have h1 : my' = some tm := (congrArg Prod.fst h).symm
    have h2 : em = [] := (congrArg (fun p => p.2.1) h).symm
    subst h1 h2
    exact ⟨tm, rfl, by simpa using hm, fun row => by simp [net]⟩
  | x :: xs, tm, Pm, my', em, hm, hsh, h => by
    simp only [procList] at h
    cases hr : recv cfg (some tm) (some to) left x false with
    | none => rw [hr] at h; simp at h
    | some p =>
      obtain ⟨my1, em1⟩ := p
      rw [hr] at h
      simp only at h
      obtain ⟨tm1, h1, hrep1, hnet1⟩ := ok.store hm ho (hsh x (by simp)) hr
      subst h1
      have hfst : (procList cfg left false (some to) (some tm1) xs).1 = my' := congrArg Prod.fst h
      have hem : em1 ++ (procList cfg left false (some to) (some tm1) xs).2.1 = em := congrArg (fun p => p.2.1) h
      have hok : (procList cfg left false (some to) (some tm1) xs).2.2 = true := congrArg (fun p => p.2.2) h
      obtain ⟨tm', h1', hrep', hnet'⟩ := procList_store ok ho xs (my' := my')
        (em := (procList cfg left false (some to) (some tm1) xs).2.1) hrep1
        (fun y hy => hsh y (by simp [hy])) (Prod.ext hfst (Prod.ext rfl hok))
      refine ⟨tm', h1', by simpa [List.append_assoc] using hrep', fun row => ?_⟩
      rw [← hem, net_append, hnet1 row, hnet' row]
      simp only [List.append_assoc, List.singleton_append]
      omega

theorem procList_osr {cfg : Cfg} {W : List Rec → List Rec → Row → Int} (ok : RecvOK cfg W) (hno : cfg.outer = false)
    {left : Bool} {to : Tree} {Po : List Rec} (ho : Rep cfg (!left) to Po) :
    ∀ (xs : List Rec) (Pm : List Rec) {my' : Option Tree} {em : List Rec},
      procList cfg left true (some to) none xs = (my', em, true) →
      my' = none ∧ ∀ row, net em row = sideW W left (Pm ++ xs) Po row - sideW W left Pm Po row
  | [], Pm, my', em, h => by
    simp only [procList] at h
    have h1 : my' = none := (congrArg Prod.fst h).symm
    have h2 : em = [] := (congrArg (fun p => p.2.1) h).symm
    subst h1 h2
    exact ⟨rfl, fun row => by simp [net]⟩
  | x :: xs, Pm, my', em, h => by
    simp only [procList] at h
    cases hr : recv cfg none (some to) left x true with
    | none => rw [hr] at h; simp at h
    | some p =>
      obtain ⟨my1, em1⟩ := p
      rw [hr] at h
      simp only at h
      obtain ⟨h1, hnet1⟩ := ok.osr hno Pm ho hr
      subst h1
      have hfst : (procList cfg left true (some to) none xs).1 = my' := congrArg Prod.fst h
      have hem : em1 ++ (procList cfg left true (some to) none xs).2.1 = em := congrArg (fun p => p.2.1) h
      have hok : (procList cfg left true (some to) none xs).2.2 = true := congrArg (fun p => p.2.2) h
      obtain ⟨h1', hnet'⟩ := procList_osr ok hno ho xs (Pm ++ [x]) (my' := my')
        (em := (procList cfg left true (some to) none xs).2.1) (Prod.ext hfst (Prod.ext rfl hok))
      refine ⟨h1', fun row => ?_⟩
      rw [← hem, net_append, hnet1 row, hnet' row]
      simp only [List.append_assoc, List.singleton_append]
      omega

/-! ### the state invariant -/
theorem recs_dataMsgs : ∀ em : List Rec, recs (dataMsgs em) = em
  | [] => rfl
  | r :: rs => by simp only [dataMsgs, List.map_cons, recs]; rw [← dataMsgs, recs_dataMsgs rs]

theorem wms_dataMsgs : ∀ em : List Rec, wms (dataMsgs em) = []
  | [] => rfl
  | r :: rs => by simp only [dataMsgs, List.map_cons, wms]; rw [← dataMsgs, wms_dataMsgs rs]

/-- which of the two trees has been given up (`markOneStreamRemains`): none, or the one of the side
    that is still open (`some true` = the left one), in which case the closed side's buffer is empty -/
def TreesOK (cfg : Cfg) (s : St) (PL PR : List Rec) : Option Bool → Prop
  | none => ∃ tl tr, s.treeL = some tl ∧ s.treeR = some tr ∧ Rep cfg true tl PL ∧ Rep cfg false tr PR
  | some true => s.treeL = none ∧ s.bufR = [] ∧ ∃ tr, s.treeR = some tr ∧ Rep cfg false tr PR
  | some false => s.treeR = none ∧ s.bufL = [] ∧ ∃ tl, s.treeL = some tl ∧ Rep cfg true tl PL

/-- `PL`, `PR`: the records handed to `receiveRecord` so far. The output so far is the specification of
    them, and every tree that is still kept holds them. -/
structure Core (cfg : Cfg) (W : List Rec → List Rec → Row → Int) (s : St) (PL PR : List Rec) (drop : Option Bool) : Prop where
  out : ∀ row, net (recs s.out) row = W PL PR row
  trees : TreesOK cfg s PL PR drop

/-- a step that only produces records -/
def Frame (s s' : St) : Prop :=
  s'.lw = s.lw ∧ s'.rw = s.rw ∧ s'.minW = s.minW ∧ ∃ em, s'.out = s.out ++ dataMsgs em

theorem Frame.refl (s : St) : Frame s s := ⟨rfl, rfl, rfl, [], by simp [dataMsgs]⟩
theorem Frame.trans {a b c : St} (h1 : Frame a b) (h2 : Frame b c) : Frame a c := by
  obtain ⟨a1, a2, a3, e1, a4⟩ := h1
  obtain ⟨b1, b2, b3, e2, b4⟩ := h2
  refine ⟨by rw [b1, a1], by rw [b2, a2], by rw [b3, a3], e1 ++ e2, ?_⟩
  rw [b4, a4]; simp [dataMsgs, List.append_assoc]

variable {cfg : Cfg} {W : List Rec → List Rec → Row → Int}

theorem mem_emit_of {b : Bound} {buf : Buf} {x : Rec} (h : x ∈ (Buf.emit b buf).1) : x ∈ bufAll buf := by
  rw [bufAll_emit b buf]; simp [h]

theorem processSide_left (ok : RecvOK cfg W) {s s' : St} {PL PR : List Rec} {drop : Option Bool} {b : Bound}
    (hd : drop.isSome = true → cfg.outer = false) (hc : Core cfg W s PL PR drop)
    (hsh : ∀ x ∈ bufAll s.bufL, Shape cfg true x)
    (h : processSide cfg true s b drop.isSome = .ok s') :
    Core cfg W s' (PL ++ (Buf.emit b s.bufL).1) PR drop ∧ s'.bufL = (Buf.emit b s.bufL).2 ∧ s'.bufR = s.bufR ∧ Frame s s' := by
  unfold processSide at h
  simp only [if_true] at h
  cases drop with
  | none =>
    obtain ⟨tl, tr, hl, hr, repl, repr⟩ := hc.trees
    rw [hr, hl] at h
    simp only [Option.isSome_some, if_true, Option.isSome_none] at h
    cases hp : procList cfg true false (some tr) (some tl) (Buf.emit b s.bufL).1 with
    | mk my' rest =>
      obtain ⟨em, okb⟩ := rest
      rw [hp] at h
      simp only at h
      cases okb with
      | false => simp at h
      | true =>
        simp only [if_true] at h
        have h := (Except.ok.inj h).symm
        obtain ⟨tm', h1, hrep, hnet⟩ := procList_store ok (left := true) repr _ repl
          (fun x hx => hsh x (mem_emit_of hx)) hp
        subst h1
        subst h
        refine ⟨⟨fun row => ?_, tm', tr, rfl, rfl, hrep, repr⟩, rfl, rfl, rfl, rfl, rfl, em, rfl⟩
        show net (recs (s.out ++ dataMsgs em)) row = _
        rw [recs_append, net_append, recs_dataMsgs, hc.out row, hnet row]
        simp only [sideW, if_true]; omega
  | some side =>
    have hno := hd rfl
    cases side with
    | true =>
      obtain ⟨hl, hbr, tr, hr, repr⟩ := hc.trees
      rw [hr, hl] at h
      simp only [Option.isSome_some, if_true] at h
      cases hp : procList cfg true true (some tr) none (Buf.emit b s.bufL).1 with
      | mk my' rest =>
        obtain ⟨em, okb⟩ := rest
        rw [hp] at h
        simp only at h
        cases okb with
        | false => simp at h
        | true =>
          simp only [if_true] at h
          have h := (Except.ok.inj h).symm
          obtain ⟨h1, hnet⟩ := procList_osr ok hno (left := true) repr _ PL hp
          subst h1
          subst h
          refine ⟨⟨fun row => ?_, rfl, hbr, tr, rfl, repr⟩, rfl, rfl, rfl, rfl, rfl, em, rfl⟩
          show net (recs (s.out ++ dataMsgs em)) row = _
          rw [recs_append, net_append, recs_dataMsgs, hc.out row, hnet row]
          simp only [sideW, if_true]; omega
    | false =>
      obtain ⟨hr, hbl, tl, hl, repl⟩ := hc.trees
      rw [hr] at h
      simp only [Option.isSome_none, Bool.false_eq_true, if_false] at h
      have h := (Except.ok.inj h).symm
      subst h
      rw [hbl]
      refine ⟨⟨by simpa [emit_nil] using hc.out, hr, hbl, tl, hl, by simpa [emit_nil] using repl⟩, by simp [emit_nil, hbl], rfl, Frame.refl _⟩

theorem processSide_right (ok : RecvOK cfg W) {s s' : St} {PL PR : List Rec} {drop : Option Bool} {b : Bound}
    (hd : drop.isSome = true → cfg.outer = false) (hc : Core cfg W s PL PR drop)
    (hsh : ∀ x ∈ bufAll s.bufR, Shape cfg false x)
    (h : processSide cfg false s b drop.isSome = .ok s') :
    Core cfg W s' PL (PR ++ (Buf.emit b s.bufR).1) drop ∧ s'.bufR = (Buf.emit b s.bufR).2 ∧ s'.bufL = s.bufL ∧ Frame s s' := by
  unfold processSide at h
  simp only [Bool.false_eq_true, if_false] at h
  cases drop with
  | none =>
    obtain ⟨tl, tr, hl, hr, repl, repr⟩ := hc.trees
    rw [hr, hl] at h
    simp only [Option.isSome_some, if_true, Option.isSome_none] at h
    cases hp : procList cfg false false (some tl) (some tr) (Buf.emit b s.bufR).1 with
    | mk my' rest =>
      obtain ⟨em, okb⟩ := rest
      rw [hp] at h
      simp only at h
      cases okb with
      | false => simp at h
      | true =>
        simp only [if_true] at h
        have h := (Except.ok.inj h).symm
        obtain ⟨tm', h1, hrep, hnet⟩ := procList_store ok (left := false) repl _ repr
          (fun x hx => hsh x (mem_emit_of hx)) hp
        subst h1
        subst h
        refine ⟨⟨fun row => ?_, tl, tm', rfl, rfl, repl, hrep⟩, rfl, rfl, rfl, rfl, rfl, em, rfl⟩
        show net (recs (s.out ++ dataMsgs em)) row = _
        rw [recs_append, net_append, recs_dataMsgs, hc.out row, hnet row]
        simp only [sideW, Bool.false_eq_true, if_false]; omega
  | some side =>
    have hno := hd rfl
    cases side with
    | false =>
      obtain ⟨hr, hbl, tl, hl, repl⟩ := hc.trees
      rw [hr, hl] at h
      simp only [Option.isSome_some, if_true] at h
      cases hp : procList cfg false true (some tl) none (Buf.emit b s.bufR).1 with
      | mk my' rest =>
        obtain ⟨em, okb⟩ := rest
        rw [hp] at h
        simp only at h
        cases okb with
        | false => simp at h
        | true =>
          simp only [if_true] at h
          have h := (Except.ok.inj h).symm
          obtain ⟨h1, hnet⟩ := procList_osr ok hno (left := false) repl _ PR hp
          subst h1
          subst h
          refine ⟨⟨fun row => ?_, rfl, hbl, tl, rfl, repl⟩, rfl, rfl, rfl, rfl, rfl, em, rfl⟩
          show net (recs (s.out ++ dataMsgs em)) row = _
          rw [recs_append, net_append, recs_dataMsgs, hc.out row, hnet row]
          simp only [sideW, Bool.false_eq_true, if_false]; omega
    | true =>
      obtain ⟨hl, hbr, tr, hr, repr⟩ := hc.trees
      rw [hl] at h
      simp only [Option.isSome_none, Bool.false_eq_true, if_false] at h
      have h := (Except.ok.inj h).symm
      subst h
      rw [hbr]
      refine ⟨⟨by simpa [emit_nil] using hc.out, hl, hbr, tr, hr, by simpa [emit_nil] using repr⟩, by simp [emit_nil, hbr], rfl, Frame.refl _⟩

/-- `processRecordsUpTo`: both buffers are released up to the bound into `receiveRecord` -/
theorem processUpTo_ok (ok : RecvOK cfg W) {s s' : St} {PL PR : List Rec} {drop : Option Bool} {b : Bound}
    (hd : drop.isSome = true → cfg.outer = false) (hc : Core cfg W s PL PR drop)
    (hshL : ∀ x ∈ bufAll s.bufL, Shape cfg true x) (hshR : ∀ x ∈ bufAll s.bufR, Shape cfg false x)
    (h : processUpTo cfg s b drop.isSome = .ok s') :
    Core cfg W s' (PL ++ (Buf.emit b s.bufL).1) (PR ++ (Buf.emit b s.bufR).1) drop ∧
      s'.bufL = (Buf.emit b s.bufL).2 ∧ s'.bufR = (Buf.emit b s.bufR).2 ∧ Frame s s' := by
  unfold processUpTo at h
  cases h1 : processSide cfg true s b drop.isSome with
  | error o => rw [h1] at h; simp at h
  | ok s1 =>
    rw [h1] at h
    simp only at h
    obtain ⟨c1, b1, b2, f1⟩ := processSide_left ok hd hc hshL h1
    obtain ⟨c2, b3, b4, f2⟩ := processSide_right ok hd c1 (by rw [b2]; exact hshR) h
    rw [b2] at c2 b3
    exact ⟨c2, by rw [b4, b1], b3, f1.trans f2⟩

/-! ### the invariant over received records -/
/-- `RL`, `RR`: the records received so far; each of them has been processed or sits in its buffer -/
structure Inv (cfg : Cfg) (W : List Rec → List Rec → Row → Int) (s : St) (drop : Option Bool)
    (RL RR PL PR : List Rec) : Prop where
  core : Core cfg W s PL PR drop
  permL : List.Perm (PL ++ bufAll s.bufL) RL
  permR : List.Perm (PR ++ bufAll s.bufR) RR

theorem perm_snoc_mid {a b c : List Rec} (x : Rec) (h : List.Perm (a ++ b) c) :
    List.Perm ((a ++ [x]) ++ b) (c ++ [x]) := by
  have h1 : List.Perm ((a ++ [x]) ++ b) ((a ++ b) ++ [x]) := by
    rw [List.append_assoc, List.append_assoc]
    exact List.Perm.append_left a List.perm_append_comm
  exact h1.trans (List.Perm.append_right [x] h)

theorem perm_snoc_end {a b c : List Rec} {b' : List Rec} (x : Rec) (h : List.Perm (a ++ b) c)
    (hb : List.Perm b' (b ++ [x])) : List.Perm (a ++ b') (c ++ [x]) := by
  have h1 : List.Perm (a ++ b') (a ++ (b ++ [x])) := List.Perm.append_left a hb
  rw [← List.append_assoc] at h1
  exact h1.trans (List.Perm.append_right [x] h)

theorem inv_shapeL {s : St} {drop : Option Bool} {RL RR PL PR : List Rec} (hi : Inv cfg W s drop RL RR PL PR)
    (h : ∀ x ∈ RL, Shape cfg true x) : ∀ x ∈ bufAll s.bufL, Shape cfg true x :=
  fun x hx => h x ((hi.permL.mem_iff).mp (by simp [hx]))
theorem inv_shapeR {s : St} {drop : Option Bool} {RL RR PL PR : List Rec} (hi : Inv cfg W s drop RL RR PL PR)
    (h : ∀ x ∈ RR, Shape cfg false x) : ∀ x ∈ bufAll s.bufR, Shape cfg false x :=
  fun x hx => h x ((hi.permR.mem_iff).mp (by simp [hx]))

/-- a record without event time arriving on the left -/
theorem directRecv_left (ok : RecvOK cfg W) {s s' : St} {drop : Option Bool} {RL RR PL PR : List Rec} {x : Rec}
    (hd : drop.isSome = true → cfg.outer = false) (hopen : drop ≠ some false)
    (hi : Inv cfg W s drop RL RR PL PR) (hsh : Shape cfg true x)
    (h : directRecv cfg true s x drop.isSome = .ok s') :
    Inv cfg W s' drop (RL ++ [x]) RR (PL ++ [x]) PR ∧ s'.bufL = s.bufL ∧ s'.bufR = s.bufR ∧ Frame s s' := by
  unfold directRecv at h
  simp only [if_true] at h
  cases drop with
  | none =>
    obtain ⟨tl, tr, hl, hr, repl, repr⟩ := hi.core.trees
    rw [hl, hr] at h
    simp only [Option.isSome_none] at h
    cases hp : recv cfg (some tl) (some tr) true x false with
    | none => rw [hp] at h; simp at h
    | some p =>
      obtain ⟨my', em⟩ := p
      rw [hp] at h
      simp only at h
      have h := (Except.ok.inj h).symm
      obtain ⟨tm', h1, hrep, hnet⟩ := ok.store (left := true) repl repr hsh hp
      subst h1; subst h
      refine ⟨⟨⟨fun row => ?_, tm', tr, rfl, rfl, hrep, repr⟩, perm_snoc_mid x hi.permL, hi.permR⟩, rfl, rfl, rfl, rfl, rfl, em, rfl⟩
      show net (recs (s.out ++ dataMsgs em)) row = _
      rw [recs_append, net_append, recs_dataMsgs, hi.core.out row, hnet row]
      simp only [sideW, if_true]; omega
  | some side =>
    have hno := hd rfl
    cases side with
    | false => exact absurd rfl hopen
    | true =>
      obtain ⟨hl, hbr, tr, hr, repr⟩ := hi.core.trees
      rw [hl, hr] at h
      simp only [Option.isSome_some] at h
      cases hp : recv cfg none (some tr) true x true with
      | none => rw [hp] at h; simp at h
      | some p =>
        obtain ⟨my', em⟩ := p
        rw [hp] at h
        simp only at h
        have h := (Except.ok.inj h).symm
        obtain ⟨h1, hnet⟩ := ok.osr hno (left := true) PL repr hp
        subst h1; subst h
        refine ⟨⟨⟨fun row => ?_, rfl, hbr, tr, rfl, repr⟩, perm_snoc_mid x hi.permL, hi.permR⟩, rfl, rfl, rfl, rfl, rfl, em, rfl⟩
        show net (recs (s.out ++ dataMsgs em)) row = _
        rw [recs_append, net_append, recs_dataMsgs, hi.core.out row, hnet row]
        simp only [sideW, if_true]; omega

theorem directRecv_right (ok : RecvOK cfg W) {s s' : St} {drop : Option Bool} {RL RR PL PR : List Rec} {x : Rec}
    (hd : drop.isSome = true → cfg.outer = false) (hopen : drop ≠ some true)
    (hi : Inv cfg W s drop RL RR PL PR) (hsh : Shape cfg false x)
    (h : directRecv cfg false s x drop.isSome = .ok s') :
    Inv cfg W s' drop RL (RR ++ [x]) PL (PR ++ [x]) ∧ s'.bufL = s.bufL ∧ s'.bufR = s.bufR ∧ Frame s s' := by
  unfold directRecv at h
  simp only [Bool.false_eq_true, if_false] at h
  cases drop with
  | none =>
    obtain ⟨tl, tr, hl, hr, repl, repr⟩ := hi.core.trees
    rw [hl, hr] at h
    simp only [Option.isSome_none] at h
    cases hp : recv cfg (some tr) (some tl) false x false with
    | none => rw [hp] at h; simp at h
    | some p =>
      obtain ⟨my', em⟩ := p
      rw [hp] at h
      simp only at h
      have h := (Except.ok.inj h).symm
      obtain ⟨tm', h1, hrep, hnet⟩ := ok.store (left := false) repr repl hsh hp
      subst h1; subst h
      refine ⟨⟨⟨fun row => ?_, tl, tm', rfl, rfl, repl, hrep⟩, hi.permL, perm_snoc_mid x hi.permR⟩, rfl, rfl, rfl, rfl, rfl, em, rfl⟩
      show net (recs (s.out ++ dataMsgs em)) row = _
      rw [recs_append, net_append, recs_dataMsgs, hi.core.out row, hnet row]
      simp only [sideW, Bool.false_eq_true, if_false]; omega
  | some side =>
    have hno := hd rfl
    cases side with
    | true => exact absurd rfl hopen
    | false =>
      obtain ⟨hr, hbl, tl, hl, repl⟩ := hi.core.trees
      rw [hl, hr] at h
      simp only [Option.isSome_some] at h
      cases hp : recv cfg none (some tl) false x true with
      | none => rw [hp] at h; simp at h
      | some p =>
        obtain ⟨my', em⟩ := p
        rw [hp] at h
        simp only at h
        have h := (Except.ok.inj h).symm
        obtain ⟨h1, hnet⟩ := ok.osr hno (left := false) PR repl hp
        subst h1; subst h
        refine ⟨⟨⟨fun row => ?_, rfl, hbl, tl, rfl, repl⟩, hi.permL, perm_snoc_mid x hi.permR⟩, rfl, rfl, rfl, rfl, rfl, em, rfl⟩
        show net (recs (s.out ++ dataMsgs em)) row = _
        rw [recs_append, net_append, recs_dataMsgs, hi.core.out row, hnet row]
        simp only [sideW, Bool.false_eq_true, if_false]; omega

/-- a record with event time `t` arriving on an open side goes into that side's buffer -/
theorem addBuf_left {s : St} {drop : Option Bool} {RL RR PL PR : List Rec} (x : Rec) (t : Int)
    (hopen : drop ≠ some false) (hi : Inv cfg W s drop RL RR PL PR) :
    Inv cfg W (addBuf true s t x) drop (RL ++ [x]) RR PL PR := by
  unfold addBuf
  simp only [if_true]
  refine ⟨⟨hi.core.out, ?_⟩, perm_snoc_end x hi.permL (bufAll_add t x s.bufL), hi.permR⟩
  cases drop with
  | none => exact hi.core.trees
  | some side =>
    cases side with
    | false => exact absurd rfl hopen
    | true => exact hi.core.trees

theorem addBuf_right {s : St} {drop : Option Bool} {RL RR PL PR : List Rec} (x : Rec) (t : Int)
    (hopen : drop ≠ some true) (hi : Inv cfg W s drop RL RR PL PR) :
    Inv cfg W (addBuf false s t x) drop RL (RR ++ [x]) PL PR := by
  unfold addBuf
  simp only [Bool.false_eq_true, if_false]
  refine ⟨⟨hi.core.out, ?_⟩, hi.permL, perm_snoc_end x hi.permR (bufAll_add t x s.bufR)⟩
  cases drop with
  | none => exact hi.core.trees
  | some side =>
    cases side with
    | true => exact absurd rfl hopen
    | false => exact hi.core.trees

/-- `processRecordsUpTo` keeps the invariant: what is released moves from the buffers to the processed lists -/
theorem processUpTo_inv (ok : RecvOK cfg W) {s s' : St} {drop : Option Bool} {RL RR PL PR : List Rec} {b : Bound}
    (hd : drop.isSome = true → cfg.outer = false) (hi : Inv cfg W s drop RL RR PL PR)
    (hshL : ∀ x ∈ RL, Shape cfg true x) (hshR : ∀ x ∈ RR, Shape cfg false x)
    (h : processUpTo cfg s b drop.isSome = .ok s') :
    Inv cfg W s' drop RL RR (PL ++ (Buf.emit b s.bufL).1) (PR ++ (Buf.emit b s.bufR).1) ∧
      s'.bufL = (Buf.emit b s.bufL).2 ∧ s'.bufR = (Buf.emit b s.bufR).2 ∧ Frame s s' := by
  obtain ⟨c, b1, b2, f⟩ := processUpTo_ok ok hd hi.core (inv_shapeL hi hshL) (inv_shapeR hi hshR) h
  refine ⟨⟨c, ?_, ?_⟩, b1, b2, f⟩
  · rw [b1, List.append_assoc, ← bufAll_emit]; exact hi.permL
  · rw [b2, List.append_assoc, ← bufAll_emit]; exact hi.permR

end Octo.Join
