import Octo.Lemmas.JsonPipeBasic
/-! What the consumer's batch processing (`procBatch`, `flush`, `finishBatch`) leaves untouched. -/
namespace Octo.JsonPipe

/-- the fields of a pipe that the consumer's batch processing never touches -/
structure Frame (P Q : Pipe) : Prop where
  batch : Q.batch = P.batch
  scanErr : Q.scanErr = P.scanErr
  bad : Q.bad = P.bad
  stopAt : Q.stopAt = P.stopAt
  rpc : Q.rpc = P.rpc
  unread : Q.unread = P.unread
  nextLine : Q.nextLine = P.nextLine
  linesRead : Q.linesRead = P.linesRead
  tokens : Q.tokens = P.tokens
  out : Q.out = P.out
  done : Q.done = P.done
  parentCancelled : Q.parentCancelled = P.parentCancelled
  localCancelled : Q.localCancelled = P.localCancelled
  readerDone : Q.readerDone = P.readerDone
  doneNil : Q.doneNil = P.doneNil
  sub : Q.sub = P.sub

macro "frame_rfl" : tactic =>
  `(tactic| exact ⟨rfl, rfl, rfl, rfl, rfl, rfl, rfl, rfl, rfl, rfl, rfl, rfl, rfl, rfl, rfl, rfl⟩)

theorem Frame.refl (P : Pipe) : Frame P P := by frame_rfl

theorem Frame.trans {P Q R : Pipe} (h1 : Frame P Q) (h2 : Frame Q R) : Frame P R :=
  ⟨h2.batch.trans h1.batch, h2.scanErr.trans h1.scanErr, h2.bad.trans h1.bad, h2.stopAt.trans h1.stopAt,
   h2.rpc.trans h1.rpc, h2.unread.trans h1.unread, h2.nextLine.trans h1.nextLine, h2.linesRead.trans h1.linesRead,
   h2.tokens.trans h1.tokens, h2.out.trans h1.out, h2.done.trans h1.done, h2.parentCancelled.trans h1.parentCancelled,
   h2.localCancelled.trans h1.localCancelled, h2.readerDone.trans h1.readerDone, h2.doneNil.trans h1.doneNil,
   h2.sub.trans h1.sub⟩

theorem Frame.cancelled {P Q : Pipe} (h : Frame P Q) : Q.cancelled = P.cancelled := by
  simp [Pipe.cancelled, h.parentCancelled, h.localCancelled]

theorem flush_frame (fuel : Nat) (P : Pipe) :
    Frame P (flush fuel P).1 ∧ (flush fuel P).1.cpc = P.cpc ∧ (flush fuel P).1.got = P.got := by
  induction fuel generalizing P with
  | zero => exact ⟨Frame.refl P, rfl, rfl⟩
  | succ n ih =>
    simp only [flush]
    split
    · exact ⟨Frame.refl P, rfl, rfl⟩
    · rename_i j rest _
      split
      · exact ⟨by frame_rfl, rfl, rfl⟩
      · have := ih { P with produced := P.produced + j.n, startIndex := P.startIndex + j.n, pending := rest }
        exact ⟨Frame.trans (by frame_rfl) this.1, this.2.1, this.2.2⟩

theorem finishBatch_frame (P : Pipe) :
    Frame P (finishBatch P) ∧ ((finishBatch P).cpc = .sel ∨ (finishBatch P).cpc = .ret) := by
  unfold finishBatch
  split
  · exact ⟨by frame_rfl, Or.inr rfl⟩
  · exact ⟨by frame_rfl, Or.inl rfl⟩

theorem procBatch_frame (P : Pipe) (j : Job) :
    Frame P (procBatch P j) ∧ ((procBatch P j).cpc = .sel ∨ (procBatch P j).cpc = .ret) := by
  unfold procBatch
  simp only
  split
  · exact ⟨by frame_rfl, Or.inr rfl⟩
  · split
    · split
      · exact ⟨by frame_rfl, Or.inr rfl⟩
      · split
        · exact ⟨by frame_rfl, Or.inr rfl⟩
        · split
          · have := flush_frame P.pending.length { P with produced := P.produced + j.n, startIndex := P.startIndex + j.n }
            exact ⟨Frame.trans (Frame.trans (by frame_rfl) this.1) (by frame_rfl), Or.inr rfl⟩
          · have := flush_frame P.pending.length { P with produced := P.produced + j.n, startIndex := P.startIndex + j.n }
            have f2 := finishBatch_frame { (flush P.pending.length { P with produced := P.produced + j.n, startIndex := P.startIndex + j.n }).1 with
              got := j :: (flush P.pending.length { P with produced := P.produced + j.n, startIndex := P.startIndex + j.n }).1.got }
            exact ⟨Frame.trans (Frame.trans (Frame.trans (by frame_rfl) this.1) (by frame_rfl)) f2.1, f2.2⟩
    · split
      · exact ⟨by frame_rfl, Or.inr rfl⟩
      · have f2 := finishBatch_frame { P with pending := j :: P.pending, got := j :: P.got }
        exact ⟨Frame.trans (by frame_rfl) f2.1, f2.2⟩

/-- the queue state right before the final check, when the batch `j` was processed without returning -/
inductive ProcCont (P : Pipe) (j : Job) : Pipe → Prop
  | buffer (h1 : P.startIndex < j.first) : ProcCont P j { P with pending := j :: P.pending, got := j :: P.got }
  | emit (h1 : j.first = P.startIndex)
      (h2 : (flush P.pending.length { P with produced := P.produced + j.n, startIndex := P.startIndex + j.n }).2 = false) :
      ProcCont P j { (flush P.pending.length { P with produced := P.produced + j.n, startIndex := P.startIndex + j.n }).1 with
        got := j :: (flush P.pending.length { P with produced := P.produced + j.n, startIndex := P.startIndex + j.n }).1.got }

theorem procBatch_cases (P : Pipe) (j : Job) :
    ((procBatch P j).cpc = .ret ∧ (procBatch P j).got = P.got) ∨ ∃ Q, ProcCont P j Q ∧ procBatch P j = finishBatch Q := by
  unfold procBatch
  simp only
  by_cases h1 : j.first < P.startIndex
  · left; simp [h1]
  · simp only [h1, if_false]
    by_cases h2 : j.first = P.startIndex
    · simp only [h2, if_true]
      cases hs : stopHit P.produced (match firstBad P.bad P.startIndex j.n with | some x => x - P.startIndex | none => j.n) P.stopAt with
      | some r => left; simp
      | none =>
        simp only
        cases he : firstBad P.bad P.startIndex j.n with
        | some x => left; simp
        | none =>
          simp only
          by_cases h3 : (flush P.pending.length { P with produced := P.produced + j.n, startIndex := P.startIndex + j.n }).2 = true
          · left
            simp only [h3, if_true, true_and]
            exact (flush_frame _ _).2.2
          · right
            simp only [h3]
            exact ⟨_, .emit h2 (by simpa using h3), rfl⟩
    · simp only [h2, if_false]
      cases he : firstBad P.bad j.first j.n with
      | some x => left; simp
      | none =>
        right
        exact ⟨_, .buffer (by omega), rfl⟩

theorem finishBatch_got (Q : Pipe) : (finishBatch Q).got = Q.got ∧ (finishBatch Q).startIndex = Q.startIndex ∧
    (finishBatch Q).pending = Q.pending := by
  unfold finishBatch; split <;> exact ⟨rfl, rfl, rfl⟩

theorem procCont_got {P Q : Pipe} {j : Job} (h : ProcCont P j Q) : Q.got = j :: P.got := by
  cases h with
  | buffer _ => rfl
  | emit _ _ => simp only; rw [(flush_frame _ _).2.2]

end Octo.JsonPipe
