import Octo.Lemmas.PluginsSpec
/-!
  Frame lemmas: the start-up only looks at the "visible" paths

      plugins, plugins/<r>, plugins/<r>/<d>, plugins/<r>/<d>/<x> with <x> not starting with ".",
      file_extension_handlers.json

  so two trees that agree on those start up identically (`startup_eq_of_agree`); and a tree that differs from a
  healthy one only by hidden paths and by freshly created empty ancestor directories of one plugin directory
  also starts up identically (`startup_eq_of_ext`).
-/
namespace Octo.Plugins
open Octo.Fs

/-- the paths the plugin listing looks at -/
def Vis (q : Path) : Prop :=
  q = pluginsDir ∨ (∃ r, q = pluginsDir ++ [r]) ∨ (∃ r d, q = pluginsDir ++ [r, d]) ∨
  (∃ r d x, isDot x = false ∧ q = pluginsDir ++ [r, d, x])

def AgreeVis (fs fs' : Fs) : Prop := ∀ q, Vis q → get fs q = get fs' q

theorem AgreeVis.symm {fs fs' : Fs} (h : AgreeVis fs fs') : AgreeVis fs' fs := fun q hq => (h q hq).symm

theorem AgreeVis.trans {a b c : Fs} (h1 : AgreeVis a b) (h2 : AgreeVis b c) : AgreeVis a c :=
  fun q hq => (h1 q hq).trans (h2 q hq)

theorem vis_plugins : Vis pluginsDir := Or.inl rfl
theorem vis_repo (r : FName) : Vis (pluginsDir ++ [r]) := Or.inr (Or.inl ⟨r, rfl⟩)
theorem vis_plugin (r d : FName) : Vis (pluginsDir ++ [r, d]) := Or.inr (Or.inr (Or.inl ⟨r, d, rfl⟩))
theorem vis_version (r d x : FName) (hx : isDot x = false) : Vis (pluginsDir ++ [r, d, x]) :=
  Or.inr (Or.inr (Or.inr ⟨r, d, x, hx, rfl⟩))
theorem vis_pluginDir (ref : Ref) : Vis (pluginDir ref) := vis_plugin _ _
theorem vis_version' (ref : Ref) (x : FName) (hx : isDot x = false) : Vis (pluginDir ref ++ [x]) := by
  have : pluginDir ref ++ [x] = pluginsDir ++ [ref.repo, pluginDirName ref.name, x] := by simp [pluginDir]
  rw [this]; exact vis_version _ _ _ hx

section
variable {V C : Type} (S : Sem V C)

theorem installed_of_agree {fs fs' : Fs} (h : AgreeVis fs fs') (ref : Ref) (v : V) :
    Installed S fs ref v → Installed S fs' ref v := by
  rintro ⟨hP, hR, hD, x, hx, hs, hp⟩
  refine ⟨?_, ?_, ?_, x, hx, ?_, hp⟩
  · rw [← h _ vis_plugins]; exact hP
  · rw [← h _ (vis_repo _)]; exact hR
  · rw [← h _ (vis_pluginDir ref)]; exact hD
  · rw [← h _ (vis_version' ref x hx)]; exact hs

theorem installed_iff_of_agree {fs fs' : Fs} (h : AgreeVis fs fs') (ref : Ref) (v : V) :
    Installed S fs ref v ↔ Installed S fs' ref v :=
  ⟨installed_of_agree S h ref v, installed_of_agree S h.symm ref v⟩

theorem pluginOk_of_agree {fs fs' : Fs} (h : AgreeVis fs fs') (r d : FName) :
    PluginOk S fs (pluginsDir ++ [r, d]) → PluginOk S fs' (pluginsDir ++ [r, d]) := by
  rintro ⟨hD, hall⟩
  refine ⟨by rw [← h _ (vis_plugin _ _)]; exact hD, ?_⟩
  intro x hx hs
  have : pluginsDir ++ [r, d] ++ [x] = pluginsDir ++ [r, d, x] := by simp
  rw [this, ← h _ (vis_version _ _ _ hx), ← this] at hs
  exact hall x hx hs

theorem listOk_of_agree {fs fs' : Fs} (h : AgreeVis fs fs') : ListOk S fs → ListOk S fs' := by
  rintro (hnone | ⟨hP, hall⟩)
  · left; rw [← h _ vis_plugins]; exact hnone
  · right
    refine ⟨by rw [← h _ vis_plugins]; exact hP, ?_⟩
    intro r hr
    rw [← h _ (vis_repo r)] at hr
    obtain ⟨hR, hds⟩ := hall r hr
    refine ⟨by rw [← h _ (vis_repo r)]; exact hR, ?_⟩
    intro d hd
    rw [← h _ (vis_plugin r d)] at hd
    exact pluginOk_of_agree S h r d (hds d hd)

theorem noUnprefixed_of_agree {fs fs' : Fs} (h : AgreeVis fs fs') : NoUnprefixed fs → NoUnprefixed fs' := by
  intro hnu r d hd
  rw [← h _ (vis_plugin r d)] at hd
  exact hnu r d hd

theorem loadHandlers_congr {fs fs' : Fs} (h : get fs handlersFile = get fs' handlersFile) :
    loadHandlers S fs = loadHandlers S fs' := by simp only [loadHandlers, h]

/-- trees that agree on the visible paths and whose extension registries load alike start up identically -/
theorem startup_eq_of_agree (L : OrderLaws S.gt) {fs fs' : Fs} (h : AgreeVis fs fs') (hnu : NoUnprefixed fs)
    (hok : ListOk S fs) (hH : loadHandlers S fs = loadHandlers S fs') (cfg : List (Db C)) :
    startup S fs cfg = startup S fs' cfg :=
  startup_congr S L hnu (noUnprefixed_of_agree h hnu) hok (listOk_of_agree S h hok)
    (fun ref v => installed_iff_of_agree S h ref v) hH cfg

end

/-! ### freshly created empty ancestors -/

/-- every entry's parent is a directory (true of any real tree) -/
def Closed (fs : Fs) : Prop := ∀ p x, p ≠ [] → (get fs (p ++ [x])).isSome = true → get fs p = some .dir

/-- `fs` is `fs₀` on the visible paths, except that ancestors of the plugin directory `pluginDir ref₀` that did not
    exist may now exist as directories, and that the version entry `x₀` of that directory may have (re)appeared -/
def ExtVis (ref₀ : Ref) (x₀ : FName) (fs₀ fs : Fs) : Prop :=
  ∀ q, Vis q → (q = pluginDir ref₀ ++ [x₀] ∧ (get fs q).isSome = true) ∨ get fs q = get fs₀ q ∨
    (isPre q (pluginDir ref₀) = true ∧ get fs₀ q = none ∧ get fs q = some .dir)

section
variable {V C : Type} (S : Sem V C)

theorem isPre_len {p q : Path} (h : isPre p q = true) : p.length ≤ q.length := by
  obtain ⟨t, rfl⟩ := isPre_iff.1 h; simp

theorem isPre_eq_of_len {p q : Path} (h : isPre p q = true) (hl : p.length = q.length) : p = q := by
  obtain ⟨t, rfl⟩ := isPre_iff.1 h
  simp at hl
  simp [hl]

/-- on the three directory levels there is no exception -/
theorem extVis_dirs {ref₀ : Ref} {x₀ : FName} {fs₀ fs : Fs} (h : ExtVis ref₀ x₀ fs₀ fs) {q : Path} (hq : Vis q)
    (hl : q.length ≤ 3) :
    get fs q = get fs₀ q ∨ (isPre q (pluginDir ref₀) = true ∧ get fs₀ q = none ∧ get fs q = some .dir) := by
  rcases h q hq with ⟨he, _⟩ | h'
  · subst he; simp [pluginDir, pluginsDir] at hl
  · exact h'

/-- on the version level: the exception, or unchanged -/
theorem extVis_version {ref₀ : Ref} {x₀ : FName} {fs₀ fs : Fs} (h : ExtVis ref₀ x₀ fs₀ fs) (r d x : FName)
    (hx : isDot x = false) :
    (pluginsDir ++ [r, d, x] = pluginDir ref₀ ++ [x₀] ∧ (get fs (pluginsDir ++ [r, d, x])).isSome = true) ∨
      get fs (pluginsDir ++ [r, d, x]) = get fs₀ (pluginsDir ++ [r, d, x]) := by
  rcases h _ (vis_version r d x hx) with h' | h' | ⟨hpre, _, _⟩
  · exact Or.inl h'
  · exact Or.inr h'
  · have := isPre_len hpre; simp [pluginDir, pluginsDir] at this

theorem noUnprefixed_of_extVis {ref₀ : Ref} {x₀ : FName} {fs₀ fs : Fs} (h : ExtVis ref₀ x₀ fs₀ fs) :
    NoUnprefixed fs₀ → NoUnprefixed fs := by
  intro hnu r d hd
  rcases extVis_dirs h (vis_plugin r d) (by simp [pluginsDir]) with h' | ⟨hpre, _, _⟩
  · rw [h'] at hd; exact hnu r d hd
  · have := isPre_eq_of_len hpre (by simp [pluginDir, pluginsDir])
    simp only [pluginDir, pluginsDir, List.cons_append, List.nil_append, List.cons.injEq, true_and] at this
    rw [this.2.1]
    simp [pluginDirName, stripPrefix?_append]

/-- whatever was installed stays installed -/
theorem installed_mono_of_extVis {ref₀ : Ref} {x₀ : FName} {fs₀ fs : Fs} (h : ExtVis ref₀ x₀ fs₀ fs)
    (ref : Ref) (v : V) : Installed S fs₀ ref v → Installed S fs ref v := by
  rintro ⟨hP, hR, hD, x, hx, hs, hp⟩
  refine ⟨?_, ?_, ?_, x, hx, ?_, hp⟩
  · rcases extVis_dirs h vis_plugins (by simp [pluginsDir]) with h' | ⟨_, hn, _⟩
    · rw [h']; exact hP
    · rw [hn] at hP; cases hP
  · rcases extVis_dirs h (vis_repo ref.repo) (by simp [pluginsDir]) with h' | ⟨_, hn, _⟩
    · rw [h']; exact hR
    · rw [hn] at hR; cases hR
  · rcases extVis_dirs h (vis_pluginDir ref) (by simp [pluginDir, pluginsDir]) with h' | ⟨_, hn, _⟩
    · rw [h']; exact hD
    · rw [hn] at hD; cases hD
  · have e : pluginDir ref ++ [x] = pluginsDir ++ [ref.repo, pluginDirName ref.name, x] := by simp [pluginDir]
    rw [e] at hs ⊢
    rcases extVis_version h _ _ x hx with ⟨_, hs'⟩ | h'
    · exact hs'
    · rw [h']; exact hs

/-- … and nothing else is, if the version entry `x₀` is as it was -/
theorem installed_iff_of_extVis {ref₀ : Ref} {x₀ : FName} {fs₀ fs : Fs} (hc : Closed fs₀) (h : ExtVis ref₀ x₀ fs₀ fs)
    (hN : get fs (pluginDir ref₀ ++ [x₀]) = get fs₀ (pluginDir ref₀ ++ [x₀]))
    (ref : Ref) (v : V) : Installed S fs ref v ↔ Installed S fs₀ ref v := by
  constructor
  · rintro ⟨hP, hR, hD, x, hx, hs, hp⟩
    have e : pluginDir ref ++ [x] = pluginsDir ++ [ref.repo, pluginDirName ref.name, x] := by simp [pluginDir]
    have hs₀ : (get fs₀ (pluginDir ref ++ [x])).isSome = true := by
      rw [e] at hs ⊢
      rcases extVis_version h _ _ x hx with ⟨he, _⟩ | h'
      · rw [he] at hs ⊢; rw [← hN]; exact hs
      · rw [← h']; exact hs
    have hD₀ : get fs₀ (pluginDir ref) = some .dir := hc _ x (by simp [pluginDir, pluginsDir]) hs₀
    have hR₀ : get fs₀ (pluginsDir ++ [ref.repo]) = some .dir := by
      have : pluginDir ref = (pluginsDir ++ [ref.repo]) ++ [pluginDirName ref.name] := by simp [pluginDir]
      exact hc _ (pluginDirName ref.name) (by simp [pluginsDir]) (by rw [← this, hD₀]; rfl)
    have hP₀ : get fs₀ pluginsDir = some .dir :=
      hc _ ref.repo (by simp [pluginsDir]) (by rw [hR₀]; rfl)
    exact ⟨hP₀, hR₀, hD₀, x, hx, hs₀, hp⟩
  · exact installed_mono_of_extVis S h ref v

theorem listOk_of_extVis {ref₀ : Ref} {x₀ : FName} {fs₀ fs : Fs} (hc : Closed fs₀) (h : ExtVis ref₀ x₀ fs₀ fs)
    (hx₀ : (S.parse x₀).isSome = true) : ListOk S fs₀ → ListOk S fs := by
  intro hok
  have pluginOk : ∀ r d, (get fs (pluginsDir ++ [r, d])).isSome = true → PluginOk S fs (pluginsDir ++ [r, d]) := by
    intro r d hd
    have e : ∀ x, pluginsDir ++ [r, d] ++ [x] = pluginsDir ++ [r, d, x] := by intro x; simp
    rcases extVis_dirs h (vis_plugin r d) (by simp [pluginsDir]) with h' | ⟨_, hn, hdir⟩
    · -- the directory existed before
      rw [h'] at hd
      have hR₀ : get fs₀ (pluginsDir ++ [r]) = some .dir := by
        have : pluginsDir ++ [r, d] = (pluginsDir ++ [r]) ++ [d] := by simp
        exact hc _ d (by simp [pluginsDir]) (by rw [← this]; exact hd)
      have hP₀ : get fs₀ pluginsDir = some .dir := hc _ r (by simp [pluginsDir]) (by rw [hR₀]; rfl)
      rcases hok with hnone | ⟨_, hall⟩
      · rw [hnone] at hP₀; cases hP₀
      · obtain ⟨hD₀, hvs⟩ := (hall r (by rw [hR₀]; rfl)).2 d hd
        refine ⟨by rw [h']; exact hD₀, ?_⟩
        intro x hx hs
        rw [e] at hs
        rcases extVis_version h r d x hx with ⟨he, _⟩ | h''
        · simp only [pluginDir, pluginsDir, List.cons_append, List.nil_append, List.cons.injEq, true_and] at he
          rw [he.2.2.1]; exact hx₀
        · rw [h'', ← e] at hs; exact hvs x hx hs
    · -- the directory is new: its only possible visible entry is the exception
      refine ⟨hdir, ?_⟩
      intro x hx hs
      rw [e] at hs
      rcases extVis_version h r d x hx with ⟨he, _⟩ | h''
      · simp only [pluginDir, pluginsDir, List.cons_append, List.nil_append, List.cons.injEq, true_and] at he
        rw [he.2.2.1]; exact hx₀
      · rw [h'', ← e] at hs
        have := hc _ x (by simp [pluginsDir]) hs
        rw [hn] at this; cases this
  have repoOk : ∀ r, (get fs (pluginsDir ++ [r])).isSome = true → RepoOk S fs r := by
    intro r hr
    refine ⟨?_, fun d hd => pluginOk r d hd⟩
    rcases extVis_dirs h (vis_repo r) (by simp [pluginsDir]) with h' | ⟨_, _, hdir⟩
    · rw [h'] at hr ⊢
      have hP₀ : get fs₀ pluginsDir = some .dir := hc _ r (by simp [pluginsDir]) hr
      rcases hok with hnone | ⟨_, hall⟩
      · rw [hnone] at hP₀; cases hP₀
      · exact (hall r hr).1
    · exact hdir
  rcases extVis_dirs h vis_plugins (by simp [pluginsDir]) with h' | ⟨_, _, hdir⟩
  · rcases hok with hnone | ⟨hP₀, _⟩
    · left; rw [h']; exact hnone
    · right; exact ⟨by rw [h']; exact hP₀, repoOk⟩
  · right; exact ⟨hdir, repoOk⟩

/-- a tree that differs from a healthy closed tree only by new empty ancestors of one plugin directory (and by
    hidden paths) starts up identically -/
theorem startup_eq_of_extVis (L : OrderLaws S.gt) {fs₀ fs : Fs} {ref₀ : Ref} {x₀ : FName} (hc : Closed fs₀)
    (h : ExtVis ref₀ x₀ fs₀ fs) (hN : get fs (pluginDir ref₀ ++ [x₀]) = get fs₀ (pluginDir ref₀ ++ [x₀]))
    (hx₀ : (S.parse x₀).isSome = true) (hnu : NoUnprefixed fs₀) (hok : ListOk S fs₀)
    (hH : get fs handlersFile = get fs₀ handlersFile) (cfg : List (Db C)) :
    startup S fs cfg = startup S fs₀ cfg :=
  startup_congr S L (noUnprefixed_of_extVis h hnu) hnu (listOk_of_extVis S hc h hx₀ hok) hok
    (fun ref v => installed_iff_of_extVis S hc h hN ref v) (loadHandlers_congr S hH) cfg

end
end Octo.Plugins
