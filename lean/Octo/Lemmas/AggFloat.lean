import Octo.Lemmas.AggCore
/-!
  Float `sum` / `avg` in exact arithmetic: for histories of *finite* floats the running sum is the
  exact sum of the net multiset (an integer number of units of 2^-1074 — a commutative group, so the
  order of additions and retractions is irrelevant). IEEE-754 rounding is outside the model.
-/
namespace Octo.Agg
open Octo

/-- the inputs for which the float sums are exact-arithmetic correct: finite float fields -/
def FiniteF (v : Value) : Prop := F64.isFinite (floatField v) = true

theorem key_eq_cases (x y : Nat) (h : F64.key x = F64.key y) :
    F64.mag x = F64.mag y ∧ (F64.neg x = F64.neg y ∨ F64.mag x = 0) := by
  unfold F64.key at h
  cases hx : F64.neg x <;> cases hy : F64.neg y <;> simp only [hx, hy, Bool.false_eq_true, if_false, if_true] at h <;>
    refine ⟨by omega, ?_⟩ <;> first | exact Or.inl rfl | (right; omega)

theorem toScaled_zero_of_mag (x : Nat) (h : F64.mag x = 0) : F64.toScaled x = 0 := by
  unfold F64.toScaled
  simp [h]

theorem float_congr (x y : Nat) (h : cmpFloatFixed x y = 0) :
    F64.isFinite x = F64.isFinite y ∧ (F64.isFinite x = true → F64.toScaled x = F64.toScaled y) := by
  rcases (cmpFloatFixed_eq_zero_iff x y).mp h with ⟨h1, h2⟩ | ⟨_, _, h3⟩
  · have e1 : F64.isFinite x = false := by
      simp only [F64.isNaN, decide_eq_true_eq] at h1; simp [F64.isFinite]; omega
    have e2 : F64.isFinite y = false := by
      simp only [F64.isNaN, decide_eq_true_eq] at h2; simp [F64.isFinite]; omega
    simp [e1, e2]
  · obtain ⟨hm, hs⟩ := key_eq_cases x y h3
    refine ⟨by simp [F64.isFinite, hm], fun _ => ?_⟩
    rcases hs with hs | hs
    · unfold F64.toScaled; rw [hm, hs]
    · rw [toScaled_zero_of_mag x hs, toScaled_zero_of_mag y (by omega)]

theorem floatField_congr (a b : Value) (h : cmp a b = 0) :
    F64.isFinite (floatField a) = F64.isFinite (floatField b) ∧
      (F64.isFinite (floatField a) = true → F64.toScaled (floatField a) = F64.toScaled (floatField b)) := by
  have hr := cmpWith_zero_rank a b h
  cases a <;> cases b <;> simp only [Value.rank] at hr <;> (try omega) <;> simp only [floatField] <;>
    (try exact ⟨trivial, fun _ => trivial⟩)
  rename_i x y
  have h' : cmpFloatFixed x y = 0 := by simpa only [cmp, cmpWith] using h
  exact float_congr _ _ h'

theorem finScaled_congr (a b : Value) (h : cmp a b = 0) : finScaled a = finScaled b := by
  obtain ⟨h1, h2⟩ := floatField_congr a b h
  unfold finScaled
  rw [← h1]
  split
  · rename_i hf; exact h2 hf
  · rfl

theorem finiteF_congr {a b : Value} (h : cmp a b = 0) (ha : FiniteF a) : FiniteF b := by
  unfold FiniteF at *; rw [← (floatField_congr a b h).1]; exact ha

theorem ofBits_finite {v : Value} (h : FiniteF v) : FSum.ofBits (floatField v) = .fin (finScaled v) := by
  unfold FiniteF at h
  have h' := h
  simp only [F64.isFinite, decide_eq_true_eq] at h'
  have h1 : F64.isNaN (floatField v) = false := by simp [F64.isNaN]; omega
  have h2 : F64.isInf (floatField v) = false := by simp [F64.isInf]; omega
  simp [FSum.ofBits, h1, h2, finScaled, h]

theorem specFSum_finite {L : List Value} (h : ∀ x ∈ L, FiniteF x) : specFSum L = .fin (sumZ finScaled L) := by
  have h1 : (L.map floatField).any F64.isNaN = false := by
    rw [List.any_eq_false]
    intro b hb
    obtain ⟨x, hx, rfl⟩ := List.mem_map.mp hb
    have := h x hx
    simp only [FiniteF, F64.isFinite, decide_eq_true_eq] at this
    simp [F64.isNaN]; omega
  have h2 : ∀ (q : Nat → Bool), (L.map floatField).any (fun b => F64.isInf b && q b) = false := by
    intro q
    rw [List.any_eq_false]
    intro b hb
    obtain ⟨x, hx, rfl⟩ := List.mem_map.mp hb
    have := h x hx
    simp only [FiniteF, F64.isFinite, decide_eq_true_eq] at this
    have : F64.isInf (floatField x) = false := by simp [F64.isInf]; omega
    simp [this]
  simp only [specFSum, h1, h2 (fun b => !F64.neg b), h2 F64.neg]
  simp

theorem roundMag_le (a d : Nat) : F64.roundMag a d ≤ F64.expMask := by
  have aux : ∀ bits : Nat, (if bits ≥ F64.expMask then F64.expMask else bits) ≤ F64.expMask := by
    intro bits; split <;> omega
  exact aux _

/-- a finite exact sum is never reported as NaN (rounding can only overflow to an infinity) -/
theorem ofScaled_not_nan (k : Int) : F64.isNaN (F64.ofScaled k) = false := by
  have h := roundMag_le k.natAbs 1
  simp only [F64.expMask] at h
  simp only [F64.ofScaled, F64.isNaN, F64.mag, F64.signBit, F64.expMask]
  split <;> simp <;> omega

def FSumInv (s : FSumS) (L : List Value) : Prop := s.sum = .fin (sumZ finScaled L) ∧ s.count = (L.length : Int)

theorem fsumAdd_step {s : FSumS} {L : List Value} (e : Bool × Value) (hi : FSumInv s L) (hP : FiniteF e.2)
    (hv : e.1 = true → 0 < cnt L e.2) :
    FSumInv (fsumAdd s e.1 e.2).1 (bagStep L e) ∧ (fsumAdd s e.1 e.2).2 = (bagStep L e).isEmpty := by
  obtain ⟨r, x⟩ := e
  obtain ⟨h1, h2⟩ := hi
  cases r with
  | false =>
    simp only [fsumAdd, bagStep, FSumInv, Bool.not_false, if_true, Bool.false_eq_true, if_false, sumZ,
      List.length_cons, List.isEmpty_cons]
    rw [h1, h2, ofBits_finite hP]
    refine ⟨⟨by simp only [FSum.add]; rw [Int.add_comm], by omega⟩, ?_⟩
    simp; omega
  | true =>
    have hl := length_eraseEq (hv rfl)
    have hs := sumZ_eraseEq finScaled finScaled_congr (hv rfl)
    simp only [fsumAdd, bagStep, FSumInv, Bool.not_true, Bool.false_eq_true, if_false, if_true]
    rw [h1, h2, ofBits_finite hP, hs, hl, isEmpty_iff_length, hl]
    refine ⟨⟨by simp only [FSum.neg, FSum.add]; rw [Int.sub_eq_add_neg], rfl⟩, rfl⟩

def sumFloatProof : AggProof sumFloatAgg FiniteF specSumFloat where
  Inv := FSumInv
  init := ⟨rfl, rfl⟩
  step := fun e hi _ hP hv => fsumAdd_step e hi hP hv
  result := by
    intro s L hi hL _
    refine ⟨specSumFloat L, ?_, crefl _⟩
    simp only [sumFloatAgg, specSumFloat, specFSum_finite hL, hi.1]
  congr := by
    intro L M hL hM h
    simp only [specSumFloat, specFSum_finite hL, specFSum_finite hM, sumZ_congr finScaled finScaled_congr L M h]
    exact crefl _
  P_congr := finiteF_congr

def FAvgInv (a : FAvgS) (L : List Value) : Prop := FSumInv a.sum L ∧ a.count = (L.length : Int)

def avgFloatProof : AggProof avgFloatAgg FiniteF specAvgFloat where
  Inv := FAvgInv
  init := ⟨⟨rfl, rfl⟩, rfl⟩
  step := by
    intro a L e hi _ hP hv
    obtain ⟨h1, h2⟩ := hi
    have hs := (fsumAdd_step e h1 hP hv).1
    have hc := countProof.step (s := a.count) (L := L) e h2 (fun _ _ => trivial) trivial hv
    exact ⟨⟨hs, hc.1⟩, hc.2⟩
  result := by
    intro a L hi hL _
    refine ⟨specAvgFloat L, ?_, crefl _⟩
    simp only [avgFloatAgg, specAvgFloat, specFSum_finite hL, hi.1.1, hi.2]
  congr := by
    intro L M hL hM h
    simp only [specAvgFloat, specFSum_finite hL, specFSum_finite hM, sumZ_congr finScaled finScaled_congr L M h,
      length_congr L M h]
    exact crefl _
  P_congr := finiteF_congr

end Octo.Agg
