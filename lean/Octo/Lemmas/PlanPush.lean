import Octo.Lemmas.PlanRules
/-!
  Soundness of `PushDownFilterPredicatesToDatasource` (for the two modelled answers of
  `DatasourceImplementation.PushDownPredicates`) and of `PushDownFilterPredicatesIntoLookupJoinBranch`.
-/
namespace Octo.Plan
open Octo

/-! ### datasources -/

theorem tableRow_names {mapping : List (String × String)} {tr : Row} : ∀ {fields : List String} {r : Row},
    tableRow mapping tr fields = some r → Row.names r = fields
  | [], r, h => by
    simp only [tableRow, Option.some.injEq] at h
    subst h
    rfl
  | u :: us, r, h => by
    simp only [tableRow] at h
    cases hm : mapping.lookup u with
    | none => simp [hm] at h
    | some col =>
      simp only [hm] at h
      cases hv : lookupRow col tr with
      | none => simp [hv] at h
      | some v =>
        cases hr : tableRow mapping tr us with
        | none => simp [hv, hr] at h
        | some rest =>
          simp only [hv, hr, Option.some.injEq] at h
          subst h
          simp [Row.names, ← tableRow_names hr]

theorem tableRows_names {mapping : List (String × String)} {fields : List String} : ∀ {trs rows : List Row},
    tableRows mapping fields trs = some rows → ∀ r ∈ rows, Row.names r = fields
  | [], rows, h => by
    simp only [tableRows, Option.some.injEq] at h
    subst h
    simp
  | tr :: trs, rows, h => by
    simp only [tableRows] at h
    cases h1 : tableRow mapping tr fields with
    | none => simp [h1] at h
    | some r =>
      cases h2 : tableRows mapping fields trs with
      | none => simp [h1, h2] at h
      | some rest =>
        simp only [h1, h2, Option.some.injEq] at h
        subst h
        intro x hx
        rcases List.mem_cons.mp hx with rfl | hx
        · exact tableRow_names h1
        · exact tableRows_names h2 x hx

/-- pushed-down predicates on well-formed records: the records on which all of them are TRUE -/
theorem andAll_good {fs outer : List String} {ctx : Ctx} {preds : List PExpr} {rows : List Row}
    (hrows : ∀ r ∈ rows, Row.names r = fs) (hb : Binds outer ctx) (hp : ExprsOK (fs ++ outer) preds) :
    andAll ctx preds rows = some (rows.filter fun r => preds.all fun c => keep ctx c r) := by
  cases preds with
  | nil =>
    simp only [andAll, List.all_nil]
    rw [List.filter_eq_self.mpr (fun _ _ => rfl)]
  | cons p ps =>
    simp only [andAll]
    rw [filterRows_good hrows hb (exprOK_and hp)]
    congr 1
    apply List.filter_congr
    intro r _
    rw [keep_and]

theorem all_partition {α : Type} (K p : α → Bool) : ∀ (l : List α),
    l.all K = ((l.filter p).all K && (l.filter fun x => !p x).all K)
  | [] => by simp
  | x :: l => by
    have ih := all_partition K p l
    rw [List.all_cons, List.filter_cons, List.filter_cons, ih]
    cases hp : p x
    · simp only [Bool.false_eq_true, if_false, Bool.not_false, if_true, List.all_cons]
      cases K x <;> cases (l.filter p).all K <;> cases (l.filter fun x => !p x).all K <;> rfl
    · simp only [if_true, Bool.not_true, Bool.false_eq_true, if_false, List.all_cons]
      cases K x <;> cases (l.filter p).all K <;> cases (l.filter fun x => !p x).all K <;> rfl

theorem pushToDatasource_local (db : Db) : LocalOK db pushToDatasourceLocal := by
  intro outer q q' c hg h
  unfold pushToDatasourceLocal at h
  split at h
  · rename_i s e s2 name alias pol preds mapping
    split at h
    · cases h
    · rename_i rejected pushedDown changed heq
      split at h
      · simp only [Option.some.injEq, Prod.mk.injEq] at h
        obtain ⟨rfl, _⟩ := h
        exact StepOK.refl hg
      · rename_i hch
        simp only [Option.some.injEq, Prod.mk.injEq] at h
        obtain ⟨rfl, _⟩ := h
        simp only [pushDownPredicates] at heq
        split at heq
        · -- the built-in file formats: nothing is pushed down, nothing changes
          simp only [Option.some.injEq, Prod.mk.injEq] at heq
          obtain ⟨_, _, rfl⟩ := heq
          simp at hch
        · split at heq
          · -- the mock: `col = const` conjuncts are accepted
            simp only [Option.some.injEq, Prod.mk.injEq] at heq
            obtain ⟨rfl, rfl, _⟩ := heq
            simp only [Good, UnGood, LeafGood, schema_leaf] at hg
            obtain ⟨hnd, ⟨_, hpreds, htab⟩, hs, he⟩ := hg
            subst hs
            have hfp : ∀ c ∈ splitByAnd e, ExprOK (s.fields ++ outer) c := fun c hc => exprOK_conjunct he hc
            have hpush : ExprsOK (s.fields ++ outer) (preds ++ (splitByAnd e).filter isEqConst) := by
              intro x hx
              rcases List.mem_append.mp hx with hx | hx
              · exact hpreds x hx
              · exact hfp x (List.mem_filter.mp hx).1
            have hgout : Good db (.leaf s (.ds name alias pol (preds ++ (splitByAnd e).filter isEqConst) mapping)) outer := by
              simp only [Good, LeafGood]
              exact ⟨hnd, hpush, htab⟩
            have hrej : ∀ c ∈ (splitByAnd e).filter (fun p => !isEqConst p),
                ExprOK ((Plan.leaf s (.ds name alias pol (preds ++ (splitByAnd e).filter isEqConst) mapping)).fields ++ outer) c := by
              intro c hc
              simp only [fields_leaf]
              exact hfp c (List.mem_filter.mp hc).1
            obtain ⟨ho1, ho2, ho3⟩ := optFilter_ok (cs := (splitByAnd e).filter (fun p => !isEqConst p)) hgout hrej
            show StepOK db outer _ (optFilter ((splitByAnd e).filter (fun p => !isEqConst p))
              (Plan.leaf s (.ds name alias pol (preds ++ (splitByAnd e).filter isEqConst) mapping)))
            refine ⟨ho1, ho2, ?_⟩
            intro ctx hb
            rw [ho3 ctx hb]
            simp only [denote, leafRows, dsRows, unRows]
            cases hdb : db name with
            | none => rfl
            | some trows =>
              simp only
              cases ht : tableRows mapping s.fields trows with
              | none => rfl
              | some rows =>
                have hn := tableRows_names ht
                simp only
                rw [andAll_good hn hb hpush, andAll_good hn hb hpreds, checked_pass (names_of_filter hn),
                    checked_pass (names_of_filter hn)]
                simp only [Option.map_some]
                rw [filterRows_good (names_of_filter hn) hb he, checked_pass (names_of_filter (names_of_filter hn))]
                congr 1
                rw [List.filter_filter, List.filter_filter]
                apply List.filter_congr
                intro r _
                rw [keep_split, all_partition (fun c => keep ctx c r) isEqConst (splitByAnd e), List.all_append]
                cases (preds.all fun c => keep ctx c r) <;>
                  cases (((splitByAnd e).filter isEqConst).all fun c => keep ctx c r) <;>
                  cases (((splitByAnd e).filter fun p => !isEqConst p).all fun c => keep ctx c r) <;> rfl
          · cases heq
  · simp only [Option.some.injEq, Prod.mk.injEq] at h
    obtain ⟨rfl, _⟩ := h
    exact StepOK.refl hg

theorem pushToDatasource_ok (db : Db) : RuleOK db pushDownFilterPredicatesToDatasource :=
  rule_of_local (pushToDatasource_local db)

/-! ### lookup joins -/

mutual
theorem vars_setNonLevel0 (fs : List String) : ∀ e : PExpr, varsUsed (setNonLevel0 fs e) = varsUsed e
  | .var x l => by
    simp only [setNonLevel0]
    split <;> rfl
  | .const _ => rfl
  | .nary k args => by simp only [setNonLevel0, varsUsed, vars_setNonLevel0L fs args]
  | .unary k e => by simp only [setNonLevel0, varsUsed, vars_setNonLevel0 fs e]
theorem vars_setNonLevel0L (fs : List String) : ∀ es : List PExpr, varsUsedL (setNonLevel0L fs es) = varsUsedL es
  | [] => rfl
  | e :: es => by simp only [setNonLevel0L, varsUsedL, vars_setNonLevel0 fs e, vars_setNonLevel0L fs es]
end

mutual
/-- `IsLevel0` is not read by evaluation (the level is recomputed from the record chain) -/
theorem eval_setNonLevel0 (fs : List String) (cx : Ctx) : ∀ e : PExpr, eval cx (setNonLevel0 fs e) = eval cx e
  | .var x l => by
    simp only [setNonLevel0]
    split <;> rfl
  | .const _ => rfl
  | .nary k args => by simp only [setNonLevel0, eval, evalL_setNonLevel0 fs cx args]
  | .unary k e => by simp only [setNonLevel0, eval, eval_setNonLevel0 fs cx e]
theorem evalL_setNonLevel0 (fs : List String) (cx : Ctx) : ∀ es : List PExpr, evalL cx (setNonLevel0L fs es) = evalL cx es
  | [] => rfl
  | e :: es => by simp only [setNonLevel0L, evalL, eval_setNonLevel0 fs cx e, evalL_setNonLevel0 fs cx es]
end

theorem setNonLevel0L_length (fs : List String) : ∀ es : List PExpr, (setNonLevel0L fs es).length = es.length
  | [] => rfl
  | e :: es => by simp [setNonLevel0L, setNonLevel0L_length fs es]

theorem safeE_setNonLevel0 {fs : List String} {e : PExpr} (h : SafeE e) : SafeE (setNonLevel0 fs e) := by
  intro cx hb
  rw [eval_setNonLevel0]
  exact h cx (by rw [vars_setNonLevel0] at hb; exact hb)

mutual
theorem hsafe_setNonLevel0 (fs : List String) : ∀ {e : PExpr}, HSafe e → HSafe (setNonLevel0 fs e)
  | .var x l, _ => by
    simp only [setNonLevel0]
    split <;> trivial
  | .const _, _ => trivial
  | .nary k args, h => by
    have h0 : SafeE (setNonLevel0 fs (.nary k args)) := safeE_setNonLevel0 h.1
    simp only [setNonLevel0] at h0 ⊢
    refine ⟨h0, ?_, hsafe_setNonLevel0L fs h.2.2⟩
    cases k with
    | call fn =>
      intro hfn
      rw [setNonLevel0L_length]
      exact h.2.1 hfn
    | _ => trivial
  | .unary k e, h => by
    have h0 : SafeE (setNonLevel0 fs (.unary k e)) := safeE_setNonLevel0 h.1
    simp only [setNonLevel0] at h0 ⊢
    exact ⟨h0, hsafe_setNonLevel0 fs h.2⟩
theorem hsafe_setNonLevel0L (fs : List String) : ∀ {es : List PExpr}, HSafeL es → HSafeL (setNonLevel0L fs es)
  | [], _ => trivial
  | _ :: _, h => ⟨hsafe_setNonLevel0 fs h.1, hsafe_setNonLevel0L fs h.2⟩
end

theorem exprOK_setNonLevel0 {scope fs : List String} {e : PExpr} (h : ExprOK scope e) : ExprOK scope (setNonLevel0 fs e) :=
  ⟨by rw [vars_setNonLevel0]; exact h.inScope, hsafe_setNonLevel0 fs h.safe⟩

theorem lookupJoinRows_some {j : Ctx → Option (List Row)} {ctx : Ctx} : ∀ {ls : List Row},
    (∀ l ∈ ls, (j (l :: ctx)).isSome = true) →
    lookupJoinRows j ctx ls = some (ls.flatMap fun l => ((j (l :: ctx)).getD []).map fun x => l ++ x)
  | [], _ => by simp [lookupJoinRows]
  | l :: ls, h => by
    have ih := lookupJoinRows_some (j := j) (ctx := ctx) (ls := ls) (fun x hx => h x (by simp [hx]))
    have hl := h l (by simp)
    cases hj : j (l :: ctx) with
    | none => rw [hj] at hl; cases hl
    | some js => simp [lookupJoinRows, hj, ih]

/-- the record `l ++ j` seen as one record, or as `j` inside the lookup-join context of `l`: the same, when the two
    have no field name in common -/
theorem eval_append_nested (l j : Row) (ctx : Ctx) (e : PExpr) (hd : ∀ x ∈ Row.names l, x ∉ Row.names j) :
    eval ((l ++ j) :: ctx) e = eval (j :: l :: ctx) e := by
  apply eval_congr
  intro x _
  simp only [lookupVar, lookupRow_append]
  by_cases hx : x ∈ Row.names l
  · rw [lookupRow_none_of_not_mem (hd x hx)]
    cases lookupRow x l <;> rfl
  · rw [lookupRow_none_of_not_mem hx]

theorem lookup_filter_push (P : Row → Bool) (kS : Row → Bool) (kJ : Row → Row → Bool) (js : Row → List Row) :
    ∀ (ls : List Row), (∀ l ∈ ls, ∀ j ∈ js l, P (l ++ j) = (kS l && kJ l j)) →
    (ls.flatMap fun l => (js l).map fun x => l ++ x).filter P =
      (ls.filter kS).flatMap fun l => ((js l).filter (kJ l)).map fun x => l ++ x
  | [], _ => by simp
  | l :: ls, h => by
    have ih := lookup_filter_push P kS kJ js ls (fun x hx => h x (by simp [hx]))
    rw [List.flatMap_cons, List.filter_append, ih, List.filter_cons, List.filter_map]
    have hin : (js l).filter (P ∘ fun x => l ++ x) = if kS l then (js l).filter (kJ l) else [] := by
      cases hk : kS l with
      | false =>
        simp only [Bool.false_eq_true, if_false, List.filter_eq_nil_iff]
        intro j hj
        simp [Function.comp, h l (by simp) j hj, hk]
      | true =>
        simp only [if_true]
        apply List.filter_congr
        intro j hj
        simp [Function.comp, h l (by simp) j hj, hk]
    rw [hin]
    cases kS l <;> simp

theorem flatMap_congr' {α β : Type} {f g : α → List β} : ∀ {l : List α}, (∀ x ∈ l, f x = g x) →
    l.flatMap f = l.flatMap g
  | [], _ => rfl
  | x :: l, h => by
    rw [List.flatMap_cons, List.flatMap_cons, h x (by simp), flatMap_congr' (l := l) (fun y hy => h y (by simp [hy]))]

theorem mem_perm_scope {a b c : List String} {x : String} (h : x ∈ (a ++ b) ++ c) : x ∈ b ++ (a ++ c) := by
  simp only [List.mem_append] at h ⊢
  rcases h with (h | h) | h
  · exact Or.inr (Or.inl h)
  · exact Or.inl h
  · exact Or.inr (Or.inr h)

/-- the filter node put on the joined side: its variables of the source schema are marked non-level-0 -/
def optFilterNL (fs : List String) (cs : List PExpr) (p : Plan) : Plan :=
  if cs.length > 0 then .un p.schema (.filter (setNonLevel0 fs (.nary .and cs))) p else p

theorem optFilterNL_ok {db : Db} {scope fs : List String} {cs : List PExpr} {p : Plan}
    (hg : Good db p scope) (hcs : ∀ c ∈ cs, ExprOK (p.fields ++ scope) c) :
    Good db (optFilterNL fs cs p) scope ∧ (optFilterNL fs cs p).schema = p.schema ∧
      ∀ cx, Binds scope cx →
        denote db (optFilterNL fs cs p) cx = (denote db p cx).map fun rows => rows.filter fun r => cs.all fun c => keep cx c r := by
  unfold optFilterNL
  split
  · have hpe : ExprOK (p.fields ++ scope) (setNonLevel0 fs (.nary .and cs)) := exprOK_setNonLevel0 (exprOK_and hcs)
    refine ⟨?_, rfl, ?_⟩
    · simp only [Good, UnGood, true_and]
      exact ⟨hg.nodup, hg, hpe⟩
    · intro cx hb
      simp only [denote, unRows]
      cases hd : denote db p cx with
      | none => rfl
      | some rows =>
        have hn := denote_names hd
        simp only [Option.map_some]
        rw [filterRows_good hn hb hpe, checked_pass (names_of_filter hn)]
        congr 1
        apply List.filter_congr
        intro r _
        simp only [keep, eval_setNonLevel0]
        exact keep_and cx cs r
  · rename_i hlen
    have : cs = [] := List.eq_nil_of_length_eq_zero (by omega)
    subst this
    refine ⟨hg, rfl, ?_⟩
    intro cx _
    cases denote db p cx with
    | none => rfl
    | some rows =>
      simp only [Option.map_some, List.all_nil]
      rw [List.filter_eq_self.mpr (fun _ _ => rfl)]

theorem pushIntoLookupJoin_local (db : Db) : LocalOK db pushIntoLookupJoinLocal := by
  intro outer q q' c hg h
  unfold pushIntoLookupJoinLocal at h
  split at h
  · rename_i s e s2 src joined
    simp only [Option.some.injEq, Prod.mk.injEq] at h
    obtain ⟨rfl, _⟩ := h
    simp only [Good, UnGood, BinGood, schema_bin] at hg
    obtain ⟨hnd, ⟨_, hgs, hgj, ⟨hs2, hdisj⟩, htot⟩, hs, he⟩ := hg
    subst hs
    rw [hs2] at he
    let usesJ := fun c => usesVariablesFromSchema joined.fields (varsUsed c)
    let fp := splitByAnd e
    let pS := fp.filter fun c => !usesJ c
    let pJ := fp.filter fun c => usesJ c
    have hfp : ∀ c ∈ fp, ExprOK ((src.fields ++ joined.fields) ++ outer) c := fun c hc => exprOK_conjunct he hc
    have hpS : ∀ c ∈ pS, ExprOK (src.fields ++ outer) c := by
      intro c hc
      obtain ⟨hc1, hc2⟩ := List.mem_filter.mp hc
      exact scope_drop_right (hfp c hc1) (by simpa using hc2)
    have hpJ : ∀ c ∈ pJ, ExprOK (joined.fields ++ (src.fields ++ outer)) c := by
      intro c hc
      have := hfp c (List.mem_filter.mp hc).1
      exact ⟨fun x hx => mem_perm_scope (this.inScope x hx), this.safe⟩
    obtain ⟨hl1, hl2, hl3⟩ := optFilter_ok (cs := pS) hgs hpS
    have hlf : (optFilter pS src).fields = src.fields := by simp only [Plan.fields, hl2]
    -- the joined side
    have hj := optFilterNL_ok (fs := src.fields) (cs := pJ) hgj hpJ
    obtain ⟨hj1, hj2, hj3⟩ := hj
    have hjf : (optFilterNL src.fields pJ joined).fields = joined.fields := by simp only [Plan.fields, hj2]
    show StepOK db outer _ (Plan.bin s .ljoin (optFilter pS src) (optFilterNL src.fields pJ joined))
    refine ⟨?_, rfl, ?_⟩
    · simp only [Good, BinGood, hlf, hjf]
      refine ⟨hnd, hl1, hj1, ⟨hs2, hdisj⟩, ?_⟩
      intro cx hb
      rw [hj3 cx hb]
      have := htot cx hb
      cases hd : denote db joined cx with
      | none => rw [hd] at this; cases this
      | some rows => rfl
    · intro ctx hb
      simp only [denote, unRows, hl3 ctx hb]
      cases hds : denote db src ctx with
      | none => rfl
      | some ls =>
        have hns := denote_names hds
        have hbl : ∀ l ∈ ls, Binds (src.fields ++ outer) (l :: ctx) := fun l hl => binds_cons (hns l hl) hb
        have htotl : ∀ l ∈ ls, (denote db joined (l :: ctx)).isSome = true := fun l hl => htot _ (hbl l hl)
        have htotl' : ∀ l ∈ ls.filter (fun r => pS.all fun c => keep ctx c r),
            (denote db (optFilterNL src.fields pJ joined) (l :: ctx)).isSome = true := by
          intro l hl
          have hl' := (List.mem_filter.mp hl).1
          rw [hj3 _ (hbl l hl')]
          have := htotl l hl'
          cases hd : denote db joined (l :: ctx) with
          | none => rw [hd] at this; cases this
          | some rows => rfl
        simp only [Option.map_some]
        rw [lookupJoinRows_some htotl, lookupJoinRows_some htotl']
        -- names of the joined records
        have hnJ : ∀ x ∈ (ls.flatMap fun l => ((denote db joined (l :: ctx)).getD []).map fun x => l ++ x),
            Row.names x = src.fields ++ joined.fields := by
          intro x hx
          simp only [List.mem_flatMap, List.mem_map] at hx
          obtain ⟨l, hl, j, hj, rfl⟩ := hx
          cases hd : denote db joined (l :: ctx) with
          | none => rw [hd] at hj; simp at hj
          | some rows =>
            rw [hd] at hj
            rw [names_append, hns l hl, denote_names hd j hj]
        have hold : checked s (some (ls.flatMap fun l => ((denote db joined (l :: ctx)).getD []).map fun x => l ++ x)) =
            some (ls.flatMap fun l => ((denote db joined (l :: ctx)).getD []).map fun x => l ++ x) :=
          checked_pass (by rw [hs2]; exact hnJ)
        rw [hold]
        simp only
        rw [filterRows_good (fs := src.fields ++ joined.fields) hnJ hb he,
            checked_pass (rows := List.filter (keep ctx e) _) (by rw [hs2]; exact names_of_filter hnJ)]
        have hmain := lookup_filter_push (keep ctx e) (fun l => pS.all fun c => keep ctx c l)
          (fun l j => pJ.all fun c => keep (l :: ctx) c j) (fun l => (denote db joined (l :: ctx)).getD []) ls (by
            intro l hl j hj
            cases hd : denote db joined (l :: ctx) with
            | none => rw [hd] at hj; simp at hj
            | some rows =>
              rw [hd] at hj
              have hnj := denote_names hd j hj
              rw [keep_split, all_partition (fun c => keep ctx c (l ++ j)) (fun c => !usesJ c) fp]
              congr 1
              · exact all_filter_congr _ _ _ fp (fun c _ hc => keep_left_of_not_uses hnj (by simpa using hc))
              · have : (fun x => !(fun c => !usesJ c) x) = fun c => usesJ c := by
                  funext x; simp
                rw [this]
                apply List.all_congr rfl
                intro c
                simp only [keep]
                rw [eval_append_nested l j ctx c (by
                  intro x hx
                  rw [hns l hl] at hx
                  rw [hnj]
                  exact hdisj x hx)])
        rw [hmain]
        have hflat : (ls.filter fun r => pS.all fun c => keep ctx c r).flatMap
              (fun l => ((denote db (optFilterNL src.fields pJ joined) (l :: ctx)).getD []).map fun x => l ++ x) =
            (ls.filter fun l => pS.all fun c => keep ctx c l).flatMap
              (fun l => (((denote db joined (l :: ctx)).getD []).filter fun j => pJ.all fun c => keep (l :: ctx) c j).map
                fun x => l ++ x) := by
          apply flatMap_congr'
          intro l hl
          have hl' := (List.mem_filter.mp hl).1
          rw [hj3 _ (hbl l hl')]
          cases denote db joined (l :: ctx) with
          | none => simp
          | some rows => simp
        rw [hflat]
        apply checked_pass
        intro x hx
        rw [hs2]
        simp only [List.mem_flatMap, List.mem_map, List.mem_filter] at hx
        obtain ⟨l, ⟨hl, _⟩, j, ⟨hj, _⟩, rfl⟩ := hx
        cases hd : denote db joined (l :: ctx) with
        | none => rw [hd] at hj; simp at hj
        | some rows =>
          rw [hd] at hj
          rw [names_append, hns l hl, denote_names hd j hj]
  · simp only [Option.some.injEq, Prod.mk.injEq] at h
    obtain ⟨rfl, _⟩ := h
    exact StepOK.refl hg

theorem pushIntoLookupJoin_ok (db : Db) : RuleOK db pushDownFilterPredicatesIntoLookupJoinBranch :=
  rule_of_local (pushIntoLookupJoin_local db)

end Octo.Plan
