import Octo.Lemmas.TySumWf
/-! `TypeSum` is the *least* upper bound among well-formed types:
    `a Is t`, `b Is t`, `t` well formed ⇒ `TypeSum(a, b) Is t`. -/
namespace Octo
namespace Ty

def LeastFor (f : Ty → Ty → Option Ty) : Prop :=
  ∀ x y s t, f x y = some s → wf x = true → wf y = true → wf t = true →
    x.is t = .is → y.is t = .is → s.is t = .is

theorem is_plain_id {x o : Ty} (hx : x.isUnion = false) (ho : plain o) (h : x.is o = .is) : x.id = o.id := by
  rcases is_plain_inv hx ho.1 ho.2 h with ⟨rfl, rfl | ⟨_, rfl⟩⟩ | ⟨_, _, rfl, rfl, _⟩ | ⟨_, _, _, _, rfl, rfl, _⟩ |
      ⟨_, _, rfl, rfl, _⟩ | ⟨_, rfl⟩ <;> rfl

/-- two non-unions with the same `TypeID` that both `Is` a well-formed `t ≠ Any` both `Is` one plain,
    well-formed part of `t` -/
theorem plain_target {x y t : Ty} (wt : wf t = true) (htA : t.isAny = false)
    (hx : x.is t = .is) (hy : y.is t = .is)
    (hxU : x.isUnion = false) (hyU : y.isUnion = false) (hid : x.id = y.id) :
    ∃ t', wf t' = true ∧ plain t' ∧ x.is t' = .is ∧ y.is t' = .is ∧ ∀ s : Ty, s.is t' = .is → s.is t = .is := by
  by_cases htU : t.isUnion = true
  · obtain ⟨alts, rfl⟩ := eq_union_of_isUnion htU
    rw [wf_union] at wt
    obtain ⟨wp, wd, wl⟩ := wt
    rw [is_union_r x alts hxU] at hx
    rw [is_union_r y alts hyU] at hy
    obtain ⟨a1, m1, h1⟩ := hx
    obtain ⟨a2, m2, h2⟩ := hy
    have p1 := (altsPlain_iff _).mp wp a1 m1
    have p2 := (altsPlain_iff _).mp wp a2 m2
    have e : a1 = a2 := distinctIds_unique wd m1 m2 (by
      rw [← is_plain_id hxU p1 h1, ← is_plain_id hyU p2 h2, hid])
    subst e
    exact ⟨a1, (wfList_iff _).mp wl a1 m1, p1, h1, h2, fun s hs => is_into_union hs m1⟩
  · exact ⟨t, wt, ⟨by simpa using htU, htA⟩, hx, hy, fun _ h => h⟩

theorem structLoop_names {f : Ty → Ty → Rel} : ∀ (ns : List Name) (ts : List Ty) (ns' : List Name) (ts' : List Ty),
    ns.length = ts.length → ns'.length = ts'.length → ts.length = ts'.length →
    structLoop f ns ts ns' ts' = .is → ns = ns'
  | [], [], [], [], _, _, _, _ => rfl
  | [], [], _ :: _, [], _, h, _, _ => by simp at h
  | [], [], _, _ :: _, _, _, h, _ => by simp at h
  | [], _ :: _, _, _, h, _, _, _ => by simp at h
  | _ :: _, [], _, _, h, _, _, _ => by simp at h
  | _ :: _, _ :: _, _, [], _, _, h, _ => by simp at h
  | _ :: _, _ :: _, [], _ :: _, _, h, _, _ => by simp at h
  | n :: ns, t :: ts, n' :: ns', t' :: ts', h1, h2, h3, hs => by
    rw [structLoop_cons] at hs
    simp only [List.head?_cons, Option.some.injEq, List.tail_cons] at hs
    rw [hs.1, structLoop_names ns ts ns' ts' (by simpa using h1) (by simpa using h2) (by simpa using h3) hs.2.2]

theorem zipSum_least {f : Ty → Ty → Option Ty} : ∀ (xs ys zs ts : List Ty), zipSum f xs ys = some zs →
    xs.length = ys.length → xs.length = ts.length →
    (∀ x ∈ xs, ∀ y ∈ ys, ∀ t ∈ ts, ∀ r, f x y = some r → x.is t = .is → y.is t = .is → r.is t = .is) →
    zs.length = xs.length ∧
    (tupleLoop is xs ts = .is → tupleLoop is ys ts = .is → tupleLoop is zs ts = .is) ∧
    (∀ ns ns' : List Name, structLoop is ns xs ns' ts = .is → structLoop is ns ys ns' ts = .is →
      structLoop is ns zs ns' ts = .is)
  | [], [], zs, ts, hz, _, hl, _ => by
    simp only [zipSum, Option.some.injEq] at hz
    subst hz
    cases ts with
    | nil => simp [tupleLoop, structLoop]
    | cons _ _ => simp at hl
  | [], _ :: _, _, _, _, h, _, _ => by simp at h
  | _ :: _, [], _, _, _, h, _, _ => by simp at h
  | _ :: _, _ :: _, _, [], _, _, h, _ => by simp at h
  | x :: xs, y :: ys, zs, t :: ts, hz, hl1, hl2, H => by
    simp only [zipSum] at hz
    cases hxy : f x y with
    | none => simp [hxy] at hz
    | some r =>
      cases hrest : zipSum f xs ys with
      | none => simp [hxy, hrest] at hz
      | some rs =>
        simp only [hxy, hrest, Option.some.injEq] at hz
        subst hz
        have ⟨l, ht, hs⟩ := zipSum_least xs ys rs ts hrest (by simpa using hl1) (by simpa using hl2)
          (fun a ha b hb c hc => H a (by simp [ha]) b (by simp [hb]) c (by simp [hc]))
        have hr := H x (by simp) y (by simp) t (by simp) r hxy
        refine ⟨by simp [l], ?_, ?_⟩
        · intro h1 h2
          rw [tupleLoop_cons] at h1 h2 ⊢
          exact ⟨hr h1.1 h2.1, ht h1.2 h2.2⟩
        · intro ns ns' h1 h2
          rw [structLoop_cons] at h1 h2 ⊢
          exact ⟨h1.1, hr h1.2.1 h2.2.1, hs _ _ h1.2.2 h2.2.2⟩

theorem foldl_least {f : Ty → Ty → Option Ty} (hf : LeastFor f) (hw : WfFor f) (t : Ty) (wt : wf t = true) :
    ∀ (alts : List Ty) (out c : Ty), optFoldl f out alts = some c → wf out = true → (∀ a ∈ alts, wf a = true) →
      out.is t = .is → (∀ a ∈ alts, a.is t = .is) → c.is t = .is
  | [], out, c, hc, _, _, ho, _ => by simp only [optFoldl, Option.some.injEq] at hc; subst hc; exact ho
  | a :: as, out, c, hc, wo, wa, ho, ha => by
    simp only [optFoldl] at hc
    cases hs : f out a with
    | none => simp [hs] at hc
    | some out' =>
      simp only [hs] at hc
      exact foldl_least hf hw t wt as out' c hc (hw out a out' hs wo (wa a (by simp))).1
        (fun b hb => wa b (by simp [hb]))
        (hf out a out' t hs wo (wa a (by simp)) wt ho (ha a (by simp)))
        (fun b hb => ha b (by simp [hb]))

theorem least_step {f : Ty → Ty → Option Ty} (hf : LeastFor f) (hw : WfFor f) : LeastFor (typeSumStep f) := by
  intro a b c t hc wa wb wt ha hb
  by_cases htA : t.isAny = true
  · cases eq_any_of_isAny htA; simp
  have htA : t.isAny = false := by simpa using htA
  unfold typeSumStep at hc
  by_cases h1 : a.is b = .is
  · rw [if_pos h1] at hc; cases hc; exact hb
  rw [if_neg h1] at hc
  by_cases h2 : b.is a = .is
  · rw [if_pos h2] at hc; cases hc; exact ha
  rw [if_neg h2] at hc
  split at hc
  · -- struct / struct
    rename_i ns1 ts1 ns2 ts2
    obtain ⟨t', wt', pt', ha', hb', close⟩ := plain_target wt htA ha hb rfl rfl rfl
    apply close
    rcases is_plain_inv rfl pt'.1 pt'.2 ha' with ⟨h, _⟩ | ⟨_, _, h, _⟩ | ⟨n1, s1, ns', ts', e1, rfl, hl1, hs1⟩ | ⟨_, _, h, _⟩ | ⟨h, _⟩
    · cases h
    · cases h
    · cases e1
      rw [is_struct_struct] at hb'
      obtain ⟨hl2, hs2⟩ := hb'
      rw [wf_struct] at wa wb wt'
      have en1 : ns1 = ns' := structLoop_names _ _ _ _ wa.2.1 wt'.2.1 hl1 hs1
      have en2 : ns2 = ns' := structLoop_names _ _ _ _ wb.2.1 wt'.2.1 hl2 hs2
      subst en1; subst en2
      simp only [sortNames_self_append wa.1, structFields_pointwise f ns2 ts1 ts2 wa.1 wa.2.1 wb.2.1,
        Option.map_eq_some_iff] at hc
      obtain ⟨tys, hz, rfl⟩ := hc
      have w1 := (wfList_iff _).mp wa.2.2
      have w2 := (wfList_iff _).mp wb.2.2
      have w' := (wfList_iff _).mp wt'.2.2
      have ⟨l, _, hs⟩ := zipSum_least ts1 ts2 tys ts' hz (by omega) hl1
        (fun x hx y hy t ht r hr => hf x y r t hr (w1 x hx) (w2 y hy) (w' t ht))
      rw [is_struct_struct]
      exact ⟨by omega, hs _ _ hs1 hs2⟩
    · cases h
    · simp [isConst] at h
  · cases hc; exact ha
  · cases hc; exact hb
  · cases hc; exact ha
  · -- list / list
    rename_i e1 e2
    simp only [Option.map_eq_some_iff] at hc
    obtain ⟨s, hs, rfl⟩ := hc
    obtain ⟨t', wt', pt', ha', hb', close⟩ := plain_target wt htA ha hb rfl rfl rfl
    apply close
    rcases is_plain_inv rfl pt'.1 pt'.2 ha' with ⟨h, _⟩ | ⟨x1, e', e1', rfl, he1⟩ | ⟨_, _, _, _, h, _⟩ | ⟨_, _, h, _⟩ | ⟨h, _⟩
    · cases h
    · cases e1'
      rw [is_list_list] at hb' ⊢
      simp only [wf] at wa wb wt'
      exact hf _ _ s e' hs wa wb wt' he1 hb'
    · cases h
    · cases h
    · simp [isConst] at h
  · -- tuple / tuple
    rename_i ts1 ts2
    simp only [Option.map_eq_some_iff] at hc
    obtain ⟨tys, hm, rfl⟩ := hc
    obtain ⟨t', wt', pt', ha', hb', close⟩ := plain_target wt htA ha hb rfl rfl rfl
    apply close
    rcases is_plain_inv rfl pt'.1 pt'.2 ha' with ⟨h, _⟩ | ⟨_, _, h, _⟩ | ⟨_, _, _, _, h, _⟩ | ⟨x1, ts', e1, rfl, hl1, hs1⟩ | ⟨h, _⟩
    · cases h
    · cases h
    · cases h
    · cases e1
      rw [is_tuple_tuple] at hb'
      obtain ⟨hl2, hs2⟩ := hb'
      rw [if_neg (by omega), tupleMerge_eq_zip f ts2 ts1 (by omega)] at hm
      simp only [wf] at wa wb wt'
      have w1 := (wfList_iff _).mp wa
      have w2 := (wfList_iff _).mp wb
      have w' := (wfList_iff _).mp wt'
      have ⟨l, ht, _⟩ := zipSum_least ts2 ts1 tys ts' hm (by omega) hl2
        (fun x hx y hy t ht r hr => hf x y r t hr (w2 x hx) (w1 y hy) (w' t ht))
      rw [is_tuple_tuple]
      exact ⟨by omega, ht hs2 hs1⟩
    · simp [isConst] at h
  · -- union / union
    rename_i alts1 alts2
    have wb' := wb
    rw [wf_union] at wb'
    exact foldl_least hf hw t wt alts2 _ c hc wa ((wfList_iff _).mp wb'.2.2) ha ((is_union_l _ _).mp hb)
  · -- swap
    exact hf _ _ c t hc wb wa wt hb ha
  · -- union alts, b not a union
    rename_i alts _
    have wa' := wa
    rw [wf_union] at wa'
    have wl' := (wfList_iff _).mp wa'.2.2
    have ha' := (is_union_l _ _).mp ha
    split at hc
    · rename_i hany
      simp only [Option.map_eq_some_iff] at hc
      obtain ⟨alts', hm, rfl⟩ := hc
      obtain ⟨pre, a0, post, r, e1, e2, e3, e4⟩ := mergeFirst_split _ _ _ hm hany
      have ha0 : a0 ∈ alts := by rw [e1]; simp
      rw [is_union_l]
      intro x hx
      rw [e4] at hx
      simp only [List.mem_append, List.mem_cons] at hx
      rcases hx with hx | rfl | hx
      · exact ha' x (by rw [e1]; simp [hx])
      · exact hf a0 b x t e3 (wl' a0 ha0) wb wt (ha' a0 ha0) hb
      · exact ha' x (by rw [e1]; simp [hx])
    · cases hc
      rw [is_union_l]
      intro x hx
      rw [mem_sortById, List.mem_append] at hx
      rcases hx with hx | hx
      · exact ha' x hx
      · simp only [List.mem_singleton] at hx; subst hx; exact hb
  · cases hc
    rw [is_union_l]
    intro x hx
    rw [mem_sortById] at hx
    simp only [List.mem_cons, List.not_mem_nil, or_false] at hx
    rcases hx with rfl | rfl
    · exact ha
    · exact hb

theorem leastFor_F : ∀ (n : Nat), LeastFor (typeSumF n)
  | 0 => by intro a b c t h; simp [typeSumF] at h
  | n + 1 => by
    intro a b c t hc
    simp only [typeSumF] at hc
    exact least_step (leastFor_F n) (wfFor_F n) a b c t hc

end Ty
end Octo
