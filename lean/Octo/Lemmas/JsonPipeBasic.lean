import Octo.Model.JsonPipe
/-! Basic lemmas about the JSON pipeline model: state updates, counting jobs, `takeAt`. -/
namespace Octo.JsonPipe

@[simp] theorem setPipe_pipe_same (s : State) (p : Nat) (P : Pipe) : (s.setPipe p P).pipe p = P := by
  simp [State.setPipe]
theorem setPipe_pipe_ne (s : State) {p q : Nat} (P : Pipe) (h : q ≠ p) : (s.setPipe p P).pipe q = s.pipe q := by
  simp [State.setPipe, h]
theorem setPipe_pipe (s : State) (p q : Nat) (P : Pipe) :
    (s.setPipe p P).pipe q = if q = p then P else s.pipe q := rfl
@[simp] theorem setPipe_jobs (s : State) (p : Nat) (P : Pipe) : (s.setPipe p P).jobs = s.jobs := rfl
@[simp] theorem setPipe_worker (s : State) (p : Nat) (P : Pipe) : (s.setPipe p P).worker = s.worker := rfl
@[simp] theorem setPipe_np (s : State) (p : Nat) (P : Pipe) : (s.setPipe p P).np = s.np := rfl
@[simp] theorem setPipe_nw (s : State) (p : Nat) (P : Pipe) : (s.setPipe p P).nw = s.nw := rfl
@[simp] theorem setWorker_pipe (s : State) (w : Nat) (j : Option Job) : (s.setWorker w j).pipe = s.pipe := rfl
@[simp] theorem setWorker_jobs (s : State) (w : Nat) (j : Option Job) : (s.setWorker w j).jobs = s.jobs := rfl
@[simp] theorem setWorker_np (s : State) (w : Nat) (j : Option Job) : (s.setWorker w j).np = s.np := rfl
@[simp] theorem setWorker_nw (s : State) (w : Nat) (j : Option Job) : (s.setWorker w j).nw = s.nw := rfl
theorem setWorker_worker (s : State) (w v : Nat) (j : Option Job) :
    (s.setWorker w j).worker v = if v = w then j else s.worker v := rfl

/-- 1 if the proposition holds, else 0 -/
def cnt (b : Prop) [Decidable b] : Nat := if b then 1 else 0

theorem inJobs_nil (p : Nat) : inJobs [] p = 0 := rfl

theorem inJobs_cons (j : Job) (js : List Job) (p : Nat) : inJobs (j :: js) p = cnt (j.pipe = p) + inJobs js p := by
  unfold inJobs cnt
  by_cases h : j.pipe = p <;> simp [List.filter, h] <;> omega

theorem inJobs_append (js : List Job) (j : Job) (p : Nat) : inJobs (js ++ [j]) p = inJobs js p + cnt (j.pipe = p) := by
  induction js with
  | nil => simp [inJobs_cons, inJobs_nil]
  | cons x xs ih => simp only [List.cons_append, inJobs_cons, ih]; omega

theorem takeAt_inJobs {js : List Job} {k : Nat} {j : Job} {rest : List Job} (h : takeAt js k = some (j, rest)) (p : Nat) :
    inJobs js p = inJobs rest p + cnt (j.pipe = p) := by
  induction js generalizing k rest with
  | nil => simp [takeAt] at h
  | cons x xs ih =>
    cases k with
    | zero =>
      simp only [takeAt, Option.some.injEq, Prod.mk.injEq] at h
      obtain ⟨rfl, rfl⟩ := h
      rw [inJobs_cons]; omega
    | succ k =>
      simp only [takeAt] at h
      split at h
      · rename_i y r hy
        simp only [Option.some.injEq, Prod.mk.injEq] at h
        obtain ⟨rfl, rfl⟩ := h
        rw [inJobs_cons, inJobs_cons, ih hy]; omega
      · contradiction

theorem takeAt_mem {l : List α} {k : Nat} {x : α} {r : List α} (h : takeAt l k = some (x, r)) :
    x ∈ l ∧ (∀ y, y ∈ r → y ∈ l) ∧ (∀ y, y ∈ l → y = x ∨ y ∈ r) := by
  induction l generalizing k r with
  | nil => simp [takeAt] at h
  | cons a as ih =>
    cases k with
    | zero =>
      simp only [takeAt, Option.some.injEq, Prod.mk.injEq] at h
      obtain ⟨rfl, rfl⟩ := h
      refine ⟨by simp, fun y hy => by simp [hy], fun y hy => ?_⟩
      simpa using hy
    | succ k =>
      simp only [takeAt] at h
      split at h
      · rename_i y r' hy
        simp only [Option.some.injEq, Prod.mk.injEq] at h
        obtain ⟨rfl, rfl⟩ := h
        obtain ⟨h1, h2, h3⟩ := ih hy
        refine ⟨by simp [h1], fun z hz => ?_, fun z hz => ?_⟩
        · rcases List.mem_cons.mp hz with rfl | hz
          · simp
          · simp [h2 z hz]
        · rcases List.mem_cons.mp hz with rfl | hz
          · simp
          · rcases h3 z hz with rfl | h
            · simp
            · simp [h]
      · contradiction

theorem takeAt_length {l : List α} {k : Nat} {x : α} {r : List α} (h : takeAt l k = some (x, r)) :
    l.length = r.length + 1 := by
  induction l generalizing k r with
  | nil => simp [takeAt] at h
  | cons a as ih =>
    cases k with
    | zero =>
      simp only [takeAt, Option.some.injEq, Prod.mk.injEq] at h
      obtain ⟨rfl, rfl⟩ := h; rfl
    | succ k =>
      simp only [takeAt] at h
      split at h
      · rename_i y r' hy
        simp only [Option.some.injEq, Prod.mk.injEq] at h
        obtain ⟨rfl, rfl⟩ := h
        simp [ih hy]
      · contradiction

theorem takeAt_zero_of_ne_nil {l : List α} (h : l ≠ []) : ∃ x r, takeAt l 0 = some (x, r) := by
  cases l with
  | nil => contradiction
  | cons a as => exact ⟨a, as, rfl⟩

/-! ### counting busy workers -/

theorem busyWith_congr {w1 w2 : Nat → Option Job} (p n : Nat) (h : ∀ v, v < n → w1 v = w2 v) :
    busyWith w1 p n = busyWith w2 p n := by
  induction n with
  | zero => rfl
  | succ n ih =>
    simp only [busyWith]
    rw [ih (fun v hv => h v (by omega)), h n (by omega)]

theorem busyWith_succ (wk : Nat → Option Job) (p n : Nat) : busyWith wk p (n + 1) = busyWith wk p n + jobCnt (wk n) p := rfl

theorem busyWith_update (wk : Nat → Option Job) (p n w : Nat) (x : Option Job) (hw : w < n) :
    busyWith (fun v => if v = w then x else wk v) p n + jobCnt (wk w) p = busyWith wk p n + jobCnt x p := by
  induction n with
  | zero => omega
  | succ n ih =>
    rw [busyWith_succ, busyWith_succ]
    by_cases h : w = n
    · subst h
      have : busyWith (fun v => if v = w then x else wk v) p w = busyWith wk p w :=
        busyWith_congr p w (fun v hv => by simp [Nat.ne_of_lt hv])
      simp only [this, if_true]; omega
    · have hlt : w < n := by omega
      have := ih hlt
      have hn : (if n = w then x else wk n) = wk n := by simp [Ne.symm h]
      simp only [hn]; omega

theorem busy_succ (wk : Nat → Option Job) (n : Nat) : busy wk (n + 1) = busy wk n + someCnt (wk n) := rfl

theorem busy_congr {w1 w2 : Nat → Option Job} (n : Nat) (h : ∀ v, v < n → w1 v = w2 v) : busy w1 n = busy w2 n := by
  induction n with
  | zero => rfl
  | succ n ih => simp only [busy]; rw [ih (fun v hv => h v (by omega)), h n (by omega)]

theorem busy_update (wk : Nat → Option Job) (n w : Nat) (x : Option Job) (hw : w < n) :
    busy (fun v => if v = w then x else wk v) n + someCnt (wk w) = busy wk n + someCnt x := by
  induction n with
  | zero => omega
  | succ n ih =>
    simp only [busy]
    by_cases h : w = n
    · subst h
      have : busy (fun v => if v = w then x else wk v) w = busy wk w :=
        busy_congr w (fun v hv => by simp [Nat.ne_of_lt hv])
      simp only [this, if_true]; omega
    · have hlt : w < n := by omega
      have := ih hlt
      have hn : (if n = w then x else wk n) = wk n := by simp [Ne.symm h]
      simp only [hn]; omega

theorem busy_pos_of_some {wk : Nat → Option Job} {n w : Nat} {j : Job} (hw : w < n) (h : wk w = some j) : 0 < busy wk n := by
  induction n with
  | zero => omega
  | succ n ih =>
    simp only [busy]
    by_cases hn : w = n
    · subst hn; simp [h, someCnt]
    · have := ih (by omega); omega

theorem busy_zero_all_none {wk : Nat → Option Job} {n : Nat} (h : busy wk n = 0) : ∀ w, w < n → wk w = none := by
  intro w hw
  cases hx : wk w with
  | none => rfl
  | some j => have := busy_pos_of_some hw hx; omega

theorem busyWith_le_busy (wk : Nat → Option Job) (p n : Nat) : busyWith wk p n ≤ busy wk n := by
  induction n with
  | zero => simp [busyWith, busy]
  | succ n ih =>
    simp only [busyWith, busy]
    cases wk n with
    | none => simpa [jobCnt, someCnt] using ih
    | some j => by_cases h : j.pipe = p <;> simp [h, jobCnt, someCnt] <;> omega

end Octo.JsonPipe
