import Octo.Lemmas.FilesJsonSum
/-! JSON schema inference, part 3: the type `getOctoSQLType` computes for a value accepts that value, and the schema
    inferred from the previewed rows accepts every one of them. -/
namespace Octo.Files
open Octo Octo.Ty

theorem acc_F : ∀ (n : Nat), AccFor (typeSumF n)
  | 0 => by intro a b c _ _ h; simp [typeSumF] at h
  | n + 1 => by
    intro a b c ja jb hc
    simp only [typeSumF] at hc
    exact acc_step (acc_F n) a b c ja jb hc

/-- **`TypeSum` of JSON-shaped types accepts everything either operand accepts** -/
theorem acc_typeSum : AccFor typeSum := fun a b c ja jb hc => acc_F (sumFuel a b) a b c ja jb hc

/-! ### well-formed documents: as many keys as values in every object, keys distinct -/

mutual
def wfJ : J → Bool
  | .arr xs => wfJs xs
  | .obj ks vs => ks.length == vs.length && decide ks.Nodup && wfJs vs
  | _ => true
def wfJs : List J → Bool
  | [] => true
  | x :: xs => wfJ x && wfJs xs
end

theorem wfJs_iff : ∀ (l : List J), wfJs l = true ↔ ∀ x ∈ l, wfJ x = true
  | [] => by simp [wfJs]
  | x :: xs => by simp [wfJs, wfJs_iff xs]

theorem J.size_pos (j : J) : 0 < j.size := by cases j <;> simp [J.size] <;> omega

theorem J.size_le_sizeList {x : J} {xs : List J} (h : x ∈ xs) : x.size ≤ J.sizeList xs := by
  induction xs with
  | nil => cases h
  | cons y ys ih =>
    simp only [J.sizeList]
    cases h with
    | head => omega
    | tail _ h => have := ih h; omega

theorem getTypes_spec : ∀ (xs : List J) (ts : List Ty), J.getTypes xs = some ts →
    ts.length = xs.length ∧ ∀ (i : Nat) (x : J), xs[i]? = some x → ∃ t, ts[i]? = some t ∧ x.getType = some t
  | [], ts, h => by simp only [J.getTypes, Option.some.injEq] at h; subst h; simp
  | x :: xs, ts, h => by
    simp only [J.getTypes] at h
    cases hx : x.getType with
    | none => simp [hx] at h
    | some t =>
      cases hxs : J.getTypes xs with
      | none => simp [hx, hxs] at h
      | some ts' =>
        simp only [hx, hxs, Option.some.injEq] at h
        subst h
        obtain ⟨hl, hi⟩ := getTypes_spec xs ts' hxs
        refine ⟨by simp [hl], ?_⟩
        intro i y hy
        cases i with
        | zero => simp at hy; subst hy; exact ⟨t, by simp, hx⟩
        | succ i => simpa using hi i y (by simpa using hy)

theorem mem_insertField (n : Name) (t : Ty) (p : Name × Ty) : ∀ (l : List (Name × Ty)),
    p ∈ insertField n t l ↔ p = (n, t) ∨ p ∈ l
  | [] => by simp [insertField]
  | (m, u) :: rest => by
    simp only [insertField]
    split
    · simp
    · simp only [List.mem_cons, mem_insertField n t p rest]
      constructor
      · rintro (h | h | h)
        · exact Or.inr (Or.inl h)
        · exact Or.inl h
        · exact Or.inr (Or.inr h)
      · rintro (h | h | h)
        · exact Or.inr (Or.inl h)
        · exact Or.inl h
        · exact Or.inr (Or.inr h)

theorem mem_sortFields (p : Name × Ty) : ∀ (l : List (Name × Ty)), p ∈ sortFields l ↔ p ∈ l
  | [] => by simp [sortFields]
  | q :: rest => by
    unfold sortFields
    simp only [List.foldr, mem_insertField, List.mem_cons]
    have := mem_sortFields p rest
    unfold sortFields at this
    rw [this]

theorem accFields_of_pairs (o : J) : ∀ (fs : List (Name × Ty)), (∀ p ∈ fs, acc p.2 (o.get p.1) = true) →
    accFields (fs.map (·.1)) (fs.map (·.2)) o
  | [], _ => by simp [accFields]
  | p :: fs, h => by
    simp only [List.map_cons, accFields, List.headD_cons, List.tail_cons]
    exact ⟨h p (by simp), accFields_of_pairs o fs (fun q hq => h q (by simp [hq]))⟩

/-- with distinct keys `Get` returns the value stored under the key -/
theorem lookup_of_index : ∀ (ks : List Name) (vs : List J) (i : Nat) (k : Name) (v : J), ks.Nodup →
    ks[i]? = some k → vs[i]? = some v → J.lookup k ks vs = some v
  | [], _, i, _, _, _, h, _ => by simp at h
  | _ :: _, [], i, _, _, _, _, h => by simp at h
  | k' :: ks, v' :: vs, 0, k, v, _, h1, h2 => by
    simp at h1 h2; subst h1; subst h2; simp [J.lookup]
  | k' :: ks, v' :: vs, i + 1, k, v, hn, h1, h2 => by
    simp only [List.getElem?_cons_succ] at h1 h2
    simp only [List.nodup_cons] at hn
    have hne : k' ≠ k := by
      intro e; subst e
      exact hn.1 (List.mem_of_getElem? h1)
    simp only [J.lookup, hne, if_false]
    exact lookup_of_index ks vs i k v hn.2 h1 h2

theorem jok_elemFold_acc (ts : List Ty) (xs : List J) (e : Ty) (hl : ts.length = xs.length)
    (hj : ∀ t ∈ ts, jok t = true) (ha : ∀ (i : Nat) (t : Ty) (x : J), ts[i]? = some t → xs[i]? = some x → acc t (some x) = true)
    (h : Ty.elemFold ts = some e) : jok e = true ∧ acc e (some (.arr xs)) = true := by
  cases ts with
  | nil =>
    simp only [Ty.elemFold, Option.some.injEq] at h; subst h
    have : xs = [] := by cases xs <;> simp_all
    subst this
    exact ⟨rfl, (acc_listNil []).mpr rfl⟩
  | cons t ts =>
    simp only [Ty.elemFold, Option.map_eq_some_iff] at h
    obtain ⟨s, hs, rfl⟩ := h
    obtain ⟨js, s1, s2⟩ := fold_acc acc_typeSum ts t s (hj t (by simp))
      ((jokList_iff _).mpr (fun t' ht' => hj t' (by simp [ht']))) hs
    refine ⟨by simpa [jok] using js, (acc_list s xs).mpr ?_⟩
    intro x hx
    obtain ⟨i, hi, hix⟩ := List.getElem_of_mem hx
    have hix' : xs[i]? = some x := by rw [List.getElem?_eq_getElem hi, hix]
    have hit : i < (t :: ts).length := by omega
    have hti : (t :: ts)[i]? = some ((t :: ts)[i]) := List.getElem?_eq_getElem hit
    have hacc := ha i _ x hti hix'
    cases i with
    | zero => simp at hacc ⊢; exact s1 _ hacc
    | succ i =>
      simp only [List.getElem_cons_succ] at hacc
      exact s2 _ (List.getElem_mem _) _ hacc

/-- **the type `getOctoSQLType` computes for a value accepts the value** (and is JSON-shaped) -/
theorem getType_acc : ∀ (n : Nat) (j : J) (t : Ty), j.size ≤ n → wfJ j = true → j.getType = some t →
    jok t = true ∧ acc t (some j) = true := by
  intro n
  induction n with
  | zero => intro j _ h; have := J.size_pos j; omega
  | succ n ih =>
    intro j t hn hw ht
    cases j with
    | null => simp only [J.getType, Option.some.injEq] at ht; subst ht; exact ⟨rfl, by rw [acc_jnull]; rfl⟩
    | bool b => simp only [J.getType, Option.some.injEq] at ht; subst ht; exact ⟨rfl, by simp [acc, fits, cov, coversKeys]⟩
    | num b => simp only [J.getType, Option.some.injEq] at ht; subst ht; exact ⟨rfl, by simp [acc, fits, cov, coversKeys]⟩
    | str s tm =>
      simp only [J.getType, Option.some.injEq] at ht; subst ht
      cases tm <;> exact ⟨rfl, by simp [acc, fits, cov, coversKeys]⟩
    | arr xs =>
      simp only [J.getType] at ht
      cases hts : J.getTypes xs with
      | none => simp [hts] at ht
      | some ts =>
        simp only [hts] at ht
        obtain ⟨hl, hi⟩ := getTypes_spec xs ts hts
        simp only [wfJ] at hw
        have each : ∀ (i : Nat) (t' : Ty) (x : J), ts[i]? = some t' → xs[i]? = some x → jok t' = true ∧ acc t' (some x) = true := by
          intro i t' x h1 h2
          obtain ⟨t'', h3, h4⟩ := hi i x h2
          rw [h1] at h3; cases h3
          have hx := List.mem_of_getElem? h2
          have := J.size_le_sizeList hx
          exact ih x t' (by simp only [J.size] at hn; omega) ((wfJs_iff xs).mp hw x hx) h4
        apply jok_elemFold_acc ts xs t hl _ (fun i t' x h1 h2 => (each i t' x h1 h2).2) ht
        intro t' ht'
        obtain ⟨i, hi', hit⟩ := List.getElem_of_mem ht'
        have h1 : ts[i]? = some t' := by rw [List.getElem?_eq_getElem hi', hit]
        have h2 : xs[i]? = some (xs[i]'(by omega)) := List.getElem?_eq_getElem (by omega)
        exact (each i t' _ h1 h2).1
    | obj ks vs =>
      simp only [J.getType] at ht
      cases hts : J.getTypes vs with
      | none => simp [hts] at ht
      | some ts =>
        simp only [hts, Option.some.injEq] at ht
        subst ht
        obtain ⟨hl, hi⟩ := getTypes_spec vs ts hts
        simp only [wfJ, Bool.and_eq_true, beq_iff_eq, decide_eq_true_eq] at hw
        obtain ⟨⟨hkl, hnd⟩, hwv⟩ := hw
        -- every (key, type) pair of the object accepts the value stored under the key
        have pair : ∀ p ∈ ks.zip ts, jok p.2 = true ∧ acc p.2 ((J.obj ks vs).get p.1) = true := by
          intro p hp
          obtain ⟨i, hi', hip⟩ := List.getElem_of_mem hp
          have hik : i < ks.length := by simp at hi'; omega
          have hit : i < ts.length := by simp at hi'; omega
          have hiv : i < vs.length := by omega
          have hp1 : ks[i]? = some p.1 := by
            rw [List.getElem?_eq_getElem hik]; rw [← hip]; simp
          have hp2 : ts[i]? = some p.2 := by
            rw [List.getElem?_eq_getElem hit]; rw [← hip]; simp
          have hv : vs[i]? = some vs[i] := List.getElem?_eq_getElem hiv
          obtain ⟨t', h3, h4⟩ := hi i _ hv
          rw [hp2] at h3; cases h3
          have hx := List.mem_of_getElem? hv
          have hs := J.size_le_sizeList hx
          have := ih vs[i] p.2 (by simp only [J.size] at hn; omega) ((wfJs_iff vs).mp hwv _ hx) h4
          have hget : (J.obj ks vs).get p.1 = some vs[i] := lookup_of_index ks vs i p.1 _ hnd hp1 hv
          rw [hget]
          exact this
        refine ⟨?_, ?_⟩
        · simp only [jok, List.length_map, beq_self_eq_true, Bool.true_and]
          apply (jokList_iff _).mpr
          intro t' ht'
          obtain ⟨p, hp, rfl⟩ := List.mem_map.mp ht'
          exact (pair p ((mem_sortFields p _).mp hp)).1
        · rw [acc_struct]
          refine ⟨?_, accFields_of_pairs _ _ (fun p hp => (pair p ((mem_sortFields p _).mp hp)).2)⟩
          intro k hk
          obtain ⟨i, hi', hik⟩ := List.getElem_of_mem hk
          have hit : i < ts.length := by omega
          have : (k, ts[i]) ∈ ks.zip ts := by
            have hz : i < (ks.zip ts).length := by simp; omega
            have := List.getElem_mem hz
            simpa [hik] using this
          exact List.mem_map.mpr ⟨(k, ts[i]), (mem_sortFields _ _).mpr this, rfl⟩

theorem getType_acc' (j : J) (t : Ty) (hw : wfJ j = true) (ht : j.getType = some t) :
    jok t = true ∧ acc t (some j) = true := getType_acc j.size j t (Nat.le_refl _) hw ht

end Octo.Files

namespace Octo.Files
open Octo Octo.Ty

/-! ### the Go map `fields` -/

theorem find_set_same (k : Name) (t : Ty) : ∀ (f : Fields), Fields.find k (Fields.set k t f) = some t
  | [] => by simp [Fields.set, Fields.find]
  | (m, u) :: rest => by
    simp only [Fields.set]
    split
    · next h => simp [Fields.find, h]
    · next h => simp only [Fields.find, h, if_false]; exact find_set_same k t rest

theorem find_set_other (k k' : Name) (t : Ty) (h : k' ≠ k) : ∀ (f : Fields),
    Fields.find k' (Fields.set k t f) = Fields.find k' f
  | [] => by
    have : ¬ k = k' := fun e => h e.symm
    simp [Fields.set, Fields.find, this]
  | (m, u) :: rest => by
    simp only [Fields.set]
    split
    · next hm =>
      subst hm
      have : ¬ m = k' := fun e => h e.symm
      simp [Fields.find, this]
    · simp only [Fields.find]; rw [find_set_other k k' t h rest]

theorem find_isSome_iff (k : Name) : ∀ (f : Fields), (Fields.find k f).isSome = true ↔ k ∈ f.map (·.1)
  | [] => by simp [Fields.find]
  | (m, u) :: rest => by
    simp only [Fields.find, List.map_cons, List.mem_cons]
    split
    · next h => simp [h]
    · next h =>
      rw [find_isSome_iff k rest]
      constructor
      · exact Or.inr
      · rintro (e | e)
        · exact absurd e.symm h
        · exact e

theorem names_set (k : Name) (t : Ty) : ∀ (f : Fields),
    (Fields.set k t f).map (·.1) = if (Fields.find k f).isSome then f.map (·.1) else f.map (·.1) ++ [k]
  | [] => by simp [Fields.set, Fields.find]
  | (m, u) :: rest => by
    simp only [Fields.set, Fields.find]
    split
    · simp
    · simp only [List.map_cons, names_set k t rest]
      split <;> simp

theorem find_of_mem (n : Name) (t : Ty) : ∀ (f : Fields), (f.map (·.1)).Nodup → (n, t) ∈ f → Fields.find n f = some t
  | [], _, h => by cases h
  | (m, u) :: rest, hn, h => by
    simp only [List.map_cons, List.nodup_cons] at hn
    simp only [List.mem_cons] at h
    simp only [Fields.find]
    rcases h with h | h
    · cases h; simp
    · have : m ≠ n := by
        intro e; subst e
        exact hn.1 (List.mem_map.mpr ⟨(m, t), h, rfl⟩)
      simp only [this, if_false]
      exact find_of_mem n t rest hn.2 h

theorem markMissing_spec (ks : List Name) : ∀ (f f'' : Fields), markMissing ks f = some f'' →
    f''.map (·.1) = f.map (·.1) ∧
    ∀ n t'', Fields.find n f'' = some t'' →
      ∃ t, Fields.find n f = some t ∧ (if ks.contains n then t'' = t else typeSum t .null = some t'')
  | [], f'', h => by simp only [markMissing, Option.some.injEq] at h; subst h; simp [Fields.find]
  | (m, t) :: rest, f'', h => by
    simp only [markMissing] at h
    split at h
    · next t' rest' h1 h2 =>
      simp only [Option.some.injEq] at h
      subst h
      obtain ⟨hn, hs⟩ := markMissing_spec ks rest rest' h2
      refine ⟨by simp [hn], ?_⟩
      intro n t'' hf
      simp only [Fields.find] at hf ⊢
      by_cases hm : m = n
      · simp only [hm, if_true, Option.some.injEq] at hf ⊢
        subst hf
        refine ⟨t, rfl, ?_⟩
        subst hm
        split at h1
        · next hc => simp only [hc, if_true]; cases h1; rfl
        · next hc => simp only [hc]; exact h1
      · simp only [hm, if_false] at hf ⊢
        exact hs n t'' hf
    · cases h

/-- the invariant of the inference loop: the map built so far accepts every row seen so far -/
structure RowsInv (seen : List J) (f : Fields) : Prop where
  jokAll : ∀ n t, Fields.find n f = some t → jok t = true
  nodup : (f.map (·.1)).Nodup
  rows : ∀ r ∈ seen, ∃ ks vs, r = .obj ks vs ∧ (∀ k ∈ ks, (Fields.find k f).isSome = true) ∧
    ∀ n t, Fields.find n f = some t → acc t (r.get n) = true

/-- … and, while a row is being visited, the keys visited so far -/
def DoneOK (done : List (Name × J)) (f : Fields) : Prop :=
  ∀ p ∈ done, ∃ t, Fields.find p.1 f = some t ∧ acc t (some p.2) = true

theorem get_none_of_not_found {f : Fields} {ks : List Name} {vs : List J} {k : Name}
    (hk : ∀ k' ∈ ks, (Fields.find k' f).isSome = true) (hn : Fields.find k f = none) :
    (J.obj ks vs).get k = none := by
  apply lookup_none_of_not_key
  intro hin
  have := hk k hin
  rw [hn] at this
  cases this

theorem visitKey_inv (i : Nat) (seen : List J) (done : List (Name × J)) (f f1 : Fields) (k : Name) (v : J)
    (hi : i > 1 ∨ seen = []) (hw : wfJ v = true) (hk : ∀ p ∈ done, p.1 ≠ k)
    (inv : RowsInv seen f) (hd : DoneOK done f) (h : visitKey i f k v = some f1) :
    RowsInv seen f1 ∧ DoneOK (done ++ [(k, v)]) f1 := by
  unfold visitKey at h
  cases htv : v.getType with
  | none => simp [htv] at h
  | some tv =>
    simp only [htv] at h
    obtain ⟨jtv, atv⟩ := getType_acc' v tv hw htv
    -- common conclusion once the new type `t'` of `k` is known
    have fin : ∀ t', f1 = Fields.set k t' f → jok t' = true → acc t' (some v) = true →
        (∀ t, Fields.find k f = some t → ∀ oj, acc t oj = true → acc t' oj = true) →
        (Fields.find k f = none → seen ≠ [] → acc t' none = true) →
        RowsInv seen f1 ∧ DoneOK (done ++ [(k, v)]) f1 := by
      intro t' hf1 jt' at' hold hnew
      subst hf1
      refine ⟨⟨?_, ?_, ?_⟩, ?_⟩
      · intro n t hf
        by_cases hnk : n = k
        · subst hnk; rw [find_set_same] at hf; cases hf; exact jt'
        · rw [find_set_other k n t' hnk] at hf; exact inv.jokAll n t hf
      · rw [names_set]
        split
        · exact inv.nodup
        · next hns =>
          rw [List.nodup_append]
          refine ⟨inv.nodup, by simp, ?_⟩
          intro a ha b hb
          simp only [List.mem_singleton] at hb
          subst hb
          intro e; subst e
          exact hns ((find_isSome_iff _ f).mpr ha)
      · intro r hr
        obtain ⟨ks, vs, rfl, hkeys, hacc⟩ := inv.rows r hr
        refine ⟨ks, vs, rfl, ?_, ?_⟩
        · intro k' hk'
          by_cases e : k' = k
          · subst e; rw [find_set_same]; rfl
          · rw [find_set_other k k' t' e]; exact hkeys k' hk'
        · intro n t hf
          by_cases hnk : n = k
          · subst hnk
            rw [find_set_same] at hf; cases hf
            cases hfk : Fields.find n f with
            | some t0 => exact hold t0 hfk _ (hacc n t0 hfk)
            | none =>
              rw [get_none_of_not_found hkeys hfk]
              exact hnew hfk (by intro e; rw [e] at hr; cases hr)
          · rw [find_set_other k n t' hnk] at hf; exact hacc n t hf
      · intro p hp
        simp only [List.mem_append, List.mem_singleton] at hp
        rcases hp with hp | hp
        · obtain ⟨t, ht, ha⟩ := hd p hp
          exact ⟨t, by rw [find_set_other k p.1 t' (hk p hp)]; exact ht, ha⟩
        · subst hp; exact ⟨t', find_set_same _ _ _, at'⟩
    cases hfk : Fields.find k f with
    | some t =>
      simp only [hfk, Option.map_eq_some_iff] at h
      obtain ⟨t', hs, rfl⟩ := h
      obtain ⟨jt', l, r⟩ := acc_typeSum t tv t' (inv.jokAll k t hfk) jtv hs
      exact fin t' rfl jt' (r _ atv) (fun t0 h0 oj ha => by rw [hfk] at h0; cases h0; exact l oj ha)
        (fun h0 => by rw [hfk] at h0; cases h0)
    | none =>
      simp only [hfk] at h
      split at h
      · simp only [Option.map_eq_some_iff] at h
        obtain ⟨t', hs, rfl⟩ := h
        obtain ⟨jt', l, r⟩ := acc_typeSum tv .null t' jtv jok_null hs
        exact fin t' rfl jt' (l _ atv) (fun t0 h0 => by rw [hfk] at h0; cases h0) (fun _ _ => r _ acc_null_none)
      · next hi1 =>
        simp only [Option.some.injEq] at h
        have hs : seen = [] := by rcases hi with hi | hi; exact absurd hi hi1; exact hi
        exact fin tv h.symm jtv atv (fun t0 h0 => by rw [hfk] at h0; cases h0) (fun _ hne => absurd hs hne)

theorem visitKeys_inv (i : Nat) (seen : List J) (hi : i > 1 ∨ seen = []) : ∀ (ks : List Name) (vs : List J)
    (done : List (Name × J)) (f f' : Fields), (∀ v ∈ vs, wfJ v = true) → ks.Nodup → (∀ p ∈ done, p.1 ∉ ks) →
    RowsInv seen f → DoneOK done f → visitKeys i f ks vs = some f' →
    RowsInv seen f' ∧ DoneOK (done ++ ks.zip vs) f'
  | [], vs, done, f, f', _, _, _, inv, hd, h => by
    simp only [visitKeys, Option.some.injEq] at h; subst h; simpa using ⟨inv, hd⟩
  | k :: ks, [], done, f, f', _, _, _, inv, hd, h => by
    simp only [visitKeys, Option.some.injEq] at h; subst h; simpa using ⟨inv, hd⟩
  | k :: ks, v :: vs, done, f, f', hw, hn, hdk, inv, hd, h => by
    simp only [visitKeys] at h
    cases h1 : visitKey i f k v with
    | none => simp [h1] at h
    | some f1 =>
      simp only [h1] at h
      simp only [List.nodup_cons] at hn
      obtain ⟨inv1, hd1⟩ := visitKey_inv i seen done f f1 k v hi (hw v (by simp))
        (fun p hp e => hdk p hp (by simp [e])) inv hd h1
      have := visitKeys_inv i seen hi ks vs (done ++ [(k, v)]) f1 f' (fun v' hv' => hw v' (by simp [hv'])) hn.2
        (by
          intro p hp
          simp only [List.mem_append, List.mem_singleton] at hp
          rcases hp with hp | hp
          · exact fun hin => hdk p hp (by simp [hin])
          · subst hp; exact hn.1)
        inv1 hd1 h
      simpa [List.append_assoc] using this

/-- one previewed row -/
theorem visitRow_inv (i : Nat) (seen : List J) (hi : i > 1 ∨ seen = []) (f f'' : Fields) (r : J)
    (hw : wfJ r = true) (inv : RowsInv seen f) (h : visitRow i f r = .ok f'') : RowsInv (r :: seen) f'' := by
  cases r with
  | obj ks vs =>
    simp only [visitRow] at h
    cases h1 : visitKeys i f ks vs with
    | none => simp [h1] at h
    | some f' =>
      simp only [h1] at h
      cases h2 : markMissing ks f' with
      | none => simp [h2] at h
      | some f2 =>
        simp only [h2, InferRes.ok.injEq] at h
        subst h
        simp only [wfJ, Bool.and_eq_true, beq_iff_eq, decide_eq_true_eq] at hw
        obtain ⟨⟨hlen, hnd⟩, hwv⟩ := hw
        obtain ⟨inv1, hd1⟩ := visitKeys_inv i seen hi ks vs [] f f' ((wfJs_iff vs).mp hwv) hnd (by simp) inv
          (by intro p hp; cases hp) h1
        simp only [List.nil_append] at hd1
        obtain ⟨hnames, hspec⟩ := markMissing_spec ks f' f2 h2
        have someIff : ∀ k, (Fields.find k f2).isSome = true ↔ (Fields.find k f').isSome = true := by
          intro k; rw [find_isSome_iff, find_isSome_iff, hnames]
        -- how the type of a field changes in `markMissing`
        have step : ∀ n t'', Fields.find n f2 = some t'' → ∃ t, Fields.find n f' = some t ∧ jok t'' = true ∧
            (∀ oj, acc t oj = true → acc t'' oj = true) ∧ (ks.contains n = true → t'' = t) ∧
            (ks.contains n = false → acc t'' none = true) := by
          intro n t'' hf
          obtain ⟨t, ht, hc⟩ := hspec n t'' hf
          by_cases hk : ks.contains n = true
          · simp only [hk, if_true] at hc
            subst hc
            exact ⟨t'', ht, inv1.jokAll n t'' ht, fun _ h => h, fun _ => rfl, fun h => by rw [hk] at h; cases h⟩
          · simp only [hk, Bool.false_eq_true, if_false] at hc
            obtain ⟨j, l, r⟩ := acc_typeSum t .null t'' (inv1.jokAll n t ht) jok_null hc
            exact ⟨t, ht, j, l, fun h => absurd h hk, fun _ => r _ acc_null_none⟩
        refine ⟨?_, hnames ▸ inv1.nodup, ?_⟩
        · intro n t'' hf
          obtain ⟨_, _, j, _⟩ := step n t'' hf
          exact j
        · intro r hr
          simp only [List.mem_cons] at hr
          rcases hr with hr | hr
          · subst hr
            refine ⟨ks, vs, rfl, ?_, ?_⟩
            · intro k hk
              rw [someIff]
              obtain ⟨idx, hidx, hik⟩ := List.getElem_of_mem hk
              have hz : idx < (ks.zip vs).length := by simp; omega
              have hm := List.getElem_mem hz
              obtain ⟨t, ht, _⟩ := hd1 _ hm
              simp only [List.getElem_zip, hik] at ht
              rw [ht]; rfl
            · intro n t'' hf
              obtain ⟨t, ht, _, l, hin, hout⟩ := step n t'' hf
              by_cases hk : ks.contains n = true
              · have := hin hk; subst this
                have hmem : n ∈ ks := by simpa using hk
                obtain ⟨idx, hidx, hik⟩ := List.getElem_of_mem hmem
                have hz : idx < (ks.zip vs).length := by simp; omega
                have hm := List.getElem_mem hz
                obtain ⟨t0, ht0, ha0⟩ := hd1 _ hm
                simp only [List.getElem_zip, hik] at ht0 ha0
                rw [ht] at ht0; cases ht0
                have hget : (J.obj ks vs).get n = some (vs[idx]'(by omega)) :=
                  lookup_of_index ks vs idx n _ hnd (by rw [List.getElem?_eq_getElem hidx, hik])
                    (List.getElem?_eq_getElem (by omega))
                rw [hget]; exact ha0
              · have hk' : ks.contains n = false := by cases h : ks.contains n <;> simp_all
                have hnk : n ∉ ks := by simpa using hk'
                rw [show (J.obj ks vs).get n = none from lookup_none_of_not_key n ks vs hnk]
                exact hout hk'
          · obtain ⟨ks', vs', rfl, hkeys, hacc⟩ := inv1.rows r hr
            refine ⟨ks', vs', rfl, fun k hk => (someIff k).mpr (hkeys k hk), ?_⟩
            intro n t'' hf
            obtain ⟨t, ht, _, l, _, _⟩ := step n t'' hf
            exact l _ (hacc n t ht)
  | _ => simp [visitRow] at h

theorem inferRows_inv : ∀ (rows : List J) (i : Nat) (seen : List J) (f f' : Fields),
    i = seen.length + 1 → (∀ r ∈ rows, wfJ r = true) → RowsInv seen f → inferRowsFrom i f rows = .ok f' →
    RowsInv (rows.reverse ++ seen) f'
  | [], i, seen, f, f', _, _, inv, h => by
    simp only [inferRowsFrom, InferRes.ok.injEq] at h; subst h; simpa using inv
  | r :: rows, i, seen, f, f', hi, hw, inv, h => by
    simp only [inferRowsFrom] at h
    cases h1 : visitRow i f r with
    | ok f1 =>
      simp only [h1] at h
      have inv1 := visitRow_inv i seen (by cases seen <;> simp_all) f f1 r (hw r (by simp)) inv h1
      have := inferRows_inv rows (i + 1) (r :: seen) f1 f' (by simp [hi]) (fun r' hr' => hw r' (by simp [hr'])) inv1 h
      simpa [List.append_assoc] using this
    | error => simp [h1] at h
    | fuel => simp [h1] at h

theorem json_record_iff_fits' {schema : Fields} {ks : List Name} {vs : List J} :
    (rowValues schema (.obj ks vs)).isSome = schema.all (fun f => fits f.2 ((J.obj ks vs).get f.1)) := by
  unfold rowValues
  simp only [List.all_map, Function.comp_def, getValue_ok_iff_fits]
  split <;> simp_all

/-- **the schema inferred from at most 100 rows accepts every one of them** -/
theorem jsonCreate_accepts (rows : List J) (schema : Fields) (hlen : rows.length ≤ jsonPreviewRows)
    (hw : ∀ r ∈ rows, wfJ r = true) (h : jsonCreate rows = .ok schema) :
    ∀ r ∈ rows, (rowValues schema r).isSome = true := by
  unfold jsonCreate at h
  rw [List.take_of_length_le hlen] at h
  cases h1 : inferRowsFrom 1 [] rows with
  | ok fields =>
    simp only [h1, InferRes.ok.injEq] at h
    subst h
    have inv := inferRows_inv rows 1 [] [] fields rfl hw
      ⟨by simp [Fields.find], by simp, by simp⟩ h1
    intro r hr
    obtain ⟨ks, vs, rfl, _, hacc⟩ := inv.rows r (by simp [hr])
    rw [json_record_iff_fits']
    simp only [List.all_eq_true]
    intro p hp
    have hp' := (mem_sortFields p fields).mp hp
    have := hacc p.1 p.2 (find_of_mem p.1 p.2 fields inv.nodup hp')
    simp only [acc, Bool.and_eq_true] at this
    exact this.1
  | error => simp [h1] at h
  | fuel => simp [h1] at h

end Octo.Files
