import Octo.Lemmas.FilesJsonSum
/-! JSON schema inference, part 3: the type `getOctoSQLType` computes for a value accepts that value, and the schema
    inferred from the previewed rows accepts every one of them. -/
namespace Octo.Files
open Octo Octo.Ty

theorem acc_F : ∀ (n : Nat), AccFor (typeSumF n)
  | 0 => by intro a b c _ _ h; simp [typeSumF] at h
  | n + 1 => by
    intro a b c ja jb hc
    simp only [typeSumF] at hc
    exact acc_step (acc_F n) a b c ja jb hc

/-- **`TypeSum` of JSON-shaped types accepts everything either operand accepts** -/
theorem acc_typeSum : AccFor typeSum := fun a b c ja jb hc => acc_F (sumFuel a b) a b c ja jb hc

/-! ### well-formed documents: as many keys as values in every object, keys distinct -/

mutual
def wfJ : J → Bool
  | .arr xs => wfJs xs
  | .obj ks vs => ks.length == vs.length && decide ks.Nodup && wfJs vs
  | _ => true
def wfJs : List J → Bool
  | [] => true
  | x :: xs => wfJ x && wfJs xs
end

theorem wfJs_iff : ∀ (l : List J), wfJs l = true ↔ ∀ x ∈ l, wfJ x = true
  | [] => by simp [wfJs]
  | x :: xs => by simp [wfJs, wfJs_iff xs]

theorem J.size_pos (j : J) : 0 < j.size := by cases j <;> simp [J.size] <;> omega

theorem J.size_le_sizeList {x : J} {xs : List J} (h : x ∈ xs) : x.size ≤ J.sizeList xs := by
  induction xs with
  | nil => cases h
  | cons y ys ih =>
    simp only [J.sizeList]
    cases h with
    | head => omega
    | tail _ h => have := ih h; omega

theorem getTypes_spec : ∀ (xs : List J) (ts : List Ty), J.getTypes xs = some ts →
    ts.length = xs.length ∧ ∀ (i : Nat) (x : J), xs[i]? = some x → ∃ t, ts[i]? = some t ∧ x.getType = some t
  | [], ts, h => by simp only [J.getTypes, Option.some.injEq] at h; subst h; simp
  | x :: xs, ts, h => by
    simp only [J.getTypes] at h
    cases hx : x.getType with
    | none => simp [hx] at h
    | some t =>
      cases hxs : J.getTypes xs with
      | none => simp [hx, hxs] at h
      | some ts' =>
        simp only [hx, hxs, Option.some.injEq] at h
        subst h
        obtain ⟨hl, hi⟩ := getTypes_spec xs ts' hxs
        refine ⟨by simp [hl], ?_⟩
        intro i y hy
        cases i with
        | zero => simp at hy; subst hy; exact ⟨t, by simp, hx⟩
        | succ i => simpa using hi i y (by simpa using hy)

theorem mem_insertField (n : Name) (t : Ty) (p : Name × Ty) : ∀ (l : List (Name × Ty)),
    p ∈ insertField n t l ↔ p = (n, t) ∨ p ∈ l
  | [] => by simp [insertField]
  | (m, u) :: rest => by
    simp only [insertField]
    split
    · simp
    · simp only [List.mem_cons, mem_insertField n t p rest]
      constructor
      · rintro (h | h | h)
        · exact Or.inr (Or.inl h)
        · exact Or.inl h
        · exact Or.inr (Or.inr h)
      · rintro (h | h | h)
        · exact Or.inr (Or.inl h)
        · exact Or.inl h
        · exact Or.inr (Or.inr h)

theorem mem_sortFields (p : Name × Ty) : ∀ (l : List (Name × Ty)), p ∈ sortFields l ↔ p ∈ l
  | [] => by simp [sortFields]
  | q :: rest => by
    unfold sortFields
    simp only [List.foldr, mem_insertField, List.mem_cons]
    have := mem_sortFields p rest
    unfold sortFields at this
    rw [this]

theorem accFields_of_pairs (o : J) : ∀ (fs : List (Name × Ty)), (∀ p ∈ fs, acc p.2 (o.get p.1) = true) →
    accFields (fs.map (·.1)) (fs.map (·.2)) o
  | [], _ => by simp [accFields]
  | p :: fs, h => by
    simp only [List.map_cons, accFields, List.headD_cons, List.tail_cons]
    exact ⟨h p (by simp), accFields_of_pairs o fs (fun q hq => h q (by simp [hq]))⟩

/-- with distinct keys `Get` returns the value stored under the key -/
theorem lookup_of_index : ∀ (ks : List Name) (vs : List J) (i : Nat) (k : Name) (v : J), ks.Nodup →
    ks[i]? = some k → vs[i]? = some v → J.lookup k ks vs = some v
  | [], _, i, _, _, _, h, _ => by simp at h
  | _ :: _, [], i, _, _, _, _, h => by simp at h
  | k' :: ks, v' :: vs, 0, k, v, _, h1, h2 => by
    simp at h1 h2; subst h1; subst h2; simp [J.lookup]
  | k' :: ks, v' :: vs, i + 1, k, v, hn, h1, h2 => by
    simp only [List.getElem?_cons_succ] at h1 h2
    simp only [List.nodup_cons] at hn
    have hne : k' ≠ k := by
      intro e; subst e
      exact hn.1 (List.mem_of_getElem? h1)
    simp only [J.lookup, hne, if_false]
    exact lookup_of_index ks vs i k v hn.2 h1 h2

theorem jok_elemFold_acc (ts : List Ty) (xs : List J) (e : Ty) (hl : ts.length = xs.length)
    (hj : ∀ t ∈ ts, jok t = true) (ha : ∀ (i : Nat) (t : Ty) (x : J), ts[i]? = some t → xs[i]? = some x → acc t (some x) = true)
    (h : Ty.elemFold ts = some e) : jok e = true ∧ acc e (some (.arr xs)) = true := by
  cases ts with
  | nil =>
    simp only [Ty.elemFold, Option.some.injEq] at h; subst h
    have : xs = [] := by cases xs <;> simp_all
    subst this
    exact ⟨rfl, (acc_listNil []).mpr rfl⟩
  | cons t ts =>
    simp only [Ty.elemFold, Option.map_eq_some_iff] at h
    obtain ⟨s, hs, rfl⟩ := h
    obtain ⟨js, s1, s2⟩ := fold_acc acc_typeSum ts t s (hj t (by simp))
      ((jokList_iff _).mpr (fun t' ht' => hj t' (by simp [ht']))) hs
    refine ⟨by simpa [jok] using js, (acc_list s xs).mpr ?_⟩
    intro x hx
    obtain ⟨i, hi, hix⟩ := List.getElem_of_mem hx
    have hix' : xs[i]? = some x := by rw [List.getElem?_eq_getElem hi, hix]
    have hit : i < (t :: ts).length := by omega
    have hti : (t :: ts)[i]? = some ((t :: ts)[i]) := List.getElem?_eq_getElem hit
    have hacc := ha i _ x hti hix'
    cases i with
    | zero => simp at hacc ⊢; exact s1 _ hacc
    | succ i =>
      simp only [List.getElem_cons_succ] at hacc
      exact s2 _ (List.getElem_mem _) _ hacc

/-- **the type `getOctoSQLType` computes for a value accepts the value** (and is JSON-shaped) -/
theorem getType_acc : ∀ (n : Nat) (j : J) (t : Ty), j.size ≤ n → wfJ j = true → j.getType = some t →
    jok t = true ∧ acc t (some j) = true := by
  intro n
  induction n with
  | zero => intro j _ h; have := J.size_pos j; omega
  | succ n ih =>
    intro j t hn hw ht
    cases j with
    | null => simp only [J.getType, Option.some.injEq] at ht; subst ht; exact ⟨rfl, by rw [acc_jnull]; rfl⟩
    | bool b => simp only [J.getType, Option.some.injEq] at ht; subst ht; exact ⟨rfl, by simp [acc, fits, cov, coversKeys]⟩
    | num b => simp only [J.getType, Option.some.injEq] at ht; subst ht; exact ⟨rfl, by simp [acc, fits, cov, coversKeys]⟩
    | str s tm =>
      simp only [J.getType, Option.some.injEq] at ht; subst ht
      cases tm <;> exact ⟨rfl, by simp [acc, fits, cov, coversKeys]⟩
    | arr xs =>
      simp only [J.getType] at ht
      cases hts : J.getTypes xs with
      | none => simp [hts] at ht
      | some ts =>
        simp only [hts] at ht
        obtain ⟨hl, hi⟩ := getTypes_spec xs ts hts
        simp only [wfJ] at hw
        have each : ∀ (i : Nat) (t' : Ty) (x : J), ts[i]? = some t' → xs[i]? = some x → jok t' = true ∧ acc t' (some x) = true := by
          intro i t' x h1 h2
          obtain ⟨t'', h3, h4⟩ := hi i x h2
          rw [h1] at h3; cases h3
          have hx := List.mem_of_getElem? h2
          have := J.size_le_sizeList hx
          exact ih x t' (by simp only [J.size] at hn; omega) ((wfJs_iff xs).mp hw x hx) h4
        apply jok_elemFold_acc ts xs t hl _ (fun i t' x h1 h2 => (each i t' x h1 h2).2) ht
        intro t' ht'
        obtain ⟨i, hi', hit⟩ := List.getElem_of_mem ht'
        have h1 : ts[i]? = some t' := by rw [List.getElem?_eq_getElem hi', hit]
        have h2 : xs[i]? = some (xs[i]'(by omega)) := List.getElem?_eq_getElem (by omega)
        exact (each i t' _ h1 h2).1
    | obj ks vs =>
      simp only [J.getType] at ht
      cases hts : J.getTypes vs with
      | none => simp [hts] at ht
      | some ts =>
        simp only [hts, Option.some.injEq] at ht
        subst ht
        obtain ⟨hl, hi⟩ := getTypes_spec vs ts hts
        simp only [wfJ, Bool.and_eq_true, beq_iff_eq, decide_eq_true_eq] at hw
        obtain ⟨⟨hkl, hnd⟩, hwv⟩ := hw
        -- every (key, type) pair of the object accepts the value stored under the key
        have pair : ∀ p ∈ ks.zip ts, jok p.2 = true ∧ acc p.2 ((J.obj ks vs).get p.1) = true := by
          intro p hp
          obtain ⟨i, hi', hip⟩ := List.getElem_of_mem hp
          have hik : i < ks.length := by simp at hi'; omega
          have hit : i < ts.length := by simp at hi'; omega
          have hiv : i < vs.length := by omega
          have hp1 : ks[i]? = some p.1 := by
            rw [List.getElem?_eq_getElem hik]; rw [← hip]; simp
          have hp2 : ts[i]? = some p.2 := by
            rw [List.getElem?_eq_getElem hit]; rw [← hip]; simp
          have hv : vs[i]? = some vs[i] := List.getElem?_eq_getElem hiv
          obtain ⟨t', h3, h4⟩ := hi i _ hv
          rw [hp2] at h3; cases h3
          have hx := List.mem_of_getElem? hv
          have hs := J.size_le_sizeList hx
          have := ih vs[i] p.2 (by simp only [J.size] at hn; omega) ((wfJs_iff vs).mp hwv _ hx) h4
          have hget : (J.obj ks vs).get p.1 = some vs[i] := lookup_of_index ks vs i p.1 _ hnd hp1 hv
          rw [hget]
          exact this
        refine ⟨?_, ?_⟩
        · simp only [jok, List.length_map, beq_self_eq_true, Bool.true_and]
          apply (jokList_iff _).mpr
          intro t' ht'
          obtain ⟨p, hp, rfl⟩ := List.mem_map.mp ht'
          exact (pair p ((mem_sortFields p _).mp hp)).1
        · rw [acc_struct]
          refine ⟨?_, accFields_of_pairs _ _ (fun p hp => (pair p ((mem_sortFields p _).mp hp)).2)⟩
          intro k hk
          obtain ⟨i, hi', hik⟩ := List.getElem_of_mem hk
          have hit : i < ts.length := by omega
          have : (k, ts[i]) ∈ ks.zip ts := by
            have hz : i < (ks.zip ts).length := by simp; omega
            have := List.getElem_mem hz
            simpa [hik] using this
          exact List.mem_map.mpr ⟨(k, ts[i]), (mem_sortFields _ _).mpr this, rfl⟩

theorem getType_acc' (j : J) (t : Ty) (hw : wfJ j = true) (ht : j.getType = some t) :
    jok t = true ∧ acc t (some j) = true := getType_acc j.size j t (Nat.le_refl _) hw ht

end Octo.Files
