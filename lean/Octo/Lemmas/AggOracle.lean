import Octo.Lemmas.AggCore
/-!
  The executable validity test / net multiset used by the oracle (`bagsOf`) agrees with the
  declarative notions of the theorems (`ValidHist`, `IsNet`).
-/
namespace Octo.Agg
open Octo

theorem validFrom_cons {L : List Value} {e : Bool × Value} {h : Hist}
    (he : e.1 = true → 0 < cnt L e.2) (ht : ValidFrom (bagStep L e) h) : ValidFrom L (e :: h) := by
  intro n v
  cases n with
  | zero => simp [netH]; exact cnt_nonneg L v
  | succ n =>
    have := ht n v
    rw [cnt_bagStep he v] at this
    simp only [List.take_succ_cons, netH_cons]; omega

/-- the oracle accepts a history (computes its multisets) exactly when it is valid -/
theorem bagsOf_isSome_iff : ∀ (h : Hist) (L : List Value), (bagsOf L h).isSome = true ↔ ValidFrom L h
  | [], L => by simp [bagsOf, ValidFrom, netH]; exact fun v => cnt_nonneg L v
  | e :: h, L => by
    have ih := bagsOf_isSome_iff h (bagStep L e)
    simp only [bagsOf]
    by_cases hc : (e.1 && decide (cnt L e.2 ≤ 0)) = true
    · simp only [hc, if_true, Option.isSome_none, Bool.false_eq_true, false_iff]
      intro hv
      simp only [Bool.and_eq_true, decide_eq_true_eq] at hc
      have := hv.head hc.1; omega
    · simp only [hc, Bool.false_eq_true, if_false, Option.isSome_map, ih]
      have he : e.1 = true → 0 < cnt L e.2 := by
        intro h1; simp only [h1, Bool.true_and, decide_eq_true_eq] at hc; omega
      exact ⟨fun ht => validFrom_cons he ht, fun hv => hv.tail⟩

/-- … and the multiset it uses after step `i+1` is the running net multiset of that prefix -/
theorem bagsOf_get : ∀ (h : Hist) (L : List Value) (bags : List (List Value)), bagsOf L h = some bags →
    ∀ i, i < h.length → bags[i]? = some (bagRun L (h.take (i + 1)))
  | [], _, _, _, i, hi => by simp at hi
  | e :: h, L, bags, hb, i, hi => by
    simp only [bagsOf] at hb
    split at hb
    · cases hb
    · cases hrest : bagsOf (bagStep L e) h with
      | none => simp [hrest] at hb
      | some bs =>
        simp only [hrest, Option.map_some, Option.some.injEq] at hb
        subst hb
        cases i with
        | zero => simp [bagRun]
        | succ i =>
          simp only [List.length_cons] at hi
          have := bagsOf_get h (bagStep L e) bs hrest i (by omega)
          simp only [List.getElem?_cons_succ, this, List.take_succ_cons, bagRun_cons]

theorem bagRun_isNet {h : Hist} (hv : ValidHist h) : IsNet (bagRun [] h) h := by
  intro v
  rw [cnt_bagRun h [] ((validFrom_nil_iff h).mpr hv) v]; simp [cnt]

theorem validHist_take {h : Hist} (hv : ValidHist h) (n : Nat) : ValidHist (h.take n) := by
  intro m v
  rw [List.take_take]
  exact hv _ v

end Octo.Agg
