import Octo.Model.TvfSpec
/-!
  Octo.Lemmas.Tvf — helper lemmas for C21 (tumble / range / poll).  Core Lean only.
-/
namespace Octo.Tvf
open Octo Octo.TvfSpec

/-! ## window arithmetic and the tumble stream -/

theorem sub_emod_self (a d : Int) : (a - a % d) % d = 0 := by
  have h := Int.emod_def a d
  have : a - a % d = d * (a / d) := by omega
  rw [this]; exact Int.mul_emod_right d (a / d)
theorem negDur_eq (off : Int) (h1 : minI64 < off) (h2 : off ≤ maxI64) : negDur off = -off := by
  unfold negDur wrap64; unfold minI64 at h1; unfold maxI64 at h2; omega
theorem truncate_le (t d : Int) (hd : 0 < d) : truncate t d ≤ t := by
  unfold truncate
  have := Int.emod_nonneg (t - zeroUnix) (Int.ne_of_gt hd)
  split <;> omega
theorem truncate_gt (t d : Int) (hd : 0 < d) : t < truncate t d + d := by
  unfold truncate
  have := Int.emod_lt_of_pos (t - zeroUnix) hd
  split <;> omega
theorem truncate_aligned (t d : Int) (hd : 0 < d) : (truncate t d - zeroUnix) % d = 0 := by
  unfold truncate
  rw [if_neg (by omega)]
  have : t - (t - zeroUnix) % d - zeroUnix = (t - zeroUnix) - (t - zeroUnix) % d := by omega
  rw [this]; exact sub_emod_self _ _

theorem truncate_nonpos (t d : Int) (hd : d ≤ 0) : truncate t d = t := by
  unfold truncate; rw [if_pos hd]

/-- the window computed by the code is a window in the sense of the specification -/
theorem window_isWindow (t len off : Int) (hlen : 0 < len) (h1 : minI64 < off) (h2 : off ≤ maxI64) :
    IsWindow t len off (windowStart t len off) (windowEnd t len off) := by
  unfold IsWindow windowEnd windowStart
  rw [negDur_eq off h1 h2]
  have a := truncate_le (t + -off) len hlen
  have b := truncate_gt (t + -off) len hlen
  have c := truncate_aligned (t + -off) len hlen
  refine ⟨by omega, by omega, by omega, ?_⟩
  have : truncate (t + -off) len + off - off - zeroUnix = truncate (t + -off) len - zeroUnix := by omega
  rw [this]; exact c

/-- two multiples of `d` less than `d` apart are equal -/
theorem eq_of_aligned (a b d : Int) (hd : 0 < d) (ha : a % d = 0) (hb : b % d = 0)
    (h1 : a - b < d) (h2 : b - a < d) : a = b := by
  have ha' := Int.emod_def a d
  have hb' := Int.emod_def b d
  have hk : a - b = d * (a / d - b / d) := by rw [Int.mul_sub]; omega
  generalize a / d - b / d = k at hk
  have : k = 0 := by
    rcases Int.lt_trichotomy k 0 with hk0 | hk0 | hk0
    · have : d * k ≤ d * (-1) := Int.mul_le_mul_of_nonneg_left (by omega) (by omega)
      omega
    · exact hk0
    · have : d * 1 ≤ d * k := Int.mul_le_mul_of_nonneg_left (by omega) (by omega)
      omega
  subst this; omega

/-- … and it is the only one: the specification determines the two appended values -/
theorem window_unique (t len off ws we : Int) (hlen : 0 < len) (h1 : minI64 < off) (h2 : off ≤ maxI64)
    (h : IsWindow t len off ws we) : ws = windowStart t len off ∧ we = windowEnd t len off := by
  have h0 := window_isWindow t len off hlen h1 h2
  obtain ⟨a1, a2, a3, a4⟩ := h
  obtain ⟨b1, b2, b3, b4⟩ := h0
  have := eq_of_aligned (ws - off - zeroUnix) (windowStart t len off - off - zeroUnix) len hlen a4 b4 (by omega) (by omega)
  constructor <;> omega


/-- every record of the stream carries a time value at position `idx` -/
def Timed (idx : Nat) : List Msg → Prop
  | [] => True
  | .wm _ :: ms => Timed idx ms
  | .data r :: ms => (∃ t loc, r.vals[idx]? = some (.time t loc)) ∧ Timed idx ms

theorem tumbleRec_spec (c : TumbleCfg) (idx : Nat) (hc : c.idx = idx) (hlen : 0 < c.len)
    (h1 : minI64 < c.off) (h2 : c.off ≤ maxI64) (r : Rec) (t : Int) (loc : Nat)
    (hv : r.vals[idx]? = some (.time t loc)) :
    ∃ r', tumbleRec c r = some r' ∧ TumbleRecOk idx c.len c.off r r' := by
  unfold tumbleRec
  rw [if_neg (by omega), hc, Int.toNat_natCast, hv]
  refine ⟨_, rfl, rfl, rfl, t, loc, _, _, hv, rfl, ?_⟩
  exact window_isWindow t c.len c.off hlen h1 h2

theorem tumbleMsgs_spec (c : TumbleCfg) (idx : Nat) (hc : c.idx = idx) (hlen : 0 < c.len)
    (h1 : minI64 < c.off) (h2 : c.off ≤ maxI64) (ms : List Msg) (ht : Timed idx ms) :
    (tumbleMsgs c ms).2 = .ok ∧ TumbleOk idx c.len c.off ms (tumbleMsgs c ms).1 := by
  induction ms with
  | nil => simp [tumbleMsgs, TumbleOk]
  | cons m ms ih =>
    cases m with
    | wm w =>
      have := ih ht
      simp [tumbleMsgs, TumbleOk, TumbleMsgOk, this]
    | data r =>
      obtain ⟨⟨t, loc, hv⟩, ht'⟩ := ht
      obtain ⟨r', hr, hok⟩ := tumbleRec_spec c idx hc hlen h1 h2 r t loc hv
      have := ih ht'
      simp [tumbleMsgs, hr, TumbleOk, TumbleMsgOk, this, hok]

theorem tumbleOk_length_eq {idx len off} : ∀ {ms out : List Msg}, TumbleOk idx len off ms out → out.length = ms.length
  | [], [], _ => rfl
  | _ :: _, _ :: _, h => by simp [tumbleOk_length_eq h.2]
  | [], _ :: _, h => by simp [TumbleOk] at h
  | _ :: _, [], h => by simp [TumbleOk] at h

theorem tumbleOk_take {idx len off} (n : Nat) : ∀ {ms out : List Msg}, TumbleOk idx len off ms out →
    TumbleOk idx len off (ms.take n) (out.take n) := by
  induction n with
  | zero => intro ms out _; simp [TumbleOk]
  | succ n ih =>
    intro ms out h
    match ms, out, h with
    | [], [], _ => simp [TumbleOk]
    | _ :: _, _ :: _, h => exact ⟨h.1, ih h.2⟩
    | [], _ :: _, h => simp [TumbleOk] at h
    | _ :: _, [], h => simp [TumbleOk] at h

/-- watermarks pass through: same values, same order -/
theorem tumbleOk_wms_eq {idx len off} : ∀ {ms out : List Msg}, TumbleOk idx len off ms out → wms out = wms ms
  | [], [], _ => rfl
  | .wm w :: _, .wm w' :: _, h => by
    have h1 : w' = w := h.1
    simp [wms, h1, tumbleOk_wms_eq h.2]
  | .data _ :: _, .data _ :: _, h => by simp [wms, tumbleOk_wms_eq h.2]
  | .wm _ :: _, .data _ :: _, h => by simp [TumbleOk, TumbleMsgOk] at h
  | .data _ :: _, .wm _ :: _, h => by simp [TumbleOk, TumbleMsgOk] at h
  | [], _ :: _, h => by simp [TumbleOk] at h
  | _ :: _, [], h => by simp [TumbleOk] at h

/-! ## the consumer budget; range -/

theorem cut_fst (b : Option Nat) (r : Result) :
    (cut b r).1 = match b with | none => r.1 | some n => r.1.take n := by
  unfold cut
  cases b with
  | none => rfl
  | some n =>
    simp only
    split
    · rfl
    · rw [List.take_of_length_le (by omega)]

theorem cut_snd (b : Option Nat) (r : Result) :
    (cut b r).2 = match b with | none => r.2 | some n => if r.1.length > n then .errBudget else r.2 := by
  unfold cut
  cases b with
  | none => rfl
  | some n => simp only; split <;> rfl

/-! range -/
theorem rangeSpec_succ (i e : Int) (h : i < e) : rangeSpec i e = i :: rangeSpec (i + 1) e := by
  unfold rangeSpec
  have : (e - i).toNat = (e - (i + 1)).toNat + 1 := by omega
  rw [this, List.range_succ_eq_map, List.map_cons, List.map_map]
  simp only [Int.natCast_zero, Int.add_zero, List.cons.injEq, true_and]
  apply List.map_congr_left
  intro k _
  simp only [Function.comp, Nat.succ_eq_add_one, Int.natCast_add, Int.natCast_one]
  omega

theorem rangeSpec_nil (i e : Int) (h : e ≤ i) : rangeSpec i e = [] := by
  unfold rangeSpec
  have : (e - i).toNat = 0 := by omega
  rw [this]; rfl

/-- the loop with enough fuel produces the specified list (fuel adequacy) -/
theorem rangeLoop_eq (e : Int) : ∀ (fuel : Nat) (i : Int), (e - i).toNat ≤ fuel → rangeLoop e fuel i = rangeSpec i e := by
  intro fuel
  induction fuel with
  | zero => intro i h; rw [rangeSpec_nil i e (by omega)]; rfl
  | succ n ih =>
    intro i h
    unfold rangeLoop
    split
    · next hlt => rw [rangeSpec_succ i e hlt, ih (i + 1) (by omega)]
    · next hge => rw [rangeSpec_nil i e (by omega)]

theorem rangeInts_eq (s e : Int) : rangeInts s e = rangeSpec s e := rangeLoop_eq e _ s (Nat.le_refl _)

theorem mem_rangeSpec (s e x : Int) : x ∈ rangeSpec s e ↔ s ≤ x ∧ x < e := by
  unfold rangeSpec
  simp only [List.mem_map, List.mem_range]
  constructor
  · rintro ⟨k, hk, rfl⟩; omega
  · intro ⟨h1, h2⟩; exact ⟨(x - s).toNat, by omega, by omega⟩

theorem rangeSpec_sorted (s e : Int) : List.Pairwise (· < ·) (rangeSpec s e) := by
  unfold rangeSpec
  rw [List.pairwise_map]
  have := List.pairwise_lt_range (n := (e - s).toNat)
  exact this.imp (by intro a b h; omega)

theorem rangeSpec_length (s e : Int) : (rangeSpec s e).length = (e - s).toNat := by
  simp [rangeSpec]

/-! ## poll: the stateful loop is the stateless round specification -/

/-- non-failing rounds -/
def okRounds (snaps : List (List Msg)) : List (List Msg × Bool) := snaps.map fun s => (s, false)

/-- poll's state when it enters round `k` -/
def stAfter (clock : Nat → Int) (snaps : List (List Msg)) : Nat → PollSt
  | 0 => {}
  | j + 1 => { lastNow := clock j, last := pollRemember (clock j) (snaps.getD j []) }

theorem pollRetractions_eq (clock : Nat → Int) (hz : ∀ j, clock j ≠ zeroUnix) (snaps : List (List Msg)) (k : Nat) :
    pollRetractions (stAfter clock snaps k) (clock k) = undoBefore clock snaps k := by
  cases k with
  | zero => simp [stAfter, pollRetractions, undoBefore]
  | succ j =>
    have h : (stAfter clock snaps (j + 1)).lastNow ≠ zeroUnix := hz j
    unfold pollRetractions
    rw [if_neg h]
    simp only [stAfter, undoBefore, undo, stamped, pollRemember]
    simp [← List.map_reverse, List.map_map, Function.comp_def]

theorem pollMsg_eq (now : Int) (m : Msg) : pollMsg now m = bodyMsg now m := by
  cases m <;> rfl

theorem map_pollMsg (now : Int) (ms : List Msg) : ms.map (pollMsg now) = body now ms := by
  unfold body; exact List.map_congr_left (fun m _ => pollMsg_eq now m)

theorem getD_of_drop {α} (l : List α) (k : Nat) (x : α) (rest : List α) (d : α) (h : l.drop k = x :: rest) :
    l.getD k d = x ∧ l.drop (k + 1) = rest := by
  induction l generalizing k with
  | nil => simp at h
  | cons a l ih =>
    cases k with
    | zero => simp at h; simp [h]
    | succ k => simp at h; simpa using ih k h

/-- the loop over non-failing rounds `rest` (snapshots `k …` of `snaps`) followed by anything else -/
theorem pollFrom_split (clock : Nat → Int) (hz : ∀ j, clock j ≠ zeroUnix) (snaps : List (List Msg))
    (tail : List (List Msg × Bool)) :
    ∀ (rest : List (List Msg)) (k : Nat), snaps.drop k = rest →
      pollFrom clock k (stAfter clock snaps k) (okRounds rest ++ tail) =
        ((List.range' k rest.length).flatMap (round clock snaps) ++
            (pollFrom clock (k + rest.length) (stAfter clock snaps (k + rest.length)) tail).1,
          (pollFrom clock (k + rest.length) (stAfter clock snaps (k + rest.length)) tail).2) := by
  intro rest
  induction rest with
  | nil => intro k _; simp [okRounds]
  | cons s rest ih =>
    intro k h
    obtain ⟨hget, hdrop⟩ := getD_of_drop snaps k s rest [] h
    have hst : ({ lastNow := clock k, last := pollRemember (clock k) s } : PollSt) = stAfter clock snaps (k + 1) := by
      rw [← hget]; rfl
    have := ih (k + 1) hdrop
    have hk : k + 1 + rest.length = k + (rest.length + 1) := by omega
    simp only [okRounds, List.map_cons, List.cons_append, List.length_cons, hk] at this ⊢
    generalize pollFrom clock (k + (rest.length + 1)) (stAfter clock snaps (k + (rest.length + 1))) tail = r at this ⊢
    unfold pollFrom
    simp only [Bool.false_eq_true, if_false, hst]
    rw [this]
    simp only [List.range'_succ, List.flatMap_cons, round, hget,
      pollRetractions_eq clock hz, map_pollMsg]
    simp

theorem pollFrom_spec (clock : Nat → Int) (hz : ∀ j, clock j ≠ zeroUnix) (snaps : List (List Msg)) :
    ∀ (rest : List (List Msg)) (k : Nat), snaps.drop k = rest →
      pollFrom clock k (stAfter clock snaps k) (okRounds rest) =
        ((List.range' k rest.length).flatMap (round clock snaps) ++ undoBefore clock snaps (k + rest.length), .errSource) := by
  intro rest k h
  have := pollFrom_split clock hz snaps [] rest k h
  simpa [pollFrom, pollRetractions_eq clock hz] using this

theorem pollFrom_rounds (clock : Nat → Int) (hz : ∀ j, clock j ≠ zeroUnix) (snaps : List (List Msg)) :
    pollFrom clock 0 {} (okRounds snaps) =
      (rounds clock snaps snaps.length ++ undoBefore clock snaps snaps.length, .errSource) := by
  have := pollFrom_spec clock hz snaps snaps 0 rfl
  simpa [stAfter, rounds, List.range_eq_range'] using this

/-- … and when the source fails in the round after the snapshots `snaps`, having delivered `msgs` -/
theorem pollFrom_rounds_fail (clock : Nat → Int) (hz : ∀ j, clock j ≠ zeroUnix) (snaps : List (List Msg))
    (msgs : List Msg) :
    pollFrom clock 0 {} (okRounds snaps ++ [(msgs, true)]) =
      (rounds clock snaps snaps.length ++ (undoBefore clock snaps snaps.length ++ body (clock snaps.length) msgs),
        .errSource) := by
  have := pollFrom_split clock hz snaps [(msgs, true)] snaps 0 rfl
  have h0 : stAfter clock snaps 0 = {} := rfl
  simpa [h0, rounds, List.range_eq_range', pollFrom, pollRetractions_eq clock hz, map_pollMsg] using this

/-! ## poll: consolidated output -/

theorem recs_map_data {α} (f : α → Rec) (l : List α) : recs (l.map fun a => .data (f a)) = l.map f := by
  induction l with
  | nil => rfl
  | cons a l ih => simp [recs, ih]

theorem recs_body (now : Int) (snap : List Msg) : recs (body now snap) = stamped now snap := by
  unfold body stamped
  induction snap with
  | nil => rfl
  | cons m ms ih => cases m <;> simp [recs, bodyMsg, ih]

/-- a record with the inverted flag weighs the opposite -/
def flip (et : Option Int) (r : Rec) : Rec := { vals := r.vals, retr := !r.retr, et := et }

theorem weight_flip (et : Option Int) (r : Rec) (row : Row) : (flip et r).weight row = - r.weight row := by
  unfold Rec.weight flip
  cases r.retr <;> simp <;> split <;> simp

theorem net_map_flip (et : Option Int) (l : List Rec) (row : Row) : net (l.map (flip et)) row = - net l row := by
  induction l with
  | nil => simp [net]
  | cons r l ih => simp only [List.map_cons, net, ih, weight_flip]; omega

theorem net_reverse (l : List Rec) (row : Row) : net l.reverse row = net l row := by
  induction l with
  | nil => rfl
  | cons r l ih => simp only [List.reverse_cons, net_append, ih, net]; omega

theorem recs_undo (prev now : Int) (snap : List Msg) :
    recs (undo prev now snap) = (stamped prev snap).reverse.map (flip (etOf now)) := by
  unfold undo; exact recs_map_data _ _

theorem net_undo (prev now : Int) (snap : List Msg) (row : Row) :
    net (recs (undo prev now snap)) row = - net (stamped prev snap) row := by
  rw [recs_undo, net_map_flip, net_reverse]

theorem recs_round (clock : Nat → Int) (snaps : List (List Msg)) (k : Nat) :
    recs (round clock snaps k) = recs (undoBefore clock snaps k) ++ stamped (clock k) (snaps.getD k []) := by
  simp [round, recs_append, recs_body, recs]

theorem rounds_succ (clock : Nat → Int) (snaps : List (List Msg)) (n : Nat) :
    rounds clock snaps (n + 1) = rounds clock snaps n ++ round clock snaps n := by
  simp [rounds, List.range_succ, List.flatMap_append]

/-- after round `n` (i.e. at its watermark) the consolidated output is exactly snapshot `n`, as reported -/
theorem net_rounds (clock : Nat → Int) (snaps : List (List Msg)) (n : Nat) (row : Row) :
    net (recs (rounds clock snaps (n + 1))) row = net (stamped (clock n) (snaps.getD n [])) row := by
  induction n with
  | zero => simp [rounds, recs_round, undoBefore, recs]
  | succ n ih =>
    rw [rounds_succ, recs_append, net_append, ih, recs_round, net_append]
    simp only [undoBefore, net_undo]
    omega

/-! ## poll: no late data, increasing watermarks -/

/-- all messages are records stamped `e` -/
def AllDataAt (e : Int) (a : List Msg) : Prop := ∀ m ∈ a, ∃ r, m = .data r ∧ r.et = some e

theorem timely_append_data (e : Int) (w : Option Int) (hw : ∀ W, w = some W → W < e) :
    ∀ (a b : List Msg), AllDataAt e a → Timely w b → Timely w (a ++ b) := by
  intro a b ha hb
  induction a with
  | nil => exact hb
  | cons m a ih =>
    obtain ⟨r, rfl, hr⟩ := ha m (by simp)
    refine ⟨fun W hW => ⟨e, hr, hw W hW⟩, ih (fun m hm => ha m (by simp [hm]))⟩

theorem etOf_ne (t : Int) (h : t ≠ zeroUnix) : etOf t = some t := by
  unfold etOf; rw [if_neg h]

theorem undo_allData (prev now : Int) (hn : now ≠ zeroUnix) (snap : List Msg) : AllDataAt now (undo prev now snap) := by
  intro m hm
  unfold undo at hm
  simp only [List.mem_map] at hm
  obtain ⟨r, _, rfl⟩ := hm
  exact ⟨_, rfl, etOf_ne now hn⟩

theorem body_allData (now : Int) (hn : now ≠ zeroUnix) (snap : List Msg) (hs : wms snap = []) :
    AllDataAt now (body now snap) := by
  induction snap with
  | nil => intro m hm; simp [body] at hm
  | cons x xs ih =>
    cases x with
    | wm w => simp [wms] at hs
    | data r =>
      intro m hm
      simp only [body, List.map_cons, List.mem_cons] at hm
      rcases hm with rfl | hm
      · exact ⟨_, rfl, etOf_ne now hn⟩
      · exact ih (by simpa [wms] using hs) m hm

/-- the watermark in force when round `k` starts -/
def wmBefore (clock : Nat → Int) : Nat → Option Int
  | 0 => none
  | j + 1 => some (clock j)

theorem undoBefore_allData (clock : Nat → Int) (hz : ∀ j, clock j ≠ zeroUnix) (snaps : List (List Msg)) (k : Nat) :
    AllDataAt (clock k) (undoBefore clock snaps k) := by
  cases k with
  | zero => intro m hm; simp [undoBefore] at hm
  | succ j => exact undo_allData _ _ (hz _) _

theorem allData_append {e a b} (ha : AllDataAt e a) (hb : AllDataAt e b) : AllDataAt e (a ++ b) := by
  intro m hm
  rcases List.mem_append.mp hm with h | h
  · exact ha m h
  · exact hb m h

theorem timely_from (clock : Nat → Int) (hz : ∀ j, clock j ≠ zeroUnix) (hinc : ∀ j, clock j < clock (j + 1))
    (snaps : List (List Msg)) (hs : ∀ k, wms (snaps.getD k []) = []) :
    ∀ (c k : Nat), Timely (wmBefore clock k)
      ((List.range' k c).flatMap (round clock snaps) ++ undoBefore clock snaps (k + c)) := by
  have hw : ∀ k W, wmBefore clock k = some W → W < clock k := by
    intro k W h
    cases k with
    | zero => simp [wmBefore] at h
    | succ j => simp only [wmBefore, Option.some.injEq] at h; subst h; exact hinc j
  intro c
  induction c with
  | zero =>
    intro k
    simpa using timely_append_data (clock k) _ (hw k) _ [] (undoBefore_allData clock hz snaps k) trivial
  | succ c ih =>
    intro k
    have h1 := ih (k + 1)
    have hk : k + 1 + c = k + (c + 1) := by omega
    rw [hk] at h1
    simp only [List.range'_succ, List.flatMap_cons, round, List.append_assoc]
    rw [← List.append_assoc]
    apply timely_append_data (clock k) _ (hw k) _ _
      (allData_append (undoBefore_allData clock hz snaps k) (body_allData _ (hz k) _ (hs k)))
    exact ⟨hw k, h1⟩

theorem timely_rounds (clock : Nat → Int) (hz : ∀ j, clock j ≠ zeroUnix) (hinc : ∀ j, clock j < clock (j + 1))
    (snaps : List (List Msg)) (hs : ∀ k, wms (snaps.getD k []) = []) (n : Nat) :
    Timely none (rounds clock snaps n ++ undoBefore clock snaps n) := by
  have := timely_from clock hz hinc snaps hs n 0
  simpa [rounds, List.range_eq_range', wmBefore] using this

/-! ## poll: the output is a valid changelog -/

/-- validity relative to what is already present: no prefix takes a row below zero -/
def ValidFrom (base : Row → Int) (l : List Rec) : Prop := ∀ m row, 0 ≤ base row + net (l.take m) row

theorem validLog_iff (l : List Rec) : ValidLog l ↔ ValidFrom (fun _ => 0) l := by
  unfold ValidLog ValidFrom; simp

theorem validFrom_append {base : Row → Int} {a b : List Rec} (ha : ValidFrom base a)
    (hb : ValidFrom (fun row => base row + net a row) b) : ValidFrom base (a ++ b) := by
  intro m row
  rw [List.take_append, net_append]
  by_cases h : m ≤ a.length
  · have : m - a.length = 0 := by omega
    rw [this]; simp only [List.take_zero, net_nil]; have := ha m row; omega
  · rw [List.take_of_length_le (by omega)]
    have := hb (m - a.length) row
    simp only at this; omega

theorem validFrom_nil {base : Row → Int} (h : ∀ row, 0 ≤ base row) : ValidFrom base [] := by
  intro m row; simp [net]; exact h row

/-- undoing a valid log newest-first never takes a row below zero -/
theorem validFrom_undo (L : List Rec) (hL : ValidLog L) (et : Option Int) :
    ValidFrom (net L) (L.reverse.map (flip et)) := by
  intro m row
  rw [← List.map_take, net_map_flip]
  have h1 : net L row = net (L.reverse.take m) row + net (L.reverse.drop m) row := by
    rw [← net_append, List.take_append_drop, net_reverse]
  have h2 : net (L.reverse.drop m) row = net (L.take (L.length - m)) row := by
    rw [List.drop_reverse, net_reverse]
  have := hL (L.length - m) row
  omega

def stamp (now : Int) (r : Rec) : Rec := { vals := .time now 0 :: r.vals, retr := r.retr, et := etOf now }

theorem weight_stamp_nil (now : Int) (r : Rec) : (stamp now r).weight [] = 0 := by
  simp [Rec.weight, stamp, rowEq, cmpListWith]

theorem weight_stamp_cons (now : Int) (r : Rec) (y : Value) (ys : List Value) :
    (stamp now r).weight (y :: ys) = if cmp (.time now 0) y = 0 then r.weight ys else 0 := by
  simp only [Rec.weight, stamp, rowEq, cmpListWith]
  by_cases h : cmp (.time now 0) y = 0
  · simp [h]; rfl
  · simp [h]

theorem net_stamp (now : Int) (l : List Rec) (row : Row) :
    net (l.map (stamp now)) row =
      match row with
      | [] => 0
      | y :: ys => if cmp (.time now 0) y = 0 then net l ys else 0 := by
  induction l with
  | nil => cases row <;> simp [net]
  | cons r l ih =>
    cases row with
    | nil => simp only [List.map_cons, net, weight_stamp_nil] at ih ⊢; omega
    | cons y ys =>
      simp only [List.map_cons, net, weight_stamp_cons] at ih ⊢
      rw [ih]; split <;> simp

theorem stamped_eq (now : Int) (snap : List Msg) : stamped now snap = (recs snap).map (stamp now) := rfl

theorem valid_stamped (now : Int) (snap : List Msg) (h : ValidLog (recs snap)) : ValidLog (stamped now snap) := by
  intro m row
  rw [stamped_eq, ← List.map_take, net_stamp]
  cases row with
  | nil => simp
  | cons y ys =>
    simp only
    split
    · exact h m ys
    · simp

/-- what is present when round `k` starts: snapshot `k − 1` as reported -/
def baseAt (clock : Nat → Int) (snaps : List (List Msg)) : Nat → Row → Int
  | 0 => fun _ => 0
  | j + 1 => net (stamped (clock j) (snaps.getD j []))

theorem baseAt_nonneg (clock : Nat → Int) (snaps : List (List Msg)) (hv : ∀ k, ValidLog (recs (snaps.getD k [])))
    (k : Nat) (row : Row) : 0 ≤ baseAt clock snaps k row := by
  cases k with
  | zero => simp [baseAt]
  | succ j =>
    have := valid_stamped (clock j) _ (hv j) (stamped (clock j) (snaps.getD j [])).length row
    simpa [baseAt] using this

theorem valid_undoBefore (clock : Nat → Int) (snaps : List (List Msg)) (hv : ∀ k, ValidLog (recs (snaps.getD k [])))
    (k : Nat) : ValidFrom (baseAt clock snaps k) (recs (undoBefore clock snaps k)) := by
  cases k with
  | zero => exact validFrom_nil (fun _ => by simp [baseAt])
  | succ j =>
    simp only [undoBefore, recs_undo, baseAt]
    exact validFrom_undo _ (valid_stamped _ _ (hv j)) _

theorem base_after_undo (clock : Nat → Int) (snaps : List (List Msg)) (k : Nat) :
    (fun row => baseAt clock snaps k row + net (recs (undoBefore clock snaps k)) row) = fun _ => 0 := by
  funext row
  cases k with
  | zero => simp [baseAt, undoBefore, recs, net]
  | succ j => simp only [baseAt, undoBefore, net_undo]; omega

theorem valid_from (clock : Nat → Int) (snaps : List (List Msg)) (hv : ∀ k, ValidLog (recs (snaps.getD k []))) :
    ∀ (c k : Nat), ValidFrom (baseAt clock snaps k)
      (recs ((List.range' k c).flatMap (round clock snaps) ++ undoBefore clock snaps (k + c))) := by
  intro c
  induction c with
  | zero => intro k; simpa using valid_undoBefore clock snaps hv k
  | succ c ih =>
    intro k
    have h1 := ih (k + 1)
    have hk : k + 1 + c = k + (c + 1) := by omega
    rw [hk] at h1
    simp only [List.range'_succ, List.flatMap_cons, recs_append, recs_round, List.append_assoc]
    apply validFrom_append (valid_undoBefore clock snaps hv k)
    rw [base_after_undo]
    apply validFrom_append ((validLog_iff _).mp (valid_stamped _ _ (hv k)))
    have : (fun row => (0 : Int) + net (stamped (clock k) (snaps.getD k [])) row) = baseAt clock snaps (k + 1) := by
      funext row; simp [baseAt]
    rw [this]
    simpa [recs_append] using h1

/-- the output of poll is a valid changelog whenever every snapshot of the source is one -/
theorem valid_rounds (clock : Nat → Int) (snaps : List (List Msg)) (hv : ∀ k, ValidLog (recs (snaps.getD k [])))
    (n : Nat) : ValidLog (recs (rounds clock snaps n ++ undoBefore clock snaps n)) := by
  have := valid_from clock snaps hv n 0
  rw [validLog_iff]
  simpa [rounds, List.range_eq_range', baseAt] using this

/-! ## declared schema vs. field lookup; what tumble preserves; the panic prefix -/

/-! schema / lookup -/
theorem lookupIdx_of_find (name : String) : ∀ (fields : List (String × FTy)) (i : Nat),
    findTimeField name fields = .ok true →
    ∃ j, lookupIdx name fields i = i + j ∧ fields[j]? = some (name, .time) := by
  intro fields
  induction fields with
  | nil => intro i h; simp [findTimeField] at h
  | cons f rest ih =>
    intro i h
    obtain ⟨n, t⟩ := f
    unfold findTimeField at h
    by_cases hn : n = name
    · subst hn
      simp only [ne_eq, not_true_eq_false, if_false] at h
      by_cases ht : t = .time
      · subst ht
        exact ⟨0, by simp [lookupIdx], by simp⟩
      · simp [ht] at h
    · simp only [ne_eq, hn, not_false_eq_true, if_true] at h
      obtain ⟨j, h1, h2⟩ := ih (i + 1) h
      refine ⟨j + 1, ?_, by simpa using h2⟩
      simp only [lookupIdx, hn, if_false, h1]; omega

/-- Timely is preserved -/
theorem tumbleOk_timely {idx len off} : ∀ {ms out : List Msg} (w : Option Int), TumbleOk idx len off ms out →
    Timely w ms → Timely w out
  | [], [], _, _, _ => trivial
  | .wm t :: _, .wm t' :: _, w, h, ht => by
    have h1 : t' = t := h.1
    subst h1
    exact ⟨ht.1, tumbleOk_timely _ h.2 ht.2⟩
  | .data r :: _, .data r' :: _, w, h, ht => by
    have h1 : TumbleRecOk idx len off r r' := h.1
    refine ⟨?_, tumbleOk_timely _ h.2 ht.2⟩
    intro W hW
    rw [h1.2.1]
    exact ht.1 W hW
  | .wm _ :: _, .data _ :: _, _, h, _ => by simp [TumbleOk, TumbleMsgOk] at h
  | .data _ :: _, .wm _ :: _, _, h, _ => by simp [TumbleOk, TumbleMsgOk] at h
  | [], _ :: _, _, h, _ => by simp [TumbleOk] at h
  | _ :: _, [], _, h, _ => by simp [TumbleOk] at h

theorem tumbleOk_no_retractions {idx len off} : ∀ {ms out : List Msg}, TumbleOk idx len off ms out →
    (∀ r ∈ recs ms, r.retr = false) → ∀ r ∈ recs out, r.retr = false
  | [], [], _, _ => by simp [recs]
  | .wm _ :: _, .wm _ :: _, h, hm => by
    simp only [recs] at hm ⊢
    exact tumbleOk_no_retractions h.2 hm
  | .data r :: _, .data r' :: _, h, hm => by
    have h1 : TumbleRecOk idx len off r r' := h.1
    simp only [recs, List.mem_cons, forall_eq_or_imp] at hm ⊢
    exact ⟨by rw [h1.1]; exact hm.1, tumbleOk_no_retractions h.2 hm.2⟩
  | .wm _ :: _, .data _ :: _, h, _ => by simp [TumbleOk, TumbleMsgOk] at h
  | .data _ :: _, .wm _ :: _, h, _ => by simp [TumbleOk, TumbleMsgOk] at h
  | [], _ :: _, h, _ => by simp [TumbleOk] at h
  | _ :: _, [], h, _ => by simp [TumbleOk] at h

/-- the first record without a value at the index: everything before it is emitted, then the panic -/
theorem tumbleMsgs_panic (c : TumbleCfg) (idx : Nat) (hc : c.idx = idx) (hlen : 0 < c.len)
    (h1 : minI64 < c.off) (h2 : c.off ≤ maxI64) (pre post : List Msg) (r : Rec) (ht : Timed idx pre)
    (hr : r.vals[idx]? = none) :
    (tumbleMsgs c (pre ++ .data r :: post)).2 = .panic ∧
    TumbleOk idx c.len c.off pre (tumbleMsgs c (pre ++ .data r :: post)).1 := by
  induction pre with
  | nil =>
    have : tumbleRec c r = none := by
      unfold tumbleRec; rw [if_neg (by omega), hc, Int.toNat_natCast, hr]
    simp [tumbleMsgs, this, TumbleOk]
  | cons m pre ih =>
    cases m with
    | wm w =>
      have := ih ht
      simp [tumbleMsgs, TumbleOk, TumbleMsgOk, this]
    | data r0 =>
      obtain ⟨⟨t, loc, hv⟩, ht'⟩ := ht
      obtain ⟨r', hr', hok⟩ := tumbleRec_spec c idx hc hlen h1 h2 r0 t loc hv
      have := ih ht'
      simp [tumbleMsgs, hr', TumbleOk, TumbleMsgOk, this, hok]

end Octo.Tvf
