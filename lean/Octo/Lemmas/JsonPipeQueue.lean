import Octo.Lemmas.JsonPipeChain
import Octo.Lemmas.JsonPipePc
/-! The consumer's reorder queue: relation between `startIndex`, `pending` and the processed batches `got`,
for batches that come from one chain of consecutive intervals, in any arrival order. -/
namespace Octo.JsonPipe

/-- the queue facts, relative to the set `G` of batches processed so far -/
structure QFacts (G : List Job) (start : Nat) (pending : List Job) : Prop where
  pendGot : ∀ j, j ∈ pending → j ∈ G
  emitted : ∀ j, j ∈ G → j ∈ pending ∨ j.first + j.n ≤ start
  ahead : ∀ j, j ∈ pending → start < j.first ∨ j.first + j.n ≤ start
  boundary : start = 0 ∨ ∃ e, e ∈ G ∧ start = e.first + e.n

theorem flush_spec {S G : List Job} {b : Nat} (hchain : Chain 0 S b) (hGS : ∀ j, j ∈ G → j ∈ S)
    (fuel : Nat) (P : Pipe)
    (hpend : ∀ j, j ∈ P.pending → j ∈ G)
    (hem : ∀ j, j ∈ G → j ∈ P.pending ∨ j.first + j.n ≤ P.startIndex)
    (hah : ∀ j, j ∈ P.pending → P.startIndex ≤ j.first ∨ j.first + j.n ≤ P.startIndex)
    (hbd : P.startIndex = 0 ∨ ∃ e, e ∈ G ∧ P.startIndex = e.first + e.n)
    (hfuel : P.pending.length ≤ fuel) (hns : (flush fuel P).2 = false) :
    QFacts G (flush fuel P).1.startIndex (flush fuel P).1.pending := by
  induction fuel generalizing P with
  | zero =>
    have : P.pending = [] := List.eq_nil_of_length_eq_zero (by omega)
    simp only [flush]
    refine ⟨hpend, hem, fun j hj => ?_, hbd⟩
    rw [this] at hj; simp at hj
  | succ n ih =>
    simp only [flush] at hns ⊢
    split at hns
    · rename_i hnone
      refine ⟨hpend, hem, fun j hj => ?_, hbd⟩
      have := findStart_none hnone j hj
      show P.startIndex < j.first ∨ j.first + j.n ≤ P.startIndex
      rcases hah j hj with h | h
      · left; omega
      · right; exact h
    · rename_i k rest hsome
      obtain ⟨hk, hkf, hsub, hsplit, hlen⟩ := findStart_some hsome
      split at hns
      · simp at hns
      · rename_i hstop
        apply ih _ _ _ _ _ _ hns
        · intro j hj; exact hpend j (hsub j hj)
        · intro j hj
          rcases hem j hj with h | h
          · rcases hsplit j h with rfl | h
            · right; simp only; omega
            · left; exact h
          · right; simp only; omega
        · intro j hj
          have hjp := hsub j hj
          simp only
          rcases hah j hjp with h | h
          · by_cases heq : P.startIndex = j.first
            · right
              have := chain_same_first hchain (hGS k (hpend k hk)) (hGS j (hpend j hjp)) (by omega)
              omega
            · left
              have := chain_order hchain (hGS k (hpend k hk)) (hGS j (hpend j hjp)) (by omega)
              omega
          · right; omega
        · right; exact ⟨k, hpend k hk, by simp only; omega⟩
        · simp only; omega

end Octo.JsonPipe

namespace Octo.JsonPipe

/-- end of the last submitted batch -/
def subEnd (P : Pipe) : Nat := P.nextLine + (if P.rpc = .write then P.cur else 0)

/-- the consumer is inside `produceLoop` -/
def inLoop (P : Pipe) : Prop := P.cpc = .sel ∨ (∃ j, P.cpc = .tok j) ∨ (∃ j, P.cpc = .proc j)

structure QInv (p : Nat) (P : Pipe) : Prop where
  chain : Chain 0 P.sub (subEnd P)
  subPipe : ∀ j, j ∈ P.sub → j.pipe = p
  gotSub : ∀ j, j ∈ P.got → j ∈ P.sub
  queue : inLoop P → QFacts P.got P.startIndex P.pending

theorem qinv_init (p : Nat) {P : Pipe} (h : P.IsInit) : QInv p P := by
  obtain ⟨lines, batch, se, bad, st, hb, rfl⟩ := h
  refine ⟨?_, by simp [Pipe.init], by simp [Pipe.init], fun _ => ⟨by simp [Pipe.init], by simp [Pipe.init], by simp [Pipe.init], Or.inl rfl⟩⟩
  simp only [Pipe.init, subEnd, Chain]
  split <;> simp

theorem procCont_qfacts {P Q : Pipe} {j : Job} {b : Nat} (hc : ProcCont P j Q) (hchain : Chain 0 P.sub b)
    (hgs : ∀ x, x ∈ P.got → x ∈ P.sub) (hj : j ∈ P.sub) (hq : QFacts P.got P.startIndex P.pending) :
    QFacts Q.got Q.startIndex Q.pending := by
  cases hc with
  | buffer h1 =>
    refine ⟨fun x hx => ?_, fun x hx => ?_, fun x hx => ?_, ?_⟩
    · rcases List.mem_cons.mp hx with rfl | hx
      · simp
      · simp [hq.pendGot x hx]
    · rcases List.mem_cons.mp hx with rfl | hx
      · left; simp
      · rcases hq.emitted x hx with h | h
        · left; simp [h]
        · right; exact h
    · rcases List.mem_cons.mp hx with rfl | hx
      · left; exact h1
      · exact hq.ahead x hx
    · rcases hq.boundary with h | ⟨e, he, h⟩
      · left; exact h
      · right; exact ⟨e, by simp [he], h⟩
  | emit h1 h2 =>
    have hG : ∀ x, x ∈ j :: P.got → x ∈ P.sub := by
      intro x hx
      rcases List.mem_cons.mp hx with rfl | hx
      · exact hj
      · exact hgs x hx
    have key := flush_spec (G := j :: P.got) hchain hG P.pending.length
      { P with produced := P.produced + j.n, startIndex := P.startIndex + j.n }
      (fun x hx => by simp [hq.pendGot x hx])
      (fun x hx => by
        rcases List.mem_cons.mp hx with rfl | hx
        · right; simp only; omega
        · rcases hq.emitted x hx with h | h
          · left; exact h
          · right; simp only; omega)
      (fun x hx => by
        simp only
        rcases hq.ahead x hx with h | h
        · left
          have := chain_order hchain hj (hgs x (hq.pendGot x hx)) (by omega)
          omega
        · right; omega)
      (Or.inr ⟨j, by simp, by simp only; omega⟩)
      (Nat.le_refl _) h2
    have hgot := (flush_frame P.pending.length { P with produced := P.produced + j.n, startIndex := P.startIndex + j.n }).2.2
    simp only at hgot ⊢
    rw [hgot]
    exact key

theorem qinv_step {p : Nat} {P P' : Pipe} (hpi : PInv P) (h : QInv p P) (hheld : ∀ j, P.cpc = .proc j → j ∈ P.sub)
    (hs : PipeStep p P P') : QInv p P' := by
  obtain ⟨h1, h2, h3, h4⟩ := h
  cases hs with
  | rTok a b =>
    refine ⟨?_, h2, h3, h4⟩
    simpa [subEnd, a] using h1
  | rStop a b =>
    refine ⟨?_, h2, h3, h4⟩
    simpa [subEnd, a] using h1
  | rSub a =>
    have hu := hpi.unreadPos (Or.inr (Or.inl a))
    have hb := hpi.batchPos
    have hcur : 1 ≤ P.cur := by simp only [Pipe.cur]; omega
    refine ⟨?_, ?_, fun j hj => by simp [h3 j hj], h4⟩
    · simp only [subEnd, a] at h1
      simp only [subEnd, if_true, Pipe.cur]
      have := chain_append (by simpa using h1) p P.cur hcur
      simpa [Pipe.cur] using this
    · intro j hj
      simp only [List.mem_append, List.mem_singleton] at hj
      rcases hj with hj | rfl
      · exact h2 j hj
      · rfl
  | rWrite a =>
    refine ⟨?_, h2, h3, h4⟩
    simp only [subEnd, a, if_true] at h1
    simp only [subEnd]
    by_cases h0 : P.unread - P.cur = 0 <;> simpa [h0] using h1
  | rDone a =>
    refine ⟨?_, h2, h3, h4⟩
    simpa [subEnd, a] using h1
  | wSend j a => exact ⟨h1, h2, h3, h4⟩
  | cRecv k j rest a b => exact ⟨h1, h2, h3, fun _ => h4 (Or.inl a)⟩
  | cTok j a b => exact ⟨h1, h2, h3, fun _ => h4 (Or.inr (Or.inl ⟨j, a⟩))⟩
  | cProc j a =>
    obtain ⟨fr, _⟩ := procBatch_frame P j
    have hq := h4 (Or.inr (Or.inr ⟨j, a⟩))
    have hj := hheld j a
    have hsub : (procBatch P j).sub = P.sub := fr.sub
    have hend : subEnd (procBatch P j) = subEnd P := by simp [subEnd, fr.nextLine, fr.rpc, Pipe.cur, fr.batch, fr.unread]
    rcases procBatch_cases P j with ⟨hr, hg⟩ | ⟨Q, hc, he⟩
    · refine ⟨by rw [hsub, hend]; exact h1, by rw [hsub]; exact h2, by rw [hsub, hg]; exact h3, ?_⟩
      intro hl
      rcases hl with hl | ⟨x, hl⟩ | ⟨x, hl⟩ <;> rw [hr] at hl <;> contradiction
    · have hgq := procCont_got hc
      have hfg := finishBatch_got Q
      refine ⟨by rw [hsub, hend]; exact h1, by rw [hsub]; exact h2, ?_, ?_⟩
      · rw [hsub, he, hfg.1, hgq]
        intro x hx
        rcases List.mem_cons.mp hx with rfl | hx
        · exact hj
        · exact h3 x hx
      · intro _
        rw [he, hfg.1, hfg.2.1, hfg.2.2]
        exact procCont_qfacts hc h1 h3 hj hq
  | cDoneErr a b c =>
    refine ⟨h1, h2, h3, fun hl => ?_⟩
    rcases hl with hl | ⟨x, hl⟩ | ⟨x, hl⟩ <;> simp at hl
  | cDoneOk a b c =>
    split
    · refine ⟨h1, h2, h3, fun hl => ?_⟩
      rcases hl with hl | ⟨x, hl⟩ | ⟨x, hl⟩ <;> simp at hl
    · exact ⟨h1, h2, h3, fun _ => h4 (Or.inl a)⟩
  | cCtx a b =>
    refine ⟨h1, h2, h3, fun hl => ?_⟩
    rcases hl with hl | ⟨x, hl⟩ | ⟨x, hl⟩ <;> simp at hl
  | cCancel a =>
    refine ⟨h1, h2, h3, fun hl => ?_⟩
    rcases hl with hl | ⟨x, hl⟩ | ⟨x, hl⟩ <;> simp at hl
  | pCancel a => exact ⟨h1, h2, h3, h4⟩
  | rTrunc u a b c =>
    refine ⟨?_, h2, h3, h4⟩
    simp only [subEnd] at h1 ⊢
    rcases c with c | ⟨c | c, hcur⟩
    · by_cases hu : u = 0
      · simpa [c, hu] using h1
      · simpa [c, hu] using h1
    · simpa [c] using h1
    · simp only [c, if_true, Pipe.cur] at h1 hcur ⊢
      have hb := hpi.batchPos
      have : min P.batch u = min P.batch P.unread := by omega
      simp only [reduceCtorEq, false_and, if_false, if_true, this]
      exact h1

end Octo.JsonPipe
