import Octo.Lemmas.SqlExpr
/-!
# Round trip of table expressions (C30)
-/
set_option linter.unusedSimpArgs false
namespace Octo.SqlSyn

/-- tokens that may follow a table factor: what may follow a table reference, or the start of a join -/
def followFactor : List Tok → Bool
  | [] => true
  | t :: _ => stopT t || isJoinStart t

theorem followFactor_of_followT {rest : List Tok} (h : followT rest = true) : followFactor rest = true := by
  cases rest with
  | nil => rfl
  | cons t ts => simp [followT] at h; simp [followFactor, h]

theorem stopT_level {t : Tok} (h : stopT t = true) : tokLevel t = 0 := by
  unfold stopT at h; split at h <;> simp_all [tokLevel]
theorem joinStart_level {t : Tok} (h : isJoinStart t = true) : tokLevel t = 0 := by
  unfold isJoinStart at h; split at h <;> simp_all [tokLevel]

theorem follow1_of_followFactor {rest : List Tok} (h : followFactor rest = true) : follow 1 rest = true := by
  cases rest with
  | nil => rfl
  | cons t ts =>
    simp [followFactor] at h
    rcases h with h | h
    · simp [follow, stopT_level h]
    · simp [follow, joinStart_level h]

theorem aliasOf_none_of_followFactor {t : Tok} (h : stopT t = true ∨ isJoinStart t = true) :
    aliasOf t = none ∧ t ≠ Tok.kw .AS ∧ t ≠ Tok.kw .DOT ∧ t ≠ Tok.kw .LPAREN := by
  rcases h with h | h
  · unfold stopT at h; split at h <;> simp_all [aliasOf]
  · unfold isJoinStart at h; split at h <;> simp_all [aliasOf]

theorem aliasOpt_none_factor {rest : List Tok} (h : followFactor rest = true) :
    parseAliasOpt rest = some ("", rest) := by
  cases rest with
  | nil => rfl
  | cons t ts =>
    simp [followFactor] at h
    obtain ⟨h1, h2, _, _⟩ := aliasOf_none_of_followFactor h
    simp [parseAliasOpt, h1, h2]

theorem headIs_false_factor {rest : List Tok} (h : followFactor rest = true) :
    headIs .DOT rest = false ∧ headIs .LPAREN rest = false := by
  cases rest with
  | nil => simp [headIs_nil]
  | cons t ts =>
    simp [followFactor] at h
    obtain ⟨_, _, h3, h4⟩ := aliasOf_none_of_followFactor h
    simp [headIs_cons, h3, h4]

theorem okTs_mem {ts : List Tbl} (h : okTs ts = true) : ∀ x ∈ ts, okT x = true := by
  induction ts with
  | nil => simp
  | cons e es ih =>
    simp [okTs] at h
    intro x hx
    simp at hx
    rcases hx with rfl | hx
    · exact h.1
    · exact ih h.2 x hx
theorem okArgs_mem {ts : List Tbl} (h : okArgs ts = true) : ∀ x ∈ ts, okArg x = true := by
  induction ts with
  | nil => simp
  | cons e es ih =>
    simp [okArgs] at h
    intro x hx
    simp at hx
    rcases hx with rfl | hx
    · exact h.1
    · exact ih h.2 x hx
theorem depthTs_mem {ts : List Tbl} {d : Nat} (h : depthTs ts ≤ d) : ∀ x ∈ ts, depthT x ≤ d := by
  induction ts with
  | nil => simp
  | cons e es ih =>
    simp [depthTs] at h
    intro x hx
    simp at hx
    rcases hx with rfl | hx
    · omega
    · exact ih (by omega) x hx
theorem sizeT_pos (t : Tbl) : 0 < sizeT t := by cases t <;> simp [sizeT]

/-- a printed table reference starts with an identifier or `(` -/
theorem tbl_head : ∀ n t, sizeT t ≤ n → okT t = true →
    ∃ tk ts, printT t = tk :: ts ∧ ((∃ s, tk = Tok.id s) ∨ tk = Tok.kw .LPAREN) := by
  intro n
  induction n with
  | zero => intro t h; have := sizeT_pos t; omega
  | succ n ih =>
    intro t hsz hok
    cases t with
    | table q name as_ =>
      simp [okT] at hok
      by_cases hq : q = ""
      · subst hq
        exact ⟨_, _, by rw [printT_table, printTableName_1 name hok]; rfl, Or.inl ⟨_, rfl⟩⟩
      · exact ⟨_, _, by rw [printT_table, printTableName_2 q name hq hok]; rfl, Or.inl ⟨_, rfl⟩⟩
    | sub s as_ =>
      simp [okT] at hok
      exact ⟨_, _, printT_sub s as_ hok.2, Or.inr rfl⟩
    | paren ts => exact ⟨_, _, printT_paren ts, Or.inr rfl⟩
    | join l strat kind r on us =>
      simp [okT] at hok
      simp [sizeT] at hsz
      obtain ⟨tk, ts, h1, h2⟩ := ih l (by omega) hok.1.1.1.1
      exact ⟨tk, ts ++ (joinToks strat kind ++ (printT r ++ printJoinCond on us)), by simp [printT_join, h1], h2⟩
    | tvf name args as_ =>
      simp [okT] at hok
      exact ⟨_, _, printT_tvf name args as_ hok.1.1 hok.1.2, Or.inl ⟨_, rfl⟩⟩
    | argE _ _ => simp [okT] at hok
    | argT _ _ => simp [okT] at hok
    | argD _ _ _ _ => simp [okT] at hok

theorem startsSelect_tbl (t : Tbl) (hok : okT t = true) (tl : List Tok) : startsSelect (printT t ++ tl) = false := by
  obtain ⟨tk, ts, h1, h2⟩ := tbl_head _ t (Nat.le_refl _) hok
  rw [h1]
  rcases h2 with ⟨s, rfl⟩ | rfl <;> simp [startsSelect]

section level
variable {prev : Parsers} {d : Nat} (hp : PrevOK prev d)
include hp

theorem aliasMust_rt (a : String) (rest : List Tok) :
    parseAliasMust (Tok.kw .AS :: Tok.id a :: rest) = some (a, rest) := by
  simp [parseAliasMust, identOf]

theorem tableNameRest_rt (q name as_ : String) (hn : name ≠ "") (rest : List Tok) (hf : followFactor rest = true) :
    ∃ t tl, printT (.table q name as_) = Tok.id t :: tl ∧
      parseTableNameRest t (tl ++ rest) = some (.table q name as_, rest) ∧
      (headIs .LPAREN (tl ++ rest) = false) := by
  have hdl := headIs_false_factor hf
  by_cases hq : q = ""
  · subst hq
    by_cases ha : as_ = ""
    · subst ha
      refine ⟨name, [], by simp [printT_table, printTableName_1 name hn, printAliasOpt], ?_, by simpa using hdl.2⟩
      simp [parseTableNameRest, hdl.1, aliasOpt_none_factor hf]
    · refine ⟨name, [Tok.kw .AS, Tok.id as_], by simp [printT_table, printTableName_1 name hn, printAliasOpt, ha], ?_,
        by simp [headIs_cons]⟩
      simp [parseTableNameRest, headIs_cons, parseAliasOpt, aliasOf]
  · by_cases ha : as_ = ""
    · subst ha
      refine ⟨q, [Tok.kw .DOT, Tok.id name], by simp [printT_table, printTableName_2 q name hq hn, printAliasOpt], ?_,
        by simp [headIs_cons]⟩
      simp [parseTableNameRest, headIs_cons, identOf, aliasOpt_none_factor hf]
    · refine ⟨q, [Tok.kw .DOT, Tok.id name, Tok.kw .AS, Tok.id as_],
        by simp [printT_table, printTableName_2 q name hq hn, printAliasOpt, ha], ?_, by simp [headIs_cons]⟩
      simp [parseTableNameRest, headIs_cons, identOf, parseAliasOpt, aliasOf]

/-- one printed table valued function argument -/
theorem tvfArg_rt (a : Tbl) (hok : okArg a = true) (hd : depthT a ≤ d) (rest : List Tok)
    (hf : ∃ ts, rest = Tok.kw .RPAREN :: ts ∨ rest = Tok.kw .COMMA :: ts) :
    parseTvfArg prev (printT a ++ rest) = some (a, rest) := by
  have hf1 : follow 1 rest = true := by
    rcases hf with ⟨ts, rfl | rfl⟩ <;> simp [follow, tokLevel]
  cases a with
  | argE name e =>
    simp [okArg] at hok
    simp [depthT] at hd
    obtain ⟨t, ts, hh, hst⟩ := print_head _ e (Nat.le_refl _) hok.1.2 hok.2
    have h1 : ∀ tl, headIs .TABLE (printE e ++ tl) = false := by
      intro tl; rw [hh]; simp [headIs_cons]; intro h; subst h; simp [exprStart] at hst
    have h2 : ∀ tl, headIs .DESCRIPTOR (printE e ++ tl) = false := by
      intro tl; rw [hh]; simp [headIs_cons]; intro h; subst h; simp [exprStart] at hst
    have h3 := hp.expr e hok.1.2 hok.2 hd rest hf1
    simp [printT_argE name e hok.1.1, parseTvfArg, identOf, h1, h2, h3]
  | argT name t =>
    simp [okArg] at hok
    simp [depthT] at hd
    have h3 := hp.tbl t hok.2 hd (Tok.kw .RPAREN :: rest) (by simp [followT, stopT]) (by simp [headIs_cons])
    simp [printT_argT name t hok.1, parseTvfArg, identOf, headIs_cons, h3]
  | argD name q2 q1 c =>
    simp [okArg] at hok
    by_cases h1 : q1 = ""
    · have h2 : q2 = "" := by rcases hok.2 with h | h; exact h; exact absurd h1 h
      subst h1; subst h2
      simp [printT_argD name "" "" c hok.1.1, printColName_1 c hok.1.2, parseTvfArg, identOf, headIs_cons,
        parseColumnName]
    · by_cases h2 : q2 = ""
      · subst h2
        simp [printT_argD name "" q1 c hok.1.1, printColName_2 q1 c h1 hok.1.2, parseTvfArg, identOf, headIs_cons,
          parseColumnName]
      · simp [printT_argD name q2 q1 c hok.1.1, printColName_3 q2 q1 c h2 h1 hok.1.2, parseTvfArg, identOf, headIs_cons,
          parseColumnName]
  | _ => simp [okArg] at hok

omit hp in
theorem depthTs_mem_lt {ts : List Tbl} {d : Nat} (h : depthTs ts < d) : ∀ x ∈ ts, depthT x < d := by
  intro x hx
  have := depthTs_mem (Nat.le_refl (depthTs ts)) x hx
  omega

/-- `table_factor` -/
theorem tblFactor_rt (t : Tbl) (hok : okT t = true) (hfac : t.isFactor = true) (hd : depthT t ≤ d) (rest : List Tok)
    (hf : followFactor rest = true) : parseTableFactor prev (printT t ++ rest) = some (t, rest) := by
  cases t with
  | table q name as_ =>
    simp [okT] at hok
    obtain ⟨t, tl, h1, h2, h3⟩ := tableNameRest_rt hp q name as_ hok rest hf
    rw [h1]
    simp [parseTableFactor, h3, h2]
  | sub s as_ =>
    simp [okT] at hok
    simp [depthT] at hd
    have hb := subqueryBody_rt hp s hok.1.1 hok.1.2 hd (Tok.kw .AS :: Tok.id as_ :: rest)
    simp [printT_sub s as_ hok.2, parseTableFactor, parseTableParenRest, startsSelect_printS hp s hok.1.2, hb,
      aliasMust_rt hp]
  | paren ts =>
    simp [okT] at hok
    simp [depthT] at hd
    match ts, hok with
    | x :: xs, hok =>
      have h := sepBy1_rt prev.tbl printT (fun t => okT t = true ∧ depthT t < d)
        (fun r => ∃ ts, r = Tok.kw .RPAREN :: ts)
        (by
          intro t ⟨h1, h3⟩ r hr
          apply hp.tbl t h1 h3
          · rcases hr with ⟨ts, rfl⟩ | ⟨ts, rfl⟩ <;> simp [followT, stopT]
          · intro _; rcases hr with ⟨ts, rfl⟩ | ⟨ts, rfl⟩ <;> simp [headIs_cons])
        (by intro t ts ⟨ts', h⟩; cases h; simp)
        x xs
        (by intro y hy; exact ⟨okTs_mem hok.1 y hy, depthTs_mem_lt hd y hy⟩)
        (Tok.kw .RPAREN :: rest) ⟨rest, rfl⟩
      rw [← printTs_eq_map] at h
      simp [printT_paren, printTs, run_TableExprs_cons, parseTableFactor, parseTableParenRest,
        startsSelect_tbl x (okTs_mem hok.1 x (by simp)), h]
  | tvf name args as_ =>
    simp [okT] at hok
    simp [depthT] at hd
    cases args with
    | nil =>
      simp [printT_tvf name [] as_ hok.1.1 hok.1.2, printTs, run_TvfArgs_nil, parseTableFactor, headIs_cons, parseTvfRest,
        aliasMust_rt hp]
    | cons x xs =>
      have h := sepBy1_rt (parseTvfArg prev) printT (fun t => okArg t = true ∧ depthT t ≤ d)
        (fun r => ∃ ts, r = Tok.kw .RPAREN :: ts)
        (by
          intro t ⟨h1, h3⟩ r hr
          apply tvfArg_rt hp t h1 h3
          rcases hr with ⟨ts, rfl⟩ | ⟨ts, rfl⟩
          · exact ⟨ts, Or.inl rfl⟩
          · exact ⟨ts, Or.inr rfl⟩)
        (by intro t ts ⟨ts', h⟩; cases h; simp)
        x xs
        (by intro y hy; exact ⟨okArgs_mem hok.2 y hy, depthTs_mem hd y hy⟩)
        (Tok.kw .RPAREN :: Tok.kw .AS :: Tok.id as_ :: rest) ⟨_, rfl⟩
      rw [← printTs_eq_map] at h
      have hx : ∃ s tl, printT x = Tok.id s :: tl := by
        have := okArgs_mem hok.2 x (by simp)
        cases x with
        | argE n e => simp [okArg] at this; exact ⟨_, _, printT_argE n e this.1.1⟩
        | argT n t => simp [okArg] at this; exact ⟨_, _, printT_argT n t this.1⟩
        | argD n q2 q1 c => simp [okArg] at this; exact ⟨_, _, printT_argD n q2 q1 c this.1.1⟩
        | _ => simp [okArg] at this
      obtain ⟨s, tl, hxs⟩ := hx
      have hnr : ∀ tl', headIs .RPAREN (printT x ++ tl') = false := by
        intro tl'; rw [hxs]; simp [headIs_cons]
      simp [printT_tvf name (x :: xs) as_ hok.1.1 hok.1.2, printTs, run_TvfArgs_cons, parseTableFactor, headIs_cons,
        parseTvfRest, hnr, h, aliasMust_rt hp]
  | join _ _ _ _ _ _ => simp [Tbl.isFactor] at hfac
  | argE _ _ => simp [okT] at hok
  | argT _ _ => simp [okT] at hok
  | argD _ _ _ _ => simp [okT] at hok

omit hp in
theorem map_printId {us : List String} (h : nonEmptyAll us = true) : us.map printId = us.map (fun c => [Tok.id c]) := by
  induction us with
  | nil => rfl
  | cons c cs ih =>
    simp [nonEmptyAll] at h
    simp [printId, h.1, ih h.2]

omit hp in
theorem colIdents_rt (c : String) (cs : List String) (rest : List Tok) :
    sepBy1 parseColIdent ([Tok.id c] ++ (ListFmt.items [Tok.kw .COMMA] (cs.map (fun c => [Tok.id c])) ++
      Tok.kw .RPAREN :: rest)) = some (c :: cs, Tok.kw .RPAREN :: rest) :=
  sepBy1_rt parseColIdent (fun c => [Tok.id c]) (fun _ => True) (fun r => ∃ ts, r = Tok.kw .RPAREN :: ts)
    (by intro x _ r _; simp [parseColIdent, identOf])
    (by intro t ts ⟨ts', h⟩; cases h; simp)
    c cs (by intro _ _; trivial) (Tok.kw .RPAREN :: rest) ⟨rest, rfl⟩

/-- `join_condition_opt` -/
theorem joinCond_rt (on : Option Expr) (us : List String) (hon : okOE on = true) (hus : nonEmptyAll us = true)
    (hone : on.isNone = true ∨ us.isEmpty = true) (hd : depthOE on ≤ d) (rest : List Tok)
    (hf : followFactor rest = true)
    (hopen : on.isNone = true → us.isEmpty = true → headIs .ON rest = false ∧ headIs .USING rest = false) :
    parseJoinCondOpt prev (printJoinCond on us ++ rest) = some ((on, us), rest) := by
  cases on with
  | some e =>
    have hu : us = [] := by
      rcases hone with h | h
      · simp at h
      · simpa using h
    subst hu
    simp [okOE] at hon
    simp [depthOE] at hd
    have h := rt1 hp e hon.1 hon.2 hd rest (follow1_of_followFactor hf)
    simp [printJoinCond, parseJoinCondOpt, headIs_cons, h]
  | none =>
    cases us with
    | nil =>
      have := hopen rfl rfl
      simp [printJoinCond, parseJoinCondOpt, this.1, this.2]
    | cons c cs =>
      have h := colIdents_rt c cs rest
      simp only [List.singleton_append] at h
      simp [printJoinCond, map_printId hus, run_Columns_cons, parseJoinCondOpt, headIs_cons, h]

omit hp in
/-- the join keywords -/
theorem joinOp_rt (strat : Strategy) (kind : JoinKind)
    (hsk : (kind = .join ∧ strat ≠ .none_) ∨ (kind ≠ .join ∧ strat = .none_)) (rest : List Tok) :
    ∃ t tl, joinToks strat kind ++ rest = t :: tl ∧ isJoinStart t = true ∧
      parseJoinOp (t :: tl) = some (strat, kind, rest) := by
  rcases hsk with ⟨rfl, hs⟩ | ⟨hk, rfl⟩
  · cases strat with
    | none_ => exact absurd rfl hs
    | undefined => exact ⟨Tok.kw .JOIN, rest, rfl, rfl, by simp [parseJoinOp]⟩
    | lookup => exact ⟨Tok.kw .LOOKUP, Tok.kw .JOIN :: rest, rfl, rfl, by simp [parseJoinOp]⟩
    | stream => exact ⟨Tok.kw .STREAM, Tok.kw .JOIN :: rest, rfl, rfl, by simp [parseJoinOp]⟩
  · cases kind with
    | join => exact absurd rfl hk
    | left => exact ⟨Tok.kw .LEFT, Tok.kw .JOIN :: rest, rfl, rfl, by simp [parseJoinOp]⟩
    | right => exact ⟨Tok.kw .RIGHT, Tok.kw .JOIN :: rest, rfl, rfl, by simp [parseJoinOp]⟩
    | outer => exact ⟨Tok.kw .OUTER, Tok.kw .JOIN :: rest, rfl, rfl, by simp [parseJoinOp]⟩
    | natural => exact ⟨Tok.kw .NATURAL, Tok.kw .JOIN :: rest, rfl, rfl, by simp [parseJoinOp]⟩
    | naturalLeft => exact ⟨Tok.kw .NATURAL, Tok.kw .LEFT :: Tok.kw .JOIN :: rest, rfl, rfl, by simp [parseJoinOp]⟩
    | naturalRight => exact ⟨Tok.kw .NATURAL, Tok.kw .RIGHT :: Tok.kw .JOIN :: rest, rfl, rfl, by simp [parseJoinOp]⟩

omit hp in
theorem joinLoop_stop (m : Nat) (acc : Tbl) (rest : List Tok) (hf : followT rest = true) :
    joinLoop prev (m + 1) acc rest = some (acc, rest) := by
  cases rest with
  | nil => simp [joinLoop]
  | cons t ts =>
    simp [followT] at hf
    have : isJoinStart t = false := by
      unfold stopT at hf; split at hf <;> simp_all [isJoinStart]
    simp [joinLoop, this]

omit hp in
theorem printJoinCond_follow (on : Option Expr) (us : List String) (rest : List Tok) (hf : followFactor rest = true) :
    followFactor (printJoinCond on us ++ rest) = true := by
  cases on with
  | some e => simp [printJoinCond, followFactor, stopT]
  | none =>
    cases us with
    | nil => simpa [printJoinCond] using hf
    | cons c cs => simp [printJoinCond, followFactor, stopT]

/-- the right operand and condition of one printed join -/
theorem joinRest_rt (l : Tbl) (strat : Strategy) (kind : JoinKind) (r : Tbl) (on : Option Expr) (us : List String)
    (hok : okT (.join l strat kind r on us) = true) (hd : depthT (.join l strat kind r on us) ≤ d) (rest : List Tok)
    (hf : followFactor rest = true)
    (hopen : (Tbl.join l strat kind r on us).isOpenInnerJoin = true →
      headIs .ON rest = false ∧ headIs .USING rest = false) :
    parseJoinRest prev l strat kind (printT r ++ (printJoinCond on us ++ rest)) =
      some (.join l strat kind r on us, rest) := by
  simp [okT] at hok
  simp [depthT] at hd
  obtain ⟨⟨⟨⟨hl, hr⟩, hon⟩, hus⟩, hk⟩ := hok
  have hfc := printJoinCond_follow on us rest hf
  cases kind with
  | join =>
    simp at hk
    simp [JoinKind.isOuter] at hd
    have h1 := tblFactor_rt hp r hr hk.1.2 (by omega) _ hfc
    have h2 := joinCond_rt hp on us hon hus (by simpa using hk.2) (by omega) rest hf
      (by
        intro h1 h2
        apply hopen
        cases on <;> cases us <;> simp_all [Tbl.isOpenInnerJoin])
    simp [parseJoinRest, JoinKind.isInner, h1, h2]
  | left =>
    simp at hk
    simp [JoinKind.isOuter] at hd
    have hfT : followT (printJoinCond on us ++ rest) = true := by
      rcases hk.2 with h | h
      · cases on <;> simp at h; simp [printJoinCond, followT, stopT]
      · cases on <;> simp at h
        cases us <;> simp at h
        simp [printJoinCond, followT, stopT]
    have h1 := hp.tbl r hr (by omega) _ hfT (by intro h; simp [hk.1.2] at h)
    have h2 := joinCond_rt hp on us hon hus (by rcases hk.2 with h | h <;> simp [h]) (by omega) rest hf
      (by intro h1 h2; rcases hk.2 with h | h <;> simp_all)
    have h3 : on.isSome = true ∨ ¬ us.isEmpty = true := by rcases hk.2 with h | h <;> simp [h]
    simp [parseJoinRest, JoinKind.isInner, JoinKind.isOuter, h1, h2, h3]
    intro h; rcases hk.2 with h' | h' <;> simp_all
  | right =>
    simp at hk
    simp [JoinKind.isOuter] at hd
    have hfT : followT (printJoinCond on us ++ rest) = true := by
      rcases hk.2 with h | h
      · cases on <;> simp at h; simp [printJoinCond, followT, stopT]
      · cases on <;> simp at h
        cases us <;> simp at h
        simp [printJoinCond, followT, stopT]
    have h1 := hp.tbl r hr (by omega) _ hfT (by intro h; simp [hk.1.2] at h)
    have h2 := joinCond_rt hp on us hon hus (by rcases hk.2 with h | h <;> simp [h]) (by omega) rest hf
      (by intro h1 h2; rcases hk.2 with h | h <;> simp_all)
    have h3 : on.isSome = true ∨ ¬ us.isEmpty = true := by rcases hk.2 with h | h <;> simp [h]
    simp [parseJoinRest, JoinKind.isInner, JoinKind.isOuter, h1, h2, h3]
    intro h; rcases hk.2 with h' | h' <;> simp_all
  | outer =>
    simp at hk
    simp [JoinKind.isOuter] at hd
    have hfT : followT (printJoinCond on us ++ rest) = true := by
      rcases hk.2 with h | h
      · cases on <;> simp at h; simp [printJoinCond, followT, stopT]
      · cases on <;> simp at h
        cases us <;> simp at h
        simp [printJoinCond, followT, stopT]
    have h1 := hp.tbl r hr (by omega) _ hfT (by intro h; simp [hk.1.2] at h)
    have h2 := joinCond_rt hp on us hon hus (by rcases hk.2 with h | h <;> simp [h]) (by omega) rest hf
      (by intro h1 h2; rcases hk.2 with h | h <;> simp_all)
    have h3 : on.isSome = true ∨ ¬ us.isEmpty = true := by rcases hk.2 with h | h <;> simp [h]
    simp [parseJoinRest, JoinKind.isInner, JoinKind.isOuter, h1, h2, h3]
    intro h; rcases hk.2 with h' | h' <;> simp_all
  | natural =>
    simp at hk
    simp [JoinKind.isOuter] at hd
    obtain ⟨⟨⟨_, hfac⟩, h1⟩, h2⟩ := hk
    cases on <;> simp at h1
    cases us <;> simp at h2
    have h := tblFactor_rt hp r hr hfac (by omega) rest hf
    simp [parseJoinRest, JoinKind.isInner, JoinKind.isOuter, printJoinCond, h]
  | naturalLeft =>
    simp at hk
    simp [JoinKind.isOuter] at hd
    obtain ⟨⟨⟨_, hfac⟩, h1⟩, h2⟩ := hk
    cases on <;> simp at h1
    cases us <;> simp at h2
    have h := tblFactor_rt hp r hr hfac (by omega) rest hf
    simp [parseJoinRest, JoinKind.isInner, JoinKind.isOuter, printJoinCond, h]
  | naturalRight =>
    simp at hk
    simp [JoinKind.isOuter] at hd
    obtain ⟨⟨⟨_, hfac⟩, h1⟩, h2⟩ := hk
    cases on <;> simp at h1
    cases us <;> simp at h2
    have h := tblFactor_rt hp r hr hfac (by omega) rest hf
    simp [parseJoinRest, JoinKind.isInner, JoinKind.isOuter, printJoinCond, h]

omit hp in
theorem okT_join_sk {l : Tbl} {strat : Strategy} {kind : JoinKind} {r : Tbl} {on : Option Expr} {us : List String}
    (hok : okT (.join l strat kind r on us) = true) :
    (kind = .join ∧ strat ≠ .none_) ∨ (kind ≠ .join ∧ strat = .none_) := by
  simp [okT] at hok
  cases kind <;> simp at hok <;> simp [hok]

theorem joinChain : ∀ n t, sizeT t ≤ n → okT t = true → depthT t ≤ d → ∀ rest, followFactor rest = true →
    (t.isOpenInnerJoin = true → headIs .ON rest = false ∧ headIs .USING rest = false) →
    ∃ j, j ≤ (printT t).length ∧ ∀ m,
      (match parseTableFactor prev (printT t ++ rest) with
       | none => none
       | some (a, r) => joinLoop prev (m + j) a r) = joinLoop prev m t rest := by
  intro n
  induction n with
  | zero => intro t h; have := sizeT_pos t; omega
  | succ n ih =>
    intro t hsz hok hd rest hf hopen
    by_cases hfac : t.isFactor = true
    · exact ⟨0, Nat.zero_le _, fun m => by simp [tblFactor_rt hp t hok hfac hd rest hf]⟩
    · cases t with
      | join l strat kind r on us =>
        have hok' := hok
        simp [okT] at hok
        simp [sizeT] at hsz
        have hdl : depthT l ≤ d := by simp [depthT] at hd; omega
        obtain ⟨t0, tl, hjt, hjs, hjo⟩ := joinOp_rt strat kind (okT_join_sk hok') (printT r ++ (printJoinCond on us ++ rest))
        have hfl : followFactor (joinToks strat kind ++ (printT r ++ (printJoinCond on us ++ rest))) = true := by
          rw [hjt]; simp [followFactor, hjs]
        have hnl : headIs .ON (joinToks strat kind ++ (printT r ++ (printJoinCond on us ++ rest))) = false ∧
            headIs .USING (joinToks strat kind ++ (printT r ++ (printJoinCond on us ++ rest))) = false := by
          rw [hjt]; simp [headIs_cons]
          constructor <;> (intro h; subst h; simp [isJoinStart] at hjs)
        obtain ⟨j, hj, hrun⟩ := ih l (by omega) hok.1.1.1.1 hdl _ hfl (fun _ => hnl)
        refine ⟨j + 1, ?_, ?_⟩
        · have : 1 ≤ (joinToks strat kind).length := by
            obtain ⟨t1, tl1, h1, _, _⟩ := joinOp_rt strat kind (okT_join_sk hok') []
            have := congrArg List.length h1
            simp at this; omega
          simp only [printT_join, List.length_append]
          omega
        · intro m
          have := hrun (m + 1)
          have e1 : printT (.join l strat kind r on us) ++ rest =
              printT l ++ (joinToks strat kind ++ (printT r ++ (printJoinCond on us ++ rest))) := by
            simp [printT_join]
          rw [e1, show m + (j + 1) = m + 1 + j by omega, this, hjt]
          have hjr := joinRest_rt hp l strat kind r on us hok' hd rest hf hopen
          simp [joinLoop, hjs, hjo, hjr]
      | _ => simp [Tbl.isFactor] at hfac <;> simp [okT] at hok

/-- `table_reference` -/
theorem tblRef_rt (t : Tbl) (hok : okT t = true) (hd : depthT t ≤ d) (rest : List Tok) (hf : followT rest = true)
    (hopen : t.isOpenInnerJoin = true → headIs .ON rest = false ∧ headIs .USING rest = false) :
    parseTableRef prev (printT t ++ rest) = some (t, rest) := by
  obtain ⟨j, hj, hrun⟩ := joinChain hp (sizeT t) t (Nat.le_refl _) hok hd rest (followFactor_of_followT hf) hopen
  unfold parseTableRef
  have hlen : (printT t ++ rest).length + 1 = ((printT t ++ rest).length - j) + 1 + j := by
    simp only [List.length_append]; omega
  rw [hlen]
  exact (hrun _).trans (joinLoop_stop _ t rest hf)

end level

end Octo.SqlSyn
