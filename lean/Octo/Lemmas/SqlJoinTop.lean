import Octo.Lemmas.SqlJoinExec
/-!
  Putting the pieces together (C02): planner ∘ optimizer ∘ execution ∘ sink = SQL join semantics (`runQuery_sound`),
  and the concrete schedulers are schedulers.
-/
namespace Octo.SqlJoin
open Octo Octo.Sql Octo.Join

def JQuery.ok (q : JQuery) : Bool :=
  q.frm.ok && (match q.whr with | some w => predOK w | none => true)

theorem outerKeys_length' {c wl wr : Nat} {parts : List SExpr} {ks : List SExpr × List SExpr}
    (h : outerKeys c wl wr parts = some ks) : ks.1.length = ks.2.length :=
  outerKeys_length parts ks.1 ks.2 h

theorem planOf_ok (db : Db) : ∀ (f : From) (c : Nat) (p : Plan), f.ok = true → planOf db f c = some p → p.ok = true := by
  intro f
  induction f with
  | tbl i => intro c p _ h; simp only [planOf, Option.some.injEq] at h; subst h; rfl
  | sub s w ih =>
    intro c p hok h
    simp only [From.ok, Bool.and_eq_true] at hok
    simp only [planOf] at h
    cases hs : planOf db s c with
    | none => simp [hs] at h
    | some ps =>
      simp only [hs, Option.map_some, Option.some.injEq] at h; subst h
      simp only [Plan.ok, Bool.and_eq_true]
      exact ⟨hok.1, ih c ps hok.2 hs⟩
  | proj s es ih =>
    intro c p hok h
    simp only [From.ok] at hok
    simp only [planOf] at h
    cases hs : planOf db s c with
    | none => simp [hs] at h
    | some ps =>
      simp only [hs, Option.map_some, Option.some.injEq] at h; subst h
      simp only [Plan.ok]
      exact ih c ps hok hs
  | join k l r on ihl ihr =>
    intro c p hok h
    simp only [From.ok, Bool.and_eq_true] at hok
    cases k with
    | inner =>
      simp only [planOf] at h
      cases hl : planOf db l c <;> cases hr : planOf db r c <;> simp only [hl, hr] at h <;> try cases h
      simp only [Plan.ok, Bool.and_eq_true, beq_iff_eq, List.length_nil]
      exact ⟨hok.1.1, ⟨⟨trivial, ihl c _ hok.1.2 hl⟩, ihr c _ hok.2 hr⟩⟩
    | lookup =>
      simp only [planOf] at h
      cases hl : planOf db l c <;> cases hr : planOf db r (c + l.width db) <;> simp only [hl, hr] at h <;> try cases h
      simp only [Plan.ok, Bool.and_eq_true]
      exact ⟨hok.1.1, ⟨ihl c _ hok.1.2 hl, ihr _ _ hok.2 hr⟩⟩
    | left | right | full =>
      all_goals
        simp only [planOf] at h
        cases hl : planOf db l c <;> cases hr : planOf db r c <;> simp only [hl, hr] at h <;> try cases h
        cases hk : outerKeys c (l.width db) (r.width db) (splitAnd on) <;> simp only [hk, Option.map_none, Option.map_some] at h <;> cases h
        simp only [Plan.ok, Bool.and_eq_true, beq_iff_eq]
        exact ⟨⟨outerKeys_length' hk, ihl c _ hok.1.2 hl⟩, ihr c _ hok.2 hr⟩

theorem isTrue_nil_append (r : VRow) (w : SExpr) :
    isTrue ([] ++ r) w = (match eval r w with | some (.bool true) => true | _ => false) := by
  simp only [List.nil_append]; rfl

/-- the plan of a query, read relationally, computes the SQL semantics of the query -/
theorem planQ_sound {db : Db} (hdb : DbOK db) (q : JQuery) (p : Plan) (hq : q.ok = true) (h : planQ db q = some p) :
    p.ok = true ∧ planBag db p [] = joinSem q db := by
  unfold planQ at h
  unfold JQuery.ok at hq
  simp only [Bool.and_eq_true] at hq
  cases hp : planOf db q.frm 0 with
  | none => simp [hp] at h
  | some p0 =>
    simp only [hp, Option.map_some, Option.some.injEq] at h
    have ok0 := planOf_ok db q.frm 0 p0 hq.1 hp
    have s0 := planOf_sound hdb q.frm 0 p0 [] hp rfl
    unfold joinSem
    cases hw : q.whr with
    | none =>
      cases hpr : q.proj with
      | none =>
        simp only [hw, hpr] at h; subst h
        exact ⟨ok0, by simp [specMap, specFilter, s0]⟩
      | some es =>
        simp only [hw, hpr] at h; subst h
        refine ⟨by simp only [Plan.ok]; exact ok0, ?_⟩
        simp only [planBag, specMap, specFilter, s0, List.nil_append]
    | some w =>
      have hwok : predOK w = true := by simpa [hw] using hq.2
      cases hpr : q.proj with
      | none =>
        simp only [hw, hpr] at h; subst h
        refine ⟨by simp only [Plan.ok, Bool.and_eq_true]; exact ⟨hwok, ok0⟩, ?_⟩
        simp only [planBag, specMap, specFilter, s0]
        apply filter_congr'
        intro r _
        exact isTrue_nil_append r w
      | some es =>
        simp only [hw, hpr] at h; subst h
        refine ⟨by simp only [Plan.ok, Bool.and_eq_true]; exact ⟨hwok, ok0⟩, ?_⟩
        simp only [planBag, specMap, specFilter, s0, List.nil_append]
        congr 1

/-- **end to end**: under any scheduler, with or without the optimizer, if the query runs then what the sink
    holds is, as a bag, the SQL join -/
theorem runQuery_sound {db : Db} (hdb : DbOK db) {sch : Sched} (hs : ValidSched sch) (opt : Bool) (q : JQuery)
    (hq : q.ok = true) (rows : List VRow) (h : runQuery sch opt q db = some rows) :
    ∀ row, countRow row rows = countRow row (joinSem q db) := by
  unfold runQuery at h
  cases hp : planQ db q with
  | none => simp [hp] at h
  | some p =>
    simp only [hp] at h
    obtain ⟨pok, pbag⟩ := planQ_sound hdb q p hq hp
    cases hd : denote sch db (if opt = true then optimize db p else p) [] with
    | none => simp [hd] at h
    | some rs =>
      simp only [hd] at h
      have ok' : (if opt = true then optimize db p else p).ok = true := by
        split
        · exact optimize_ok hdb p pok
        · exact pok
      have bag' : planBag db (if opt = true then optimize db p else p) [] = planBag db p [] := by
        split
        · exact optimize_planBag hdb p pok
        · rfl
      have hnet := denote_sound hdb hs _ [] rs ok' hd
      intro row
      have hc := consolidate_count rs [] rows h row
      rw [hnet row, bag', pbag, net_asRecs] at hc
      simp only [countRow, Int.natCast_zero, Int.zero_add] at hc
      exact_mod_cast hc

/-- the same for each of the three kinds of sink: the csv/json printers write a plan's records as they arrive
    exactly when its schema says `NoRetractions`, and then there is nothing to consolidate -/
theorem runQueryMode_sound {db : Db} (hdb : DbOK db) {sch : Sched} (hs : ValidSched sch) (m : SinkMode) (opt : Bool) (q : JQuery)
    (hq : q.ok = true) (rows : List VRow) (h : runQueryMode m sch opt q db = some rows) :
    ∀ row, countRow row rows = countRow row (joinSem q db) := by
  unfold runQueryMode at h
  cases hp : planQ db q with
  | none => simp [hp] at h
  | some p =>
    simp only [hp] at h
    obtain ⟨pok, pbag⟩ := planQ_sound hdb q p hq hp
    cases hd : denote sch db (if opt = true then optimize db p else p) [] with
    | none => simp [hd] at h
    | some rs =>
      simp only [hd] at h
      have ok' : (if opt = true then optimize db p else p).ok = true := by
        split
        · exact optimize_ok hdb p pok
        · exact pok
      have bag' : planBag db (if opt = true then optimize db p else p) [] = planBag db p [] := by
        split
        · exact optimize_planBag hdb p pok
        · rfl
      have hnet := denote_sound hdb hs _ [] rs ok' hd
      have viaTree : consolidate [] rs = some rows → ∀ row, countRow row rows = countRow row (joinSem q db) := by
        intro hc row
        have hcc := consolidate_count rs [] rows hc row
        rw [hnet row, bag', pbag, net_asRecs] at hcc
        simp only [countRow, Int.natCast_zero, Int.zero_add] at hcc
        exact_mod_cast hcc
      unfold sink at h
      cases m with
      | table => exact viaTree h
      | native => exact viaTree h
      | eager =>
        simp only at h
        by_cases hnr : p.noRetr = true
        · simp only [hnr, ↓reduceIte, Option.some.injEq] at h
          subst h
          -- the unoptimized plan computes the same relation and also runs retraction-free … but the records we hold
          -- come from the plan that was run: its own flag is what matters
          intro row
          have hrun : NR rs := by
            by_cases ho : opt = true
            · -- the optimizer's rules keep the flag
              simp only [ho, ↓reduceIte] at hd
              exact denote_nr hs _ [] rs (optimize_noRetr db p hnr) hd
            · simp only [ho, Bool.false_eq_true, ↓reduceIte] at hd
              exact denote_nr hs _ [] rs hnr hd
          have hc := raw_count rs hrun row
          rw [hnet row, bag', pbag, net_asRecs] at hc
          exact_mod_cast hc
        · simp only [hnr, Bool.false_eq_true, ↓reduceIte] at h
          exact viaTree h

/-! ### schedulers -/
theorem merge_left_nil {α : Type} : ∀ (a : List α), Merge a [] a
  | [] => Merge.nil
  | _ :: a => Merge.left (merge_left_nil a)

theorem merge_right_nil {α : Type} : ∀ (b : List α), Merge [] b b
  | [] => Merge.nil
  | _ :: b => Merge.right (merge_right_nil b)

theorem leftFirst_valid : ValidSched leftFirst := by
  intro a b
  unfold leftFirst
  induction a with
  | nil => exact merge_right_nil b
  | cons x a ih => exact Merge.left ih

theorem rightFirst_valid : ValidSched rightFirst := by
  intro a b
  unfold rightFirst
  induction b with
  | nil => simpa using merge_left_nil a
  | cons x b ih => exact Merge.right ih

theorem alternate_valid : ValidSched alternate := by
  intro a
  induction a with
  | nil => intro b; simp only [alternate]; exact merge_right_nil b
  | cons x a ih =>
    intro b
    cases b with
    | nil => simp only [alternate]; exact merge_left_nil _
    | cons y b => simp only [alternate]; exact Merge.right (Merge.left (ih b))

end Octo.SqlJoin
