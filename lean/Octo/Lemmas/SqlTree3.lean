import Octo.Lemmas.SqlTree2
/-! `buildTree` invariants and the specification of `ostOp` / `printerOp`. -/
namespace Octo.Sql
open Octo

theorem mults_ok (order : List (SExpr × Bool)) : MultsOk (mults order) := by
  intro x hx
  simp only [mults, List.mem_map] at hx
  obtain ⟨k, _, rfl⟩ := hx
  split <;> simp

theorem mults_eq (order : List (SExpr × Bool)) :
    (order.map fun k => if k.2 then (-1 : Int) else 1) = mults order := rfl
theorem keyExprs_eq (order : List (SExpr × Bool)) : order.map (·.1) = keyExprs order := rfl

/-- what `buildTree` maintains about the unpruned tree -/
structure TreeInv (order : List (SExpr × Bool)) (t : List Item) (done : List Row) : Prop where
  sorted : ItemsSorted (mults order) t
  items : ∀ it ∈ t, KeyLen order.length it ∧ it.count ≥ 1 ∧ evalAll it.vals (keyExprs order) = some it.key
  bag : ∀ r, countRow r (flatten t) = countRow r done
  len : (flatten t).length = done.length

theorem treeInv_nil (order : List (SExpr × Bool)) : TreeInv order [] [] :=
  ⟨trivial, by simp, by simp [flatten], by simp [flatten]⟩

theorem keyExprs_length (order : List (SExpr × Bool)) : (keyExprs order).length = order.length := by
  simp [keyExprs]

theorem treeInv_insert (order : List (SExpr × Bool)) (t : List Item) (done : List Row) (r : Row) (k : List Value)
    (hk : evalAll r (keyExprs order) = some k) (h : TreeInv order t done) :
    TreeInv order (insertItem (mults order) ⟨k, r, 1⟩ t) (done ++ [r]) := by
  have hlen : KeyLen order.length (⟨k, r, 1⟩ : Item) := by
    simp only [KeyLen]; rw [evalAll_length r _ k hk, keyExprs_length]
  refine ⟨?_, ?_, ?_, ?_⟩
  · exact insertItem_sorted (mults order) (mults_ok order) order.length _ t hlen (fun y hy => (h.items y hy).1) h.sorted
  · intro it hit
    rcases mem_insertItem _ _ _ _ hit with h1 | h1 | ⟨y, hy, _, h1⟩
    · exact h.items it h1
    · subst h1; exact ⟨hlen, by simp, hk⟩
    · subst h1
      have := h.items y hy
      exact ⟨this.1, by simp, this.2.2⟩
  · intro q
    rw [flatten_count_insert, h.bag q, countRow_append]
    simp [countRow]
  · rw [flatten_length_insert, h.len]; simp

theorem buildTree_full_inv (order : List (SExpr × Bool)) (rows : List Row) (t : List Item) (done : List Row) (t' : List Item)
    (h : TreeInv order t done)
    (hb : buildTree (mults order) none (keyExprs order) t rows = some t') : TreeInv order t' (done ++ rows) := by
  induction rows generalizing t done with
  | nil => simp [buildTree] at hb; subst hb; simpa using h
  | cons r rs ih =>
    simp only [buildTree] at hb
    cases hk : evalAll r (keyExprs order) with
    | none => simp [hk] at hb
    | some k =>
      simp only [hk, prune] at hb
      have := ih _ _ (treeInv_insert order t done r k hk h) hb
      simpa using this

theorem buildTree_full_exists (order : List (SExpr × Bool)) (rows : List Row) (t : List Item)
    (hk : ∀ r ∈ rows, (evalAll r (keyExprs order)).isSome) :
    ∃ t', buildTree (mults order) none (keyExprs order) t rows = some t' := by
  induction rows generalizing t with
  | nil => exact ⟨t, rfl⟩
  | cons r rs ih =>
    have h1 := hk r (by simp)
    cases he : evalAll r (keyExprs order) with
    | none => simp [he] at h1
    | some k =>
      simp only [buildTree, he, prune]
      exact ih _ (fun q hq => hk q (by simp [hq]))

/-- the pruned tree is always the first n items of the unpruned one -/
theorem buildTree_pruned (order : List (SExpr × Bool)) (n : Nat) (rows : List Row) (t : List Item) (tp : List Item)
    (hb : buildTree (mults order) (some n) (keyExprs order) (t.take n) rows = some tp) :
    ∃ tf, buildTree (mults order) none (keyExprs order) t rows = some tf ∧ tp = tf.take n := by
  induction rows generalizing t with
  | nil => simp [buildTree] at hb; exact ⟨t, rfl, hb.symm⟩
  | cons r rs ih =>
    simp only [buildTree] at hb ⊢
    cases hk : evalAll r (keyExprs order) with
    | none => simp [hk] at hb
    | some k =>
      simp only [hk] at hb ⊢
      have hl : (insertItem (mults order) ⟨k, r, 1⟩ (t.take n)).length ≤ n + 1 := by
        have := insertItem_length_le (mults order) ⟨k, r, 1⟩ (t.take n)
        have := List.length_take_le n t
        omega
      rw [prune_eq_take n _ hl, insert_take] at hb
      simp only [prune]
      exact ih _ hb

theorem mem_flatten (t : List Item) (b : Row) (h : b ∈ flatten t) : ∃ it ∈ t, b = it.vals := by
  induction t with
  | nil => simp [flatten] at h
  | cons it rest ih =>
    simp only [flatten, List.mem_append, List.mem_replicate] at h
    rcases h with ⟨_, rfl⟩ | h
    · exact ⟨it, by simp, rfl⟩
    · obtain ⟨i, hi, rfl⟩ := ih h
      exact ⟨i, by simp [hi], rfl⟩

theorem sortedBy_replicate_append (order : List (SExpr × Bool)) (c : Nat) (v : Row) (rest : List Row)
    (h1 : KeyLE order v v) (h2 : ∀ x ∈ rest, KeyLE order v x) (h3 : SortedBy order rest) :
    SortedBy order (List.replicate c v ++ rest) := by
  induction c with
  | zero => simpa using h3
  | succ c ih =>
    simp only [List.replicate, List.cons_append, SortedBy]
    refine ⟨?_, ih⟩
    intro x hx
    simp only [List.mem_append, List.mem_replicate] at hx
    rcases hx with ⟨_, rfl⟩ | hx
    · exact h1
    · exact h2 x hx

theorem flatten_sorted (order : List (SExpr × Bool)) (t : List Item)
    (hs : ItemsSorted (mults order) t)
    (hi : ∀ it ∈ t, evalAll it.vals (keyExprs order) = some it.key) :
    SortedBy order (flatten t) := by
  induction t with
  | nil => simp [flatten, SortedBy]
  | cons it rest ih =>
    simp only [flatten]
    apply sortedBy_replicate_append
    · intro ka kb h1 h2
      rw [h1] at h2; injection h2 with h2; subst h2
      rw [keyCmp_refl]; omega
    · intro x hx ka kb h1 h2
      obtain ⟨i, hi', rfl⟩ := mem_flatten rest x hx
      rw [hi it (by simp)] at h1; injection h1 with h1; subst h1
      rw [hi i (by simp [hi'])] at h2; injection h2 with h2; subst h2
      exact itemCmp_neg_key _ _ _ (by have := hs.1 i hi'; omega)
    · exact ih hs.2 (fun i h => hi i (by simp [h]))

/-- specification of `OrderSensitiveTransform` / the table printer on batch input:
    the output is the first n rows (all rows without a limit) of a key-sorted rearrangement of the input -/
theorem emit_buildTree_spec (order : List (SExpr × Bool)) (limit : Option Nat) (rows : List Row) (t : List Item)
    (hb : buildTree (mults order) limit (keyExprs order) [] rows = some t) :
    ∃ full, SameBag full rows ∧ SortedBy order full ∧ full.length = rows.length ∧
      emit limit t = applyLimit limit full := by
  cases limit with
  | none =>
    have inv := buildTree_full_inv order rows [] [] t (treeInv_nil order) hb
    refine ⟨flatten t, ?_, flatten_sorted order t inv.sorted (fun i h => (inv.items i h).2.2), by simpa using inv.len, rfl⟩
    intro r; simpa using inv.bag r
  | some n =>
    obtain ⟨tf, hf, rfl⟩ := buildTree_pruned order n rows [] t (by simpa using hb)
    have inv := buildTree_full_inv order rows [] [] tf (treeInv_nil order) hf
    refine ⟨flatten tf, ?_, flatten_sorted order tf inv.sorted (fun i h => (inv.items i h).2.2), by simpa using inv.len, ?_⟩
    · intro r; simpa using inv.bag r
    · simp only [emit, applyLimit]
      exact flatten_take_take tf (fun i h => (inv.items i h).2.1) n

end Octo.Sql
