import Octo.Lemmas.FilesJson
/-! JSON schema inference, part 1: "the type accepts the document value and has a place for every key of it"
    (`acc`), its characterisation per type constructor, and its monotonicity under `Is`. -/
namespace Octo.Files
open Octo Octo.Ty

/-- every key of the (present) value has a place in the type -/
def cov (t : Ty) : Option J → Bool
  | none => true
  | some j => coversKeys t j

/-- the type accepts the value and drops nothing of it -/
def acc (t : Ty) (oj : Option J) : Bool := fits t oj && cov t oj

def J.isScalar : J → Bool
  | .arr _ => false
  | .obj _ _ => false
  | _ => true

theorem coversAny_scalar (j : J) (h : j.isScalar = true) : ∀ (alts : List Ty), coversAny alts j = true
  | [] => by cases j <;> simp_all [coversAny, J.isScalar]
  | a :: as => by simp [coversAny, coversAny_scalar j h as]

theorem coversKeys_scalar (t : Ty) (j : J) (h : j.isScalar = true) : coversKeys t j = true := by
  cases t <;> cases j <;> simp_all [coversKeys, J.isScalar] <;> exact coversAny_scalar _ (by simp [J.isScalar]) _

theorem acc_none (t : Ty) : acc t none = nullOk t := by simp [acc, fits, cov]
theorem acc_jnull (t : Ty) : acc t (some .null) = nullOk t := by
  simp [acc, fits, cov, coversKeys_scalar t .null rfl]

theorem nullOk_union (alts : List Ty) : nullOk (.union alts) = true ↔ ∃ a ∈ alts, nullOk a = true := by
  simp only [nullOk, beq_iff_eq]
  exact is_union_r .null alts rfl

theorem fitsAny_iff (alts : List Ty) (j : J) : fitsAny alts j = true ↔ ∃ a ∈ alts, fits a (some j) = true := by
  induction alts with
  | nil => simp [fitsAny]
  | cons a as ih => simp [fitsAny, ih]

theorem coversAny_iff (alts : List Ty) (j : J) : coversAny alts j = true ↔
    (∃ a ∈ alts, fits a (some j) = true ∧ coversKeys a j = true) ∨ j.isScalar = true := by
  induction alts with
  | nil => cases j <;> simp [coversAny, J.isScalar]
  | cons a as ih =>
    simp only [coversAny, Bool.or_eq_true, Bool.and_eq_true, ih, List.mem_cons, exists_eq_or_imp]
    constructor
    · rintro (h | h | h)
      · exact Or.inl (Or.inl h)
      · exact Or.inl (Or.inr h)
      · exact Or.inr h
    · rintro ((h | h) | h)
      · exact Or.inl h
      · exact Or.inr (Or.inl h)
      · exact Or.inr (Or.inr h)

/-- a union accepts a value iff one of its alternatives does -/
theorem acc_union (alts : List Ty) (oj : Option J) : acc (.union alts) oj = true ↔ ∃ a ∈ alts, acc a oj = true := by
  cases oj with
  | none => simp only [acc_none]; exact nullOk_union alts
  | some j =>
    by_cases hn : j = .null
    · subst hn; simp only [acc_jnull]; exact nullOk_union alts
    · have hf : fits (.union alts) (some j) = fitsAny alts j := by cases j <;> simp_all [fits]
      have hc : coversKeys (.union alts) j = coversAny alts j := by cases j <;> simp [coversKeys]
      simp only [acc, cov, hf, hc, Bool.and_eq_true, fitsAny_iff, coversAny_iff]
      constructor
      · rintro ⟨⟨a, ha, hfa⟩, (⟨b, hb, hfb, hcb⟩ | hs)⟩
        · exact ⟨b, hb, hfb, hcb⟩
        · exact ⟨a, ha, hfa, coversKeys_scalar a j hs⟩
      · rintro ⟨a, ha, hfa, hca⟩
        exact ⟨⟨a, ha, hfa⟩, Or.inl ⟨a, ha, hfa, hca⟩⟩

theorem acc_list (e : Ty) (xs : List J) : acc (.list e) (some (.arr xs)) = true ↔ ∀ x ∈ xs, acc e (some x) = true := by
  simp only [acc, cov, fits, coversKeys, Bool.and_eq_true, List.all_eq_true]
  constructor
  · rintro ⟨h1, h2⟩ x hx; exact ⟨h1 x hx, h2 x hx⟩
  · intro h; exact ⟨fun x hx => (h x hx).1, fun x hx => (h x hx).2⟩

theorem acc_listNil (xs : List J) : acc .listNil (some (.arr xs)) = true ↔ xs = [] := by
  cases xs <;> simp [acc, cov, fits, coversKeys]

/-- the fields of a struct type accept the corresponding fields of the object -/
def accFields : List Name → List Ty → J → Prop
  | ns, t :: ts, o => acc t (o.get (ns.headD [])) = true ∧ accFields ns.tail ts o
  | _, [], _ => True

theorem accFields_iff (o : J) : ∀ (ts : List Ty) (ns : List Name),
    (fitsFields ns ts o = true ∧ coversFields ns ts o = true) ↔ accFields ns ts o
  | [], ns => by simp [fitsFields, coversFields, accFields]
  | t :: ts, ns => by
    simp only [fitsFields, coversFields, accFields, Bool.and_eq_true]
    rw [← accFields_iff o ts ns.tail]
    cases hg : o.get (ns.headD []) with
    | none =>
      simp only [acc, cov, Bool.and_true]
      constructor
      · rintro ⟨⟨a, b⟩, _, d⟩; exact ⟨a, b, d⟩
      · rintro ⟨a, b, d⟩; exact ⟨⟨a, b⟩, trivial, d⟩
    | some x =>
      simp only [acc, cov, Bool.and_eq_true]
      constructor
      · rintro ⟨⟨a, b⟩, c, d⟩; exact ⟨⟨a, c⟩, b, d⟩
      · rintro ⟨⟨a, c⟩, b, d⟩; exact ⟨⟨a, b⟩, c, d⟩

theorem acc_struct (ns : List Name) (ts : List Ty) (ks : List Name) (vs : List J) :
    acc (.struct ns ts) (some (.obj ks vs)) = true ↔ (∀ k ∈ ks, k ∈ ns) ∧ accFields ns ts (.obj ks vs) := by
  rw [← accFields_iff]
  simp only [acc, cov, fits, coversKeys, Bool.and_eq_true, List.all_eq_true, List.contains_iff_mem]
  constructor
  · rintro ⟨a, b, c⟩; exact ⟨b, a, c⟩
  · rintro ⟨b, a, c⟩; exact ⟨a, b, c⟩

/-- the null-ish values -/
theorem acc_nullish (t : Ty) (oj : Option J) (h : oj = none ∨ oj = some .null) : acc t oj = nullOk t := by
  rcases h with h | h <;> subst h
  · exact acc_none t
  · exact acc_jnull t

end Octo.Files

namespace Octo.Files
open Octo Octo.Ty

/-! ### JSON-shaped types and monotonicity of `acc` under `Is` -/

mutual
/-- no `Any`, no tuple, and every struct has one name per field type (what JSON inference builds) -/
def jok : Ty → Bool
  | .any => false
  | .tuple _ => false
  | .list e => jok e
  | .struct ns ts => ns.length == ts.length && jokList ts
  | .union alts => jokList alts
  | _ => true
def jokList : List Ty → Bool
  | [] => true
  | t :: ts => jok t && jokList ts
end

theorem jokList_iff : ∀ (l : List Ty), jokList l = true ↔ ∀ t ∈ l, jok t = true
  | [] => by simp [jokList]
  | t :: ts => by simp [jokList, jokList_iff ts]

theorem acc_listNil_inv (j : J) (hn : j ≠ .null) (h : acc .listNil (some j) = true) : j = .arr [] := by
  cases j with
  | arr xs => rw [acc_listNil] at h; rw [h]
  | _ => simp_all [acc, fits]

theorem acc_list_inv (e : Ty) (j : J) (hn : j ≠ .null) (h : acc (.list e) (some j) = true) : ∃ xs, j = .arr xs := by
  cases j with
  | arr xs => exact ⟨xs, rfl⟩
  | _ => simp_all [acc, fits]

theorem acc_struct_inv (ns : List Name) (ts : List Ty) (j : J) (hn : j ≠ .null)
    (h : acc (.struct ns ts) (some j) = true) : ∃ ks vs, j = .obj ks vs := by
  cases j with
  | obj ks vs => exact ⟨ks, vs, rfl⟩
  | _ => simp_all [acc, fits]

/-- two struct types related by `Is` (same field names in the same order, field types related) -/
theorem accFields_of_structLoop (o : J) : ∀ (ts ts' : List Ty) (ns ns' : List Name),
    ns.length = ts.length → ns'.length = ts'.length → ts.length = ts'.length →
    structLoop Ty.is ns ts ns' ts' = .is →
    (∀ t ∈ ts, ∀ t' ∈ ts', t.is t' = .is → ∀ oj, acc t oj = true → acc t' oj = true) →
    accFields ns ts o → ns = ns' ∧ accFields ns' ts' o
  | [], [], ns, ns', h1, h2, _, _, _, _ => by
    have : ns = [] := by cases ns <;> simp_all
    have : ns' = [] := by cases ns' <;> simp_all
    simp_all [accFields]
  | [], _ :: _, _, _, _, _, h3, _, _, _ => by simp at h3
  | _ :: _, [], _, _, _, _, h3, _, _, _ => by simp at h3
  | t :: ts, t' :: ts', ns, ns', h1, h2, h3, hl, ih, ha => by
    rw [structLoop_cons] at hl
    obtain ⟨hh, hf, hrest⟩ := hl
    cases ns with
    | nil => simp at h1
    | cons n ns =>
      cases ns' with
      | nil => simp at h2
      | cons n' ns' =>
        simp only [List.head?_cons, Option.some.injEq] at hh
        subst hh
        simp only [accFields, List.headD_cons, List.tail_cons] at ha ⊢
        have := accFields_of_structLoop o ts ts' ns ns' (by simpa using h1) (by simpa using h2) (by simpa using h3)
          (by simpa using hrest) (fun x hx x' hx' => ih x (by simp [hx]) x' (by simp [hx'])) ha.2
        exact ⟨by rw [this.1], ih t (by simp) t' (by simp) hf _ ha.1, this.2⟩

/-- **`Is` is sound for JSON acceptance**: if `a Is b` then `b` accepts (and has a place for every key of)
    everything `a` accepts -/
theorem acc_of_is : ∀ (n : Nat) (a b : Ty), a.size + b.size ≤ n → jok a = true → jok b = true → a.is b = .is →
    ∀ oj, acc a oj = true → acc b oj = true := by
  intro n
  induction n with
  | zero => intro a b h; have := Ty.size_pos a; omega
  | succ n ih =>
    intro a b hn ja jb hab oj hacc
    by_cases hnull : oj = none ∨ oj = some .null
    · rw [acc_nullish _ _ hnull] at hacc ⊢
      simp only [nullOk, beq_iff_eq] at hacc ⊢
      exact Ty.is_trans hacc hab
    · obtain ⟨j, rfl, hj⟩ : ∃ j, oj = some j ∧ j ≠ .null := by
        cases oj with
        | none => simp at hnull
        | some j => exact ⟨j, rfl, fun h => hnull (Or.inr (by rw [h]))⟩
      by_cases ha : a.isUnion = true
      · obtain ⟨alts, rfl⟩ := eq_union_of_isUnion ha
        obtain ⟨x, hx, hxa⟩ := (acc_union alts _).mp hacc
        have hxb := (is_union_l alts b).mp hab x hx
        have := Ty.size_le_sizeList hx
        simp only [jok] at ja
        exact ih x b (by simp only [Ty.size] at hn; omega) ((jokList_iff _).mp ja x hx) jb hxb _ hxa
      · have ha' : a.isUnion = false := by cases h : a.isUnion <;> simp_all
        by_cases hb : b.isUnion = true
        · obtain ⟨oalts, rfl⟩ := eq_union_of_isUnion hb
          obtain ⟨y, hy, hay⟩ := (is_union_r a oalts ha').mp hab
          have := Ty.size_le_sizeList hy
          simp only [jok] at jb
          exact (acc_union oalts _).mpr ⟨y, hy,
            ih a y (by simp only [Ty.size] at hn; omega) ja ((jokList_iff _).mp jb y hy) hay _ hacc⟩
        · have hb' : b.isUnion = false := by cases h : b.isUnion <;> simp_all
          have hany : b.isAny = false := by cases b <;> simp_all [jok, isAny]
          rcases is_plain_inv ha' hb' hany hab with ⟨rfl, hbb⟩ | ⟨e, e', rfl, rfl, hee⟩ |
            ⟨ns, ts, ns', ts', rfl, rfl, hlen, hloop⟩ | ⟨ts, ts', rfl, rfl, _, _⟩ | ⟨_, rfl⟩
          · have := acc_listNil_inv j hj hacc
            subst this
            rcases hbb with rfl | ⟨e', rfl⟩
            · exact hacc
            · exact (acc_list e' []).mpr (by simp)
          · obtain ⟨xs, rfl⟩ := acc_list_inv e j hj hacc
            rw [acc_list] at hacc ⊢
            intro x hx
            simp only [jok] at ja jb
            exact ih e e' (by simp only [Ty.size] at hn; omega) ja jb hee _ (hacc x hx)
          · obtain ⟨ks, vs, rfl⟩ := acc_struct_inv ns ts j hj hacc
            rw [acc_struct] at hacc ⊢
            simp only [jok, Bool.and_eq_true, beq_iff_eq] at ja jb
            have := accFields_of_structLoop (.obj ks vs) ts ts' ns ns' ja.1 jb.1 hlen hloop
              (fun t ht t' ht' htt oj h => by
                have h1 := Ty.size_le_sizeList ht
                have h2 := Ty.size_le_sizeList ht'
                exact ih t t' (by simp only [Ty.size] at hn; omega) ((jokList_iff _).mp ja.2 t ht)
                  ((jokList_iff _).mp jb.2 t' ht') htt oj h) hacc.2
            exact ⟨this.1 ▸ hacc.1, this.2⟩
          · simp [jok] at jb
          · exact hacc

theorem acc_of_is' {a b : Ty} (ja : jok a = true) (jb : jok b = true) (h : a.is b = .is) (oj : Option J)
    (hacc : acc a oj = true) : acc b oj = true :=
  acc_of_is _ a b (Nat.le_refl _) ja jb h oj hacc

end Octo.Files
