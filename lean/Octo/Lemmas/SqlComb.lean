import Octo.Model.SqlOk
/-!
# Generic lemmas about the parser combinators (C30)

`binLevel` (a left-associative binary level), `sepBy1` (comma separated lists) and the follow-set machinery
(`tokLevel`, `follow`): what a parser of precedence level `k` needs to know about the token after its input.
-/
namespace Octo.SqlSyn

/-- the loosest precedence level at which a token continues an expression (0: it never does) -/
def tokLevel : Tok → Nat
  | .kw .OR => 1 | .kw .AND => 2 | .kw .IS => 4
  | .kw .EQ => 5 | .kw .LT => 5 | .kw .GT => 5 | .kw .LE => 5 | .kw .GE => 5 | .kw .NE => 5 | .kw .NULL_SAFE_EQUAL => 5
  | .kw .IN => 5 | .kw .NOT => 5 | .kw .LIKE => 5 | .kw .REGEXP => 5
  | .kw .PIPE => 6 | .kw .AMP => 7 | .kw .SHIFT_LEFT => 8 | .kw .SHIFT_RIGHT => 8 | .kw .PLUS => 9 | .kw .MINUS => 9
  | .kw .STAR => 10 | .kw .SLASH => 10 | .kw .DIV => 10 | .kw .PERCENT => 10 | .kw .MOD => 10 | .kw .CARET => 11
  | .kw .JSON_EXTRACT_OP => 13 | .kw .LIST_ARG => 13 | .kw .LBRACK => 13
  | .kw .LPAREN => 14 | .kw .DOT => 14
  | _ => 0

/-- the next token (if any) does not continue an expression parsed at level `k` -/
def follow (k : Nat) : List Tok → Bool
  | [] => true
  | t :: _ => decide (tokLevel t < k)

theorem follow_mono {k k' : Nat} (h : k ≤ k') {rest : List Tok} (hf : follow k rest = true) : follow k' rest = true := by
  cases rest with
  | nil => rfl
  | cons t ts => simp [follow] at *; omega

theorem follow_cons {k : Nat} {t : Tok} {ts : List Tok} : follow k (t :: ts) = true ↔ tokLevel t < k := by
  simp [follow]

theorem sizeE_pos (e : Expr) : 0 < sizeE e := by
  cases e <;> simp [sizeE]

/-! ## `binLevel` -/

section bin
variable {Op : Type} (next : P Expr) (opOf : Tok → Option Op) (mk : Op → Expr → Expr → Expr)

theorem binLoop_stop (m : Nat) (acc : Expr) (rest : List Tok)
    (h : ∀ t ts, rest = t :: ts → opOf t = none) : binLoop next opOf mk (m + 1) acc rest = some (acc, rest) := by
  cases rest with
  | nil => simp [binLoop]
  | cons t ts => simp [binLoop, h t ts rfl]

variable (tokOf : Op → Tok) (R : Op → Prop) (Pn Q : Expr → Prop) (Fn F : List Tok → Prop)

theorem binChain
    (hnext : ∀ e, Pn e → ∀ rest, Fn rest → next (printE e ++ rest) = some (e, rest))
    (hop : ∀ op, R op → opOf (tokOf op) = some op)
    (hFnop : ∀ op ts, R op → Fn (tokOf op :: ts))
    (hdec : ∀ e, Q e → Pn e ∨ ∃ op l r, R op ∧ e = mk op l r ∧ Q l ∧ Pn r ∧
      printE e = printE l ++ tokOf op :: printE r ∧ sizeE l < sizeE e) :
    ∀ n e, sizeE e ≤ n → Q e → ∀ rest, Fn rest →
      ∃ j, j ≤ (printE e).length ∧ ∀ m,
        (match next (printE e ++ rest) with
         | none => none
         | some (l, ts') => binLoop next opOf mk (m + j) l ts') = binLoop next opOf mk m e rest := by
  intro n
  induction n with
  | zero => intro e h; have := sizeE_pos e; omega
  | succ n ih =>
    intro e hsz hq rest hf
    rcases hdec e hq with hp | ⟨op, l, r, hR, he, hql, hpr, hpe, hlt⟩
    · exact ⟨0, Nat.zero_le _, fun m => by simp [hnext e hp rest hf]⟩
    · have hfl : Fn (tokOf op :: (printE r ++ rest)) := hFnop op _ hR
      obtain ⟨j, hj, hrun⟩ := ih l (by omega) hql (tokOf op :: (printE r ++ rest)) hfl
      refine ⟨j + 1, ?_, ?_⟩
      · rw [hpe]; simp only [List.length_append, List.length_cons]; omega
      · intro m
        have e1 : printE e ++ rest = printE l ++ tokOf op :: (printE r ++ rest) := by
          rw [hpe]; simp
        rw [e1]
        have := hrun (m + 1)
        rw [show m + (j + 1) = m + 1 + j by omega, this]
        simp [binLoop, hop op hR, hnext r hpr rest hf, he]

theorem binLevel_rt
    (hnext : ∀ e, Pn e → ∀ rest, Fn rest → next (printE e ++ rest) = some (e, rest))
    (hop : ∀ op, R op → opOf (tokOf op) = some op)
    (hFnop : ∀ op ts, R op → Fn (tokOf op :: ts))
    (hFFn : ∀ rest, F rest → Fn rest)
    (hFstop : ∀ t ts, F (t :: ts) → opOf t = none)
    (hdec : ∀ e, Q e → Pn e ∨ ∃ op l r, R op ∧ e = mk op l r ∧ Q l ∧ Pn r ∧
      printE e = printE l ++ tokOf op :: printE r ∧ sizeE l < sizeE e)
    (e : Expr) (hq : Q e) (rest : List Tok) (hf : F rest) :
    binLevel next opOf mk (printE e ++ rest) = some (e, rest) := by
  obtain ⟨j, hj, hrun⟩ := binChain next opOf mk tokOf R Pn Q Fn hnext hop hFnop hdec (sizeE e) e (Nat.le_refl _) hq rest (hFFn rest hf)
  unfold binLevel
  have hlen : (printE e ++ rest).length + 1 = ((printE e ++ rest).length - j) + 1 + j := by
    simp only [List.length_append]; omega
  rw [hlen]
  exact (hrun _).trans (binLoop_stop next opOf mk _ e rest (fun t ts h => hFstop t ts (h ▸ hf)))

end bin

/-! ## `sepBy1` -/

theorem items_cons (sep : List Tok) (x : List Tok) (xs : List (List Tok)) :
    ListFmt.items sep (x :: xs) = sep ++ x ++ ListFmt.items sep xs := rfl

theorem items_length (xs : List (List Tok)) : xs.length ≤ (ListFmt.items [Tok.kw .COMMA] xs).length := by
  induction xs with
  | nil => simp [ListFmt.items]
  | cons x xs ih => simp [ListFmt.items]; omega

section sep
variable {α : Type} (item : P α) (pr : α → List Tok) (Pi : α → Prop) (F : List Tok → Prop)

theorem sepTail_rt
    (hitem : ∀ x, Pi x → ∀ rest, (F rest ∨ ∃ ts, rest = Tok.kw .COMMA :: ts) → item (pr x ++ rest) = some (x, rest))
    (hF : ∀ t ts, F (t :: ts) → t ≠ Tok.kw .COMMA) :
    ∀ xs : List α, (∀ x ∈ xs, Pi x) → ∀ rest, F rest → ∀ m, xs.length < m →
      sepTail item m (ListFmt.items [Tok.kw .COMMA] (xs.map pr) ++ rest) = some (xs, rest) := by
  intro xs
  induction xs with
  | nil =>
    intro _ rest hf m hm
    obtain ⟨m', rfl⟩ : ∃ m', m = m' + 1 := ⟨m - 1, by simp at hm; omega⟩
    cases rest with
    | nil => simp [sepTail, ListFmt.items]
    | cons t ts => simp [sepTail, ListFmt.items, hF t ts hf]
  | cons x xs ih =>
    intro hall rest hf m hm
    obtain ⟨m', rfl⟩ : ∃ m', m = m' + 1 := ⟨m - 1, by simp at hm; omega⟩
    have hx : Pi x := hall x (by simp)
    have hrest : F (ListFmt.items [Tok.kw .COMMA] (xs.map pr) ++ rest) ∨
        ∃ ts, ListFmt.items [Tok.kw .COMMA] (xs.map pr) ++ rest = Tok.kw .COMMA :: ts := by
      cases xs with
      | nil => left; simpa [ListFmt.items] using hf
      | cons y ys => right; exact ⟨pr y ++ (ListFmt.items [Tok.kw .COMMA] (ys.map pr) ++ rest), by simp [ListFmt.items]⟩
    have h1 := hitem x hx _ hrest
    have h2 := ih (fun y hy => hall y (by simp [hy])) rest hf m' (by simp at hm; omega)
    simp [sepTail, ListFmt.items, h1, h2]

theorem sepBy1_rt
    (hitem : ∀ x, Pi x → ∀ rest, (F rest ∨ ∃ ts, rest = Tok.kw .COMMA :: ts) → item (pr x ++ rest) = some (x, rest))
    (hF : ∀ t ts, F (t :: ts) → t ≠ Tok.kw .COMMA)
    (x : α) (xs : List α) (hall : ∀ y ∈ x :: xs, Pi y) (rest : List Tok) (hf : F rest) :
    sepBy1 item (pr x ++ (ListFmt.items [Tok.kw .COMMA] (xs.map pr) ++ rest)) = some (x :: xs, rest) := by
  have hrest : F (ListFmt.items [Tok.kw .COMMA] (xs.map pr) ++ rest) ∨
      ∃ ts, ListFmt.items [Tok.kw .COMMA] (xs.map pr) ++ rest = Tok.kw .COMMA :: ts := by
    cases xs with
    | nil => left; simpa [ListFmt.items] using hf
    | cons y ys => right; exact ⟨pr y ++ (ListFmt.items [Tok.kw .COMMA] (ys.map pr) ++ rest), by simp [ListFmt.items]⟩
  have h1 := hitem x (hall x (by simp)) _ hrest
  have hlen : xs.length < (pr x ++ (ListFmt.items [Tok.kw .COMMA] (xs.map pr) ++ rest)).length + 1 := by
    have := items_length (xs.map pr)
    simp only [List.length_append, List.length_map] at *
    omega
  have h2 := sepTail_rt item pr Pi F hitem hF xs (fun y hy => hall y (by simp [hy])) rest hf _ hlen
  unfold sepBy1
  rw [h1]
  simp only []
  rw [h2]

end sep

end Octo.SqlSyn
