import Octo.Model.Regex
/-!
  Regular-expression lemmas: the derivative matcher `Re.accepts` decides the textbook language
  semantics `Re.Lang`, and the consequences used for LIKE.
-/
namespace Octo.Rx
open Octo.Utf8
namespace Re

/-- the language of a regular expression (textbook definition) -/
inductive Lang : Re → List Rune → Prop
  | eps : Lang .eps []
  | sym {k : Cls} {c : Rune} : k.test c = true → Lang (.sym k) [c]
  | cat {a b : Re} {s t : List Rune} : Lang a s → Lang b t → Lang (.cat a b) (s ++ t)
  | altL {a b : Re} {s : List Rune} : Lang a s → Lang (.alt a b) s
  | altR {a b : Re} {s : List Rune} : Lang b s → Lang (.alt a b) s
  | starNil {a : Re} : Lang (.star a) []
  | starApp {a : Re} {s t : List Rune} : Lang a s → Lang (.star a) t → Lang (.star a) (s ++ t)

theorem empty_inv {x : List Rune} : ¬ Lang .empty x := by
  intro h; cases h

theorem eps_inv {x : List Rune} (h : Lang .eps x) : x = [] := by
  cases h; rfl

theorem sym_inv {k : Cls} {x : List Rune} (h : Lang (.sym k) x) : ∃ c, x = [c] ∧ k.test c = true := by
  cases h with
  | sym hc => exact ⟨_, rfl, hc⟩

theorem cat_inv {a b : Re} {x : List Rune} (h : Lang (.cat a b) x) :
    ∃ s t, x = s ++ t ∧ Lang a s ∧ Lang b t := by
  cases h with
  | cat h1 h2 => exact ⟨_, _, rfl, h1, h2⟩

theorem alt_inv {a b : Re} {x : List Rune} (h : Lang (.alt a b) x) : Lang a x ∨ Lang b x := by
  cases h with
  | altL h => exact .inl h
  | altR h => exact .inr h

theorem nullable_iff (r : Re) : nullable r = true ↔ Lang r [] := by
  induction r with
  | empty => simp [nullable]; exact empty_inv
  | eps => simp [nullable]; exact .eps
  | sym k =>
    simp [nullable]
    intro h
    obtain ⟨c, hc, _⟩ := sym_inv h
    cases hc
  | cat a b iha ihb =>
    simp only [nullable, Bool.and_eq_true, iha, ihb]
    constructor
    · intro ⟨h1, h2⟩
      exact Lang.cat h1 h2
    · intro h
      obtain ⟨s, t, hx, h1, h2⟩ := cat_inv h
      obtain ⟨hs, ht⟩ := List.append_eq_nil_iff.1 hx.symm
      subst hs; subst ht
      exact ⟨h1, h2⟩
  | alt a b iha ihb =>
    simp only [nullable, Bool.or_eq_true, iha, ihb]
    constructor
    · intro h
      cases h with
      | inl h => exact .altL h
      | inr h => exact .altR h
    · exact alt_inv
  | star a _ => simp [nullable]; exact .starNil

/-- a non-empty word of `star a` starts with a non-empty word of `a` -/
theorem star_cons_inv {r : Re} {x : List Rune} (h : Lang r x) :
    ∀ a, r = .star a → ∀ c s, x = c :: s → ∃ s1 t, s = s1 ++ t ∧ Lang a (c :: s1) ∧ Lang (.star a) t := by
  induction h with
  | eps => intro a e; cases e
  | sym _ => intro a e; cases e
  | cat _ _ _ _ => intro a e; cases e
  | altL _ _ => intro a e; cases e
  | altR _ _ => intro a e; cases e
  | starNil => intro a _ c s e; cases e
  | @starApp a0 s0 t0 h1 h2 _ ih2 =>
    intro a e c s hx
    cases e
    cases s0 with
    | nil =>
      simp at hx
      exact ih2 a0 rfl c s hx
    | cons d s0' =>
      simp at hx
      obtain ⟨hd, hs⟩ := hx
      subst hd
      exact ⟨s0', t0, hs.symm, h1, h2⟩

theorem deriv_iff (c : Rune) (r : Re) : ∀ s, Lang (deriv c r) s ↔ Lang r (c :: s) := by
  induction r with
  | empty => intro s; simp [deriv]; constructor <;> (intro h; exact absurd h empty_inv)
  | eps =>
    intro s; simp [deriv]
    constructor
    · intro h; exact absurd h empty_inv
    · intro h; have := eps_inv h; cases this
  | sym k =>
    intro s
    simp only [deriv]
    constructor
    · intro h
      split at h
      · have := eps_inv h; subst this; exact .sym ‹_›
      · exact absurd h empty_inv
    · intro h
      obtain ⟨d, hd, ht⟩ := sym_inv h
      simp at hd
      obtain ⟨h1, h2⟩ := hd
      subst h1; subst h2
      simp [ht]; exact .eps
  | cat a b iha ihb =>
    intro s
    have key : Lang (.cat a b) (c :: s) ↔
        (∃ s1 t, s = s1 ++ t ∧ Lang a (c :: s1) ∧ Lang b t) ∨ (Lang a [] ∧ Lang b (c :: s)) := by
      constructor
      · intro h
        obtain ⟨s1, t, hx, h1, h2⟩ := cat_inv h
        cases s1 with
        | nil => simp at hx; subst hx; exact .inr ⟨h1, h2⟩
        | cons d s1' =>
          simp at hx
          obtain ⟨hd, hs⟩ := hx
          subst hd
          exact .inl ⟨s1', t, hs, h1, h2⟩
      · intro h
        cases h with
        | inl h =>
          obtain ⟨s1, t, hs, h1, h2⟩ := h
          subst hs
          exact Lang.cat h1 h2
        | inr h => exact Lang.cat (s := []) h.1 h.2
    have left : Lang (.cat (deriv c a) b) s ↔ ∃ s1 t, s = s1 ++ t ∧ Lang a (c :: s1) ∧ Lang b t := by
      constructor
      · intro h
        obtain ⟨s1, t, hs, h1, h2⟩ := cat_inv h
        exact ⟨s1, t, hs, (iha s1).1 h1, h2⟩
      · intro ⟨s1, t, hs, h1, h2⟩
        subst hs
        exact Lang.cat ((iha s1).2 h1) h2
    simp only [deriv]
    by_cases hn : nullable a = true
    · rw [if_pos hn, key]
      constructor
      · intro h
        cases alt_inv h with
        | inl h => exact .inl (left.1 h)
        | inr h => exact .inr ⟨(nullable_iff a).1 hn, (ihb s).1 h⟩
      · intro h
        cases h with
        | inl h => exact .altL (left.2 h)
        | inr h => exact .altR ((ihb s).2 h.2)
    · rw [if_neg hn, key, left]
      constructor
      · intro h; exact .inl h
      · intro h
        cases h with
        | inl h => exact h
        | inr h => exact absurd ((nullable_iff a).2 h.1) hn
  | alt a b iha ihb =>
    intro s
    simp only [deriv]
    constructor
    · intro h
      cases alt_inv h with
      | inl h => exact .altL ((iha s).1 h)
      | inr h => exact .altR ((ihb s).1 h)
    · intro h
      cases alt_inv h with
      | inl h => exact .altL ((iha s).2 h)
      | inr h => exact .altR ((ihb s).2 h)
  | star a iha =>
    intro s
    simp only [deriv]
    constructor
    · intro h
      obtain ⟨s1, t, hs, h1, h2⟩ := cat_inv h
      subst hs
      exact Lang.starApp (s := c :: s1) ((iha s1).1 h1) h2
    · intro h
      obtain ⟨s1, t, hs, h1, h2⟩ := star_cons_inv h a rfl c s rfl
      subst hs
      exact Lang.cat ((iha s1).2 h1) h2

/-- **the derivative matcher decides the language** -/
theorem accepts_iff (r : Re) (s : List Rune) : accepts r s = true ↔ Lang r s := by
  induction s generalizing r with
  | nil => simp only [accepts]; exact nullable_iff r
  | cons c s ih => simp only [accepts]; rw [ih]; exact deriv_iff c r s

/-! ### consequences -/

theorem accepts_congr {a b : Re} {s t : List Rune} (h : Lang a s ↔ Lang b t) : accepts a s = accepts b t := by
  rw [Bool.eq_iff_iff, accepts_iff, accepts_iff]; exact h

theorem lang_cat_eps_left (r : Re) (s : List Rune) : Lang (.cat .eps r) s ↔ Lang r s := by
  constructor
  · intro h
    obtain ⟨s1, t, hs, h1, h2⟩ := cat_inv h
    have := eps_inv h1; subst this; simp at hs; subst hs; exact h2
  · intro h; exact Lang.cat (s := []) .eps h

theorem lang_cat_eps_right (r : Re) (s : List Rune) : Lang (.cat r .eps) s ↔ Lang r s := by
  constructor
  · intro h
    obtain ⟨s1, t, hs, h1, h2⟩ := cat_inv h
    have := eps_inv h2; subst this; simp at hs; subst hs; exact h1
  · intro h
    have := Lang.cat h Lang.eps
    simpa using this

theorem accepts_cat_eps_left (r : Re) (s : List Rune) : accepts (.cat .eps r) s = accepts r s :=
  accepts_congr (lang_cat_eps_left r s)

theorem accepts_cat_eps_right (r : Re) (s : List Rune) : accepts (.cat r .eps) s = accepts r s :=
  accepts_congr (lang_cat_eps_right r s)

theorem accepts_eps (s : List Rune) : accepts .eps s = s.isEmpty := by
  cases s with
  | nil => rfl
  | cons c s =>
    simp
    cases h : accepts .eps (c :: s) with
    | false => rfl
    | true => have := eps_inv ((accepts_iff _ _).1 h); cases this

/-- a one-rune matcher followed by `r` -/
theorem accepts_cat_sym (k : Cls) (r : Re) (s : List Rune) :
    accepts (.cat (.sym k) r) s = match s with
      | [] => false
      | d :: s' => k.test d && accepts r s' := by
  rw [Bool.eq_iff_iff, accepts_iff]
  constructor
  · intro h
    obtain ⟨s1, t, hs, h1, h2⟩ := cat_inv h
    obtain ⟨c, hc, ht⟩ := sym_inv h1
    subst hc; subst hs
    simp [ht, (accepts_iff r t).2 h2]
  · intro h
    cases s with
    | nil => simp at h
    | cons d s' =>
      simp at h
      exact Lang.cat (s := [d]) (.sym h.1) ((accepts_iff _ _).1 h.2)

/-- `.*` (flag s) accepts everything -/
theorem lang_anyStar (s : List Rune) : Lang anyStar s := by
  induction s with
  | nil => exact .starNil
  | cons c s ih => exact Lang.starApp (s := [c]) (.sym (by simp [Cls.test])) ih

/-- `.*` followed by `r`: some suffix is accepted by `r` -/
theorem lang_cat_anyStar (r : Re) (s : List Rune) :
    Lang (.cat anyStar r) s ↔ ∃ s1 s2, s = s1 ++ s2 ∧ Lang r s2 := by
  constructor
  · intro h
    obtain ⟨s1, t, hs, _, h2⟩ := cat_inv h
    exact ⟨s1, t, hs, h2⟩
  · intro ⟨s1, s2, hs, h⟩
    subst hs
    exact Lang.cat (lang_anyStar s1) h

end Re
end Octo.Rx
