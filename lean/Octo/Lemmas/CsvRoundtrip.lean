import Octo.Spec.OutputSpec
/-!
  Lemmas for C25, part 7: Go's `csv.Writer.Write` (model: `csvField` / `csvRecord`) read back by the
  RFC 4180 reader `Csv.decode` gives the original fields — for **every** list of byte strings.
-/
namespace Octo.OutFmt
open Octo Octo.Spec

theorem pQuoted_cons (c : Nat) (r : Bytes) : Csv.pQuoted (c :: r) =
    if c = 34 then
      match r with
      | c2 :: r2 => if c2 = 34 then (Csv.pQuoted r2).map fun (s, r') => (34 :: s, r') else some ([], c2 :: r2)
      | [] => some ([], [])
    else (Csv.pQuoted r).map fun (s, r') => (c :: s, r') := by
  rw [Csv.pQuoted.eq_def]
  rfl

/-- what may follow a field inside a record written by `csvRecord` -/
def Sep (rest : Bytes) : Prop := ∃ c r, rest = c :: r ∧ (c = 44 ∨ c = 10)

theorem pQuoted_body (f rest : Bytes) (hr : Sep rest) :
    Csv.pQuoted (csvQuoteBody f ++ 34 :: rest) = some (f, rest) := by
  obtain ⟨c0, r0, e0, hc0⟩ := hr
  induction f with
  | nil =>
    subst e0
    have : c0 ≠ 34 := by omega
    simp [csvQuoteBody, pQuoted_cons, this]
  | cons c cs ih =>
    by_cases hc : c = 34
    · subst hc
      simp [csvQuoteBody, pQuoted_cons, ih]
    · simp [csvQuoteBody, hc, pQuoted_cons, ih]

theorem pPlain_append (f rest : Bytes) (hf : ∀ c ∈ f, ¬ (c = 10 ∨ c = 13 ∨ c = 34 ∨ c = 44)) (hr : Sep rest) :
    Csv.pPlain (f ++ rest) = some (f, rest) := by
  obtain ⟨c0, r0, e0, hc0⟩ := hr
  induction f with
  | nil =>
    subst e0
    have : c0 = 44 ∨ c0 = 10 ∨ c0 = 13 := by omega
    simp [Csv.pPlain, this]
  | cons c cs ih =>
    have h1 := hf c (by simp)
    have h2 := ih (fun x hx => hf x (by simp [hx]))
    have a1 : ¬ (c = 44 ∨ c = 10 ∨ c = 13) := by omega
    have a2 : c ≠ 34 := by omega
    simp [Csv.pPlain, a1, a2, h2]

theorem pField_quote (r : Bytes) : Csv.pField (34 :: r) = Csv.pQuoted r := by
  simp [Csv.pField]

theorem pField_plain (c : Nat) (r : Bytes) (h : c ≠ 34) : Csv.pField (c :: r) = Csv.pPlain (c :: r) := by
  unfold Csv.pField
  split
  · rename_i heq; simp at heq; omega
  · rfl

theorem needsQuotes_false {f : Bytes} (h : fieldNeedsQuotes f = false) :
    ∀ c ∈ f, ¬ (c = 10 ∨ c = 13 ∨ c = 34 ∨ c = 44) := by
  unfold fieldNeedsQuotes at h
  split at h
  · rename_i h0; subst h0; intro c hc; simp at hc
  · split at h
    · simp at h
    · split at h
      · simp at h
      · rename_i hany
        intro c hc hcc
        apply hany
        simp only [List.any_eq_true, decide_eq_true_eq]
        exact ⟨c, hc, hcc⟩

/-- **one field**: whatever the bytes, the reader returns them and stops at the separator -/
theorem pField_csvField (f rest : Bytes) (hr : Sep rest) : Csv.pField (csvField f ++ rest) = some (f, rest) := by
  unfold csvField
  by_cases hq : fieldNeedsQuotes f = true
  · simp only [hq, if_true, List.cons_append, List.append_assoc, List.singleton_append, pField_quote]
    exact pQuoted_body f rest hr
  · have hq' : fieldNeedsQuotes f = false := by simpa using hq
    simp only [hq', Bool.false_eq_true, if_false]
    have hf := needsQuotes_false hq'
    cases f with
    | nil =>
      obtain ⟨c0, r0, e0, hc0⟩ := hr
      subst e0
      rw [List.nil_append, pField_plain c0 r0 (by omega)]
      exact pPlain_append [] (c0 :: r0) (by simp) ⟨c0, r0, rfl, hc0⟩
    | cons c cs =>
      have : c ≠ 34 := by have := hf c (by simp); omega
      rw [List.cons_append, pField_plain c _ this]
      exact pPlain_append (c :: cs) rest hf hr

theorem csvFields_false_cons (g : Bytes) (fs : List Bytes) :
    csvFields false (g :: fs) = 44 :: csvFields true (g :: fs) := by
  simp [csvFields, sep]

theorem pRecord_succ (fuel : Nat) (inp : Bytes) : Csv.pRecord (fuel + 1) inp =
    match Csv.pField inp with
    | none => none
    | some (x, r) =>
      match r with
      | [] => some ([x], [])
      | 10 :: r' => some ([x], r')
      | 13 :: 10 :: r' => some ([x], r')
      | 44 :: r' => (Csv.pRecord fuel r').map fun (xs, r'') => (x :: xs, r'')
      | _ => none := by
  rw [Csv.pRecord]
  rfl

/-- **one record**: any non-empty list of fields -/
theorem pRecord_csvFields : ∀ (fields : List Bytes) (fuel : Nat) (rest : Bytes), fields ≠ [] → fields.length ≤ fuel →
    Csv.pRecord fuel (csvFields true fields ++ 10 :: rest) = some (fields, rest)
  | [], _, _, h, _ => by simp at h
  | [f], fuel, rest, _, hl => by
    obtain ⟨fuel, rfl⟩ : ∃ g, fuel = g + 1 := ⟨fuel - 1, by simp at hl; omega⟩
    have := pField_csvField f (10 :: rest) ⟨10, rest, rfl, Or.inr rfl⟩
    simp only [csvFields, sep, if_true, List.nil_append, List.append_nil, pRecord_succ, this]
  | f :: g :: fs, fuel, rest, _, hl => by
    obtain ⟨fuel, rfl⟩ : ∃ k, fuel = k + 1 := ⟨fuel - 1, by simp at hl; omega⟩
    have ih := pRecord_csvFields (g :: fs) fuel rest (by simp) (by simp at hl ⊢; omega)
    have hf := pField_csvField f (44 :: (csvFields true (g :: fs) ++ 10 :: rest)) ⟨44, _, rfl, Or.inl rfl⟩
    have e : csvFields true (f :: g :: fs) ++ 10 :: rest = csvField f ++ 44 :: (csvFields true (g :: fs) ++ 10 :: rest) := by
      rw [show csvFields true (f :: g :: fs) = csvField f ++ csvFields false (g :: fs) by simp [csvFields, sep],
        csvFields_false_cons]
      simp
    rw [e, pRecord_succ, hf]
    simp only [ih]
    rfl

theorem csvFields_length : ∀ (fs : List Bytes) (first : Bool), fs.length ≤ (csvFields first fs).length + (if first then 1 else 0)
  | [], _ => by simp [csvFields]
  | f :: fs, first => by
    have := csvFields_length fs false
    cases first <;> simp [csvFields, sep] at this ⊢ <;> omega

theorem csvRecord_length (fs : List Bytes) : fs.length ≤ (csvRecord fs).length := by
  have := csvFields_length fs true
  simp [csvRecord] at this ⊢; omega

theorem csvRecord_pos (fs : List Bytes) : 0 < (csvRecord fs).length := by simp [csvRecord]

theorem pFile_succ_ne (fuel : Nat) (inp : Bytes) (h : inp ≠ []) : Csv.pFile (fuel + 1) inp =
    match Csv.pRecord (inp.length + 1) inp with
    | none => none
    | some (rec, rest) => (Csv.pFile fuel rest).map fun recs => rec :: recs := by
  cases inp with
  | nil => exact absurd rfl h
  | cons c r => rw [Csv.pFile]; rfl

def concatRecords : List (List Bytes) → Bytes
  | [] => []
  | r :: rs => csvRecord r ++ concatRecords rs

/-- **a whole file** -/
theorem pFile_records : ∀ (recs : List (List Bytes)) (fuel : Nat), (∀ r ∈ recs, r ≠ []) → recs.length < fuel →
    Csv.pFile fuel (concatRecords recs) = some recs
  | [], fuel, _, hl => by
    obtain ⟨fuel, rfl⟩ : ∃ k, fuel = k + 1 := ⟨fuel - 1, by simp at hl; omega⟩
    simp [concatRecords, Csv.pFile]
  | r :: rs, fuel, hne, hl => by
    obtain ⟨fuel, rfl⟩ : ∃ k, fuel = k + 1 := ⟨fuel - 1, by simp at hl; omega⟩
    have hr : r ≠ [] := hne r (by simp)
    have ih := pFile_records rs fuel (fun x hx => hne x (by simp [hx])) (by simp only [List.length_cons] at hl; omega)
    have hpos := csvRecord_pos r
    have hne' : concatRecords (r :: rs) ≠ [] := by
      intro h; have := congrArg List.length h; simp only [concatRecords, List.length_append, List.length_nil] at this; omega
    rw [pFile_succ_ne fuel _ hne']
    have hrec := pRecord_csvFields r ((concatRecords (r :: rs)).length + 1) (concatRecords rs) hr (by
      have := csvRecord_length r
      simp [concatRecords]; omega)
    have e : concatRecords (r :: rs) = csvFields true r ++ 10 :: concatRecords rs := by
      simp [concatRecords, csvRecord]
    rw [e] at hrec ⊢
    rw [hrec]
    simp [ih]

theorem concatRecords_length : ∀ recs : List (List Bytes), recs.length ≤ (concatRecords recs).length
  | [] => by simp [concatRecords]
  | r :: rs => by
    have := concatRecords_length rs
    have := csvRecord_pos r
    simp [concatRecords]; omega

theorem decode_records (recs : List (List Bytes)) (h : ∀ r ∈ recs, r ≠ []) :
    Csv.decode (concatRecords recs) = some recs := by
  unfold Csv.decode
  exact pFile_records recs _ h (by have := concatRecords_length recs; omega)

end Octo.OutFmt
