import Octo.Lemmas.AggDistinct
import Octo.Lemmas.AggFloat
/-!
  The bool returned by `Add` ("the aggregate is now empty") needs no assumption on the inputs:
  it is computed from element counts (or from the Distinct wrapper's map) only — also for float
  sums fed with ±Inf / NaN.
-/
namespace Octo.Agg
open Octo

structure FlagProof (A : Agg) where
  Inv : A.σ → List Value → Prop
  init : Inv A.init []
  step : ∀ {s : A.σ} {L : List Value} (e : Bool × Value), Inv s L → (e.1 = true → 0 < cnt L e.2) →
    Inv (A.add s e.1 e.2).1 (bagStep L e) ∧ (A.add s e.1 e.2).2 = (bagStep L e).isEmpty

variable {A : Agg}

theorem FlagProof.foldl (fp : FlagProof A) :
    ∀ (h : Hist) (s : A.σ) (f : Bool) (L : List Value), fp.Inv s L → f = L.isEmpty → ValidFrom L h →
      fp.Inv (h.foldl A.step (s, f)).1 (bagRun L h) ∧ (h.foldl A.step (s, f)).2 = (bagRun L h).isEmpty
  | [], _, _, _, hi, hf, _ => ⟨hi, hf⟩
  | e :: h, s, _, L, hi, _, hv => by
    obtain ⟨i1, f1⟩ := fp.step e hi hv.head
    simp only [List.foldl_cons, bagRun_cons]
    exact FlagProof.foldl fp h (A.add s e.1 e.2).1 (A.add s e.1 e.2).2 (bagStep L e) i1 f1 hv.tail

theorem FlagProof.main (fp : FlagProof A) (h : Hist) (hv : ValidHist h) (M : List Value) (hM : IsNet M h) :
    (A.run h).2 = M.isEmpty := by
  have hv' : ValidFrom [] h := (validFrom_nil_iff h).mpr hv
  obtain ⟨_, hf⟩ := fp.foldl h A.init true [] fp.init rfl hv'
  have hc : CntEq (bagRun [] h) M := fun v => by rw [cnt_bagRun h [] hv' v, hM v]; simp [cnt]
  rw [← isEmpty_congr hc]; exact hf

/-- an aggregate proved correct for all inputs -/
def AggProof.toFlag {spec : List Value → Value} (pf : AggProof A (fun _ => True) spec) : FlagProof A where
  Inv := pf.Inv
  init := pf.init
  step := fun e hi hv => pf.step e hi (fun _ _ => trivial) trivial hv

/-- float sum: the flag only looks at the element counter -/
def sumFloatFlag : FlagProof sumFloatAgg where
  Inv s L := s.count = (L.length : Int)
  init := rfl
  step := by
    intro s L e hi hv
    obtain ⟨r, x⟩ := e
    have hc := countProof.step (s := s.count) (L := L) (r, x) hi (fun _ _ => trivial) trivial hv
    cases r <;> exact hc

def avgFloatFlag : FlagProof avgFloatAgg where
  Inv a L := a.count = (L.length : Int)
  init := rfl
  step := by
    intro a L e hi hv
    exact countProof.step (s := a.count) (L := L) e hi (fun _ _ => trivial) trivial hv

/-- the Distinct wrapper: the flag is `items.Size() == 0`, whatever is wrapped -/
def distinctFlag (A : Agg) : FlagProof (distinctAgg A) where
  Inv s L := HInv s.1 L
  init := ⟨(List.Pairwise.nil : NoDupKeys []), (by intro e he; cases he), fun _ => rfl⟩
  step := by
    intro s L e hm hv
    obtain ⟨r, x⟩ := e
    obtain ⟨hc0, hne, hz⟩ := hinv_step r x hm hv
    have hd : (if (!r) = true then hcount s.1 x + 1 else hcount s.1 x - 1) = hcount s.1 x + delta r := by
      cases r <;> simp [delta] <;> omega
    show HInv (distinctAdd A s r x).1.1 _ ∧ (distinctAdd A s r x).2 = _
    simp only [distinctAdd]
    rw [hd]
    by_cases h0 : hcount s.1 x + delta r = 0
    · have hmap := hz h0
      simp only [h0, beq_self_eq_true, if_true]
      rw [h0] at hmap
      exact ⟨hmap, hinv_empty hmap⟩
    · have hmap := hne h0
      have h0' : (hcount s.1 x + delta r == 0) = false := by simp [h0]
      split
      · exact ⟨hmap, hinv_empty hmap⟩
      · simp only [h0', Bool.false_eq_true, if_false]
        exact ⟨hmap, hinv_empty hmap⟩

end Octo.Agg
