import Octo.Lemmas.SqlJoinCtx
import Octo.Props.C02Nodes
import Octo.Lemmas.JoinNoRetr
/-!
  Execution against the relational reading (C02): whatever interleavings the scheduler picks at the join nodes,
  if a plan runs without error then the changelog it produces consolidates to `planBag` of the plan
  (`denote_sound`); and the sinks' count tree turns a changelog into its consolidated content (`consolidate_count`).
-/
namespace Octo.SqlJoin
open Octo Octo.Sql Octo.Join

/-- the scheduler only ever produces interleavings of the two inputs' events -/
def ValidSched (sch : Sched) : Prop := ∀ a b : List Ev, Merge a b (sch a b)

/-! ### Filter and Map nodes are row-wise operators -/
theorem filterRecs_eq (p : SExpr) (ctx : VRow) : ∀ (rs out : List Rec), filterRecs p ctx rs = some out →
    out = rowOp (filterH p ctx) rs
  | [], out, h => by simp only [filterRecs, Option.some.injEq] at h; subst h; rfl
  | r :: rs, out, h => by
    simp only [filterRecs] at h
    cases he : eval (ctx ++ r.vals) p with
    | none => simp [he] at h
    | some v =>
      cases hr : filterRecs p ctx rs with
      | none => simp [he, hr] at h
      | some out' =>
        simp only [he, hr, Option.some.injEq] at h
        have ih := filterRecs_eq p ctx rs out' hr
        have keep : ∀ (b : Bool), isTrue (ctx ++ r.vals) p = b →
            rowOp (filterH p ctx) (r :: rs) = (if b then [r] else []) ++ rowOp (filterH p ctx) rs := by
          intro b hb
          unfold rowOp
          rw [List.filterMap_cons]
          unfold filterH
          rw [hb]
          cases b <;> rfl
        cases v with
        | bool b =>
          cases b
          · have ht : isTrue (ctx ++ r.vals) p = false := by unfold isTrue; rw [he]
            rw [keep false ht, ← ih, ← h]; rfl
          · have ht : isTrue (ctx ++ r.vals) p = true := by unfold isTrue; rw [he]
            rw [keep true ht, ← ih, ← h]; rfl
        | _ =>
          have ht : isTrue (ctx ++ r.vals) p = false := by unfold isTrue; rw [he]
          rw [keep false ht, ← ih, ← h]; rfl

theorem mapRecs_eq (es : List SExpr) (ctx : VRow) : ∀ (rs out : List Rec), mapRecs es ctx rs = some out →
    out = rowOp (mapH es ctx) rs
  | [], out, h => by simp only [mapRecs, Option.some.injEq] at h; subst h; rfl
  | r :: rs, out, h => by
    simp only [mapRecs] at h
    cases he : evalAll (ctx ++ r.vals) es with
    | none => simp [he] at h
    | some v =>
      cases hr : mapRecs es ctx rs with
      | none => simp [he, hr] at h
      | some out' =>
        simp only [he, hr, Option.some.injEq] at h
        have ih := mapRecs_eq es ctx rs out' hr
        have step : rowOp (mapH es ctx) (r :: rs) = { r with vals := v } :: rowOp (mapH es ctx) rs := by
          unfold rowOp
          rw [List.filterMap_cons]
          have : mapH es ctx r.vals = some v := he
          rw [this]
          rfl
        rw [step, ← ih, ← h]

/-- two lists related element by element -/
inductive Forall2 {α β : Type} (R : α → β → Prop) : List α → List β → Prop where
  | nil : Forall2 R [] []
  | cons {a : α} {b : β} {as : List α} {bs : List β} : R a b → Forall2 R as bs → Forall2 R (a :: as) (b :: bs)

/-! ### keys recorded next to the values -/
def Aug (keys : List SExpr) (ctx : VRow) (l l' : Rec) : Prop :=
  ∃ k, evalAll (ctx ++ l.vals) keys = some k ∧ l' = { l with vals := l.vals ++ k }

theorem augment_forall2 (keys : List SExpr) (ctx : VRow) : ∀ (L L' : List Rec), augment keys ctx L = some L' →
    Forall2 (Aug keys ctx) L L'
  | [], L', h => by simp only [augment, Option.some.injEq] at h; subst h; exact Forall2.nil
  | l :: L, L', h => by
    simp only [augment] at h
    cases he : evalAll (ctx ++ l.vals) keys with
    | none => simp [he] at h
    | some k =>
      cases hr : augment keys ctx L with
      | none => simp [he, hr] at h
      | some out' =>
        simp only [he, hr, Option.some.injEq] at h
        subst h
        exact Forall2.cons ⟨k, he, rfl⟩ (augment_forall2 keys ctx L out' hr)

theorem getElem?_shift (v x : VRow) (i : Nat) : (v ++ x)[v.length + i]? = x[i]? := by
  rw [List.getElem?_append_right (by omega)]
  congr 1; omega

theorem keyOf_shift (v x : VRow) : ∀ (is : List Nat), Join.keyOf (is.map (v.length + ·)) (v ++ x) = Join.keyOf is x
  | [] => rfl
  | i :: is => by
    simp only [List.map_cons, Join.keyOf, getElem?_shift, keyOf_shift v x is]

theorem keyOf_range : ∀ (x : VRow), Join.keyOf (List.range x.length) x = some x
  | [] => rfl
  | a :: x => by
    have e : List.range (a :: x).length = 0 :: (List.range x.length).map (([a] : VRow).length + ·) := by
      simp only [List.length_cons, List.range_succ_eq_map, List.length_nil, Nat.zero_add]
      congr 1
      apply List.map_congr_left
      intro i _; omega
    rw [e]
    simp only [Join.keyOf]
    have := keyOf_shift [a] x (List.range x.length)
    simp only [List.singleton_append] at this
    rw [this, keyOf_range x]
    rfl

theorem keyOf_keyIdx (v x : VRow) (k : Nat) (hx : x.length = k) : Join.keyOf (keyIdx v.length k) (v ++ x) = some x := by
  unfold keyIdx
  rw [keyOf_shift, ← hx, keyOf_range]

theorem take_app {α : Type} : ∀ (l rest : List α), (l ++ rest).take l.length = l
  | [], _ => by simp
  | a :: l, rest => by simp [take_app l rest]

theorem drop_app {α : Type} : ∀ (l rest : List α), (l ++ rest).drop l.length = rest
  | [], _ => by simp
  | a :: l, rest => by simp [drop_app l rest]

theorem strip_pair (l x r y : VRow) : strip l.length x.length r.length ((l ++ x) ++ (r ++ y)) = l ++ r := by
  unfold strip
  have e1 : (l ++ x) ++ (r ++ y) = l ++ (x ++ (r ++ y)) := by simp
  have e2 : (l ++ x) ++ (r ++ y) = (l ++ x) ++ (r ++ y) := rfl
  rw [e1, take_app]
  have e3 : l ++ (x ++ (r ++ y)) = (l ++ x) ++ (r ++ y) := by simp
  rw [e3]
  have : l.length + x.length = (l ++ x).length := by simp
  rw [this, drop_app, take_app]

theorem strip_padL (l x : VRow) (nR : Nat) :
    strip l.length x.length nR ((l ++ x) ++ nulls (nR + x.length)) = l ++ nulls nR := by
  unfold strip
  have e1 : (l ++ x) ++ nulls (nR + x.length) = l ++ (x ++ nulls (nR + x.length)) := by simp
  rw [e1, take_app]
  have e3 : l ++ (x ++ nulls (nR + x.length)) = (l ++ x) ++ nulls (nR + x.length) := by simp
  rw [e3]
  have : l.length + x.length = (l ++ x).length := by simp
  rw [this, drop_app]
  simp [nulls, List.take_replicate]

theorem strip_padR (r y : VRow) (nL : Nat) :
    strip nL y.length r.length (nulls (nL + y.length) ++ (r ++ y)) = nulls nL ++ r := by
  unfold strip
  have e1 : nulls (nL + y.length) = nulls nL ++ nulls y.length := by
    unfold nulls
    induction nL with
    | zero => simp
    | succ n ih => rw [Nat.succ_add, List.replicate_succ, List.replicate_succ, ih]; rfl
  rw [e1]
  have h1 : (nulls nL).length = nL := by simp [nulls]
  have e2 : (nulls nL ++ nulls y.length) ++ (r ++ y) = nulls nL ++ (nulls y.length ++ (r ++ y)) := by simp
  congr 1
  · rw [e2]
    have := take_app (nulls nL) (nulls y.length ++ (r ++ y))
    rw [h1] at this
    exact this
  · have h2 : (nulls nL ++ nulls y.length).length = nL + y.length := by simp [nulls]
    have := drop_app (nulls nL ++ nulls y.length) (r ++ y)
    rw [h2] at this
    rw [this, take_app]

def stripRec (nL k nR : Nat) (r : Rec) : Rec := { r with vals := strip nL k nR r.vals }

section pairs
variable {kl kr : List SExpr} {ctx : VRow} {nL nR k : Nat} {cfg : Cfg}

theorem sqlMatch_aug (hkl : kl.length = k) (hkr : kr.length = k) (hcl : cfg.keysL = keyIdx nL k) (hcr : cfg.keysR = keyIdx nR k)
    {l l' r r' : Rec} (hl : Aug kl ctx l l') (hr : Aug kr ctx r r') (hwl : l.vals.length = nL) (hwr : r.vals.length = nR) :
    sqlMatch cfg l' r' = keyMatch kl kr ctx l.vals r.vals := by
  obtain ⟨x, hx, rfl⟩ := hl
  obtain ⟨y, hy, rfl⟩ := hr
  unfold sqlMatch keyMatch
  have lx := evalAll_length kl _ x hx
  have ly := evalAll_length kr _ y hy
  rw [hcl, hcr, hx, hy, ← hwl, ← hwr]
  simp only
  rw [keyOf_keyIdx l.vals x k (by omega), keyOf_keyIdx r.vals y k (by omega)]

theorem strip_pairRec (hkl : kl.length = k) (hkr : kr.length = k)
    {l l' r r' : Rec} (hl : Aug kl ctx l l') (hr : Aug kr ctx r r') (hwl : l.vals.length = nL) (hwr : r.vals.length = nR) :
    stripRec nL k nR (pairRec l' r') = pairRec l r := by
  obtain ⟨x, hx, rfl⟩ := hl
  obtain ⟨y, hy, rfl⟩ := hr
  have lx := evalAll_length kl _ x hx
  unfold stripRec pairRec
  simp only
  have : strip nL k nR ((l.vals ++ x) ++ (r.vals ++ y)) = l.vals ++ r.vals := by
    rw [← hwl, ← hwr, show k = x.length by omega]; exact strip_pair _ _ _ _
  rw [this]

theorem joinRow_strip (hkl : kl.length = k) (hkr : kr.length = k) (hcl : cfg.keysL = keyIdx nL k) (hcr : cfg.keysR = keyIdx nR k)
    {l l' : Rec} (hl : Aug kl ctx l l') (hwl : l.vals.length = nL) : ∀ {R R' : List Rec}, Forall2 (Aug kr ctx) R R' →
    (∀ r ∈ R, r.vals.length = nR) →
    ((R'.filter fun r' => sqlMatch cfg l' r').map fun r' => stripRec nL k nR (pairRec l' r')) =
      (R.filter fun r => keyMatch kl kr ctx l.vals r.vals).map fun r => pairRec l r := by
  intro R R' hR
  induction hR with
  | nil => intro _; rfl
  | @cons r r' R R' hr _ ih =>
    intro hw
    have hwr := hw r (by simp)
    simp only [List.filter_cons]
    rw [sqlMatch_aug hkl hkr hcl hcr hl hr hwl hwr]
    by_cases hm : keyMatch kl kr ctx l.vals r.vals = true
    · simp only [hm, ↓reduceIte, List.map_cons]
      rw [strip_pairRec hkl hkr hl hr hwl hwr, ih (fun x hx => hw x (by simp [hx]))]
    · simp only [hm, Bool.false_eq_true, ↓reduceIte]
      exact ih (fun x hx => hw x (by simp [hx]))

theorem joinRecs_strip (hkl : kl.length = k) (hkr : kr.length = k) (hcl : cfg.keysL = keyIdx nL k) (hcr : cfg.keysR = keyIdx nR k)
    {R R' : List Rec} (hR : Forall2 (Aug kr ctx) R R') (hwR : ∀ r ∈ R, r.vals.length = nR) :
    ∀ {L L' : List Rec}, Forall2 (Aug kl ctx) L L' → (∀ l ∈ L, l.vals.length = nL) →
    (joinRecs cfg L' R').map (stripRec nL k nR) = gjoin (keyMatch kl kr ctx) L R := by
  intro L L' hL
  induction hL with
  | nil => intro _; rfl
  | @cons l l' L L' hl _ ih =>
    intro hw
    unfold joinRecs gjoin at *
    simp only [List.flatMap_cons, List.map_append, List.map_map]
    rw [ih (fun x hx => hw x (by simp [hx]))]
    congr 1
    exact joinRow_strip hkl hkr hcl hcr hl (hw l (by simp)) hR hwR

theorem partnersL_aug (hkl : kl.length = k) (hkr : kr.length = k) (hcl : cfg.keysL = keyIdx nL k) (hcr : cfg.keysR = keyIdx nR k)
    {l l' : Rec} (hl : Aug kl ctx l l') (hwl : l.vals.length = nL) : ∀ {R R' : List Rec}, Forall2 (Aug kr ctx) R R' →
    (∀ r ∈ R, r.vals.length = nR) → partnersL cfg l' R' = gpartL (keyMatch kl kr ctx) l.vals R := by
  intro R R' hR
  rw [partnersL_eq]
  unfold partners gpartL sideMatch
  simp only [↓reduceIte]
  induction hR with
  | nil => intro _; rfl
  | @cons r r' R R' hr _ ih =>
    intro hw
    rw [wsum_cons, wsum_cons, ih (fun x hx => hw x (by simp [hx])),
      sqlMatch_aug hkl hkr hcl hcr hl hr hwl (hw r (by simp))]
    obtain ⟨y, _, rfl⟩ := hr
    rfl

theorem partnersR_aug (hkl : kl.length = k) (hkr : kr.length = k) (hcl : cfg.keysL = keyIdx nL k) (hcr : cfg.keysR = keyIdx nR k)
    {r r' : Rec} (hr : Aug kr ctx r r') (hwr : r.vals.length = nR) : ∀ {L L' : List Rec}, Forall2 (Aug kl ctx) L L' →
    (∀ l ∈ L, l.vals.length = nL) → partnersR cfg L' r' = gpartR (keyMatch kl kr ctx) L r.vals := by
  intro L L' hL
  rw [partnersR_eq]
  unfold partners gpartR sideMatch
  simp only [Bool.false_eq_true, ↓reduceIte]
  induction hL with
  | nil => intro _; rfl
  | @cons l l' L L' hl _ ih =>
    intro hw
    rw [wsum_cons, wsum_cons, ih (fun x hx => hw x (by simp [hx])),
      sqlMatch_aug hkl hkr hcl hcr hl hr (hw l (by simp)) hwr]
    obtain ⟨x, _, rfl⟩ := hl
    rfl

theorem padLeft_strip (hkl : kl.length = k) (hkr : kr.length = k) (hcl : cfg.keysL = keyIdx nL k) (hcr : cfg.keysR = keyIdx nR k)
    (hnR : cfg.nR = nR + k)
    {R R' : List Rec} (hR : Forall2 (Aug kr ctx) R R') (hwR : ∀ r ∈ R, r.vals.length = nR) :
    ∀ {L L' : List Rec}, Forall2 (Aug kl ctx) L L' → (∀ l ∈ L, l.vals.length = nL) →
    (padLeftRecs cfg L' R').map (stripRec nL k nR) = gpadL (keyMatch kl kr ctx) nR L R := by
  intro L L' hL
  unfold padLeftRecs gpadL
  induction hL with
  | nil => intro _; rfl
  | @cons l l' L L' hl _ ih =>
    intro hw
    have hwl := hw l (by simp)
    simp only [List.filter_cons]
    rw [partnersL_aug hkl hkr hcl hcr hl hwl hR hwR]
    by_cases hm : (gpartL (keyMatch kl kr ctx) l.vals R == 0) = true
    · simp only [hm, ↓reduceIte, List.map_cons]
      rw [ih (fun x hx => hw x (by simp [hx]))]
      congr 1
      obtain ⟨x, hx, rfl⟩ := hl
      have lx := evalAll_length kl _ x hx
      unfold stripRec
      simp only [hnR]
      have : strip nL k nR ((l.vals ++ x) ++ nulls (nR + k)) = l.vals ++ nulls nR := by
        rw [← hwl, show k = x.length by omega]; exact strip_padL _ _ _
      rw [this]
    · simp only [hm, Bool.false_eq_true, ↓reduceIte]
      exact ih (fun x hx => hw x (by simp [hx]))

theorem padRight_strip (hkl : kl.length = k) (hkr : kr.length = k) (hcl : cfg.keysL = keyIdx nL k) (hcr : cfg.keysR = keyIdx nR k)
    (hnL : cfg.nL = nL + k)
    {L L' : List Rec} (hL : Forall2 (Aug kl ctx) L L') (hwL : ∀ l ∈ L, l.vals.length = nL) :
    ∀ {R R' : List Rec}, Forall2 (Aug kr ctx) R R' → (∀ r ∈ R, r.vals.length = nR) →
    (padRightRecs cfg L' R').map (stripRec nL k nR) = gpadR (keyMatch kl kr ctx) nL L R := by
  intro R R' hR
  unfold padRightRecs gpadR
  induction hR with
  | nil => intro _; rfl
  | @cons r r' R R' hr _ ih =>
    intro hw
    have hwr := hw r (by simp)
    simp only [List.filter_cons]
    rw [partnersR_aug hkl hkr hcl hcr hr hwr hL hwL]
    by_cases hm : (gpartR (keyMatch kl kr ctx) L r.vals == 0) = true
    · simp only [hm, ↓reduceIte, List.map_cons]
      rw [ih (fun x hx => hw x (by simp [hx]))]
      congr 1
      obtain ⟨y, hy, rfl⟩ := hr
      have ly := evalAll_length kr _ y hy
      unfold stripRec
      simp only [hnL]
      have : strip nL k nR (nulls (nL + k) ++ (r.vals ++ y)) = nulls nL ++ r.vals := by
        rw [← hwr, show k = y.length by omega]; exact strip_padR _ _ _
      rw [this]
    · simp only [hm, Bool.false_eq_true, ↓reduceIte]
      exact ih (fun x hx => hw x (by simp [hx]))

end pairs

/-! ### dropping the recorded keys respects net equality -/
theorem cmpList_take : ∀ {a b : VRow} (n : Nat), cmpList a b = 0 → cmpList (a.take n) (b.take n) = 0
  | [], [], _, _ => by simp [cmpList, cmpListWith]
  | [], _ :: _, _, h => by simp [cmpList, cmpListWith] at h
  | _ :: _, [], _, h => by simp [cmpList, cmpListWith] at h
  | x :: xs, y :: ys, n, h => by
    have hh := (cmpList_cons_eq x y xs ys).mp h
    cases n with
    | zero => simp [cmpList, cmpListWith]
    | succ n => simp only [List.take_succ_cons]; exact (cmpList_cons_eq _ _ _ _).mpr ⟨hh.1, cmpList_take n hh.2⟩

theorem cmpList_drop : ∀ {a b : VRow} (n : Nat), cmpList a b = 0 → cmpList (a.drop n) (b.drop n) = 0
  | [], [], _, _ => by simp [cmpList, cmpListWith]
  | [], _ :: _, _, h => by simp [cmpList, cmpListWith] at h
  | _ :: _, [], _, h => by simp [cmpList, cmpListWith] at h
  | x :: xs, y :: ys, n, h => by
    have hh := (cmpList_cons_eq x y xs ys).mp h
    cases n with
    | zero => simpa using h
    | succ n => simp only [List.drop_succ_cons]; exact cmpList_drop n hh.2

theorem strip_congr (nL k nR : Nat) : OpCongr (fun v => some (strip nL k nR v)) := by
  intro a b hab
  show cmpList (strip nL k nR a) (strip nL k nR b) = 0
  unfold strip
  exact cmpList_append_eq _ _ (cmpList_take nL hab) (cmpList_take nR (cmpList_drop (nL + k) hab))

theorem map_stripRec_eq (nL k nR : Nat) (X : List Rec) :
    X.map (stripRec nL k nR) = rowOp (fun v => some (strip nL k nR v)) X := by
  unfold rowOp
  induction X with
  | nil => rfl
  | cons r X ih => simp only [List.map_cons, List.filterMap_cons, Option.map_some, ih]; rfl

theorem strip_netEq (nL k nR : Nat) {X Y : List Rec} (h : NetEq X Y) :
    NetEq (X.map (stripRec nL k nR)) (Y.map (stripRec nL k nR)) := by
  rw [map_stripRec_eq, map_stripRec_eq]
  exact rowOp_netEq (strip_congr nL k nR) h

/-! ### the join nodes -/
theorem aug_width {keys : List SExpr} {ctx : VRow} {n : Nat} {L L' : List Rec} (h : Forall2 (Aug keys ctx) L L')
    (hw : ∀ l ∈ L, l.vals.length = n) : ∀ l' ∈ L', l'.vals.length = n + keys.length := by
  induction h with
  | nil => intro l' hl'; simp at hl'
  | @cons l l1 L L1 hl _ ih =>
    intro l' hl'
    simp only [List.mem_cons] at hl'
    rcases hl' with rfl | hl'
    · obtain ⟨x, hx, rfl⟩ := hl
      simp [hw l (by simp), evalAll_length _ _ x hx]
    · exact ih (fun x hx => hw x (by simp [hx])) l' hl'

theorem widthsOK_iff (n : Nat) (L : List Rec) : widthsOK n L = true ↔ ∀ l ∈ L, l.vals.length = n := by
  unfold widthsOK
  simp [List.all_eq_true]

theorem joinNode_inner {sch : Sched} (hs : ValidSched sch) {kl kr : List SExpr} {ctx : VRow} {nL nR : Nat}
    (hk : kl.length = kr.length) {L R L' R' out : List Rec}
    (hwL : ∀ l ∈ L, l.vals.length = nL) (hwR : ∀ r ∈ R, r.vals.length = nR)
    (haL : augment kl ctx L = some L') (haR : augment kr ctx R = some R')
    (hrun : joinNode sch (cfgInner (keyIdx nL kl.length) (keyIdx nR kl.length)) nL kl.length nR L' R' = some out) :
    NetEq out (gjoin (keyMatch kl kr ctx) L R) := by
  unfold joinNode at hrun
  split at hrun
  · rename_i o ho
    simp only [Option.some.injEq] at hrun
    subst hrun
    have hI : Interleave (L'.map Msg.data) (R'.map Msg.data) (sch (evsOf true (L'.map Msg.data)) (evsOf false (R'.map Msg.data))) :=
      hs _ _
    have hnode := Octo.C02.streamJoin_is_sql_join (keyIdx nL kl.length) (keyIdx nR kl.length) hI ho
    have e1 : recs (L'.map Msg.data) = L' := recs_dataMsgs L'
    have e2 : recs (R'.map Msg.data) = R' := recs_dataMsgs R'
    rw [e1, e2] at hnode
    have h1 : NetEq ((recs o).map (stripRec nL kl.length nR))
        ((joinRecs (cfgInner (keyIdx nL kl.length) (keyIdx nR kl.length)) L' R').map (stripRec nL kl.length nR)) :=
      strip_netEq _ _ _ hnode
    rw [joinRecs_strip (cfg := cfgInner (keyIdx nL kl.length) (keyIdx nR kl.length)) rfl hk.symm rfl rfl
      (augment_forall2 kr ctx R R' haR) hwR (augment_forall2 kl ctx L L' haL) hwL] at h1
    exact h1
  · cases hrun

theorem outerRecs_map {cfg : Cfg} (f : Rec → Rec) (L R : List Rec) :
    (outerRecs cfg L R).map f =
      (joinRecs cfg L R).map f ++ (if cfg.outerL then (padLeftRecs cfg L R).map f else [])
        ++ (if cfg.outerR then (padRightRecs cfg L R).map f else []) := by
  unfold outerRecs
  simp only [List.map_append]
  cases cfg.outerL <;> cases cfg.outerR <;> simp

theorem joinNode_outer {sch : Sched} (hs : ValidSched sch) {kl kr : List SExpr} {ctx : VRow} {nL nR : Nat} (isL isR : Bool)
    (hk : kl.length = kr.length) {L R L' R' out : List Rec}
    (hwL : ∀ l ∈ L, l.vals.length = nL) (hwR : ∀ r ∈ R, r.vals.length = nR)
    (haL : augment kl ctx L = some L') (haR : augment kr ctx R = some R')
    (hrun : joinNode sch (cfgOuter isL isR (nL + kl.length) (nR + kl.length) (keyIdx nL kl.length) (keyIdx nR kl.length))
      nL kl.length nR L' R' = some out) :
    NetEq out (gouter (keyMatch kl kr ctx) isL isR nL nR L R) := by
  unfold joinNode at hrun
  split at hrun
  · rename_i o ho
    simp only [Option.some.injEq] at hrun
    subst hrun
    have fL := augment_forall2 kl ctx L L' haL
    have fR := augment_forall2 kr ctx R R' haR
    have hI : Interleave (L'.map Msg.data) (R'.map Msg.data) (sch (evsOf true (L'.map Msg.data)) (evsOf false (R'.map Msg.data))) :=
      hs _ _
    have e1 : recs (L'.map Msg.data) = L' := recs_dataMsgs L'
    have e2 : recs (R'.map Msg.data) = R' := recs_dataMsgs R'
    have hnode := Octo.C02.outerJoin_is_sql_outer_join isL isR (nL + kl.length) (nR + kl.length)
      (keyIdx nL kl.length) (keyIdx nR kl.length)
      (by rw [e1]; exact aug_width fL hwL) (by rw [e2, hk]; exact aug_width fR hwR) hI ho
    rw [e1, e2] at hnode
    have h1 := strip_netEq nL kl.length nR hnode
    rw [outerRecs_map,
      joinRecs_strip (cfg := cfgOuter isL isR (nL + kl.length) (nR + kl.length) (keyIdx nL kl.length) (keyIdx nR kl.length))
        rfl hk.symm rfl rfl fR hwR fL hwL] at h1
    unfold gouter
    have e3 : (cfgOuter isL isR (nL + kl.length) (nR + kl.length) (keyIdx nL kl.length) (keyIdx nR kl.length)).outerL = isL := rfl
    have e4 : (cfgOuter isL isR (nL + kl.length) (nR + kl.length) (keyIdx nL kl.length) (keyIdx nR kl.length)).outerR = isR := rfl
    rw [e3, e4] at h1
    rw [padLeft_strip (cfg := cfgOuter isL isR (nL + kl.length) (nR + kl.length) (keyIdx nL kl.length) (keyIdx nR kl.length))
        rfl hk.symm rfl rfl rfl fR hwR fL hwL,
      padRight_strip (cfg := cfgOuter isL isR (nL + kl.length) (nR + kl.length) (keyIdx nL kl.length) (keyIdx nR kl.length))
        rfl hk.symm rfl rfl rfl fL hwL fR hwR] at h1
    exact h1
  · cases hrun

/-! ### the lookup join node -/
theorem lookupRecs_eq (f : VRow → Option (List Rec)) : ∀ (L out : List Rec), lookupRecs f L = some out →
    (∀ l ∈ L, ∃ R, f l.vals = some R) ∧ out = glookup (fun a => (f a).getD []) L
  | [], out, h => by
    simp only [lookupRecs, Option.some.injEq] at h; subst h
    exact ⟨fun l hl => by simp at hl, rfl⟩
  | l :: L, out, h => by
    simp only [lookupRecs] at h
    cases hf : f l.vals with
    | none => simp [hf] at h
    | some R =>
      cases hr : lookupRecs f L with
      | none => simp [hf, hr] at h
      | some rest =>
        simp only [hf, hr, Option.some.injEq] at h
        have ih := lookupRecs_eq f L rest hr
        constructor
        · intro x hx
          simp only [List.mem_cons] at hx
          rcases hx with rfl | hx
          · exact ⟨R, hf⟩
          · exact ih.1 x hx
        · subst h
          unfold glookup at ih ⊢
          rw [List.flatMap_cons, ← ih.2]
          show _ = List.map (fun r => lookPair l r) ((f l.vals).getD []) ++ rest
          rw [hf]
          rfl

/-! ### the whole plan -/
theorem denote_sound {db : Db} (hdb : DbOK db) {sch : Sched} (hs : ValidSched sch) :
    ∀ (p : Plan) (ctx : VRow) (out : List Rec), p.ok = true → denote sch db p ctx = some out →
      NetEq out (asRecs (planBag db p ctx)) := by
  intro p
  induction p with
  | scan i =>
    intro ctx out _ h
    simp only [denote, Option.some.injEq] at h
    subst h
    exact NetEq.refl _
  | filter q s ih =>
    intro ctx out hok h
    simp only [Plan.ok, Bool.and_eq_true] at hok
    simp only [denote] at h
    cases hsd : denote sch db s ctx with
    | none => simp [hsd] at h
    | some rs =>
      simp only [hsd] at h
      rw [filterRecs_eq q ctx rs out h]
      simp only [planBag, filter_eq_filterMap, ← rowOp_asRecs]
      exact rowOp_netEq (filterH_congr q ctx) (ih ctx rs hok.2 hsd)
  | map es s ih =>
    intro ctx out hok h
    simp only [Plan.ok] at hok
    simp only [denote] at h
    cases hsd : denote sch db s ctx with
    | none => simp [hsd] at h
    | some rs =>
      simp only [hsd] at h
      rw [mapRecs_eq es ctx rs out h]
      simp only [planBag]
      show NetEq _ (asRecs (List.filterMap (mapH es ctx) _))
      rw [← rowOp_asRecs]
      exact rowOp_netEq (mapH_congr es ctx) (ih ctx rs hok hsd)
  | streamJoin kl kr l r ihl ihr =>
    intro ctx out hok h
    simp only [Plan.ok, Bool.and_eq_true, beq_iff_eq] at hok
    simp only [denote] at h
    cases hl : denote sch db l ctx with
    | none => simp [hl] at h
    | some L =>
      cases hr : denote sch db r ctx with
      | none => simp [hl, hr] at h
      | some R =>
        simp only [hl, hr] at h
        split at h
        · rename_i hw
          simp only [Bool.and_eq_true, widthsOK_iff] at hw
          cases haL : augment kl ctx L with
          | none => simp [haL] at h
          | some L' =>
            cases haR : augment kr ctx R with
            | none => simp [haL, haR] at h
            | some R' =>
              simp only [haL, haR] at h
              have h1 := joinNode_inner hs hok.1.1 hw.1 hw.2 haL haR h
              simp only [planBag, ← gjoin_asRecs]
              exact NetEq.trans h1 (gjoin_netEq (keyMatch_mcongr kl kr ctx) (ihl ctx L hok.1.2 hl) (ihr ctx R hok.2 hr))
        · cases h
  | outerJoin isL isR kl kr l r ihl ihr =>
    intro ctx out hok h
    simp only [Plan.ok, Bool.and_eq_true, beq_iff_eq] at hok
    simp only [denote] at h
    cases hl : denote sch db l ctx with
    | none => simp [hl] at h
    | some L =>
      cases hr : denote sch db r ctx with
      | none => simp [hl, hr] at h
      | some R =>
        simp only [hl, hr] at h
        split at h
        · rename_i hw
          simp only [Bool.and_eq_true, widthsOK_iff] at hw
          cases haL : augment kl ctx L with
          | none => simp [haL] at h
          | some L' =>
            cases haR : augment kr ctx R with
            | none => simp [haL, haR] at h
            | some R' =>
              simp only [haL, haR] at h
              have h1 := joinNode_outer hs isL isR hok.1.1 hw.1 hw.2 haL haR h
              simp only [planBag, ← gouter_asRecs]
              exact NetEq.trans h1 (gouter_netEq (keyMatch_mcongr kl kr ctx) isL isR _ _ (ihl ctx L hok.1.2 hl) (ihr ctx R hok.2 hr))
        · cases h
  | lookupJoin s j ihs ihj =>
    intro ctx out hok h
    simp only [Plan.ok, Bool.and_eq_true] at hok
    simp only [denote] at h
    cases hsd : denote sch db s ctx with
    | none => simp [hsd] at h
    | some L =>
      simp only [hsd] at h
      obtain ⟨hall, rfl⟩ := lookupRecs_eq _ L out h
      simp only [planBag, ← glookup_asRecs]
      refine NetEq.trans (glookup_inner (J' := fun a => asRecs (planBag db j (ctx ++ a))) ?_)
        (glookup_outer ?_ (ihs ctx L hok.1 hsd))
      · intro l hl
        obtain ⟨R, hR⟩ := hall l hl
        simp only [hR, Option.getD_some]
        exact ihj (ctx ++ l.vals) R hok.2 hR
      · intro a a' ha
        exact planBag_ctx_congr db j (cmpList_ctx (cmpList_refl ctx) ha)

/-! ### `NoRetractions` is sound -/
theorem rowOp_nr (h : VRow → Option VRow) {A : List Rec} (hA : NR A) : NR (rowOp h A) := by
  intro r hr
  unfold rowOp at hr
  simp only [List.mem_filterMap] at hr
  obtain ⟨a, ha, hm⟩ := hr
  cases hv : h a.vals with
  | none => simp [hv] at hm
  | some v =>
    simp only [hv, Option.map_some, Option.some.injEq] at hm
    rw [← hm]; exact hA a ha

theorem aug_nr {keys : List SExpr} {ctx : VRow} {L L' : List Rec} (h : Forall2 (Aug keys ctx) L L') (hL : NR L) : NR L' := by
  induction h with
  | nil => exact NR.nil
  | @cons l l1 L L1 hl _ ih =>
    intro r hr
    simp only [List.mem_cons] at hr
    rcases hr with rfl | hr
    · obtain ⟨x, _, rfl⟩ := hl
      exact hL l (by simp)
    · exact ih (fun x hx => hL x (by simp [hx])) r hr

theorem merge_mem {α : Type} {a b c : List α} (h : Merge a b c) : ∀ e ∈ c, e ∈ a ∨ e ∈ b := by
  induction h with
  | nil => intro e he; simp at he
  | left _ ih =>
    intro e he
    simp only [List.mem_cons] at he ⊢
    rcases he with rfl | he
    · exact Or.inl (Or.inl rfl)
    · rcases ih e he with h | h
      · exact Or.inl (Or.inr h)
      · exact Or.inr h
  | right _ ih =>
    intro e he
    simp only [List.mem_cons] at he ⊢
    rcases he with rfl | he
    · exact Or.inr (Or.inl rfl)
    · rcases ih e he with h | h
      · exact Or.inl h
      · exact Or.inr (Or.inr h)

theorem evsOf_data_mem {left : Bool} {X : List Rec} {e : Ev} {r : Rec} (he : e ∈ evsOf left (X.map Msg.data))
    (hm : e.msg = some (.data r)) : r ∈ X := by
  unfold evsOf at he
  simp only [List.map_map, List.mem_append, List.mem_map, Function.comp_apply, List.mem_singleton] at he
  rcases he with ⟨x, hx, rfl⟩ | rfl
  · simp only [Option.some.injEq, Msg.data.injEq] at hm
    subst hm; exact hx
  · simp at hm

theorem joinNode_nr {sch : Sched} (hs : ValidSched sch) {cfg : Cfg} (hL : cfg.outerL = false) (hR : cfg.outerR = false)
    {nL k nR : Nat} {L' R' out : List Rec} (hl : NR L') (hr : NR R') (h : joinNode sch cfg nL k nR L' R' = some out) : NR out := by
  unfold joinNode at h
  split at h
  · rename_i o ho
    simp only [Option.some.injEq] at h
    subst h
    have hnr := run_nr hL hR (σ := sch (evsOf true (L'.map Msg.data)) (evsOf false (R'.map Msg.data))) (by
      intro e he r hm
      rcases merge_mem (hs _ _) e he with h1 | h1
      · exact hl r (evsOf_data_mem h1 hm)
      · exact hr r (evsOf_data_mem h1 hm)) ho
    intro x hx
    simp only [List.mem_map] at hx
    obtain ⟨y, hy, rfl⟩ := hx
    exact hnr y hy
  · cases h

/-- a plan whose schema says `NoRetractions` produces no retraction, under every scheduler -/
theorem denote_nr {db : Db} {sch : Sched} (hs : ValidSched sch) :
    ∀ (p : Plan) (ctx : VRow) (out : List Rec), p.noRetr = true → denote sch db p ctx = some out → NR out := by
  intro p
  induction p with
  | scan i =>
    intro ctx out _ h
    simp only [denote, Option.some.injEq] at h
    subst h
    intro r hr
    simp only [List.mem_map] at hr
    obtain ⟨v, _, rfl⟩ := hr
    rfl
  | filter q s ih =>
    intro ctx out hn h
    simp only [Plan.noRetr] at hn
    simp only [denote] at h
    cases hsd : denote sch db s ctx with
    | none => simp [hsd] at h
    | some rs =>
      simp only [hsd] at h
      rw [filterRecs_eq q ctx rs out h]
      exact rowOp_nr _ (ih ctx rs hn hsd)
  | map es s ih =>
    intro ctx out hn h
    simp only [Plan.noRetr] at hn
    simp only [denote] at h
    cases hsd : denote sch db s ctx with
    | none => simp [hsd] at h
    | some rs =>
      simp only [hsd] at h
      rw [mapRecs_eq es ctx rs out h]
      exact rowOp_nr _ (ih ctx rs hn hsd)
  | streamJoin kl kr l r ihl ihr =>
    intro ctx out hn h
    simp only [Plan.noRetr, Bool.and_eq_true] at hn
    simp only [denote] at h
    cases hl : denote sch db l ctx with
    | none => simp [hl] at h
    | some L =>
      cases hr : denote sch db r ctx with
      | none => simp [hl, hr] at h
      | some R =>
        simp only [hl, hr] at h
        split at h
        · cases haL : augment kl ctx L with
          | none => simp [haL] at h
          | some L' =>
            cases haR : augment kr ctx R with
            | none => simp [haL, haR] at h
            | some R' =>
              simp only [haL, haR] at h
              exact joinNode_nr hs rfl rfl (aug_nr (augment_forall2 kl ctx L L' haL) (ihl ctx L hn.1 hl))
                (aug_nr (augment_forall2 kr ctx R R' haR) (ihr ctx R hn.2 hr)) h
        · cases h
  | outerJoin isL isR kl kr l r ihl ihr =>
    intro ctx out hn h
    simp only [Plan.noRetr, Bool.and_eq_true, Bool.not_eq_true'] at hn
    obtain ⟨⟨⟨hnl, hnr⟩, hL⟩, hR⟩ := hn
    subst hL; subst hR
    simp only [denote] at h
    cases hl : denote sch db l ctx with
    | none => simp [hl] at h
    | some L =>
      cases hr : denote sch db r ctx with
      | none => simp [hl, hr] at h
      | some R =>
        simp only [hl, hr] at h
        split at h
        · cases haL : augment kl ctx L with
          | none => simp [haL] at h
          | some L' =>
            cases haR : augment kr ctx R with
            | none => simp [haL, haR] at h
            | some R' =>
              simp only [haL, haR] at h
              exact joinNode_nr hs rfl rfl (aug_nr (augment_forall2 kl ctx L L' haL) (ihl ctx L hnl hl))
                (aug_nr (augment_forall2 kr ctx R R' haR) (ihr ctx R hnr hr)) h
        · cases h
  | lookupJoin s j ihs ihj =>
    intro ctx out hn h
    simp only [Plan.noRetr, Bool.and_eq_true] at hn
    simp only [denote] at h
    cases hsd : denote sch db s ctx with
    | none => simp [hsd] at h
    | some L =>
      simp only [hsd] at h
      obtain ⟨hall, rfl⟩ := lookupRecs_eq _ L out h
      have hL := ihs ctx L hn.1 hsd
      intro x hx
      unfold glookup at hx
      simp only [List.mem_flatMap, List.mem_map] at hx
      obtain ⟨l, hl, r, hr, rfl⟩ := hx
      obtain ⟨R, hR⟩ := hall l hl
      simp only [hR, Option.getD_some] at hr
      have hr' := ihj (ctx ++ l.vals) R hn.2 hR r hr
      simp [lookPair, hL l hl, hr']

/-- printing the values of a retraction-free changelog prints its consolidated content -/
theorem raw_count : ∀ (rs : List Rec), NR rs → ∀ row, (countRow row (rs.map fun r => r.vals) : Int) = net rs row
  | [], _, row => by simp [countRow, net]
  | r :: rs, h, row => by
    have ih := raw_count rs (fun x hx => h x (by simp [hx])) row
    have hr : r.retr = false := h r (by simp)
    have hw : r.weight row = if Octo.rowEq r.vals row then 1 else 0 := by
      rw [weight_sgn, sgn_eq, hr]; rfl
    simp only [List.map_cons, countRow, net_cons, hw]
    have e : Sql.rowEq row r.vals = Octo.rowEq r.vals row := by rw [Join.rowEq_symm r.vals row]; rfl
    rw [e]
    push_cast
    rw [ih]
    split <;> simp

/-! ### the consolidating sinks -/
theorem removeFirst_count : ∀ (x : VRow) (acc acc' : List VRow), removeFirst x acc = some acc' →
    ∀ row, (countRow row acc : Int) = countRow row acc' + (if Octo.rowEq x row then 1 else 0)
  | _, [], _, h => by simp [removeFirst] at h
  | x, y :: ys, acc', h => by
    intro row
    simp only [removeFirst] at h
    by_cases hxy : Octo.rowEq x y = true
    · simp only [hxy, ↓reduceIte, Option.some.injEq] at h
      subst h
      simp only [countRow]
      have e : Sql.rowEq row y = Octo.rowEq x row := by
        have h1 : Octo.rowEq x row = Octo.rowEq y row := rowEq_congr_left (rowEq_iff.mp hxy) row
        rw [h1, Join.rowEq_symm y row]; rfl
      rw [e]
      split <;> simp <;> omega
    · simp only [hxy, Bool.false_eq_true, ↓reduceIte] at h
      cases hr : removeFirst x ys with
      | none => simp [hr] at h
      | some rest =>
        simp only [hr, Option.map_some, Option.some.injEq] at h
        subst h
        have ih := removeFirst_count x ys rest hr row
        simp only [countRow]
        push_cast
        omega

theorem countRow_app (r : VRow) : ∀ (a b : List VRow), countRow r (a ++ b) = countRow r a + countRow r b
  | [], b => by simp [countRow]
  | x :: a, b => by simp only [List.cons_append, countRow, countRow_app r a b]; omega

theorem countRow_append_single (row v : VRow) (acc : List VRow) :
    (countRow row (acc ++ [v]) : Int) = countRow row acc + (if Octo.rowEq v row then 1 else 0) := by
  rw [countRow_app]
  simp only [countRow]
  have e : Sql.rowEq row v = Octo.rowEq v row := by rw [Join.rowEq_symm v row]; rfl
  rw [e]
  split <;> simp

/-- the count tree holds every row as often as the changelog's net content says -/
theorem consolidate_count : ∀ (rs : List Rec) (acc out : List VRow), consolidate acc rs = some out →
    ∀ row, (countRow row out : Int) = countRow row acc + net rs row
  | [], acc, out, h => by
    simp only [consolidate, Option.some.injEq] at h; subst h
    intro row; simp [net]
  | r :: rs, acc, out, h => by
    intro row
    simp only [consolidate] at h
    rw [net_cons, weight_eq]
    by_cases hretr : r.retr = true
    · simp only [hretr, ↓reduceIte] at h ⊢
      cases hrm : removeFirst r.vals acc with
      | none => simp [hrm] at h
      | some acc' =>
        simp only [hrm] at h
        have ih := consolidate_count rs acc' out h row
        have hc := removeFirst_count r.vals acc acc' hrm row
        rw [ih]
        split at hc <;> rename_i hh <;> simp only [hh, ↓reduceIte, Bool.false_eq_true] <;> omega
    · simp only [hretr, Bool.false_eq_true, ↓reduceIte] at h ⊢
      have ih := consolidate_count rs (acc ++ [r.vals]) out h row
      rw [ih, countRow_append_single]
      split <;> omega

theorem net_asRecs (B : List VRow) (row : VRow) : net (asRecs B) row = (countRow row B : Int) := by
  unfold asRecs
  induction B with
  | nil => rfl
  | cons b B ih =>
    simp only [List.map_cons, net_cons, ih, countRow, mkRec, weight_eq]
    have e : Sql.rowEq row b = Octo.rowEq b row := by rw [Join.rowEq_symm b row]; rfl
    rw [e]
    push_cast
    split <;> simp

end Octo.SqlJoin
