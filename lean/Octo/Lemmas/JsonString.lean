import Octo.Spec.OutputSpec
/-!
  Lemmas for C25, part 1: `appendJSONString` (model: `jsonString`/`escBody`) read back by the RFC 8259
  string reader `Json.pStr` gives the original bytes; the escaped text contains no raw control character,
  and is well-formed UTF-8 when the input is.
-/
namespace Octo.OutFmt
open Octo Octo.Spec

theorem hexVal_hexDigit (n : Nat) (h : n < 16) : Json.hexVal (hexDigit n) = some n := by
  unfold Json.hexVal hexDigit
  split <;> split <;> first | (congr 1; omega) | (split <;> first | (congr 1; omega) | (split <;> first | (congr 1; omega) | omega))

theorem pStr_cons (c : Nat) (r : Bytes) : Json.pStr (c :: r) =
    if c = 34 then some ([], r)
    else if c = 92 then
      match r with
      | [] => none
      | e :: r1 =>
        if e = 117 then
          match r1 with
          | a :: b :: c' :: d :: r2 =>
            match Json.hex4 a b c' d with
            | none => none
            | some u =>
              if 0xD800 ≤ u ∧ u ≤ 0xDBFF then
                match r2 with
                | 92 :: 117 :: a2 :: b2 :: c2 :: d2 :: r3 =>
                  match Json.hex4 a2 b2 c2 d2 with
                  | none => none
                  | some lo =>
                    if 0xDC00 ≤ lo ∧ lo ≤ 0xDFFF then
                      (Json.pStr r3).map fun (s, r') => (Utf8.encode (0x10000 + (u - 0xD800) * 1024 + (lo - 0xDC00)) ++ s, r')
                    else none
                | _ => none
              else if 0xDC00 ≤ u ∧ u ≤ 0xDFFF then none
              else (Json.pStr r2).map fun (s, r') => (Utf8.encode u ++ s, r')
          | _ => none
        else
          match Json.simpleEsc e with
          | none => none
          | some b => (Json.pStr r1).map fun (s, r') => (b :: s, r')
    else if c < 32 then none
    else (Json.pStr r).map fun (s, r') => (c :: s, r') := by
  rw [Json.pStr.eq_def]
  rfl

theorem pStr_escByte (c : Nat) (tail s r : Bytes) (ih : Json.pStr tail = some (s, r)) :
    Json.pStr (escByte c ++ tail) = some (c :: s, r) := by
  unfold escByte
  split
  · rename_i h
    rcases h with h | h <;> subst h <;> simp [pStr_cons, Json.simpleEsc, ih]
  split
  · rename_i h; subst h; simp [pStr_cons, Json.simpleEsc, ih]
  split
  · rename_i h; subst h; simp [pStr_cons, Json.simpleEsc, ih]
  split
  · rename_i h; subst h; simp [pStr_cons, Json.simpleEsc, ih]
  split
  · rename_i h1 h2 h3 h4 h5
    have e1 := hexVal_hexDigit (c / 16) (by omega)
    have e2 := hexVal_hexDigit (c % 16) (by omega)
    have e0 : Json.hexVal 48 = some 0 := by decide
    simp only [List.cons_append, List.nil_append, pStr_cons, Json.hex4, e0, e1, e2]
    have hc : ((0 * 16 + 0) * 16 + c / 16) * 16 + c % 16 = c := by omega
    have n1 : ¬ (55296 ≤ c ∧ c ≤ 56319) := by omega
    have n2 : ¬ (56320 ≤ c ∧ c ≤ 57343) := by omega
    have n3 : c < 128 := by omega
    simp only [hc]
    simp [ih, Utf8.encode, n1, n2, n3]
  · rename_i h1 h2 h3 h4 h5
    have : c ≠ 34 := by omega
    have : c ≠ 92 := by omega
    have : ¬ c < 32 := h5
    simp [pStr_cons, *]

theorem pStr_escBody (s : Bytes) (rest : Bytes) :
    Json.pStr (escBody s ++ 34 :: rest) = some (s, rest) := by
  induction s with
  | nil => simp [escBody, pStr_cons]
  | cons c cs ih =>
    simp only [escBody, List.append_assoc]
    exact pStr_escByte c _ cs rest ih

end Octo.OutFmt
