import Octo.Lemmas.PluginsFrame
/-!
  Every primitive step keeps a tree closed (every entry's parent is a directory). With this, the state left by a
  killed operation is again a legitimate starting state, so the crash theorems of C27 compose over sequences of
  (killed or completed) operations.
-/
namespace Octo.Plugins
open Octo.Fs

theorem pre_concat {b p : Path} {y : FName} (h : isPre b (p ++ [y]) = true) : b = p ++ [y] ∨ isPre b p = true := by
  rcases List.prefix_concat_iff.1 (List.isPrefixOf_iff_prefix.1 h) with h' | h'
  · exact Or.inl h'
  · exact Or.inr (List.isPrefixOf_iff_prefix.2 h')

theorem isPre_concat_of_isPre {a p : Path} (y : FName) (h : isPre a p = true) : isPre a (p ++ [y]) = true :=
  isPre_trans h (isPre_append p [y])

theorem closed_removeAll {fs : Fs} (h : Closed fs) (a : Path) : Closed (removeAll a fs) := by
  intro p x hp hs
  rw [get_removeAll] at hs ⊢
  split at hs
  · cases hs
  · next hn =>
    have : isPre a p = false := by
      cases hh : isPre a p with
      | false => rfl
      | true => exact absurd (isPre_concat_of_isPre x hh) hn
    simp only [this, Bool.false_eq_true, if_false]
    exact h p x hp hs

theorem closed_set_dir {fs : Fs} (h : Closed fs) {pre : Path} {x : FName} (hpre : pre = [] ∨ get fs pre = some .dir)
    (hnone : get fs (pre ++ [x]) = none) : Closed (set (pre ++ [x]) .dir fs) := by
  intro p y hp hs
  rw [get_set] at hs ⊢
  by_cases he : pre ++ [x] = p ++ [y]
  · have hpp : pre = p := by
      have := congrArg List.dropLast he; simpa using this
    subst hpp
    have hne : ¬ (pre ++ [x] = pre) := by
      intro hh; have := congrArg List.length hh; simp at this
    simp only [hne, if_false]
    rcases hpre with h0 | h0
    · exact absurd h0 hp
    · exact h0
  · simp only [he, if_false] at hs
    have hd := h p y hp hs
    have hne : ¬ (pre ++ [x] = p) := by
      intro hh; subst hh; rw [hnone] at hd; cases hd
    simp only [hne, if_false]
    exact hd

theorem closed_mkdirFrom {pre rest : Path} {fs fs' : Fs} (h : Closed fs) (hpre : pre = [] ∨ get fs pre = some .dir)
    (hm : mkdirFrom pre rest fs = .ok fs') : Closed fs' := by
  induction rest generalizing pre fs with
  | nil => simp only [mkdirFrom] at hm; cases hm; exact h
  | cons x rest ih =>
    simp only [mkdirFrom] at hm
    split at hm
    · cases hm
    · next hd => exact ih h (Or.inr hd) hm
    · next hn =>
      exact ih (closed_set_dir h hpre hn) (Or.inr (by rw [get_set]; simp)) hm

theorem closed_mkdirAll {p : Path} {fs fs' : Fs} (h : Closed fs) (hm : mkdirAll p fs = .ok fs') : Closed fs' :=
  closed_mkdirFrom h (Or.inl rfl) hm

theorem parentIsDir_spec {fs : Fs} {p : Path} {y : FName} (h : parentIsDir fs (p ++ [y]) = true) (hp : p ≠ []) :
    get fs p = some .dir := by
  simp only [parentIsDir, List.dropLast_concat] at h
  cases p with
  | nil => exact absurd rfl hp
  | cons a as => simpa using h

/-- replacing / creating a file below an existing directory -/
theorem closed_set_file {fs : Fs} (h : Closed fs) {q : Path} {c : Bytes} (hpar : parentIsDir fs q = true)
    (hnd : get fs q ≠ some .dir) : Closed (set q (.file c) fs) := by
  intro p y hp hs
  rw [get_set] at hs ⊢
  have hne : ¬ (q = p) → (if q = p then some (Node.file c) else get fs p) = get fs p := by intro hh; simp [hh]
  by_cases he : q = p ++ [y]
  · subst he
    have hd := parentIsDir_spec hpar hp
    have : ¬ (p ++ [y] = p) := by intro hh; have := congrArg List.length hh; simp at this
    rw [hne this]; exact hd
  · simp only [he, if_false] at hs
    have hd := h p y hp hs
    have : ¬ (q = p) := by intro hh; subst hh; exact hnd hd
    rw [hne this]; exact hd

theorem closed_create {p : Path} {fs fs' : Fs} (h : Closed fs) (hc : create p fs = .ok fs') : Closed fs' := by
  simp only [create] at hc
  split at hc
  · cases hc
  · next hpar =>
    simp only [Bool.not_eq_true', Bool.not_eq_false] at hpar
    split at hc
    · cases hc
    · next hnd =>
      cases hc
      exact closed_set_file h (by simpa using hpar) (by intro hh; exact hnd hh)

theorem closed_append {p : Path} {bs : Bytes} {fs fs' : Fs} (h : Closed fs) (ha : append p bs fs = .ok fs') : Closed fs' := by
  simp only [append] at ha
  split at ha
  · next c hc =>
    cases ha
    intro q y hq hs
    rw [get_set] at hs ⊢
    by_cases he : p = q ++ [y]
    · subst he
      have hd := h q y hq (by rw [hc]; rfl)
      have : ¬ (q ++ [y] = q) := by intro hh; have := congrArg List.length hh; simp at this
      simp only [this, if_false]; exact hd
    · simp only [he, if_false] at hs
      have hd := h q y hq hs
      have : ¬ (p = q) := by intro hh; subst hh; rw [hc] at hd; cases hd
      simp only [this, if_false]; exact hd
  · cases ha
  · cases ha

theorem no_children_of {fs : Fs} {p : Path} (h : hasChildren fs p = false) (y : FName) : get fs (p ++ [y]) = none := by
  rw [get_eq_none_iff]
  intro e he heq
  have : hasChildren fs p = true := by
    simp only [hasChildren, List.any_eq_true]
    refine ⟨e, he, ?_⟩
    rw [heq]
    simp only [isPre_append, Bool.true_and, Bool.not_eq_true', decide_eq_false_iff_not]
    intro hh; have := congrArg List.length hh; simp at this
  rw [h] at this; cases this

theorem closed_erase {fs : Fs} (h : Closed fs) {p : Path} (hleaf : p ≠ [] → ∀ y, get fs (p ++ [y]) = none) :
    Closed (erase p fs) := by
  intro q y hq hs
  rw [get_erase] at hs ⊢
  split at hs
  · cases hs
  · have hd := h q y hq hs
    have : ¬ (q = p) := by
      intro hh; subst hh; rw [hleaf hq y] at hs; cases hs
    simp only [this, if_false]; exact hd

theorem closed_remove {p : Path} {fs fs' : Fs} (h : Closed fs) (hr : remove p fs = .ok fs') : Closed fs' := by
  simp only [remove] at hr
  split at hr
  · cases hr
  · next c hc =>
    cases hr
    apply closed_erase h
    intro hp y
    cases hg : get fs (p ++ [y]) with
    | none => rfl
    | some n =>
      have := h p y hp (by rw [hg]; rfl)
      rw [hc] at this; cases this
  · split at hr
    · cases hr
    · next hch =>
      cases hr
      exact closed_erase h (fun _ => no_children_of (by simpa using hch))

/-- renaming keeps the tree closed -/
theorem closed_rename {a b : Path} {fs fs' : Fs} (h : Closed fs) (hr : rename a b fs = .ok fs') : Closed fs' := by
  have hr0 := hr
  simp only [rename] at hr
  split at hr
  · cases hr
  · next hpre =>
    simp only [Bool.or_eq_true, not_or, Bool.not_eq_true] at hpre
    split at hr
    · cases hr
    · next hpar =>
      simp only [Bool.not_eq_true', Bool.not_eq_false] at hpar
      have hpar' : parentIsDir fs b = true := by simpa using hpar
      split at hr
      · cases hr
      · next c hc =>
        -- a file
        split at hr
        · cases hr
        · next hnd =>
          cases hr
          have hab : a ≠ b := by intro hh; subst hh; simp [isPre_refl] at hpre
          have hleaf : a ≠ [] → ∀ y, get fs (a ++ [y]) = none := by
            intro ha y
            cases hg : get fs (a ++ [y]) with
            | none => rfl
            | some n => have := h a y ha (by rw [hg]; rfl); rw [hc] at this; cases this
          have h1 : Closed (erase a fs) := closed_erase h hleaf
          apply closed_set_file h1
          · -- the parent of b is still a directory
            simp only [parentIsDir] at hpar' ⊢
            cases hbd : b.dropLast with
            | nil => rfl
            | cons x xs =>
              simp only [hbd] at hpar'
              have hd : get fs (x :: xs) = some .dir := by simpa using hpar'
              have : ¬ (x :: xs = a) := by intro hh; rw [hh, hc] at hd; cases hd
              simp [get_erase, this, hd]
          · rw [get_erase]; simp only [Ne.symm hab, if_false]; intro hh; exact hnd hh
      · next hd =>
        -- a directory with everything below it
        split at hr
        · cases hr
        · next hfree =>
          cases hr
          have hfree' : ∀ e ∈ fs, isPre b e.1 = false := by
            intro e he
            cases hbe : isPre b e.1 with
            | false => rfl
            | true => exact absurd (List.any_eq_true.2 ⟨e, he, hbe⟩) hfree
          have G := fun q => get_map_reroot hpre.1 hpre.2 hfree' q
          intro p y hp hs
          rw [G] at hs ⊢
          by_cases hb : isPre b (p ++ [y]) = true
          · simp only [hb, if_true] at hs
            rcases pre_concat hb with he | hbp
            · -- the entry is `b` itself: its parent is the old parent of `b`
              have hd' := parentIsDir_spec (p := p) (y := y) (by rw [← he]; exact hpar') hp
              have h1 : isPre b p = false := by
                cases hh : isPre b p with
                | false => rfl
                | true =>
                  have hl := isPre_len hh
                  have : b.length = p.length + 1 := by rw [he]; simp
                  omega
              have h2 : isPre a p = false := by
                cases hh : isPre a p with
                | false => rfl
                | true =>
                  have : isPre a b = true := by rw [he]; exact isPre_concat_of_isPre y hh
                  rw [hpre.1] at this; cases this
              simp only [h1, h2, Bool.false_eq_true, if_false]; exact hd'
            · obtain ⟨t, rfl⟩ := isPre_iff.1 hbp
              simp only [isPre_append, if_true, List.append_assoc, List.drop_left] at hs ⊢
              have := h (a ++ t) y (by
                intro hh
                have : a = [] := (List.append_eq_nil_iff.1 hh).1
                subst this
                simp [isPre, List.isPrefixOf] at hpre) (by simpa [List.append_assoc] using hs)
              exact this
          · have hb' : isPre b (p ++ [y]) = false := by simpa using hb
            simp only [hb', Bool.false_eq_true, if_false] at hs
            split at hs
            · cases hs
            · next ha =>
              have hd' := h p y hp hs
              have h1 : isPre b p = false := by
                cases hh : isPre b p with
                | false => rfl
                | true => rw [isPre_concat_of_isPre y hh] at hb'; cases hb'
              have h2 : isPre a p = false := by
                cases hh : isPre a p with
                | false => rfl
                | true => exact absurd (isPre_concat_of_isPre y hh) ha
              simp only [h1, h2, Bool.false_eq_true, if_false]; exact hd'

theorem closed_apply {p : Prim} {fs fs' : Fs} (h : Closed fs) (hp : p.apply fs = .ok fs') : Closed fs' := by
  cases p with
  | removeAll a => simp only [Prim.apply, Except.ok.injEq] at hp; subst hp; exact closed_removeAll h a
  | mkdirAll a => exact closed_mkdirAll h hp
  | create a => exact closed_create h hp
  | append a bs => exact closed_append h hp
  | remove a => exact closed_remove h hp
  | rename a b => exact closed_rename h hp
  | renameIfExists a b =>
    simp only [Prim.apply, renameIfExists] at hp
    split at hp
    · cases hp; exact h
    · exact closed_rename h hp

/-- any run, complete or cut short, of any steps keeps a closed tree closed -/
theorem closed_run {ps : List Prim} {fs : Fs} (h : Closed fs) : Closed (run ps fs) :=
  run_invariant (Inv := Closed) (fun _ _ _ _ hs happ => closed_apply hs happ) h

theorem closed_crash {ps : List Prim} {fs : Fs} (h : Closed fs) (k t : Nat) : Closed (crash k t ps fs) := closed_run h

end Octo.Plugins
