import Octo.Model.SqlGroup
/-!
  `GroupBy.Typecheck`'s two loops over the descriptors of an aggregate: what `firstPass` / `secondPass` / `resolve`
  return, for every descriptor list and every argument type.
-/
namespace Octo.Grp
open Octo

def AcceptsB (t : Ty) (d : Gen.Agg.Desc) : Bool :=
  match d.arg with
  | none => true
  | some a => Ty.is t (addNull a) == .is

def MayFitB (t : Ty) (d : Gen.Agg.Desc) : Bool := Ty.is (Ty.nonNullable t) (Desc.argTy d) == .maybe

theorem firstPass_spec (t : Ty) (descs : List Gen.Agg.Desc) :
    match firstPass t descs with
    | some (i, d) => descs[i]? = some d ∧ AcceptsB t d = true ∧ ∀ j e, j < i → descs[j]? = some e → AcceptsB t e = false
    | none => ∀ e ∈ descs, AcceptsB t e = false := by
  induction descs with
  | nil => simp [firstPass]
  | cons d ds ih =>
    simp only [firstPass]
    cases ha : d.arg with
    | none =>
      refine ⟨rfl, by simp [AcceptsB, ha], ?_⟩
      intro j e hj; omega
    | some a =>
      simp only
      by_cases hc : (Ty.is t (addNull a) == Rel.is) = true
      · simp only [hc, if_true]
        refine ⟨rfl, by simp [AcceptsB, ha, hc], ?_⟩
        intro j e hj; omega
      · have hd : AcceptsB t d = false := by simp [AcceptsB, ha]; simpa using hc
        simp only [hc, if_false]
        cases hf : firstPass t ds with
        | none =>
          simp only [hf] at ih
          simp only [Option.map_none]
          intro e he
          rcases List.mem_cons.mp he with rfl | he
          · exact hd
          · exact ih e he
        | some p =>
          obtain ⟨i, d'⟩ := p
          simp only [hf] at ih
          simp only [Option.map_some]
          refine ⟨by simpa using ih.1, ih.2.1, ?_⟩
          intro j e hj hje
          cases j with
          | zero => simp at hje; rw [← hje]; exact hd
          | succ j' => exact ih.2.2 j' e (by omega) (by simpa using hje)

theorem secondPass_spec (t : Ty) (descs : List Gen.Agg.Desc) :
    match secondPass t descs with
    | some (i, d) => descs[i]? = some d ∧ MayFitB t d = true ∧ ∀ j e, j < i → descs[j]? = some e → MayFitB t e = false
    | none => ∀ e ∈ descs, MayFitB t e = false := by
  induction descs with
  | nil => simp [secondPass]
  | cons d ds ih =>
    simp only [secondPass]
    by_cases hc : (Ty.is (Ty.nonNullable t) (Desc.argTy d) == Rel.maybe) = true
    · simp only [hc, if_true]
      refine ⟨rfl, by simp [MayFitB, hc], ?_⟩
      intro j e hj; omega
    · have hd : MayFitB t d = false := by simp [MayFitB]; simpa using hc
      simp only [hc, if_false]
      cases hf : secondPass t ds with
      | none =>
        simp only [hf] at ih
        simp only [Option.map_none]
        intro e he
        rcases List.mem_cons.mp he with rfl | he
        · exact hd
        · exact ih e he
      | some p =>
        obtain ⟨i, d'⟩ := p
        simp only [hf] at ih
        simp only [Option.map_some]
        refine ⟨by simpa using ih.1, ih.2.1, ?_⟩
        intro j e hj hje
        cases j with
        | zero => simp at hje; rw [← hje]; exact hd
        | succ j' => exact ih.2.2 j' e (by omega) (by simpa using hje)

/-- a descriptor accepts the argument type outright (first loop): it has a TypeFn, or the type is
    `ArgumentType | NULL` -/
def Accepts (t : Ty) (d : Gen.Agg.Desc) : Prop :=
  d.arg = none ∨ ∃ a, d.arg = some a ∧ Ty.is t (addNull a) = .is

/-- the non-nullable part of the argument type may be the descriptor's `ArgumentType` (second loop) -/
def MayFit (t : Ty) (d : Gen.Agg.Desc) : Prop := Ty.is (Ty.nonNullable t) (Desc.argTy d) = .maybe

theorem acceptsB_iff (t : Ty) (d : Gen.Agg.Desc) : AcceptsB t d = true ↔ Accepts t d := by
  simp only [AcceptsB, Accepts]
  cases d.arg with
  | none => simp
  | some a => simp

theorem mayFitB_iff (t : Ty) (d : Gen.Agg.Desc) : MayFitB t d = true ↔ MayFit t d := by
  simp [MayFitB, MayFit]

theorem not_accepts {t : Ty} {d : Gen.Agg.Desc} (h : AcceptsB t d = false) : ¬ Accepts t d := by
  rw [← acceptsB_iff]; simp [h]

theorem not_mayFit {t : Ty} {d : Gen.Agg.Desc} (h : MayFitB t d = false) : ¬ MayFit t d := by
  rw [← mayFitB_iff]; simp [h]

theorem resolve_spec (descs : List Gen.Agg.Desc) (t : Ty) :
    match resolve descs t with
    | some ch =>
      descs[ch.idx]? = some ch.desc ∧
      (match ch.assertIds with
       | none => Accepts t ch.desc ∧ ∀ j d, j < ch.idx → descs[j]? = some d → ¬ Accepts t d
       | some ids => (∀ d ∈ descs, ¬ Accepts t d) ∧ MayFit t ch.desc ∧
                     (∀ j d, j < ch.idx → descs[j]? = some d → ¬ MayFit t d) ∧
                     ids = typeIds (addNull (Desc.argTy ch.desc)))
    | none => ∀ d ∈ descs, ¬ Accepts t d ∧ ¬ MayFit t d := by
  have h1 := firstPass_spec t descs
  have h2 := secondPass_spec t descs
  simp only [resolve]
  cases hf : firstPass t descs with
  | some p =>
    obtain ⟨i, d⟩ := p
    simp only [hf] at h1
    exact ⟨h1.1, (acceptsB_iff t d).mp h1.2.1, fun j e hj hje => not_accepts (h1.2.2 j e hj hje)⟩
  | none =>
    simp only [hf] at h1
    cases hs : secondPass t descs with
    | some p =>
      obtain ⟨i, d⟩ := p
      simp only [hs] at h2
      exact ⟨h2.1, fun e he => not_accepts (h1 e he), (mayFitB_iff t d).mp h2.2.1,
        fun j e hj hje => not_mayFit (h2.2.2 j e hj hje), rfl⟩
    | none =>
      simp only [hs] at h2
      exact fun e he => ⟨not_accepts (h1 e he), not_mayFit (h2 e he)⟩

end Octo.Grp
