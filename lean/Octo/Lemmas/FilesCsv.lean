import Octo.Model.CsvFile
import Octo.Lemmas.ParseInt
import Octo.Lemmas.TyIsLaws
import Octo.Lemmas.TyRecFree
/-! CSV datasource: the two integer parsers agree except on a leading '+', and the inferred column types admit
    every previewed cell. -/
namespace Octo.Files
open Octo Octo.Num Octo.Spec13

theorem isDigitB_eq (c : UInt8) : isDigitB c = isDigit c := rfl

/-- an upper bound for the value of a digit string -/
theorem accDigits_lt : ∀ (s : List UInt8) (n : Nat), s.all isDigit = true → accDigits n s < (n + 1) * 10 ^ s.length
  | [], n, _ => by simp [accDigits_nil]
  | c :: cs, n, h => by
    simp only [List.all_cons, Bool.and_eq_true] at h
    rw [accDigits_cons]
    have := accDigits_lt cs (n * 10 + (c.toNat - 48)) h.2
    have hd : c.toNat - 48 ≤ 9 := by
      have := h.1; simp only [isDigit, Bool.and_eq_true, decide_eq_true_eq] at this; omega
    simp only [List.length_cons, Nat.pow_succ]
    calc accDigits (n * 10 + (c.toNat - 48)) cs < (n * 10 + (c.toNat - 48) + 1) * 10 ^ cs.length := this
      _ ≤ ((n + 1) * 10) * 10 ^ cs.length := Nat.mul_le_mul_right _ (by omega)
      _ = (n + 1) * (10 ^ cs.length * 10) := by rw [Nat.mul_assoc, Nat.mul_comm 10]

/-- all digits, few enough for the fast path: the loop returns the signed value -/
theorem fastIntLoop_digits (s : List UInt8) (minus : Bool) (j : Nat) : ∀ (cs : List UInt8) (i n : Nat),
    cs.all isDigit = true → i + cs.length ≤ 18 →
    fastIntLoop s minus j i (n : Int) cs =
      if i + cs.length ≤ j then none
      else some (if minus then -((accDigits n cs : Nat) : Int) else ((accDigits n cs : Nat) : Int))
  | [], i, n, _, _ => by simp [fastIntLoop, accDigits_nil]
  | c :: cs, i, n, h, hl => by
    simp only [List.all_cons, Bool.and_eq_true] at h
    simp only [List.length_cons] at hl
    simp only [fastIntLoop, isDigitB_eq, h.1, if_true]
    rw [if_neg (by omega)]
    have e : (n : Int) * 10 + ((c.toNat - 48 : Nat) : Int) = ((n * 10 + (c.toNat - 48) : Nat) : Int) := by
      simp
    rw [e, fastIntLoop_digits s minus j cs (i + 1) _ h.2 (by omega), accDigits_cons]
    simp only [List.length_cons]
    rw [show i + 1 + cs.length = i + (cs.length + 1) by omega]

/-- all digits, too many for the fast path: the loop falls back to `strconv.ParseInt` on the whole string -/
theorem fastIntLoop_long (s : List UInt8) (minus : Bool) (j : Nat) : ∀ (cs : List UInt8) (i : Nat) (d : Int),
    cs.all isDigit = true → i ≤ 18 → 18 < i + cs.length →
    fastIntLoop s minus j i d cs = Num.parseInt s
  | [], i, d, _, h1, h2 => by simp at h2; omega
  | c :: cs, i, d, h, h1, h2 => by
    simp only [List.all_cons, Bool.and_eq_true] at h
    simp only [List.length_cons] at h2
    simp only [fastIntLoop, isDigitB_eq, h.1, if_true]
    by_cases hi : i + 1 > 18
    · rw [if_pos hi]
    · rw [if_neg hi]
      exact fastIntLoop_long s minus j cs (i + 1) _ h.2 (by omega) (by omega)

/-- a character that is not a digit: an error, unless the fallback was reached before it -/
theorem fastIntLoop_nondigit (s : List UInt8) (minus : Bool) (j : Nat) : ∀ (cs : List UInt8) (i : Nat) (d : Int),
    cs.all isDigit = false →
    fastIntLoop s minus j i d cs = none ∨ fastIntLoop s minus j i d cs = Num.parseInt s
  | [], _, _, h => by simp at h
  | c :: cs, i, d, h => by
    simp only [fastIntLoop, isDigitB_eq]
    by_cases hc : isDigit c = true
    · simp only [hc, if_true]
      by_cases hi : i + 1 > 18
      · rw [if_pos hi]; exact Or.inr rfl
      · rw [if_neg hi]
        apply fastIntLoop_nondigit s minus j cs
        simp only [List.all_cons, hc, Bool.true_and] at h
        exact h
    · simp only [hc, Bool.false_eq_true, if_false]; exact Or.inl trivial

/-- `strconv.ParseInt` on a sign-less or minus-signed string whose body is not all digits -/
theorem parseIntBody_nondigit (neg : Bool) (body : List UInt8) (h : body.all isDigit = false) :
    parseIntBody neg body = none := by
  rw [parseIntBody_spec]; simp [h]

theorem parseIntBody_digits (neg : Bool) (body : List UInt8) (hne : body ≠ []) (h : body.all isDigit = true)
    (hl : body.length ≤ 18) :
    parseIntBody neg body = some (if neg then -((accDigits 0 body : Nat) : Int) else ((accDigits 0 body : Nat) : Int)) := by
  rw [parseIntBody_spec]
  have h1 : ¬ (body.isEmpty ∨ body.all isDigit = false) := by
    simp [h]; exact hne
  rw [if_neg h1]
  simp only [digitsVal_eq]
  have hb := accDigits_lt body 0 h
  have hp : (10 : Nat) ^ body.length ≤ 10 ^ 18 := Nat.pow_le_pow_right (by omega) hl
  rw [if_pos]
  unfold minI64 maxI64
  cases neg <;> simp <;> omega

theorem parseInt_minus (rest : List UInt8) : Num.parseInt (45 :: rest) = parseIntBody true rest := by
  simp [Num.parseInt]

theorem parseInt_plain (c : UInt8) (rest : List UInt8) (h43 : c ≠ 43) (h45 : c ≠ 45) :
    Num.parseInt (c :: rest) = parseIntBody false (c :: rest) := by
  have e : (c == 45) = false := by simp [h45]
  simp [Num.parseInt, h43, h45, e]

/-- **the two integer parsers**: `fastfloat.ParseInt64` and `strconv.ParseInt(·, 10, 64)` give the same answer
    (value or error) on every string that does not start with a plus sign -/
theorem fastInt_eq_strconvInt (s : List UInt8) : fastInt s = strconvInt s ∨ s.head? = some 43 := by
  cases s with
  | nil => left; rfl
  | cons c rest =>
    by_cases h43 : c = 43
    · right; simp [h43]
    · left
      unfold strconvInt
      by_cases h45 : c = 45
      · subst h45
        rw [parseInt_minus]
        simp only [fastInt, if_true]
        cases hr : rest with
        | nil => simp [parseIntBody, parseUint]
        | cons r rs =>
          simp only [List.isEmpty_cons, Bool.false_eq_true, if_false]
          rw [← hr]
          have hne : rest ≠ [] := by rw [hr]; simp
          cases hall : rest.all isDigit with
          | false =>
            rw [parseIntBody_nondigit _ _ hall]
            rcases fastIntLoop_nondigit (45 :: rest) true 1 rest 1 0 hall with h | h
            · exact h
            · rw [h, parseInt_minus]; exact parseIntBody_nondigit _ _ hall
          | true =>
            by_cases hl : 1 + rest.length ≤ 18
            · have := fastIntLoop_digits (45 :: rest) true 1 rest 1 0 hall hl
              simp only [Int.natCast_zero] at this
              rw [this, if_neg (by cases rest <;> simp_all), parseIntBody_digits _ _ hne hall (by omega)]
              simp
            · rw [fastIntLoop_long (45 :: rest) true 1 rest 1 0 hall (by omega) (by omega), parseInt_minus]
      · rw [parseInt_plain c rest h43 h45]
        simp only [fastInt, h45, if_false]
        cases hall : (c :: rest).all isDigit with
        | false =>
          rw [parseIntBody_nondigit _ _ hall]
          rcases fastIntLoop_nondigit (c :: rest) false 0 (c :: rest) 0 0 hall with h | h
          · exact h
          · rw [h, parseInt_plain c rest h43 h45]; exact parseIntBody_nondigit _ _ hall
        | true =>
          by_cases hl : 0 + (c :: rest).length ≤ 18
          · have := fastIntLoop_digits (c :: rest) false 0 (c :: rest) 0 0 hall hl
            simp only [Int.natCast_zero] at this
            rw [this, if_neg (by simp), parseIntBody_digits _ _ (by simp) hall (by omega)]
          · rw [fastIntLoop_long (c :: rest) false 0 (c :: rest) 0 0 hall (by omega) (by omega),
              parseInt_plain c rest h43 h45]

/-- a leading plus sign is an error for the fast parser -/
theorem fastInt_plus (rest : List UInt8) : fastInt (43 :: rest) = none := by
  simp [fastInt, fastIntLoop, isDigitB]

theorem fastInt_sub (s : List UInt8) (i : Int) (h : fastInt s = some i) : strconvInt s = some i := by
  rcases fastInt_eq_strconvInt s with h1 | h1
  · rw [← h1]; exact h
  · cases s with
    | nil => simp at h1
    | cons c rest =>
      simp at h1; subst h1
      rw [fastInt_plus] at h; cases h

end Octo.Files

namespace Octo.Files
open Octo Octo.Ty

/-! ### the inferred column type admits every previewed cell -/

/-- what the preview theorem needs from the float oracles: a text `strconv.ParseInt` accepts is accepted by one of
    the float parsers (true of `strconv.ParseFloat`, which reads every decimal integer) -/
def Cell.intsAreFloats (c : Cell) : Prop := (strconvInt c.s).isSome = true → (c.ff.isSome = true ∨ c.pf.isSome = true)

theorem cellFits_of_is {t t' : Ty} (h : t.is t' = .is) (c : Cell) (hc : cellFits t c = true) : cellFits t' c = true := by
  have m : ∀ k : Ty, k.is t = .is → k.is t' = .is := fun k hk => Ty.is_trans hk h
  unfold cellFits at hc ⊢
  by_cases he : c.s.isEmpty = true
  · simp only [he, if_true, beq_iff_eq] at hc ⊢; exact m _ hc
  · simp only [he, Bool.false_eq_true, if_false, Bool.or_eq_true, Bool.and_eq_true, beq_iff_eq] at hc ⊢
    rcases hc with (((hc | hc) | hc) | hc) | hc
    · exact Or.inl (Or.inl (Or.inl (Or.inl ⟨m _ hc.1, hc.2⟩)))
    · exact Or.inl (Or.inl (Or.inl (Or.inr ⟨m _ hc.1, hc.2⟩)))
    · exact Or.inl (Or.inl (Or.inr ⟨m _ hc.1, hc.2⟩))
    · exact Or.inl (Or.inr ⟨m _ hc.1, hc.2⟩)
    · exact Or.inr (m _ hc)

theorem cellFits_kind (c : Cell) : cellFits (inferKind c).ty c = true := by
  unfold inferKind cellFits
  by_cases h0 : c.s = []
  · simp [h0, Kind.ty]; decide
  · have he : c.s.isEmpty = false := by cases hs : c.s <;> simp_all
    simp only [h0, if_false, he, Bool.false_eq_true]
    by_cases h1 : (strconvInt c.s).isSome = true
    · simp only [h1, if_true, Kind.ty]
      have : (Ty.int.is Ty.int == Rel.is) = true := by decide
      simp [this, h1]
    · simp only [h1, Bool.false_eq_true, if_false]
      by_cases h2 : c.pf.isSome = true
      · simp only [h2, if_true, Kind.ty]
        have : (Ty.float.is Ty.float == Rel.is) = true := by decide
        simp [this, h2]
      · simp only [h2, Bool.false_eq_true, if_false]
        by_cases h3 : (parseBool c.s).isSome = true
        · simp only [h3, if_true, Kind.ty]
          have : (Ty.bool.is Ty.bool == Rel.is) = true := by decide
          simp [this, h3]
        · simp only [h3, Bool.false_eq_true, if_false]
          by_cases h4 : c.tm.isSome = true
          · simp only [h4, if_true, Kind.ty]
            have : (Ty.time.is Ty.time == Rel.is) = true := by decide
            simp [this, h4]
          · simp only [h4, Bool.false_eq_true, if_false, Kind.ty]
            have : (Ty.str.is Ty.str == Rel.is) = true := by decide
            simp [this]

theorem kind_noRec (k : Kind) : noRec k.ty = true := by cases k <;> rfl

theorem typeSum_recfree {a b c : Ty} (h : typeSum a b = some c) (na : noRec a = true) (nb : noRec b = true) :
    a.is c = .is ∧ b.is c = .is ∧ noRec c = true := by
  have ⟨hok, nc⟩ := recFree_typeSum a b c h na nb
  have ⟨h1, h2⟩ := upperFor_typeSum a b c h hok
  exact ⟨h1, h2, nc⟩

/-- an Int column admits only integer texts (and nothing empty) -/
theorem cellFits_int_float (c : Cell) (hi : c.intsAreFloats) (h : cellFits .int c = true) : cellFits .float c = true := by
  unfold cellFits at h ⊢
  have e0 : (Ty.null.is Ty.int == Rel.is) = false := by decide
  have e1 : (Ty.int.is Ty.int == Rel.is) = true := by decide
  have e2 : (Ty.float.is Ty.int == Rel.is) = false := by decide
  have e3 : (Ty.bool.is Ty.int == Rel.is) = false := by decide
  have e4 : (Ty.time.is Ty.int == Rel.is) = false := by decide
  have e5 : (Ty.str.is Ty.int == Rel.is) = false := by decide
  have f2 : (Ty.float.is Ty.float == Rel.is) = true := by decide
  by_cases he : c.s.isEmpty = true
  · simp [he, e0] at h
  · simp only [he, Bool.false_eq_true, if_false, e1, e2, e3, e4, e5, Bool.true_and, Bool.false_and, Bool.or_false] at h
    simp only [he, Bool.false_eq_true, if_false, f2, Bool.true_and]
    have hs : (strconvInt c.s).isSome = true := by
      simp only [Bool.or_eq_true] at h
      rcases h with h | h
      · cases hf : fastInt c.s with
        | none => simp [hf] at h
        | some i => rw [fastInt_sub _ _ hf]; rfl
      · exact h
    rcases hi hs with h' | h' <;> simp [h']

/-- one cell of one column: the new column type is flat, admits the cell, and keeps admitting every cell the
    old type admitted -/
theorem inferStep_ok (st : Option Ty) (c : Cell) (st' : Option Ty) (h : inferStep st c = some st')
    (nr : ∀ t, st = some t → noRec t = true) :
    ∃ t', st' = some t' ∧ noRec t' = true ∧ (c.intsAreFloats → cellFits t' c = true) ∧
      (∀ t, st = some t → ∀ c0 : Cell, c0.intsAreFloats → cellFits t c0 = true → cellFits t' c0 = true) := by
  cases st with
  | none =>
    simp only [inferStep, Option.some.injEq] at h
    subst h
    exact ⟨_, rfl, kind_noRec _, fun _ => cellFits_kind c, fun t ht => by cases ht⟩
  | some t =>
    have nrt := nr t rfl
    have viaSum : ∀ (k : Kind), inferKind c = k → ∀ t', typeSum t k.ty = some t' →
        noRec t' = true ∧ (cellFits t' c = true) ∧ (∀ c0 : Cell, cellFits t c0 = true → cellFits t' c0 = true) := by
      intro k hk t' hs
      obtain ⟨h1, h2, h3⟩ := typeSum_recfree hs nrt (kind_noRec k)
      exact ⟨h3, cellFits_of_is h2 c (hk ▸ cellFits_kind c), fun c0 => cellFits_of_is h1 c0⟩
    have fin : ∀ (k : Kind), inferKind c = k → (typeSum t k.ty).map some = some st' →
        ∃ t', st' = some t' ∧ noRec t' = true ∧ (c.intsAreFloats → cellFits t' c = true) ∧
          (∀ t0, some t = some t0 → ∀ c0 : Cell, c0.intsAreFloats → cellFits t0 c0 = true → cellFits t' c0 = true) := by
      intro k hk hm
      cases hs : typeSum t k.ty with
      | none => simp [hs] at hm
      | some t' =>
        simp only [hs, Option.map_some, Option.some.injEq] at hm
        subst hm
        obtain ⟨a, b, d⟩ := viaSum k hk t' hs
        exact ⟨t', rfl, a, fun _ => b, fun t0 ht0 c0 _ hc0 => by cases ht0; exact d c0 hc0⟩
    simp only [inferStep] at h
    cases hk : inferKind c with
    | null =>
      simp only [hk] at h
      by_cases he : t.equals .null = true
      · simp only [he, Bool.not_true, Bool.false_eq_true, if_false, Option.some.injEq] at h
        subst h
        simp only [equals, Bool.and_eq_true, beq_iff_eq] at he
        refine ⟨t, rfl, nrt, fun _ => cellFits_of_is he.2 c (by have := cellFits_kind c; rwa [hk] at this),
          fun t0 ht0 c0 _ hc0 => by cases ht0; exact hc0⟩
      · simp only [he, Bool.not_false, if_true] at h
        exact fin .null hk h
    | int =>
      simp only [hk] at h
      by_cases he : t.equals .float = true
      · simp only [he, Bool.not_true, Bool.false_eq_true, if_false, Option.some.injEq] at h
        subst h
        simp only [equals, Bool.and_eq_true, beq_iff_eq] at he
        refine ⟨t, rfl, nrt, fun hi => ?_, fun t0 ht0 c0 _ hc0 => by cases ht0; exact hc0⟩
        have h1 : cellFits .int c = true := by have := cellFits_kind c; rwa [hk] at this
        exact cellFits_of_is he.2 c (cellFits_int_float c hi h1)
      · simp only [he, Bool.not_false, if_true] at h
        exact fin .int hk h
    | float =>
      simp only [hk] at h
      by_cases he : t.equals .int = true
      · simp only [he, if_true, Option.some.injEq] at h
        subst h
        simp only [equals, Bool.and_eq_true, beq_iff_eq] at he
        refine ⟨.float, rfl, rfl, fun _ => by have := cellFits_kind c; rwa [hk] at this, ?_⟩
        intro t0 ht0 c0 hi0 hc0
        cases ht0
        exact cellFits_int_float c0 hi0 (cellFits_of_is he.1 c0 hc0)
      · simp only [he, Bool.false_eq_true, if_false] at h
        exact fin .float hk h
    | bool => simp only [hk] at h; exact fin .bool hk h
    | time => simp only [hk] at h; exact fin .time hk h
    | str => simp only [hk] at h; exact fin .str hk h

/-- a cell fits a column state (strict: an unfilled column admits nothing) -/
def cellFitsS : Option Ty → Cell → Prop
  | none, _ => False
  | some t, c => cellFits t c = true

def RowFitsS : List (Option Ty) → List Cell → Prop
  | st :: sts, c :: cs => cellFitsS st c ∧ RowFitsS sts cs
  | _, _ => True

def NoRecS (sts : List (Option Ty)) : Prop := ∀ st ∈ sts, ∀ t, st = some t → noRec t = true

theorem inferRow_ok : ∀ (sts : List (Option Ty)) (r : List Cell) (sts' : List (Option Ty)),
    inferRow sts r = some sts' → NoRecS sts → (∀ c ∈ r, c.intsAreFloats) →
    NoRecS sts' ∧ RowFitsS sts' r ∧
      (∀ row0 : List Cell, (∀ c0 ∈ row0, c0.intsAreFloats) → RowFitsS sts row0 → RowFitsS sts' row0)
  | [], r, sts', h, nr, _ => by
    cases r <;> simp only [inferRow, Option.some.injEq] at h <;> subst h <;>
      exact ⟨nr, by simp [RowFitsS], fun _ _ h => h⟩
  | st :: sts, [], sts', h, nr, _ => by
    simp only [inferRow, Option.some.injEq] at h; subst h
    exact ⟨nr, by simp [RowFitsS], fun _ _ h => h⟩
  | st :: sts, c :: cs, sts', h, nr, hi => by
    simp only [inferRow] at h
    cases h1 : inferStep st c with
    | none => simp [h1] at h
    | some st1 =>
      cases h2 : inferRow sts cs with
      | none => simp [h1, h2] at h
      | some sts1 =>
        simp only [h1, h2, Option.some.injEq] at h
        subst h
        obtain ⟨t', ht', n', self', mono'⟩ := inferStep_ok st c st1 h1 (fun t ht => nr st (by simp) t ht)
        obtain ⟨nr1, fit1, mono1⟩ := inferRow_ok sts cs sts1 h2 (fun s hs => nr s (by simp [hs]))
          (fun c' hc' => hi c' (by simp [hc']))
        subst ht'
        refine ⟨?_, ⟨self' (hi c (by simp)), fit1⟩, ?_⟩
        · intro s hs t ht
          simp only [List.mem_cons] at hs
          rcases hs with hs | hs
          · subst hs; cases ht; exact n'
          · exact nr1 s hs t ht
        · intro row0 hi0 hf
          cases row0 with
          | nil => simp [RowFitsS]
          | cons c0 cs0 =>
            obtain ⟨hf1, hf2⟩ := hf
            refine ⟨?_, mono1 cs0 (fun c' hc' => hi0 c' (by simp [hc'])) hf2⟩
            cases st with
            | none => exact hf1.elim
            | some t => exact mono' t rfl c0 (hi0 c0 (by simp)) hf1

theorem inferRows_ok : ∀ (rows : List (List Cell)) (sts sts' : List (Option Ty)) (seen : List (List Cell)),
    inferRows sts rows = some sts' → NoRecS sts → (∀ r ∈ rows, ∀ c ∈ r, c.intsAreFloats) →
    (∀ r ∈ seen, ∀ c ∈ r, c.intsAreFloats) → (∀ r ∈ seen, RowFitsS sts r) →
    ∀ r, (r ∈ seen ∨ r ∈ rows) → RowFitsS sts' r
  | [], sts, sts', seen, h, _, _, _, hs => by
    simp only [inferRows, Option.some.injEq] at h; subst h
    intro r hr; rcases hr with hr | hr
    · exact hs r hr
    · cases hr
  | r :: rows, sts, sts', seen, h, nr, hi, his, hs => by
    simp only [inferRows] at h
    cases h1 : inferRow sts r with
    | none => simp [h1] at h
    | some sts1 =>
      simp only [h1] at h
      obtain ⟨nr1, fit1, mono1⟩ := inferRow_ok sts r sts1 h1 nr (hi r (by simp))
      have := inferRows_ok rows sts1 sts' (r :: seen) h nr1 (fun r' hr' => hi r' (by simp [hr']))
        (by intro r' hr'; simp only [List.mem_cons] at hr'; rcases hr' with hr' | hr'
            · subst hr'; exact hi r' (by simp)
            · exact his r' hr')
        (by intro r' hr'; simp only [List.mem_cons] at hr'; rcases hr' with hr' | hr'
            · subst hr'; exact fit1
            · exact mono1 r' (his r' hr') (hs r' hr'))
      intro r' hr'
      apply this
      rcases hr' with hr' | hr'
      · exact Or.inl (by simp [hr'])
      · simp only [List.mem_cons] at hr'
        rcases hr' with hr' | hr'
        · exact Or.inl (by simp [hr'])
        · exact Or.inr hr'

theorem guard_isSome {α} (r : Rel) (o : Option α) : (r == Rel.is && o.isSome) = (if r = Rel.is then o else none).isSome := by
  by_cases h : r = Rel.is <;> simp [h]

/-- the executing cascade errors exactly when no alternative of the column type accepts the cell -/
theorem cellExec_none_iff (t : Ty) (c : Cell) : cellExec t c = none ↔ cellFits t c = false := by
  unfold cellExec cellFits
  by_cases h0 : c.s = []
  · simp only [h0, if_true, List.isEmpty_nil]
    by_cases hn : Ty.null.is t = .is <;> simp [hn]
  · have he : c.s.isEmpty = false := by cases hs : c.s <;> simp_all
    simp only [h0, if_false, he, Bool.false_eq_true]
    rw [← Option.isSome_or, ← Option.isSome_or, guard_isSome, guard_isSome, guard_isSome, guard_isSome]
    generalize (if Ty.int.is t = Rel.is then (fastInt c.s).or (strconvInt c.s) else none) = a1
    generalize (if Ty.float.is t = Rel.is then c.ff.or c.pf else none) = a2
    generalize (if Ty.bool.is t = Rel.is then parseBool c.s else none) = a3
    generalize (if Ty.time.is t = Rel.is then c.tm else none) = a4
    cases a1 <;> cases a2 <;> cases a3 <;> cases a4 <;> by_cases h5 : Ty.str.is t = .is <;> simp [h5]

theorem rowExec_ok : ∀ (sts : List (Option Ty)) (r : List Cell), RowFitsS sts r →
    rowExec cellExec (sts.map finalTy) r ≠ none
  | [], r, _ => by cases r <;> simp [rowExec]
  | st :: sts, [], _ => by simp [rowExec]
  | st :: sts, c :: cs, h => by
    obtain ⟨h1, h2⟩ := h
    have ih := rowExec_ok sts cs h2
    simp only [List.map_cons, rowExec]
    cases st with
    | none => exact h1.elim
    | some t =>
      simp only [finalTy]
      cases he : cellExec t c with
      | none =>
        have h1' : cellFits t c = true := h1
        rw [(cellExec_none_iff t c).mp he] at h1'; cases h1'
      | some v =>
        cases hr : rowExec cellExec (sts.map finalTy) cs with
        | none => exact absurd hr ih
        | some vs => simp

theorem rowsExec_ok (sts : List (Option Ty)) : ∀ (rows : List (List Cell)), (∀ r ∈ rows, RowFitsS sts r) →
    rowsExec cellExec (sts.map finalTy) rows ≠ none
  | [], _ => by simp [rowsExec]
  | r :: rows, h => by
    have h1 := rowExec_ok sts r (h r (by simp))
    have h2 := rowsExec_ok sts rows (fun r' hr' => h r' (by simp [hr']))
    simp only [rowsExec]
    cases ha : rowExec cellExec (sts.map finalTy) r with
    | none => exact absurd ha h1
    | some v =>
      cases hb : rowsExec cellExec (sts.map finalTy) rows with
      | none => exact absurd hb h2
      | some vs => simp

/-- the value produced for a cell is what the cell's text denotes -/
theorem cellExec_represents (t : Ty) (c : Cell) (v : Value) (h : cellExec t c = some v) : cellRepresents v c = true := by
  unfold cellExec at h
  by_cases h0 : c.s = []
  · simp only [h0, if_true] at h
    split at h
    · cases h; simp [cellRepresents, h0]
    · cases h
  · have he : c.s.isEmpty = false := by cases hs : c.s <;> simp_all
    simp only [h0, if_false] at h
    split at h
    · next i hi =>
      cases h
      split at hi
      · simp only [cellRepresents, he, Bool.not_false, Bool.true_and, Bool.or_eq_true, beq_iff_eq]
        cases hf : fastInt c.s with
        | some j => simp [hf] at hi; subst hi; exact Or.inr rfl
        | none => simp [hf] at hi; exact Or.inl hi
      · cases hi
    · split at h
      · next b hb =>
        cases h
        split at hb
        · simp only [cellRepresents, he, Bool.not_false, Bool.true_and, Bool.or_eq_true, beq_iff_eq]
          cases hf : c.ff with
          | some j => simp [hf] at hb; subst hb; exact Or.inr rfl
          | none => simp [hf] at hb; exact Or.inl hb
        · cases hb
      · split at h
        · next b hb =>
          cases h
          split at hb
          · simp [cellRepresents, he, hb]
          · cases hb
        · split at h
          · next ns hn =>
            cases h
            split at hn
            · simp [cellRepresents, he, hn]
            · cases hn
          · split at h
            · cases h; simp [cellRepresents, he]
            · cases h

theorem rowExec_spec : ∀ (ts : List Ty) (row : List Cell) (vs : List Value), rowExec cellExec ts row = some vs →
    vs.length = min ts.length row.length ∧ ∀ (i : Nat) (v : Value) (c : Cell), vs[i]? = some v → row[i]? = some c → cellRepresents v c = true
  | [], row, vs, h => by cases row <;> simp only [rowExec, Option.some.injEq] at h <;> subst h <;> simp
  | t :: ts, [], vs, h => by simp only [rowExec, Option.some.injEq] at h; subst h; simp
  | t :: ts, c :: cs, vs, h => by
    simp only [rowExec] at h
    cases hc : cellExec t c with
    | none => simp [hc] at h
    | some v =>
      cases hrs : rowExec cellExec ts cs with
      | none => simp [hc, hrs] at h
      | some vs' =>
        simp only [hc, hrs, Option.some.injEq] at h
        subst h
        obtain ⟨hl, hi⟩ := rowExec_spec ts cs vs' hrs
        refine ⟨by simp [hl], ?_⟩
        intro i v' c' hv hc'
        cases i with
        | zero => simp at hv hc'; subst hv; subst hc'; exact cellExec_represents t c v hc
        | succ i => exact hi i v' c' (by simpa using hv) (by simpa using hc')

theorem rowsExec_spec (ts : List Ty) : ∀ (rows : List (List Cell)) (recs : List (List Value)),
    rowsExec cellExec ts rows = some recs →
    recs.length = rows.length ∧ ∀ (i : Nat) (rec : List Value), recs[i]? = some rec →
      ∃ row, rows[i]? = some row ∧ rowExec cellExec ts row = some rec
  | [], recs, h => by simp only [rowsExec, Option.some.injEq] at h; subst h; simp
  | r :: rows, recs, h => by
    simp only [rowsExec] at h
    cases h1 : rowExec cellExec ts r with
    | none => simp [h1] at h
    | some v =>
      cases h2 : rowsExec cellExec ts rows with
      | none => simp [h1, h2] at h
      | some vs =>
        simp only [h1, h2, Option.some.injEq] at h
        subst h
        obtain ⟨hl, hi⟩ := rowsExec_spec ts rows vs h2
        refine ⟨by simp [hl], ?_⟩
        intro i rec hrec
        cases i with
        | zero => simp at hrec; subst hrec; exact ⟨r, by simp, h1⟩
        | succ i => simpa using hi i rec (by simpa using hrec)

end Octo.Files
