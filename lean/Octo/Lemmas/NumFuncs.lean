import Octo.Lemmas.ParseInt
import Octo.Lemmas.TimeLemmas
/-!
  Octo.Lemmas.NumFuncs — membership, indexing, string repetition, and the descriptor-by-descriptor
  agreement of the model (`callFn`) with the specification (`specFn`).
-/
namespace Octo.Num
open Octo Octo.Spec13

theorem memLoop_eq_any (x : Value) (xs : List Value) : memLoop x xs = xs.any fun y => x.equal y := by
  induction xs with
  | nil => rfl
  | cons y ys ih =>
    unfold memLoop
    rw [List.any_cons, ← ih]
    cases x.equal y <;> simp

theorem not_memLoop_eq_all (x : Value) (xs : List Value) : (!memLoop x xs) = xs.all fun y => !x.equal y := by
  rw [memLoop_eq_any]
  induction xs with
  | nil => rfl
  | cons y ys ih => simp [List.any_cons, List.all_cons, Bool.not_or, ih]

theorem repeatBytes_eq (s : List UInt8) (n : Nat) : repeatBytes s n = (List.replicate n s).flatten := by
  induction n with
  | zero => rfl
  | succ k ih => unfold repeatBytes; rw [ih, List.replicate_succ, List.flatten_cons]

theorem repeatBytes_length (s : List UInt8) (n : Nat) : (repeatBytes s n).length = n * s.length := by
  induction n with
  | zero => simp [repeatBytes]
  | succ k ih => unfold repeatBytes; rw [List.length_append, ih, Nat.succ_mul]; omega

/-- the guard `count > max / len(s)` is the overflow-free form of `len(s) * count > max` -/
theorem repeat_guard (len count cap : Int) (hl : 0 < len) :
    count > cap / len ↔ len * count > cap := by
  constructor
  · intro h
    have h1 : cap / len + 1 ≤ count := h
    have h2 : cap < (cap / len + 1) * len := by
      have := Int.lt_ediv_add_one_mul_self cap hl
      exact this
    have h3 : (cap / len + 1) * len ≤ count * len := Int.mul_le_mul_of_nonneg_right h1 (Int.le_of_lt hl)
    rw [Int.mul_comm len count]
    omega
  · intro h
    apply Int.lt_of_not_ge
    intro hle
    have h1 : count * len ≤ (cap / len) * len := Int.mul_le_mul_of_nonneg_right hle (Int.le_of_lt hl)
    have h2 : (cap / len) * len ≤ cap := Int.ediv_mul_le cap (Int.ne_of_gt hl)
    rw [Int.mul_comm len count] at h
    omega

/-- how an outcome of the model meets an expectation of the specification -/
def Meets : Outcome → Expect → Prop
  | .val v, .exact w => v = w
  | .err, .error => True
  | .val v, .someOf t => v.rank = t
  | .opaque t, .someOf t' => t = t'
  | .opaque _, .unspecified => True
  | .illTyped, _ => True
  | _, _ => False

/-- top-level argument well-formedness: ints and durations are int64, times are representable -/
def Value.Ok : Value → Prop
  | .int i => InI64 i
  | .dur d => InI64 d
  | .time t _ => ValidTime t
  | _ => True

def ArgsOk : List Value → Prop
  | [] => True
  | v :: vs => Value.Ok v ∧ ArgsOk vs

theorem repeatString_meets (s : List UInt8) (n : Int) :
    Meets (repeatString s n)
      (if n < 0 ∨ (s.length : Int) * n > maxRepeatedStringLength then .error
       else if s.isEmpty then .exact (.str [])
       else .exact (.str (List.replicate n.toNat s).flatten)) := by
  unfold repeatString
  by_cases hn : n < 0
  · simp [hn, Meets]
  · rw [if_neg hn]
    by_cases hl : s.length > 0
    · have hl' : (0 : Int) < (s.length : Int) := by omega
      have g := repeat_guard (s.length : Int) n maxRepeatedStringLength hl'
      have hne : s.isEmpty = false := by
        cases s with
        | nil => simp at hl
        | cons _ _ => rfl
      by_cases hg : n > maxRepeatedStringLength / (s.length : Int)
      · have : (s.length : Int) * n > maxRepeatedStringLength := g.mp hg
        simp [hl, hg, this, Meets]
      · have : ¬ (s.length : Int) * n > maxRepeatedStringLength := fun h => hg (g.mpr h)
        simp [hl, hg, this, hn, hne, Meets, repeatBytes_eq]
    · have he : s = [] := by
        cases s with
        | nil => rfl
        | cons _ _ => simp at hl
      subst he
      have : ¬ maxRepeatedStringLength < 0 := by unfold maxRepeatedStringLength; omega
      simp [hn, Meets, this]

theorem indexFn_meets (xs : List Value) (i : Int) :
    Meets (indexFn xs i)
      (if 0 ≤ i ∧ i < (xs.length : Int) then .exact (xs[i.toNat]?.getD .null) else .exact .null) := by
  unfold indexFn
  by_cases h : i < 0 ∨ i ≥ (xs.length : Int)
  · rw [if_pos h, if_neg (by omega)]; simp [Meets]
  · rw [if_neg h, if_pos (by omega)]
    have hlt : i.toNat < xs.length := by omega
    rw [List.getElem?_eq_getElem hlt]
    simp [Meets]

theorem meets_illTyped (e : Expect) : Meets .illTyped e := by cases e <;> simp [Meets]

theorem fnAdd_meets (idx : Nat) (args : List Value) :
    Meets (fnAdd idx args) (specAdd idx args) := by
  unfold fnAdd
  split
  · simp [specAdd, Meets, addI64_eq]
  · simp [specAdd, Meets]
  · simp [specAdd, Meets, addI64_eq]
  · rename_i t l d
    simp only [specAdd]
    by_cases hr : InI64 (timeExt (t + d))
    · simp [hr, Meets, timeAdd_exact t d hr]
    · simp [hr, Meets, Value.rank, tTime]
  · rename_i d t l
    simp only [specAdd]
    by_cases hr : InI64 (timeExt (t + d))
    · simp [hr, Meets, timeAdd_exact t d hr]
    · simp [hr, Meets, Value.rank, tTime]
  · simp [specAdd, Meets]
  · exact meets_illTyped _

theorem negI64_exact {d : Int} (h : InI64 d) (hm : d ≠ minI64) : negI64 d = -d := by
  rw [negI64_eq]
  apply wrap64_of_inI64
  rw [inI64_iff] at *
  unfold minI64 at hm
  omega

theorem fnSub_meets (idx : Nat) (args : List Value) (h : ArgsOk args) :
    Meets (fnSub idx args) (specSub idx args) := by
  unfold fnSub
  split
  · simp [specSub, Meets, subI64_eq]
  · simp [specSub, Meets, negI64_eq]
  · simp [specSub, Meets]
  · simp [specSub, Meets]
  · simp [specSub, Meets, subI64_eq]
  · simp [specSub, Meets, negI64_eq]
  · rename_i t l d
    simp only [specSub]
    have hd : InI64 d := h.2.1
    by_cases hr : d ≠ minI64 ∧ InI64 (timeExt (t - d))
    · rw [if_pos hr]
      have e := negI64_exact hd hr.1
      have hr2 : InI64 (timeExt (t + -d)) := by rw [← Int.sub_eq_add_neg]; exact hr.2
      simp only [Meets]
      rw [e, timeAdd_exact t (-d) hr2, Int.sub_eq_add_neg]
    · rw [if_neg hr]; simp [Meets, Value.rank, tTime]
  · exact meets_illTyped _

theorem fnMul_meets (idx : Nat) (args : List Value) :
    Meets (fnMul idx args) (specMul idx args) := by
  unfold fnMul
  split
  · simp [specMul, Meets, mulI64_eq]
  · simp [specMul, Meets]
  · simp [specMul, Meets, mulI64_eq]
  · simp [specMul, Meets, mulI64_eq, Int.mul_comm]
  · simp only [specMul]; exact repeatString_meets _ _
  · simp only [specMul]; exact repeatString_meets _ _
  · exact meets_illTyped _

theorem divFn_meets (a b : Int) (ha : InI64 a) (hb : InI64 b) (f : Int → Value) :
    Meets (ofOptInt (divFn a b) f) (if b = 0 then .error else .exact (f (wrap64 (Int.tdiv a b)))) := by
  unfold divFn
  by_cases h0 : b = 0
  · simp [h0, ofOptInt, Meets]
  · simp [h0, ofOptInt, Meets, quoI64_eq ha hb]

theorem fnDiv_meets (idx : Nat) (args : List Value) (h : ArgsOk args) :
    Meets (fnDiv idx args) (specDiv idx args) := by
  unfold fnDiv
  split
  · simp only [specDiv]; exact divFn_meets _ _ h.1 h.2.1 _
  · simp [specDiv, Meets]
  · simp only [specDiv]; exact divFn_meets _ _ h.1 h.2.1 _
  · simp [specDiv, Meets]
  · exact meets_illTyped _

theorem fnAbs_meets (idx : Nat) (args : List Value) (h : ArgsOk args) :
    Meets (fnAbs idx args) (specAbs idx args) := by
  unfold fnAbs
  split
  · rename_i a
    have ha : InI64 a := h.1
    simp only [specAbs]
    by_cases hp : a > 0
    · rw [if_pos hp]
      have : ((a.natAbs : Nat) : Int) = a := by omega
      simp [Meets, this, wrap64_of_inI64 ha]
    · rw [if_neg hp]
      have : ((a.natAbs : Nat) : Int) = a * -1 := by omega
      simp only [Meets, mulI64_eq, this]
  · simp [specAbs, Meets]
  · exact meets_illTyped _

theorem fnLen_meets (idx : Nat) (args : List Value) : Meets (fnLen idx args) (specLen idx args) := by
  unfold fnLen
  split <;> first | exact meets_illTyped _ | simp [specLen, Meets]

theorem fnTimeFromUnix_meets (idx : Nat) (args : List Value) :
    Meets (fnTimeFromUnix idx args) (specTimeFromUnix idx args) := by
  unfold fnTimeFromUnix
  split
  · rename_i x
    simp only [specTimeFromUnix]
    by_cases hr : InI64 (x + unixToInternal)
    · simp [hr, Meets, timeUnix_exact x hr]
    · simp [hr, Meets, Value.rank, tTime]
  · simp [specTimeFromUnix, Meets]
  · exact meets_illTyped _

theorem fnTimeToUnix_meets (idx : Nat) (args : List Value) :
    Meets (fnTimeToUnix idx args) (specTimeToUnix idx args) := by
  unfold fnTimeToUnix
  split
  · simp [specTimeToUnix, Meets, timeToUnix_eq]
  · exact meets_illTyped _

theorem fnInt_meets (idx : Nat) (args : List Value) : Meets (fnInt idx args) (specInt idx args) := by
  unfold fnInt
  split
  · simp [specInt, Meets]
  · simp [specInt, Meets]
  · simp [specInt, Meets]
  · rename_i s
    simp only [specInt, parseInt_eq_spec]
    cases parseIntSpec s <;> simp [Meets]
  · simp [specInt, Meets]
  · exact meets_illTyped _

theorem fnFloat_meets (idx : Nat) (args : List Value) : Meets (fnFloat idx args) (specFloat idx args) := by
  unfold fnFloat
  split <;> first | exact meets_illTyped _ | simp [specFloat, Meets]

theorem fnString_meets (idx : Nat) (args : List Value) : Meets (fnString idx args) (specString idx args) := by
  unfold fnString
  split
  · rename_i v
    simp only [specString]
    cases valueString v <;> simp [Meets]
  · exact meets_illTyped _

theorem fnIndex_meets (idx : Nat) (args : List Value) : Meets (fnIndex idx args) (specIndex idx args) := by
  unfold fnIndex
  split
  · simp only [specIndex]; exact indexFn_meets _ _
  · exact meets_illTyped _

theorem fnIn_meets (idx : Nat) (args : List Value) : Meets (fnIn idx args) (specIn idx args) := by
  unfold fnIn
  split
  · simp [specIn, Meets, memLoop_eq_any]
  · simp [specIn, Meets, memLoop_eq_any]
  · exact meets_illTyped _

theorem fnNotIn_meets (idx : Nat) (args : List Value) : Meets (fnNotIn idx args) (specNotIn idx args) := by
  unfold fnNotIn
  split
  · simp only [specNotIn, Meets, not_memLoop_eq_all]
  · simp only [specNotIn, Meets, not_memLoop_eq_all]
  · exact meets_illTyped _

theorem fnMath1_meets (idx : Nat) (args : List Value) : Meets (fnMath1 idx args) .unspecified := by
  unfold fnMath1; split <;> simp [Meets]
theorem fnPow_meets (idx : Nat) (args : List Value) : Meets (fnPow idx args) .unspecified := by
  unfold fnPow; split <;> simp [Meets]

/-- **every modelled descriptor meets its specification** (and in particular never panics) -/
theorem callFn_meets (name : String) (idx : Nat) (args : List Value) (h : ArgsOk args) :
    Meets (callFn name idx args) (specFn name idx args) := by
  unfold callFn specFn
  by_cases h1 : name = "add"; · subst h1; simp; exact fnAdd_meets _ _
  by_cases h2 : name = "sub"; · subst h2; simp; exact fnSub_meets _ _ h
  by_cases h3 : name = "mul"; · subst h3; simp; exact fnMul_meets _ _
  by_cases h4 : name = "div"; · subst h4; simp; exact fnDiv_meets _ _ h
  by_cases h5 : name = "abs"; · subst h5; simp; exact fnAbs_meets _ _ h
  by_cases h6 : name = "sqrt" ∨ name = "ceil" ∨ name = "floor" ∨ name = "log2" ∨ name = "log" ∨ name = "log10"
  · rw [if_neg h1, if_neg h2, if_neg h3, if_neg h4, if_neg h5, if_pos h6]
    rw [if_neg h1, if_neg h2, if_neg h3, if_neg h4, if_neg h5]
    have : specFn name idx args = .unspecified := by
      unfold specFn
      rcases h6 with h | h | h | h | h | h <;> subst h <;> simp
    unfold specFn at this
    rw [if_neg h1, if_neg h2, if_neg h3, if_neg h4, if_neg h5] at this
    rw [this]
    exact fnMath1_meets _ _
  by_cases h7 : name = "pow"; · subst h7; simp; exact fnPow_meets _ _
  by_cases h8 : name = "len"; · subst h8; simp; exact fnLen_meets _ _
  by_cases h9 : name = "tfu"; · subst h9; simp; exact fnTimeFromUnix_meets _ _
  by_cases h10 : name = "ttu"; · subst h10; simp; exact fnTimeToUnix_meets _ _
  by_cases h11 : name = "int"; · subst h11; simp; exact fnInt_meets _ _
  by_cases h12 : name = "float"; · subst h12; simp; exact fnFloat_meets _ _
  by_cases h13 : name = "string"; · subst h13; simp; exact fnString_meets _ _
  by_cases h14 : name = "idx"; · subst h14; simp; exact fnIndex_meets _ _
  by_cases h15 : name = "in"; · subst h15; simp; exact fnIn_meets _ _
  by_cases h16 : name = "notin"; · subst h16; simp; exact fnNotIn_meets _ _
  simp only [not_or] at h6
  simp [h1, h2, h3, h4, h5, h6, h7, h8, h9, h10, h11, h12, h13, h14, h15, h16]
  exact meets_illTyped _

end Octo.Num
