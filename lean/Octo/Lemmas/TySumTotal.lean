import Octo.Lemmas.TySumWf
/-! `TypeSum` of well-formed types terminates within fuel `2·(size a + size b)`: the model's `typeSum`
    (default fuel `2·(size a + size b) + 8`) is total on well-formed types. -/
namespace Octo
namespace Ty

theorem optMap_total {α β} {f : α → Option β} : ∀ (l : List α), (∀ x ∈ l, (f x).isSome = true) → (optMap f l).isSome = true
  | [], _ => rfl
  | x :: xs, h => by
    simp only [optMap]
    have h1 := h x (by simp)
    have h2 := optMap_total xs (fun y hy => h y (by simp [hy]))
    cases hx : f x with
    | none => simp [hx] at h1
    | some y =>
      cases hxs : optMap f xs with
      | none => simp [hxs] at h2
      | some ys => rfl

theorem tupleMerge_total {f : Ty → Ty → Option Ty} : ∀ (l s : List Ty),
    (∀ a ∈ l, ∀ b ∈ s, (f a b).isSome = true) → (∀ a ∈ l, (f a .null).isSome = true) →
    (tupleMerge f l s).isSome = true
  | [], _, _, _ => by simp [tupleMerge]
  | x :: xs, [], h1, h2 => by
    simp only [tupleMerge]
    have a1 := h2 x (by simp)
    have a2 := tupleMerge_total xs [] (by simp) (fun a ha => h2 a (by simp [ha]))
    cases hx : f x .null with
    | none => simp [hx] at a1
    | some y =>
      cases hxs : tupleMerge f xs [] with
      | none => simp [hxs] at a2
      | some ys => rfl
  | x :: xs, s :: ss, h1, h2 => by
    simp only [tupleMerge]
    have a1 := h1 x (by simp) s (by simp)
    have a2 := tupleMerge_total xs ss (fun a ha b hb => h1 a (by simp [ha]) b (by simp [hb]))
      (fun a ha => h2 a (by simp [ha]))
    cases hx : f x s with
    | none => simp [hx] at a1
    | some y =>
      cases hxs : tupleMerge f xs ss with
      | none => simp [hxs] at a2
      | some ys => rfl

theorem mergeFirst_total {g : Ty → Option Ty} (k : Nat) : ∀ (alts : List Ty),
    (∀ a ∈ alts, a.id = k → (g a).isSome = true) → (mergeFirst g k alts).isSome = true
  | [], _ => rfl
  | a :: as, h => by
    simp only [mergeFirst]
    split
    · rename_i hk
      have := h a (by simp) hk
      cases hg : g a with
      | none => simp [hg] at this
      | some r => rfl
    · have := mergeFirst_total k as (fun b hb => h b (by simp [hb]))
      cases hm : mergeFirst g k as with
      | none => simp [hm] at this
      | some r => rfl

theorem mem_sortNames (x : Name) : ∀ (l : List Name), x ∈ sortNames l → x ∈ l
  | [], h => by simp [sortNames] at h
  | y :: ys, h => by
    unfold sortNames at h
    simp only [List.foldr] at h
    rcases mem_insertName y x _ h with rfl | h
    · simp
    · exact List.mem_cons_of_mem _ (mem_sortNames x ys (by unfold sortNames; exact h))

theorem lookupLast_isSome : ∀ (k : Name) (ns : List Name) (ts : List Ty), ns.length = ts.length → k ∈ ns →
    (lookupLast k ns ts).isSome = true
  | _, [], _, _, h => by cases h
  | _, _ :: _, [], hl, _ => by simp at hl
  | k, n :: ns, t :: ts, hl, h => by
    simp only [lookupLast]
    cases hrec : lookupLast k ns ts with
    | some r => rfl
    | none =>
      simp only
      by_cases hn : n = k
      · simp [hn]
      · have hk : k ∈ ns := by
          cases h with
          | head => exact absurd rfl hn
          | tail _ h => exact h
        have := lookupLast_isSome k ns ts (by simpa using hl) hk
        simp [hrec] at this

/-- the struct merge is total when `self` is total on the field pairs (and against `Null`) -/
theorem structMerge_total {f : Ty → Ty → Option Ty} (ns1 : List Name) (ts1 : List Ty) (ns2 : List Name) (ts2 : List Ty)
    (l1 : ns1.length = ts1.length) (l2 : ns2.length = ts2.length)
    (h12 : ∀ a ∈ ts1, ∀ b ∈ ts2, (f a b).isSome = true)
    (h1 : ∀ a ∈ ts1, (f a .null).isSome = true) (h2 : ∀ b ∈ ts2, (f b .null).isSome = true) :
    (optMap (structField f ns1 ts1 ns2 ts2) (sortNames (ns1 ++ ns2))).isSome = true := by
  apply optMap_total
  intro name hn
  have hm := mem_sortNames name _ hn
  rw [List.mem_append] at hm
  unfold structField
  cases e1 : lookupLast name ns1 ts1 with
  | some a =>
    cases e2 : lookupLast name ns2 ts2 with
    | some b => exact h12 a (lookupLast_mem _ _ _ _ e1) b (lookupLast_mem _ _ _ _ e2)
    | none => exact h1 a (lookupLast_mem _ _ _ _ e1)
  | none =>
    cases e2 : lookupLast name ns2 ts2 with
    | some b => exact h2 b (lookupLast_mem _ _ _ _ e2)
    | none =>
      rcases hm with hm | hm
      · have := lookupLast_isSome name ns1 ts1 l1 hm; simp [e1] at this
      · have := lookupLast_isSome name ns2 ts2 l2 hm; simp [e2] at this

theorem unionPlain_branch_total {g : Ty → Ty → Option Ty} (alts : List Ty) (y : Ty)
    (h : ∀ x ∈ alts, x.id = y.id → (g x y).isSome = true) :
    (if (alts.any fun a => decide (a.id = y.id)) = true then
        Option.map union (mergeFirst (fun a => g a y) y.id alts)
      else some (union (sortById (alts ++ [y])))).isSome = true := by
  split
  · have := mergeFirst_total (g := fun a => g a y) y.id alts h
    cases hm : mergeFirst (fun a => g a y) y.id alts with
    | none => simp [hm] at this
    | some r => rfl
  · rfl

/-- union + non-union: total when `self` is total on the (at most one) alternative with the same `TypeID` -/
theorem unionPlain_total {g : Ty → Ty → Option Ty} (alts : List Ty) (y : Ty) (hy : y.isUnion = false)
    (h : ∀ x ∈ alts, x.id = y.id → (g x y).isSome = true) : (typeSumStep g (.union alts) y).isSome = true := by
  unfold typeSumStep
  by_cases h1 : (Ty.union alts).is y = .is
  · rw [if_pos h1]; rfl
  rw [if_neg h1]
  by_cases h2 : y.is (Ty.union alts) = .is
  · rw [if_pos h2]; rfl
  rw [if_neg h2]
  cases y <;> simp [isUnion] at hy <;> dsimp only <;> exact unionPlain_branch_total alts _ h


/-! ### the union/union loop -/

/-- invariant of `out = TypeSum(out, alt)` over the alternatives `rest` still to come (`as` are the alternatives
    of the left operand): `out` is well formed and every part of it whose `TypeID` is still to come is an original
    alternative of the left operand -/
def FoldInv (as : List Ty) (out : Ty) (rest : List Ty) : Prop :=
  wf out = true ∧
  ((∃ alts, out = .union alts ∧ ∀ x ∈ alts, x ∈ as ∨ ∀ y ∈ rest, x.id ≠ y.id) ∨
   (out.isUnion = false ∧ ∀ y ∈ rest, out.id ≠ y.id))

theorem foldInv_weaken {as : List Ty} {out y : Ty} {rest : List Ty} (h : FoldInv as out (y :: rest)) :
    FoldInv as out rest := by
  refine ⟨h.1, ?_⟩
  rcases h.2 with ⟨alts, e, hal⟩ | ⟨hu, hid⟩
  · left
    refine ⟨alts, e, fun x hx => ?_⟩
    rcases hal x hx with h' | h'
    · exact Or.inl h'
    · exact Or.inr (fun y' hy' => h' y' (by simp [hy']))
  · right
    exact ⟨hu, fun y' hy' => hid y' (by simp [hy'])⟩

/-- the part of the invariant that speaks about the parts of `out` -/
def PartsOk (as : List Ty) (out : Ty) (rest : List Ty) : Prop :=
  (∃ alts, out = .union alts ∧ ∀ x ∈ alts, x ∈ as ∨ ∀ y ∈ rest, x.id ≠ y.id) ∨
  (out.isUnion = false ∧ ∀ y ∈ rest, out.id ≠ y.id)

theorem foldStep_parts {g : Ty → Ty → Option Ty} (hg : WfFor g) (as : List Ty) (out y : Ty) (rest : List Ty)
    (inv : PartsOk as out (y :: rest)) (wy : wf y = true) (py : plain y) (hd : ∀ y' ∈ rest, y.id ≠ y'.id)
    (has : ∀ x ∈ as, wf x = true ∧ plain x)
    (htot : ∀ x ∈ as, x.id = y.id → (g x y).isSome = true) :
    ∃ r, typeSumStep g out y = some r ∧ PartsOk as r rest := by
  have weaken : PartsOk as out rest := by
    rcases inv with ⟨alts, e, hal⟩ | ⟨hu, hid⟩
    · left
      refine ⟨alts, e, fun x hx => ?_⟩
      rcases hal x hx with h' | h'
      · exact Or.inl h'
      · exact Or.inr (fun y' hy' => h' y' (by simp [hy']))
    · right
      exact ⟨hu, fun y' hy' => hid y' (by simp [hy'])⟩
  unfold typeSumStep
  by_cases h1 : out.is y = .is
  · rw [if_pos h1]
    exact ⟨y, rfl, Or.inr ⟨py.1, hd⟩⟩
  rw [if_neg h1]
  by_cases h2 : y.is out = .is
  · rw [if_pos h2]
    exact ⟨out, rfl, weaken⟩
  rw [if_neg h2]
  -- when `out` is not a union its TypeID differs from that of `y`
  have hne : out.isUnion = false → out.id ≠ y.id := by
    intro hu
    rcases inv with ⟨alts, e, _⟩ | ⟨_, hid⟩
    · subst e; simp [isUnion] at hu
    · exact hid y (by simp)
  split
  · exact absurd rfl (hne rfl)
  · exact absurd rfl (hne rfl)
  · exact absurd rfl (hne rfl)
  · exact absurd rfl (hne rfl)
  · exact absurd rfl (hne rfl)
  · exact absurd rfl (hne rfl)
  · simp [plain, isUnion] at py
  · simp [plain, isUnion] at py
  · -- out = union alts, y plain
    rename_i alts _
    have hal : ∀ x ∈ alts, x ∈ as ∨ ∀ y' ∈ y :: rest, x.id ≠ y'.id := by
      rcases inv with ⟨alts', e, hal⟩ | ⟨hu, _⟩
      · cases e; exact hal
      · simp [isUnion] at hu
    have hmem : ∀ x ∈ alts, x.id = y.id → x ∈ as := by
      intro x hx hid
      rcases hal x hx with h | h
      · exact h
      · exact absurd hid (h y (by simp))
    have old : ∀ z ∈ alts, z ∈ as ∨ ∀ y' ∈ rest, z.id ≠ y'.id := by
      intro z hz
      rcases hal z hz with h | h
      · exact Or.inl h
      · exact Or.inr (fun y' hy' => h y' (by simp [hy']))
    by_cases hany : (alts.any fun a => decide (a.id = y.id)) = true
    · rw [if_pos hany]
      have tot := mergeFirst_total (g := fun a => g a y) y.id alts (fun x hx hid => htot x (hmem x hx hid) hid)
      cases hm : mergeFirst (fun a => g a y) y.id alts with
      | none => simp [hm] at tot
      | some alts' =>
        obtain ⟨pre, a0, post, r0, e1, e2, e3, e4⟩ := mergeFirst_split _ _ _ hm hany
        have ha0 : a0 ∈ alts := by rw [e1]; simp
        have ha0' := hmem a0 ha0 e2
        have ⟨_, hr0⟩ := hg a0 y r0 e3 (has a0 ha0').1 wy
        have ⟨_, idr⟩ := hr0 (has a0 ha0').2 py e2
        refine ⟨.union alts', rfl, Or.inl ⟨alts', rfl, ?_⟩⟩
        intro z hz
        rw [e4] at hz
        simp only [List.mem_append, List.mem_cons] at hz
        rcases hz with hz | rfl | hz
        · exact old z (by rw [e1]; simp [hz])
        · right; intro y' hy'; rw [idr, e2]; exact hd y' hy'
        · exact old z (by rw [e1]; simp [hz])
    · rw [if_neg hany]
      refine ⟨_, rfl, Or.inl ⟨_, rfl, ?_⟩⟩
      intro z hz
      rw [mem_sortById, List.mem_append] at hz
      rcases hz with hz | hz
      · exact old z hz
      · simp only [List.mem_singleton] at hz; subst hz; exact Or.inr hd
  · -- neither is a union
    rename_i hou _ _ _ _ _ _ _ _
    have hu : out.isUnion = false := by
      cases ho : out.isUnion
      · rfl
      · obtain ⟨l, rfl⟩ := eq_union_of_isUnion ho; exact absurd rfl (hou l)
    have hid : ∀ y' ∈ rest, out.id ≠ y'.id := by
      rcases inv with ⟨alts, e, _⟩ | ⟨_, hid⟩
      · subst e; simp [isUnion] at hu
      · exact fun y' hy' => hid y' (by simp [hy'])
    refine ⟨_, rfl, Or.inl ⟨_, rfl, ?_⟩⟩
    intro z hz
    rw [mem_sortById] at hz
    simp only [List.mem_cons, List.not_mem_nil, or_false] at hz
    rcases hz with rfl | rfl
    · exact Or.inr hid
    · exact Or.inr hd

theorem foldStep {g : Ty → Ty → Option Ty} (hg : WfFor g) (as : List Ty) (out y : Ty) (rest : List Ty)
    (inv : FoldInv as out (y :: rest)) (wy : wf y = true) (py : plain y) (hd : ∀ y' ∈ rest, y.id ≠ y'.id)
    (has : ∀ x ∈ as, wf x = true ∧ plain x)
    (htot : ∀ x ∈ as, x.id = y.id → (g x y).isSome = true) :
    ∃ r, typeSumStep g out y = some r ∧ FoldInv as r rest := by
  obtain ⟨r, hr, hp⟩ := foldStep_parts hg as out y rest inv.2 wy py hd has htot
  exact ⟨r, hr, (wf_step hg out y r hr inv.1 wy).1, hp⟩

theorem fold_total {g : Ty → Ty → Option Ty} (hg : WfFor g) (as : List Ty)
    (has : ∀ x ∈ as, wf x = true ∧ plain x) :
    ∀ (rest : List Ty) (out : Ty), FoldInv as out rest → distinctIds rest = true →
      (∀ y ∈ rest, wf y = true ∧ plain y) →
      (∀ x ∈ as, ∀ y ∈ rest, x.id = y.id → (g x y).isSome = true) →
      (optFoldl (typeSumStep g) out rest).isSome = true
  | [], _, _, _, _, _ => rfl
  | y :: rest, out, inv, hd, hr, htot => by
    rw [distinctIds_cons] at hd
    obtain ⟨r, hr1, hr2⟩ := foldStep hg as out y rest inv (hr y (by simp)).1 (hr y (by simp)).2 hd.1 has
      (fun x hx => htot x hx y (by simp))
    simp only [optFoldl, hr1]
    exact fold_total hg as has rest r hr2 hd.2 (fun y' hy' => hr y' (by simp [hy']))
      (fun x hx y' hy' => htot x hx y' (by simp [hy']))


theorem mem_size_lt_union {x : Ty} {l : List Ty} (h : x ∈ l) : x.size < (Ty.union l).size := by
  have := size_le_sizeList h; simp only [size]; omega

/-- **termination**: for well-formed operands fuel `2·(size a + size b)` is enough -/
theorem sum_total_aux (s : Nat) : ∀ (n : Nat) (a b : Ty), wf a = true → wf b = true → a.size + b.size ≤ s → 2 * s ≤ n →
    (typeSumF n a b).isSome = true := by
  induction s using Nat.strongRecOn with
  | ind s ih =>
    intro n a b wa wb hs hn
    have pa := size_pos a
    have pb := size_pos b
    obtain ⟨k, rfl⟩ : ∃ k, n = k + 2 := ⟨n - 2, by omega⟩
    -- f = typeSumF (k+1) is total below s, g = typeSumF k below s-1 (and below s for the swap step)
    have hf1 : ∀ x y : Ty, wf x = true → wf y = true → x.size + y.size ≤ s - 1 → (typeSumF (k + 1) x y).isSome = true :=
      fun x y wx wy h => ih (s - 1) (by omega) (k + 1) x y wx wy h (by omega)
    have hg1 : ∀ x y : Ty, wf x = true → wf y = true → x.size + y.size ≤ s - 1 → (typeSumF k x y).isSome = true :=
      fun x y wx wy h => ih (s - 1) (by omega) k x y wx wy h (by omega)
    have hfe : typeSumF (k + 1) = typeSumStep (typeSumF k) := by funext x y; rfl
    show (typeSumStep (typeSumF (k + 1)) a b).isSome = true
    unfold typeSumStep
    by_cases h1 : a.is b = .is
    · rw [if_pos h1]; rfl
    rw [if_neg h1]
    by_cases h2 : b.is a = .is
    · rw [if_pos h2]; rfl
    rw [if_neg h2]
    split
    · -- struct / struct
      rename_i ns1 ts1 ns2 ts2
      rw [wf_struct] at wa wb
      have w1 := (wfList_iff _).mp wa.2.2
      have w2 := (wfList_iff _).mp wb.2.2
      simp only [size] at hs
      rw [Option.isSome_map]
      refine structMerge_total ns1 ts1 ns2 ts2 wa.2.1 wb.2.1 ?_ ?_ ?_
      · intro x hx y hy
        exact hf1 x y (w1 x hx) (w2 y hy) (by have := size_le_sizeList hx; have := size_le_sizeList hy; omega)
      · intro x hx
        exact hf1 x .null (w1 x hx) wf_null (by have := size_le_sizeList hx; simp only [size]; omega)
      · intro y hy
        exact hf1 y .null (w2 y hy) wf_null (by have := size_le_sizeList hy; simp only [size]; omega)
    · rfl
    · rfl
    · rfl
    · -- list / list
      simp only [wf] at wa wb
      simp only [size] at hs
      rw [Option.isSome_map]
      exact hf1 _ _ wa wb (by omega)
    · -- tuple / tuple
      rename_i ts1 ts2
      simp only [wf] at wa wb
      have w1 := (wfList_iff _).mp wa
      have w2 := (wfList_iff _).mp wb
      simp only [size] at hs
      rw [Option.isSome_map]
      split
      · refine tupleMerge_total ts1 ts2 ?_ ?_
        · intro x hx y hy
          exact hf1 x y (w1 x hx) (w2 y hy) (by have := size_le_sizeList hx; have := size_le_sizeList hy; omega)
        · intro x hx
          exact hf1 x .null (w1 x hx) wf_null (by have := size_le_sizeList hx; simp only [size]; omega)
      · refine tupleMerge_total ts2 ts1 ?_ ?_
        · intro y hy x hx
          exact hf1 y x (w2 y hy) (w1 x hx) (by have := size_le_sizeList hx; have := size_le_sizeList hy; omega)
        · intro y hy
          exact hf1 y .null (w2 y hy) wf_null (by have := size_le_sizeList hy; simp only [size]; omega)
    · -- union / union
      rename_i as bs
      have wa' := wa
      have wb' := wb
      rw [wf_union] at wa' wb'
      have pa' := (altsPlain_iff _).mp wa'.1
      have pb' := (altsPlain_iff _).mp wb'.1
      have wla := (wfList_iff _).mp wa'.2.2
      have wlb := (wfList_iff _).mp wb'.2.2
      rw [hfe]
      refine fold_total (wfFor_F k) as (fun x hx => ⟨wla x hx, pa' x hx⟩) bs (.union as)
        ⟨wa, Or.inl ⟨as, rfl, fun x hx => Or.inl hx⟩⟩ wb'.2.1 (fun y hy => ⟨wlb y hy, pb' y hy⟩) ?_
      intro x hx y hy _
      have := mem_size_lt_union hx
      have := mem_size_lt_union hy
      exact ih (s - 2) (by omega) k x y (wla x hx) (wlb y hy) (by omega) (by omega)
    · -- only t2 is a union: swap
      rename_i alts2 hau
      have hau' : a.isUnion = false := by
        cases ha : a.isUnion
        · rfl
        · obtain ⟨l, rfl⟩ := eq_union_of_isUnion ha; exact absurd rfl (hau l)
      have wb' := wb
      rw [wf_union] at wb'
      have wlb := (wfList_iff _).mp wb'.2.2
      rw [hfe]
      refine unionPlain_total alts2 a hau' ?_
      intro x hx _
      have := mem_size_lt_union hx
      exact hg1 x a (wlb x hx) wa (by omega)
    · -- only t1 is a union
      rename_i alts _
      have wa' := wa
      rw [wf_union] at wa'
      have wla := (wfList_iff _).mp wa'.2.2
      refine unionPlain_branch_total alts b ?_
      intro x hx _
      have := mem_size_lt_union hx
      exact hf1 x b (wla x hx) wb (by omega)
    · rfl

/-- the model's `typeSum` (default fuel) is total on well-formed types -/
theorem typeSum_total {a b : Ty} (wa : wf a = true) (wb : wf b = true) : (typeSum a b).isSome = true :=
  sum_total_aux (a.size + b.size) _ a b wa wb (Nat.le_refl _) (by unfold sumFuel; omega)

end Ty
end Octo
