import Octo.Lemmas.TySumUpper
/-! `Value.Type`: every value matches the type it reports (under ShapeCompatible element chains). -/
namespace Octo

theorem Value.size_le_sizeList {x : Value} {xs : List Value} (h : x ∈ xs) : x.size ≤ Value.sizeList xs := by
  induction xs with
  | nil => cases h
  | cons y ys ih =>
    simp only [Value.sizeList]
    cases h with
    | head => omega
    | tail _ h => have := ih h; omega

namespace Ty

theorem upperFor_typeSum : UpperFor typeSum shapeOk := by
  intro a b c hc hok
  exact sum_upper_F (sumFuel a b) a b c hc hok

end Ty

open Ty in
theorem typeOfMany_conforms : ∀ (xs : List Value) (ts : List Ty),
    (∀ x ∈ xs, x.typeOfShapeOk = true → ∀ t, x.typeOf = some t → conforms t x = true) →
    Value.typeOfMany xs = some ts → Value.typeOfShapeOkMany xs = true →
    conformsZip ts xs = true ∧ ∀ x ∈ xs, ∃ t ∈ ts, conforms t x = true
  | [], ts, _, h, _ => by
    simp only [Value.typeOfMany, Option.some.injEq] at h
    subst h
    simp [conformsZip]
  | x :: xs, ts, ih, h, hok => by
    simp only [Value.typeOfMany] at h
    simp only [Value.typeOfShapeOkMany, Bool.and_eq_true] at hok
    cases hx : x.typeOf with
    | none => simp [hx] at h
    | some t =>
      cases hxs : Value.typeOfMany xs with
      | none => simp [hx, hxs] at h
      | some ts' =>
        simp only [hx, hxs, Option.some.injEq] at h
        subst h
        have h1 := ih x (by simp) hok.1 t hx
        have ⟨h2, h3⟩ := typeOfMany_conforms xs ts' (fun y hy => ih y (by simp [hy])) hxs hok.2
        refine ⟨by simp [conformsZip, h1, h2], ?_⟩
        intro y hy
        cases hy with
        | head => exact ⟨t, by simp, h1⟩
        | tail _ hy =>
          obtain ⟨t', ht', hc⟩ := h3 y hy
          exact ⟨t', by simp [ht'], hc⟩

open Ty in
theorem typeOf_conforms_aux : ∀ (n : Nat) (v : Value), v.size ≤ n → v.typeOfShapeOk = true →
    ∀ t, v.typeOf = some t → conforms t v = true := by
  intro n
  induction n with
  | zero => intro v h; cases v <;> simp [Value.size] at h
  | succ n ih =>
    intro v hn hok t ht
    cases v with
    | list xs =>
      simp only [Value.typeOf] at ht
      simp only [Value.typeOfShapeOk, Bool.and_eq_true] at hok
      cases hm : Value.typeOfMany xs with
      | none => simp [hm] at ht
      | some ts =>
        simp only [hm] at ht hok
        have ⟨_, hmem⟩ := typeOfMany_conforms xs ts (fun x hx => ih x (by
          have := Value.size_le_sizeList hx; simp only [Value.size] at hn; omega)) hm hok.1
        cases ts with
        | nil =>
          simp only [elemFold, Option.some.injEq] at ht
          subst ht
          cases xs with
          | nil => simp [conforms]
          | cons x xs =>
            obtain ⟨t, ht, _⟩ := hmem x (by simp)
            cases ht
        | cons t0 ts =>
          simp only [elemFold, Option.map_eq_some_iff] at ht
          obtain ⟨e, he, rfl⟩ := ht
          have ⟨h0, hrest⟩ := foldOk_upper upperFor_typeSum ts t0 e he hok.2
          simp only [conforms, List.all_eq_true]
          intro x hx
          obtain ⟨t', ht', hc⟩ := hmem x hx
          cases ht' with
          | head => exact is_sound h0 x hc
          | tail _ ht' => exact is_sound (hrest t' ht') x hc
    | struct xs =>
      simp only [Value.typeOf, Option.map_eq_some_iff] at ht
      simp only [Value.typeOfShapeOk] at hok
      obtain ⟨ts, hm, rfl⟩ := ht
      simp only [conforms]
      exact (typeOfMany_conforms xs ts (fun x hx => ih x (by
          have := Value.size_le_sizeList hx; simp only [Value.size] at hn; omega)) hm hok).1
    | tuple xs =>
      simp only [Value.typeOf, Option.map_eq_some_iff] at ht
      simp only [Value.typeOfShapeOk] at hok
      obtain ⟨ts, hm, rfl⟩ := ht
      simp only [conforms]
      exact (typeOfMany_conforms xs ts (fun x hx => ih x (by
          have := Value.size_le_sizeList hx; simp only [Value.size] at hn; omega)) hm hok).1
    | _ => simp only [Value.typeOf, Option.some.injEq] at ht; subst ht; simp [conforms]

end Octo
