import Octo.Lemmas.CmpLaws
import Octo.Spec.Aggregates
/-!
  Multisets of values up to `cmp = 0`: counting, erasing, histories and their net multiset.
  Everything rests on the C09 order laws of `cmp` (`cmpWith_* cmpFloatFixed_laws`).
-/
namespace Octo.Agg
open Octo

/-! ### the order laws in the form used here -/
theorem crefl (a : Value) : cmp a a = 0 := cmpWith_refl cmpFloatFixed_laws a
theorem casym (a b : Value) : cmp a b = - cmp b a := cmpWith_antisymm cmpFloatFixed_laws a b
theorem ctrans (a b c : Value) : cmp a b ≤ 0 → cmp b c ≤ 0 → cmp a c ≤ 0 :=
  cmpWith_trans cmpFloatFixed_laws a b c
theorem crange (a b : Value) : cmp a b = -1 ∨ cmp a b = 0 ∨ cmp a b = 1 :=
  cmpWith_range cmpFloatFixed_laws a b

theorem csymm {a b : Value} (h : cmp a b = 0) : cmp b a = 0 := by
  have := casym a b; omega

theorem ceq_trans {a b c : Value} (h1 : cmp a b = 0) (h2 : cmp b c = 0) : cmp a c = 0 :=
  cmpWith_eq_trans cmpFloatFixed_laws a b c h1 h2

/-- equal values compare the same way against anything (left) -/
theorem ccongr_left {a b : Value} (h : cmp a b = 0) (c : Value) : cmp a c = cmp b c := by
  have t1 := ctrans a b c; have t2 := ctrans b a c
  have t3 := ctrans c a b; have t4 := ctrans c b a
  have a1 := casym a b; have a2 := casym a c; have a3 := casym b c
  have r1 := crange a c; have r2 := crange b c
  omega

theorem ccongr_right {a b : Value} (h : cmp a b = 0) (c : Value) : cmp c a = cmp c b := by
  have := ccongr_left h c
  have a2 := casym a c; have a3 := casym b c
  omega

/-- all instances of the order laws on three values, then `omega` -/
macro "cmp_omega" a:term:max b:term:max c:term:max : tactic => `(tactic| (
  have := ctrans $a $b $c; have := ctrans $a $c $b; have := ctrans $b $a $c
  have := ctrans $b $c $a; have := ctrans $c $a $b; have := ctrans $c $b $a
  have := casym $a $b; have := casym $a $c; have := casym $b $c
  have := crange $a $b; have := crange $a $c; have := crange $b $c
  omega))

theorem clt_trans {a b c : Value} (h1 : cmp a b < 0) (h2 : cmp b c ≤ 0) : cmp a c < 0 := by
  cmp_omega a b c

theorem cle_lt_trans {a b c : Value} (h1 : cmp a b ≤ 0) (h2 : cmp b c < 0) : cmp a c < 0 := by
  cmp_omega a b c

/-! ### counting -/
theorem cnt_nil (v : Value) : cnt [] v = 0 := rfl
theorem cnt_cons (x : Value) (r : List Value) (v : Value) :
    cnt (x :: r) v = (if cmp x v = 0 then 1 else 0) + cnt r v := rfl

theorem cnt_nonneg (L : List Value) (v : Value) : 0 ≤ cnt L v := by
  induction L with
  | nil => simp [cnt]
  | cons x r ih => rw [cnt_cons]; split <;> omega

/-- the indicator `[x ≃ v]` only depends on the classes of `x` and `v` -/
theorem ind_congr_right {v w : Value} (h : cmp v w = 0) (x : Value) :
    (if cmp x v = 0 then (1:Int) else 0) = (if cmp x w = 0 then 1 else 0) := by
  rw [ccongr_right h x]

theorem ind_congr_left {x y : Value} (h : cmp x y = 0) (v : Value) :
    (if cmp x v = 0 then (1:Int) else 0) = (if cmp y v = 0 then 1 else 0) := by
  rw [ccongr_left h v]

theorem cnt_congr (L : List Value) {v w : Value} (h : cmp v w = 0) : cnt L v = cnt L w := by
  induction L with
  | nil => rfl
  | cons x r ih => rw [cnt_cons, cnt_cons, ih, ind_congr_right h]

theorem cnt_pos_of_mem {L : List Value} {x : Value} (h : x ∈ L) : 0 < cnt L x := by
  induction L with
  | nil => cases h
  | cons y r ih =>
    rw [cnt_cons]
    rcases List.mem_cons.mp h with rfl | h'
    · have := cnt_nonneg r x; simp [crefl]; omega
    · have := ih h'; split <;> omega

theorem exists_mem_of_cnt_pos {L : List Value} {v : Value} (h : 0 < cnt L v) : ∃ x ∈ L, cmp x v = 0 := by
  induction L with
  | nil => simp [cnt] at h
  | cons y r ih =>
    rw [cnt_cons] at h
    by_cases hy : cmp y v = 0
    · exact ⟨y, List.mem_cons_self, hy⟩
    · simp [hy] at h
      obtain ⟨x, hx, hxv⟩ := ih h
      exact ⟨x, List.mem_cons_of_mem _ hx, hxv⟩

theorem eq_nil_of_cnt_zero {L : List Value} (h : ∀ v, cnt L v = 0) : L = [] := by
  cases L with
  | nil => rfl
  | cons x r => have := cnt_pos_of_mem (L := x :: r) (x := x) List.mem_cons_self; have := h x; omega

/-! ### erasing one element of a class -/
theorem cnt_eraseEq {L : List Value} {x : Value} (h : 0 < cnt L x) (v : Value) :
    cnt (eraseEq x L) v = cnt L v - (if cmp x v = 0 then 1 else 0) := by
  induction L with
  | nil => simp [cnt] at h
  | cons y r ih =>
    by_cases hy : cmp y x = 0
    · simp only [eraseEq, hy, if_true, cnt_cons]
      rw [ind_congr_left hy v]; omega
    · simp only [eraseEq, hy, if_false, cnt_cons] at *
      rw [ih (by omega)]; omega

theorem sumZ_eraseEq (f : Value → Int) (hf : ∀ a b, cmp a b = 0 → f a = f b)
    {L : List Value} {x : Value} (h : 0 < cnt L x) :
    sumZ f (eraseEq x L) = sumZ f L - f x := by
  induction L with
  | nil => simp [cnt] at h
  | cons y r ih =>
    by_cases hy : cmp y x = 0
    · simp only [eraseEq, hy, if_true, sumZ]; rw [hf y x hy]; omega
    · simp only [eraseEq, hy, if_false, cnt_cons, sumZ] at *
      rw [ih (by omega)]; omega

theorem length_eraseEq {L : List Value} {x : Value} (h : 0 < cnt L x) :
    ((eraseEq x L).length : Int) = L.length - 1 := by
  induction L with
  | nil => simp [cnt] at h
  | cons y r ih =>
    by_cases hy : cmp y x = 0
    · simp [eraseEq, hy]
    · simp only [eraseEq, hy, if_false, cnt_cons, List.length_cons] at *
      have := ih (by omega); omega

/-! ### lists that represent the same multiset -/
def CntEq (L M : List Value) : Prop := ∀ v, cnt L v = cnt M v

theorem CntEq.symm {L M : List Value} (h : CntEq L M) : CntEq M L := fun v => (h v).symm

theorem CntEq.nil_right {L : List Value} (h : CntEq L []) : L = [] :=
  eq_nil_of_cnt_zero (fun v => by rw [h v]; rfl)

theorem CntEq.erase {x : Value} {L M : List Value} (h : CntEq (x :: L) M) :
    0 < cnt M x ∧ CntEq L (eraseEq x M) := by
  have hx : 0 < cnt M x := by
    rw [← h x, cnt_cons]; have := cnt_nonneg L x; simp [crefl]; omega
  refine ⟨hx, fun v => ?_⟩
  rw [cnt_eraseEq hx v, ← h v, cnt_cons]; omega

/-- any `≃`-invariant additive functional agrees on two representations of a multiset -/
theorem sumZ_congr (f : Value → Int) (hf : ∀ a b, cmp a b = 0 → f a = f b) :
    ∀ (L M : List Value), CntEq L M → sumZ f L = sumZ f M
  | [], M, h => by rw [CntEq.nil_right h.symm]
  | x :: L, M, h => by
    obtain ⟨hx, h'⟩ := h.erase
    have ih := sumZ_congr f hf L (eraseEq x M) h'
    rw [sumZ_eraseEq f hf hx] at ih
    simp only [sumZ]; omega

theorem length_congr : ∀ (L M : List Value), CntEq L M → L.length = M.length
  | [], M, h => by rw [CntEq.nil_right h.symm]
  | x :: L, M, h => by
    obtain ⟨hx, h'⟩ := h.erase
    have ih := length_congr L (eraseEq x M) h'
    have := length_eraseEq hx
    simp only [List.length_cons]; omega

/-! ### histories -/
theorem netH_nil (v : Value) : netH [] v = 0 := rfl
theorem netH_cons (e : Bool × Value) (h : Hist) (v : Value) : netH (e :: h) v = weight e v + netH h v := rfl

/-- the effect of one valid step on the counts of the running multiset -/
theorem cnt_bagStep {L : List Value} {e : Bool × Value} (hv : e.1 = true → 0 < cnt L e.2) (v : Value) :
    cnt (bagStep L e) v = cnt L v + weight e v := by
  obtain ⟨r, x⟩ := e
  cases r with
  | false =>
    simp only [bagStep, weight, Bool.false_eq_true, if_false]
    rw [cnt_cons]; omega
  | true =>
    simp only [bagStep, weight, if_true]
    rw [cnt_eraseEq (hv rfl) v]; split <;> omega

/-- validity, relative to a multiset `L` already present: no prefix takes a count below zero -/
def ValidFrom (L : List Value) (h : Hist) : Prop := ∀ n v, 0 ≤ cnt L v + netH (h.take n) v

theorem validFrom_nil_iff (h : Hist) : ValidFrom [] h ↔ ValidHist h := by
  simp [ValidFrom, ValidHist, cnt]

theorem ValidFrom.head {L : List Value} {e : Bool × Value} {h : Hist} (hv : ValidFrom L (e :: h)) :
    e.1 = true → 0 < cnt L e.2 := by
  intro hr
  have := hv 1 e.2
  simp only [List.take_succ_cons, List.take_zero, netH_cons, netH_nil, weight, hr, crefl, if_true] at this
  omega

theorem ValidFrom.tail {L : List Value} {e : Bool × Value} {h : Hist} (hv : ValidFrom L (e :: h)) :
    ValidFrom (bagStep L e) h := by
  intro n v
  have := hv (n + 1) v
  rw [cnt_bagStep hv.head v]
  simp only [List.take_succ_cons, netH_cons] at this
  omega

end Octo.Agg
