import Octo.Lemmas.CmpLaws
import Octo.Model.OpSpec
/-!
  Octo.Lemmas.OpsNet — algebra of changelogs used by the operator theorems (C15, C18):
  `rowEq` is an equivalence (from the C09 order laws), signed sums over a changelog (`wsum`),
  the *pushforward lemma* (a signed sum of a row-congruent weight depends only on `net`),
  consolidation (`consolidate` is correct on valid changelogs) and `ValidFrom`.
-/
namespace Octo.Ops
open Octo

/-! ### rowEq is an equivalence -/
theorem cmpList_refl (a : Row) : cmpList a a = 0 := cmpListWith_refl cmpFloatFixed_laws a
theorem cmpList_antisymm (a b : Row) : cmpList a b = - cmpList b a := by
  have := cmpWith_antisymm cmpFloatFixed_laws (.list a) (.list b)
  simpa only [cmpWith] using this
theorem cmpList_eq_trans (a b c : Row) (h1 : cmpList a b = 0) (h2 : cmpList b c = 0) : cmpList a c = 0 := by
  have := cmpWith_eq_trans cmpFloatFixed_laws (.list a) (.list b) (.list c)
  simp only [cmpWith] at this
  exact this h1 h2
theorem cmpList_trans (a b c : Row) (h1 : cmpList a b ≤ 0) (h2 : cmpList b c ≤ 0) : cmpList a c ≤ 0 := by
  have := cmpWith_trans cmpFloatFixed_laws (.list a) (.list b) (.list c)
  simp only [cmpWith] at this
  exact this h1 h2
theorem cmpList_range (a b : Row) : cmpList a b = -1 ∨ cmpList a b = 0 ∨ cmpList a b = 1 :=
  cmpListWith_range cmpFloatFixed_laws a b

theorem rowEq_iff (a b : Row) : rowEq a b = true ↔ cmpList a b = 0 := by simp [rowEq]
theorem rowEq_refl (a : Row) : rowEq a a = true := by simp [rowEq, cmpList_refl]
theorem rowEq_symm (a b : Row) : rowEq a b = rowEq b a := by
  have := cmpList_antisymm a b
  rw [Bool.eq_iff_iff, rowEq_iff, rowEq_iff]; omega
theorem rowEq_trans {a b c : Row} (h1 : rowEq a b = true) (h2 : rowEq b c = true) : rowEq a c = true := by
  rw [rowEq_iff] at *
  exact cmpList_eq_trans a b c h1 h2
/-- equivalent rows are related to the same rows -/
theorem rowEq_congr_left {a b : Row} (h : rowEq a b = true) (c : Row) : rowEq a c = rowEq b c := by
  have hba : rowEq b a = true := by rw [rowEq_symm]; exact h
  cases h1 : rowEq a c <;> cases h2 : rowEq b c <;> try rfl
  · have t := rowEq_trans h h2
    simp [t] at h1
  · have t := rowEq_trans hba h1
    simp [t] at h2
theorem rowEq_congr_right {a b : Row} (h : rowEq a b = true) (c : Row) : rowEq c a = rowEq c b := by
  rw [rowEq_symm c a, rowEq_symm c b]; exact rowEq_congr_left h c

theorem recs_map_data (l : List Rec) : recs (l.map .data) = l := by
  induction l with
  | nil => rfl
  | cons r rs ih => simp [recs, ih]

/-! ### signs, weights, signed sums -/
def sgn (r : Rec) : Int := if r.retr then -1 else 1

theorem weight_eq (r : Rec) (y : Row) : r.weight y = if rowEq r.vals y then sgn r else 0 := by
  simp [Rec.weight, sgn]

/-- signed sum of a weight function over a changelog -/
def wsum (g : Row → Int) : List Rec → Int
  | [] => 0
  | r :: rs => sgn r * g r.vals + wsum g rs

/-- the weight function respects row identity -/
def Congr (g : Row → Int) : Prop := ∀ x x', rowEq x x' = true → g x = g x'

def ind1 (x y : Row) : Int := if rowEq x y then 1 else 0

theorem net_eq_wsum (l : List Rec) (y : Row) : net l y = wsum (fun x => ind1 x y) l := by
  induction l with
  | nil => rfl
  | cons r rs ih => simp only [net, wsum, weight_eq, ih, ind1]; split <;> simp

theorem net_congr_row (l : List Rec) {y y' : Row} (h : rowEq y y' = true) : net l y = net l y' := by
  induction l with
  | nil => rfl
  | cons r rs ih => simp only [net, weight_eq, ih, rowEq_congr_right h r.vals]

theorem ind1_congr (y : Row) : Congr (fun x => ind1 x y) := by
  intro x x' h; simp only [ind1, rowEq_congr_left h y]

theorem wsum_append (g : Row → Int) (a b : List Rec) : wsum g (a ++ b) = wsum g a + wsum g b := by
  induction a with
  | nil => simp [wsum]
  | cons r rs ih => simp only [List.cons_append, wsum, ih]; omega

theorem wsum_split (g : Row → Int) (p : Rec → Bool) (l : List Rec) :
    wsum g l = wsum g (l.filter p) + wsum g (l.filter fun r => !p r) := by
  induction l with
  | nil => rfl
  | cons r rs ih =>
    simp only [List.filter_cons]
    cases hp : p r <;> simp only [wsum, ih] <;> simp [wsum] <;> omega

theorem wsum_filter_eq (g : Row → Int) (hg : Congr g) (x : Row) (l : List Rec) :
    wsum g (l.filter fun r => rowEq r.vals x) = g x * net l x := by
  induction l with
  | nil => simp [wsum, net]
  | cons r rs ih =>
    simp only [List.filter_cons, net, weight_eq]
    cases h : rowEq r.vals x
    · simp only [Bool.false_eq_true, ↓reduceIte, ih, Int.zero_add]
    · simp only [↓reduceIte, wsum, ih, hg _ _ h, Int.mul_add]; rw [Int.mul_comm]

theorem net_filter_not (x y : Row) (l : List Rec) :
    net (l.filter fun r => !rowEq r.vals x) y = if rowEq x y then 0 else net l y := by
  induction l with
  | nil => simp [net]
  | cons r rs ih =>
    simp only [List.filter_cons, net, weight_eq]
    cases h : rowEq r.vals x
    · simp only [Bool.not_false, ↓reduceIte, net, weight_eq, ih]
      cases hxy : rowEq x y
      · simp
      · have : rowEq r.vals y = false := by
          cases h2 : rowEq r.vals y
          · rfl
          · have := rowEq_trans h2 (by rwa [rowEq_symm] : rowEq y x = true); simp [this] at h
        simp [this]
    · simp only [Bool.not_true, Bool.false_eq_true, ↓reduceIte, ih]
      cases hxy : rowEq x y
      · have : rowEq r.vals y = false := by
          cases h2 : rowEq r.vals y
          · rfl
          · have := rowEq_trans (by rwa [rowEq_symm] : rowEq x r.vals = true) h2; simp [this] at hxy
        simp [this]
      · simp

theorem length_filter_not_lt (x : Row) (r : Rec) (rs : List Rec) (h : rowEq r.vals x = true) :
    ((r :: rs).filter fun r => !rowEq r.vals x).length < (r :: rs).length := by
  simp only [List.filter_cons, h, Bool.not_true, Bool.false_eq_true, ↓reduceIte, List.length_cons]
  have := List.length_filter_le (fun r : Rec => !rowEq r.vals x) rs
  omega

/-- **pushforward lemma, zero form**: a changelog whose net is zero everywhere contributes zero to every
    row-congruent signed sum -/
theorem wsum_of_net_zero (g : Row → Int) (hg : Congr g) :
    ∀ (n : Nat) (l : List Rec), l.length ≤ n → (∀ y, net l y = 0) → wsum g l = 0 := by
  intro n
  induction n with
  | zero =>
    intro l hl _
    have : l = [] := List.eq_nil_of_length_eq_zero (by omega)
    subst this; rfl
  | succ n ih =>
    intro l hl hz
    cases l with
    | nil => rfl
    | cons r rs =>
      let x := r.vals
      rw [wsum_split g (fun r => rowEq r.vals x)]
      rw [wsum_filter_eq g hg x, hz x]
      have hlen := length_filter_not_lt x r rs (rowEq_refl _)
      have := ih ((r :: rs).filter fun r => !rowEq r.vals x) (by simp only [List.length_cons] at hl hlen ⊢; omega)
        (by intro y; rw [net_filter_not]; split <;> simp [hz y])
      rw [this]; simp

/-- the changelog with every sign flipped -/
def flip (l : List Rec) : List Rec := l.map fun r => { r with retr := !r.retr }

theorem wsum_flip (g : Row → Int) (l : List Rec) : wsum g (flip l) = - wsum g l := by
  induction l with
  | nil => rfl
  | cons r rs ih =>
    simp only [flip, List.map_cons, wsum, sgn] at *
    rw [ih]; cases r.retr <;> simp <;> omega

theorem net_append' (a b : List Rec) (y : Row) : net (a ++ b) y = net a y + net b y := net_append a b y

theorem net_flip (l : List Rec) (y : Row) : net (flip l) y = - net l y := by
  rw [net_eq_wsum, net_eq_wsum, wsum_flip]

/-- **pushforward lemma**: a row-congruent signed sum depends only on the net multiplicities -/
theorem wsum_congr_net (g : Row → Int) (hg : Congr g) (l1 l2 : List Rec) (h : ∀ y, net l1 y = net l2 y) :
    wsum g l1 = wsum g l2 := by
  have := wsum_of_net_zero g hg _ (l1 ++ flip l2) (Nat.le_refl _)
    (by intro y; rw [net_append, net_flip, h y]; omega)
  rw [wsum_append, wsum_flip] at this
  omega

/-! ### multiplicities in row lists, consolidation -/
def sumOver (g : Row → Int) : List Row → Int
  | [] => 0
  | x :: xs => g x + sumOver g xs

def adds (rows : List Row) : List Rec := rows.map fun x => { vals := x, retr := false, et := none }

theorem net_adds (rows : List Row) (y : Row) : net (adds rows) y = cnt rows y := by
  induction rows with
  | nil => rfl
  | cons x xs ih => simp only [adds, List.map_cons, net, weight_eq, cnt, sgn] at *; rw [ih]; simp

theorem wsum_adds (g : Row → Int) (rows : List Row) : wsum g (adds rows) = sumOver g rows := by
  induction rows with
  | nil => rfl
  | cons x xs ih => simp only [adds, List.map_cons, wsum, sumOver, sgn] at *; rw [ih]; simp

/-- a row-congruent signed sum over a changelog is the plain sum over any consolidation of it -/
theorem wsum_of_consolidates (g : Row → Int) (hg : Congr g) {rows : List Row} {log : List Rec}
    (h : Consolidates rows log) : wsum g log = sumOver g rows := by
  rw [← wsum_adds]
  exact wsum_congr_net g hg _ _ (by intro y; rw [net_adds]; exact h y)

theorem cnt_nonneg (rows : List Row) (y : Row) : 0 ≤ cnt rows y := by
  induction rows with
  | nil => simp [cnt]
  | cons x xs ih => simp only [cnt]; split <;> omega

theorem cnt_append (a b : List Row) (y : Row) : cnt (a ++ b) y = cnt a y + cnt b y := by
  induction a with
  | nil => simp [cnt]
  | cons x xs ih => simp only [List.cons_append, cnt, ih]; omega

theorem cnt_congr (rows : List Row) {y y' : Row} (h : rowEq y y' = true) : cnt rows y = cnt rows y' := by
  induction rows with
  | nil => rfl
  | cons x xs ih => simp only [cnt, ih, rowEq_congr_right h x]

theorem cnt_eraseRow (x : Row) (rows : List Row) (hpos : 0 < cnt rows x) (y : Row) :
    cnt (eraseRow x rows) y = cnt rows y - (if rowEq x y then 1 else 0) := by
  induction rows with
  | nil => simp [cnt] at hpos
  | cons z zs ih =>
    simp only [eraseRow]
    cases hz : rowEq z x
    · simp only [Bool.false_eq_true, ↓reduceIte, cnt]
      simp only [cnt, hz, Bool.false_eq_true, ↓reduceIte, Int.zero_add] at hpos
      rw [ih hpos]; omega
    · simp only [↓reduceIte, cnt, rowEq_congr_left hz y]; omega

theorem sumOver_nonneg (g : Row → Int) (hpos : ∀ x, 0 ≤ g x) (rows : List Row) : 0 ≤ sumOver g rows := by
  induction rows with
  | nil => simp [sumOver]
  | cons x xs ih => simp only [sumOver]; have := hpos x; omega

/-! ### valid changelogs -/
theorem validLog_nil : ValidLog [] := by intro n y; simp [net]

theorem validLog_prefix {a b : List Rec} (h : ValidLog (a ++ b)) : ValidLog a := by
  intro n y
  by_cases hn : n ≤ a.length
  · have := h n y
    rwa [List.take_append_of_le_length hn] at this
  · have := h a.length y
    rw [List.take_append_of_le_length (Nat.le_refl _), List.take_length] at this
    rwa [List.take_of_length_le (by omega)]

theorem validLog_take {l : List Rec} (h : ValidLog l) (n : Nat) : ValidLog (l.take n) := by
  have := List.take_append_drop n l
  exact validLog_prefix (this ▸ h)

theorem validLog_net_nonneg {l : List Rec} (h : ValidLog l) (y : Row) : 0 ≤ net l y := by
  have := h l.length y; rwa [List.take_length] at this

/-- generalised correctness of the consolidation fold -/
theorem cnt_foldl_consStep (log : List Rec) :
    ∀ rows : List Row, (∀ n y, 0 ≤ cnt rows y + net (log.take n) y) →
      ∀ y, cnt (log.foldl consStep rows) y = cnt rows y + net log y := by
  induction log with
  | nil => intro rows _ y; simp [net]
  | cons r rs ih =>
    intro rows hv y
    simp only [List.foldl_cons]
    have step : ∀ y, cnt (consStep rows r) y = cnt rows y + r.weight y := by
      intro y
      simp only [consStep, weight_eq, sgn]
      cases hr : r.retr
      · simp only [Bool.false_eq_true, ↓reduceIte, cnt_append, cnt]; split <;> omega
      · simp only [↓reduceIte]
        have h1 := hv 1 r.vals
        simp only [List.take_succ_cons, List.take_zero, net, weight_eq, rowEq_refl, ↓reduceIte, sgn, hr] at h1
        rw [cnt_eraseRow _ _ (by omega)]; split <;> omega
    rw [ih (consStep rows r) (by
      intro n y
      have := hv (n + 1) y
      simp only [List.take_succ_cons, net] at this
      rw [step]; omega)]
    rw [step, net]; omega

/-- **every valid changelog has a consolidation**, computed by `consolidate` -/
theorem consolidate_correct {log : List Rec} (h : ValidLog log) : Consolidates (consolidate log) log := by
  intro y
  have := cnt_foldl_consStep log [] (by intro n y; simpa [cnt] using h n y) y
  simp only [cnt, Int.zero_add] at this
  exact this.symm

theorem wsum_nonneg_of_valid (g : Row → Int) (hg : Congr g) (hpos : ∀ x, 0 ≤ g x) {l : List Rec}
    (hv : ValidLog l) : 0 ≤ wsum g l := by
  rw [wsum_of_consolidates g hg (consolidate_correct hv)]
  exact sumOver_nonneg g hpos _

/-! ### validity of an output relative to what was emitted before -/
def ValidFrom (base : Row → Int) (out : List Rec) : Prop := ∀ n y, 0 ≤ base y + net (out.take n) y

theorem validLog_iff_validFrom (out : List Rec) : ValidLog out ↔ ValidFrom (fun _ => 0) out := by
  simp [ValidLog, ValidFrom]

theorem validFrom_nil {b : Row → Int} (hb : ∀ y, 0 ≤ b y) : ValidFrom b [] := by
  intro n y; simpa [net] using hb y

theorem validFrom_base {b : Row → Int} {o : List Rec} (h : ValidFrom b o) (y : Row) : 0 ≤ b y := by
  simpa [net] using h 0 y

theorem validFrom_append {b : Row → Int} {o1 o2 : List Rec} (h1 : ValidFrom b o1)
    (h2 : ValidFrom (fun y => b y + net o1 y) o2) : ValidFrom b (o1 ++ o2) := by
  intro n y
  rw [List.take_append]
  by_cases hn : n ≤ o1.length
  · have : n - o1.length = 0 := by omega
    rw [this, List.take_zero, List.append_nil]; exact h1 n y
  · rw [List.take_of_length_le (by omega), net_append]
    have : 0 ≤ b y + net o1 y + net (List.take (n - o1.length) o2) y := h2 (n - o1.length) y
    omega

theorem net_take_nonneg_of_adds (l : List Rec) (h : ∀ r ∈ l, r.retr = false) (n : Nat) (y : Row) :
    0 ≤ net (l.take n) y ∧ net (l.take n) y ≤ net l y := by
  induction l generalizing n with
  | nil => simp [net]
  | cons r rs ih =>
    have hr : r.retr = false := h r (List.mem_cons_self)
    have ih' := ih (fun q hq => h q (List.mem_cons_of_mem _ hq))
    cases n with
    | zero =>
      have := (ih' rs.length).1
      rw [List.take_length] at this
      simp only [List.take_zero, net, weight_eq, sgn, hr]; split <;> simp <;> omega
    | succ n =>
      have := ih' n
      simp only [List.take_succ_cons, net, weight_eq, sgn, hr]; split <;> simp <;> omega

theorem validFrom_adds {b : Row → Int} (hb : ∀ y, 0 ≤ b y) (l : List Rec) (h : ∀ r ∈ l, r.retr = false) :
    ValidFrom b l := by
  intro n y
  have := (net_take_nonneg_of_adds l h n y).1
  have := hb y
  omega

end Octo.Ops
