import Octo.Lemmas.TySum
/-! `TypeSum` is an upper bound of both operands (w.r.t. `Is`) under `ShapeCompatible` (`shapeOkF`). -/
namespace Octo
namespace Ty

/-- what the induction hypothesis gives for the recursive calls -/
def UpperFor (f : Ty → Ty → Option Ty) (ok : Ty → Ty → Bool) : Prop :=
  ∀ x y r, f x y = some r → ok x y = true → x.is r = .is ∧ y.is r = .is

theorem tupleMerge_eq_zip (f : Ty → Ty → Option Ty) : ∀ (l s : List Ty), l.length = s.length →
    tupleMerge f l s = zipSum f l s
  | [], [], _ => by simp [tupleMerge, zipSum]
  | [], _ :: _, h => by simp at h
  | _ :: _, [], h => by simp at h
  | x :: xs, y :: ys, h => by
    simp only [tupleMerge, zipSum]
    rw [tupleMerge_eq_zip f xs ys (by simpa using h)]
    cases f x y <;> cases zipSum f xs ys <;> rfl

theorem zipSum_upper {f : Ty → Ty → Option Ty} {ok : Ty → Ty → Bool} (hf : UpperFor f ok) :
    ∀ (xs ys zs : List Ty), zipSum f xs ys = some zs → xs.length = ys.length → all2 ok xs ys = true →
      zs.length = xs.length ∧ tupleLoop is xs zs = .is ∧ tupleLoop is ys zs = .is ∧
      ∀ ns : List Name, structLoop is ns xs ns zs = .is ∧ structLoop is ns ys ns zs = .is
  | [], [], zs, hz, _, _ => by
    simp only [zipSum, Option.some.injEq] at hz
    subst hz
    simp [tupleLoop, structLoop]
  | [], _ :: _, _, _, h, _ => by simp at h
  | _ :: _, [], _, _, h, _ => by simp at h
  | x :: xs, y :: ys, zs, hz, hl, hok => by
    simp only [zipSum] at hz
    cases hxy : f x y with
    | none => simp [hxy] at hz
    | some r =>
      cases hrest : zipSum f xs ys with
      | none => simp [hxy, hrest] at hz
      | some rs =>
        simp only [hxy, hrest, Option.some.injEq] at hz
        subst hz
        simp only [all2, Bool.and_eq_true] at hok
        have ⟨h1, h2⟩ := hf x y r hxy hok.1
        have ⟨l, t1, t2, st⟩ := zipSum_upper hf xs ys rs hrest (by simpa using hl) hok.2
        refine ⟨by simp [l], ?_, ?_, ?_⟩
        · rw [tupleLoop_cons]; exact ⟨h1, t1⟩
        · rw [tupleLoop_cons]; exact ⟨h2, t2⟩
        · intro ns
          rw [structLoop_cons, structLoop_cons]
          exact ⟨⟨rfl, h1, (st ns.tail).1⟩, ⟨rfl, h2, (st ns.tail).2⟩⟩

theorem foldOk_upper {f : Ty → Ty → Option Ty} {ok : Ty → Ty → Bool} (hf : UpperFor f ok) :
    ∀ (alts : List Ty) (out c : Ty), optFoldl f out alts = some c → foldOk f ok out alts = true →
      out.is c = .is ∧ ∀ alt ∈ alts, alt.is c = .is
  | [], out, c, hc, _ => by
    simp only [optFoldl, Option.some.injEq] at hc
    subst hc
    exact ⟨is_refl _, by simp⟩
  | alt :: alts, out, c, hc, hok => by
    simp only [optFoldl] at hc
    simp only [foldOk, Bool.and_eq_true] at hok
    cases hs : f out alt with
    | none => simp [hs] at hc
    | some out' =>
      simp only [hs] at hc hok
      have ⟨h1, h2⟩ := hf out alt out' hs hok.1
      have ⟨h3, h4⟩ := foldOk_upper hf alts out' c hc hok.2
      refine ⟨is_trans h1 h3, ?_⟩
      intro a ha
      cases ha with
      | head => exact is_trans h2 h3
      | tail _ ha => exact h4 a ha

theorem mem_insertById (x y : Ty) : ∀ (l : List Ty), y ∈ insertById x l ↔ y = x ∨ y ∈ l
  | [] => by simp [insertById]
  | z :: zs => by
    simp only [insertById]
    split
    · simp
    · simp only [List.mem_cons, mem_insertById x y zs]
      constructor
      · rintro (h | h | h) <;> simp [h]
      · rintro (h | h | h) <;> simp [h]

theorem mem_sortById_aux (y : Ty) : ∀ (l acc : List Ty),
    y ∈ l.foldl (fun acc x => insertById x acc) acc ↔ y ∈ acc ∨ y ∈ l
  | [], acc => by simp
  | x :: xs, acc => by
    simp only [List.foldl, mem_sortById_aux y xs, mem_insertById, List.mem_cons]
    constructor
    · rintro ((h | h) | h) <;> simp [h]
    · rintro (h | h | h) <;> simp [h]

theorem mem_sortById (y : Ty) (l : List Ty) : y ∈ sortById l ↔ y ∈ l := by
  simp [sortById, mem_sortById_aux]

/-- every member of `l` is an alternative of `union l'` ⇒ contained in it -/
theorem is_union_of_mem {x : Ty} {l : List Ty} (h : x ∈ l) : x.is (.union l) = .is :=
  is_into_union (is_refl x) h

theorem mergeFirst_upper {g : Ty → Option Ty} {p : Ty → Prop} (k : Nat) (a0 : Ty)
    (hg : ∀ r, g a0 = some r → a0.is r = .is ∧ p r) :
    ∀ (alts alts' : List Ty), mergeFirst g k alts = some alts' → alts.find? (fun a => a.id = k) = some a0 →
      (∀ a ∈ alts, ∃ r ∈ alts', a.is r = .is) ∧ ∃ r ∈ alts', p r
  | [], _, _, hfind => by simp at hfind
  | a :: as, alts', hm, hfind => by
    simp only [mergeFirst] at hm
    split at hm
    · rename_i hk
      simp only [List.find?, hk, decide_true, Option.some.injEq] at hfind
      subst hfind
      cases hga : g a with
      | none => simp [hga] at hm
      | some r =>
        simp only [hga, Option.map_some, Option.some.injEq] at hm
        subst hm
        have ⟨h1, h2⟩ := hg r hga
        refine ⟨?_, r, by simp, h2⟩
        intro x hx
        cases hx with
        | head => exact ⟨r, by simp, h1⟩
        | tail _ hx => exact ⟨x, List.mem_cons_of_mem _ hx, is_refl x⟩
    · rename_i hk
      simp only [List.find?, hk, decide_false] at hfind
      cases hrest : mergeFirst g k as with
      | none => simp [hrest] at hm
      | some rs =>
        simp only [hrest, Option.map_some, Option.some.injEq] at hm
        subst hm
        have ⟨h1, r, hr, h2⟩ := mergeFirst_upper k a0 hg as rs hrest hfind
        refine ⟨?_, r, by simp [hr], h2⟩
        intro x hx
        cases hx with
        | head => exact ⟨a, by simp, is_refl a⟩
        | tail _ hx =>
          obtain ⟨r', hr', h'⟩ := h1 x hx
          exact ⟨r', by simp [hr'], h'⟩

/-- one unfolding of `TypeSum` preserves "is an upper bound under ShapeCompatible" -/
theorem upper_step {f : Ty → Ty → Option Ty} {ok : Ty → Ty → Bool} (hf : UpperFor f ok) :
    UpperFor (typeSumStep f) (shapeOkStep f ok) := by
  intro a b c hc hok
  unfold typeSumStep at hc
  unfold shapeOkStep at hok
  by_cases h1 : a.is b = .is
  · rw [if_pos h1] at hc
    cases hc
    exact ⟨h1, is_refl _⟩
  rw [if_neg h1] at hc hok
  by_cases h2 : b.is a = .is
  · rw [if_pos h2] at hc
    cases hc
    exact ⟨is_refl _, h2⟩
  rw [if_neg h2] at hc hok
  split at hc
  all_goals (try simp only at hok)
  · -- struct / struct
    rename_i ns1 ts1 ns2 ts2
    simp only [Bool.and_eq_true, decide_eq_true_eq] at hok
    obtain ⟨⟨⟨⟨rfl, hs⟩, l1⟩, l2⟩, hall⟩ := hok
    simp only [sortNames_self_append hs, structFields_pointwise f ns1 ts1 ts2 hs l1 l2, Option.map_eq_some_iff] at hc
    obtain ⟨tys, hz, rfl⟩ := hc
    have ⟨l, _, _, st⟩ := zipSum_upper hf ts1 ts2 tys hz (by omega) hall
    rw [is_struct_struct, is_struct_struct]
    exact ⟨⟨l.symm, (st ns1).1⟩, ⟨by omega, (st ns1).2⟩⟩
  · cases hc; exact ⟨is_refl _, is_refl _⟩
  · cases hc; exact ⟨by simp, is_refl _⟩
  · cases hc; exact ⟨is_refl _, by simp⟩
  · -- list / list
    simp only [Option.map_eq_some_iff] at hc
    obtain ⟨s, hs, rfl⟩ := hc
    have ⟨h3, h4⟩ := hf _ _ s hs hok
    exact ⟨(is_list_list _ _).mpr h3, (is_list_list _ _).mpr h4⟩
  · -- tuple / tuple
    rename_i ts1 ts2
    simp only [Bool.and_eq_true, decide_eq_true_eq] at hok
    obtain ⟨hl, hall⟩ := hok
    rw [if_neg (by omega), tupleMerge_eq_zip f ts2 ts1 hl.symm] at hc
    simp only [Option.map_eq_some_iff] at hc
    obtain ⟨tys, hz, rfl⟩ := hc
    have ⟨l, t2, t1, _⟩ := zipSum_upper hf ts2 ts1 tys hz hl.symm hall
    rw [is_tuple_tuple, is_tuple_tuple]
    exact ⟨⟨by omega, t1⟩, ⟨l.symm, t2⟩⟩
  · -- union / union
    have ⟨h3, h4⟩ := foldOk_upper hf _ _ c hc hok
    exact ⟨h3, (is_union_l _ _).mpr h4⟩
  · -- only t2 is a union: swap
    have ⟨h3, h4⟩ := hf _ _ c hc hok
    exact ⟨h4, h3⟩
  · -- only t1 is a union
    rename_i alts _
    split at hc
    · rename_i hany
      simp only [Option.map_eq_some_iff] at hc
      obtain ⟨alts', hm, rfl⟩ := hc
      cases hfind : alts.find? (fun x => decide (x.id = b.id)) with
      | none =>
        rw [List.find?_eq_none] at hfind
        simp only [List.any_eq_true] at hany
        obtain ⟨x, hx, hxk⟩ := hany
        exact absurd hxk (hfind x hx)
      | some a0 =>
        simp only [hfind] at hok
        have ⟨h3, r, hr, h4⟩ := mergeFirst_upper (g := fun x => f x b) (p := fun r => b.is r = .is) b.id a0
          (fun r hr => hf a0 b r hr hok) alts alts' hm hfind
        refine ⟨(is_union_l _ _).mpr ?_, is_into_union h4 hr⟩
        intro x hx
        obtain ⟨r', hr', h'⟩ := h3 x hx
        exact is_into_union h' hr'
    · cases hc
      refine ⟨(is_union_l _ _).mpr ?_, is_union_of_mem ((mem_sortById _ _).mpr (by simp))⟩
      intro x hx
      exact is_union_of_mem ((mem_sortById _ _).mpr (by simp [hx]))
  · cases hc
    exact ⟨is_union_of_mem ((mem_sortById _ _).mpr (by simp)), is_union_of_mem ((mem_sortById _ _).mpr (by simp))⟩

theorem sum_upper_F : ∀ (n : Nat), UpperFor (typeSumF n) (shapeOkF n)
  | 0 => by intro a b c h; simp [typeSumF] at h
  | n + 1 => by
    intro a b c hc hok
    simp only [typeSumF] at hc
    simp only [shapeOkF] at hok
    exact upper_step (sum_upper_F n) a b c hc hok

end Ty
end Octo
