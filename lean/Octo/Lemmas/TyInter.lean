import Octo.Lemmas.TySumLeast
/-! `TypeIntersection` (repaired code): the result is contained in both operands (well-formed operands). -/
namespace Octo
namespace Ty

theorem prims_spec_aux : ∀ (n : Nat) (t : Ty), t.size ≤ n → ∀ p ∈ prims t, p.is t = .is ∧ (wf t = true → wf p = true) := by
  intro n
  induction n with
  | zero => intro t h; have := size_pos t; omega
  | succ n ih =>
    intro t hn p hp
    cases t with
    | union alts =>
      simp only [prims] at hp
      have key : ∀ (l : List Ty), (∀ a ∈ l, a ∈ alts) → p ∈ primsList l → ∃ a ∈ l, p ∈ prims a := by
        intro l
        induction l with
        | nil => intro _ h; simp [primsList] at h
        | cons x xs ihl =>
          intro hsub h
          simp only [primsList, List.mem_append] at h
          rcases h with h | h
          · exact ⟨x, by simp, h⟩
          · obtain ⟨a, ha, h'⟩ := ihl (fun a ha => hsub a (by simp [ha])) h
            exact ⟨a, by simp [ha], h'⟩
      obtain ⟨a, ha, hpa⟩ := key alts (fun _ h => h) hp
      have ⟨h1, h2⟩ := ih a (by have := size_le_sizeList ha; simp only [size] at hn; omega) p hpa
      refine ⟨is_into_union h1 ha, ?_⟩
      intro w
      rw [wf_union] at w
      exact h2 ((wfList_iff _).mp w.2.2 a ha)
    | _ =>
      simp only [prims, List.mem_singleton] at hp
      subst hp
      exact ⟨is_refl _, fun w => w⟩

theorem prims_spec {t p : Ty} (hp : p ∈ prims t) : p.is t = .is ∧ (wf t = true → wf p = true) :=
  prims_spec_aux t.size t (Nat.le_refl _) p hp

/-- `out` is nil or a well-formed type contained in both `a` and `b` -/
def GoodOut (a b : Ty) (out : Option Ty) : Prop := ∀ o, out = some o → wf o = true ∧ o.is a = .is ∧ o.is b = .is

theorem interLoop_good {a b target : Ty} (wa : wf a = true) (wb : wf b = true) :
    ∀ (ps : List Ty) (out res : Option Ty),
      (∀ p ∈ ps, wf p = true ∧ (p.is target = .is → p.is a = .is ∧ p.is b = .is)) →
      GoodOut a b out → interLoop target out ps = some res → GoodOut a b res
  | [], out, res, _, hg, h => by simp only [interLoop, Option.some.injEq] at h; subst h; exact hg
  | p :: ps, out, res, hp, hg, h => by
    simp only [interLoop] at h
    have hps : ∀ q ∈ ps, wf q = true ∧ (q.is target = .is → q.is a = .is ∧ q.is b = .is) :=
      fun q hq => hp q (by simp [hq])
    have ⟨wp, hsel⟩ := hp p (by simp)
    split at h
    · rename_i hsel'
      have ⟨pa, pb⟩ := hsel hsel'
      cases out with
      | none =>
        simp only at h
        exact interLoop_good wa wb ps (some p) res hps (by intro o ho; cases ho; exact ⟨wp, pa, pb⟩) h
      | some o =>
        simp only at h
        have ⟨wo, oa, ob⟩ := hg o rfl
        cases hs : typeSum o p with
        | none => simp [hs] at h
        | some s =>
          simp only [hs] at h
          refine interLoop_good wa wb ps (some s) res hps ?_ h
          intro o' ho'
          cases ho'
          exact ⟨(wfFor_F _ o p s hs wo wp).1, leastFor_F _ o p s a hs wo wp wa oa pa,
            leastFor_F _ o p s b hs wo wp wb ob pb⟩
    · exact interLoop_good wa wb ps out res hps hg h

/-- **TypeIntersection(a, b) is contained in both a and b** and well formed (well-formed operands) -/
theorem typeInter_sub {a b c : Ty} (wa : wf a = true) (wb : wf b = true) (h : typeInter a b = some (some c)) :
    wf c = true ∧ c.is a = .is ∧ c.is b = .is := by
  unfold typeInter at h
  cases h1 : interLoop b none (prims a) with
  | none => simp [h1] at h
  | some out =>
    simp only [h1] at h
    have g1 : GoodOut a b out := interLoop_good wa wb (prims a) none out
      (fun p hp => ⟨(prims_spec hp).2 wa, fun hsel => ⟨(prims_spec hp).1, hsel⟩⟩) (by intro o ho; cases ho) h1
    have g2 : GoodOut a b (some c) := interLoop_good wa wb (prims b) out (some c)
      (fun p hp => ⟨(prims_spec hp).2 wb, fun hsel => ⟨hsel, (prims_spec hp).1⟩⟩) g1 h
    exact g2 c rfl

end Ty
end Octo
