import Octo.Props.C16
import Octo.Model.SqlGroupTrig
import Octo.Lemmas.GroupFold
/-!
  The `TRIGGER` clause at the SQL level: for the node configuration `gbConf` the planner builds from a grouping
  block, C16's theorems apply — whatever trigger (`COUNTING k`, with or without `ON END OF STREAM`) selects
  `CustomTriggerGroupBy`, the changelog it emits on a batch input consolidates to the output of `SimpleGroupBy`.
-/
namespace Octo.Grp
open Octo Octo.Sql

theorem evalAll_length (r : Row) (es : List SExpr) (vs : Row) (h : evalAll r es = some vs) : vs.length = es.length := by
  induction es generalizing vs with
  | nil => simp [evalAll] at h; subst h; rfl
  | cons e es ih =>
    simp only [evalAll] at h
    cases h1 : eval r e with
    | none => simp [h1] at h
    | some v =>
      cases h2 : evalAll r es with
      | none => simp [h1, h2] at h
      | some ws =>
        simp only [h1, h2, Option.some.injEq] at h
        subst h
        simp [ih ws h2]

theorem gbConf_keyLen (keys : List SExpr) (aggs : List PAgg) (t : Trig) :
    Trig.KeyLen (gbConf keys aggs t) keys.length := by
  intro vals
  simp only [gbConf]
  cases h : evalAll vals keys with
  | none => simp
  | some k => simpa using evalAll_length vals keys k h

theorem gbConf_live (keys : List SExpr) (aggs : List PAgg) (t : Trig) : (gbConf keys aggs t).cfg.live = true := by
  cases t <;> rfl

theorem recs_toMsgs (rows : List Row) : recs (toMsgs rows) = rows.map fun r => ⟨r, false, none⟩ := by
  induction rows with
  | nil => rfl
  | cons r rs ih => simp only [toMsgs, List.map_cons, Ops.addRec, recs] at *; rw [ih]

/-- records without an event time are not buffered: on a batch input the event-time buffer is the identity -/
theorem bufFold_toMsgs (rows : List Row) (b : Trig.Buf) : Trig.bufFold b (toMsgs rows) = (b, toMsgs rows) := by
  induction rows generalizing b with
  | nil => rfl
  | cons r rs ih =>
    simp only [toMsgs, List.map_cons, Ops.addRec, Trig.bufFold, Trig.bufStep] at *
    rw [ih]
    rfl

theorem buffer_toMsgs (rows : List Row) : Trig.buffer (toMsgs rows) = toMsgs rows := by
  simp [Trig.buffer, bufFold_toMsgs, Trig.bufEmit]

theorem stepOk_gbConf (keys : List SExpr) (aggs : List PAgg) (t : Trig) (vals : Row)
    (h : ((evalAll vals keys).isSome && (evalArgs vals aggs).isSome) = true) :
    Trig.stepOk (gbConf keys aggs t) vals = true := by
  simp only [Trig.stepOk, gbConf, h, Bool.true_and, Bool.and_true]
  cases t <;> rfl

/-- **the trigger does not change the final result**: on every batch input on which the expressions evaluate,
    `CustomTriggerGroupBy` (any `COUNTING k`, with or without `ON END OF STREAM`) does not panic, and the changelog it
    emits — retractions included — consolidates, row for row, to what `SimpleGroupBy` emits for the same block -/
theorem custom_consolidates_to_simple (keys : List SExpr) (aggs : List PAgg) (t : Trig) (rows : List Row)
    (hok : evalsOk keys aggs rows = true) :
    ∃ out, Trig.run Trig.wlessFixed (gbConf keys aggs t) (toMsgs rows) = some out ∧
      ∀ row, net (recs out) row = net (recs (Trig.simpleRun (gbConf keys aggs t) (toMsgs rows))) row := by
  have hall : (recs (toMsgs rows)).all (fun r => Trig.stepOk (gbConf keys aggs t) r.vals) = true := by
    rw [recs_toMsgs, List.all_eq_true]
    intro r hr
    obtain ⟨x, hx, rfl⟩ := List.mem_map.mp hr
    exact stepOk_gbConf keys aggs t x (List.all_eq_true.mp hok x hx)
  refine ⟨Trig.gbRun Trig.wlessFixed (gbConf keys aggs t) (Trig.buffer (toMsgs rows)), ?_, ?_⟩
  · simp only [Trig.run, hall, if_true]
  intro row
  rw [buffer_toMsgs,
    Trig.out_eq_table Trig.wlessFixed_laws (gbConf_keyLen keys aggs t) (gbConf_live keys aggs t),
    Trig.simple_eq_table _ _ (gbConf_keyLen keys aggs t)]

end Octo.Grp
