import Octo.Lemmas.AggCore
/-!
  The btree of `(value, count)` of `min.go` / `max.go` / `array.go` as a sorted association list:
  `bump` keeps it strictly sorted with positive counts and tracks the multiset's counts; from that,
  `Min`/`Max`/`Array` report the least / greatest element / the sorted expansion.
-/
namespace Octo.Agg
open Octo

/-- the count stored for the class of `v` (0 when absent) -/
def clookup : CList → Value → Int
  | [], _ => 0
  | (k, c) :: r, v => if cmp k v = 0 then c else clookup r v

def KeysSorted (t : CList) : Prop := t.Pairwise (fun a b => cmp a.1 b.1 < 0)
def AllPos (t : CList) : Prop := ∀ e ∈ t, 0 < e.2

def delta (r : Bool) : Int := if !r then 1 else -1

theorem bump_nil (r : Bool) (v : Value) : bump r v [] = [(v, delta r)] := rfl

/-- `bump` with the btree's `Less`-tests written as order facts -/
theorem bump_cons (r : Bool) (v k : Value) (c : Int) (rest : CList) :
    bump r v ((k, c) :: rest) =
      if cmp v k < 0 then (v, delta r) :: (k, c) :: rest
      else if cmp v k > 0 then (k, c) :: bump r v rest
      else (if c + delta r = 0 then rest else (k, c + delta r) :: rest) := by
  have a := casym v k
  have hd : (if (!r) = true then c + 1 else c - 1) = c + delta r := by cases r <;> simp [delta] <;> omega
  rcases crange v k with h | h | h
  · have : cmp v k < 0 := by omega
    simp [bump, h, delta]
  · have h' : cmp k v = 0 := by omega
    simp only [bump, h, h', hd]
    simp
  · have h' : cmp k v = -1 := by omega
    have : ¬ cmp v k < 0 := by omega
    have h2 : cmp v k > 0 := by omega
    simp [bump, h, h']

theorem clookup_eq_zero {t : CList} {v : Value} (h : ∀ e ∈ t, cmp v e.1 < 0) {w : Value} (hw : cmp v w = 0) :
    clookup t w = 0 := by
  induction t with
  | nil => rfl
  | cons e r ih =>
    obtain ⟨k, c⟩ := e
    have hk : cmp v k < 0 := h (k, c) List.mem_cons_self
    have : cmp k w ≠ 0 := by
      intro h0
      have := ccongr_right (csymm h0) v   -- cmp v w = cmp v k
      omega
    simp only [clookup, this, if_false]
    exact ih (fun e he => h e (List.mem_cons_of_mem _ he))

theorem clookup_exists {t : CList} {v : Value} (h : clookup t v ≠ 0) : ∃ e ∈ t, cmp e.1 v = 0 := by
  induction t with
  | nil => simp [clookup] at h
  | cons e r ih =>
    obtain ⟨k, c⟩ := e
    by_cases hk : cmp k v = 0
    · exact ⟨(k, c), List.mem_cons_self, hk⟩
    · simp only [clookup, hk, if_false] at h
      obtain ⟨e, he, hev⟩ := ih h
      exact ⟨e, List.mem_cons_of_mem _ he, hev⟩

theorem keysSorted_cons {k : Value} {c : Int} {rest : CList} :
    KeysSorted ((k, c) :: rest) ↔ (∀ e ∈ rest, cmp k e.1 < 0) ∧ KeysSorted rest := by
  simp [KeysSorted, List.pairwise_cons]

/-- every key after a `bump` is the bumped value or an old key -/
theorem mem_bump (r : Bool) (v : Value) : ∀ (t : CList) (e : Value × Int), e ∈ bump r v t →
    e.1 = v ∨ ∃ e' ∈ t, e'.1 = e.1
  | [], e, h => by simp [bump_nil] at h; exact Or.inl (by rw [h])
  | (k, c) :: rest, e, h => by
    rw [bump_cons] at h
    split at h
    · rcases List.mem_cons.mp h with rfl | h'
      · exact Or.inl rfl
      · exact Or.inr ⟨e, h', rfl⟩
    · split at h
      · rcases List.mem_cons.mp h with rfl | h'
        · exact Or.inr ⟨(k, c), List.mem_cons_self, rfl⟩
        · rcases mem_bump r v rest e h' with h1 | ⟨e', h1, h2⟩
          · exact Or.inl h1
          · exact Or.inr ⟨e', List.mem_cons_of_mem _ h1, h2⟩
      · split at h
        · exact Or.inr ⟨e, List.mem_cons_of_mem _ h, rfl⟩
        · rcases List.mem_cons.mp h with rfl | h'
          · exact Or.inr ⟨(k, c), List.mem_cons_self, rfl⟩
          · exact Or.inr ⟨e, List.mem_cons_of_mem _ h', rfl⟩

theorem bump_sorted (r : Bool) (v : Value) : ∀ (t : CList), KeysSorted t → KeysSorted (bump r v t)
  | [], _ => by simp [bump_nil, KeysSorted]
  | (k, c) :: rest, hs => by
    obtain ⟨h1, h2⟩ := keysSorted_cons.mp hs
    rw [bump_cons]
    split
    · rename_i hlt
      refine keysSorted_cons.mpr ⟨?_, hs⟩
      intro e he
      rcases List.mem_cons.mp he with rfl | he'
      · exact hlt
      · exact clt_trans hlt (by have := h1 e he'; omega)
    · split
      · rename_i hgt
        refine keysSorted_cons.mpr ⟨?_, bump_sorted r v rest h2⟩
        intro e he
        rcases mem_bump r v rest e he with h | ⟨e', he', h⟩
        · rw [h]; have := casym v k; omega
        · rw [← h]; exact h1 e' he'
      · split
        · exact h2
        · exact keysSorted_cons.mpr ⟨h1, h2⟩

theorem bump_lookup (r : Bool) (v : Value) : ∀ (t : CList), KeysSorted t → ∀ w,
    clookup (bump r v t) w = clookup t w + (if cmp v w = 0 then delta r else 0)
  | [], _, w => by simp [bump_nil, clookup]
  | (k, c) :: rest, hs, w => by
    obtain ⟨h1, h2⟩ := keysSorted_cons.mp hs
    rw [bump_cons]
    split
    · rename_i hlt
      by_cases hw : cmp v w = 0
      · have : clookup ((k, c) :: rest) w = 0 := by
          apply clookup_eq_zero (v := v) _ hw
          intro e he
          rcases List.mem_cons.mp he with rfl | he'
          · exact hlt
          · exact clt_trans hlt (by have := h1 e he'; omega)
        rw [this]; simp [clookup, hw]
      · simp [clookup, hw]
    · split
      · rename_i hgt
        have ih := bump_lookup r v rest h2 w
        by_cases hk : cmp k w = 0
        · have : cmp v w ≠ 0 := by
            intro h0
            have := ccongr_right (csymm hk) v   -- cmp v w = cmp v k
            omega
          simp [clookup, hk, this]
        · simp only [clookup, hk, if_false]; exact ih
      · rename_i hnlt hngt
        have hvk : cmp v k = 0 := by omega
        have hiff : cmp k w = cmp v w := ccongr_left (csymm hvk) w
        split
        · rename_i hz
          by_cases hk : cmp k w = 0
          · have h0 := clookup_eq_zero (t := rest) (v := k) h1 hk
            have hv : cmp v w = 0 := by omega
            simp only [clookup, hk, hv, if_true]; omega
          · have hv : cmp v w ≠ 0 := by omega
            simp [clookup, hk, hv]
        · by_cases hk : cmp k w = 0
          · have hv : cmp v w = 0 := by omega
            simp [clookup, hk, hv]
          · have hv : cmp v w ≠ 0 := by omega
            simp [clookup, hk, hv]

theorem bump_pos (r : Bool) (v : Value) : ∀ (t : CList), KeysSorted t → AllPos t →
    (r = true → 0 < clookup t v) → AllPos (bump r v t)
  | [], _, _, hr => by
    cases r with
    | false => intro e he; simp [bump_nil, delta] at he; rw [he]; simp
    | true => have := hr rfl; simp [clookup] at this
  | (k, c) :: rest, hs, hp, hr => by
    obtain ⟨h1, h2⟩ := keysSorted_cons.mp hs
    have hc : 0 < c := hp (k, c) List.mem_cons_self
    have hrest : AllPos rest := fun e he => hp e (List.mem_cons_of_mem _ he)
    rw [bump_cons]
    split
    · rename_i hlt
      cases r with
      | false =>
        intro e he
        rcases List.mem_cons.mp he with rfl | he'
        · simp [delta]
        · exact hp e he'
      | true =>
        have := hr rfl
        have hz : clookup ((k, c) :: rest) v = 0 := by
          apply clookup_eq_zero (v := v) _ (crefl v)
          intro e he
          rcases List.mem_cons.mp he with rfl | he'
          · exact hlt
          · exact clt_trans hlt (by have := h1 e he'; omega)
        omega
    · split
      · rename_i hgt
        have hk : cmp k v ≠ 0 := by have := casym v k; omega
        have ih := bump_pos r v rest h2 hrest (by
          intro hr'; have := hr hr'; simpa [clookup, hk] using this)
        intro e he
        rcases List.mem_cons.mp he with rfl | he'
        · exact hc
        · exact ih e he'
      · split
        · exact hrest
        · rename_i hnz
          intro e he
          rcases List.mem_cons.mp he with rfl | he'
          · show 0 < c + delta r
            cases r <;> simp [delta] at * <;> omega
          · exact hrest e he'

/-- the tree represents the multiset `L` -/
def TreeInv (t : CList) (L : List Value) : Prop := KeysSorted t ∧ AllPos t ∧ ∀ v, clookup t v = cnt L v

theorem tree_empty {t : CList} {L : List Value} (h : TreeInv t L) : t.isEmpty = L.isEmpty := by
  obtain ⟨_, hp, hl⟩ := h
  cases t with
  | nil =>
    have : L = [] := eq_nil_of_cnt_zero (fun v => by rw [← hl v]; rfl)
    subst this; rfl
  | cons e r =>
    obtain ⟨k, c⟩ := e
    have hc : 0 < c := hp (k, c) List.mem_cons_self
    have : 0 < cnt L k := by rw [← hl k]; simp [clookup, crefl]; exact hc
    cases L with
    | nil => simp [cnt] at this
    | cons _ _ => rfl

theorem tree_step {t : CList} {L : List Value} (e : Bool × Value) (hi : TreeInv t L)
    (hv : e.1 = true → 0 < cnt L e.2) :
    TreeInv (treeAdd t e.1 e.2).1 (bagStep L e) ∧ (treeAdd t e.1 e.2).2 = (bagStep L e).isEmpty := by
  obtain ⟨hs, hp, hl⟩ := hi
  have hi' : TreeInv (bump e.1 e.2 t) (bagStep L e) := by
    refine ⟨bump_sorted _ _ t hs, bump_pos _ _ t hs hp (fun hr => by rw [hl]; exact hv hr), fun w => ?_⟩
    rw [bump_lookup _ _ t hs w, cnt_bagStep hv w, hl w]
    simp only [weight, delta]
    cases e.1 <;> simp
  exact ⟨hi', tree_empty hi'⟩

theorem tree_init : TreeInv [] [] := ⟨by simp [KeysSorted], ⟨(by intro e he; cases he), fun _ => rfl⟩⟩

/-- the head key is in the multiset and below everything in it -/
theorem tree_head {k : Value} {c : Int} {rest : CList} {L : List Value} (h : TreeInv ((k, c) :: rest) L) :
    0 < cnt L k ∧ ∀ y ∈ L, cmp k y ≤ 0 := by
  obtain ⟨hs, hp, hl⟩ := h
  obtain ⟨h1, _⟩ := keysSorted_cons.mp hs
  have hc : 0 < c := hp (k, c) List.mem_cons_self
  refine ⟨by rw [← hl k]; simp [clookup, crefl]; exact hc, fun y hy => ?_⟩
  have : clookup ((k, c) :: rest) y ≠ 0 := by rw [hl y]; have := cnt_pos_of_mem hy; omega
  obtain ⟨e, he, hey⟩ := clookup_exists this
  rcases List.mem_cons.mp he with rfl | he'
  · simp at hey; omega
  · have := clt_trans (h1 e he') (by omega : cmp e.1 y ≤ 0); omega

theorem sorted_getLast {t : CList} (hs : KeysSorted t) {k : Value} {c : Int} (h : t.getLast? = some (k, c)) :
    (k, c) ∈ t ∧ ∀ e ∈ t, cmp e.1 k ≤ 0 := by
  induction t with
  | nil => simp at h
  | cons e r ih =>
    obtain ⟨k0, c0⟩ := e
    obtain ⟨h1, h2⟩ := keysSorted_cons.mp hs
    cases r with
    | nil =>
      simp at h
      obtain ⟨rfl, rfl⟩ := h
      exact ⟨List.mem_cons_self, fun e he => by simp at he; rw [he]; simp [crefl]⟩
    | cons e' r' =>
      rw [List.getLast?_cons_cons] at h
      obtain ⟨hm, hle⟩ := ih h2 h
      refine ⟨List.mem_cons_of_mem _ hm, fun e he => ?_⟩
      rcases List.mem_cons.mp he with rfl | he'
      · have := h1 (k, c) hm; simp at this ⊢; omega
      · exact hle e he'

theorem clookup_of_mem {t : CList} (hs : KeysSorted t) {k : Value} {c : Int} (hm : (k, c) ∈ t) :
    clookup t k = c := by
  induction t with
  | nil => cases hm
  | cons e r ih =>
    obtain ⟨k0, c0⟩ := e
    obtain ⟨h1, h2⟩ := keysSorted_cons.mp hs
    rcases List.mem_cons.mp hm with heq | hm'
    · cases heq; simp [clookup, crefl]
    · have : cmp k0 k < 0 := h1 (k, c) hm'
      have hne : cmp k0 k ≠ 0 := by omega
      simp only [clookup, hne, if_false]
      exact ih h2 hm'

/-- the last key is in the multiset and above everything in it -/
theorem tree_last {t : CList} {k : Value} {c : Int} {L : List Value} (h : TreeInv t L)
    (hl : t.getLast? = some (k, c)) : 0 < cnt L k ∧ ∀ y ∈ L, cmp y k ≤ 0 := by
  obtain ⟨hs, hp, hlk⟩ := h
  obtain ⟨hm, hle⟩ := sorted_getLast hs hl
  have hc : 0 < c := hp (k, c) hm
  have hkk : clookup t k ≠ 0 := by rw [clookup_of_mem hs hm]; omega
  refine ⟨?_, fun y hy => ?_⟩
  · rw [← hlk k, clookup_of_mem hs hm]; exact hc
  · have : clookup t y ≠ 0 := by rw [hlk y]; have := cnt_pos_of_mem hy; omega
    obtain ⟨e, he, hey⟩ := clookup_exists this
    have := hle e he
    have := ccongr_left hey k   -- cmp e.1 k = cmp y k
    omega

/-! ### the least / greatest element from scratch -/
def minStep (m y : Value) : Value := if cmp y m < 0 then y else m
def maxStep (m y : Value) : Value := if cmp y m > 0 then y else m

theorem specMin_cons (x : Value) (r : List Value) : specMin (x :: r) = r.foldl minStep x := rfl
theorem specMax_cons (x : Value) (r : List Value) : specMax (x :: r) = r.foldl maxStep x := rfl

theorem foldl_min_spec : ∀ (r : List Value) (m : Value),
    (r.foldl minStep m = m ∨ r.foldl minStep m ∈ r) ∧ cmp (r.foldl minStep m) m ≤ 0 ∧
      ∀ y ∈ r, cmp (r.foldl minStep m) y ≤ 0
  | [], m => by simp [crefl]
  | y :: r, m => by
    obtain ⟨h1, h2, h3⟩ := foldl_min_spec r (minStep m y)
    have hm' : cmp (minStep m y) m ≤ 0 ∧ cmp (minStep m y) y ≤ 0 := by
      unfold minStep; split
      · exact ⟨by omega, by rw [crefl]; omega⟩
      · exact ⟨by rw [crefl]; omega, by have := casym m y; omega⟩
    simp only [List.foldl_cons]
    refine ⟨?_, ctrans _ _ _ h2 hm'.1, fun y' hy' => ?_⟩
    · rcases h1 with h1 | h1
      · rw [h1]; unfold minStep; split
        · exact Or.inr List.mem_cons_self
        · exact Or.inl rfl
      · exact Or.inr (List.mem_cons_of_mem _ h1)
    · rcases List.mem_cons.mp hy' with rfl | hy''
      · exact ctrans _ _ _ h2 hm'.2
      · exact h3 y' hy''

theorem specMin_spec {L : List Value} (h : L ≠ []) : specMin L ∈ L ∧ ∀ y ∈ L, cmp (specMin L) y ≤ 0 := by
  cases L with
  | nil => exact absurd rfl h
  | cons x r =>
    obtain ⟨h1, h2, h3⟩ := foldl_min_spec r x
    refine ⟨?_, fun y hy => ?_⟩
    · rcases h1 with h1 | h1
      · rw [specMin_cons, h1]; exact List.mem_cons_self
      · exact List.mem_cons_of_mem _ h1
    · rcases List.mem_cons.mp hy with rfl | hy'
      · exact h2
      · exact h3 y hy'

theorem foldl_max_spec : ∀ (r : List Value) (m : Value),
    (r.foldl maxStep m = m ∨ r.foldl maxStep m ∈ r) ∧ cmp m (r.foldl maxStep m) ≤ 0 ∧
      ∀ y ∈ r, cmp y (r.foldl maxStep m) ≤ 0
  | [], m => by simp [crefl]
  | y :: r, m => by
    obtain ⟨h1, h2, h3⟩ := foldl_max_spec r (maxStep m y)
    have hm' : cmp m (maxStep m y) ≤ 0 ∧ cmp y (maxStep m y) ≤ 0 := by
      unfold maxStep; split
      · exact ⟨by have := casym m y; omega, by rw [crefl]; omega⟩
      · exact ⟨by rw [crefl]; omega, by omega⟩
    simp only [List.foldl_cons]
    refine ⟨?_, ctrans _ _ _ hm'.1 h2, fun y' hy' => ?_⟩
    · rcases h1 with h1 | h1
      · rw [h1]; unfold maxStep; split
        · exact Or.inr List.mem_cons_self
        · exact Or.inl rfl
      · exact Or.inr (List.mem_cons_of_mem _ h1)
    · rcases List.mem_cons.mp hy' with rfl | hy''
      · exact ctrans _ _ _ hm'.2 h2
      · exact h3 y' hy''

theorem specMax_spec {L : List Value} (h : L ≠ []) : specMax L ∈ L ∧ ∀ y ∈ L, cmp y (specMax L) ≤ 0 := by
  cases L with
  | nil => exact absurd rfl h
  | cons x r =>
    obtain ⟨h1, h2, h3⟩ := foldl_max_spec r x
    refine ⟨?_, fun y hy => ?_⟩
    · rcases h1 with h1 | h1
      · rw [specMax_cons, h1]; exact List.mem_cons_self
      · exact List.mem_cons_of_mem _ h1
    · rcases List.mem_cons.mp hy with rfl | hy'
      · exact h2
      · exact h3 y hy'

/-- a least element of a multiset is unique up to `cmp = 0` -/
theorem least_unique {L : List Value} {k m : Value} (hk : 0 < cnt L k) (hkl : ∀ y ∈ L, cmp k y ≤ 0)
    (hm : m ∈ L) (hml : ∀ y ∈ L, cmp m y ≤ 0) : cmp k m = 0 := by
  obtain ⟨x, hx, hxk⟩ := exists_mem_of_cnt_pos hk
  have h1 := hkl m hm
  have h2 := hml x hx
  have h3 := ctrans m x k h2 (by omega)
  have := casym k m; omega

theorem greatest_unique {L : List Value} {k m : Value} (hk : 0 < cnt L k) (hkl : ∀ y ∈ L, cmp y k ≤ 0)
    (hm : m ∈ L) (hml : ∀ y ∈ L, cmp y m ≤ 0) : cmp k m = 0 := by
  obtain ⟨x, hx, hxk⟩ := exists_mem_of_cnt_pos hk
  have h1 := hkl m hm
  have h2 := hml x hx
  have h3 := ctrans k x m (by have := casym k x; omega) h2
  have := casym k m; omega

/-- transfer "below everything" along two representations of the same multiset -/
theorem lower_bound_congr {L M : List Value} (h : CntEq L M) {m : Value} (hm : ∀ y ∈ L, cmp m y ≤ 0) :
    ∀ y ∈ M, cmp m y ≤ 0 := by
  intro y hy
  have : 0 < cnt L y := by rw [h y]; exact cnt_pos_of_mem hy
  obtain ⟨x, hx, hxy⟩ := exists_mem_of_cnt_pos this
  exact ctrans m x y (hm x hx) (by omega)

theorem upper_bound_congr {L M : List Value} (h : CntEq L M) {m : Value} (hm : ∀ y ∈ L, cmp y m ≤ 0) :
    ∀ y ∈ M, cmp y m ≤ 0 := by
  intro y hy
  have : 0 < cnt L y := by rw [h y]; exact cnt_pos_of_mem hy
  obtain ⟨x, hx, hxy⟩ := exists_mem_of_cnt_pos this
  exact ctrans y x m (by have := casym x y; omega) (hm x hx)

theorem specMin_congr {L M : List Value} (h : CntEq L M) : cmp (specMin L) (specMin M) = 0 := by
  by_cases hL : L = []
  · subst hL; rw [CntEq.nil_right h.symm]; exact crefl _
  · have hM : M ≠ [] := fun h0 => hL (by subst h0; exact CntEq.nil_right h)
    obtain ⟨a1, a2⟩ := specMin_spec hL
    obtain ⟨b1, b2⟩ := specMin_spec hM
    exact least_unique (by rw [← h]; exact cnt_pos_of_mem a1) (lower_bound_congr h a2) b1 b2

theorem specMax_congr {L M : List Value} (h : CntEq L M) : cmp (specMax L) (specMax M) = 0 := by
  by_cases hL : L = []
  · subst hL; rw [CntEq.nil_right h.symm]; exact crefl _
  · have hM : M ≠ [] := fun h0 => hL (by subst h0; exact CntEq.nil_right h)
    obtain ⟨a1, a2⟩ := specMax_spec hL
    obtain ⟨b1, b2⟩ := specMax_spec hM
    exact greatest_unique (by rw [← h]; exact cnt_pos_of_mem a1) (upper_bound_congr h a2) b1 b2

def minProof : AggProof minAgg (fun _ => True) specMin where
  Inv := TreeInv
  init := tree_init
  step := fun e hi _ _ hv => tree_step e hi hv
  result := by
    intro t L hi _ hne
    cases t with
    | nil => have := tree_empty hi; cases L <;> simp at this hne
    | cons e rest =>
      obtain ⟨k, c⟩ := e
      obtain ⟨h1, h2⟩ := tree_head hi
      obtain ⟨b1, b2⟩ := specMin_spec hne
      exact ⟨k, rfl, least_unique h1 h2 b1 b2⟩
  congr := fun _ _ h => specMin_congr h
  P_congr := fun _ _ => trivial

def maxProof : AggProof maxAgg (fun _ => True) specMax where
  Inv := TreeInv
  init := tree_init
  step := fun e hi _ _ hv => tree_step e hi hv
  result := by
    intro t L hi _ hne
    cases hl : t.getLast? with
    | none =>
      have : t = [] := List.getLast?_eq_none_iff.mp hl
      subst this
      have := tree_empty hi; cases L <;> simp at this hne
    | some e =>
      obtain ⟨k, c⟩ := e
      obtain ⟨h1, h2⟩ := tree_last hi hl
      obtain ⟨b1, b2⟩ := specMax_spec hne
      refine ⟨k, ?_, greatest_unique h1 h2 b1 b2⟩
      simp only [maxAgg, hl]
  congr := fun _ _ h => specMax_congr h
  P_congr := fun _ _ => trivial

end Octo.Agg
