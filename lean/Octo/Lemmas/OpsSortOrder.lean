import Octo.Lemmas.OpsSort
/-!
  Octo.Lemmas.OpsSortOrder — `orderByItem.Less` (keys with direction multipliers ±1, ties broken by
  the values) is a strict weak order on items of fixed key/value widths, and its classes are the
  classes of `rowEq` on the values when the key is a (row-congruent) function of the values.
  Everything is derived from the comparator laws of `Value.Compare` (C09).
-/
namespace Octo.Ops
open Octo

/-! ### comparators -/
structure CmpOn (P : α → Prop) (c : α → α → Int) : Prop where
  range : ∀ a b, P a → P b → c a b = -1 ∨ c a b = 0 ∨ c a b = 1
  antisymm : ∀ a b, P a → P b → c a b = - c b a
  trans : ∀ a b d, P a → P b → P d → c a b ≤ 0 → c b d ≤ 0 → c a d ≤ 0

def lexC (c1 c2 : α → α → Int) (a b : α) : Int := if c1 a b != 0 then c1 a b else c2 a b

theorem lexC_cmpOn {P : α → Prop} {c1 c2 : α → α → Int} (h1 : CmpOn P c1) (h2 : CmpOn P c2) : CmpOn P (lexC c1 c2) where
  range a b ha hb := by
    have := h1.range a b ha hb; have := h2.range a b ha hb
    simp only [lexC, bne_iff_ne, ne_eq, ite_not]; split <;> omega
  antisymm a b ha hb := by
    have := h1.antisymm a b ha hb; have := h2.antisymm a b ha hb
    simp only [lexC, bne_iff_ne, ne_eq, ite_not]; repeat' split
    all_goals omega
  trans a b d ha hb hd := by
    have t1 := h1.trans a b d ha hb hd
    have t2 := h1.trans d a b hd ha hb
    have t3 := h1.trans b d a hb hd ha
    have a1 := h1.antisymm a b ha hb
    have a2 := h1.antisymm b d hb hd
    have a3 := h1.antisymm a d ha hd
    have r := h2.trans a b d ha hb hd
    simp only [lexC, bne_iff_ne, ne_eq, ite_not]
    repeat' split
    all_goals omega

/-- a comparator gives a strict weak order `c a b = -1` -/
theorem cmpOn_lt_trans {P : α → Prop} {c : α → α → Int} (h : CmpOn P c) (a b d : α) (ha : P a) (hb : P b) (hd : P d)
    (h1 : c a b = -1) (h2 : c b d = -1) : c a d = -1 := by
  have t1 := h.trans a b d ha hb hd
  have t2 := h.trans d a b hd ha hb
  have a1 := h.antisymm a b ha hb
  have a2 := h.antisymm b d hb hd
  have a3 := h.antisymm a d ha hd
  have r := h.range a d ha hd
  omega

theorem cmpOn_eq_congr {P : α → Prop} {c : α → α → Int} (h : CmpOn P c) (a b d : α) (ha : P a) (hb : P b) (hd : P d)
    (h0 : c a b = 0) : c a d = c b d := by
  have t1 := h.trans a b d ha hb hd
  have t2 := h.trans b a d hb ha hd
  have t3 := h.trans d a b hd ha hb
  have t4 := h.trans d b a hd hb ha
  have a1 := h.antisymm a b ha hb
  have a2 := h.antisymm b d hb hd
  have a3 := h.antisymm a d ha hd
  have r1 := h.range a d ha hd
  have r2 := h.range b d hb hd
  omega

/-! ### the Value comparator -/
theorem cmp_range (a b : Value) : cmp a b = -1 ∨ cmp a b = 0 ∨ cmp a b = 1 := cmpWith_range cmpFloatFixed_laws a b
theorem cmp_antisymm (a b : Value) : cmp a b = - cmp b a := cmpWith_antisymm cmpFloatFixed_laws a b
theorem cmp_trans (a b c : Value) : cmp a b ≤ 0 → cmp b c ≤ 0 → cmp a c ≤ 0 := cmpWith_trans cmpFloatFixed_laws a b c

/-! ### keys with direction multipliers -/
def cmpK : List Int → Row → Row → Int
  | d :: ds, x :: xs, y :: ys => if cmp x y != 0 then cmp x y * d else cmpK ds xs ys
  | _, _, _ => 0

def Dirs (ds : List Int) : Prop := ∀ d ∈ ds, d = 1 ∨ d = -1

theorem cmpK_range : ∀ (ds : List Int) (a b : Row), Dirs ds → cmpK ds a b = -1 ∨ cmpK ds a b = 0 ∨ cmpK ds a b = 1
  | [], _, _, _ => by simp [cmpK]
  | _ :: _, [], _, _ => by simp [cmpK]
  | _ :: _, _ :: _, [], _ => by simp [cmpK]
  | d :: ds, x :: xs, y :: ys, hd => by
    have hd1 := hd d List.mem_cons_self
    have ih := cmpK_range ds xs ys (fun q hq => hd q (List.mem_cons_of_mem _ hq))
    have r := cmp_range x y
    simp only [cmpK, bne_iff_ne, ne_eq, ite_not]
    split
    · exact ih
    · rcases hd1 with h | h <;> subst h <;> omega

theorem cmpK_antisymm : ∀ (ds : List Int) (a b : Row), cmpK ds a b = - cmpK ds b a
  | [], _, _ => by simp [cmpK]
  | _ :: _, [], [] => by simp [cmpK]
  | _ :: _, [], _ :: _ => by simp [cmpK]
  | _ :: _, _ :: _, [] => by simp [cmpK]
  | d :: ds, x :: xs, y :: ys => by
    have := cmpK_antisymm ds xs ys
    have h := cmp_antisymm x y
    simp only [cmpK, bne_iff_ne, ne_eq, ite_not]
    repeat' split
    · exact this
    · omega
    · omega
    · rw [h, Int.neg_mul]

theorem cmpK_trans : ∀ (ds : List Int) (a b c : Row), Dirs ds → a.length = ds.length → b.length = ds.length →
    c.length = ds.length → cmpK ds a b ≤ 0 → cmpK ds b c ≤ 0 → cmpK ds a c ≤ 0
  | [], _, _, _, _, _, _, _ => by simp [cmpK]
  | _ :: _, [], _, _, _, h, _, _ => by simp at h
  | _ :: _, _ :: _, [], _, _, _, h, _ => by simp at h
  | _ :: _, _ :: _, _ :: _, [], _, _, _, h => by simp at h
  | d :: ds, x :: xs, y :: ys, z :: zs, hd, ha, hb, hc => by
    have hd1 := hd d List.mem_cons_self
    have ih := cmpK_trans ds xs ys zs (fun q hq => hd q (List.mem_cons_of_mem _ hq))
      (by simpa using ha) (by simpa using hb) (by simpa using hc)
    have t1 := cmp_trans x y z
    have t2 := cmp_trans z x y
    have t3 := cmp_trans y z x
    have t4 := cmp_trans z y x
    have t5 := cmp_trans x z y
    have t6 := cmp_trans y x z
    have a1 := cmp_antisymm x y
    have a2 := cmp_antisymm y z
    have a3 := cmp_antisymm x z
    have r1 := cmp_range x y
    have r2 := cmp_range y z
    have r3 := cmp_range x z
    simp only [cmpK, bne_iff_ne, ne_eq, ite_not]
    rcases hd1 with h | h <;> subst h <;> repeat' split
    all_goals omega

theorem cmpK_of_eq : ∀ (ds : List Int) (a b : Row), cmpList a b = 0 → cmpK ds a b = 0
  | [], _, _, _ => by simp [cmpK]
  | _ :: _, [], [], _ => by simp [cmpK]
  | _ :: _, [], _ :: _, h => by simp [cmpList, cmpListWith] at h
  | _ :: _, _ :: _, [], h => by simp [cmpList, cmpListWith] at h
  | d :: ds, x :: xs, y :: ys, h => by
    simp only [cmpList, cmpListWith, bne_iff_ne, ne_eq, ite_not] at h
    split at h
    · rename_i hc
      simp only [cmpK, bne_iff_ne, ne_eq, ite_not]
      rw [if_pos hc]
      exact cmpK_of_eq ds xs ys h
    · rename_i hc; exact absurd h hc

theorem lessKey_eq : ∀ (ds : List Int) (a b : Row), Dirs ds →
    lessKey ds a b = if cmpK ds a b = 0 then none else some (cmpK ds a b == -1)
  | [], _, _, _ => by simp [lessKey, cmpK]
  | _ :: _, [], _, _ => by simp [lessKey, cmpK]
  | _ :: _, _ :: _, [], _ => by simp [lessKey, cmpK]
  | d :: ds, x :: xs, y :: ys, hd => by
    have hd1 := hd d List.mem_cons_self
    have ih := lessKey_eq ds xs ys (fun q hq => hd q (List.mem_cons_of_mem _ hq))
    have r := cmp_range x y
    simp only [lessKey, cmpK]
    by_cases hc : cmp x y = 0
    · simp [hc, ih]
    · have hne : (cmp x y != 0) = true := by simpa using hc
      simp only [hne, ↓reduceIte]
      have : cmp x y * d ≠ 0 := by rcases hd1 with h | h <;> subst h <;> omega
      simp [this]

theorem length_eq_of_cmpList_eq : ∀ (a b : Row), cmpList a b = 0 → a.length = b.length
  | [], [], _ => rfl
  | [], _ :: _, h => by simp [cmpList, cmpListWith] at h
  | _ :: _, [], h => by simp [cmpList, cmpListWith] at h
  | x :: xs, y :: ys, h => by
    simp only [cmpList, cmpListWith, bne_iff_ne, ne_eq, ite_not] at h
    split at h
    · simp [length_eq_of_cmpList_eq xs ys h]
    · rename_i hc; exact absurd h hc

theorem lessVals_eq : ∀ (a b : Row), a.length = b.length → lessVals a b = (cmpList a b == -1)
  | [], [], _ => by simp [lessVals, cmpList, cmpListWith]
  | [], _ :: _, h => by simp at h
  | _ :: _, [], h => by simp at h
  | x :: xs, y :: ys, h => by
    have ih := lessVals_eq xs ys (by simpa using h)
    simp only [lessVals, cmpList, cmpListWith]
    by_cases hc : cmp x y = 0
    · simp only [cmp] at hc; simp [hc, ih, cmpList]
    · simp only [cmp] at hc
      have hne : (cmpWith cmpFloatFixed x y != 0) = true := by simpa using hc
      simp [hne]

/-! ### the item comparator and the strict weak order -/
/-- items of the widths the node works with -/
def WF (dirs : List Int) (w : Nat) (a : SItem) : Prop := a.key.length = dirs.length ∧ a.vals.length = w

def cmpI (dirs : List Int) (a b : SItem) : Int := lexC (fun a b => cmpK dirs a.key b.key) (fun a b => cmpList a.vals b.vals) a b

theorem cmpI_cmpOn (dirs : List Int) (w : Nat) (hd : Dirs dirs) : CmpOn (WF dirs w) (cmpI dirs) := by
  apply lexC_cmpOn
  · exact ⟨fun a b _ _ => cmpK_range dirs _ _ hd, fun a b _ _ => cmpK_antisymm dirs _ _,
      fun a b d ha hb hd' => cmpK_trans dirs _ _ _ hd ha.1 hb.1 hd'.1⟩
  · exact ⟨fun a b _ _ => cmpList_range _ _, fun a b _ _ => cmpList_antisymm _ _,
      fun a b d _ _ _ => cmpList_trans _ _ _⟩

theorem lessItem_eq (dirs : List Int) (w : Nat) (hd : Dirs dirs) (a b : SItem) (ha : WF dirs w a) (hb : WF dirs w b) :
    lessItem dirs a b = (cmpI dirs a b == -1) := by
  simp only [lessItem, lessKey_eq dirs a.key b.key hd, cmpI, lexC]
  by_cases h : cmpK dirs a.key b.key = 0
  · simp [h, lessVals_eq a.vals b.vals (by rw [ha.2, hb.2])]
  · simp [h]

theorem lessItem_swo (dirs : List Int) (w : Nat) (hd : Dirs dirs) : SWO (WF dirs w) (lessItem dirs) := by
  have C := cmpI_cmpOn dirs w hd
  refine ⟨?_, ?_, ?_, ?_, ?_, ?_, ?_⟩
  · intro a ha
    rw [lessItem_eq dirs w hd a a ha ha]
    have := C.antisymm a a ha ha
    have : cmpI dirs a a = 0 := by omega
    simp [this]
  · intro a b c ha hb hc h1 h2
    rw [lessItem_eq dirs w hd _ _ ha hb] at h1
    rw [lessItem_eq dirs w hd _ _ hb hc] at h2
    rw [lessItem_eq dirs w hd _ _ ha hc]
    simp only [beq_iff_eq] at *
    exact cmpOn_lt_trans C a b c ha hb hc h1 h2
  · intro a b c ha hb hc h1 h2
    rw [lessItem_eq dirs w hd _ _ ha hb] at h1
    rw [lessItem_eq dirs w hd _ _ hb ha] at h2
    rw [lessItem_eq dirs w hd _ _ ha hc, lessItem_eq dirs w hd _ _ hb hc]
    have r := C.range a b ha hb
    have an := C.antisymm a b ha hb
    have h0 : cmpI dirs a b = 0 := by
      simp only [beq_eq_false_iff_ne, ne_eq] at h1 h2; omega
    rw [cmpOn_eq_congr C a b c ha hb hc h0]
  · intro a b c ha hb hc h1 h2
    rw [lessItem_eq dirs w hd _ _ ha hb] at h1
    rw [lessItem_eq dirs w hd _ _ hb ha] at h2
    rw [lessItem_eq dirs w hd _ _ hc ha, lessItem_eq dirs w hd _ _ hc hb]
    have r := C.range a b ha hb
    have an := C.antisymm a b ha hb
    have h0 : cmpI dirs a b = 0 := by
      simp only [beq_eq_false_iff_ne, ne_eq] at h1 h2; omega
    have e := cmpOn_eq_congr C a b c ha hb hc h0
    have a1 := C.antisymm a c ha hc
    have a2 := C.antisymm b c hb hc
    have : cmpI dirs c a = cmpI dirs c b := by omega
    rw [this]
  · intro a a' b hk hv; simp only [lessItem, hk, hv]
  · intro a a' b hk hv; simp only [lessItem, hk, hv]
  · intro a a' hk hv h; exact ⟨hk ▸ h.1, hv ▸ h.2⟩

/-- the classes of `Less` are the classes of `rowEq` on the values, when the key is a row-congruent
    function of the values -/
theorem eqv_iff_rowEq (dirs : List Int) (w : Nat) (hd : Dirs dirs) (kf : Row → Row)
    (hk : ∀ x x', rowEq x x' = true → rowEq (kf x) (kf x') = true)
    (a b : SItem) (ha : WF dirs w a) (hb : WF dirs w b) (hka : a.key = kf a.vals) (hkb : b.key = kf b.vals) :
    eqv (lessItem dirs) a b = rowEq a.vals b.vals := by
  have C := cmpI_cmpOn dirs w hd
  rw [eqv, lessItem_eq dirs w hd a b ha hb, lessItem_eq dirs w hd b a hb ha]
  have r := C.range a b ha hb
  have an := C.antisymm a b ha hb
  cases hr : rowEq a.vals b.vals
  · -- different rows: the comparator is not 0
    have hne : cmpList a.vals b.vals ≠ 0 := by
      intro h; rw [(rowEq_iff _ _).mpr h] at hr; cases hr
    have : cmpI dirs a b ≠ 0 := by
      simp only [cmpI, lexC, bne_iff_ne, ne_eq, ite_not]
      split
      · exact hne
      · assumption
    have hcases : cmpI dirs a b = -1 ∨ cmpI dirs a b = 1 := by omega
    rcases hcases with h | h
    · simp [h]
    · have : cmpI dirs b a = -1 := by omega
      simp [this]
  · have hv : cmpList a.vals b.vals = 0 := (rowEq_iff _ _).mp hr
    have hkk : cmpK dirs a.key b.key = 0 := by
      rw [hka, hkb]; exact cmpK_of_eq dirs _ _ ((rowEq_iff _ _).mp (hk _ _ hr))
    have h0 : cmpI dirs a b = 0 := by simp [cmpI, lexC, hkk, hv]
    have h0' : cmpI dirs b a = 0 := by omega
    simp [h0, h0']

end Octo.Ops
