import Octo.Model.Value
/-! Helper lemmas for C09: laws of the scalar comparisons and the generic structure of `cmpWith`. -/
namespace Octo

/-- the laws a float comparison must satisfy for `cmpWith` to be a total preorder -/
structure CmpLaws (cf : Nat → Nat → Int) : Prop where
  refl : ∀ a, cf a a = 0
  antisymm : ∀ a b, cf a b = - cf b a
  trans : ∀ a b c, cf a b ≤ 0 → cf b c ≤ 0 → cf a c ≤ 0
  eq_trans : ∀ a b c, cf a b = 0 → cf b c = 0 → cf a c = 0
  range : ∀ a b, cf a b = -1 ∨ cf a b = 0 ∨ cf a b = 1

theorem cmpInt_refl (a : Int) : cmpInt a a = 0 := by simp [cmpInt]
theorem cmpInt_antisymm (a b : Int) : cmpInt a b = - cmpInt b a := by
  unfold cmpInt; split <;> split <;> (try split) <;> omega
theorem cmpInt_trans (a b c : Int) : cmpInt a b ≤ 0 → cmpInt b c ≤ 0 → cmpInt a c ≤ 0 := by
  unfold cmpInt; repeat' split
  all_goals omega
theorem cmpInt_eq_iff (a b : Int) : cmpInt a b = 0 ↔ a = b := by
  unfold cmpInt; repeat' split
  all_goals omega
theorem cmpInt_range (a b : Int) : cmpInt a b = -1 ∨ cmpInt a b = 0 ∨ cmpInt a b = 1 := by
  unfold cmpInt; repeat' split
  all_goals omega

theorem cmpBytes_refl : ∀ a, cmpBytes a a = 0
  | [] => by simp [cmpBytes]
  | x :: xs => by simp [cmpBytes, cmpBytes_refl xs]

theorem cmpBytes_range : ∀ a b, cmpBytes a b = -1 ∨ cmpBytes a b = 0 ∨ cmpBytes a b = 1
  | [], [] => by simp [cmpBytes]
  | [], _ :: _ => by simp [cmpBytes]
  | _ :: _, [] => by simp [cmpBytes]
  | x :: xs, y :: ys => by
    simp only [cmpBytes]; split
    · simp
    · split
      · simp
      · exact cmpBytes_range xs ys

theorem cmpBytes_antisymm : ∀ a b, cmpBytes a b = - cmpBytes b a
  | [], [] => by simp [cmpBytes]
  | [], _ :: _ => by simp [cmpBytes]
  | _ :: _, [] => by simp [cmpBytes]
  | x :: xs, y :: ys => by
    have ih := cmpBytes_antisymm xs ys
    simp only [cmpBytes]
    repeat' split
    all_goals omega

theorem cmpBytes_trans : ∀ a b c, cmpBytes a b ≤ 0 → cmpBytes b c ≤ 0 → cmpBytes a c ≤ 0
  | [], [], [] => by simp [cmpBytes]
  | [], [], _ :: _ => by simp [cmpBytes]
  | [], _ :: _, [] => by simp [cmpBytes]
  | [], _ :: _, _ :: _ => by simp [cmpBytes]
  | _ :: _, [], _ => by simp [cmpBytes]
  | _ :: _, _ :: _, [] => by simp [cmpBytes]
  | x :: xs, y :: ys, z :: zs => by
    have ih := cmpBytes_trans xs ys zs
    simp only [cmpBytes]
    repeat' split
    all_goals omega

theorem cmpBytes_eq_iff : ∀ a b, cmpBytes a b = 0 ↔ a = b
  | [], [] => by simp [cmpBytes]
  | [], _ :: _ => by simp [cmpBytes]
  | _ :: _, [] => by simp [cmpBytes]
  | x :: xs, y :: ys => by
    have ih := cmpBytes_eq_iff xs ys
    simp only [cmpBytes, List.cons.injEq]
    constructor
    · intro h
      split at h
      · omega
      · split at h
        · omega
        · exact ⟨UInt8.toNat_inj.mp (by omega), ih.mp h⟩
    · rintro ⟨rfl, rfl⟩
      simp [cmpBytes_refl]

end Octo

namespace Octo
open F64

theorem cmpFloatFixed_laws : CmpLaws cmpFloatFixed where
  refl a := by
    unfold cmpFloatFixed F64.lt; cases h : isNaN a <;> simp
  antisymm a b := by
    unfold cmpFloatFixed F64.lt
    cases ha : isNaN a <;> cases hb : isNaN b <;> simp
    repeat' split
    all_goals omega
  trans a b c := by
    unfold cmpFloatFixed F64.lt
    cases ha : isNaN a <;> cases hb : isNaN b <;> cases hc : isNaN c <;> simp
    repeat' split
    all_goals omega
  eq_trans a b c := by
    unfold cmpFloatFixed F64.lt
    cases ha : isNaN a <;> cases hb : isNaN b <;> cases hc : isNaN c <;> simp
    repeat' split
    all_goals omega
  range a b := by
    unfold cmpFloatFixed F64.lt
    cases ha : isNaN a <;> cases hb : isNaN b <;> simp
    repeat' split
    all_goals omega

/-- for non-NaN patterns the fixed comparison is the integer comparison of the keys -/
theorem cmpFloatFixed_eq_zero_iff (a b : Nat) :
    cmpFloatFixed a b = 0 ↔ (isNaN a = true ∧ isNaN b = true) ∨ (isNaN a = false ∧ isNaN b = false ∧ key a = key b) := by
  unfold cmpFloatFixed F64.lt
  cases ha : isNaN a <;> cases hb : isNaN b <;> simp
  repeat' split
  all_goals omega

/-- equal keys of in-range patterns: same pattern, or both zeros -/
theorem key_eq (a b : Nat) (ha : a < 2^64) (hb : b < 2^64) (h : key a = key b) :
    a = b ∨ (mag a = 0 ∧ mag b = 0) := by
  unfold key neg mag signBit at *
  repeat' split at h
  all_goals simp only [decide_eq_true_eq, ge_iff_le] at *
  all_goals omega

theorem hashBitsFixed_congr (a b : Nat) (ha : a < 2^64) (hb : b < 2^64)
    (h : cmpFloatFixed a b = 0) : hashBitsFixed a = hashBitsFixed b := by
  rcases (cmpFloatFixed_eq_zero_iff a b).mp h with ⟨h1, h2⟩ | ⟨h1, h2, h3⟩
  · simp [hashBitsFixed, h1, h2]
  · rcases key_eq a b ha hb h3 with rfl | ⟨z1, z2⟩
    · rfl
    · simp [hashBitsFixed, h1, h2, z1, z2]

end Octo
