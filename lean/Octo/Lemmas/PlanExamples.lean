import Octo.Lemmas.PlanRemoveRule
/-!
  Concrete plans used by `Octo.Props.C04`: the witness that refutes the full statement and the plans that show the
  hypotheses of the soundness theorems are satisfiable by plans on which the rules fire.
-/
namespace Octo.Plan
open Octo

theorem exprOK_var {scope : List String} {x : String} {l : Bool} (h : x ∈ scope) : ExprOK scope (.var x l) :=
  ⟨fun y hy => by simp only [varsUsed, List.mem_singleton] at hy; subst hy; exact h, trivial⟩

theorem exprOK_const {scope : List String} {v : Value} : ExprOK scope (.const v) :=
  ⟨fun y hy => by simp [varsUsed] at hy, trivial⟩

/-- `a = b` cannot fail when `a` and `b` cannot -/
theorem hsafe_eq {a b : PExpr} (ha : HSafe a) (hb : HSafe b) : HSafe (.nary (.call "=") [a, b]) := by
  refine ⟨?_, fun _ => rfl, ha, hb, trivial⟩
  intro cx hbound
  have h1 := ha.safe cx (fun x hx => hbound x (by simp [varsUsed, varsUsedL, hx]))
  have h2 := hb.safe cx (fun x hx => hbound x (by simp [varsUsed, varsUsedL, hx]))
  simp only [eval, evalL, combineN]
  cases hva : eval cx a with
  | none => rw [hva] at h1; cases h1
  | some va =>
    cases hvb : eval cx b with
    | none => rw [hvb] at h2; cases h2
    | some vb =>
      simp only [sequence, applyFn_eq]
      split <;> rfl

theorem exprOK_eq {scope : List String} {a b : PExpr} (ha : ExprOK scope a) (hb : ExprOK scope b) :
    ExprOK scope (.nary (.call "=") [a, b]) := by
  refine ⟨?_, hsafe_eq ha.safe hb.safe⟩
  intro x hx
  simp only [varsUsed, varsUsedL, List.append_nil, List.mem_append] at hx
  rcases hx with hx | hx
  · exact ha.inScope x hx
  · exact hb.inScope x hx

namespace Examples

/-! ### the refutation witness: `SELECT a FROM (SELECT b, a, k FROM t ORDER BY k LIMIT 1) q` -/

def tS : Schema := { fields := ["t.a_0", "t.b_0", "t.k_0"], timeField := -1, noRetr := true }
def mS : Schema := { fields := ["t.b_1", "t.a_1", "t.k_1"], timeField := -1, noRetr := true }
def qS : Schema := { fields := ["q.a_0"], timeField := -1, noRetr := true }
def tMap : List (String × String) := [("t.a_0", "a"), ("t.b_0", "b"), ("t.k_0", "k")]
def ds0 : Plan := .leaf tS (.ds "t.csv" "t" "none" [] tMap)

def p0 : Plan :=
  .un qS (.map [.var "t.a_1" true])
    (.un mS (.ost [.var "t.k_1" true] [1] (some (.const (.int 1))))
      (.un mS (.map [.var "t.b_0" true, .var "t.a_0" true, .var "t.k_0" true]) ds0))

/-- what `optimize` makes of it: `b` is gone from the inner Map, the ORDER BY node and the datasource -/
def p1 : Plan :=
  .un qS (.map [.var "t.a_1" true])
    (.un { mS with fields := ["t.a_1", "t.k_1"] } (.ost [.var "t.k_1" true] [1] (some (.const (.int 1))))
      (.un { mS with fields := ["t.a_1", "t.k_1"] } (.map [.var "t.a_0" true, .var "t.k_0" true])
        (.leaf { tS with fields := ["t.a_0", "t.k_0"] } (.ds "t.csv" "t" "none" [] tMap))))

def db0 : Db := fun n =>
  if n == "t.csv" then
    some [[("a", .int 2), ("b", .int 1), ("k", .int 0)], [("a", .int 1), ("b", .int 2), ("k", .int 0)]]
  else none

theorem p0_optimized : optimize 64 p0 = .ok p1 := by rfl
theorem p0_result : denote db0 p0 [] = some [[("q.a_0", .int 2)]] := by rfl
theorem p1_result : denote db0 p1 [] = some [[("q.a_0", .int 1)]] := by rfl

theorem ds0_good : Good db0 ds0 [] := by
  simp only [Good, LeafGood, ds0]
  refine ⟨by decide, (fun e he => by cases he), ?_⟩
  intro trows h
  have : db0 "t.csv" = some [[("a", .int 2), ("b", .int 1), ("k", .int 0)], [("a", .int 1), ("b", .int 2), ("k", .int 0)]] := rfl
  rw [this] at h
  simp only [Option.some.injEq] at h
  subst h
  rfl

theorem p0_wellFormed : Good db0 p0 [] := by
  simp only [Good, UnGood, p0, schema_un]
  refine ⟨by decide, ⟨by decide, ⟨by decide, ds0_good, ?_, by first | rfl | trivial⟩, by first | rfl | trivial, ?_, ?_⟩, ?_, by first | rfl | trivial⟩
  · intro e he
    simp only [List.mem_cons, List.not_mem_nil, or_false] at he
    rcases he with rfl | rfl | rfl <;> exact exprOK_var (by decide)
  · intro e he
    simp only [List.mem_cons, List.not_mem_nil, or_false] at he
    subst he
    exact exprOK_var (by decide)
  · intro e he
    simp only [Option.some.injEq] at he
    subst he
    exact exprOK_const
  · intro e he
    simp only [List.mem_cons, List.not_mem_nil, or_false] at he
    subst he
    exact exprOK_var (by decide)

/-! ### an unused Map field that is removable: `SELECT a FROM (SELECT a, b FROM t) q` -/

def mS2 : Schema := { fields := ["t.a_1", "t.b_1"], timeField := -1, noRetr := true }

def pM : Plan :=
  .un qS (.map [.var "t.a_1" true])
    (.un mS2 (.map [.var "t.a_0" true, .var "t.b_0" true]) ds0)

theorem pM_wellFormed : Good db0 pM [] := by
  simp only [Good, UnGood, pM, schema_un]
  refine ⟨by decide, ⟨by decide, ds0_good, ?_, by first | rfl | trivial⟩, ?_, by first | rfl | trivial⟩
  · intro e he
    simp only [List.mem_cons, List.not_mem_nil, or_false] at he
    rcases he with rfl | rfl <;> exact exprOK_var (by decide)
  · intro e he
    simp only [List.mem_cons, List.not_mem_nil, or_false] at he
    subst he
    exact exprOK_var (by decide)

theorem pM_removable : MapRemovable pM := by
  intro f hf
  have : collectFields pickMap pM = ["t.a_1", "t.b_1", "q.a_0"] := rfl
  rw [this] at hf
  simp only [List.mem_cons, List.not_mem_nil, or_false] at hf
  rcases hf with rfl | rfl | rfl <;> simp [Removable, pM, ds0, tS]

/-! ### a join with left-only, right-only and key conjuncts:
    `SELECT … FROM t JOIN u ON t.a = u.a WHERE t.b = 1 AND u.c = 2` -/

def uS : Schema := { fields := ["u.a_0", "u.c_0"], timeField := -1, noRetr := true }
def jS : Schema := { fields := ["t.a_0", "t.b_0", "t.k_0", "u.a_0", "u.c_0"], timeField := -1, noRetr := true }
def dsU : Plan := .leaf uS (.ds "u.csv" "u" "none" [] [("u.a_0", "a"), ("u.c_0", "c")])

def predJ : PExpr :=
  .nary .and [.nary (.call "=") [.var "t.a_0" true, .var "u.a_0" true],
              .nary .and [.nary (.call "=") [.var "t.b_0" true, .const (.int 1)],
                          .nary (.call "=") [.var "u.c_0" true, .const (.int 2)]]]

def pJ : Plan := .un jS (.filter predJ) (.bin jS (.sjoin [] []) ds0 dsU)

def dbJ : Db := fun n =>
  if n == "t.csv" then
    some [[("a", .int 1), ("b", .int 1), ("k", .int 0)], [("a", .int 1), ("b", .int 2), ("k", .int 0)],
          [("a", .null), ("b", .int 1), ("k", .int 0)], [("a", .int 3), ("b", .int 1), ("k", .int 5)]]
  else if n == "u.csv" then
    some [[("a", .int 1), ("c", .int 2)], [("a", .int 3), ("c", .int 2)], [("a", .null), ("c", .int 2)],
          [("a", .int 1), ("c", .int 7)]]
  else none

theorem pJ_wellFormed : Good dbJ pJ [] := by
  have hds0 : Good dbJ ds0 [] := by
    simp only [Good, LeafGood, ds0]
    refine ⟨by decide, (fun e he => by cases he), ?_⟩
    intro trows h
    have : dbJ "t.csv" = some [[("a", .int 1), ("b", .int 1), ("k", .int 0)], [("a", .int 1), ("b", .int 2), ("k", .int 0)],
          [("a", .null), ("b", .int 1), ("k", .int 0)], [("a", .int 3), ("b", .int 1), ("k", .int 5)]] := rfl
    rw [this] at h
    simp only [Option.some.injEq] at h
    subst h
    rfl
  have hdsU : Good dbJ dsU [] := by
    simp only [Good, LeafGood, dsU]
    refine ⟨by decide, (fun e he => by cases he), ?_⟩
    intro trows h
    have : dbJ "u.csv" = some [[("a", .int 1), ("c", .int 2)], [("a", .int 3), ("c", .int 2)], [("a", .null), ("c", .int 2)],
          [("a", .int 1), ("c", .int 7)]] := rfl
    rw [this] at h
    simp only [Option.some.injEq] at h
    subst h
    rfl
  simp only [Good, UnGood, BinGood, pJ, schema_bin]
  refine ⟨by decide, ⟨by decide, hds0, hdsU, by first | rfl | trivial, (fun e he => by cases he), (fun e he => by cases he), by first | rfl | trivial⟩, by first | rfl | trivial, ?_⟩
  have hv : ∀ x, x ∈ ["t.a_0", "t.b_0", "t.k_0", "u.a_0", "u.c_0"] →
      ExprOK (["t.a_0", "t.b_0", "t.k_0", "u.a_0", "u.c_0"] ++ []) (.var x true) := fun x hx => exprOK_var (by simpa using hx)
  exact exprOK_and (by
    intro c hc
    simp only [List.mem_cons, List.not_mem_nil, or_false] at hc
    rcases hc with rfl | rfl
    · exact exprOK_eq (hv _ (by decide)) (hv _ (by decide))
    · exact exprOK_and (by
        intro c hc
        simp only [List.mem_cons, List.not_mem_nil, or_false] at hc
        rcases hc with rfl | rfl
        · exact exprOK_eq (hv _ (by decide)) exprOK_const
        · exact exprOK_eq (hv _ (by decide)) exprOK_const))

end Examples
end Octo.Plan
