import Octo.Lemmas.PlanPrunable
/-!
  Concrete plans used by `Octo.Props.C04`: the witness that refutes the full statement and the plans that show the
  hypotheses of the soundness theorems are satisfiable by plans on which the rules fire.
-/
namespace Octo.Plan
open Octo

theorem exprOK_var {scope : List String} {x : String} {l : Bool} (h : x ∈ scope) : ExprOK scope (.var x l) :=
  ⟨fun y hy => by simp only [varsUsed, List.mem_singleton] at hy; subst hy; exact h, trivial⟩

theorem exprOK_const {scope : List String} {v : Value} : ExprOK scope (.const v) :=
  ⟨fun y hy => by simp [varsUsed] at hy, trivial⟩

/-- `a = b` cannot fail when `a` and `b` cannot -/
theorem hsafe_eq {a b : PExpr} (ha : HSafe a) (hb : HSafe b) : HSafe (.nary (.call "=") [a, b]) := by
  refine ⟨?_, fun _ => rfl, ha, hb, trivial⟩
  intro cx hbound
  have h1 := ha.safe cx (fun x hx => hbound x (by simp [varsUsed, varsUsedL, hx]))
  have h2 := hb.safe cx (fun x hx => hbound x (by simp [varsUsed, varsUsedL, hx]))
  simp only [eval, evalL, combineN]
  cases hva : eval cx a with
  | none => rw [hva] at h1; cases h1
  | some va =>
    cases hvb : eval cx b with
    | none => rw [hvb] at h2; cases h2
    | some vb =>
      simp only [sequence, applyFn_eq]
      split <;> rfl

theorem exprOK_eq {scope : List String} {a b : PExpr} (ha : ExprOK scope a) (hb : ExprOK scope b) :
    ExprOK scope (.nary (.call "=") [a, b]) := by
  refine ⟨?_, hsafe_eq ha.safe hb.safe⟩
  intro x hx
  simp only [varsUsed, varsUsedL, List.append_nil, List.mem_append] at hx
  rcases hx with hx | hx
  · exact ha.inScope x hx
  · exact hb.inScope x hx

/-! ### group-by nodes with `count` / `min` / `max` over safe expressions cannot fail -/

theorem applyAgg_isSome {a : String} (ha : a = "count" ∨ a = "min" ∨ a = "max") {vs : List Value} (hv : vs ≠ []) :
    (applyAgg a vs).isSome = true := by
  rcases ha with rfl | rfl | rfl
  · rfl
  · cases vs with
    | nil => exact absurd rfl hv
    | cons v rest =>
      have h1 : ("min" == "count") = false := by decide
      have h2 : ("min" == "sum") = false := by decide
      simp [applyAgg, h1, h2]
  · cases vs with
    | nil => exact absurd rfl hv
    | cons v rest =>
      have h1 : ("max" == "count") = false := by decide
      have h2 : ("max" == "sum") = false := by decide
      have h3 : ("max" == "min") = false := by decide
      simp [applyAgg, h1, h2, h3]

theorem aggOne_isSome {a : String} (ha : a = "count" ∨ a = "min" ∨ a = "max") (col : List Value) :
    (aggOne a col).isSome = true := by
  simp only [aggOne]
  split
  · rfl
  · rename_i h
    apply applyAgg_isSome ha
    intro he
    rw [he] at h
    exact h rfl

theorem aggCols_isSome : ∀ {aggs : List String}, (∀ a ∈ aggs, a = "count" ∨ a = "min" ∨ a = "max") →
    ∀ (inputs : List (List Value)), (aggCols aggs inputs).isSome = true
  | [], _, _ => rfl
  | a :: as, h, inputs => by
    have h1 := aggOne_isSome (h a (by simp)) (inputs.filterMap List.head?)
    have h2 := aggCols_isSome (aggs := as) (fun x hx => h x (by simp [hx])) (inputs.map List.tail)
    simp only [aggCols]
    cases hv : aggOne a (inputs.filterMap List.head?) with
    | none => rw [hv] at h1; cases h1
    | some v =>
      cases hvs : aggCols as (inputs.map List.tail) with
      | none => rw [hvs] at h2; cases h2
      | some vs => rfl

theorem keyInputs_isSome {ctx : Ctx} {scope : List String} {key aggExprs : List PExpr}
    (hk : ExprsOK scope key) (ha : ExprsOK scope aggExprs) : ∀ {rows : List Row},
    (∀ r ∈ rows, Binds scope (r :: ctx)) → (keyInputs ctx key aggExprs rows).isSome = true
  | [], _ => rfl
  | r :: rs, hb => by
    have h1 := evalArgs_isSome hk (hb r (by simp))
    have h2 := evalArgs_isSome ha (hb r (by simp))
    have h3 := keyInputs_isSome hk ha (rows := rs) (fun x hx => hb x (by simp [hx]))
    simp only [keyInputs]
    cases e1 : evalArgs (r :: ctx) key with
    | none => rw [e1] at h1; cases h1
    | some k =>
      cases e2 : evalArgs (r :: ctx) aggExprs with
      | none => rw [e2] at h2; cases h2
      | some a =>
        cases e3 : keyInputs ctx key aggExprs rs with
        | none => rw [e3] at h3; cases h3
        | some rest => rfl

theorem groupOut_isSome {fs aggs : List String} {keyLen : Nat} (hlen : fs.length = keyLen + aggs.length)
    (hagg : ∀ a ∈ aggs, a = "count" ∨ a = "min" ∨ a = "max") :
    ∀ {gs : List (List Value × List (List Value))}, (∀ g ∈ gs, g.1.length = keyLen) →
    (groupOut fs aggs gs).isSome = true
  | [], _ => rfl
  | (k, inputs) :: rest, hk => by
    have h1 := aggCols_isSome hagg inputs
    have h2 := groupOut_isSome hlen hagg (gs := rest) (fun g hg => hk g (by simp [hg]))
    simp only [groupOut]
    cases e1 : aggCols aggs inputs with
    | none => rw [e1] at h1; cases h1
    | some avs =>
      cases e2 : groupOut fs aggs rest with
      | none => rw [e2] at h2; cases h2
      | some out =>
        have h3 := zipNames_isSome (fs := fs) (vs := k ++ avs) (by
          rw [List.length_append, aggCols_length e1, hk (k, inputs) (by simp), hlen])
        simp only
        cases e3 : zipNames fs (k ++ avs) with
        | none => rw [e3] at h3; cases h3
        | some row => rfl

/-- the totality hypothesis of `Good` for group-by nodes holds for `count`, `min`, `max` over safe expressions -/
theorem groupByRows_isSome {ctx : Ctx} {scope fs aggs : List String} {aggExprs key : List PExpr}
    (hes : ExprsOK scope (aggExprs ++ key)) (hlen : fs.length = key.length + aggs.length)
    (hagg : ∀ a ∈ aggs, a = "count" ∨ a = "min" ∨ a = "max") {rows : List Row}
    (hb : ∀ r ∈ rows, Binds scope (r :: ctx)) : (groupByRows ctx fs aggs aggExprs key rows).isSome = true := by
  have hk : ExprsOK scope key := fun e he => hes e (List.mem_append_right _ he)
  have ha : ExprsOK scope aggExprs := fun e he => hes e (List.mem_append_left _ he)
  have h1 := keyInputs_isSome hk ha hb
  unfold groupByRows
  cases e1 : keyInputs ctx key aggExprs rows with
  | none => rw [e1] at h1; cases h1
  | some pairs =>
    exact groupOut_isSome hlen hagg (groupPairs_keys (P := fun k => k.length = key.length) (keyInputs_keyLen e1))

namespace Examples

/-! ### the refutation witness: `SELECT a FROM (SELECT b, a, k FROM t ORDER BY k LIMIT 1) q` -/

def tS : Schema := { fields := ["t.a_0", "t.b_0", "t.k_0"], timeField := -1, noRetr := true }
def mS : Schema := { fields := ["t.b_1", "t.a_1", "t.k_1"], timeField := -1, noRetr := true }
def qS : Schema := { fields := ["q.a_0"], timeField := -1, noRetr := true }
def tMap : List (String × String) := [("t.a_0", "a"), ("t.b_0", "b"), ("t.k_0", "k")]
def ds0 : Plan := .leaf tS (.ds "t.csv" "t" "none" [] tMap)

def p0 : Plan :=
  .un qS (.map [.var "t.a_1" true])
    (.un mS (.ost [.var "t.k_1" true] [1] (some (.const (.int 1))))
      (.un mS (.map [.var "t.b_0" true, .var "t.a_0" true, .var "t.k_0" true]) ds0))

/-- what `optimize` makes of it: `b` is gone from the inner Map, the ORDER BY node and the datasource -/
def p1 : Plan :=
  .un qS (.map [.var "t.a_1" true])
    (.un { mS with fields := ["t.a_1", "t.k_1"] } (.ost [.var "t.k_1" true] [1] (some (.const (.int 1))))
      (.un { mS with fields := ["t.a_1", "t.k_1"] } (.map [.var "t.a_0" true, .var "t.k_0" true])
        (.leaf { tS with fields := ["t.a_0", "t.k_0"] } (.ds "t.csv" "t" "none" [] tMap))))

def db0 : Db := fun n =>
  if n == "t.csv" then
    some [[("a", .int 2), ("b", .int 1), ("k", .int 0)], [("a", .int 1), ("b", .int 2), ("k", .int 0)]]
  else none

theorem p0_optimized : optimize 64 p0 = .ok p1 := by rfl
theorem p0_result : denote db0 p0 [] = some [[("q.a_0", .int 2)]] := by rfl
theorem p1_result : denote db0 p1 [] = some [[("q.a_0", .int 1)]] := by rfl

theorem ds0_good : Good db0 ds0 [] := by
  simp only [Good, LeafGood, ds0]
  refine ⟨by decide, (fun e he => by cases he), ?_⟩
  intro trows h
  have : db0 "t.csv" = some [[("a", .int 2), ("b", .int 1), ("k", .int 0)], [("a", .int 1), ("b", .int 2), ("k", .int 0)]] := rfl
  rw [this] at h
  simp only [Option.some.injEq] at h
  subst h
  rfl

theorem p0_wellFormed : Good db0 p0 [] := by
  simp only [Good, UnGood, p0, schema_un]
  refine ⟨by decide, ⟨by decide, ⟨by decide, ds0_good, ?_, by first | rfl | trivial⟩, by first | rfl | trivial, ?_, ?_⟩, ?_, by first | rfl | trivial⟩
  · intro e he
    simp only [List.mem_cons, List.not_mem_nil, or_false] at he
    rcases he with rfl | rfl | rfl <;> exact exprOK_var (by decide)
  · intro e he
    simp only [List.mem_cons, List.not_mem_nil, or_false] at he
    subst he
    exact exprOK_var (by decide)
  · intro e he
    simp only [Option.some.injEq] at he
    subst he
    exact exprOK_const
  · intro e he
    simp only [List.mem_cons, List.not_mem_nil, or_false] at he
    subst he
    exact exprOK_var (by decide)

/-! ### an unused Map field that is removable: `SELECT a FROM (SELECT a, b FROM t) q` -/

def mS2 : Schema := { fields := ["t.a_1", "t.b_1"], timeField := -1, noRetr := true }

def pM : Plan :=
  .un qS (.map [.var "t.a_1" true])
    (.un mS2 (.map [.var "t.a_0" true, .var "t.b_0" true]) ds0)

theorem pM_wellFormed : Good db0 pM [] := by
  simp only [Good, UnGood, pM, schema_un]
  refine ⟨by decide, ⟨by decide, ds0_good, ?_, by first | rfl | trivial⟩, ?_, by first | rfl | trivial⟩
  · intro e he
    simp only [List.mem_cons, List.not_mem_nil, or_false] at he
    rcases he with rfl | rfl <;> exact exprOK_var (by decide)
  · intro e he
    simp only [List.mem_cons, List.not_mem_nil, or_false] at he
    subst he
    exact exprOK_var (by decide)

theorem pM_removable : MapRemovable pM := by
  intro f hf
  have : collectFields pickMap pM = ["t.a_1", "t.b_1", "q.a_0"] := rfl
  rw [this] at hf
  simp only [List.mem_cons, List.not_mem_nil, or_false] at hf
  rcases hf with rfl | rfl | rfl <;> exact ⟨by simp [Removable, pM, ds0, tS], by simp [NoGroupByHas, pM, ds0]⟩

/-! ### a join with left-only, right-only and key conjuncts:
    `SELECT … FROM t JOIN u ON t.a = u.a WHERE t.b = 1 AND u.c = 2` -/

def uS : Schema := { fields := ["u.a_0", "u.c_0"], timeField := -1, noRetr := true }
def jS : Schema := { fields := ["t.a_0", "t.b_0", "t.k_0", "u.a_0", "u.c_0"], timeField := -1, noRetr := true }
def dsU : Plan := .leaf uS (.ds "u.csv" "u" "none" [] [("u.a_0", "a"), ("u.c_0", "c")])

def predJ : PExpr :=
  .nary .and [.nary (.call "=") [.var "t.a_0" true, .var "u.a_0" true],
              .nary .and [.nary (.call "=") [.var "t.b_0" true, .const (.int 1)],
                          .nary (.call "=") [.var "u.c_0" true, .const (.int 2)]]]

def pJ : Plan := .un jS (.filter predJ) (.bin jS (.sjoin [] []) ds0 dsU)

def dbJ : Db := fun n =>
  if n == "t.csv" then
    some [[("a", .int 1), ("b", .int 1), ("k", .int 0)], [("a", .int 1), ("b", .int 2), ("k", .int 0)],
          [("a", .null), ("b", .int 1), ("k", .int 0)], [("a", .int 3), ("b", .int 1), ("k", .int 5)]]
  else if n == "u.csv" then
    some [[("a", .int 1), ("c", .int 2)], [("a", .int 3), ("c", .int 2)], [("a", .null), ("c", .int 2)],
          [("a", .int 1), ("c", .int 7)]]
  else none

theorem pJ_wellFormed : Good dbJ pJ [] := by
  have hds0 : Good dbJ ds0 [] := by
    simp only [Good, LeafGood, ds0]
    refine ⟨by decide, (fun e he => by cases he), ?_⟩
    intro trows h
    have : dbJ "t.csv" = some [[("a", .int 1), ("b", .int 1), ("k", .int 0)], [("a", .int 1), ("b", .int 2), ("k", .int 0)],
          [("a", .null), ("b", .int 1), ("k", .int 0)], [("a", .int 3), ("b", .int 1), ("k", .int 5)]] := rfl
    rw [this] at h
    simp only [Option.some.injEq] at h
    subst h
    rfl
  have hdsU : Good dbJ dsU [] := by
    simp only [Good, LeafGood, dsU]
    refine ⟨by decide, (fun e he => by cases he), ?_⟩
    intro trows h
    have : dbJ "u.csv" = some [[("a", .int 1), ("c", .int 2)], [("a", .int 3), ("c", .int 2)], [("a", .null), ("c", .int 2)],
          [("a", .int 1), ("c", .int 7)]] := rfl
    rw [this] at h
    simp only [Option.some.injEq] at h
    subst h
    rfl
  simp only [Good, UnGood, BinGood, pJ, schema_bin]
  refine ⟨by decide, ⟨by decide, hds0, hdsU, by first | rfl | trivial, (fun e he => by cases he), (fun e he => by cases he), by first | rfl | trivial⟩, by first | rfl | trivial, ?_⟩
  have hv : ∀ x, x ∈ ["t.a_0", "t.b_0", "t.k_0", "u.a_0", "u.c_0"] →
      ExprOK (["t.a_0", "t.b_0", "t.k_0", "u.a_0", "u.c_0"] ++ []) (.var x true) := fun x hx => exprOK_var (by simpa using hx)
  exact exprOK_and (by
    intro c hc
    simp only [List.mem_cons, List.not_mem_nil, or_false] at hc
    rcases hc with rfl | rfl
    · exact exprOK_eq (hv _ (by decide)) (hv _ (by decide))
    · exact exprOK_and (by
        intro c hc
        simp only [List.mem_cons, List.not_mem_nil, or_false] at hc
        rcases hc with rfl | rfl
        · exact exprOK_eq (hv _ (by decide)) exprOK_const
        · exact exprOK_eq (hv _ (by decide)) exprOK_const))

/-- the same join under a projection: `SELECT t.b, u.c FROM …` (unused columns everywhere) -/
def qS2 : Schema := { fields := ["q.b_0", "q.c_0"], timeField := -1, noRetr := true }
def pJ2 : Plan := .un qS2 (.map [.var "t.b_0" true, .var "u.c_0" true]) pJ

theorem pJ2_wellFormed : Good dbJ pJ2 [] := by
  simp only [Good, UnGood, pJ2]
  refine ⟨by decide, pJ_wellFormed, ?_, by first | rfl | trivial⟩
  intro e he
  simp only [List.mem_cons, List.not_mem_nil, or_false] at he
  rcases he with rfl | rfl <;> exact exprOK_var (by decide)

theorem pJ2_prunable : Prunable pJ2 := by
  refine ⟨?_, ?_, ?_⟩
  · intro f hf
    have : collectFields allMapFields pJ2 = ["q.b_0", "q.c_0"] := rfl
    rw [this] at hf
    simp only [List.mem_cons, List.not_mem_nil, or_false] at hf
    rcases hf with rfl | rfl <;>
      exact ⟨by simp [Removable, pJ2, pJ, ds0, dsU], by simp [NoGroupByHas, pJ2, pJ, ds0, dsU]⟩
  · intro f hf
    have : collectFields allDsFields pJ2 = ["t.a_0", "t.b_0", "t.k_0", "u.a_0", "u.c_0"] := rfl
    rw [this] at hf
    simp only [List.mem_cons, List.not_mem_nil, or_false] at hf
    rcases hf with rfl | rfl | rfl | rfl | rfl <;>
      exact ⟨by simp [Removable, pJ2, pJ, ds0, dsU], by simp [NoMapHas, pJ2, pJ, ds0, dsU, qS2],
        by simp [NoGroupByHas, pJ2, pJ, ds0, dsU]⟩
  · intro f hf
    have : collectFields allGbFields pJ2 = [] := rfl
    rw [this] at hf
    cases hf

/-! ### a group-by with unused aggregates: `SELECT k FROM (SELECT k, COUNT(*) AS c, MAX(a) AS m FROM t GROUP BY k) g` -/

def gS : Schema := { fields := ["g.k_0", "g.c_0", "g.m_0"], timeField := -1, noRetr := true }
def qS3 : Schema := { fields := ["q.k_0"], timeField := -1, noRetr := true }
def pG : Plan :=
  .un qS3 (.map [.var "g.k_0" true])
    (.un gS (.groupBy ["count", "max"] [.const (.bool true), .var "t.a_0" true] [.var "t.k_0" true] (-1) "eos") ds0)

theorem pG_wellFormed : Good db0 pG [] := by
  have hes : ExprsOK (ds0.schema.fields ++ []) ([.const (.bool true), .var "t.a_0" true] ++ [.var "t.k_0" true]) := by
    intro e he
    simp only [List.cons_append, List.nil_append, List.mem_cons, List.not_mem_nil, or_false] at he
    rcases he with rfl | rfl | rfl
    · exact exprOK_const
    · exact exprOK_var (by decide)
    · exact exprOK_var (by decide)
  simp only [Good, UnGood, pG]
  refine ⟨by decide, ⟨by decide, ds0_good, hes, by first | rfl | trivial, by first | rfl | trivial, ?_⟩, ?_,
    by first | rfl | trivial⟩
  · intro ctx rows hb
    exact groupByRows_isSome hes rfl (by intro a ha; simp at ha; rcases ha with rfl | rfl <;> simp) hb
  · intro e he
    simp only [List.mem_cons, List.not_mem_nil, or_false] at he
    subst he
    exact exprOK_var (by decide)

theorem pG_prunable : Prunable pG := by
  refine ⟨?_, ?_, ?_⟩
  · intro f hf
    have : collectFields allMapFields pG = ["q.k_0"] := rfl
    rw [this] at hf
    simp only [List.mem_cons, List.not_mem_nil, or_false] at hf
    subst hf
    exact ⟨by simp [Removable, pG, ds0, gS], by simp [NoGroupByHas, pG, ds0, gS]⟩
  · intro f hf
    have : collectFields allDsFields pG = ["t.a_0", "t.b_0", "t.k_0"] := rfl
    rw [this] at hf
    simp only [List.mem_cons, List.not_mem_nil, or_false] at hf
    rcases hf with rfl | rfl | rfl <;>
      exact ⟨by simp [Removable, pG, ds0, gS], by simp [NoMapHas, pG, ds0, qS3], by simp [NoGroupByHas, pG, ds0, gS]⟩
  · intro f hf
    have : collectFields allGbFields pG = ["g.c_0", "g.m_0"] := rfl
    rw [this] at hf
    simp only [List.mem_cons, List.not_mem_nil, or_false] at hf
    rcases hf with rfl | rfl <;>
      exact ⟨by simp [Removable, pG, ds0, gS, tS], by simp [NoMapHas, pG, ds0, qS3]⟩

end Examples
end Octo.Plan
