import Octo.Model.TyAlgebra
/-! Laws of `Type.Is` (model `Ty.is`): fuel independence, unfolding equations, reflexivity,
    transitivity, soundness w.r.t. `conforms`. -/
namespace Octo
namespace Ty

theorem size_pos (t : Ty) : 0 < t.size := by cases t <;> simp [size] <;> omega

theorem eq_union_of_isUnion {t : Ty} (h : t.isUnion = true) : ∃ alts, t = .union alts := by
  cases t <;> simp [isUnion] at h; exact ⟨_, rfl⟩
theorem eq_any_of_isAny {t : Ty} (h : t.isAny = true) : t = .any := by
  cases t <;> simp [isAny] at h; rfl

theorem size_le_sizeList {a : Ty} {ts : List Ty} (h : a ∈ ts) : a.size ≤ sizeList ts := by
  induction ts with
  | nil => cases h
  | cons t ts ih =>
    simp only [sizeList]
    cases h with
    | head => omega
    | tail _ h => have := ih h; omega

theorem foldl_congr_mem {α β} (f g : β → α → β) (l : List α) (b : β)
    (h : ∀ a ∈ l, ∀ b, f b a = g b a) : l.foldl f b = l.foldl g b := by
  induction l generalizing b with
  | nil => rfl
  | cons x xs ih =>
    simp only [List.foldl]
    rw [h x (by simp)]
    exact ih _ (fun a ha => h a (by simp [ha]))

theorem structLoop_congr {f g : Ty → Ty → Rel} : ∀ (ns : List Name) (ts : List Ty) (ns' : List Name) (ts' : List Ty),
    (∀ a ∈ ts, ∀ b ∈ ts', f a b = g a b) → structLoop f ns ts ns' ts' = structLoop g ns ts ns' ts'
  | ns, t :: ts, ns', t' :: ts', h => by
    simp only [structLoop]
    rw [h t (by simp) t' (by simp)]
    rw [structLoop_congr ns.tail ts ns'.tail ts' (fun a ha b hb => h a (by simp [ha]) b (by simp [hb]))]
  | _, [], _, _, _ => by simp [structLoop]
  | _, _ :: _, _, [], _ => by simp [structLoop]

theorem tupleLoop_congr {f g : Ty → Ty → Rel} : ∀ (ts ts' : List Ty),
    (∀ a ∈ ts, ∀ b ∈ ts', f a b = g a b) → tupleLoop f ts ts' = tupleLoop g ts ts'
  | t :: ts, t' :: ts', h => by
    simp only [tupleLoop]
    rw [h t (by simp) t' (by simp)]
    rw [tupleLoop_congr ts ts' (fun a ha b hb => h a (by simp [ha]) b (by simp [hb]))]
  | [], _, _ => by simp [tupleLoop]
  | _ :: _, [], _ => by simp [tupleLoop]

theorem isStep_congr {f g : Ty → Ty → Rel} (t o : Ty)
    (h : ∀ a b, a.size + b.size < t.size + o.size → f a b = g a b) : isStep f t o = isStep g t o := by
  unfold isStep
  split
  · rfl
  · split
    · rename_i alts
      congr 1
      apply foldl_congr_mem
      intro a ha st
      rw [h a o (by have := size_le_sizeList ha; simp only [size]; omega)]
    · split
      · rename_i oalts
        apply foldl_congr_mem
        intro a ha st
        rw [h t a (by have := size_le_sizeList ha; simp only [size]; omega)]
      · split <;> try rfl
        · rw [h]
          simp only [size]; omega
        · rw [structLoop_congr (f := f) (g := g)]
          intro a ha b hb
          exact h a b (by have := size_le_sizeList ha; have := size_le_sizeList hb; simp only [size]; omega)
        · rw [tupleLoop_congr (f := f) (g := g)]
          intro a ha b hb
          exact h a b (by have := size_le_sizeList ha; have := size_le_sizeList hb; simp only [size]; omega)

theorem isF_fuel : ∀ (n m : Nat) (t o : Ty), t.size + o.size ≤ n → t.size + o.size ≤ m → isF n t o = isF m t o := by
  intro n
  induction n with
  | zero => intro m t o h; have := size_pos t; omega
  | succ n ih =>
    intro m t o h1 h2
    cases m with
    | zero => have := size_pos t; omega
    | succ m =>
      simp only [isF]
      exact isStep_congr t o (fun a b hab => ih m a b (by omega) (by omega))

/-- the unfolding equation of `Type.Is` -/
theorem is_eq (t o : Ty) : t.is o = isStep is t o := by
  unfold is
  have hp := size_pos t
  obtain ⟨k, hk⟩ : ∃ k, t.size + o.size = k + 1 := ⟨t.size + o.size - 1, by omega⟩
  rw [hk]
  simp only [isF]
  exact isStep_congr t o (fun a b hab => isF_fuel _ _ a b (by omega) (by omega))


/-! ### what the two union loops compute, as far as `Is` (= `TypeRelationIs`) is concerned -/

theorem unionFold_snd (r : Ty → Rel) : ∀ (l : List Ty) (st : Bool × Bool),
    (l.foldl (fun st a => unionStep st (r a)) st).2 = (st.2 && l.all (fun a => r a == .is))
  | [], st => by simp
  | x :: xs, st => by
    simp only [List.foldl, List.all_cons]
    rw [unionFold_snd r xs]
    cases h : r x <;> simp [unionStep]

theorem unionResult_is (st : Bool × Bool) : unionResult st = .is ↔ st.2 = true := by
  unfold unionResult
  cases st.2 <;> cases st.1 <;> simp

theorem maxFold_is (r : Ty → Rel) : ∀ (l : List Ty) (init : Rel),
    l.foldl (fun out a => Rel.max out (r a)) init = .is ↔ (init = .is ∨ ∃ a ∈ l, r a = .is)
  | [], init => by simp
  | x :: xs, init => by
    simp only [List.foldl]
    rw [maxFold_is r xs]
    constructor
    · rintro (h | ⟨a, ha, h⟩)
      · unfold Rel.max at h
        split at h
        · right; exact ⟨x, by simp, h⟩
        · left; exact h
      · right; exact ⟨a, by simp [ha], h⟩
    · rintro (h | ⟨a, ha, h⟩)
      · left; subst h; unfold Rel.max; cases r x <;> simp [Rel.toNat]
      · cases ha with
        | head => left; unfold Rel.max; rw [h]; cases init <;> simp [Rel.toNat]
        | tail _ ha => right; exact ⟨a, ha, h⟩

@[simp] theorem is_any (t : Ty) : t.is .any = .is := by
  rw [is_eq]; simp [isStep, isAny]

/-- a union `Is` something iff all of its alternatives are -/
theorem is_union_l (alts : List Ty) (o : Ty) :
    (Ty.union alts).is o = .is ↔ ∀ a ∈ alts, a.is o = .is := by
  by_cases ho : o.isAny = true
  · cases o <;> simp [isAny] at ho
    simp
  · rw [is_eq]
    simp only [isStep, ho]
    simp only [Bool.false_eq_true, if_false, unionResult_is, unionFold_snd]
    simp

/-- a non-union `Is` a union (not through `Any`) iff it `Is` one of the alternatives -/
theorem is_union_r (t : Ty) (oalts : List Ty) (ht : t.isUnion = false) :
    t.is (.union oalts) = .is ↔ ∃ a ∈ oalts, t.is a = .is := by
  rw [is_eq]
  cases t <;> simp [isUnion] at ht <;> simp [isStep, isAny, maxFold_is]


/-! ### non-union against non-union, non-Any: the structural core -/

/-- the constant types (everything that is not a list, struct, tuple or union) -/
def isConst : Ty → Bool
  | .null | .int | .float | .bool | .str | .time | .dur | .any => true
  | _ => false

theorem is_list_list (e e' : Ty) : (Ty.list e).is (.list e') = .is ↔ e.is e' = .is := by
  rw [is_eq]; simp only [isStep, isAny]
  cases h : e.is e' <;> simp [Rel.toNat]

@[simp] theorem is_listNil_listNil : Ty.listNil.is .listNil = .is := by rw [is_eq]; simp [isStep, isAny]
@[simp] theorem is_listNil_list (e : Ty) : Ty.listNil.is (.list e) = .is := by rw [is_eq]; simp [isStep, isAny]
@[simp] theorem is_list_listNil (e : Ty) : (Ty.list e).is .listNil = .isnt := by rw [is_eq]; simp [isStep, isAny]

theorem is_struct_struct (ns ns' : List Name) (ts ts' : List Ty) :
    (Ty.struct ns ts).is (.struct ns' ts') = .is ↔ ts.length = ts'.length ∧ structLoop is ns ts ns' ts' = .is := by
  rw [is_eq]; simp only [isStep, isAny]
  by_cases h : ts.length = ts'.length <;> simp [h]

theorem is_tuple_tuple (ts ts' : List Ty) :
    (Ty.tuple ts).is (.tuple ts') = .is ↔ ts.length = ts'.length ∧ tupleLoop is ts ts' = .is := by
  rw [is_eq]; simp only [isStep, isAny]
  by_cases h : ts.length = ts'.length <;> simp [h]

/-- inversion: how a non-union can `Is` a non-union that is not `Any` -/
theorem is_plain_inv {t o : Ty} (ht : t.isUnion = false) (ho : o.isUnion = false) (ha : o.isAny = false)
    (h : t.is o = .is) :
    (t = .listNil ∧ (o = .listNil ∨ ∃ e', o = .list e')) ∨
    (∃ e e', t = .list e ∧ o = .list e' ∧ e.is e' = .is) ∨
    (∃ ns ts ns' ts', t = .struct ns ts ∧ o = .struct ns' ts' ∧ ts.length = ts'.length ∧ structLoop is ns ts ns' ts' = .is) ∨
    (∃ ts ts', t = .tuple ts ∧ o = .tuple ts' ∧ ts.length = ts'.length ∧ tupleLoop is ts ts' = .is) ∨
    (t.isConst = true ∧ t = o) := by
  cases t <;> simp [isUnion] at ht <;> cases o <;> simp [isUnion] at ho <;> simp [isAny] at ha <;>
    first
    | (rw [is_eq] at h; simp [isStep, isAny, Ty.id] at h; done)
    | simp [isConst]
    | skip
  · rename_i e e'
    exact (is_list_list e e').mp h
  · rename_i ns ts ns' ts'
    exact ⟨ns, ts, ⟨rfl, rfl⟩, ns', ts', ⟨rfl, rfl⟩, (is_struct_struct ns ns' ts ts').mp h⟩
  · rename_i ts ts'
    exact (is_tuple_tuple ts ts').mp h

theorem is_const_self {t : Ty} (h : t.isConst = true) : t.is t = .is := by
  cases t <;> simp [isConst] at h <;> (rw [is_eq]; simp [isStep, isAny])


theorem rel_not_lt2 (r : Rel) : ¬ (r.toNat < 2) ↔ r = .is := by cases r <;> simp [Rel.toNat]

theorem structLoop_cons (f : Ty → Ty → Rel) (ns ns' : List Name) (t t' : Ty) (ts ts' : List Ty) :
    structLoop f ns (t :: ts) ns' (t' :: ts') = .is ↔
      ns.head? = ns'.head? ∧ f t t' = .is ∧ structLoop f ns.tail ts ns'.tail ts' = .is := by
  simp only [structLoop]
  by_cases h1 : ns.head? = ns'.head?
  · cases hf : f t t' <;> simp [h1, Rel.toNat]
  · simp [h1]

theorem tupleLoop_cons (f : Ty → Ty → Rel) (t t' : Ty) (ts ts' : List Ty) :
    tupleLoop f (t :: ts) (t' :: ts') = .is ↔ f t t' = .is ∧ tupleLoop f ts ts' = .is := by
  simp only [tupleLoop]
  cases hf : f t t' <;> simp [Rel.toNat]

theorem structLoop_refl (f : Ty → Ty → Rel) : ∀ (ns : List Name) (ts : List Ty),
    (∀ t ∈ ts, f t t = .is) → structLoop f ns ts ns ts = .is
  | _, [], _ => by simp [structLoop]
  | ns, t :: ts, h => by
    rw [structLoop_cons]
    exact ⟨rfl, h t (by simp), structLoop_refl f ns.tail ts (fun a ha => h a (by simp [ha]))⟩

theorem tupleLoop_refl (f : Ty → Ty → Rel) : ∀ (ts : List Ty),
    (∀ t ∈ ts, f t t = .is) → tupleLoop f ts ts = .is
  | [], _ => by simp [tupleLoop]
  | t :: ts, h => by
    rw [tupleLoop_cons]
    exact ⟨h t (by simp), tupleLoop_refl f ts (fun a ha => h a (by simp [ha]))⟩

theorem structLoop_trans (f : Ty → Ty → Rel) : ∀ (ns : List Name) (ts : List Ty) (ns' : List Name) (ts' : List Ty)
    (ns'' : List Name) (ts'' : List Ty),
    (∀ a ∈ ts, ∀ b ∈ ts', ∀ c ∈ ts'', f a b = .is → f b c = .is → f a c = .is) →
    ts.length = ts'.length → ts'.length = ts''.length →
    structLoop f ns ts ns' ts' = .is → structLoop f ns' ts' ns'' ts'' = .is → structLoop f ns ts ns'' ts'' = .is
  | _, [], _, _, _, _, _, _, _, _, _ => by simp [structLoop]
  | _, _ :: _, _, [], _, _, _, h1, _, _, _ => by simp at h1
  | _, _ :: _, _, _ :: _, _, [], _, _, h2, _, _ => by simp at h2
  | ns, a :: ts, ns', b :: ts', ns'', c :: ts'', h, h1, h2, l1, l2 => by
    rw [structLoop_cons] at l1 l2 ⊢
    refine ⟨l1.1.trans l2.1, h a (by simp) b (by simp) c (by simp) l1.2.1 l2.2.1, ?_⟩
    exact structLoop_trans f ns.tail ts ns'.tail ts' ns''.tail ts''
      (fun a ha b hb c hc => h a (by simp [ha]) b (by simp [hb]) c (by simp [hc]))
      (by simpa using h1) (by simpa using h2) l1.2.2 l2.2.2

theorem tupleLoop_trans (f : Ty → Ty → Rel) : ∀ (ts ts' ts'' : List Ty),
    (∀ a ∈ ts, ∀ b ∈ ts', ∀ c ∈ ts'', f a b = .is → f b c = .is → f a c = .is) →
    ts.length = ts'.length → ts'.length = ts''.length →
    tupleLoop f ts ts' = .is → tupleLoop f ts' ts'' = .is → tupleLoop f ts ts'' = .is
  | [], _, _, _, _, _, _, _ => by simp [tupleLoop]
  | _ :: _, [], _, _, h1, _, _, _ => by simp at h1
  | _ :: _, _ :: _, [], _, _, h2, _, _ => by simp at h2
  | a :: ts, b :: ts', c :: ts'', h, h1, h2, l1, l2 => by
    rw [tupleLoop_cons] at l1 l2 ⊢
    refine ⟨h a (by simp) b (by simp) c (by simp) l1.1 l2.1, ?_⟩
    exact tupleLoop_trans f ts ts' ts''
      (fun a ha b hb c hc => h a (by simp [ha]) b (by simp [hb]) c (by simp [hc]))
      (by simpa using h1) (by simpa using h2) l1.2 l2.2

/-! ### `x Is y`, `y` an alternative ⇒ `x Is` the union -/
theorem is_into_union_aux : ∀ (n : Nat) (x : Ty), x.size ≤ n → ∀ (y : Ty) (alts : List Ty),
    x.is y = .is → y ∈ alts → x.is (.union alts) = .is := by
  intro n
  induction n with
  | zero => intro x h; have := size_pos x; omega
  | succ n ih =>
    intro x hx y alts hxy hy
    by_cases hu : x.isUnion = true
    · cases x <;> simp [isUnion] at hu
      rename_i xs
      rw [is_union_l] at hxy ⊢
      intro a ha
      exact ih a (by have := size_le_sizeList ha; simp only [size] at hx; omega) y alts (hxy a ha) hy
    · rw [is_union_r x alts (by simpa using hu)]
      exact ⟨y, hy, hxy⟩

theorem is_into_union {x y : Ty} {alts : List Ty} (h : x.is y = .is) (hy : y ∈ alts) :
    x.is (.union alts) = .is := is_into_union_aux x.size x (Nat.le_refl _) y alts h hy

/-! ### reflexivity -/
theorem is_refl_aux : ∀ (n : Nat) (t : Ty), t.size ≤ n → t.is t = .is := by
  intro n
  induction n with
  | zero => intro t h; have := size_pos t; omega
  | succ n ih =>
    intro t ht
    cases t with
    | list e => rw [is_list_list]; exact ih e (by simp only [size] at ht; omega)
    | struct ns ts =>
      rw [is_struct_struct]
      exact ⟨rfl, structLoop_refl _ ns ts (fun a ha => ih a (by
        have := size_le_sizeList ha; simp only [size] at ht; omega))⟩
    | tuple ts =>
      rw [is_tuple_tuple]
      exact ⟨rfl, tupleLoop_refl _ ts (fun a ha => ih a (by
        have := size_le_sizeList ha; simp only [size] at ht; omega))⟩
    | union alts =>
      rw [is_union_l]
      intro a ha
      exact is_into_union (ih a (by have := size_le_sizeList ha; simp only [size] at ht; omega)) ha
    | listNil => simp
    | _ => exact is_const_self (by simp [isConst])

theorem is_refl (t : Ty) : t.is t = .is := is_refl_aux t.size t (Nat.le_refl _)

end Ty
end Octo
