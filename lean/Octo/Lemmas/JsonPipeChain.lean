import Octo.Lemmas.JsonPipeBasic
/-! Batches submitted by a reader are consecutive line intervals (`Chain`), and the consumer's reorder queue
(`flush`, `findStart`) over any arrival order of such batches. -/
namespace Octo.JsonPipe

/-- `l` is a list of consecutive non-empty line intervals from line `a` to line `b` -/
def Chain : Nat → List Job → Nat → Prop
  | a, [], b => a = b
  | a, j :: js, b => j.first = a ∧ 1 ≤ j.n ∧ Chain (a + j.n) js b

theorem chain_le {a b : Nat} {l : List Job} (h : Chain a l b) : a ≤ b := by
  induction l generalizing a with
  | nil => simp only [Chain] at h; omega
  | cons j js ih => simp only [Chain] at h; have := ih h.2.2; omega

theorem chain_append {a b : Nat} {l : List Job} (h : Chain a l b) (p n : Nat) (hn : 1 ≤ n) :
    Chain a (l ++ [⟨p, b, n⟩]) (b + n) := by
  induction l generalizing a with
  | nil => simp only [Chain] at h; subst h; simp [Chain, hn]
  | cons j js ih => simp only [Chain, List.cons_append] at h ⊢; exact ⟨h.1, h.2.1, ih h.2.2⟩

theorem chain_mem_bounds {a b : Nat} {l : List Job} (h : Chain a l b) {j : Job} (hj : j ∈ l) :
    a ≤ j.first ∧ 1 ≤ j.n ∧ j.first + j.n ≤ b := by
  induction l generalizing a with
  | nil => simp at hj
  | cons x xs ih =>
    simp only [Chain] at h
    rcases List.mem_cons.mp hj with rfl | hj
    · have := chain_le h.2.2; omega
    · have := ih h.2.2 hj; omega

/-- two batches of a chain: the one that starts earlier ends before the other starts -/
theorem chain_order {a b : Nat} {l : List Job} (h : Chain a l b) {x y : Job} (hx : x ∈ l) (hy : y ∈ l)
    (hlt : x.first < y.first) : x.first + x.n ≤ y.first := by
  induction l generalizing a with
  | nil => simp at hx
  | cons z zs ih =>
    simp only [Chain] at h
    rcases List.mem_cons.mp hx with hxz | hxz
    · rcases List.mem_cons.mp hy with hyz | hyz
      · subst hxz; subst hyz; omega
      · subst hxz; have := chain_mem_bounds h.2.2 hyz; omega
    · rcases List.mem_cons.mp hy with hyz | hyz
      · subst hyz; have := chain_mem_bounds h.2.2 hxz; omega
      · exact ih h.2.2 hxz hyz

/-- two batches of a chain that start at the same line end at the same line -/
theorem chain_same_first {a b : Nat} {l : List Job} (h : Chain a l b) {x y : Job} (hx : x ∈ l) (hy : y ∈ l)
    (he : x.first = y.first) : x.first + x.n = y.first + y.n := by
  induction l generalizing a with
  | nil => simp at hx
  | cons z zs ih =>
    simp only [Chain] at h
    rcases List.mem_cons.mp hx with hxz | hxz
    · rcases List.mem_cons.mp hy with hyz | hyz
      · subst hxz; subst hyz; rfl
      · subst hxz; have := chain_mem_bounds h.2.2 hyz; omega
    · rcases List.mem_cons.mp hy with hyz | hyz
      · subst hyz; have := chain_mem_bounds h.2.2 hxz; omega
      · exact ih h.2.2 hxz hyz

/-- every line of the covered range lies in some batch -/
theorem chain_cover {a b : Nat} {l : List Job} (h : Chain a l b) {x : Nat} (h1 : a ≤ x) (h2 : x < b) :
    ∃ j, j ∈ l ∧ j.first ≤ x ∧ x < j.first + j.n := by
  induction l generalizing a with
  | nil => simp only [Chain] at h; omega
  | cons z zs ih =>
    simp only [Chain] at h
    by_cases hx : x < a + z.n
    · exact ⟨z, by simp, by omega, by omega⟩
    · obtain ⟨j, hj, h3, h4⟩ := ih h.2.2 (by omega)
      exact ⟨j, by simp [hj], h3, h4⟩

/-! ### `findStart` -/

theorem findStart_some {l : List Job} {s : Nat} {k : Job} {rest : List Job} (h : findStart l s = some (k, rest)) :
    k ∈ l ∧ k.first = s ∧ (∀ y, y ∈ rest → y ∈ l) ∧ (∀ y, y ∈ l → y = k ∨ y ∈ rest) ∧ l.length = rest.length + 1 := by
  induction l generalizing rest with
  | nil => simp [findStart] at h
  | cons x xs ih =>
    simp only [findStart] at h
    split at h
    · rename_i hx
      simp only [Option.some.injEq, Prod.mk.injEq] at h
      obtain ⟨rfl, rfl⟩ := h
      exact ⟨by simp, hx, fun y hy => by simp [hy], fun y hy => by simpa using hy, rfl⟩
    · split at h
      · rename_i k' r' hk
        simp only [Option.some.injEq, Prod.mk.injEq] at h
        obtain ⟨rfl, rfl⟩ := h
        obtain ⟨h1, h2, h3, h4, h5⟩ := ih hk
        refine ⟨by simp [h1], h2, fun y hy => ?_, fun y hy => ?_, by simp [h5]⟩
        · rcases List.mem_cons.mp hy with rfl | hy
          · simp
          · simp [h3 y hy]
        · rcases List.mem_cons.mp hy with rfl | hy
          · simp
          · rcases h4 y hy with rfl | h
            · simp
            · simp [h]
      · contradiction

theorem findStart_none {l : List Job} {s : Nat} (h : findStart l s = none) : ∀ y, y ∈ l → y.first ≠ s := by
  induction l with
  | nil => simp
  | cons x xs ih =>
    simp only [findStart] at h
    split at h
    · contradiction
    · rename_i hx
      split at h
      · contradiction
      · rename_i hn
        intro y hy
        rcases List.mem_cons.mp hy with rfl | hy
        · exact hx
        · exact ih hn y hy

end Octo.JsonPipe
