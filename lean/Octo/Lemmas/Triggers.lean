import Octo.Lemmas.HashCongr
import Octo.Lemmas.TrigMap
import Octo.Model.Triggers
/-!
  Laws of the trigger machines (`Octo.Model.Triggers`).

  * `GroupKey.Less` induces the equivalence "`Compare == 0` pointwise" (`keq`), from the C09 order laws.
  * the repaired `watermarkTriggerKey.Less` (`wlessFixed`) induces "same instant and `keq` keys";
    everything a trigger must satisfy is proved for an arbitrary `wl` satisfying `WLaws`, which
    `wlessFixed` does and `wlessRaw` does not.
  * the *pending contract* of a primitive trigger (`Leaf.pend`): a received key stays pending until a
    `Poll` returns it, and the `Poll` after `EndOfStreamReached` returns every pending key.
-/
namespace Octo.Trig
open Octo Octo.TMap

/-! ### `cmpList` laws (from C09's laws of `cmp` on `.list`) -/
theorem cmpList_refl (a : List Value) : cmpList a a = 0 := cmpListWith_refl cmpFloatFixed_laws a
theorem cmpList_antisymm (a b : List Value) : cmpList a b = - cmpList b a := by
  have := cmpWith_antisymm cmpFloatFixed_laws (.list a) (.list b)
  simpa [cmpWith] using this
theorem cmpList_trans (a b c : List Value) : cmpList a b ≤ 0 → cmpList b c ≤ 0 → cmpList a c ≤ 0 := by
  have := cmpWith_trans cmpFloatFixed_laws (.list a) (.list b) (.list c)
  simpa [cmpWith] using this
theorem cmpList_range (a b : List Value) : cmpList a b = -1 ∨ cmpList a b = 0 ∨ cmpList a b = 1 :=
  cmpListWith_range cmpFloatFixed_laws a b
theorem cmpList_eq_trans (a b c : List Value) (h1 : cmpList a b = 0) (h2 : cmpList b c = 0) : cmpList a c = 0 := by
  have := cmpWith_eq_trans cmpFloatFixed_laws (.list a) (.list b) (.list c)
  simp only [cmpWith] at this
  exact this h1 h2
theorem cmpList_symm {a b : List Value} (h : cmpList a b = 0) : cmpList b a = 0 := by
  have := cmpList_antisymm a b; omega

theorem keq_iff {a b : Key} : keq a b = true ↔ cmpList a b = 0 := by simp [keq]
theorem keq_refl (a : Key) : keq a a = true := by simp [keq, cmpList_refl]
theorem keq_symm {a b : Key} (h : keq a b = true) : keq b a = true := by
  rw [keq_iff] at *; exact cmpList_symm h
theorem keq_comm (a b : Key) : keq a b = keq b a := by
  cases h : keq a b
  · cases h2 : keq b a
    · rfl
    · rw [keq_symm h2] at h; cases h
  · rw [keq_symm h]
theorem keq_trans {a b c : Key} (h1 : keq a b = true) (h2 : keq b c = true) : keq a c = true := by
  rw [keq_iff] at *; exact cmpList_eq_trans a b c h1 h2

theorem keyLess_eq (a b : Key) : keyLess a b = (cmpList a b == -1) := by
  induction a generalizing b with
  | nil => cases b <;> simp [keyLess, cmpListWith]
  | cons x xs ih =>
    cases b with
    | nil => simp [keyLess, cmpListWith]
    | cons y ys =>
      simp only [keyLess, cmpListWith]
      split
      · rfl
      · exact ih ys

theorem eqv_keyLess (a b : Key) : eqv keyLess a b = keq a b := by
  simp only [eqv, keyLess_eq, keq]
  have h1 := cmpList_antisymm a b
  rcases cmpList_range a b with h | h | h <;> simp [h, h1] <;> omega

theorem keyLaws : EqvLaws keyLess where
  refl a := by rw [eqv_keyLess]; exact keq_refl a
  trans a b c := by simp only [eqv_keyLess]; exact keq_trans

/-! ### keys of equal groups carry equal instants -/
theorem cmp_zero_time_ns {a b : Value} (h : cmp a b = 0) : (timeOfValue a).ns = (timeOfValue b).ns := by
  have hr := cmpWith_zero_rank a b h
  cases a <;> cases b <;> simp only [Value.rank] at hr <;> first
    | omega
    | rfl
    | (simp only [cmpWith] at h; simpa [timeOfValue] using (cmpInt_eq_iff _ _).mp h)

theorem timeAt_congr (idx : Nat) {k k' : Key} (h : cmpList k k' = 0) : (timeAt idx k).ns = (timeAt idx k').ns := by
  induction k generalizing k' idx with
  | nil => cases k' <;> simp_all [cmpListWith, timeAt]
  | cons x xs ih =>
    cases k' with
    | nil => simp [cmpListWith] at h
    | cons y ys =>
      simp only [cmpListWith] at h
      split at h
      · rename_i hc; simp at hc; omega
      · rename_i hc
        simp at hc
        cases idx with
        | zero => simpa [timeAt] using cmp_zero_time_ns hc
        | succ i =>
          have := ih i h
          simpa [timeAt] using this

/-! ### what the watermark trigger needs of `watermarkTriggerKey.Less` -/
/-- `wl` identifies exactly the entries with equal instants and `keq` group keys, and orders by instant first -/
structure WLaws (wl : WKey → WKey → Bool) : Prop where
  eqv_iff : ∀ a b : WKey, eqv wl a b = true ↔ (a.t.ns = b.t.ns ∧ keq a.key b.key = true)
  time_mono : ∀ a b : WKey, wl a b = true → a.t.ns ≤ b.t.ns
  not_lt_time : ∀ a b : WKey, wl a b = false → b.t.ns ≤ a.t.ns

theorem WLaws.laws {wl} (W : WLaws wl) : EqvLaws wl where
  refl a := by rw [W.eqv_iff]; exact ⟨rfl, keq_refl _⟩
  trans a b c h1 h2 := by
    rw [W.eqv_iff] at *
    exact ⟨h1.1.trans h2.1, keq_trans h1.2 h2.2⟩

theorem wlessFixed_laws : WLaws wlessFixed where
  eqv_iff a b := by
    simp only [eqv, wlessFixed]
    by_cases h : a.t.ns = b.t.ns
    · have h' : b.t.ns = a.t.ns := h.symm
      have := eqv_keyLess a.key b.key
      simp only [eqv] at this
      simp [h, this]
    · have h' : ¬ b.t.ns = a.t.ns := fun e => h e.symm
      simp only [beq_iff_eq, h, h', if_false]
      simp
      omega
  time_mono a b := by
    simp only [wlessFixed]
    split
    · rename_i h; simp at h; intro _; omega
    · simp; omega
  not_lt_time a b := by
    simp only [wlessFixed]
    split
    · rename_i h; simp at h; intro _; omega
    · simp

/-- the shipped `Less` is *not* such an order: same instant, different location, different group keys -/
theorem wlessRaw_not_laws : ¬ WLaws wlessRaw := by
  intro W
  have := (W.eqv_iff ⟨⟨0, 0⟩, [.int 0]⟩ ⟨⟨0, 1⟩, [.int 1]⟩).mp (by decide)
  exact absurd this.2 (by decide)

/-! ### the pending contract of a primitive trigger -/
namespace Leaf
variable {wl : WKey → WKey → Bool}

/-- the keys a trigger still owes a firing: received and not yet returned by `Poll` -/
def pend (wl : WKey → WKey → Bool) : Leaf → Key → Bool
  | .counting _ counts _ tt, k => tt.any (keq k) || has keyLess k counts
  | .watermark idx tks _ _, k => has wl ⟨timeAt idx k, k⟩ tks
  | .eos ks _, k => has keyLess k ks

def eosFlag : Leaf → Bool
  | .counting _ _ e _ => e
  | .watermark _ _ e _ => e
  | .eos _ e => e

theorem any_keq_congr {k k' : Key} (h : keq k k' = true) (l : List Key) : l.any (keq k) = l.any (keq k') := by
  induction l with
  | nil => rfl
  | cons x xs ih =>
    simp only [List.any_cons, ih]
    congr 1
    cases h1 : keq k x <;> cases h2 : keq k' x <;> try rfl
    · rw [keq_trans h h2] at h1; cases h1
    · rw [keq_trans (keq_symm h) h1] at h2; cases h2

theorem wkey_eqv (W : WLaws wl) (idx : Nat) {k k' : Key} (h : keq k k' = true) :
    eqv wl ⟨timeAt idx k, k⟩ ⟨timeAt idx k', k'⟩ = true := by
  rw [W.eqv_iff]; exact ⟨timeAt_congr idx (keq_iff.mp h), h⟩

theorem pend_congr (W : WLaws wl) {k k' : Key} (h : keq k k' = true) (l : Leaf) : l.pend wl k = l.pend wl k' := by
  cases l with
  | counting n counts e tt =>
    simp only [pend, any_keq_congr h, has_congr keyLaws (by rw [eqv_keyLess]; exact h)]
  | watermark idx tks e wm => simp only [pend]; exact has_congr W.laws (wkey_eqv W idx h) tks
  | eos ks e => simp only [pend]; exact has_congr keyLaws (by rw [eqv_keyLess]; exact h) ks

/-- (K1) a received key is pending -/
theorem pend_keyReceived_self (W : WLaws wl) (l : Leaf) (k k' : Key) (h : keq k k' = true) :
    (l.keyReceived wl k).pend wl k' = true := by
  cases l with
  | counting n counts e tt =>
    simp only [keyReceived]
    cases hf : find keyLess k counts with
    | none =>
      simp only []
      split
      · simp [pend, keq_symm h]
      · simp [pend, has_insert keyLaws, eqv_keyLess, h]
    | some kc =>
      have hk := (find_some_mem hf).2
      rw [eqv_keyLess] at hk
      have hk' : keq kc.1 k' = true := keq_trans (keq_symm hk) h
      simp only []
      split
      · simp [pend, keq_symm hk']
      · simp [pend, has_insert keyLaws, eqv_keyLess, hk']
  | watermark idx tks e wm =>
    simp only [keyReceived, pend, has_insert W.laws, wkey_eqv W idx h, Bool.true_or]
  | eos ks e =>
    simp only [keyReceived, pend, has_insert keyLaws, eqv_keyLess, h, Bool.true_or]

/-- (K2) receiving a key leaves every pending key pending -/
theorem pend_keyReceived_mono (W : WLaws wl) (l : Leaf) (k k' : Key) (h : l.pend wl k' = true) :
    (l.keyReceived wl k).pend wl k' = true := by
  by_cases hk : keq k k' = true
  · exact pend_keyReceived_self W l k k' hk
  · cases l with
    | counting n counts e tt =>
      simp only [keyReceived]
      simp only [pend, Bool.or_eq_true] at h
      cases hf : find keyLess k counts with
      | none =>
        simp only []
        split
        · rcases h with h | h
          · simp [pend, h]
          · have := find_none_iff.mp hf
            rw [has_iff] at h
            obtain ⟨x, hx, hxe⟩ := h
            simp only [pend, erase, Bool.or_eq_true]
            right
            rw [has_iff]
            refine ⟨x, ?_, hxe⟩
            simp only [List.mem_filter, hx, true_and, Bool.not_eq_true']
            cases hq : eqv keyLess k x.1
            · rfl
            · have := this x hx; simp_all
        · rcases h with h | h
          · simp [pend, h]
          · simp [pend, has_insert keyLaws, h]
      | some kc =>
        have hkc := (find_some_mem hf).2
        rw [eqv_keyLess] at hkc
        have hk' : keq kc.1 k' = false := by
          cases hq : keq kc.1 k'
          · rfl
          · exact absurd (keq_trans hkc hq) hk
        simp only []
        split
        · rcases h with h | h
          · simp [pend, h]
          · simp [pend, has_erase keyLaws, eqv_keyLess, hk', h]
        · rcases h with h | h
          · simp [pend, h]
          · simp [pend, has_insert keyLaws, h]
    | watermark idx tks e wm =>
      simp only [pend] at h
      simp only [keyReceived, pend, has_insert W.laws, h, Bool.or_true]
    | eos ks e =>
      simp only [pend] at h
      simp only [keyReceived, pend, has_insert keyLaws, h, Bool.or_true]

theorem pend_watermarkReceived (l : Leaf) (w : Int) (k : Key) : (l.watermarkReceived w).pend wl k = l.pend wl k := by
  cases l <;> rfl

theorem pend_endOfStream (l : Leaf) (k : Key) : (l.endOfStream).pend wl k = l.pend wl k := by
  cases l <;> rfl

theorem eosFlag_endOfStream (l : Leaf) : l.endOfStream.eosFlag = true := by cases l <;> rfl

/-- (P) `Poll` either returns a pending key or leaves it pending -/
theorem pend_poll (W : WLaws wl) (l : Leaf) (k : Key) (h : l.pend wl k = true) :
    (l.poll wl).1.any (keq k) = true ∨ (l.poll wl).2.pend wl k = true := by
  cases l with
  | counting n counts e tt =>
    simp only [pend, Bool.or_eq_true] at h
    rcases h with h | h
    · left; simp [poll, h]
    · right; simp [poll, pend, h]
  | watermark idx tks e wm =>
    simp only [pend] at h
    simp only [poll, pend]
    rcases has_foldl_erase (β := Unit) W.laws (fun q : Key => (⟨timeAt idx q, q⟩ : WKey)) ⟨timeAt idx k, k⟩
      (if (!e) = true then List.map (fun x => x.1.key) (List.takeWhile (fun x => !decide (x.1.t.ns > wm)) tks)
        else List.map (fun x => x.1.key) tks) tks h with h1 | h1
    · left
      rw [List.any_eq_true] at h1 ⊢
      obtain ⟨q, hq, he⟩ := h1
      exact ⟨q, hq, keq_symm ((W.eqv_iff _ _).mp he).2⟩
    · right; exact h1
  | eos ks e =>
    simp only [pend] at h
    right
    simpa [poll, pend] using h

/-- the entries of a watermark trigger carry the instant of their own key -/
def wf : Leaf → Prop
  | .watermark idx tks _ _ => ∀ x ∈ tks, x.1.t = timeAt idx x.1.key
  | _ => True

theorem wf_keyReceived (l : Leaf) (k : Key) (h : l.wf) : (l.keyReceived wl k).wf := by
  cases l with
  | counting n counts e tt => simp only [keyReceived]; split <;> split <;> trivial
  | watermark idx tks e wm =>
    simp only [keyReceived, wf] at *
    intro x hx
    rcases mem_insert.mp hx with h1 | h1
    · rw [h1]
    · exact h x h1.1
  | eos ks e => trivial

theorem wf_watermarkReceived (l : Leaf) (w : Int) (h : l.wf) : (l.watermarkReceived w).wf := by
  cases l <;> simpa [watermarkReceived, wf] using h
theorem wf_endOfStream (l : Leaf) (h : l.wf) : l.endOfStream.wf := by
  cases l <;> simpa [endOfStream, wf] using h
theorem wf_poll (l : Leaf) (h : l.wf) : (l.poll wl).2.wf := by
  cases l with
  | counting n counts e tt => trivial
  | watermark idx tks e wm =>
    simp only [poll, wf] at *
    intro x hx
    exact h x (mem_foldl_erase (fun q : Key => (⟨timeAt idx q, q⟩ : WKey)) _ _ hx)
  | eos ks e => trivial

/-- (F) the `Poll` after `EndOfStreamReached` returns every pending key -/
theorem pend_poll_eos (W : WLaws wl) (l : Leaf) (k : Key) (hw : l.wf) (he : l.eosFlag = true)
    (h : l.pend wl k = true) : (l.poll wl).1.any (keq k) = true := by
  cases l with
  | counting n counts e tt =>
    simp only [eosFlag] at he
    simp only [pend, Bool.or_eq_true] at h
    simp only [poll, he, if_true, List.any_append, Bool.or_eq_true]
    rcases h with h | h
    · left; exact h
    · right
      rw [has_iff] at h
      obtain ⟨x, hx, hxe⟩ := h
      rw [List.any_eq_true]
      refine ⟨x.1, ?_, ?_⟩
      · simp only [keys, List.mem_map]; exact ⟨x, hx, rfl⟩
      · rw [← eqv_keyLess]; exact hxe
  | watermark idx tks e wm =>
    simp only [eosFlag] at he
    simp only [pend] at h
    simp only [poll, he, Bool.not_true, Bool.false_eq_true, if_false]
    rw [has_iff] at h
    obtain ⟨x, hx, hxe⟩ := h
    rw [List.any_eq_true]
    refine ⟨x.1.key, ?_, ?_⟩
    · simp only [List.mem_map]; exact ⟨x, hx, rfl⟩
    · exact ((W.eqv_iff _ _).mp hxe).2
  | eos ks e =>
    simp only [eosFlag] at he
    simp only [pend] at h
    simp only [poll, he, if_true]
    rw [has_iff] at h
    obtain ⟨x, hx, hxe⟩ := h
    rw [List.any_eq_true]
    refine ⟨x.1, ?_, ?_⟩
    · simp only [keys, List.mem_map]; exact ⟨x, hx, rfl⟩
    · rw [← eqv_keyLess]; exact hxe

theorem eosFlag_poll (l : Leaf) : (l.poll wl).2.eosFlag = l.eosFlag := by cases l <;> rfl

end Leaf

end Octo.Trig
