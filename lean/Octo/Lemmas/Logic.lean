import Octo.Spec.Kleene
import Octo.Model.LogicTypecheck
import Octo.Model.LogicMaybe
/-!
  Helper lemmas for C11: the lazy evaluation loops equal the loops over argument outcomes, Kleene algebra on
  `Tri`, facts about `Null.Is`, `nullCheck`, `nullCheckIdx`, `findField`.
-/
namespace Octo.Logic
open Octo

/-! ### lazy loops = loops over outcomes (evaluation is pure) -/

theorem evalArgs_eq (env : List (List Value)) (args : List Expr) :
    ∀ i, evalArgs env i args = argLoop i (evalList env args) := by
  induction args with
  | nil => intro i; simp [evalArgs, evalList, argLoop]
  | cons a rest ih =>
    intro i
    simp only [evalArgs, evalList]
    cases h : eval env a <;> simp [argLoop, ih]

theorem evalAnd_eq (env : List (List Value)) (args : List Expr) :
    ∀ i ne, evalAnd env i ne args = andLoop i ne (evalList env args) := by
  induction args with
  | nil => intro i ne; simp [evalAnd, evalList, andLoop]
  | cons a rest ih =>
    intro i ne
    simp only [evalAnd, evalList]
    cases h : eval env a <;> simp [andLoop, ih]

theorem evalOr_eq (env : List (List Value)) (args : List Expr) :
    ∀ i ne, evalOr env i ne args = orLoop i ne (evalList env args) := by
  induction args with
  | nil => intro i ne; simp [evalOr, evalList, orLoop]
  | cons a rest ih =>
    intro i ne
    simp only [evalOr, evalList]
    cases h : eval env a <;> simp [orLoop, ih]

theorem evalList_const (env : List (List Value)) (vs : List Value) :
    evalList env (vs.map Expr.const) = vs.map Res.val := by
  induction vs with
  | nil => rfl
  | cons v vs ih => simp [evalList, eval, ih]

/-! ### Kleene algebra -/

theorem and3_none_false : and3 none (some false) = some false := rfl
theorem and3_false_left (t : Tri) : and3 (some false) t = some false := by
  cases t with
  | none => rfl
  | some b => cases b <;> rfl
theorem and3_true_left (t : Tri) : and3 (some true) t = t := by
  cases t with
  | none => rfl
  | some b => cases b <;> rfl
theorem and3_none_idem (t : Tri) : and3 none (and3 none t) = and3 none t := by
  cases t with
  | none => rfl
  | some b => cases b <;> rfl
theorem or3_true_left (t : Tri) : or3 (some true) t = some true := by
  cases t with
  | none => rfl
  | some b => cases b <;> rfl
theorem or3_false_left (t : Tri) : or3 (some false) t = t := by
  cases t with
  | none => rfl
  | some b => cases b <;> rfl
theorem or3_none_idem (t : Tri) : or3 none (or3 none t) = or3 none t := by
  cases t with
  | none => rfl
  | some b => cases b <;> rfl
theorem and3_comm (a b : Tri) : and3 a b = and3 b a := by
  rcases a with _ | _ | _ <;> rcases b with _ | _ | _ <;> rfl
theorem or3_comm (a b : Tri) : or3 a b = or3 b a := by
  rcases a with _ | _ | _ <;> rcases b with _ | _ | _ <;> rfl
theorem and3_assoc (a b c : Tri) : and3 (and3 a b) c = and3 a (and3 b c) := by
  rcases a with _ | _ | _ <;> rcases b with _ | _ | _ <;> rcases c with _ | _ | _ <;> rfl
theorem or3_assoc (a b c : Tri) : or3 (or3 a b) c = or3 a (or3 b c) := by
  rcases a with _ | _ | _ <;> rcases b with _ | _ | _ <;> rcases c with _ | _ | _ <;> rfl
/-- De Morgan -/
theorem not3_and3 (a b : Tri) : not3 (and3 a b) = or3 (not3 a) (not3 b) := by
  rcases a with _ | _ | _ <;> rcases b with _ | _ | _ <;> rfl
theorem not3_or3 (a b : Tri) : not3 (or3 a b) = and3 (not3 a) (not3 b) := by
  rcases a with _ | _ | _ <;> rcases b with _ | _ | _ <;> rfl
theorem not3_not3 (a : Tri) : not3 (not3 a) = a := by
  rcases a with _ | _ | _ <;> rfl
theorem and3_eq_none {a b : Tri} (h : and3 a b = none) : a = none ∨ b = none := by
  rcases a with _ | _ | _ <;> rcases b with _ | _ | _ <;> simp [and3] at h ⊢
theorem or3_eq_none {a b : Tri} (h : or3 a b = none) : a = none ∨ b = none := by
  rcases a with _ | _ | _ <;> rcases b with _ | _ | _ <;> simp [or3] at h ⊢

theorem toValue_none : Tri.toValue none = Value.null := rfl
theorem toValue_true : Tri.toValue (some true) = Value.bool true := rfl
theorem toValue_false : Tri.toValue (some false) = Value.bool false := rfl

@[simp] theorem isNull_toValue (t : Tri) : isNull t.toValue = t.isNone := by
  rcases t with _ | _ | _ <;> rfl
@[simp] theorem boolField_toValue (t : Tri) : boolField t.toValue = (t == some true) := by
  rcases t with _ | _ | _ <;> rfl

theorem andLoop_null (i : Nat) (ne : Bool) (rest : List Res) :
    andLoop i ne (.val .null :: rest) = andLoop (i + 1) true rest := by simp [andLoop, isNull]
theorem andLoop_false (i : Nat) (ne : Bool) (rest : List Res) :
    andLoop i ne (.val (.bool false) :: rest) = .val (.bool false) := by simp [andLoop, isNull, boolField]
theorem andLoop_true (i : Nat) (ne : Bool) (rest : List Res) :
    andLoop i ne (.val (.bool true) :: rest) = andLoop (i + 1) ne rest := by simp [andLoop, isNull, boolField]
theorem orLoop_null (i : Nat) (ne : Bool) (rest : List Res) :
    orLoop i ne (.val .null :: rest) = orLoop (i + 1) true rest := by simp [orLoop, isNull, boolField]
theorem orLoop_false (i : Nat) (ne : Bool) (rest : List Res) :
    orLoop i ne (.val (.bool false) :: rest) = orLoop (i + 1) ne rest := by simp [orLoop, isNull, boolField]
theorem orLoop_true (i : Nat) (ne : Bool) (rest : List Res) :
    orLoop i ne (.val (.bool true) :: rest) = .val (.bool true) := by simp [orLoop, boolField]

/-- the AND loop on truth values, from any loop state -/
theorem andLoop_tri (ts : List Tri) : ∀ i ne,
    andLoop i ne (ts.map fun t => Res.val t.toValue) =
      .val (Tri.toValue (if ne then and3 none (kAnd ts) else kAnd ts)) := by
  induction ts with
  | nil => intro i ne; cases ne <;> rfl
  | cons t ts ih =>
    intro i ne
    rw [List.map_cons]
    have hk : kAnd (t :: ts) = and3 t (kAnd ts) := rfl
    rw [hk]
    rcases t with _ | _ | _
    · show andLoop i ne (.val .null :: _) = _
      rw [andLoop_null, ih]
      cases ne <;> simp [and3_none_idem]
    · show andLoop i ne (.val (.bool false) :: _) = _
      rw [andLoop_false, and3_false_left]
      cases ne <;> rfl
    · show andLoop i ne (.val (.bool true) :: _) = _
      rw [andLoop_true, ih, and3_true_left]

/-- the OR loop on truth values -/
theorem orLoop_tri (ts : List Tri) : ∀ i ne,
    orLoop i ne (ts.map fun t => Res.val t.toValue) =
      .val (Tri.toValue (if ne then or3 none (kOr ts) else kOr ts)) := by
  induction ts with
  | nil => intro i ne; cases ne <;> rfl
  | cons t ts ih =>
    intro i ne
    rw [List.map_cons]
    have hk : kOr (t :: ts) = or3 t (kOr ts) := rfl
    rw [hk]
    rcases t with _ | _ | _
    · show orLoop i ne (.val .null :: _) = _
      rw [orLoop_null, ih]
      cases ne <;> simp [or3_none_idem]
    · show orLoop i ne (.val (.bool false) :: _) = _
      rw [orLoop_false, ih, or3_false_left]
    · show orLoop i ne (.val (.bool true) :: _) = _
      rw [orLoop_true, or3_true_left]
      cases ne <;> rfl

/-! ### `Null.Is` -/

mutual
theorem nullRel_le (t : Ty) : nullRel t ≤ 2 := by
  cases t with
  | union alts => simp only [nullRel]; exact nullRelMax_le alts 0 (by decide)
  | _ => simp [nullRel, Rel.is, Rel.isnt]
theorem nullRelMax_le (ts : List Ty) (out : Nat) (h : out ≤ 2) : nullRelMax out ts ≤ 2 := by
  cases ts with
  | nil => simpa [nullRelMax] using h
  | cons t ts =>
    simp only [nullRelMax]
    apply nullRelMax_le ts
    have := nullRel_le t
    split <;> omega
end

theorem nullRelMax_is (ts : List Ty) : nullRelMax 2 ts = 2 := by
  induction ts with
  | nil => rfl
  | cons t ts ih =>
    simp only [nullRelMax]
    have := nullRel_le t
    have h : ¬ nullRel t > 2 := by omega
    simp [h, ih]

/-- the maximum over the alternatives is `Is` iff it started at `Is` or some alternative is `Is` -/
theorem nullRelMax_eq_is (ts : List Ty) : ∀ out, out ≤ 2 →
    (nullRelMax out ts = 2 ↔ out = 2 ∨ ∃ t ∈ ts, nullRel t = 2) := by
  induction ts with
  | nil => intro out _; simp [nullRelMax]
  | cons t ts ih =>
    intro out ho
    have ht := nullRel_le t
    simp only [nullRelMax]
    split
    · rename_i hgt
      rw [ih _ ht]
      constructor
      · rintro (h | ⟨u, hu, h⟩)
        · exact Or.inr ⟨t, by simp, h⟩
        · exact Or.inr ⟨u, by simp [hu], h⟩
      · rintro (h | ⟨u, hu, h⟩)
        · omega
        · simp only [List.mem_cons] at hu
          rcases hu with rfl | hu
          · exact Or.inl h
          · exact Or.inr ⟨u, hu, h⟩
    · rename_i hgt
      rw [ih _ ho]
      constructor
      · rintro (h | ⟨u, hu, h⟩)
        · exact Or.inl h
        · exact Or.inr ⟨u, by simp [hu], h⟩
      · rintro (h | ⟨u, hu, h⟩)
        · exact Or.inl h
        · simp only [List.mem_cons] at hu
          rcases hu with rfl | hu
          · left; omega
          · exact Or.inr ⟨u, hu, h⟩

theorem nullIs_union (alts : List Ty) : nullIs (.union alts) = true ↔ ∃ t ∈ alts, nullIs t = true := by
  simp only [nullIs, nullRel, Rel.is, beq_iff_eq]
  rw [nullRelMax_eq_is alts 0 (by decide)]
  simp

@[simp] theorem nullIs_null : nullIs .null = true := rfl
@[simp] theorem nullIs_any : nullIs .any = true := rfl
@[simp] theorem nullIs_bool : nullIs .bool = false := rfl
@[simp] theorem nullIs_int : nullIs .int = false := rfl
@[simp] theorem nullIs_str : nullIs .str = false := rfl

/-! ### the spec notion: a type that NULL conforms to admits NULL as the code decides it -/
mutual
theorem conforms_null (ty : Ty) (h : conforms ty .null = true) : nullIs ty = true := by
  cases ty with
  | union alts =>
    rw [nullIs_union]
    simp only [conforms] at h
    exact conformsAny_null alts h
  | any => rfl
  | null => rfl
  | _ => simp [conforms] at h
theorem conformsAny_null (alts : List Ty) (h : conformsAny alts .null = true) :
    ∃ t ∈ alts, nullIs t = true := by
  cases alts with
  | nil => simp [conformsAny] at h
  | cons t ts =>
    simp only [conformsAny, Bool.or_eq_true] at h
    rcases h with h | h
    · exact ⟨t, by simp, conforms_null t h⟩
    · obtain ⟨u, hu, hn⟩ := conformsAny_null ts h
      exact ⟨u, by simp [hu], hn⟩
end

/-! conversely: when the code says a type admits NULL, NULL conforms to it -/
mutual
theorem null_conforms (ty : Ty) (h : nullIs ty = true) : conforms ty .null = true := by
  cases ty with
  | union alts =>
    rw [nullIs_union] at h
    simp only [conforms]
    exact null_conformsAny alts h
  | any => rfl
  | null => rfl
  | _ => simp [nullIs, nullRel, Rel.is, Rel.isnt] at h
theorem null_conformsAny (alts : List Ty) (h : ∃ t ∈ alts, nullIs t = true) :
    conformsAny alts .null = true := by
  cases alts with
  | nil => simp at h
  | cons t ts =>
    simp only [conformsAny, Bool.or_eq_true]
    by_cases hnt : nullIs t = true
    · exact Or.inl (null_conforms t hnt)
    · refine Or.inr (null_conformsAny ts ?_)
      obtain ⟨u, hu, hn⟩ := h
      simp only [List.mem_cons] at hu
      rcases hu with heq | hu
      · rw [heq] at hn; exact absurd hn hnt
      · exact ⟨u, hu, hn⟩
end

/-! ### `nullCheck` / `nullCheckIdx` -/

theorem mem_nullCheckIdx (args : List PExpr) : ∀ i j,
    j ∈ nullCheckIdx i args ↔ ∃ m, j = i + m ∧ ∃ a, args[m]? = some a ∧ nullIs a.ty = true := by
  induction args with
  | nil => intro i j; simp [nullCheckIdx]
  | cons a rest ih =>
    intro i j
    simp only [nullCheckIdx]
    constructor
    · intro h
      by_cases hn : nullIs a.ty = true
      · simp only [hn, if_true, List.mem_cons] at h
        rcases h with rfl | h
        · exact ⟨0, by simp, a, by simp, hn⟩
        · obtain ⟨m, rfl, b, hb, hbn⟩ := (ih (i + 1) j).1 h
          exact ⟨m + 1, by omega, b, by simpa using hb, hbn⟩
      · simp only [hn] at h
        obtain ⟨m, rfl, b, hb, hbn⟩ := (ih (i + 1) j).1 (by simpa using h)
        exact ⟨m + 1, by omega, b, by simpa using hb, hbn⟩
    · rintro ⟨m, rfl, b, hb, hbn⟩
      cases m with
      | zero =>
        simp only [List.getElem?_cons_zero, Option.some.injEq] at hb
        subst hb
        simp [hbn]
      | succ m =>
        simp only [List.getElem?_cons_succ] at hb
        have : i + (m + 1) ∈ nullCheckIdx (i + 1) rest := (ih (i + 1) _).2 ⟨m, by omega, b, hb, hbn⟩
        split
        · exact List.mem_cons_of_mem _ this
        · exact this

/-- a checked NULL makes the call NULL, provided the checked positions exist -/
theorem nullCheck_hit (vs : List Value) : ∀ ncs : List Nat,
    (∀ j ∈ ncs, j < vs.length) → (∃ j ∈ ncs, vs[j]? = some Value.null) →
    nullCheck vs ncs = some (.val .null) := by
  intro ncs
  induction ncs with
  | nil => intro _ h; simp at h
  | cons j rest ih =>
    intro hr hex
    have hj : j < vs.length := hr j (by simp)
    simp only [nullCheck]
    have : vs[j]? = some vs[j] := by simp [hj]
    rw [this]
    simp only
    by_cases hn : isNull vs[j] = true
    · simp [hn]
    · simp only [hn]
      apply ih (fun k hk => hr k (List.mem_cons_of_mem _ hk))
      obtain ⟨k, hk, hv⟩ := hex
      simp only [List.mem_cons] at hk
      rcases hk with rfl | hk
      · rw [this] at hv
        simp only [Option.some.injEq] at hv
        rw [hv] at hn
        simp [isNull] at hn
      · exact ⟨k, hk, hv⟩

/-- no NULL among the argument values: the checks pass, whatever the (in-range) indices are -/
theorem nullCheck_miss (vs : List Value) : ∀ ncs : List Nat,
    (∀ j ∈ ncs, j < vs.length) → (∀ v ∈ vs, isNull v = false) → nullCheck vs ncs = none := by
  intro ncs
  induction ncs with
  | nil => intro _ _; rfl
  | cons j rest ih =>
    intro hr hv
    have hj : j < vs.length := hr j (by simp)
    simp only [nullCheck]
    have : vs[j]? = some vs[j] := by simp [hj]
    rw [this]
    simp only
    have : isNull vs[j] = false := hv _ (List.getElem_mem hj)
    simp only [this]
    exact ih (fun k hk => hr k (List.mem_cons_of_mem _ hk)) hv

/-! ### variables -/

theorem findField_range (name : Nat) (fields : List Nat) : ∀ k i,
    findField name k fields = some i → k ≤ i ∧ i < k + fields.length := by
  induction fields with
  | nil => intro k i h; simp [findField] at h
  | cons f fs ih =>
    intro k i h
    simp only [findField] at h
    split at h
    · simp only [Option.some.injEq] at h; subst h; simp
    · have := ih (k + 1) i h
      simp only [List.length_cons]
      omega

theorem toP_ty (t : TTree) : t.toP.ty = t.ty := by
  cases t <;> rfl

theorem and3_true_right (t : Tri) : and3 t (some true) = t := by
  rcases t with _ | _ | _ <;> rfl
theorem or3_false_right (t : Tri) : or3 t (some false) = t := by
  rcases t with _ | _ | _ <;> rfl

theorem findField_range' (name : Nat) : ∀ (len s j : Nat), s ≤ name → name < s + len →
    findField name j (List.range' s len) = some (j + (name - s)) := by
  intro len
  induction len with
  | zero => intro s j h1 h2; omega
  | succ len ih =>
    intro s j h1 h2
    simp only [List.range'_succ, findField]
    by_cases h : s = name
    · subst h; simp
    · have : (s == name) = false := by simp [h]
      simp only [this]
      rw [ih (s + 1) (j + 1) (by omega) (by omega)]
      simp only [Bool.false_eq_true, if_false, Option.some.injEq]; omega

theorem findField_of_range (name k : Nat) (h : name < k) : findField name 0 (List.range k) = some name := by
  rw [List.range_eq_range', findField_range' name k 0 0 (by omega) (by omega)]
  simp

theorem nullIs_toTy (bt : BTy) : nullIs bt.toTy = bt.nullable := by
  cases bt <;> decide

/-! ### moved from Props/C11: helper lemmas -/

theorem argLoop_vals (vs : List Value) : ∀ i, argLoop i (vs.map Res.val) = .ok vs := by
  induction vs with
  | nil => intro i; rfl
  | cons v vs ih => intro i; simp [argLoop, ih]

theorem argLoop_err (pre : List Value) (e : Err) (post : List Res) : ∀ i,
    argLoop i (pre.map Res.val ++ .err e :: post) = .error (.err (e.wrap (.fnArg (i + pre.length)))) := by
  induction pre with
  | nil => intro i; simp [argLoop]
  | cons v vs ih =>
    intro i
    simp only [List.map_cons, List.cons_append, argLoop, ih (i + 1), List.length_cons]
    congr 4; omega

theorem evalList_length (env : List (List Value)) (xs : List Expr) : (evalList env xs).length = xs.length := by
  induction xs with
  | nil => rfl
  | cons a rest ih => simp [evalList, ih]

theorem materializeList_length (schema : List (List Nat)) (args : List PExpr) :
    (materializeList schema args).length = args.length := by
  induction args with
  | nil => rfl
  | cons a rest ih => simp [materializeList, ih]

/-- what `Materialize` + `FunctionCall.Evaluate` do with a call whose arguments have all been evaluated -/
theorem eval_call (env : List (List Value)) (schema : List (List Nat)) (ty : Ty) (d : Desc) (args : List PExpr)
    (vs : List Value) (h : evalList env (materializeList schema args) = vs.map Res.val) :
    eval env (materialize schema (.call ty d args)) = applyFn d.fn (nullCheckIndices d args) vs := by
  simp only [materialize, eval]
  rw [evalArgs_eq, h, argLoop_vals]

theorem filterRun_val (pred : Expr) (outer : List (List Value)) (r : Rec) (rest : List Msg) (v : Value)
    (h : eval (r.vals :: outer) pred = .val v) :
    filterRun pred outer (.data r :: rest) =
      if isTrueRes (.val v) then (.data r :: (filterRun pred outer rest).1, (filterRun pred outer rest).2)
      else filterRun pred outer rest := by
  simp only [filterRun, h]
  cases v with
  | bool b => cases b <;> simp [isTrueRes]
  | _ => simp [isTrueRes]

theorem triOf_toValue (t : Tri) : triOf t.toValue = t := by
  rcases t with _ | _ | _ <;> rfl

theorem cmpInt_lt (x y : Int) : (cmpInt x y < 0) ↔ x < y := by unfold cmpInt; split <;> (try split) <;> omega

theorem cmpInt_le (x y : Int) : (cmpInt x y ≤ 0) ↔ x ≤ y := by unfold cmpInt; split <;> (try split) <;> omega

theorem cmpInt_ge (x y : Int) : (cmpInt x y ≥ 0) ↔ x ≥ y := by unfold cmpInt; split <;> (try split) <;> omega

theorem cmpInt_gt (x y : Int) : (cmpInt x y > 0) ↔ x > y := by unfold cmpInt; split <;> (try split) <;> omega

theorem cmpInt_eq (x y : Int) : (cmpInt x y = 0) ↔ x = y := by unfold cmpInt; split <;> (try split) <;> omega

theorem conforms_null_nullable (l : ITy) (h : conforms l.toTy .null = true) : l.nullable = true := by
  cases l <;> first | rfl | (simp [ITy.toTy, conforms] at h)

theorem typecheckCmp_nullable (op : CmpOp) (l r : ITy) (bt : BTy) (h : typecheckCmp op l r = some bt)
    (hn : l.nullable = true ∨ r.nullable = true) : bt.nullable = true := by
  revert h hn
  cases l <;> cases r <;> cases op <;> cases bt <;> decide

/-- a variable bound by the record's schema evaluates to the record's column -/
theorem eval_var (names : List Nat) (tris : List Tri) (outer : List (List Value)) (souter : List (List Nat))
    (hlen : names.length = tris.length) (ty : Ty) (n : Nat) (hb : (findField n 0 names).isSome = true) :
    eval (tris.map Tri.toValue :: outer) (materialize (names :: souter) (.var ty n)) =
      .val (envOf names tris n).toValue := by
  obtain ⟨i, hi⟩ := Option.isSome_iff_exists.1 hb
  have hr := findField_range n names 0 i hi
  have hlt : i < tris.length := by omega
  simp only [materialize, resolveVar, hi, eval, lookupVar, envOf]
  simp [hlt]

/-! ### flat types and the Maybe pass -/

theorem nullIs_toTy_mem (s : FTy) (h : 0 ∈ s) : nullIs (FTy.toTy s) = true := by
  match s, h with
  | [a], h =>
    simp only [List.mem_singleton] at h
    subst h
    rfl
  | [], h => simp at h
  | a :: b :: rest, h =>
    show nullIs (.union ((a :: b :: rest).map primTy)) = true
    rw [nullIs_union]
    exact ⟨primTy 0, List.mem_map.2 ⟨0, h, rfl⟩, rfl⟩

theorem mem_assertTyF (p : Nat) (s : FTy) (hp : p ≠ anyId) (hp0 : p ≠ 0) (h : 0 ∈ s) : 0 ∈ assertTyF true p s := by
  have hp' : (p != anyId) = true := by simpa using hp
  have hp0' : (p != 0) = true := by simpa using hp0
  simp only [assertTyF, targetF, Bool.true_and, hp', hp0', if_true, List.mem_filter]
  exact ⟨h, by simp⟩

theorem isF_any (s : FTy) : isF s anyId = 2 := by simp [isF]

/-- whichever way the argument is passed on (bare column or wrapped in the Maybe pass's assertion), a column whose
    static type admits NULL yields an argument expression whose static type admits NULL -/
theorem argP_nullable (p : Nat) (s : FTy) (i : Nat) (hp0 : p ≠ 0) (h : 0 ∈ s) :
    nullIs (argP true p s i).ty = true := by
  unfold argP
  split
  · rename_i hm
    have hp : p ≠ anyId := by
      intro he; subst he; rw [isF_any] at hm; simp at hm
    exact nullIs_toTy_mem _ (mem_assertTyF p s hp hp0 h)
  · exact nullIs_toTy_mem s h

theorem buildArgs_get (strict : Bool) : ∀ (ps : List Nat) (ss : List FTy) (j i : Nat) (p : Nat) (s : FTy),
    ps[i]? = some p → ss[i]? = some s → (buildArgs strict ps ss j)[i]? = some (argP strict p s (j + i)) := by
  intro ps
  induction ps with
  | nil => intro ss j i p s hp; simp at hp
  | cons q qs ih =>
    intro ss j i p s hp hs
    cases ss with
    | nil => simp at hs
    | cons t ts =>
      cases i with
      | zero =>
        simp only [List.getElem?_cons_zero, Option.some.injEq] at hp hs
        subst hp hs
        simp [buildArgs]
      | succ i =>
        simp only [List.getElem?_cons_succ] at hp hs
        simp only [buildArgs, List.getElem?_cons_succ]
        rw [ih ts (j + 1) i p s hp hs]
        congr 2; omega

/-- the assertion the Maybe pass inserts for a strict descriptor lets NULL through (its target is `declared | NULL`) -/
theorem expectedIds_target_null (p : Nat) (hp : p ≠ anyId) (hp0 : p ≠ 0) :
    (expectedIds (targetF true p).toTy).contains 0 = true := by
  have hp' : (p != anyId) = true := by simpa using hp
  have hp0' : (p != 0) = true := by simpa using hp0
  simp [targetF, hp', hp0', FTy.toTy, expectedIds, primTy, Ty.id]

end Octo.Logic
