import Octo.Lemmas.JsonPipeReach
/-! Every action strictly decreases `measure` (in states satisfying the invariants): all schedules are finite. -/
namespace Octo.JsonPipe

theorem sumTo_congr {f g : Nat → Nat} (n : Nat) (h : ∀ q, q < n → g q = f q) : sumTo g n = sumTo f n := by
  induction n with
  | zero => rfl
  | succ n ih => simp only [sumTo]; rw [ih (fun q hq => h q (by omega)), h n (by omega)]

theorem sumTo_update (f g : Nat → Nat) (n p : Nat) (hp : p < n) (h : ∀ q, q ≠ p → g q = f q) :
    sumTo g n + f p = sumTo f n + g p := by
  induction n with
  | zero => omega
  | succ n ih =>
    simp only [sumTo]
    by_cases hpn : p = n
    · subst hpn
      rw [sumTo_congr p (fun q hq => h q (by omega))]; omega
    · have := ih (by omega)
      rw [h n (fun e => hpn e.symm)]; omega

theorem measure_setPipe (s : State) {p : Nat} (hp : p < s.np) (P' : Pipe) :
    measure (s.setPipe p P') + pipeMeasure (s.pipe p) = measure s + pipeMeasure P' := by
  have := sumTo_update (fun q => pipeMeasure (s.pipe q)) (fun q => pipeMeasure ((s.setPipe p P').pipe q)) s.np p hp
    (fun q hq => by simp [setPipe_pipe_ne s P' hq])
  simp only [measure, setPipe_np, setPipe_jobs, setPipe_worker, setPipe_nw, setPipe_pipe_same] at *
  omega

theorem lt_of_pipeMeasure_lt (s : State) {p : Nat} (hp : p < s.np) (P' : Pipe)
    (h : pipeMeasure P' < pipeMeasure (s.pipe p)) : measure (s.setPipe p P') < measure s := by
  have := measure_setPipe s hp P'; omega

theorem measure_jobs (t : State) (J : List Job) :
    measure ⟨t.np, t.nw, t.pipe, J, t.worker⟩ + 5 * t.jobs.length = measure t + 5 * J.length := by
  simp only [measure]; omega

theorem measure_setPipe_jobs_lt (s : State) {p : Nat} (hp : p < s.np) (P' : Pipe) (J : List Job)
    (h : pipeMeasure P' + 5 * J.length < pipeMeasure (s.pipe p) + 5 * s.jobs.length) :
    measure ⟨(s.setPipe p P').np, (s.setPipe p P').nw, (s.setPipe p P').pipe, J, (s.setPipe p P').worker⟩ < measure s := by
  have h1 := measure_jobs (s.setPipe p P') J
  have h2 := measure_setPipe s hp P'
  simp only [setPipe_jobs] at h1
  omega

theorem measure_setWorker (s : State) {w : Nat} (hw : w < s.nw) (x : Option Job) :
    measure (s.setWorker w x) + 4 * someCnt (s.worker w) = measure s + 4 * someCnt x := by
  have h2 := busy_update s.worker s.nw w x hw
  simp only [measure, State.setWorker] at *
  omega

theorem procBatch_measure (P : Pipe) (j : Job) (h : P.cpc = .proc j) : pipeMeasure (procBatch P j) < pipeMeasure P := by
  obtain ⟨fr, hc⟩ := procBatch_frame P j
  simp only [pipeMeasure, rMeasure, cMeasure, rMeasureOf, cMeasureOf, fr.rpc, fr.unread, fr.out, fr.parentCancelled, fr.doneNil, h, fr.batch]
  rcases hc with hc | hc <;> simp only [hc, cMeasureOf] <;> omega

theorem step_measure {s s' : State} {a : Action} (ht : TokInv s) (hp : ∀ p, p < s.np → PInv (s.pipe p))
    (hs : step s a = some s') : measure s' < measure s := by
  cases a with
  | rTok p =>
    simp only [step] at hs
    split at hs
    · rename_i hg; injection hs with hs; subst hs
      apply lt_of_pipeMeasure_lt s hg.1
      simp only [pipeMeasure, rMeasure, cMeasure, rMeasureOf, cMeasureOf, hg.2.1]; omega
    · contradiction
  | rStop p =>
    simp only [step] at hs
    split at hs
    · rename_i hg; injection hs with hs; subst hs
      apply lt_of_pipeMeasure_lt s hg.1
      simp only [pipeMeasure, rMeasure, cMeasure, rMeasureOf, cMeasureOf, hg.2.1]; omega
    · contradiction
  | rSub p =>
    simp only [step] at hs
    split at hs
    · rename_i hg; injection hs with hs; subst hs
      have hpi := hp p hg.1
      have hu := hpi.unreadPos (Or.inr (Or.inl hg.2.1))
      have hb := hpi.batchPos
      apply measure_setPipe_jobs_lt s hg.1
      simp only [pipeMeasure, rMeasure, cMeasure, rMeasureOf, cMeasureOf, hg.2.1, Pipe.cur, List.length_append, List.length_singleton]
      omega
    · contradiction
  | rWrite p =>
    simp only [step] at hs
    split at hs
    · rename_i hg; injection hs with hs; subst hs
      apply lt_of_pipeMeasure_lt s hg.1
      by_cases h0 : (s.pipe p).unread - min (s.pipe p).batch (s.pipe p).unread = 0 <;>
        simp only [pipeMeasure, rMeasure, cMeasure, rMeasureOf, cMeasureOf, hg.2, h0, if_true, if_false, ite_true, ite_false, Pipe.cur] <;> omega
    · contradiction
  | rDone p =>
    simp only [step] at hs
    split at hs
    · rename_i hg; injection hs with hs; subst hs
      apply lt_of_pipeMeasure_lt s hg.1
      simp only [pipeMeasure, rMeasure, cMeasure, rMeasureOf, cMeasureOf, hg.2]; omega
    · contradiction
  | wTake w k =>
    simp only [step] at hs
    split at hs
    · rename_i hg
      split at hs
      · rename_i j rest hta; injection hs with hs; subst hs
        have h1 := takeAt_length hta
        have h2 := measure_setWorker s hg.1 (some j)
        have h3 := measure_jobs (s.setWorker w (some j)) rest
        simp only [hg.2, someCnt, setWorker_jobs] at h2 h3
        omega
      · contradiction
    · contradiction
  | wSend w =>
    simp only [step] at hs
    split at hs
    · rename_i j hj
      split at hs
      · rename_i hg; injection hs with hs; subst hs
        have hjp := ht.workersValid w j hj
        have h2 := measure_setWorker s hg.1 none
        simp only [hj, someCnt] at h2
        have h3 := measure_setPipe (s.setWorker w none) (p := j.pipe) hjp { s.pipe j.pipe with out := (s.pipe j.pipe).out ++ [j] }
        have h4 : pipeMeasure { s.pipe j.pipe with out := (s.pipe j.pipe).out ++ [j] } = pipeMeasure (s.pipe j.pipe) + 3 := by
          simp only [pipeMeasure, rMeasure, cMeasure, List.length_append, List.length_singleton]; omega
        rw [h4] at h3
        simp only [setWorker_pipe] at h3
        omega
      · contradiction
    · contradiction
  | wDrop w =>
    simp only [step] at hs
    split at hs
    · rename_i j hj
      split at hs
      · rename_i hg; injection hs with hs; subst hs
        have h2 := measure_setWorker s hg.1 none
        simp only [hj, someCnt] at h2
        omega
      · contradiction
    · contradiction
  | cRecv p k =>
    simp only [step] at hs
    split at hs
    · rename_i hg
      split at hs
      · rename_i j rest hta; injection hs with hs; subst hs
        have h1 := takeAt_length hta
        apply lt_of_pipeMeasure_lt s hg.1
        simp only [pipeMeasure, rMeasure, cMeasure, rMeasureOf, cMeasureOf, hg.2, h1]; omega
      · contradiction
    · contradiction
  | cTok p =>
    simp only [step] at hs
    split at hs
    · rename_i j hj
      split at hs
      · rename_i hg; injection hs with hs; subst hs
        apply lt_of_pipeMeasure_lt s hg.1
        simp only [pipeMeasure, rMeasure, cMeasure, rMeasureOf, cMeasureOf, hj]; omega
      · contradiction
    · contradiction
  | cProc p =>
    simp only [step] at hs
    split at hs
    · rename_i j hj
      split at hs
      · rename_i hg; injection hs with hs; subst hs
        exact lt_of_pipeMeasure_lt s hg _ (procBatch_measure (s.pipe p) j hj)
      · contradiction
    · contradiction
  | cDone p =>
    simp only [step] at hs
    split at hs
    · rename_i hg
      split at hs
      · injection hs with hs; subst hs
        apply lt_of_pipeMeasure_lt s hg.1
        simp only [pipeMeasure, rMeasure, cMeasure, rMeasureOf, cMeasureOf, hg.2.1, hg.2.2]; simp
      · injection hs with hs; subst hs
        apply lt_of_pipeMeasure_lt s hg.1
        split <;> simp only [pipeMeasure, rMeasure, cMeasure, rMeasureOf, cMeasureOf, hg.2.1, hg.2.2] <;> simp <;> omega
      · contradiction
    · contradiction
  | cCtx p =>
    simp only [step] at hs
    split at hs
    · rename_i hg; injection hs with hs; subst hs
      apply lt_of_pipeMeasure_lt s hg.1
      simp only [pipeMeasure, rMeasure, cMeasure, rMeasureOf, cMeasureOf, hg.2.1]; omega
    · contradiction
  | cCancel p =>
    simp only [step] at hs
    split at hs
    · rename_i hg; injection hs with hs; subst hs
      apply lt_of_pipeMeasure_lt s hg.1
      simp only [pipeMeasure, rMeasure, cMeasure, rMeasureOf, cMeasureOf, hg.2]; omega
    · contradiction
  | pCancel p =>
    simp only [step] at hs
    split at hs
    · rename_i hg; injection hs with hs; subst hs
      apply lt_of_pipeMeasure_lt s hg.1
      simp only [pipeMeasure, rMeasure, cMeasure, rMeasureOf, cMeasureOf, hg.2]; simp
    · contradiction
  | rTrunc p u =>
    simp only [step] at hs
    split at hs
    · rename_i hg; injection hs with hs; subst hs
      apply lt_of_pipeMeasure_lt s hg.1
      obtain ⟨_, _, hlt, hc⟩ := hg
      have hb := (hp p ‹_›).batchPos
      simp only [pipeMeasure, rMeasure, cMeasure]
      rcases hc with hc | ⟨hc | hc, hcur⟩
      · by_cases hu : u = 0
        · simp only [hc, hu, and_self, if_true, rMeasureOf]; omega
        · simp only [hc, hu, and_false, if_false, rMeasureOf]; omega
      · simp only [hc, rMeasureOf]; simp; omega
      · simp only [Pipe.cur] at hcur
        simp only [hc, rMeasureOf]; simp; omega
    · contradiction

end Octo.JsonPipe
