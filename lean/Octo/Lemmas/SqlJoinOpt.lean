import Octo.Lemmas.SqlJoinRel
/-!
  The optimizer rules that move predicates (C02): every rule, applied bottom-up anywhere in a plan, and any
  number of rounds of all of them, leave the relational reading `planBag` of the plan unchanged — as the same
  list of rows.  (`optimize_planBag`)
-/
namespace Octo.SqlJoin
open Octo Octo.Sql Octo.Join

/-! ### small list facts -/

theorem filter_true' (X : List VRow) : (X.filter fun _ => true) = X := by
  induction X with
  | nil => rfl
  | cons x X ih => simp [List.filter_cons, ih]

theorem all_filter_split {α : Type} (g f : α → Bool) (l : List α) :
    l.all f = ((l.filter g).all f && (l.filter fun x => !g x).all f) := by
  induction l with
  | nil => rfl
  | cons x l ih =>
    simp only [List.all_cons, List.filter_cons, ih]
    cases hg : g x <;> cases hf : f x <;> simp [List.all_cons, hf]

theorem all_cover3 {α : Type} (g h f : α → Bool) (l : List α) :
    l.all f = ((l.filter fun x => !h x).all f && ((l.filter fun x => !g x).all f && (l.filter fun x => g x && h x).all f)) := by
  induction l with
  | nil => rfl
  | cons x l ih =>
    simp only [List.all_cons, List.filter_cons, ih]
    cases hg : g x <;> cases hh : h x <;> cases hf : f x <;> simp [List.all_cons, hf]

theorem all_congr' {α : Type} {f g : α → Bool} {l : List α} (h : ∀ x ∈ l, f x = g x) : l.all f = l.all g := by
  induction l with
  | nil => rfl
  | cons x l ih =>
    simp only [List.all_cons, h x (by simp)]
    rw [ih (fun y hy => h y (by simp [hy]))]

theorem relDep_filter (J : VRow → List VRow) (q : VRow → Bool) (L : List VRow) :
    relDep J (L.filter q) = relDep (fun a => if q a then J a else []) L := by
  unfold relDep
  induction L with
  | nil => rfl
  | cons a L ih =>
    simp only [List.filter_cons]
    by_cases h : q a = true
    · simp [h, List.flatMap_cons, ih]
    · simp [h, List.flatMap_cons, ih]

theorem relInner_filter (m : VRow → VRow → Bool) (qa qb : VRow → Bool) (L R : List VRow) :
    relInner m (L.filter qa) (R.filter qb) = relInner (fun a b => qa a && (qb b && m a b)) L R := by
  unfold relInner
  induction L with
  | nil => rfl
  | cons a L ih =>
    simp only [List.filter_cons]
    by_cases h : qa a = true
    · simp only [h, ↓reduceIte, List.flatMap_cons, Bool.true_and]
      rw [ih, filter_filter']
    · simp only [h, Bool.false_eq_true, ↓reduceIte, List.flatMap_cons, Bool.false_and]
      rw [ih]
      simp

/-! ### plans with predicates in front -/

theorem planBag_wrapFilter (db : Db) (ps : List SExpr) (hps : ∀ e ∈ ps, predOK e = true) (p : Plan) (ctx : VRow) :
    planBag db (wrapFilter ps p) ctx = (planBag db p ctx).filter fun r => ps.all (isTrue (ctx ++ r)) := by
  unfold wrapFilter
  cases ps with
  | nil => simp [filter_true']
  | cons e es =>
    simp only [List.isEmpty_cons, Bool.false_eq_true, ↓reduceIte, planBag]
    apply filter_congr'
    intro r _
    exact isTrue_conj (ctx ++ r) (e :: es) hps

theorem wrapFilter_width (db : Db) (ps : List SExpr) (p : Plan) : (wrapFilter ps p).width db = p.width db := by
  unfold wrapFilter; split <;> rfl

theorem wrapFilter_ok (ps : List SExpr) (hps : ∀ e ∈ ps, predOK e = true) (p : Plan) (hp : p.ok = true) :
    (wrapFilter ps p).ok = true := by
  unfold wrapFilter
  split
  · exact hp
  · simp [Plan.ok, predOK_conj ps hps, hp]

theorem mem_filter_parts {e : SExpr} {p : SExpr} {g : SExpr → Bool} (hp : predOK p = true)
    (he : e ∈ (splitAnd p).filter g) : predOK e = true :=
  predOK_splitAnd p hp e (List.mem_filter.mp he).1

/-! ### MergeFilters -/

theorem ruleMerge_width (db : Db) (c : Nat) (p : Plan) : (ruleMerge db c p).width db = p.width db := by
  unfold ruleMerge; split <;> rfl

theorem ruleMerge_ok (db : Db) (c : Nat) (p : Plan) (h : p.ok = true) : (ruleMerge db c p).ok = true := by
  unfold ruleMerge
  split
  · rename_i p q s
    simp only [Plan.ok, Bool.and_eq_true] at h ⊢
    refine ⟨predOK_conj _ ?_, h.2.2⟩
    intro e he
    simp only [List.mem_append] at he
    rcases he with he | he
    · exact predOK_splitAnd p h.1 e he
    · exact predOK_splitAnd q h.2.1 e he
  · exact h

theorem ruleMerge_bag (db : Db) (c : Nat) (p : Plan) (ctx : VRow) (h : p.ok = true) :
    planBag db (ruleMerge db c p) ctx = planBag db p ctx := by
  unfold ruleMerge
  split
  · rename_i p q s
    simp only [Plan.ok, Bool.and_eq_true] at h
    simp only [planBag, filter_filter']
    apply filter_congr'
    intro r _
    have hall : ∀ e ∈ splitAnd p ++ splitAnd q, predOK e = true := by
      intro e he
      simp only [List.mem_append] at he
      rcases he with he | he
      · exact predOK_splitAnd p h.1 e he
      · exact predOK_splitAnd q h.2.1 e he
    rw [isTrue_conj _ _ hall, List.all_append, ← isTrue_splitAnd _ p h.1, ← isTrue_splitAnd _ q h.2.1, Bool.and_comm]
  · rfl

/-! ### PushDownFilterPredicatesIntoLookupJoinBranch -/

theorem ruleLookup_width (db : Db) (c : Nat) (p : Plan) : (ruleLookup db c p).width db = p.width db := by
  unfold ruleLookup
  split
  · simp [Plan.width, wrapFilter_width]
  · rfl

theorem ruleLookup_ok (db : Db) (c : Nat) (p : Plan) (h : p.ok = true) : (ruleLookup db c p).ok = true := by
  unfold ruleLookup
  split
  · rename_i p s j
    simp only [Plan.ok, Bool.and_eq_true] at h
    simp only [Plan.ok, Bool.and_eq_true]
    exact ⟨wrapFilter_ok _ (fun e he => mem_filter_parts h.1 he) s h.2.1,
           wrapFilter_ok _ (fun e he => mem_filter_parts h.1 he) j h.2.2⟩
  · exact h

theorem ruleLookup_bag {db : Db} (hdb : DbOK db) (c : Nat) (p : Plan) (ctx : VRow) (h : p.ok = true) (hc : ctx.length = c) :
    planBag db (ruleLookup db c p) ctx = planBag db p ctx := by
  unfold ruleLookup
  split
  · rename_i p s j
    simp only [Plan.ok, Bool.and_eq_true] at h
    simp only [planBag]
    rw [planBag_wrapFilter db _ (fun e he => mem_filter_parts h.1 he), filter_relDep, relDep_filter]
    apply relDep_congr
    intro a ha
    have hwa := planBag_width hdb s ctx a ha
    rw [planBag_wrapFilter db _ (fun e he => mem_filter_parts h.1 he)]
    have key : ∀ b ∈ planBag db j (ctx ++ a),
        isTrue (ctx ++ (a ++ b)) p =
          (((splitAnd p).filter fun e => !usesRange (c + s.width db) (c + s.width db + j.width db) e).all (isTrue (ctx ++ a)) &&
           ((splitAnd p).filter fun e => usesRange (c + s.width db) (c + s.width db + j.width db) e).all (isTrue (ctx ++ a ++ b))) := by
      intro b hb
      have hwb := planBag_width hdb j (ctx ++ a) b hb
      rw [isTrue_splitAnd _ p h.1,
        all_filter_split (fun e => usesRange (c + s.width db) (c + s.width db + j.width db) e) _ (splitAnd p), Bool.and_comm,
        ← List.append_assoc]
      congr 1
      apply all_congr'
      intro e he
      have hu := (List.mem_filter.mp he).2
      simp only [Bool.not_eq_true'] at hu
      exact isTrue_leftOnly hc hwa hwb hu
    by_cases hq : ((splitAnd p).filter fun e => !usesRange (c + s.width db) (c + s.width db + j.width db) e).all (isTrue (ctx ++ a)) = true
    · simp only [hq, ↓reduceIte]
      apply filter_congr'
      intro b hb
      rw [key b hb, hq, Bool.true_and]
    · simp only [hq, Bool.false_eq_true, ↓reduceIte]
      simp only [Bool.not_eq_true] at hq
      symm
      rw [List.filter_eq_nil_iff]
      intro b hb
      rw [key b hb, hq]
      simp
  · rfl

/-! ### PushDownFilterPredicatesIntoStreamJoinBranch -/

theorem ruleBranch_width (db : Db) (c : Nat) (p : Plan) : (ruleBranch db c p).width db = p.width db := by
  unfold ruleBranch
  split
  · simp only
    split
    · rfl
    · simp [Plan.width, wrapFilter_width]
  · rfl

theorem ruleBranch_ok (db : Db) (c : Nat) (p : Plan) (h : p.ok = true) : (ruleBranch db c p).ok = true := by
  unfold ruleBranch
  split
  · rename_i p kl kr l r
    simp only
    split
    · exact h
    · simp only [Plan.ok, Bool.and_eq_true] at h
      apply wrapFilter_ok _ (fun e he => mem_filter_parts h.1 he)
      simp only [Plan.ok, Bool.and_eq_true]
      refine ⟨⟨h.2.1.1, wrapFilter_ok _ (fun e he => mem_filter_parts h.1 he) l h.2.1.2⟩, wrapFilter_ok _ ?_ r h.2.2⟩
      intro e he
      simp only [List.mem_map] at he
      obtain ⟨e', he', rfl⟩ := he
      rw [predOK_shiftE]
      exact mem_filter_parts h.1 he'
  · exact h

theorem ruleBranch_bag {db : Db} (hdb : DbOK db) (c : Nat) (p : Plan) (ctx : VRow) (h : p.ok = true) (hc : ctx.length = c) :
    planBag db (ruleBranch db c p) ctx = planBag db p ctx := by
  unfold ruleBranch
  split
  · rename_i p kl kr l r
    simp only
    split
    · rfl
    · simp only [Plan.ok, Bool.and_eq_true] at h
      rw [planBag_wrapFilter db _ (fun e he => mem_filter_parts h.1 he)]
      simp only [planBag]
      rw [planBag_wrapFilter db _ (fun e he => mem_filter_parts h.1 he), planBag_wrapFilter db, relInner_filter,
        filter_relInner, filter_relInner]
      · apply relInner_congr
        intro a ha b hb
        have hwa := planBag_width hdb l ctx a ha
        have hwb := planBag_width hdb r ctx b hb
        rw [isTrue_splitAnd _ p h.1,
          all_cover3 (usesRange c (c + l.width db)) (usesRange (c + l.width db) (c + l.width db + r.width db)) _ (splitAnd p)]
        have e1 : ((splitAnd p).filter fun e => !usesRange (c + l.width db) (c + l.width db + r.width db) e).all (isTrue (ctx ++ (a ++ b)))
            = ((splitAnd p).filter fun e => !usesRange (c + l.width db) (c + l.width db + r.width db) e).all (isTrue (ctx ++ a)) := by
          apply all_congr'
          intro e he
          have hu := (List.mem_filter.mp he).2
          simp only [Bool.not_eq_true'] at hu
          rw [← List.append_assoc]
          exact isTrue_leftOnly hc hwa hwb hu
        have e2 : ((splitAnd p).filter fun e => !usesRange c (c + l.width db) e).all (isTrue (ctx ++ (a ++ b)))
            = (((splitAnd p).filter fun e => !usesRange c (c + l.width db) e).map (shiftE c (l.width db))).all (isTrue (ctx ++ b)) := by
          rw [List.all_map]
          apply all_congr'
          intro e he
          have hu := (List.mem_filter.mp he).2
          simp only [Bool.not_eq_true'] at hu
          rw [← List.append_assoc]
          exact isTrue_rightOnly hc hwa hu
        rw [e1, e2]
        cases keyMatch kl kr ctx a b <;> simp [Bool.and_comm, Bool.and_assoc, Bool.and_left_comm]
      · intro e he
        simp only [List.mem_map] at he
        obtain ⟨e', he', rfl⟩ := he
        rw [predOK_shiftE]
        exact mem_filter_parts h.1 he'
  · rfl

/-! ### PushDownFilterPredicatesIntoStreamJoinKey -/

theorem keyParts_sub (c wl wr : Nat) : ∀ (parts : List SExpr), ∀ e ∈ (keyParts c wl wr parts).1, e ∈ parts
  | [], e, he => by simp [keyParts] at he
  | q :: rest, e, he => by
    have ih := keyParts_sub c wl wr rest
    cases q with
    | bin op x y =>
      cases op with
      | eq =>
        simp only [keyParts] at he
        split at he
        · exact List.mem_cons_of_mem _ (ih e he)
        · split at he
          · exact List.mem_cons_of_mem _ (ih e he)
          · simp only [List.mem_cons] at he ⊢
            rcases he with rfl | he
            · exact Or.inl rfl
            · exact Or.inr (ih e he)
      | _ =>
        simp only [keyParts, List.mem_cons] at he ⊢
        rcases he with rfl | he
        · exact Or.inl rfl
        · exact Or.inr (ih e he)
    | _ =>
      simp only [keyParts, List.mem_cons] at he ⊢
      rcases he with rfl | he
      · exact Or.inl rfl
      · exact Or.inr (ih e he)

theorem keyParts_length (c wl wr : Nat) : ∀ (parts : List SExpr),
    (keyParts c wl wr parts).2.1.length = (keyParts c wl wr parts).2.2.length
  | [] => rfl
  | q :: rest => by
    have ih := keyParts_length c wl wr rest
    cases q with
    | bin op x y =>
      cases op with
      | eq =>
        simp only [keyParts]
        split
        · simp [ih]
        · split
          · simp [ih]
          · exact ih
      | _ => exact ih
    | _ => exact ih

/-- what the classification loop of the key rule keeps above and what it turns into keys together say exactly
    that every part is TRUE -/
theorem keyParts_match {c wl wr : Nat} {ctx a b : VRow} (hc : ctx.length = c) (ha : a.length = wl) (hb : b.length = wr) :
    ∀ (parts : List SExpr),
      parts.all (isTrue (ctx ++ a ++ b)) =
        ((keyParts c wl wr parts).1.all (isTrue (ctx ++ a ++ b)) &&
          keyMatch (keyParts c wl wr parts).2.1 (keyParts c wl wr parts).2.2 ctx a b)
  | [] => by simp [keyParts, keyMatch_nil]
  | q :: rest => by
    have ih := keyParts_match hc ha hb rest
    have stay : ∀ (e : SExpr), ((e :: rest).all (isTrue (ctx ++ a ++ b)) =
        ((e :: (keyParts c wl wr rest).1).all (isTrue (ctx ++ a ++ b)) &&
          keyMatch (keyParts c wl wr rest).2.1 (keyParts c wl wr rest).2.2 ctx a b)) := by
      intro e
      simp only [List.all_cons, ih, Bool.and_assoc]
    cases q with
    | bin op x y =>
      cases op with
      | eq =>
        simp only [keyParts]
        split
        · rename_i hcond
          simp only [Bool.and_eq_true, Bool.not_eq_true'] at hcond
          simp only
          rw [keyMatch_cons, List.all_cons, ih, isTrue_eq, eval_leftOnly hc ha hb hcond.1.1.2, eval_rightOnly hc ha hcond.1.2]
          simp only [Bool.and_left_comm]
        · split
          · rename_i hcond
            simp only [Bool.and_eq_true, Bool.not_eq_true'] at hcond
            simp only
            rw [keyMatch_cons, List.all_cons, ih, isTrue_eq, eval_rightOnly hc ha hcond.1.1.1, eval_leftOnly hc ha hb hcond.2]
            rw [eqKey_comm]
            simp only [Bool.and_left_comm]
          · exact stay _
      | _ => exact stay _
    | _ => exact stay _

theorem hasNull_append (x y : VRow) : hasNull (x ++ y) = (hasNull x || hasNull y) := by
  induction x with
  | nil => simp [hasNull]
  | cons v x ih => cases v <;> simp [hasNull, ih]

theorem evalAll_append (row : VRow) (es fs : List SExpr) :
    evalAll row (es ++ fs) = match evalAll row es, evalAll row fs with
      | some x, some y => some (x ++ y)
      | _, _ => none := by
  induction es with
  | nil => simp only [List.nil_append, evalAll]; cases evalAll row fs <;> rfl
  | cons e es ih =>
    simp only [List.cons_append, evalAll, ih]
    cases eval row e <;> cases evalAll row es <;> cases evalAll row fs <;> rfl

theorem rowEq_append_of_length {x y x' y' : VRow} (h : x.length = y.length) :
    Octo.rowEq (x ++ x') (y ++ y') = (Octo.rowEq x y && Octo.rowEq x' y') := by
  induction x generalizing y with
  | nil =>
    cases y with
    | nil => simp [Octo.rowEq, cmpList, cmpListWith]
    | cons _ _ => simp at h
  | cons u x ih =>
    cases y with
    | nil => simp at h
    | cons v y =>
      simp only [List.length_cons, Nat.add_right_cancel_iff] at h
      have := ih h
      simp only [Octo.rowEq, cmpList, List.cons_append, cmpListWith] at this ⊢
      by_cases hc : cmpWith cmpFloatFixed u v = 0
      · simp [hc, this]
      · have e : (cmpWith cmpFloatFixed u v == 0) = false := beq_eq_false_iff_ne.mpr hc
        simp [hc, e]

theorem keyMatch_append (kl kr al ar : List SExpr) (hk : kl.length = kr.length) (ctx a b : VRow) :
    keyMatch (kl ++ al) (kr ++ ar) ctx a b = (keyMatch kl kr ctx a b && keyMatch al ar ctx a b) := by
  unfold keyMatch
  rw [evalAll_append, evalAll_append]
  cases h1 : evalAll (ctx ++ a) kl with
  | none => simp
  | some x =>
    cases h2 : evalAll (ctx ++ b) kr with
    | none => cases evalAll (ctx ++ a) al <;> simp
    | some y =>
      cases h3 : evalAll (ctx ++ a) al with
      | none => simp
      | some x' =>
        cases h4 : evalAll (ctx ++ b) ar with
        | none => simp
        | some y' =>
          have hl : x.length = y.length := by
            rw [evalAll_length _ _ _ h1, evalAll_length _ _ _ h2, hk]
          simp only [hasNull_append, rowEq_append_of_length hl]
          cases hasNull x <;> cases hasNull x' <;> cases Octo.rowEq x y <;> cases Octo.rowEq x' y' <;> rfl

theorem ruleKey_width (db : Db) (c : Nat) (p : Plan) : (ruleKey db c p).width db = p.width db := by
  unfold ruleKey
  split
  · simp only
    split
    · rfl
    · simp [Plan.width, wrapFilter_width]
  · rfl

theorem ruleKey_ok (db : Db) (c : Nat) (p : Plan) (h : p.ok = true) : (ruleKey db c p).ok = true := by
  unfold ruleKey
  split
  · rename_i p kl kr l r
    simp only
    split
    · exact h
    · simp only [Plan.ok, Bool.and_eq_true, beq_iff_eq] at h
      apply wrapFilter_ok
      · intro e he
        exact predOK_splitAnd p h.1 e (keyParts_sub _ _ _ _ e he)
      · simp only [Plan.ok, Bool.and_eq_true, beq_iff_eq, List.length_append]
        exact ⟨⟨by rw [h.2.1.1, keyParts_length], h.2.1.2⟩, h.2.2⟩
  · exact h

theorem ruleKey_bag {db : Db} (hdb : DbOK db) (c : Nat) (p : Plan) (ctx : VRow) (h : p.ok = true) (hc : ctx.length = c) :
    planBag db (ruleKey db c p) ctx = planBag db p ctx := by
  unfold ruleKey
  split
  · rename_i p kl kr l r
    simp only
    split
    · rfl
    · simp only [Plan.ok, Bool.and_eq_true, beq_iff_eq] at h
      rw [planBag_wrapFilter db _ (fun e he => predOK_splitAnd p h.1 e (keyParts_sub _ _ _ _ e he))]
      simp only [planBag, filter_relInner]
      apply relInner_congr
      intro a ha b hb
      have hwa := planBag_width hdb l ctx a ha
      have hwb := planBag_width hdb r ctx b hb
      rw [isTrue_splitAnd _ p h.1, ← List.append_assoc, keyParts_match hc hwa hwb (splitAnd p),
        keyMatch_append _ _ _ _ h.2.1.1]
      simp only [Bool.and_comm, Bool.and_left_comm]
  · rfl

/-! ### bottom-up application and rounds -/

structure RuleOK (db : Db) (f : Db → Nat → Plan → Plan) : Prop where
  width : ∀ c p, (f db c p).width db = p.width db
  ok : ∀ c p, p.ok = true → (f db c p).ok = true
  bag : ∀ c p ctx, p.ok = true → ctx.length = c → planBag db (f db c p) ctx = planBag db p ctx

theorem transform_width {db : Db} {f : Db → Nat → Plan → Plan} (hf : RuleOK db f) :
    ∀ (p : Plan) (c : Nat), (transform db f c p).width db = p.width db := by
  intro p
  induction p with
  | scan i => intro c; simp only [transform, hf.width]
  | filter q s ih => intro c; simp only [transform, hf.width, Plan.width, ih]
  | map es s _ => intro c; simp only [transform, hf.width, Plan.width]
  | streamJoin kl kr l r ihl ihr => intro c; simp only [transform, hf.width, Plan.width, ihl, ihr]
  | outerJoin a b kl kr l r ihl ihr => intro c; simp only [transform, hf.width, Plan.width, ihl, ihr]
  | lookupJoin s j ihs ihj => intro c; simp only [transform, hf.width, Plan.width, ihs, ihj]

theorem transform_ok {db : Db} {f : Db → Nat → Plan → Plan} (hf : RuleOK db f) :
    ∀ (p : Plan) (c : Nat), p.ok = true → (transform db f c p).ok = true := by
  intro p
  induction p with
  | scan i => intro c h; exact hf.ok c _ h
  | filter q s ih =>
    intro c h
    simp only [Plan.ok, Bool.and_eq_true] at h
    apply hf.ok; simp only [Plan.ok, Bool.and_eq_true]; exact ⟨h.1, ih c h.2⟩
  | map es s ih => intro c h; apply hf.ok; simp only [Plan.ok] at h ⊢; exact ih c h
  | streamJoin kl kr l r ihl ihr =>
    intro c h
    simp only [Plan.ok, Bool.and_eq_true] at h
    apply hf.ok; simp only [Plan.ok, Bool.and_eq_true]; exact ⟨⟨h.1.1, ihl c h.1.2⟩, ihr c h.2⟩
  | outerJoin a b kl kr l r ihl ihr =>
    intro c h
    simp only [Plan.ok, Bool.and_eq_true] at h
    apply hf.ok; simp only [Plan.ok, Bool.and_eq_true]; exact ⟨⟨h.1.1, ihl c h.1.2⟩, ihr c h.2⟩
  | lookupJoin s j ihs ihj =>
    intro c h
    simp only [Plan.ok, Bool.and_eq_true] at h
    apply hf.ok; simp only [Plan.ok, Bool.and_eq_true]; exact ⟨ihs c h.1, ihj _ h.2⟩

theorem transform_bag {db : Db} (hdb : DbOK db) {f : Db → Nat → Plan → Plan} (hf : RuleOK db f) :
    ∀ (p : Plan) (c : Nat) (ctx : VRow), p.ok = true → ctx.length = c →
      planBag db (transform db f c p) ctx = planBag db p ctx := by
  intro p
  induction p with
  | scan i => intro c ctx h hc; exact hf.bag c _ ctx h hc
  | filter q s ih =>
    intro c ctx h hc
    have h' := h
    simp only [Plan.ok, Bool.and_eq_true] at h
    simp only [transform]
    rw [hf.bag c _ ctx (by simp only [Plan.ok, Bool.and_eq_true]; exact ⟨h.1, transform_ok hf s c h.2⟩) hc]
    simp only [planBag, ih c ctx h.2 hc]
  | map es s ih =>
    intro c ctx h hc
    simp only [Plan.ok] at h
    simp only [transform]
    rw [hf.bag c _ ctx (by simp only [Plan.ok]; exact transform_ok hf s c h) hc]
    simp only [planBag, ih c ctx h hc]
  | streamJoin kl kr l r ihl ihr =>
    intro c ctx h hc
    simp only [Plan.ok, Bool.and_eq_true] at h
    simp only [transform]
    rw [hf.bag c _ ctx (by simp only [Plan.ok, Bool.and_eq_true]; exact ⟨⟨h.1.1, transform_ok hf l c h.1.2⟩, transform_ok hf r c h.2⟩) hc]
    simp only [planBag, ihl c ctx h.1.2 hc, ihr c ctx h.2 hc]
  | outerJoin a b kl kr l r ihl ihr =>
    intro c ctx h hc
    simp only [Plan.ok, Bool.and_eq_true] at h
    simp only [transform]
    rw [hf.bag c _ ctx (by simp only [Plan.ok, Bool.and_eq_true]; exact ⟨⟨h.1.1, transform_ok hf l c h.1.2⟩, transform_ok hf r c h.2⟩) hc]
    simp only [planBag, ihl c ctx h.1.2 hc, ihr c ctx h.2 hc, transform_width hf]
  | lookupJoin s j ihs ihj =>
    intro c ctx h hc
    simp only [Plan.ok, Bool.and_eq_true] at h
    simp only [transform]
    rw [hf.bag c _ ctx (by simp only [Plan.ok, Bool.and_eq_true]; exact ⟨transform_ok hf s c h.1, transform_ok hf j _ h.2⟩) hc]
    simp only [planBag, ihs c ctx h.1 hc]
    apply relDep_congr
    intro a ha
    have hwa := planBag_width hdb s ctx a ha
    exact ihj (c + s.width db) (ctx ++ a) h.2 (by simp [hc, hwa])

theorem ruleOK_merge (db : Db) : RuleOK db ruleMerge :=
  ⟨ruleMerge_width db, ruleMerge_ok db, fun c p ctx h _ => ruleMerge_bag db c p ctx h⟩
theorem ruleOK_lookup {db : Db} (hdb : DbOK db) : RuleOK db ruleLookup :=
  ⟨ruleLookup_width db, ruleLookup_ok db, fun c p ctx h hc => ruleLookup_bag hdb c p ctx h hc⟩
theorem ruleOK_branch {db : Db} (hdb : DbOK db) : RuleOK db ruleBranch :=
  ⟨ruleBranch_width db, ruleBranch_ok db, fun c p ctx h hc => ruleBranch_bag hdb c p ctx h hc⟩
theorem ruleOK_key {db : Db} (hdb : DbOK db) : RuleOK db ruleKey :=
  ⟨ruleKey_width db, ruleKey_ok db, fun c p ctx h hc => ruleKey_bag hdb c p ctx h hc⟩

theorem optPass_ok {db : Db} (hdb : DbOK db) (p : Plan) (h : p.ok = true) : (optPass db p).ok = true := by
  unfold optPass
  exact transform_ok (ruleOK_merge db) _ 0 (transform_ok (ruleOK_key hdb) _ 0 (transform_ok (ruleOK_branch hdb) _ 0
    (transform_ok (ruleOK_lookup hdb) p 0 h)))

theorem optPass_bag {db : Db} (hdb : DbOK db) (p : Plan) (h : p.ok = true) : planBag db (optPass db p) [] = planBag db p [] := by
  unfold optPass
  have h1 := transform_ok (ruleOK_lookup hdb) p 0 h
  have h2 := transform_ok (ruleOK_branch hdb) _ 0 h1
  have h3 := transform_ok (ruleOK_key hdb) _ 0 h2
  rw [transform_bag hdb (ruleOK_merge db) _ 0 [] h3 rfl, transform_bag hdb (ruleOK_key hdb) _ 0 [] h2 rfl,
    transform_bag hdb (ruleOK_branch hdb) _ 0 [] h1 rfl, transform_bag hdb (ruleOK_lookup hdb) _ 0 [] h rfl]

theorem iter_optPass {db : Db} (hdb : DbOK db) : ∀ (n : Nat) (p : Plan), p.ok = true →
    (iter (optPass db) n p).ok = true ∧ planBag db (iter (optPass db) n p) [] = planBag db p []
  | 0, p, h => ⟨h, rfl⟩
  | n + 1, p, h => by
    have ih := iter_optPass hdb n (optPass db p) (optPass_ok hdb p h)
    simp only [iter]
    exact ⟨ih.1, by rw [ih.2, optPass_bag hdb p h]⟩

/-! ### the rules keep `NoRetractions` -/
theorem wrapFilter_noRetr (ps : List SExpr) (p : Plan) : (wrapFilter ps p).noRetr = p.noRetr := by
  unfold wrapFilter; split <;> rfl

theorem ruleMerge_noRetr (db : Db) (c : Nat) (p : Plan) : (ruleMerge db c p).noRetr = p.noRetr := by
  unfold ruleMerge; split <;> rfl

theorem ruleLookup_noRetr (db : Db) (c : Nat) (p : Plan) : (ruleLookup db c p).noRetr = p.noRetr := by
  unfold ruleLookup
  split
  · simp only [Plan.noRetr, wrapFilter_noRetr]
  · rfl

theorem ruleBranch_noRetr (db : Db) (c : Nat) (p : Plan) : (ruleBranch db c p).noRetr = p.noRetr := by
  unfold ruleBranch
  split
  · simp only
    split
    · rfl
    · simp only [wrapFilter_noRetr, Plan.noRetr]
  · rfl

theorem ruleKey_noRetr (db : Db) (c : Nat) (p : Plan) : (ruleKey db c p).noRetr = p.noRetr := by
  unfold ruleKey
  split
  · simp only
    split
    · rfl
    · simp only [wrapFilter_noRetr, Plan.noRetr]
  · rfl

theorem transform_noRetr (db : Db) (f : Db → Nat → Plan → Plan) (hf : ∀ c p, (f db c p).noRetr = p.noRetr) :
    ∀ (p : Plan) (c : Nat), (transform db f c p).noRetr = p.noRetr := by
  intro p
  induction p with
  | scan i => intro c; simp only [transform, hf]
  | filter q s ih => intro c; simp only [transform, hf, Plan.noRetr, ih]
  | map es s ih => intro c; simp only [transform, hf, Plan.noRetr, ih]
  | streamJoin kl kr l r ihl ihr => intro c; simp only [transform, hf, Plan.noRetr, ihl, ihr]
  | outerJoin a b kl kr l r ihl ihr => intro c; simp only [transform, hf, Plan.noRetr, ihl, ihr]
  | lookupJoin s j ihs ihj => intro c; simp only [transform, hf, Plan.noRetr, ihs, ihj]

theorem optPass_noRetr (db : Db) (p : Plan) : (optPass db p).noRetr = p.noRetr := by
  unfold optPass
  rw [transform_noRetr db _ (ruleMerge_noRetr db), transform_noRetr db _ (ruleKey_noRetr db),
    transform_noRetr db _ (ruleBranch_noRetr db), transform_noRetr db _ (ruleLookup_noRetr db)]

theorem iter_noRetr (db : Db) : ∀ (n : Nat) (p : Plan), (iter (optPass db) n p).noRetr = p.noRetr
  | 0, _ => rfl
  | n + 1, p => by simp only [iter, iter_noRetr db n, optPass_noRetr]

/-- the flag the sinks consult is the flag of the plan that is run -/
theorem optimize_noRetr (db : Db) (p : Plan) (h : p.noRetr = true) : (optimize db p).noRetr = true := by
  unfold optimize; rw [iter_noRetr]; exact h

/-- **the optimizer does not change what a plan computes** (read relationally; same list of rows) -/
theorem optimize_planBag {db : Db} (hdb : DbOK db) (p : Plan) (h : p.ok = true) :
    planBag db (optimize db p) [] = planBag db p [] := (iter_optPass hdb _ p h).2

theorem optimize_ok {db : Db} (hdb : DbOK db) (p : Plan) (h : p.ok = true) : (optimize db p).ok = true :=
  (iter_optPass hdb _ p h).1

end Octo.SqlJoin
