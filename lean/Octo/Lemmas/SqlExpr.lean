import Octo.Lemmas.SqlPrint
import Octo.Lemmas.SqlComb
/-!
# Round trip of expressions, one precedence level at a time (C30)
-/
set_option linter.unusedSimpArgs false
namespace Octo.SqlSyn

def followS : List Tok → Bool
  | [] => true
  | t :: _ => t == Tok.kw .RPAREN

def stopT : Tok → Bool
  | .kw .RPAREN => true | .kw .COMMA => true | .kw .WHERE => true | .kw .GROUP => true | .kw .HAVING => true
  | .kw .TRIGGER => true | .kw .ORDER => true | .kw .LIMIT => true | .kw .ON => true | .kw .USING => true
  | _ => false
def followT : List Tok → Bool
  | [] => true
  | t :: _ => stopT t

/-- what the level theorems assume about the parsers of the previous nesting level -/
structure PrevOK (prev : Parsers) (d : Nat) : Prop where
  expr : ∀ e, okE e = true → 1 ≤ e.lvl → depthE e < d → ∀ rest, follow 1 rest = true →
    prev.expr (printE e ++ rest) = some (e, rest)
  val : ∀ e, okE e = true → 6 ≤ e.lvl → depthE e < d → ∀ rest, follow 6 rest = true →
    prev.val (printE e ++ rest) = some (e, rest)
  sel : ∀ s, okS s = true → s.isStmt = true → depthS s < d → ∀ rest, followS rest = true →
    prev.sel (printS s ++ rest) = some (s, rest)
  tbl : ∀ t, okT t = true → depthT t < d → ∀ rest, followT rest = true →
    (t.isOpenInnerJoin = true → headIs .ON rest = false ∧ headIs .USING rest = false) →
    prev.tbl (printT t ++ rest) = some (t, rest)
  star1 : ∀ t rest, identOf t ≠ none → prev.expr (t :: Tok.kw .DOT :: Tok.kw .STAR :: rest) = none
  star2 : ∀ t1 t2 rest, identOf t1 ≠ none → identOf t2 ≠ none →
    prev.expr (t1 :: Tok.kw .DOT :: t2 :: Tok.kw .DOT :: Tok.kw .STAR :: rest) = none

/-! ## first tokens -/

/-- tokens an expression of level ≥ `L` may start with -/
def exprStart (L : Nat) : Tok → Bool
  | .kw .NOT => decide (L < 4)
  | .kw .EXISTS => decide (L < 6)
  | .kw .MINUS => decide (L < 13) | .kw .PLUS => decide (L < 13) | .kw .BANG => decide (L < 13) | .kw .TILDE => decide (L < 13)
  | .kw .LPAREN => true | .kw .NULL => true | .kw .TRUE => true | .kw .FALSE => true
  | .kw .INTERVAL => true | .kw .CONVERT => true
  | .id _ => true | .nrkw _ => true | .str _ => true | .int _ => true | .float _ => true | .hexnum _ => true
  | .hex _ => true | .bit _ => true
  | _ => false

theorem exprStart_mono {L L' : Nat} (h : L' ≤ L) {t : Tok} (hs : exprStart L t = true) : exprStart L' t = true := by
  unfold exprStart at *
  split at hs <;> simp_all <;> omega

theorem rawOK_cases {s : String} (h : rawOK s = true) : rawWord s = [Tok.id s] ∨ rawWord s = [Tok.nrkw s] := by
  simp [rawOK] at h; exact h

theorem print_head : ∀ n e, sizeE e ≤ n → okE e = true → 1 ≤ e.lvl →
    ∃ t ts, printE e = t :: ts ∧ exprStart e.lvl t = true := by
  intro n
  induction n with
  | zero => intro e h; have := sizeE_pos e; omega
  | succ n ih =>
    intro e hsz hok hl
    -- the left operand's head, weakened to this node's level
    have left : ∀ (l : Expr) (L : Nat), sizeE l ≤ n → okE l = true → 1 ≤ l.lvl → L ≤ l.lvl →
        ∃ t ts, printE l = t :: ts ∧ exprStart L t = true := by
      intro l L h1 h2 h3 h4
      obtain ⟨t, ts, h5, h6⟩ := ih l h1 h2 h3
      exact ⟨t, ts, h5, exprStart_mono h4 h6⟩
    cases e with
    | and l r =>
      simp [okE, sizeE] at hok hsz
      obtain ⟨t, ts, h5, h6⟩ := left l 2 (by omega) hok.1.1.1 (by omega) hok.1.2
      exact ⟨t, ts ++ Tok.kw .AND :: printE r, by simp [printE_and, h5], by simpa [Expr.lvl] using h6⟩
    | or l r =>
      simp [okE, sizeE] at hok hsz
      obtain ⟨t, ts, h5, h6⟩ := left l 1 (by omega) hok.1.1.1 (by omega) hok.1.2
      exact ⟨t, ts ++ Tok.kw .OR :: printE r, by simp [printE_or, h5], by simpa [Expr.lvl] using h6⟩
    | not e => exact ⟨_, _, printE_not e, by simp [Expr.lvl, exprStart]⟩
    | paren e => exact ⟨_, _, printE_paren e, by simp [Expr.lvl, exprStart]⟩
    | cmp op l r =>
      simp [okE, sizeE] at hok hsz
      obtain ⟨t, ts, h5, h6⟩ := left l 5 (by omega) hok.1.1 (by omega) (by omega)
      exact ⟨t, ts ++ (op.toks ++ printE r), by simp [printE_cmp, h5], by simpa [Expr.lvl] using h6⟩
    | is op e =>
      simp [okE, sizeE] at hok hsz
      obtain ⟨t, ts, h5, h6⟩ := left e 4 (by omega) hok.1 (by omega) hok.2
      exact ⟨t, ts ++ op.toks, by simp [printE_is, h5], by simpa [Expr.lvl] using h6⟩
    | exists_ s => exact ⟨_, _, printE_exists s, by simp [Expr.lvl, exprStart]⟩
    | val ty neg s =>
      cases ty <;> cases neg <;> simp [okE] at hok <;> simp [printE_val, printVal, Expr.lvl, exprStart]
    | null => exact ⟨_, _, printE_null, by simp [Expr.lvl, exprStart]⟩
    | bool b => cases b <;> simp [printE_bool, Expr.lvl, exprStart]
    | col q2 q1 name =>
      simp [okE] at hok
      by_cases h1 : q1 = ""
      · have h2 : q2 = "" := by rcases hok.2 with h | h; exact h; exact absurd h1 h
        subst h1; subst h2
        exact ⟨_, _, by rw [printE_col, printColName_1 name hok.1], by simp [exprStart]⟩
      · by_cases h2 : q2 = ""
        · subst h2
          exact ⟨_, _, by rw [printE_col, printColName_2 q1 name h1 hok.1], by simp [exprStart]⟩
        · exact ⟨_, _, by rw [printE_col, printColName_3 q2 q1 name h2 h1 hok.1], by simp [exprStart]⟩
    | tuple es => exact ⟨_, _, printE_tuple es, by simp [Expr.lvl, exprStart]⟩
    | subq s => exact ⟨_, _, printE_subq s, by simp [Expr.lvl, exprStart]⟩
    | bin op l r =>
      simp [okE, sizeE] at hok hsz
      have hop : 6 ≤ op.lvl := by cases op <;> simp [BinOp.lvl]
      obtain ⟨t, ts, h5, h6⟩ := left l op.lvl (by omega) hok.1.1.1 (by omega) hok.1.2
      exact ⟨t, ts ++ op.tok :: printE r, by simp [printE_bin, h5], by simpa [Expr.lvl] using h6⟩
    | index l i =>
      simp [okE, sizeE] at hok hsz
      obtain ⟨t, ts, h5, h6⟩ := left l 13 (by omega) hok.1.1.1 (by omega) hok.1.2
      exact ⟨t, ts ++ Tok.kw .LBRACK :: (printE i ++ [Tok.kw .RBRACK]), by simp [printE_index, h5],
        by simpa [Expr.lvl] using h6⟩
    | un op e => exact ⟨_, _, printE_un op e, by cases op <;> simp [Expr.lvl, exprStart, UnOp.tok]⟩
    | interval e unit => exact ⟨_, _, printE_interval e unit, by simp [Expr.lvl, exprStart]⟩
    | func qual name distinct args =>
      simp [okE] at hok
      by_cases hq : qual = ""
      · subst hq
        rcases rawOK_cases hok.1.1.1 with h | h
        · exact ⟨_, _, by rw [printE_func_unqual, h]; rfl, by simp [exprStart]⟩
        · exact ⟨_, _, by rw [printE_func_unqual, h]; rfl, by simp [exprStart]⟩
      · have hd : distinct = false := by
          rcases hok.1.1.2 with h | h
          · exact absurd h hq
          · exact h
        subst hd
        exact ⟨_, _, printE_func_qual qual name hq args, by simp [exprStart]⟩
    | convert e t => exact ⟨_, _, printE_convert e t, by simp [Expr.lvl, exprStart]⟩
    | field e name =>
      simp [okE, sizeE] at hok hsz
      obtain ⟨t, ts, h5, h6⟩ := left e 13 (by omega) hok.1.1 (by omega) hok.1.2
      exact ⟨t, ts ++ [Tok.kw .JSON_EXTRACT_OP, Tok.id name], by simp [printE_field e name hok.2, h5],
        by simpa [Expr.lvl] using h6⟩
    | star _ _ => simp [Expr.lvl] at hl
    | aliased _ _ => simp [Expr.lvl] at hl
    | explode _ => simp [Expr.lvl] at hl
    | trigCount _ => simp [Expr.lvl] at hl
    | trigWm => simp [Expr.lvl] at hl
    | trigEos => simp [Expr.lvl] at hl
    | trigDelay _ => simp [Expr.lvl] at hl
    | order _ _ => simp [Expr.lvl] at hl

/-! ## small facts about `headIs`, `follow`, lists of expressions -/

theorem headIs_cons (k : Kw) (t : Tok) (ts : List Tok) : headIs k (t :: ts) = (t == Tok.kw k) := rfl
theorem headIs_nil (k : Kw) : headIs k [] = false := rfl

theorem headIs_false_of_follow {k : Kw} {n : Nat} {rest : List Tok} (hf : follow n rest = true)
    (hk : n ≤ tokLevel (Tok.kw k)) : headIs k rest = false := by
  cases rest with
  | nil => rfl
  | cons t ts =>
    simp [follow] at hf
    simp [headIs]
    intro h; subst h; omega

theorem follow_of_level0 {t : Tok} {ts : List Tok} (h : tokLevel t = 0) (n : Nat) (hn : 1 ≤ n) :
    follow n (t :: ts) = true := by
  simp [follow]; omega

theorem okEs_mem {es : List Expr} (h : okEs es = true) : ∀ x ∈ es, okE x = true ∧ 1 ≤ x.lvl := by
  induction es with
  | nil => simp
  | cons e es ih =>
    simp [okEs] at h
    intro x hx
    simp at hx
    rcases hx with rfl | hx
    · exact ⟨h.1.1, h.1.2⟩
    · exact ih h.2 x hx

theorem depthEs_mem {es : List Expr} {d : Nat} (h : depthEs es ≤ d) : ∀ x ∈ es, depthE x ≤ d := by
  induction es with
  | nil => simp
  | cons e es ih =>
    simp [depthEs] at h
    intro x hx
    simp at hx
    rcases hx with rfl | hx
    · omega
    · exact ih (by omega) x hx

theorem depthEs_mem_lt {es : List Expr} {d : Nat} (h : depthEs es < d) : ∀ x ∈ es, depthE x < d := by
  intro x hx
  have := depthEs_mem (Nat.le_refl (depthEs es)) x hx
  omega

theorem startsSelect_of_exprStart {L : Nat} {t : Tok} {ts : List Tok} (h : exprStart L t = true) :
    startsSelect (t :: ts) = false := by
  unfold exprStart at h
  split at h <;> simp_all [startsSelect]

def followItem : List Tok → Bool
  | [] => true
  | t :: _ => t == Tok.kw .COMMA || t == Tok.kw .FROM || t == Tok.kw .RPAREN

theorem followItem_follow {rest : List Tok} (h : followItem rest = true) : follow 1 rest = true := by
  cases rest with
  | nil => rfl
  | cons t ts =>
    simp [followItem] at h
    rcases h with (h | h) | h <;> subst h <;> simp [follow, tokLevel]

theorem isValue_of_lvl {e : Expr} (h : 6 ≤ e.lvl) : e.isValue = true := by
  cases e <;> simp [Expr.lvl] at h <;> simp [Expr.isValue]

theorem okItems_mem {es : List Expr} (h : okItems es = true) : ∀ x ∈ es, okItem x = true := by
  induction es with
  | nil => simp
  | cons e es ih =>
    simp [okItems] at h
    intro x hx
    simp at hx
    rcases hx with rfl | hx
    · exact h.1
    · exact ih h.2 x hx

/-- the first token of a printed select expression -/
theorem item_head (it : Expr) (hok : okItem it = true) :
    ∃ t ts, printE it = t :: ts ∧ t ≠ Tok.kw .RPAREN ∧ t ≠ Tok.kw .DISTINCT ∧ t ≠ Tok.kw .COMMA := by
  have fromStart : ∀ (e : Expr) (tl : List Tok), okE e = true → 1 ≤ e.lvl →
      ∃ t ts, printE e ++ tl = t :: ts ∧ t ≠ Tok.kw .RPAREN ∧ t ≠ Tok.kw .DISTINCT ∧ t ≠ Tok.kw .COMMA := by
    intro e tl h1 h2
    obtain ⟨t, ts, h3, h4⟩ := print_head _ e (Nat.le_refl _) h1 h2
    refine ⟨t, ts ++ tl, by simp [h3], ?_, ?_, ?_⟩ <;> (intro h; subst h; simp [exprStart] at h4)
  cases it with
  | star q2 q1 =>
    simp [okItem] at hok
    by_cases h1 : q1 = ""
    · have h2 : q2 = "" := by rcases hok with h | h; exact h; exact absurd h1 h
      subst h1; subst h2
      exact ⟨_, _, printE_star_0, by simp⟩
    · by_cases h2 : q2 = ""
      · subst h2; exact ⟨_, _, printE_star_1 q1 h1, by simp⟩
      · exact ⟨_, _, printE_star_2 q2 q1 h2 h1, by simp⟩
  | aliased e a =>
    simp [okItem] at hok
    by_cases ha : a = ""
    · subst ha
      obtain ⟨t, ts, h, h'⟩ := fromStart e [] hok.1 hok.2
      exact ⟨t, ts, by simpa [printE_aliased_none] using h, h'⟩
    · obtain ⟨t, ts, h, h'⟩ := fromStart e [Tok.kw .AS, Tok.id a] hok.1 hok.2
      exact ⟨t, ts, by simpa [printE_aliased_some e a ha] using h, h'⟩
  | explode e =>
    simp [okItem] at hok
    obtain ⟨t, ts, h, h'⟩ := fromStart e [Tok.kw .JSON_EXPLODE_OP] hok.1 (by omega)
    exact ⟨t, ts, by simpa [printE_explode] using h, h'⟩
  | _ => simp [okItem] at hok

theorem aliasOpt_none {rest : List Tok} (h : followItem rest = true) : parseAliasOpt rest = some ("", rest) := by
  cases rest with
  | nil => rfl
  | cons t ts =>
    simp [followItem] at h
    rcases h with (h | h) | h <;> subst h <;> simp [parseAliasOpt, aliasOf]

/-- a printed select expression parses back, for any expression parser `expr` that round-trips expressions of depth ≤ `D`
    and gives up on `t.*` -/
theorem item_rt (expr : P Expr) (D : Nat)
    (hE : ∀ e, okE e = true → 1 ≤ e.lvl → depthE e ≤ D → ∀ rest, follow 1 rest = true →
      expr (printE e ++ rest) = some (e, rest))
    (hs1 : ∀ t rest, identOf t ≠ none → expr (t :: Tok.kw .DOT :: Tok.kw .STAR :: rest) = none)
    (hs2 : ∀ t1 t2 rest, identOf t1 ≠ none → identOf t2 ≠ none →
      expr (t1 :: Tok.kw .DOT :: t2 :: Tok.kw .DOT :: Tok.kw .STAR :: rest) = none)
    (it : Expr) (hok : okItem it = true) (hd : depthE it ≤ D) (rest : List Tok) (hf : followItem rest = true) :
    parseItemWith expr (printE it ++ rest) = some (it, rest) := by
  cases it with
  | star q2 q1 =>
    simp [okItem] at hok
    by_cases h1 : q1 = ""
    · have h2 : q2 = "" := by rcases hok with h | h; exact h; exact absurd h1 h
      subst h1; subst h2
      simp [printE_star_0, parseItemWith, headIs_cons]
    · by_cases h2 : q2 = ""
      · subst h2
        simp [printE_star_1 q1 h1, parseItemWith, headIs_cons, hs1 (Tok.id q1) rest (by simp [identOf]),
          parseStarForm, identOf]
      · simp [printE_star_2 q2 q1 h2 h1, parseItemWith, headIs_cons,
          hs2 (Tok.id q2) (Tok.id q1) rest (by simp [identOf]) (by simp [identOf]), parseStarForm, identOf]
  | aliased e a =>
    simp [okItem] at hok
    simp [depthE] at hd
    obtain ⟨t, ts, hh, hst⟩ := print_head _ e (Nat.le_refl _) hok.1 hok.2
    have hnotstar : ∀ tl, headIs .STAR (printE e ++ tl) = false := by
      intro tl; rw [hh]; simp [headIs_cons]; intro h; subst h; simp [exprStart] at hst
    by_cases ha : a = ""
    · subst ha
      have h1 := hE e hok.1 hok.2 hd rest (followItem_follow hf)
      have h2 : headIs .JSON_EXPLODE_OP rest = false := by
        cases rest with
        | nil => rfl
        | cons t ts =>
          simp [followItem] at hf
          rcases hf with (h | h) | h <;> subst h <;> simp [headIs_cons]
      simp [printE_aliased_none, parseItemWith, hnotstar, h1, h2, aliasOpt_none hf]
    · have h1 := hE e hok.1 hok.2 hd (Tok.kw .AS :: Tok.id a :: rest) (by simp [follow, tokLevel])
      simp [printE_aliased_some e a ha, parseItemWith, hnotstar, h1, headIs_cons, parseAliasOpt, aliasOf]
  | explode e =>
    simp [okItem] at hok
    simp [depthE] at hd
    obtain ⟨t, ts, hh, hst⟩ := print_head _ e (Nat.le_refl _) hok.1 (by omega)
    have hnotstar : ∀ tl, headIs .STAR (printE e ++ tl) = false := by
      intro tl; rw [hh]; simp [headIs_cons]; intro h; subst h; simp [exprStart] at hst
    have h1 := hE e hok.1 (by omega) hd (Tok.kw .JSON_EXPLODE_OP :: rest) (by simp [follow, tokLevel])
    simp [printE_explode, parseItemWith, hnotstar, h1, headIs_cons, isValue_of_lvl hok.2]
  | _ => simp [okItem] at hok

section level
variable {prev : Parsers} {d : Nat} (hp : PrevOK prev d)
include hp

/-- `expression_list closeb` on a printed list -/
theorem exprListClose_rt (x : Expr) (xs : List Expr) (hok : okEs (x :: xs) = true) (hd : depthEs (x :: xs) < d)
    (rest : List Tok) :
    parseExprListClose prev (printE x ++ (ListFmt.items [Tok.kw .COMMA] (printEs xs) ++ Tok.kw .RPAREN :: rest)) =
      some (x :: xs, rest) := by
  have h := sepBy1_rt prev.expr printE (fun e => okE e = true ∧ 1 ≤ e.lvl ∧ depthE e < d)
    (fun r => ∃ ts, r = Tok.kw .RPAREN :: ts)
    (by
      intro e ⟨h1, h2, h3⟩ r hr
      apply hp.expr e h1 h2 h3
      rcases hr with ⟨ts, rfl⟩ | ⟨ts, rfl⟩ <;> simp [follow, tokLevel])
    (by intro t ts ⟨ts', h⟩; cases h; simp)
    x xs
    (by
      intro y hy
      exact ⟨(okEs_mem hok y hy).1, (okEs_mem hok y hy).2, depthEs_mem_lt hd y hy⟩)
    (Tok.kw .RPAREN :: rest) ⟨rest, rfl⟩
  unfold parseExprListClose
  rw [printEs_eq_map, h]
  simp

theorem subqueryBody_rt (s : Sel) (hok : okS s = true) (hs : s.isStmt = true) (hd : depthS s < d) (rest : List Tok) :
    parseSubqueryBody prev (printS s ++ Tok.kw .RPAREN :: rest) = some (s, rest) := by
  unfold parseSubqueryBody
  rw [hp.sel s hok hs hd _ (by simp [followS])]
  simp

theorem startsSelect_printS (s : Sel) (hs : s.isStmt = true) (rest : List Tok) :
    startsSelect (printS s ++ rest) = true := by
  obtain ⟨ts, h | h⟩ := printS_head s hs <;> simp [h, startsSelect]

theorem identRest_col1 (a : String) (rest : List Tok) (hf : follow 14 rest = true) :
    parseIdentRest prev a rest = some (.col "" "" a, rest) := by
  unfold parseIdentRest
  simp [headIs_false_of_follow hf (k := .LPAREN) (by simp [tokLevel]),
    headIs_false_of_follow hf (k := .DOT) (by simp [tokLevel])]

theorem identRest_col2 (a b : String) (rest : List Tok) (hf : follow 14 rest = true) :
    parseIdentRest prev a (Tok.kw .DOT :: Tok.id b :: rest) = some (.col "" a b, rest) := by
  unfold parseIdentRest
  simp [headIs_cons, identOf, headIs_false_of_follow hf (k := .LPAREN) (by simp [tokLevel]),
    headIs_false_of_follow hf (k := .DOT) (by simp [tokLevel])]

theorem identRest_col3 (a b c : String) (rest : List Tok) :
    parseIdentRest prev a (Tok.kw .DOT :: Tok.id b :: Tok.kw .DOT :: Tok.id c :: rest) = some (.col a b c, rest) := by
  unfold parseIdentRest
  simp [headIs_cons, identOf]

theorem depthEs_cons_le {x : Expr} {xs : List Expr} {D : Nat} (h : depthEs (x :: xs) ≤ D) :
    ∀ y ∈ x :: xs, depthE y ≤ D := depthEs_mem h

/-- `select_expression_list closeb` on a printed argument list -/
theorem argsClose_rt (x : Expr) (xs : List Expr) (hok : okItems (x :: xs) = true) (hd : depthEs (x :: xs) < d)
    (rest : List Tok) :
    parseArgsClose prev (printE x ++ (ListFmt.items [Tok.kw .COMMA] (printEs xs) ++ Tok.kw .RPAREN :: rest)) =
      some (x :: xs, rest) := by
  have h := sepBy1_rt (parseItemWith prev.expr) printE (fun e => okItem e = true ∧ depthE e < d)
    (fun r => ∃ ts, r = Tok.kw .RPAREN :: ts)
    (by
      intro e ⟨h1, h3⟩ r hr
      apply item_rt prev.expr (d - 1) (fun e a b c => hp.expr e a b (by omega)) hp.star1 hp.star2 e h1 (by omega)
      rcases hr with ⟨ts, rfl⟩ | ⟨ts, rfl⟩ <;> simp [followItem])
    (by intro t ts ⟨ts', h⟩; cases h; simp)
    x xs
    (by intro y hy; exact ⟨okItems_mem hok y hy, depthEs_mem_lt hd y hy⟩)
    (Tok.kw .RPAREN :: rest) ⟨rest, rfl⟩
  unfold parseArgsClose
  rw [printEs_eq_map, h]
  simp

/-- the tokens of a call after `name (` -/
theorem callRest_rt (qual name : String) (distinct allow : Bool) (args : List Expr)
    (hok : okItems args = true) (hd : depthEs args < d) (hdist : distinct = true → allow = true ∧ args ≠ [])
    (rest : List Tok) :
    parseCallRest prev qual name allow
      ((if distinct then [Tok.kw .DISTINCT] else []) ++ (Gen.list_SelectExprs.run (printEs args) ++ Tok.kw .RPAREN :: rest)) =
      some (.func qual name distinct args, rest) := by
  cases args with
  | nil =>
    cases distinct with
    | true => exact absurd rfl (hdist rfl).2
    | false => simp [printEs, run_SelectExprs_nil, parseCallRest, headIs_cons]
  | cons x xs =>
    obtain ⟨t, ts, hh, h1, h2, _⟩ := item_head x (okItems_mem hok x (by simp))
    have hargs := argsClose_rt hp x xs hok hd rest
    cases distinct with
    | true =>
      have := (hdist rfl).1
      subst this
      simp [printEs, run_SelectExprs_cons, parseCallRest, headIs_cons, hargs]
    | false =>
      have e1 : headIs .RPAREN (printE x ++ (ListFmt.items [Tok.kw .COMMA] (printEs xs) ++ Tok.kw .RPAREN :: rest)) = false := by
        rw [hh]; simp [headIs_cons, h1]
      have e2 : headIs .DISTINCT (printE x ++ (ListFmt.items [Tok.kw .COMMA] (printEs xs) ++ Tok.kw .RPAREN :: rest)) = false := by
        rw [hh]; simp [headIs_cons, h2]
      simp [printEs, run_SelectExprs_cons, parseCallRest, e1, e2, hargs]

/-- level 14: atoms -/
theorem rt14 (e : Expr) (hok : okE e = true) (hl : 14 ≤ e.lvl) (hd : depthE e ≤ d) (rest : List Tok)
    (hf : follow 14 rest = true) : parseAtom prev (printE e ++ rest) = some (e, rest) := by
  cases e with
  | val ty neg s =>
    cases neg with
    | true => simp [Expr.lvl] at hl
    | false => cases ty <;> simp [printE_val, printVal, parseAtom]
  | null => simp [printE_null, parseAtom]
  | bool b => cases b <;> simp [printE_bool, parseAtom]
  | col q2 q1 name =>
    simp [okE] at hok
    by_cases h1 : q1 = ""
    · have h2 : q2 = "" := by rcases hok.2 with h | h; exact h; exact absurd h1 h
      subst h1; subst h2
      simp [printE_col, printColName_1 name hok.1, parseAtom, identRest_col1 hp name rest hf]
    · by_cases h2 : q2 = ""
      · subst h2
        simp [printE_col, printColName_2 q1 name h1 hok.1, parseAtom, identRest_col2 hp q1 name rest hf]
      · simp [printE_col, printColName_3 q2 q1 name h2 h1 hok.1, parseAtom, identRest_col3 hp q2 q1 name rest]
  | paren e =>
    simp [okE] at hok
    simp [depthE] at hd
    obtain ⟨t, ts, hh, hst⟩ := print_head _ e (Nat.le_refl _) hok.1 hok.2
    have hss : startsSelect (printE e ++ Tok.kw .RPAREN :: rest) = false := by
      rw [hh]; exact startsSelect_of_exprStart hst
    have h := exprListClose_rt hp e [] (by simp [okEs, hok.1, hok.2]) (by simp [depthEs]; omega) rest
    simp [printEs, ListFmt.items] at h
    simp [printE_paren, parseAtom, parseParenRest, hss, h]
  | tuple es =>
    simp [okE] at hok
    simp [depthE] at hd
    match es, hok with
    | x :: y :: zs, hok =>
      have hx := okEs_mem hok.1 x (by simp)
      obtain ⟨t, ts, hh, hst⟩ := print_head _ x (Nat.le_refl _) hx.1 hx.2
      have hss : ∀ tl, startsSelect (printE x ++ tl) = false := by
        intro tl; rw [hh]; exact startsSelect_of_exprStart hst
      have h := exprListClose_rt hp x (y :: zs) hok.1 hd rest
      simp [printE_tuple, printEs, run_Exprs_cons, parseAtom, parseParenRest, hss] at h ⊢
      simp [h]
  | subq s =>
    simp [okE] at hok
    simp [depthE] at hd
    simp [printE_subq, parseAtom, parseParenRest, startsSelect_printS hp s hok.2,
      subqueryBody_rt hp s hok.1 hok.2 hd rest]
  | interval e unit =>
    simp [okE] at hok
    simp [depthE] at hd
    rcases rawOK_cases hok.2 with hu | hu
    · have h := hp.val e hok.1.1 hok.1.2 hd (Tok.id unit :: rest) (by simp [follow, tokLevel])
      simp [printE_interval, hu, parseAtom, parseIntervalRest, h, identOf]
    · have h := hp.val e hok.1.1 hok.1.2 hd (Tok.nrkw unit :: rest) (by simp [follow, tokLevel])
      simp [printE_interval, hu, parseAtom, parseIntervalRest, h, identOf]
  | func qual name distinct args =>
    simp [okE] at hok
    simp [depthE] at hd
    have hdist : distinct = true → (true = true ∧ args ≠ []) := by
      intro h; subst h; simp at hok; exact ⟨rfl, by intro h; subst h; simp at hok⟩
    by_cases hq : qual = ""
    · subst hq
      have hc := callRest_rt hp "" name distinct true args hok.2 hd hdist rest
      rcases rawOK_cases hok.1.1.1 with hn | hn <;>
        simp [printE_func_unqual, hn, parseAtom, parseIdentRest, headIs_cons, hc]
    · have hdf : distinct = false := by
        rcases hok.1.1.2 with h | h
        · exact absurd h hq
        · exact h
      subst hdf
      have hc := callRest_rt hp qual name false false args hok.2 hd (by simp) rest
      simp at hc
      rcases rawOK_cases hok.1.1.1 with hn | hn <;>
        simp [printE_func_qual qual name hq, hn, parseAtom, parseIdentRest, headIs_cons, identOf, hc]
  | convert e t =>
    simp [okE] at hok
    simp [depthE] at hd
    have h := hp.expr e hok.1.1 hok.1.2 hd (Tok.kw .COMMA :: (printConvTy t ++ Tok.kw .RPAREN :: rest))
      (by simp [follow, tokLevel])
    cases t with
    | simple n =>
      simp [okConvTy] at hok
      rcases rawOK_cases hok.2 with hn | hn <;>
        simp [printE_convert, printConvTy_simple, hn, parseAtom, headIs_cons, parseConvertRest, h, parseConvTyClose,
          parseConvTy] at h ⊢ <;> simp [h, parseConvTyClose, parseConvTy]
    | list =>
      simp [printE_convert, printConvTy_list, parseAtom, headIs_cons, parseConvertRest, parseConvTyClose,
          parseConvTy] at h ⊢
      simp [h, parseConvTyClose, parseConvTy]
    | object =>
      simp [printE_convert, printConvTy_object, parseAtom, headIs_cons, parseConvertRest, parseConvTyClose,
          parseConvTy] at h ⊢
      simp [h, parseConvTyClose, parseConvTy]
  | and _ _ => simp [Expr.lvl] at hl
  | or _ _ => simp [Expr.lvl] at hl
  | not _ => simp [Expr.lvl] at hl
  | cmp _ _ _ => simp [Expr.lvl] at hl
  | is _ _ => simp [Expr.lvl] at hl
  | exists_ _ => simp [Expr.lvl] at hl
  | bin op _ _ => cases op <;> simp [Expr.lvl, BinOp.lvl] at hl
  | index _ _ => simp [Expr.lvl] at hl
  | un _ _ => simp [Expr.lvl] at hl
  | field _ _ => simp [Expr.lvl] at hl
  | star _ _ => simp [Expr.lvl] at hl
  | aliased _ _ => simp [Expr.lvl] at hl
  | explode _ => simp [Expr.lvl] at hl
  | trigCount _ => simp [Expr.lvl] at hl
  | trigWm => simp [Expr.lvl] at hl
  | trigEos => simp [Expr.lvl] at hl
  | trigDelay _ => simp [Expr.lvl] at hl
  | order _ _ => simp [Expr.lvl] at hl

/-! ### level 13: postfix `->`, `[ ]` -/

theorem postfixLoop_stop (m : Nat) (acc : Expr) (rest : List Tok) (hf : follow 13 rest = true) :
    postfixLoop prev (m + 1) acc rest = some (acc, rest) := by
  cases rest with
  | nil => simp [postfixLoop]
  | cons t ts =>
    simp [follow] at hf
    have h1 : t ≠ Tok.kw .JSON_EXTRACT_OP := by intro h; subst h; simp [tokLevel] at hf
    have h2 : t ≠ Tok.kw .LIST_ARG := by intro h; subst h; simp [tokLevel] at hf
    have h3 : t ≠ Tok.kw .LBRACK := by intro h; subst h; simp [tokLevel] at hf
    simp [postfixLoop, h1, h2, h3]

theorem postChain : ∀ n e, sizeE e ≤ n → okE e = true → 13 ≤ e.lvl → depthE e ≤ d → ∀ rest, follow 14 rest = true →
    ∃ j, j ≤ (printE e).length ∧ ∀ m,
      (match parseAtom prev (printE e ++ rest) with
       | none => none
       | some (a, r) => postfixLoop prev (m + j) a r) = postfixLoop prev m e rest := by
  intro n
  induction n with
  | zero => intro e h; have := sizeE_pos e; omega
  | succ n ih =>
    intro e hsz hok hl hd rest hf
    by_cases h14 : 14 ≤ e.lvl
    · exact ⟨0, Nat.zero_le _, fun m => by simp [rt14 hp e hok h14 hd rest hf]⟩
    · cases e with
      | field e' name =>
        simp [okE] at hok
        simp [sizeE] at hsz
        simp [depthE] at hd
        obtain ⟨j, hj, hrun⟩ := ih e' (by omega) hok.1.1 hok.1.2 hd
          (Tok.kw .JSON_EXTRACT_OP :: Tok.id name :: rest) (by simp [follow, tokLevel])
        refine ⟨j + 1, by simp [printE_field e' name hok.2]; omega, ?_⟩
        intro m
        have := hrun (m + 1)
        simp [printE_field e' name hok.2] at this ⊢
        rw [show m + (j + 1) = m + 1 + j by omega, this]
        simp [postfixLoop, identOf]
      | index l i =>
        simp [okE] at hok
        simp [sizeE] at hsz
        simp [depthE] at hd
        obtain ⟨j, hj, hrun⟩ := ih l (by omega) hok.1.1.1 hok.1.2 (by omega)
          (Tok.kw .LBRACK :: (printE i ++ Tok.kw .RBRACK :: rest)) (by simp [follow, tokLevel])
        refine ⟨j + 1, by simp [printE_index]; omega, ?_⟩
        intro m
        have := hrun (m + 1)
        simp [printE_index] at this ⊢
        rw [show m + (j + 1) = m + 1 + j by omega, this]
        have hv := hp.val i hok.1.1.2 hok.2 (by omega) (Tok.kw .RBRACK :: rest) (by simp [follow, tokLevel])
        simp [postfixLoop, hv]
      | val ty neg s => cases neg <;> simp [Expr.lvl] at hl h14
      | bin op _ _ => cases op <;> simp [Expr.lvl, BinOp.lvl] at hl
      | _ => simp [Expr.lvl] at hl h14

theorem rt13 (e : Expr) (hok : okE e = true) (hl : 13 ≤ e.lvl) (hd : depthE e ≤ d) (rest : List Tok)
    (hf : follow 13 rest = true) : parsePostfix prev (printE e ++ rest) = some (e, rest) := by
  obtain ⟨j, hj, hrun⟩ := postChain hp (sizeE e) e (Nat.le_refl _) hok hl hd rest (follow_mono (by omega) hf)
  unfold parsePostfix
  have hlen : (printE e ++ rest).length + 1 = ((printE e ++ rest).length - j) + 1 + j := by
    simp only [List.length_append]; omega
  rw [hlen]
  exact (hrun _).trans (postfixLoop_stop hp _ e rest hf)

/-! ### level 12: unary operators and negative literals -/

theorem parseUnary_skip (t : Tok) (ts : List Tok) (h : exprStart 13 t = true) :
    parseUnary prev (t :: ts) = parsePostfix prev (t :: ts) := by
  have h1 : t ≠ Tok.kw .MINUS := by intro h'; subst h'; simp [exprStart] at h
  have h2 : t ≠ Tok.kw .PLUS := by intro h'; subst h'; simp [exprStart] at h
  have h3 : t ≠ Tok.kw .BANG := by intro h'; subst h'; simp [exprStart] at h
  have h4 : t ≠ Tok.kw .TILDE := by intro h'; subst h'; simp [exprStart] at h
  simp [parseUnary, h1, h2, h3, h4]

omit hp in
theorem mkNeg_of_not_int {e : Expr} (h : e.isIntLit = false) : mkNeg e = .un .minus e := by
  cases e with
  | val ty neg s => cases ty <;> simp [Expr.isIntLit] at h <;> simp [mkNeg]
  | _ => simp [mkNeg]
omit hp in
theorem mkPos_of_not_int {e : Expr} (h : e.isIntLit = false) : mkPos e = .un .plus e := by
  cases e with
  | val ty neg s => cases ty <;> simp [Expr.isIntLit] at h <;> simp [mkPos]
  | _ => simp [mkPos]

theorem rt12 : ∀ n e, sizeE e ≤ n → okE e = true → 12 ≤ e.lvl → depthE e ≤ d → ∀ rest, follow 12 rest = true →
    parseUnary prev (printE e ++ rest) = some (e, rest) := by
  intro n
  induction n with
  | zero => intro e h; have := sizeE_pos e; omega
  | succ n ih =>
    intro e hsz hok hl hd rest hf
    by_cases h13 : 13 ≤ e.lvl
    · obtain ⟨t, ts, hh, hst⟩ := print_head _ e (Nat.le_refl _) hok (by omega)
      have h := rt13 hp e hok h13 hd rest (follow_mono (by omega) hf)
      rw [hh] at h ⊢
      simp only [List.cons_append] at h ⊢
      rw [parseUnary_skip hp t _ (exprStart_mono h13 hst), h]
    · cases e with
      | un op e' =>
        simp [okE] at hok
        simp [sizeE] at hsz
        simp [depthE] at hd
        have hr := ih e' (by omega) hok.1.1 hok.1.2 hd rest hf
        cases op with
        | minus =>
          have := mkNeg_of_not_int (e := e') (by simpa using hok.2)
          simp [printE_un, UnOp.tok, parseUnary, hr, this]
        | plus =>
          have := mkPos_of_not_int (e := e') (by simpa using hok.2)
          simp [printE_un, UnOp.tok, parseUnary, hr, this]
        | bang => simp [printE_un, UnOp.tok, parseUnary, hr]
        | tilde => simp [printE_un, UnOp.tok, parseUnary, hr]
      | val ty neg s =>
        cases neg with
        | false => simp [Expr.lvl] at h13
        | true =>
          simp [okE] at hok
          subst hok
          have h1 : parsePostfix prev (Tok.int s :: rest) = some (.val .int false s, rest) := by
            simp [parsePostfix, parseAtom, postfixLoop_stop hp _ _ rest (follow_mono (by omega) hf)]
          have h2 := parseUnary_skip hp (Tok.int s) rest (by simp [exprStart])
          simp [printE_val, printVal, parseUnary, h2, h1, mkNeg]
      | bin op _ _ => cases op <;> simp [Expr.lvl, BinOp.lvl] at hl
      | _ => simp [Expr.lvl] at hl h13

/-! ### levels 11 … 6: the binary operators -/

omit hp in
theorem tokLevel_binTok (op : BinOp) : tokLevel op.tok = op.lvl := by cases op <;> rfl

/-- one binary level `k`, given the next tighter level -/
theorem rtBin (k : Nat) (hk6 : 6 ≤ k) (hk11 : k ≤ 11) (next : P Expr) (ops : Tok → Option BinOp)
    (hops1 : ∀ op : BinOp, op.lvl = k → ops op.tok = some op)
    (hops2 : ∀ t, tokLevel t < k → ops t = none)
    (hnext : ∀ e, okE e = true → k + 1 ≤ e.lvl → depthE e ≤ d → ∀ rest, follow (k + 1) rest = true →
      next (printE e ++ rest) = some (e, rest))
    (e : Expr) (hok : okE e = true) (hl : k ≤ e.lvl) (hd : depthE e ≤ d) (rest : List Tok)
    (hf : follow k rest = true) : binLevel next ops Expr.bin (printE e ++ rest) = some (e, rest) := by
  refine binLevel_rt next ops Expr.bin BinOp.tok (fun op => op.lvl = k)
    (fun e => okE e = true ∧ k + 1 ≤ e.lvl ∧ depthE e ≤ d) (fun e => okE e = true ∧ k ≤ e.lvl ∧ depthE e ≤ d)
    (fun r => follow (k + 1) r = true) (fun r => follow k r = true)
    (fun e ⟨h1, h2, h3⟩ rest hf => hnext e h1 h2 h3 rest hf)
    hops1
    (fun op ts hR => by simp [follow, tokLevel_binTok, hR])
    (fun rest h => follow_mono (by omega) h)
    (fun t ts h => hops2 t (by simpa [follow] using h))
    ?_ e ⟨hok, hl, hd⟩ rest hf
  intro e ⟨h1, h2, h3⟩
  by_cases hk : k + 1 ≤ e.lvl
  · exact Or.inl ⟨h1, hk, h3⟩
  · right
    cases e with
    | bin op l r =>
      simp [okE] at h1
      simp [Expr.lvl] at h2 hk
      simp [depthE] at h3
      exact ⟨op, l, r, by omega, rfl, ⟨h1.1.1.1, by omega, by omega⟩, ⟨h1.1.1.2, by omega, by omega⟩,
        printE_bin op l r, by simp [sizeE]; omega⟩
    | val ty neg s => cases neg <;> simp [Expr.lvl] at h2 hk <;> omega
    | _ => simp [Expr.lvl] at h2 hk <;> omega

theorem rt11 (e : Expr) (hok : okE e = true) (hl : 11 ≤ e.lvl) (hd : depthE e ≤ d) (rest : List Tok)
    (hf : follow 11 rest = true) : parseL11 prev (printE e ++ rest) = some (e, rest) :=
  rtBin hp 11 (by omega) (by omega) (parseUnary prev) opsL11
    (by intro op h; cases op <;> simp [BinOp.lvl] at h <;> rfl)
    (by intro t h; unfold opsL11; split <;> simp_all [tokLevel])
    (fun e h1 h2 h3 rest hf => rt12 hp _ e (Nat.le_refl _) h1 h2 h3 rest hf) e hok hl hd rest hf

theorem rt10 (e : Expr) (hok : okE e = true) (hl : 10 ≤ e.lvl) (hd : depthE e ≤ d) (rest : List Tok)
    (hf : follow 10 rest = true) : parseL10 prev (printE e ++ rest) = some (e, rest) :=
  rtBin hp 10 (by omega) (by omega) (parseL11 prev) opsL10
    (by intro op h; cases op <;> simp [BinOp.lvl] at h <;> rfl)
    (by intro t h; unfold opsL10; split <;> simp_all [tokLevel])
    (fun e h1 h2 h3 rest hf => rt11 hp e h1 h2 h3 rest hf) e hok hl hd rest hf

theorem rt9 (e : Expr) (hok : okE e = true) (hl : 9 ≤ e.lvl) (hd : depthE e ≤ d) (rest : List Tok)
    (hf : follow 9 rest = true) : parseL9 prev (printE e ++ rest) = some (e, rest) :=
  rtBin hp 9 (by omega) (by omega) (parseL10 prev) opsL9
    (by intro op h; cases op <;> simp [BinOp.lvl] at h <;> rfl)
    (by intro t h; unfold opsL9; split <;> simp_all [tokLevel])
    (fun e h1 h2 h3 rest hf => rt10 hp e h1 h2 h3 rest hf) e hok hl hd rest hf

theorem rt8 (e : Expr) (hok : okE e = true) (hl : 8 ≤ e.lvl) (hd : depthE e ≤ d) (rest : List Tok)
    (hf : follow 8 rest = true) : parseL8 prev (printE e ++ rest) = some (e, rest) :=
  rtBin hp 8 (by omega) (by omega) (parseL9 prev) opsL8
    (by intro op h; cases op <;> simp [BinOp.lvl] at h <;> rfl)
    (by intro t h; unfold opsL8; split <;> simp_all [tokLevel])
    (fun e h1 h2 h3 rest hf => rt9 hp e h1 h2 h3 rest hf) e hok hl hd rest hf

theorem rt7 (e : Expr) (hok : okE e = true) (hl : 7 ≤ e.lvl) (hd : depthE e ≤ d) (rest : List Tok)
    (hf : follow 7 rest = true) : parseL7 prev (printE e ++ rest) = some (e, rest) :=
  rtBin hp 7 (by omega) (by omega) (parseL8 prev) opsL7
    (by intro op h; cases op <;> simp [BinOp.lvl] at h <;> rfl)
    (by intro t h; unfold opsL7; split <;> simp_all [tokLevel])
    (fun e h1 h2 h3 rest hf => rt8 hp e h1 h2 h3 rest hf) e hok hl hd rest hf

/-- level 6: `value_expression` -/
theorem rt6 (e : Expr) (hok : okE e = true) (hl : 6 ≤ e.lvl) (hd : depthE e ≤ d) (rest : List Tok)
    (hf : follow 6 rest = true) : parseVal prev (printE e ++ rest) = some (e, rest) :=
  rtBin hp 6 (by omega) (by omega) (parseL7 prev) opsL6
    (by intro op h; cases op <;> simp [BinOp.lvl] at h <;> rfl)
    (by intro t h; unfold opsL6; split <;> simp_all [tokLevel])
    (fun e h1 h2 h3 rest hf => rt7 hp e h1 h2 h3 rest hf) e hok hl hd rest hf

/-! ### level 5: comparisons, IN, LIKE, REGEXP, EXISTS -/

theorem condRest_stop (l : Expr) (rest : List Tok) (hf : follow 5 rest = true) :
    parseCondRest prev l rest = some (l, rest) := by
  cases rest with
  | nil => simp [parseCondRest]
  | cons t ts =>
    simp [follow] at hf
    have h1 : t ≠ Tok.kw .IN := by intro h; subst h; simp [tokLevel] at hf
    have h2 : t ≠ Tok.kw .LIKE := by intro h; subst h; simp [tokLevel] at hf
    have h3 : t ≠ Tok.kw .REGEXP := by intro h; subst h; simp [tokLevel] at hf
    have h4 : t ≠ Tok.kw .NOT := by intro h; subst h; simp [tokLevel] at hf
    have h5 : cmpOpOf t = none := by
      unfold cmpOpOf; split <;> simp_all [tokLevel]
    simp [parseCondRest, h1, h2, h3, h4, h5]

theorem colTuple_rt (r : Expr) (hok : okInRhs r = true) (hd : depthE r ≤ d) (rest : List Tok) :
    parseColTuple prev (printE r ++ rest) = some (r, rest) := by
  cases r with
  | tuple es =>
    simp [okInRhs] at hok
    simp [depthE] at hd
    match es, hok with
    | x :: xs, hok =>
      have hx := okEs_mem hok.1 x (by simp)
      obtain ⟨t, ts, hh, hst⟩ := print_head _ x (Nat.le_refl _) hx.1 hx.2
      have hss : ∀ tl, startsSelect (printE x ++ tl) = false := by
        intro tl; rw [hh]; exact startsSelect_of_exprStart hst
      have h := exprListClose_rt hp x xs hok.1 hd rest
      simp [printE_tuple, printEs, run_Exprs_cons, parseColTuple, headIs_cons, hss] at h ⊢
      simp [h]
  | subq s =>
    simp [okInRhs] at hok
    simp [depthE] at hd
    simp [printE_subq, parseColTuple, headIs_cons, startsSelect_printS hp s hok.2,
      subqueryBody_rt hp s hok.1 hok.2 hd rest]
  | _ => simp [okInRhs] at hok

theorem rt5 (e : Expr) (hok : okE e = true) (hl : 5 ≤ e.lvl) (hd : depthE e ≤ d) (rest : List Tok)
    (hf : follow 5 rest = true) : parseCond prev (printE e ++ rest) = some (e, rest) := by
  have hf6 : follow 6 rest = true := follow_mono (by omega) hf
  by_cases h6 : 6 ≤ e.lvl
  · obtain ⟨t, ts, hh, hst⟩ := print_head _ e (Nat.le_refl _) hok (by omega)
    have hne : headIs .EXISTS (printE e ++ rest) = false := by
      rw [hh]; simp [headIs_cons]; intro h; subst h
      have := exprStart_mono h6 hst; simp [exprStart] at this
    unfold parseCond
    simp [hne, rt6 hp e hok h6 hd rest hf6, condRest_stop hp e rest hf]
  · cases e with
    | exists_ s =>
      simp [okE] at hok
      simp [depthE] at hd
      simp [printE_exists, parseCond, headIs_cons, startsSelect_printS hp s hok.2,
        subqueryBody_rt hp s hok.1 hok.2 hd rest]
    | cmp op l r =>
      simp [okE] at hok
      simp [depthE] at hd
      obtain ⟨t, ts, hh, hst⟩ := print_head _ l (Nat.le_refl _) hok.1.1 (by omega)
      have hne : ∀ tl, headIs .EXISTS (printE l ++ tl) = false := by
        intro tl; rw [hh]; simp [headIs_cons]; intro h; subst h
        have := exprStart_mono hok.1.2 hst; simp [exprStart] at this
      have hl6 : ∀ tl, follow 6 tl = true → parseVal prev (printE l ++ tl) = some (l, tl) :=
        fun tl h => rt6 hp l hok.1.1 hok.1.2 (by omega) tl h
      by_cases hin : op.isIn = true
      · have hr : okInRhs r = true := by simpa [hin] using hok.2
        have hc := colTuple_rt hp r hr (by omega) rest
        cases op <;> simp [CmpOp.isIn] at hin
        · have := hl6 (Tok.kw .IN :: (printE r ++ rest)) (by simp [follow, tokLevel])
          simp [printE_cmp, CmpOp.toks, Gen.c_InStr, parseCond, hne, this, parseCondRest, parseCmpRhs, CmpOp.isIn, hc]
        · have := hl6 (Tok.kw .NOT :: Tok.kw .IN :: (printE r ++ rest)) (by simp [follow, tokLevel])
          simp [printE_cmp, CmpOp.toks, Gen.c_NotInStr, parseCond, hne, this, parseCondRest, parseCmpRhs, CmpOp.isIn, hc,
            headIs_cons]
      · have hr : okE r = true ∧ 6 ≤ r.lvl := by simpa [hin] using hok.2
        have hrv := rt6 hp r hr.1 hr.2 (by omega) rest hf6
        cases op <;> simp [CmpOp.isIn] at hin
        · have := hl6 (Tok.kw .EQ :: (printE r ++ rest)) (by simp [follow, tokLevel])
          simp [printE_cmp, CmpOp.toks, Gen.c_EqualStr, parseCond, hne, this, parseCondRest, parseCmpRhs, CmpOp.isIn, hrv,
            cmpOpOf]
        · have := hl6 (Tok.kw .LT :: (printE r ++ rest)) (by simp [follow, tokLevel])
          simp [printE_cmp, CmpOp.toks, Gen.c_LessThanStr, parseCond, hne, this, parseCondRest, parseCmpRhs, CmpOp.isIn,
            hrv, cmpOpOf]
        · have := hl6 (Tok.kw .GT :: (printE r ++ rest)) (by simp [follow, tokLevel])
          simp [printE_cmp, CmpOp.toks, Gen.c_GreaterThanStr, parseCond, hne, this, parseCondRest, parseCmpRhs, CmpOp.isIn,
            hrv, cmpOpOf]
        · have := hl6 (Tok.kw .LE :: (printE r ++ rest)) (by simp [follow, tokLevel])
          simp [printE_cmp, CmpOp.toks, Gen.c_LessEqualStr, parseCond, hne, this, parseCondRest, parseCmpRhs, CmpOp.isIn,
            hrv, cmpOpOf]
        · have := hl6 (Tok.kw .GE :: (printE r ++ rest)) (by simp [follow, tokLevel])
          simp [printE_cmp, CmpOp.toks, Gen.c_GreaterEqualStr, parseCond, hne, this, parseCondRest, parseCmpRhs, CmpOp.isIn,
            hrv, cmpOpOf]
        · have := hl6 (Tok.kw .NE :: (printE r ++ rest)) (by simp [follow, tokLevel])
          simp [printE_cmp, CmpOp.toks, Gen.c_NotEqualStr, parseCond, hne, this, parseCondRest, parseCmpRhs, CmpOp.isIn,
            hrv, cmpOpOf]
        · have := hl6 (Tok.kw .NULL_SAFE_EQUAL :: (printE r ++ rest)) (by simp [follow, tokLevel])
          simp [printE_cmp, CmpOp.toks, Gen.c_NullSafeEqualStr, parseCond, hne, this, parseCondRest, parseCmpRhs,
            CmpOp.isIn, hrv, cmpOpOf]
        · have := hl6 (Tok.kw .LIKE :: (printE r ++ rest)) (by simp [follow, tokLevel])
          simp [printE_cmp, CmpOp.toks, Gen.c_LikeStr, parseCond, hne, this, parseCondRest, parseCmpRhs, CmpOp.isIn, hrv]
        · have := hl6 (Tok.kw .NOT :: Tok.kw .LIKE :: (printE r ++ rest)) (by simp [follow, tokLevel])
          simp [printE_cmp, CmpOp.toks, Gen.c_NotLikeStr, parseCond, hne, this, parseCondRest, parseCmpRhs, CmpOp.isIn, hrv,
            headIs_cons]
        · have := hl6 (Tok.kw .REGEXP :: (printE r ++ rest)) (by simp [follow, tokLevel])
          simp [printE_cmp, CmpOp.toks, Gen.c_RegexpStr, parseCond, hne, this, parseCondRest, parseCmpRhs, CmpOp.isIn, hrv]
        · have := hl6 (Tok.kw .NOT :: Tok.kw .REGEXP :: (printE r ++ rest)) (by simp [follow, tokLevel])
          simp [printE_cmp, CmpOp.toks, Gen.c_NotRegexpStr, parseCond, hne, this, parseCondRest, parseCmpRhs, CmpOp.isIn,
            hrv, headIs_cons]
    | val ty neg s => cases neg <;> simp [Expr.lvl] at hl h6
    | bin op _ _ => cases op <;> simp [Expr.lvl, BinOp.lvl] at hl h6
    | _ => simp [Expr.lvl] at hl h6

/-! ### level 4: IS -/

omit hp in
theorem isLoop_stop (m : Nat) (acc : Expr) (rest : List Tok) (hf : follow 4 rest = true) :
    isLoop (m + 1) acc rest = some (acc, rest) := by
  cases rest with
  | nil => simp [isLoop]
  | cons t ts =>
    simp [follow] at hf
    have h1 : t ≠ Tok.kw .IS := by intro h; subst h; simp [tokLevel] at hf
    simp [isLoop, h1]

omit hp in
theorem isSuffix_rt (op : IsOp) (rest : List Tok) :
    ∃ tl, op.toks = Tok.kw .IS :: tl ∧ parseIsSuffix (tl ++ rest) = some (op, rest) := by
  cases op
  · exact ⟨[Tok.kw .NULL], rfl, by simp [parseIsSuffix]⟩
  · exact ⟨[Tok.kw .NOT, Tok.kw .NULL], rfl, by simp [parseIsSuffix]⟩
  · exact ⟨[Tok.kw .TRUE], rfl, by simp [parseIsSuffix]⟩
  · exact ⟨[Tok.kw .NOT, Tok.kw .TRUE], rfl, by simp [parseIsSuffix]⟩
  · exact ⟨[Tok.kw .FALSE], rfl, by simp [parseIsSuffix]⟩
  · exact ⟨[Tok.kw .NOT, Tok.kw .FALSE], rfl, by simp [parseIsSuffix]⟩

theorem isChain : ∀ n e, sizeE e ≤ n → okE e = true → 4 ≤ e.lvl → depthE e ≤ d → ∀ rest, follow 5 rest = true →
    ∃ j, j ≤ (printE e).length ∧ ∀ m,
      (match parseCond prev (printE e ++ rest) with
       | none => none
       | some (a, r) => isLoop (m + j) a r) = isLoop m e rest := by
  intro n
  induction n with
  | zero => intro e h; have := sizeE_pos e; omega
  | succ n ih =>
    intro e hsz hok hl hd rest hf
    by_cases h5 : 5 ≤ e.lvl
    · exact ⟨0, Nat.zero_le _, fun m => by simp [rt5 hp e hok h5 hd rest hf]⟩
    · cases e with
      | is op e' =>
        simp [okE] at hok
        simp [sizeE] at hsz
        simp [depthE] at hd
        obtain ⟨tl, htoks, hsuf⟩ := isSuffix_rt op rest
        obtain ⟨j, hj, hrun⟩ := ih e' (by omega) hok.1 hok.2 hd (op.toks ++ rest)
          (by rw [htoks]; simp [follow, tokLevel])
        refine ⟨j + 1, by simp [printE_is, htoks]; omega, ?_⟩
        intro m
        have := hrun (m + 1)
        simp [printE_is] at this ⊢
        rw [show m + (j + 1) = m + 1 + j by omega, this, htoks]
        simp [isLoop, hsuf]
      | val ty neg s => cases neg <;> simp [Expr.lvl] at hl h5
      | bin op _ _ => cases op <;> simp [Expr.lvl, BinOp.lvl] at hl h5
      | _ => simp [Expr.lvl] at hl h5

theorem rt4 (e : Expr) (hok : okE e = true) (hl : 4 ≤ e.lvl) (hd : depthE e ≤ d) (rest : List Tok)
    (hf : follow 4 rest = true) : parseIs prev (printE e ++ rest) = some (e, rest) := by
  obtain ⟨j, hj, hrun⟩ := isChain hp (sizeE e) e (Nat.le_refl _) hok hl hd rest (follow_mono (by omega) hf)
  unfold parseIs
  have hlen : (printE e ++ rest).length + 1 = ((printE e ++ rest).length - j) + 1 + j := by
    simp only [List.length_append]; omega
  rw [hlen]
  exact (hrun _).trans (isLoop_stop _ e rest hf)

/-! ### level 3: NOT -/

theorem rt3 : ∀ n e, sizeE e ≤ n → okE e = true → 3 ≤ e.lvl → depthE e ≤ d → ∀ rest, follow 3 rest = true →
    parseNot prev (printE e ++ rest) = some (e, rest) := by
  intro n
  induction n with
  | zero => intro e h; have := sizeE_pos e; omega
  | succ n ih =>
    intro e hsz hok hl hd rest hf
    by_cases h4 : 4 ≤ e.lvl
    · obtain ⟨t, ts, hh, hst⟩ := print_head _ e (Nat.le_refl _) hok (by omega)
      have h := rt4 hp e hok h4 hd rest (follow_mono (by omega) hf)
      have hne : t ≠ Tok.kw .NOT := by
        intro h'; subst h'; have := exprStart_mono h4 hst; simp [exprStart] at this
      rw [hh] at h ⊢
      simp only [List.cons_append] at h ⊢
      simp [parseNot, hne, h]
    · cases e with
      | not e' =>
        simp [okE] at hok
        simp [sizeE] at hsz
        simp [depthE] at hd
        have hr := ih e' (by omega) hok.1 hok.2 hd rest hf
        simp [printE_not, parseNot, hr]
      | val ty neg s => cases neg <;> simp [Expr.lvl] at hl h4
      | bin op _ _ => cases op <;> simp [Expr.lvl, BinOp.lvl] at hl h4
      | _ => simp [Expr.lvl] at hl h4

/-! ### levels 2 and 1: AND, OR -/

theorem rt2 (e : Expr) (hok : okE e = true) (hl : 2 ≤ e.lvl) (hd : depthE e ≤ d) (rest : List Tok)
    (hf : follow 2 rest = true) : parseAnd prev (printE e ++ rest) = some (e, rest) := by
  refine binLevel_rt (parseNot prev) andOpOf (fun _ l r => Expr.and l r) (fun _ => Tok.kw .AND) (fun _ => True)
    (fun e => okE e = true ∧ 3 ≤ e.lvl ∧ depthE e ≤ d) (fun e => okE e = true ∧ 2 ≤ e.lvl ∧ depthE e ≤ d)
    (fun r => follow 3 r = true) (fun r => follow 2 r = true)
    (fun e ⟨h1, h2, h3⟩ rest hf => rt3 hp _ e (Nat.le_refl _) h1 h2 h3 rest hf)
    (fun _ _ => rfl)
    (fun _ ts _ => by simp [follow, tokLevel])
    (fun rest h => follow_mono (by omega) h)
    (fun t ts h => by
      simp [follow] at h
      unfold andOpOf; split <;> simp_all [tokLevel])
    ?_ e ⟨hok, hl, hd⟩ rest hf
  intro e ⟨h1, h2, h3⟩
  by_cases hk : 3 ≤ e.lvl
  · exact Or.inl ⟨h1, hk, h3⟩
  · right
    cases e with
    | and l r =>
      simp [okE] at h1
      simp [depthE] at h3
      exact ⟨(), l, r, trivial, rfl, ⟨h1.1.1.1, h1.1.2, by omega⟩, ⟨h1.1.1.2, h1.2, by omega⟩, printE_and l r,
        by simp [sizeE]; omega⟩
    | val ty neg s => cases neg <;> simp [Expr.lvl] at h2 hk
    | bin op _ _ => cases op <;> simp [Expr.lvl, BinOp.lvl] at h2 hk
    | _ => simp [Expr.lvl] at h2 hk

/-- level 1: `expression` -/
theorem rt1 (e : Expr) (hok : okE e = true) (hl : 1 ≤ e.lvl) (hd : depthE e ≤ d) (rest : List Tok)
    (hf : follow 1 rest = true) : parseExpr prev (printE e ++ rest) = some (e, rest) := by
  refine binLevel_rt (parseAnd prev) orOpOf (fun _ l r => Expr.or l r) (fun _ => Tok.kw .OR) (fun _ => True)
    (fun e => okE e = true ∧ 2 ≤ e.lvl ∧ depthE e ≤ d) (fun e => okE e = true ∧ 1 ≤ e.lvl ∧ depthE e ≤ d)
    (fun r => follow 2 r = true) (fun r => follow 1 r = true)
    (fun e ⟨h1, h2, h3⟩ rest hf => rt2 hp e h1 h2 h3 rest hf)
    (fun _ _ => rfl)
    (fun _ ts _ => by simp [follow, tokLevel])
    (fun rest h => follow_mono (by omega) h)
    (fun t ts h => by
      simp [follow] at h
      unfold orOpOf; split <;> simp_all [tokLevel])
    ?_ e ⟨hok, hl, hd⟩ rest hf
  intro e ⟨h1, h2, h3⟩
  by_cases hk : 2 ≤ e.lvl
  · exact Or.inl ⟨h1, hk, h3⟩
  · right
    cases e with
    | or l r =>
      simp [okE] at h1
      simp [depthE] at h3
      exact ⟨(), l, r, trivial, rfl, ⟨h1.1.1.1, h1.1.2, by omega⟩, ⟨h1.1.1.2, h1.2, by omega⟩, printE_or l r,
        by simp [sizeE]; omega⟩
    | val ty neg s => cases neg <;> simp [Expr.lvl] at h2 hk
    | bin op _ _ => cases op <;> simp [Expr.lvl, BinOp.lvl] at h2 hk
    | _ => simp [Expr.lvl] at h2 hk

/-- `t.*` makes the expression parser of this level give up, too -/
theorem star1_here (t : Tok) (rest : List Tok) (h : identOf t ≠ none) :
    parseExpr prev (t :: Tok.kw .DOT :: Tok.kw .STAR :: rest) = none := by
  have hatom : parseAtom prev (t :: Tok.kw .DOT :: Tok.kw .STAR :: rest) = none := by
    cases t <;> simp [identOf] at h <;> simp [parseAtom, parseIdentRest, headIs_cons, identOf]
  have hu : parseUnary prev (t :: Tok.kw .DOT :: Tok.kw .STAR :: rest) = none := by
    cases t <;> simp [identOf] at h <;> simp [parseUnary, parsePostfix, hatom]
  simp [parseExpr, parseAnd, parseNot, parseIs, parseCond, parseVal, parseL7, parseL8, parseL9, parseL10, parseL11,
    binLevel, hu, headIs_cons]
  cases t <;> simp [identOf] at h <;> simp

theorem star2_here (t1 t2 : Tok) (rest : List Tok) (h1 : identOf t1 ≠ none) (h2 : identOf t2 ≠ none) :
    parseExpr prev (t1 :: Tok.kw .DOT :: t2 :: Tok.kw .DOT :: Tok.kw .STAR :: rest) = none := by
  have hatom : parseAtom prev (t1 :: Tok.kw .DOT :: t2 :: Tok.kw .DOT :: Tok.kw .STAR :: rest) = none := by
    cases t1 <;> simp [identOf] at h1 <;> cases t2 <;> simp [identOf] at h2 <;>
      simp [parseAtom, parseIdentRest, headIs_cons, identOf]
  have hu : parseUnary prev (t1 :: Tok.kw .DOT :: t2 :: Tok.kw .DOT :: Tok.kw .STAR :: rest) = none := by
    cases t1 <;> simp [identOf] at h1 <;> simp [parseUnary, parsePostfix, hatom]
  simp [parseExpr, parseAnd, parseNot, parseIs, parseCond, parseVal, parseL7, parseL8, parseL9, parseL10, parseL11,
    binLevel, hu, headIs_cons]
  cases t1 <;> simp [identOf] at h1 <;> simp

end level

end Octo.SqlSyn
