import Octo.Lemmas.JoinRecv
/-!
  `OuterJoin.receiveRecord` against the outer-join specification: NULL-padded rows of unmatched
  records, retracted when the first partner arrives, re-emitted when the last partner goes.
-/
namespace Octo.Join
open Octo

/-- the ON condition in terms of the keys under which the two records are stored -/
theorem sideMatch_iff (cfg : Cfg) (left : Bool) (p o : Rec) :
    sideMatch cfg left p o =
      (match storedKey cfg left p, storedKey cfg (!left) o with
       | some kp, some ko => decide (cmpList kp ko = 0)
       | _, _ => false) := by
  unfold sideMatch sqlMatch storedKey
  cases left
  · simp only [Bool.false_eq_true, if_false, Bool.not_false, if_true]
    cases hko : keyOf cfg.keysL o.vals with
    | none =>
      cases hkp : keyOf cfg.keysR p.vals with
      | none => rfl
      | some kp => by_cases h : hasNull kp = true <;> simp [h]
    | some ko =>
      cases hkp : keyOf cfg.keysR p.vals with
      | none => rfl
      | some kp =>
        simp only
        by_cases hno : hasNull ko = true
        · by_cases hnp : hasNull kp = true <;> simp [hno, hnp]
        · by_cases hnp : hasNull kp = true
          · have : rowEq ko kp = false := by
              cases hre : rowEq ko kp with
              | false => rfl
              | true => have := hasNull_congr (rowEq_iff.mp hre); rw [hnp] at this; exact absurd this hno
            simp [hno, hnp, this]
          · have := cmpList_antisymm ko kp
            simp only [hno, hnp, rowEq]
            by_cases h0 : cmpList kp ko = 0
            · have : cmpList ko kp = 0 := by omega
              simp [h0, this]
            · have : cmpList ko kp ≠ 0 := by omega
              simp [h0, this]
  · simp only [if_true, Bool.not_true, Bool.false_eq_true, if_false]
    cases hkp : keyOf cfg.keysL p.vals with
    | none => rfl
    | some kp =>
      cases hko : keyOf cfg.keysR o.vals with
      | none => by_cases h : hasNull kp = true <;> simp [h]
      | some ko =>
        simp only
        by_cases hnp : hasNull kp = true
        · simp [hnp]
        · by_cases hno : hasNull ko = true
          · have : rowEq kp ko = false := by
              cases hre : rowEq kp ko with
              | false => rfl
              | true => have := hasNull_congr (rowEq_iff.mp hre); rw [hno] at this; exact absurd this hnp
            simp [hno, hnp, this]
          · by_cases h0 : cmpList kp ko = 0 <;> simp [hno, hnp, rowEq, h0]

/-- number of partners of `o` among the records `P` of side `left`, when `o` is stored under a key
    equivalent to `key` -/
theorem partners_of_key {cfg : Cfg} {left : Bool} {o : Rec} {ko key : Row}
    (ho : storedKey cfg (!left) o = some ko) (hk : cmpList ko key = 0) (P : List Rec) :
    partners cfg (!left) o P = wsum (repTerm cfg left key (fun _ => 1)) P := by
  unfold partners
  apply wsum_congr
  intro p _
  rw [sideMatch_flip, sideMatch_iff, ho]
  unfold repTerm
  cases storedKey cfg left p with
  | none => rfl
  | some kp =>
    simp only
    have := (cmpList_congr_right hk kp).2
    by_cases h0 : cmpList kp ko = 0
    · simp [h0, this.mp h0]
    · have : ¬ cmpList kp key = 0 := fun h => h0 (this.mpr h)
      simp [h0, this]

theorem partners_of_none {cfg : Cfg} {left : Bool} {o : Rec}
    (ho : storedKey cfg (!left) o = none) (P : List Rec) : partners cfg (!left) o P = 0 := by
  have : ∀ p ∈ P, (if sideMatch cfg (!left) o p = true then sgn p else 0) = (fun _ => (0 : Int)) p := by
    intro p _
    rw [sideMatch_flip, sideMatch_iff, ho]
    cases storedKey cfg left p <;> rfl
  unfold partners
  rw [wsum_congr this, wsum_zero]

/-- partners of `x` (side `left`, stored under `key`) among the other side's records = what the other tree holds -/
theorem partners_self {cfg : Cfg} {left : Bool} {x : Rec} {key : Row} (hx : storedKey cfg left x = some key)
    (Po : List Rec) : partners cfg left x Po = wsum (repTerm cfg (!left) key (fun _ => 1)) Po := by
  unfold partners
  apply wsum_congr
  intro o _
  rw [sideMatch_iff, hx]
  unfold repTerm
  cases storedKey cfg (!left) o with
  | none => rfl
  | some ko =>
    simp only
    have := cmpList_antisymm key ko
    by_cases h0 : cmpList ko key = 0
    · have : cmpList key ko = 0 := by omega
      simp [h0, this]
    · have : ¬ cmpList key ko = 0 := by omega
      simp [h0, this]

theorem partners_self_none {cfg : Cfg} {left : Bool} {x : Rec} (hx : storedKey cfg left x = none)
    (Po : List Rec) : partners cfg left x Po = 0 := by
  have : ∀ o ∈ Po, (if sideMatch cfg left x o = true then sgn o else 0) = (fun _ => (0 : Int)) o := by
    intro o _
    rw [sideMatch_iff, hx]
    cases storedKey cfg (!left) o <;> rfl
  unfold partners
  rw [wsum_congr this, wsum_zero]

theorem partners_append (cfg : Cfg) (left : Bool) (o : Rec) (P : List Rec) (x : Rec) :
    partners cfg left o (P ++ [x]) = partners cfg left o P + (if sideMatch cfg left o x then sgn x else 0) := by
  unfold partners; rw [wsum_append, wsum_single]

/-! ### the outer specification from one side -/
theorem sideOuter_eq (cfg : Cfg) (left : Bool) (my other : List Rec) (row : Row) :
    sideW (outerW cfg) left my other row =
      sideW (joinW cfg) left my other row
      + (if (if left then cfg.outerL else cfg.outerR) then padW cfg left my other row else 0)
      + (if (if left then cfg.outerR else cfg.outerL) then padW cfg (!left) other my row else 0) := by
  cases left
  · simp only [sideW, outerW, Bool.false_eq_true, if_false, Bool.not_false]; omega
  · simp only [sideW, outerW, if_true, Bool.not_true]

theorem padW_append_my (cfg : Cfg) (left : Bool) (my other : List Rec) (x : Rec) (row : Row) :
    padW cfg left (my ++ [x]) other row = padW cfg left my other row + padTerm cfg left other row x := by
  unfold padW; rw [wsum_append, wsum_single]

theorem padW_append_other (cfg : Cfg) (left : Bool) (my other : List Rec) (x : Rec) (row : Row) :
    padW cfg left other (my ++ [x]) row = padW cfg left other my row +
      wsum (fun o => padTerm cfg left (my ++ [x]) row o - padTerm cfg left my row o) other := by
  unfold padW; rw [wsum_sub]; omega

/-- the indicator "NULL-padded row of a stored row `y` of the other side equals `row`" -/
def gPad (cfg : Cfg) (left : Bool) (row : Row) (y : Row) : Int :=
  if rowEq (padSpec cfg (!left) y) row then 1 else 0

theorem congr_gPad (cfg : Cfg) (left : Bool) (row : Row) : Congr (gPad cfg left row) := by
  cases left
  · exact congr_pairRight (nulls cfg.nR) row
  · exact congr_pairLeft (nulls cfg.nL) row

/-- change of the other side's padded rows when `x` (stored under `key`) joins `my` -/
theorem padOther_delta {cfg : Cfg} {left : Bool} {x : Rec} {key : Row} {tm to : Tree} {Pm Po : List Rec}
    (hx : storedKey cfg left x = some key) (hm : Rep cfg left tm Pm) (ho : Rep cfg (!left) to Po) (row : Row) :
    wsum (fun o => padTerm cfg (!left) (Pm ++ [x]) row o - padTerm cfg (!left) Pm row o) Po =
      ((if M (fun _ => 1) (subsOf key tm) + sgn x = 0 then 1 else 0) - (if M (fun _ => 1) (subsOf key tm) = 0 then 1 else 0))
        * M (gPad cfg left row) (subsOf key to) := by
  rw [ho.2 key _ (congr_gPad cfg left row), ← wsum_mul_left]
  apply wsum_congr
  intro o _
  unfold padTerm
  rw [partners_append, sideMatch_flip, sideMatch_iff, hx]
  cases hso : storedKey cfg (!left) o with
  | none =>
    simp only [partners_of_none hso, repTerm, hso]
    simp
  | some ko =>
    by_cases h0 : cmpList ko key = 0
    · have h1 : cmpList key ko = 0 := cmpList_eq_symm h0
      rw [partners_of_key hso h0, ← hm.2 key _ congr_one]
      simp only [repTerm, hso, h0, h1, decide_true, if_true, gPad]
      generalize M (fun _ => 1) (subsOf key tm) = c
      have hsx := sgn_cases x
      generalize sgn x = sx at hsx ⊢
      rcases sgn_cases o with hs | hs <;> rw [hs] <;>
        by_cases hr : rowEq (padSpec cfg (!left) o.vals) row = true <;>
        by_cases c1 : c + sx = 0 <;>
        by_cases c2 : c = 0 <;>
        simp [hr, c1, c2] <;> omega
    · have h1 : ¬ cmpList key ko = 0 := fun h => h0 (cmpList_eq_symm h)
      simp [repTerm, hso, h0, h1]

theorem padOther_delta_null {cfg : Cfg} {left : Bool} {x : Rec} (hx : storedKey cfg left x = none)
    (Pm Po : List Rec) (row : Row) :
    wsum (fun o => padTerm cfg (!left) (Pm ++ [x]) row o - padTerm cfg (!left) Pm row o) Po = 0 := by
  have : ∀ o ∈ Po, padTerm cfg (!left) (Pm ++ [x]) row o - padTerm cfg (!left) Pm row o = (fun _ => (0 : Int)) o := by
    intro o _
    unfold padTerm
    rw [partners_append, sideMatch_flip, sideMatch_iff, hx]
    simp
  rw [wsum_congr this, wsum_zero]

/-! ### rows -/
theorem padRow_eq {cfg : Cfg} {left : Bool} {v : Row} (h : v.length = if left then cfg.nL else cfg.nR) :
    padRow cfg left v = padSpec cfg left v := by
  unfold padRow padSpec copyInto nulls
  cases left
  · simp only [Bool.false_eq_true, if_false] at h ⊢
    rw [h, List.take_of_length_le (by omega)]; simp
  · simp only [if_true] at h ⊢
    rw [h, List.take_of_length_le (by omega)]
    congr 1
    congr 1
    omega

theorem net_single (r : Rec) (row : Row) : net [r] row = r.weight row := by simp [net]

theorem net_padRec (cfg : Cfg) (left : Bool) (x : Rec) (row : Row) (h : x.vals.length = if left then cfg.nL else cfg.nR) :
    net [({ vals := padRow cfg left x.vals, retr := x.retr, et := x.et } : Rec)] row =
      if rowEq (padSpec cfg left x.vals) row then sgn x else 0 := by
  rw [net_single, weight_eq, padRow_eq h]; rfl

theorem net_nullRows' (cfg : Cfg) (left : Bool) (x : Rec) (retr : Bool) (row : Row) (s : Subs)
    (h : x.vals.length = if left then cfg.nL else cfg.nR) :
    net (nullRows left x retr s) row = (if retr then -1 else 1) * M (gPad cfg left row) s := by
  rw [net_nullRows]
  congr 1
  unfold gPad padSpec nulls
  cases left
  · simp only [Bool.false_eq_true, if_false, Bool.not_false, if_true] at h ⊢
    rw [h]
  · simp only [if_true, Bool.not_true, Bool.false_eq_true, if_false] at h ⊢
    rw [h]

theorem M_nil' (g : Row → Int) {s : Subs} (h : s.isEmpty = true) : M g s = 0 := by
  rw [List.isEmpty_iff.mp h]; rfl

/-! ### OuterJoin.receiveRecord -/
theorem ojRecv_store {cfg : Cfg} (hc : cfg.nullMatch = false) {left : Bool} {tm to : Tree} {Pm Po : List Rec} {x : Rec}
    {my' : Option Tree} {em : List Rec}
    (hm : Rep cfg left tm Pm) (ho : Rep cfg (!left) to Po)
    (hsh : x.vals.length = if left then cfg.nL else cfg.nR)
    (h : ojRecv cfg (some tm) (some to) left x = some (my', em)) :
    ∃ tm', my' = some tm' ∧ Rep cfg left tm' (Pm ++ [x]) ∧
      ∀ row, net em row = sideW (outerW cfg) left (Pm ++ [x]) Po row - sideW (outerW cfg) left Pm Po row := by
  unfold ojRecv at h
  cases hk : keyOf (if left then cfg.keysL else cfg.keysR) x.vals with
  | none => rw [hk] at h; simp at h
  | some key =>
    rw [hk] at h
    simp only [hc, Bool.not_false, Bool.true_and] at h
    by_cases hn : hasNull key = true
    · -- a key with NULL: an unmatched row, never stored
      rw [if_pos hn] at h
      have h := Option.some.inj h
      have h1 : my' = some tm := (congrArg Prod.fst h).symm
      have h2 : em = _ := (congrArg Prod.snd h).symm
      subst h1
      have hx := keyOf_storedKey_null hk hn
      refine ⟨tm, rfl, rep_skip hm hx, fun row => ?_⟩
      rw [sideOuter_eq, sideOuter_eq, sideJoin_append, sidePair_sum_null hk hn, padW_append_my, padW_append_other,
        padOther_delta_null hx]
      have hp : padTerm cfg left Po row x = if rowEq (padSpec cfg left x.vals) row then sgn x else 0 := by
        unfold padTerm; rw [partners_self_none hx]; simp
      rw [hp, h2]
      generalize padW cfg left Pm Po row = Q1
      generalize padW cfg (!left) Po Pm row = Q2
      generalize sideW (joinW cfg) left Pm Po row = J
      cases hmo : (if left = true then cfg.outerL else cfg.outerR) <;>
        cases hoo : (if left = true then cfg.outerR else cfg.outerL) <;>
        simp only [Bool.false_eq_true, if_false, if_true, net, net_padRec cfg left x row hsh] <;>
        (try split) <;> omega
    · have hn' : hasNull key = false := by cases hh : hasNull key <;> simp_all
      rw [if_neg hn] at h
      have hx := keyOf_storedKey hk hn'
      cases hs : store tm key x with
      | none => rw [hs] at h; simp at h
      | some res =>
        rw [hs] at h
        simp only at h
        have sp := store_spec hm.1 key x hs
        have hcnt := sp.2.1 key _ congr_one
        simp only [cmpList_refl, if_true, Int.mul_one] at hcnt
        have hpad := padOther_delta hx hm ho
        have hpart : partners cfg left x Po = M (fun _ => 1) (subsOf key to) := by
          rw [partners_self hx, ho.2 key _ congr_one]
        have hwf := subsOf_wf ho.1 key
        by_cases he : (subsOf key to).isEmpty = true
        · rw [if_pos he] at h
          have h := Option.some.inj h
          have h1 : my' = some res.tree := (congrArg Prod.fst h).symm
          have h2 : em = _ := (congrArg Prod.snd h).symm
          subst h1
          refine ⟨res.tree, rfl, rep_store hm hx hs, fun row => ?_⟩
          rw [sideOuter_eq, sideOuter_eq, sideJoin_append, sidePair_sum hk hn' ho, padW_append_my, padW_append_other,
            hpad row, M_nil' _ he, M_nil' _ he]
          have hp : padTerm cfg left Po row x = if rowEq (padSpec cfg left x.vals) row then sgn x else 0 := by
            unfold padTerm; rw [hpart, M_nil' _ he]; simp
          rw [hp, h2]
          generalize padW cfg left Pm Po row = Q1
          generalize padW cfg (!left) Po Pm row = Q2
          generalize sideW (joinW cfg) left Pm Po row = J
          cases hmo : (if left = true then cfg.outerL else cfg.outerR) <;>
            cases hoo : (if left = true then cfg.outerR else cfg.outerL) <;>
            simp only [Bool.false_eq_true, if_false, if_true, net, net_padRec cfg left x row hsh, Int.mul_zero] <;>
            (try split) <;> omega
        · rw [if_neg he] at h
          have h := Option.some.inj h
          have h1 : my' = some res.tree := (congrArg Prod.fst h).symm
          have h2 : em = _ := (congrArg Prod.snd h).symm
          subst h1
          refine ⟨res.tree, rfl, rep_store hm hx hs, fun row => ?_⟩
          have hne : subsOf key to ≠ [] := fun h' => he (by simp [h'])
          have hpos := M_one_pos hwf hne
          have hp : padTerm cfg left Po row x = 0 := by
            unfold padTerm; rw [hpart]
            have : ¬ M (fun _ => 1) (subsOf key to) = 0 := by omega
            simp [this]
          rw [sideOuter_eq, sideOuter_eq, sideJoin_append, sidePair_sum hk hn' ho, padW_append_my, padW_append_other,
            hpad row, hp, h2, net_append, net_append, net_joinRows']
          rw [sp.2.2.1, sp.2.2.2, hcnt]
          have hN1 : net (nullRows left x true (subsOf key to)) row = -1 * M (gPad cfg left row) (subsOf key to) := by
            rw [net_nullRows' cfg left x true row _ hsh]; simp
          have hN2 : net (nullRows left x false (subsOf key to)) row = 1 * M (gPad cfg left row) (subsOf key to) := by
            rw [net_nullRows' cfg left x false row _ hsh]; simp
          clear hpad
          generalize nullRows left x true (subsOf key to) = N1 at hN1 ⊢
          generalize nullRows left x false (subsOf key to) = N2 at hN2 ⊢
          generalize M (gJoin left x.vals row) (subsOf key to) = A
          generalize M (gPad cfg left row) (subsOf key to) = P at hN1 hN2 ⊢
          generalize M (fun _ => 1) (subsOf key tm) = c
          generalize padW cfg left Pm Po row = Q1
          generalize padW cfg (!left) Po Pm row = Q2
          generalize sideW (joinW cfg) left Pm Po row = J
          have hsx := sgn_cases x
          generalize sgn x = sx at hsx ⊢
          rcases hsx with rfl | rfl
          · cases hmo : (if left = true then cfg.outerL else cfg.outerR) <;>
              cases hoo : (if left = true then cfg.outerR else cfg.outerL) <;>
              by_cases c1 : c = 0 <;> by_cases c2 : c + 1 = 0 <;>
              first
                | (exfalso; omega)
                | (simp [c1, c2, net, hN1, hN2] <;> omega)
          · cases hmo : (if left = true then cfg.outerL else cfg.outerR) <;>
              cases hoo : (if left = true then cfg.outerR else cfg.outerL) <;>
              by_cases c1 : c = 0 <;> by_cases c2 : c + -1 = 0 <;>
              first
                | (exfalso; omega)
                | (simp [c1, c2, net, hN1, hN2] <;> omega)

end Octo.Join
