import Octo.Lemmas.CmpLaws
import Octo.Model.JoinSpec
/-!
  Basics for the join proofs (C19 / C02): `cmpList` is a total preorder (from the C09 lemmas),
  row equivalence, weighted sums over record lists, the order on `time.Time` values.
-/
namespace Octo.Join
open Octo

/-! ### cmpList laws -/
theorem cmp_list_eq (xs ys : List Value) : cmp (.list xs) (.list ys) = cmpList xs ys := by
  simp [cmp, cmpList, cmpWith]

theorem cmpList_refl (a : Row) : cmpList a a = 0 := by
  rw [← cmp_list_eq]; exact cmpWith_refl cmpFloatFixed_laws _
theorem cmpList_antisymm (a b : Row) : cmpList a b = - cmpList b a := by
  rw [← cmp_list_eq, ← cmp_list_eq]; exact cmpWith_antisymm cmpFloatFixed_laws _ _
theorem cmpList_trans (a b c : Row) : cmpList a b ≤ 0 → cmpList b c ≤ 0 → cmpList a c ≤ 0 := by
  rw [← cmp_list_eq, ← cmp_list_eq, ← cmp_list_eq]; exact cmpWith_trans cmpFloatFixed_laws _ _ _

theorem cmpList_eq_symm {a b : Row} (h : cmpList a b = 0) : cmpList b a = 0 := by
  have := cmpList_antisymm a b; omega
theorem cmpList_eq_trans {a b c : Row} (h1 : cmpList a b = 0) (h2 : cmpList b c = 0) : cmpList a c = 0 := by
  have t1 := cmpList_trans a b c (by omega) (by omega)
  have t2 := cmpList_trans c b a (by have := cmpList_antisymm c b; omega) (by have := cmpList_antisymm b a; omega)
  have := cmpList_antisymm a c
  omega

/-- equivalent keys compare alike against any third key -/
theorem cmpList_congr_left {a b : Row} (h : cmpList a b = 0) (c : Row) :
    (cmpList a c < 0 ↔ cmpList b c < 0) ∧ (cmpList a c = 0 ↔ cmpList b c = 0) := by
  have hba := cmpList_eq_symm h
  have t1 := cmpList_trans a b c
  have t2 := cmpList_trans b a c
  have t3 := cmpList_trans c a b
  have t4 := cmpList_trans c b a
  have a1 := cmpList_antisymm a c
  have a2 := cmpList_antisymm b c
  constructor <;> constructor <;> intro _ <;> omega

theorem cmpList_congr_right {a b : Row} (h : cmpList a b = 0) (c : Row) :
    (cmpList c a < 0 ↔ cmpList c b < 0) ∧ (cmpList c a = 0 ↔ cmpList c b = 0) := by
  have := cmpList_congr_left h c
  have a1 := cmpList_antisymm a c
  have a2 := cmpList_antisymm b c
  have hba := cmpList_eq_symm h
  have t1 := cmpList_trans a b c
  have t2 := cmpList_trans b a c
  have t3 := cmpList_trans c a b
  have t4 := cmpList_trans c b a
  constructor <;> constructor <;> intro _ <;> omega

theorem cmpList_lt_trans {a b c : Row} (h1 : cmpList a b < 0) (h2 : cmpList b c ≤ 0) : cmpList a c < 0 := by
  have t1 := cmpList_trans a b c (by omega) h2
  have t2 := cmpList_trans b c a
  have a1 := cmpList_antisymm a c
  have a2 := cmpList_antisymm a b
  omega

theorem cmpList_le_lt_trans {a b c : Row} (h1 : cmpList a b ≤ 0) (h2 : cmpList b c < 0) : cmpList a c < 0 := by
  have t1 := cmpList_trans a b c h1 (by omega)
  have t2 := cmpList_trans c a b
  have a1 := cmpList_antisymm a c
  have a2 := cmpList_antisymm b c
  omega

/-! ### rowEq -/
theorem rowEq_iff {a b : Row} : rowEq a b = true ↔ cmpList a b = 0 := by simp [rowEq]
theorem rowEq_refl (a : Row) : rowEq a a = true := by simp [rowEq, cmpList_refl]
theorem rowEq_symm (a b : Row) : rowEq a b = rowEq b a := by
  have := cmpList_antisymm a b
  simp only [rowEq]; rw [Bool.eq_iff_iff]; simp only [beq_iff_eq]; omega
theorem rowEq_congr_left {a b : Row} (h : cmpList a b = 0) (c : Row) : rowEq a c = rowEq b c := by
  have := (cmpList_congr_left h c).2
  simp only [rowEq]; rw [Bool.eq_iff_iff]; simp only [beq_iff_eq]; exact this
theorem rowEq_congr_right {a b : Row} (h : cmpList a b = 0) (c : Row) : rowEq c a = rowEq c b := by
  rw [rowEq_symm c a, rowEq_symm c b]; exact rowEq_congr_left h c

/-- a function on rows that does not distinguish equivalent rows -/
def Congr (g : Row → Int) : Prop := ∀ a b, cmpList a b = 0 → g a = g b

theorem cmpList_nil_left (b : Row) : cmpList [] b = 0 ↔ b = [] := by
  cases b <;> simp [cmpList, cmpListWith]
theorem cmpList_nil_right (a : Row) : cmpList a [] = 0 ↔ a = [] := by
  cases a <;> simp [cmpList, cmpListWith]

theorem cmpList_cons_eq (x y : Value) (xs ys : Row) :
    cmpList (x :: xs) (y :: ys) = 0 ↔ cmp x y = 0 ∧ cmpList xs ys = 0 := by
  simp only [cmpList, cmpListWith, cmp]
  by_cases h : cmpWith cmpFloatFixed x y = 0
  · simp [h]
  · simp [h]

theorem cmpList_append_left (a x y : Row) : cmpList (a ++ x) (a ++ y) = cmpList x y := by
  induction a with
  | nil => rfl
  | cons v a ih =>
    have : cmp v v = 0 := cmpWith_refl cmpFloatFixed_laws v
    simp only [List.cons_append, cmpList, cmpListWith] at *
    simp only [cmp] at this
    simp [this, ih]

theorem cmpList_eq_length : ∀ {a b : Row}, cmpList a b = 0 → a.length = b.length
  | [], [], _ => rfl
  | [], _ :: _, h => by simp [cmpList, cmpListWith] at h
  | _ :: _, [], h => by simp [cmpList, cmpListWith] at h
  | x :: xs, y :: ys, h => by
    have := (cmpList_cons_eq x y xs ys).mp h
    simp [cmpList_eq_length this.2]

theorem cmpList_append_eq : ∀ {x x' : Row} (a a' : Row), cmpList x x' = 0 → cmpList a a' = 0 →
    cmpList (x ++ a) (x' ++ a') = 0
  | [], [], _, _, _, h => h
  | [], _ :: _, _, _, h, _ => by simp [cmpList, cmpListWith] at h
  | _ :: _, [], _, _, h, _ => by simp [cmpList, cmpListWith] at h
  | x :: xs, y :: ys, a, a', h, h' => by
    have := (cmpList_cons_eq x y xs ys).mp h
    exact (cmpList_cons_eq x y _ _).mpr ⟨this.1, cmpList_append_eq a a' this.2 h'⟩

/-! ### hasNull respects row equivalence -/
theorem cmp_null_left (v : Value) : cmp .null v = 0 ↔ v = .null := by
  cases v <;> simp [cmp, cmpWith, Value.rank]
theorem cmp_null_right (v : Value) : cmp v .null = 0 ↔ v = .null := by
  cases v <;> simp [cmp, cmpWith, Value.rank]

theorem hasNull_congr : ∀ {a b : Row}, cmpList a b = 0 → hasNull a = hasNull b
  | [], [], _ => rfl
  | [], _ :: _, h => by simp [cmpList, cmpListWith] at h
  | _ :: _, [], h => by simp [cmpList, cmpListWith] at h
  | x :: xs, y :: ys, h => by
    have hh := (cmpList_cons_eq x y xs ys).mp h
    have ih := hasNull_congr hh.2
    cases x <;> cases y <;> simp_all [hasNull, cmp, cmpWith, Value.rank]

/-! ### weighted sums -/
def wsum (f : Rec → Int) : List Rec → Int
  | [] => 0
  | r :: rs => f r + wsum f rs

theorem wsum_nil (f : Rec → Int) : wsum f [] = 0 := rfl
theorem wsum_cons (f : Rec → Int) (r : Rec) (rs : List Rec) : wsum f (r :: rs) = f r + wsum f rs := rfl
theorem wsum_append (f : Rec → Int) (a b : List Rec) : wsum f (a ++ b) = wsum f a + wsum f b := by
  induction a with
  | nil => simp [wsum]
  | cons r rs ih => simp [wsum, ih]; omega
theorem wsum_single (f : Rec → Int) (r : Rec) : wsum f [r] = f r := by simp [wsum]
theorem wsum_perm {f : Rec → Int} {a b : List Rec} (h : List.Perm a b) : wsum f a = wsum f b := by
  induction h with
  | nil => rfl
  | cons x _ ih => simp [wsum, ih]
  | swap x y l => simp [wsum]; omega
  | trans _ _ ih1 ih2 => omega
theorem wsum_congr {f g : Rec → Int} {l : List Rec} (h : ∀ r ∈ l, f r = g r) : wsum f l = wsum g l := by
  induction l with
  | nil => rfl
  | cons r rs ih =>
    simp only [wsum]
    rw [h r (by simp), ih (fun x hx => h x (by simp [hx]))]
theorem wsum_zero (l : List Rec) : wsum (fun _ => 0) l = 0 := by
  induction l with
  | nil => rfl
  | cons r rs ih => simp [wsum, ih]
theorem wsum_add (f g : Rec → Int) (l : List Rec) : wsum (fun r => f r + g r) l = wsum f l + wsum g l := by
  induction l with
  | nil => rfl
  | cons r rs ih => simp only [wsum, ih]; omega
theorem wsum_sub (f g : Rec → Int) (l : List Rec) : wsum (fun r => f r - g r) l = wsum f l - wsum g l := by
  induction l with
  | nil => rfl
  | cons r rs ih => simp only [wsum, ih]; omega
theorem wsum_mul_left (c : Int) (f : Rec → Int) (l : List Rec) : wsum (fun r => c * f r) l = c * wsum f l := by
  induction l with
  | nil => simp [wsum]
  | cons r rs ih => simp only [wsum, ih, Int.mul_add]
theorem wsum_filter (p : Rec → Bool) (f : Rec → Int) (l : List Rec) :
    wsum f (l.filter p) = wsum (fun r => if p r then f r else 0) l := by
  induction l with
  | nil => rfl
  | cons r rs ih =>
    by_cases h : p r
    · simp [List.filter, h, wsum, ih]
    · simp [List.filter, h, wsum, ih]

theorem net_eq_wsum (l : List Rec) (row : Row) : net l row = wsum (fun r => r.weight row) l := by
  induction l with
  | nil => rfl
  | cons r rs ih => simp [net, wsum, ih]

theorem net_perm {a b : List Rec} (h : List.Perm a b) (row : Row) : net a row = net b row := by
  rw [net_eq_wsum, net_eq_wsum]; exact wsum_perm h

theorem sgn_cases (r : Rec) : sgn r = 1 ∨ sgn r = -1 := by
  unfold sgn; split <;> simp

/-! ### time.Time order (`none` = zero time, least) -/
theorem after_irrefl (a : T) : after a a = false := by
  cases a <;> simp [after]
theorem after_none_right (t : Int) : after (some t) none = true := rfl
theorem after_none_left (a : T) : after none a = false := by cases a <;> rfl
/-- `¬ c.After(a)` and `¬ b.After(c)` … : `≤` is transitive -/
theorem not_after_trans {a b c : T} (h1 : after a b = false) (h2 : after b c = false) : after a c = false := by
  cases a <;> cases b <;> cases c <;> simp_all [after] <;> omega
theorem after_of_after_of_not_after {a b c : T} (h1 : after a b = true) (h2 : after c b = false) : after a c = true := by
  cases a <;> cases b <;> cases c <;> simp_all [after] <;> omega
theorem after_trans' {a b c : T} (h1 : after a b = true) (h2 : after b c = true) : after a c = true := by
  cases a <;> cases b <;> cases c <;> simp_all [after] <;> omega
theorem not_after_of_after {a b : T} (h : after a b = true) : after b a = false := by
  cases a <;> cases b <;> simp_all [after] <;> omega
theorem after_total {a b : T} (h : after a b = false) (h' : after b a = false) : a = b := by
  cases a <;> cases b <;> simp_all [after] <;> omega

end Octo.Join
