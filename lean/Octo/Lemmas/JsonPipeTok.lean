import Octo.Lemmas.JsonPipeFrame
/-! The token invariant of the JSON pipeline: in every reachable state, for every pipe,
`len(outChanAvailableTokens) = (jobs of the pipe between token acquisition and token release) + len(outChan)`. -/
namespace Octo.JsonPipe

/-- the reader holds a token whose job it has not yet submitted -/
def holdCnt (r : RPc) : Nat := if r = .hold then 1 else 0
/-- the consumer received a batch and has not yet given its token back -/
def ctokCnt (c : CPc) : Nat := match c with | .tok _ => 1 | _ => 0

/-- jobs of pipe `p` that hold a token but are not in `outChan`: held by the reader before submission, in the job
channel, at a worker, or just received by the consumer -/
def inflight (s : State) (p : Nat) : Nat :=
  holdCnt (s.pipe p).rpc + inJobs s.jobs p + busyWith s.worker p s.nw + ctokCnt (s.pipe p).cpc

structure TokInv (s : State) : Prop where
  /-- every job that is on its way, and every batch in `outChan`, holds a token -/
  le : ∀ p, p < s.np → inflight s p + (s.pipe p).out.length ≤ (s.pipe p).tokens
  /-- … and until the pipe is cancelled (workers may then drop jobs) there are no other tokens -/
  eq : ∀ p, p < s.np → (s.pipe p).cancelled = false → (s.pipe p).tokens = inflight s p + (s.pipe p).out.length
  cap : ∀ p, p < s.np → (s.pipe p).tokens ≤ tokCap
  jobsValid : ∀ j, j ∈ s.jobs → j.pipe < s.np
  workersValid : ∀ w j, s.worker w = some j → j.pipe < s.np

/-- the general preservation argument: per pipe, `tokens - inflight - len(outChan)` does not change — or the pipe is
cancelled and the difference only grows (a worker dropped a job; its token is never given back) -/
theorem tokInv_of {s s' : State} (h : TokInv s) (hnp : s'.np = s.np)
    (hd : ∀ q, q < s.np →
      (inflight s' q + (s'.pipe q).out.length + (s.pipe q).tokens = inflight s q + (s.pipe q).out.length + (s'.pipe q).tokens
        ∧ ((s'.pipe q).cancelled = false → (s.pipe q).cancelled = false))
      ∨ ((s'.pipe q).cancelled = true
        ∧ inflight s' q + (s'.pipe q).out.length + (s.pipe q).tokens ≤ inflight s q + (s.pipe q).out.length + (s'.pipe q).tokens))
    (hcap : ∀ q, q < s.np → (s'.pipe q).tokens ≤ tokCap)
    (hj : ∀ j, j ∈ s'.jobs → j.pipe < s.np) (hw : ∀ w j, s'.worker w = some j → j.pipe < s.np) : TokInv s' := by
  refine ⟨fun q hq => ?_, fun q hq hcq => ?_, fun q hq => ?_, fun j hjm => ?_, fun w j hwj => ?_⟩
  · rw [hnp] at hq
    have := h.le q hq
    rcases hd q hq with ⟨h1, _⟩ | ⟨_, h1⟩ <;> omega
  · rw [hnp] at hq
    rcases hd q hq with ⟨h1, h2⟩ | ⟨h1, _⟩
    · have := h.eq q hq (h2 hcq); omega
    · rw [h1] at hcq; contradiction
  · rw [hnp] at hq; exact hcap q hq
  · rw [hnp]; exact hj j hjm
  · rw [hnp]; exact hw w j hwj

theorem tokInv_setPipe {s : State} (h : TokInv s) {p : Nat} (hp : p < s.np) (P' : Pipe)
    (heq : P'.tokens + holdCnt (s.pipe p).rpc + ctokCnt (s.pipe p).cpc + (s.pipe p).out.length
         = (s.pipe p).tokens + holdCnt P'.rpc + ctokCnt P'.cpc + P'.out.length)
    (hcap : P'.tokens ≤ tokCap) (hc : P'.cancelled = false → (s.pipe p).cancelled = false) :
    TokInv (s.setPipe p P') := by
  apply tokInv_of h
  · rfl
  · intro q hq
    left
    by_cases hqp : q = p
    · subst hqp
      refine ⟨?_, by simpa using hc⟩
      simp only [inflight, setPipe_pipe_same, setPipe_jobs, setPipe_worker, setPipe_nw]
      omega
    · have e : (s.setPipe p P').pipe q = s.pipe q := setPipe_pipe_ne s P' hqp
      refine ⟨?_, by rw [e]; exact id⟩
      simp only [inflight, e, setPipe_jobs, setPipe_worker, setPipe_nw]
  · intro q hq
    by_cases hqp : q = p
    · subst hqp; simpa using hcap
    · simpa [setPipe_pipe_ne s P' hqp] using h.cap q hq
  · exact h.jobsValid
  · exact h.workersValid

theorem tokCap_le_outCap : tokCap ≤ outCap := by decide
theorem tokCap_pos : 0 < tokCap := by decide
theorem jobCap_pos : 0 < jobCap := by decide
theorem tokCap_le_jobCap : tokCap ≤ jobCap := by decide

theorem step_tokInv {s s' : State} {a : Action} (h : TokInv s) (hs : step s a = some s') : TokInv s' := by
  cases a with
  | rTok p =>
    simp only [step] at hs
    split at hs
    · rename_i hg
      injection hs with hs; subst hs
      apply tokInv_setPipe h hg.1
      · simp [holdCnt, hg.2.1]
      · simp; omega
      · exact id
    · contradiction
  | rStop p =>
    simp only [step] at hs
    split at hs
    · rename_i hg
      injection hs with hs; subst hs
      apply tokInv_setPipe h hg.1
      · simp [holdCnt, hg.2.1]
      · simpa using h.cap p hg.1
      · exact id
    · contradiction
  | rSub p =>
    simp only [step] at hs
    split at hs
    · rename_i hg
      injection hs with hs; subst hs
      obtain ⟨hp, hpc, hlen⟩ := hg
      apply tokInv_of h
      · rfl
      · intro q hq
        left
        by_cases hqp : q = p
        · subst hqp
          refine ⟨?_, by simp [Pipe.cancelled]⟩
          simp only [inflight, setPipe_pipe_same, setPipe_worker, setPipe_nw, inJobs_append, holdCnt, hpc, cnt]
          simp
          omega
        · have hne : ¬ p = q := fun e => hqp e.symm
          refine ⟨?_, by simp [setPipe_pipe_ne s _ hqp]⟩
          simp only [inflight, setPipe_pipe_ne s _ hqp, setPipe_worker, setPipe_nw, inJobs_append, cnt]
          simp [hne]
      · intro q hq
        by_cases hqp : q = p
        · subst hqp; simpa using h.cap q hq
        · simpa [setPipe_pipe_ne s _ hqp] using h.cap q hq
      · intro j hj
        simp only [List.mem_append, List.mem_singleton] at hj
        rcases hj with hj | rfl
        · exact h.jobsValid j hj
        · exact hp
      · exact h.workersValid
    · contradiction
  | rWrite p =>
    simp only [step] at hs
    split at hs
    · rename_i hg
      injection hs with hs; subst hs
      apply tokInv_setPipe h hg.1
      · by_cases h0 : (s.pipe p).unread - (s.pipe p).cur = 0 <;> simp [holdCnt, hg.2, h0]
      · simpa using h.cap p hg.1
      · exact id
    · contradiction
  | rDone p =>
    simp only [step] at hs
    split at hs
    · rename_i hg
      injection hs with hs; subst hs
      apply tokInv_setPipe h hg.1
      · simp [holdCnt, hg.2]
      · simpa using h.cap p hg.1
      · exact id
    · contradiction
  | wTake w k =>
    simp only [step] at hs
    split at hs
    · rename_i hg
      split at hs
      · rename_i j rest hta
        injection hs with hs; subst hs
        obtain ⟨hw, hnone⟩ := hg
        obtain ⟨hm1, hm2, _⟩ := takeAt_mem hta
        apply tokInv_of h
        · rfl
        · intro q hq
          left
          have h2 := takeAt_inJobs hta q
          have h3 := busyWith_update s.worker q s.nw w (some j) hw
          simp only [hnone, jobCnt] at h3
          simp only [inflight, State.setWorker, cnt] at *
          refine ⟨?_, id⟩
          split at h2 <;> split at h3 <;> simp_all <;> omega
        · exact h.cap
        · exact fun j' hj' => h.jobsValid j' (hm2 j' hj')
        · intro v j' hv
          simp only [State.setWorker] at hv
          split at hv
          · injection hv with hv; subst hv; exact h.jobsValid _ hm1
          · exact h.workersValid v j' hv
      · contradiction
    · contradiction
  | wSend w =>
    simp only [step] at hs
    split at hs
    · rename_i j hj
      split at hs
      · rename_i hg
        injection hs with hs; subst hs
        obtain ⟨hw, hlen⟩ := hg
        have hjp := h.workersValid w j hj
        apply tokInv_of h
        · rfl
        · intro q hq
          left
          have h3 := busyWith_update s.worker q s.nw w none hw
          simp only [hj, jobCnt] at h3
          by_cases hqp : q = j.pipe
          · subst hqp
            simp only [inflight, setPipe_pipe_same, setPipe_worker, setPipe_nw, setPipe_jobs, State.setWorker,
              List.length_append, List.length_singleton] at *
            simp at h3
            exact ⟨by omega, id⟩
          · simp only [inflight, setPipe_pipe_ne _ _ hqp, setPipe_worker, setPipe_nw, setPipe_jobs, State.setWorker] at *
            have : ¬ j.pipe = q := fun e => hqp e.symm
            simp [this] at h3
            exact ⟨by omega, id⟩
        · intro q hq
          by_cases hqp : q = j.pipe
          · subst hqp; simpa using h.cap _ hq
          · simpa [setPipe_pipe_ne _ _ hqp] using h.cap q hq
        · exact h.jobsValid
        · intro v j' hv
          simp only [setPipe_worker, State.setWorker] at hv
          split at hv
          · contradiction
          · exact h.workersValid v j' hv
      · contradiction
    · contradiction
  | wDrop w =>
    simp only [step] at hs
    split at hs
    · rename_i j hj
      split at hs
      · rename_i hg
        injection hs with hs; subst hs
        obtain ⟨hw, hc⟩ := hg
        apply tokInv_of h
        · rfl
        · intro q hq
          have h3 := busyWith_update s.worker q s.nw w none hw
          simp only [hj, jobCnt] at h3
          by_cases hqp : q = j.pipe
          · subst hqp
            right
            simp only [inflight, State.setWorker] at *
            simp at h3
            exact ⟨hc, by omega⟩
          · left
            have : ¬ j.pipe = q := fun e => hqp e.symm
            simp only [inflight, State.setWorker] at *
            simp [this] at h3
            exact ⟨by omega, id⟩
        · exact h.cap
        · exact h.jobsValid
        · intro v j' hv
          simp only [State.setWorker] at hv
          split at hv
          · contradiction
          · exact h.workersValid v j' hv
      · contradiction
    · contradiction
  | cRecv p k =>
    simp only [step] at hs
    split at hs
    · rename_i hg
      split at hs
      · rename_i j rest hta
        injection hs with hs; subst hs
        apply tokInv_setPipe h hg.1
        · have := takeAt_length hta
          simp [ctokCnt, hg.2, this]; omega
        · simpa using h.cap p hg.1
        · exact id
      · contradiction
    · contradiction
  | cTok p =>
    simp only [step] at hs
    split at hs
    · rename_i j hj
      split at hs
      · rename_i hg
        injection hs with hs; subst hs
        apply tokInv_setPipe h hg.1
        · simp [ctokCnt, hj]; omega
        · have := h.cap p hg.1; simp; omega
        · exact id
      · contradiction
    · contradiction
  | cProc p =>
    simp only [step] at hs
    split at hs
    · rename_i j hj
      split at hs
      · rename_i hg
        injection hs with hs; subst hs
        obtain ⟨fr, hc⟩ := procBatch_frame (s.pipe p) j
        apply tokInv_setPipe h hg
        · rw [fr.tokens, fr.rpc, fr.out]
          rcases hc with hc | hc <;> simp [hc, hj, ctokCnt]
        · rw [fr.tokens]; exact h.cap p hg
        · rw [fr.cancelled]; exact id
      · contradiction
    · contradiction
  | cDone p =>
    simp only [step] at hs
    split at hs
    · rename_i hg
      split at hs
      · injection hs with hs; subst hs
        apply tokInv_setPipe h hg.1
        · simp [ctokCnt, hg.2.1]
        · simpa using h.cap p hg.1
        · exact id
      · injection hs with hs; subst hs
        apply tokInv_setPipe h hg.1
        · split <;> simp [ctokCnt, hg.2.1]
        · split <;> simpa using h.cap p hg.1
        · split <;> exact id
      · contradiction
    · contradiction
  | cCtx p =>
    simp only [step] at hs
    split at hs
    · rename_i hg
      injection hs with hs; subst hs
      apply tokInv_setPipe h hg.1
      · simp [ctokCnt, hg.2.1]
      · simpa using h.cap p hg.1
      · exact id
    · contradiction
  | cCancel p =>
    simp only [step] at hs
    split at hs
    · rename_i hg
      injection hs with hs; subst hs
      apply tokInv_setPipe h hg.1
      · simp [ctokCnt, hg.2]
      · simpa using h.cap p hg.1
      · simp [Pipe.cancelled]
    · contradiction
  | pCancel p =>
    simp only [step] at hs
    split at hs
    · rename_i hg
      injection hs with hs; subst hs
      apply tokInv_setPipe h hg.1
      · simp
      · simpa using h.cap p hg.1
      · simp [Pipe.cancelled]
    · contradiction
  | rTrunc p u =>
    simp only [step] at hs
    split at hs
    · rename_i hg
      injection hs with hs; subst hs
      apply tokInv_setPipe h hg.1
      · have : holdCnt (if (s.pipe p).rpc = .sel ∧ u = 0 then RPc.fin else (s.pipe p).rpc) = holdCnt (s.pipe p).rpc := by
          split
          · rename_i hc; simp [holdCnt, hc.1]
          · rfl
        simp [this]
      · simpa using h.cap p hg.1
      · exact id
    · contradiction

end Octo.JsonPipe
