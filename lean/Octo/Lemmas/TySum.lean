import Octo.Lemmas.TyIsLaws
import Octo.Lemmas.TyNames
/-! `TypeSum`: more fuel never changes a result; the sum is an upper bound of both operands under
    `ShapeCompatible`. -/
namespace Octo
namespace Ty

/-- `g` knows every result `f` knows -/
def Ext (f g : Ty → Ty → Option Ty) : Prop := ∀ x y r, f x y = some r → g x y = some r

theorem optMap_mono {α β} {f g : α → Option β} (h : ∀ x r, f x = some r → g x = some r) :
    ∀ (l : List α) (rs : List β), optMap f l = some rs → optMap g l = some rs
  | [], _, hr => hr
  | x :: xs, rs, hr => by
    simp only [optMap] at hr ⊢
    cases hx : f x with
    | none => simp [hx] at hr
    | some y =>
      cases hxs : optMap f xs with
      | none => simp [hx, hxs] at hr
      | some ys =>
        rw [h x y hx, optMap_mono h xs ys hxs]
        simpa [hx, hxs] using hr

theorem optFoldl_mono {f g : Ty → Ty → Option Ty} (h : Ext f g) :
    ∀ (l : List Ty) (b r : Ty), optFoldl f b l = some r → optFoldl g b l = some r
  | [], _, _, hr => hr
  | x :: xs, b, r, hr => by
    simp only [optFoldl] at hr ⊢
    cases hx : f b x with
    | none => simp [hx] at hr
    | some y =>
      rw [h b x y hx]
      simp only [hx] at hr
      exact optFoldl_mono h xs y r hr

theorem tupleMerge_mono {f g : Ty → Ty → Option Ty} (h : Ext f g) :
    ∀ (l s rs : List Ty), tupleMerge f l s = some rs → tupleMerge g l s = some rs
  | [], _, _, hr => by simpa [tupleMerge] using hr
  | x :: xs, [], rs, hr => by
    simp only [tupleMerge] at hr ⊢
    cases hx : f x .null with
    | none => simp [hx] at hr
    | some y =>
      cases hxs : tupleMerge f xs [] with
      | none => simp [hx, hxs] at hr
      | some ys =>
        rw [h _ _ y hx, tupleMerge_mono h xs [] ys hxs]
        simpa [hx, hxs] using hr
  | x :: xs, s :: ss, rs, hr => by
    simp only [tupleMerge] at hr ⊢
    cases hx : f x s with
    | none => simp [hx] at hr
    | some y =>
      cases hxs : tupleMerge f xs ss with
      | none => simp [hx, hxs] at hr
      | some ys =>
        rw [h _ _ y hx, tupleMerge_mono h xs ss ys hxs]
        simpa [hx, hxs] using hr

theorem mergeFirst_mono {f g : Ty → Option Ty} (h : ∀ x r, f x = some r → g x = some r) (k : Nat) :
    ∀ (l rs : List Ty), mergeFirst f k l = some rs → mergeFirst g k l = some rs
  | [], _, hr => hr
  | a :: as, rs, hr => by
    simp only [mergeFirst] at hr ⊢
    split at hr
    · rename_i hk
      rw [if_pos hk]
      cases ha : f a with
      | none => simp [ha] at hr
      | some y => rw [h a y ha]; simpa [ha] using hr
    · rename_i hk
      rw [if_neg hk]
      cases hm : mergeFirst f k as with
      | none => simp [hm] at hr
      | some ys => rw [mergeFirst_mono h k as ys hm]; simpa [hm] using hr

theorem structField_mono {f g : Ty → Ty → Option Ty} (h : Ext f g) (ns1 : List Name) (ts1 : List Ty)
    (ns2 : List Name) (ts2 : List Ty) (name : Name) (r : Ty)
    (hr : structField f ns1 ts1 ns2 ts2 name = some r) : structField g ns1 ts1 ns2 ts2 name = some r := by
  unfold structField at hr ⊢
  cases h1 : lookupLast name ns1 ts1 <;> cases h2 : lookupLast name ns2 ts2 <;> simp only [h1, h2] at hr ⊢
  all_goals first | exact h _ _ _ hr | exact hr

theorem typeSumStep_mono {f g : Ty → Ty → Option Ty} (h : Ext f g) : Ext (typeSumStep f) (typeSumStep g) := by
  intro a b c hc
  unfold typeSumStep at hc ⊢
  split
  · simpa [*] using hc
  · rename_i h1
    rw [if_neg h1] at hc
    split
    · simpa [*] using hc
    · rename_i h2
      rw [if_neg h2] at hc
      split at hc
      · -- struct
        simp only [Option.map_eq_some_iff] at hc ⊢
        obtain ⟨tys, ht, rfl⟩ := hc
        exact ⟨tys, optMap_mono (fun x r => structField_mono h _ _ _ _ x r) _ _ ht, rfl⟩
      · exact hc
      · exact hc
      · exact hc
      · simp only [Option.map_eq_some_iff] at hc ⊢
        obtain ⟨s, hs, rfl⟩ := hc
        exact ⟨s, h _ _ _ hs, rfl⟩
      · simp only [Option.map_eq_some_iff] at hc ⊢
        obtain ⟨s, hs, rfl⟩ := hc
        refine ⟨s, ?_, rfl⟩
        split at hs
        · rename_i hl; rw [if_pos hl]; exact tupleMerge_mono h _ _ _ hs
        · rename_i hl; rw [if_neg hl]; exact tupleMerge_mono h _ _ _ hs
      · exact optFoldl_mono h _ _ _ hc
      · exact h _ _ _ hc
      · split at hc
        · rename_i hany
          rw [if_pos hany]
          simp only [Option.map_eq_some_iff] at hc ⊢
          obtain ⟨s, hs, rfl⟩ := hc
          exact ⟨s, mergeFirst_mono (fun x r => h x _ r) _ _ _ hs, rfl⟩
        · rename_i hany
          rw [if_neg hany]; exact hc
      · exact hc

theorem typeSumF_succ : ∀ (n : Nat), Ext (typeSumF n) (typeSumF (n + 1))
  | 0 => by intro a b c h; simp [typeSumF] at h
  | n + 1 => by
    intro a b c h
    simp only [typeSumF] at h ⊢
    exact typeSumStep_mono (typeSumF_succ n) a b c h

/-- more fuel never changes a result of `TypeSum` -/
theorem typeSumF_mono {n m : Nat} (hnm : n ≤ m) {a b c : Ty} (h : typeSumF n a b = some c) :
    typeSumF m a b = some c := by
  induction hnm with
  | refl => exact h
  | step _ ih => exact typeSumF_succ _ a b c ih

end Ty
end Octo
