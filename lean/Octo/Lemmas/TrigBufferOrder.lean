import Octo.Lemmas.TrigBuffer
/-!
  The event-time buffer keeps the relative order of the records of one event time (`filter_et_buffer`).
  Hence, when the event time of a record is determined by its row (e.g. the event time *is* a column, as it
  is whenever the stream is grouped by its time field), a valid changelog is still valid in the order in
  which the buffer releases it (`validLog_buffer`): the second validity hypothesis of C16 follows from the first.
-/
namespace Octo.Trig
open Octo Octo.TMap

/-- the records whose event time is `τ` -/
def etIs (τ : Option Int) (l : List Rec) : List Rec := l.filter fun r => r.et == τ

theorem etIs_append (τ : Option Int) (a b : List Rec) : etIs τ (a ++ b) = etIs τ a ++ etIs τ b := by
  simp [etIs]

/-- every buffered record sits in the bucket of its own event time -/
def Disc (b : Buf) : Prop := ∀ e ∈ b, ∀ r ∈ e.2, r.et = some e.1

/-- the bucket of event time `τ` -/
def bucket (τ : Option Int) (b : Buf) : List Rec :=
  match τ with
  | none => []
  | some t =>
    match find intLess t b with
    | some e => e.2
    | none => []

theorem etIs_of_all (τ : Option Int) (l : List Rec) (t : Int) (h : ∀ r ∈ l, r.et = some t) :
    etIs τ l = if τ = some t then l else [] := by
  induction l with
  | nil => simp [etIs]
  | cons r rs ih =>
    have hr := h r (by simp)
    have := ih (fun x hx => h x (by simp [hx]))
    simp only [etIs, List.filter_cons, hr] at this ⊢
    by_cases hτ : τ = some t
    · subst hτ; simp only [beq_self_eq_true, if_true] at this ⊢; rw [this]
    · have : (some t == τ) = false := by
        simp only [beq_eq_false_iff_ne, ne_eq]; exact fun h => hτ h.symm
      simp_all

theorem etIs_content (τ : Option Int) (b : Buf) (hd : Disc b) (hn : NoDup intLess b) :
    etIs τ (b.flatMap (·.2)) = bucket τ b := by
  induction b with
  | nil => cases τ <;> simp [etIs, bucket, find]
  | cons e es ih =>
    simp only [NoDup, List.pairwise_cons] at hn
    have hde : Disc es := fun x hx => hd x (by simp [hx])
    have ihes := ih hde hn.2
    have he := etIs_of_all τ e.2 e.1 (hd e (by simp))
    simp only [List.flatMap_cons, etIs_append, he, ihes]
    cases τ with
    | none => simp [bucket]
    | some t =>
      simp only [bucket, find, eqv_intLess, Option.some.injEq]
      by_cases hte : t = e.1
      · subst hte
        have : find intLess e.1 es = none := by
          rw [find_none_iff]
          intro x hx
          have := hn.1 x hx
          rw [eqv_intLess] at this ⊢
          exact this
        simp [this]
      · have hte' : ¬ e.1 = t := fun h => hte h.symm
        simp [hte, hte']

theorem bufAdd_disc (t : Int) (r : Rec) (b : Buf) (hr : r.et = some t) (hd : Disc b) : Disc (bufAdd t r b) := by
  simp only [bufAdd]
  cases hf : find intLess t b with
  | none =>
    intro e he
    rcases mem_insert.mp he with h1 | h1
    · rw [h1]; intro x hx; simp only [List.mem_singleton] at hx; rw [hx]; exact hr
    · exact hd e h1.1
  | some e0 =>
    have hm := find_some_mem hf
    have heq : t = e0.1 := by
      have := hm.2
      rw [eqv_intLess] at this
      simpa using this
    intro e he
    rcases mem_insert.mp he with h1 | h1
    · rw [h1]; intro x hx
      simp only [List.mem_append, List.mem_singleton] at hx
      rcases hx with hx | hx
      · exact hd e0 hm.1 x hx
      · rw [hx, ← heq]; exact hr
    · exact hd e h1.1

theorem bucket_bufAdd (τ : Option Int) (t : Int) (r : Rec) (b : Buf) (hr : r.et = some t) :
    bucket τ (bufAdd t r b) = bucket τ b ++ etIs τ [r] := by
  cases τ with
  | none => simp [bucket, etIs, hr]
  | some t' =>
    simp only [bucket, bufAdd, etIs, List.filter_cons, List.filter_nil, hr]
    cases hf : find intLess t b with
    | none =>
      simp only [find_insert intLaws, eqv_intLess]
      by_cases htt : t = t'
      · subst htt; simp [hf]
      · have : ¬ some t = some t' := by simpa using htt
        simp [htt, this]
    | some e0 =>
      have hm := find_some_mem hf
      have heq : t = e0.1 := by
        have := hm.2
        rw [eqv_intLess] at this
        simpa using this
      simp only [find_insert intLaws, eqv_intLess]
      by_cases htt : t = t'
      · subst htt
        have : e0.1 = t := heq.symm
        simp [this, hf]
      · have h1 : ¬ e0.1 = t' := by rw [← heq]; exact htt
        have h2 : ¬ some t = some t' := by simpa using htt
        simp [h1, h2, htt]

theorem etIs_cons (τ : Option Int) (r : Rec) (l : List Rec) : etIs τ (r :: l) = etIs τ [r] ++ etIs τ l := by
  have : r :: l = [r] ++ l := rfl
  rw [this, etIs_append]

theorem recs_bufStep_wm (b : Buf) (w : Int) : recs (bufStep b (.wm w)).2 = (bufEmit w b).1 := by
  simp only [bufStep, recs_append, recs_map_data, recs, List.append_nil]

theorem bufStep_wm_fst (b : Buf) (w : Int) : (bufStep b (.wm w)).1 = (bufEmit w b).2 := rfl

structure BufInv2 (b : Buf) : Prop where
  inv : BufInv b
  disc : Disc b

/-- **the buffer keeps the order of the records of one event time** -/
theorem bufFold_order (τ : Option Int) (b : Buf) (s : List Msg) (h : BufInv2 b) (hs : EtInRange s) :
    BufInv2 (bufFold b s).1 ∧
    etIs τ (recs (bufFold b s).2) ++ etIs τ ((bufFold b s).1.flatMap (·.2)) =
      etIs τ (b.flatMap (·.2)) ++ etIs τ (recs s) := by
  induction s generalizing b with
  | nil => exact ⟨h, by simp [bufFold, recs, etIs]⟩
  | cons m ms ih =>
    have hs' : EtInRange ms := by
      intro r hr t ht
      cases m with
      | data r0 => exact hs r (by simp [recs, hr]) t ht
      | wm w => exact hs r (by simpa [recs] using hr) t ht
    cases m with
    | data r =>
      cases het : r.et with
      | none =>
        have := ih b h hs'
        refine ⟨by simpa [bufFold, bufStep, het] using this.1, ?_⟩
        -- an unbuffered record (zero event time) commutes with everything buffered
        have hnone : etIs τ [r] ++ etIs τ (b.flatMap (·.2)) = etIs τ (b.flatMap (·.2)) ++ etIs τ [r] := by
          rw [etIs_content τ b h.disc h.inv.nodup]
          cases τ with
          | none => simp [bucket]
          | some t => simp [etIs, het]
        simp only [bufFold, bufStep, het, recs_append, recs, List.cons_append, List.nil_append]
        rw [etIs_cons τ r (recs (bufFold b ms).2), etIs_cons τ r (recs ms), List.append_assoc, this.2,
          ← List.append_assoc, hnone, List.append_assoc]
      | some t =>
        have ht : t ≤ maxNs := hs r (by simp [recs]) t het
        have h1 : BufInv2 (bufAdd t r b) :=
          ⟨(bufAdd_inv t r b ht h.inv []).1, bufAdd_disc t r b het h.disc⟩
        have := ih _ h1 hs'
        refine ⟨by simpa [bufFold, bufStep, het] using this.1, ?_⟩
        simp only [bufFold, bufStep, het, recs_append, recs, List.nil_append]
        rw [this.2, etIs_content τ _ h1.disc h1.inv.nodup, bucket_bufAdd τ t r b het,
          ← etIs_content τ b h.disc h.inv.nodup, etIs_cons τ r (recs ms), List.append_assoc]
    | wm w =>
      have h1 : BufInv2 (bufEmit w b).2 :=
        ⟨(bufEmit_inv w b h.inv []).1, fun e he => h.disc e ((List.dropWhile_sublist _).subset he)⟩
      have := ih _ h1 hs'
      refine ⟨by simpa [bufFold, bufStep] using this.1, ?_⟩
      simp only [bufFold, recs_append, etIs_append, recs_bufStep_wm, bufStep_wm_fst, List.append_assoc, recs]
      rw [this.2]
      simp only [bufEmit]
      rw [← List.append_assoc, ← etIs_append, ← List.flatMap_append, List.takeWhile_append_dropWhile]

theorem filter_et_buffer (τ : Option Int) (s : List Msg) (hs : EtInRange s) :
    etIs τ (recs (buffer s)) = etIs τ (recs s) := by
  have h0 : BufInv2 ([] : Buf) := ⟨⟨List.Pairwise.nil, fun e he => by cases he⟩, fun e he => by cases he⟩
  have h := bufFold_order τ [] s h0 hs
  have hdrop : (bufEmit maxNs (bufFold [] s).1).2 = [] := by
    simp only [bufEmit]
    apply dropWhile_all
    intro e he
    simpa using h.1.inv.range e he
  have hall : (bufEmit maxNs (bufFold [] s).1).1 = (bufFold [] s).1.flatMap (·.2) := by
    have := List.takeWhile_append_dropWhile (p := fun e : Int × List Rec => decide (e.1 ≤ maxNs)) (l := (bufFold [] s).1)
    simp only [bufEmit] at hdrop ⊢
    rw [hdrop, List.append_nil] at this
    rw [this]
  simp only [buffer, recs_append, recs_map_data, etIs_append, hall]
  have := h.2
  simpa [etIs] using this

/-! ### validity survives the reordering when the event time is determined by the row -/
/-- records with (pointwise `Compare`-)equal values carry the same event time -/
def EtByRow (L : List Rec) : Prop := ∀ r ∈ L, ∀ r' ∈ L, rowEq r.vals r'.vals = true → r.et = r'.et

theorem filter_take_prefix {α : Type} (p : α → Bool) (l : List α) (n : Nat) :
    ∃ m, (l.take n).filter p = (l.filter p).take m := by
  refine ⟨((l.take n).filter p).length, ?_⟩
  have hpre : (l.take n).filter p <+: l.filter p := (List.take_prefix n l).filter p
  obtain ⟨t, ht⟩ := hpre
  rw [← ht, List.take_left]

theorem mem_recs_buffer (s : List Msg) (hs : EtInRange s) (r : Rec) (hr : r ∈ recs (buffer s)) : r ∈ recs s := by
  have h1 : r ∈ etIs r.et (recs (buffer s)) := by simp [etIs, hr]
  rw [filter_et_buffer r.et s hs] at h1
  exact (List.mem_filter.mp h1).1

theorem class_filter_buffer (s : List Msg) (hs : EtInRange s) (hE : EtByRow (recs s)) (ρ : Row) :
    (recs (buffer s)).filter (fun r => rowEq r.vals ρ) = (recs s).filter (fun r => rowEq r.vals ρ) := by
  -- the records of the class of ρ all carry one event time τ (when there are any)
  by_cases hex : ∃ r0 ∈ recs s, rowEq r0.vals ρ = true
  · obtain ⟨r0, hr0, hq0⟩ := hex
    have hτ : ∀ r ∈ recs s, rowEq r.vals ρ = true → r.et = r0.et := by
      intro r hr hq
      exact hE r hr r0 hr0 (rowEq_trans hq (rowEq_symm hq0))
    have hsplit : ∀ L : List Rec, (∀ r ∈ L, r ∈ recs s) →
        L.filter (fun r => rowEq r.vals ρ) = (etIs r0.et L).filter (fun r => rowEq r.vals ρ) := by
      intro L hL
      simp only [etIs, List.filter_filter]
      apply List.filter_congr
      intro r hr
      by_cases hq : rowEq r.vals ρ = true
      · simp [hq, hτ r (hL r hr) hq]
      · simp [hq]
    rw [hsplit _ (fun r hr => mem_recs_buffer s hs r hr), hsplit _ (fun r hr => hr), filter_et_buffer _ s hs]
  · have hnone : ∀ L : List Rec, (∀ r ∈ L, r ∈ recs s) → L.filter (fun r => rowEq r.vals ρ) = [] := by
      intro L hL
      rw [List.filter_eq_nil_iff]
      intro r hr hq
      exact hex ⟨r, hL r hr, hq⟩
    rw [hnone _ (fun r hr => mem_recs_buffer s hs r hr), hnone _ (fun r hr => hr)]

theorem congr_classOf (ρ : Row) : RowCongr fun row => rowEq row ρ := by
  intro a b h
  show keq a ρ = keq b ρ
  exact keq_congr_left h ρ

/-- **a valid changelog whose event times are determined by the rows is still valid as the buffer releases it** -/
theorem validLog_buffer (s : List Msg) (hs : EtInRange s) (hE : EtByRow (recs s)) (hv : ValidLog (recs s)) :
    ValidLog (recs (buffer s)) := by
  intro n row
  have h1 : net ((recs (buffer s)).take n) row =
      net (((recs (buffer s)).take n).filter fun r => rowEq r.vals row) row := by
    rw [net_filter _ (congr_classOf row)]; simp [rowEq_refl]
  obtain ⟨m, hm⟩ := filter_take_prefix (fun r : Rec => rowEq r.vals row) (recs (buffer s)) n
  obtain ⟨m', hm'⟩ := take_filter_exists (fun r : Rec => rowEq r.vals row) (recs s) m
  rw [h1, hm, class_filter_buffer s hs hE row, hm', net_filter _ (congr_classOf row)]
  simp only [rowEq_refl, if_true]
  exact hv m' row

end Octo.Trig
