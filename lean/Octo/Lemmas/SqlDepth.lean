import Octo.Lemmas.SqlPrint
/-!
# The nesting depth of a tree is at most the number of tokens it prints to (C30)

Needed to discharge the fuel of `parseStmt` (which is the length of its input).  No well-formedness is needed here.
-/
set_option linter.unusedSimpArgs false
namespace Octo.SqlSyn
open Gen

attribute [local simp] Fmt.run runSteps runPieces evalConds lookup ListFmt.run

def totalLen : List (List Tok) → Nat
  | [] => 0
  | x :: xs => x.length + totalLen xs

theorem items_totalLen (sep : List Tok) (xs : List (List Tok)) : totalLen xs ≤ (ListFmt.items sep xs).length := by
  induction xs with
  | nil => simp [totalLen]
  | cons x xs ih => simp [totalLen, ListFmt.items] <;> try omega

theorem run_totalLen (f : ListFmt) (xs : List (List Tok)) : totalLen xs ≤ (f.run xs).length := by
  cases xs with
  | nil => simp [totalLen]
  | cons x xs =>
    have := items_totalLen f.sep xs
    simp [ListFmt.run, totalLen] <;> try omega

/-! shapes that hold without well-formedness (only lengths matter) -/
theorem len_field (e : Expr) (name : String) : (printE e).length + 1 ≤ (printE (.field e name)).length := by
  simp [printE, fmt_ObjectFieldAccess] <;> try omega
theorem len_func (qual name : String) (distinct : Bool) (args : List Expr) :
    (list_SelectExprs.run (printEs args)).length + 1 ≤ (printE (.func qual name distinct args)).length := by
  cases distinct <;> by_cases h : qual = "" <;> simp [printE, fmt_FuncExpr, h] <;> omega
theorem len_aliased (e : Expr) (a : String) : (printE e).length ≤ (printE (.aliased e a)).length := by
  by_cases h : a = "" <;> simp [printE, fmt_AliasedExpr, h]
theorem len_order (e : Expr) (desc : Bool) : (printE e).length ≤ (printE (.order e desc)).length := by
  cases desc with
  | true => simp [printE_order_desc]
  | false => rcases printE_order_asc e with h | h <;> simp [h]
theorem len_sub (s : Sel) (a : String) : (printS s).length + 1 ≤ (printT (.sub s a)).length := by
  by_cases h : a = "" <;> simp [printT, fmt_AliasedTableExpr, fmt_Subquery, h] <;> omega
theorem len_tvf (name : String) (args : List Tbl) (a : String) :
    (list_TableValuedFunctionArguments.run (printTs args)).length ≤ (printT (.tvf name args a)).length := by
  simp [printT, fmt_TableValuedFunction] <;> try omega
theorem len_argE (name : String) (e : Expr) : (printE e).length + 1 ≤ (printT (.argE name e)).length := by
  simp [printT, fmt_TableValuedFunctionArgument, fmt_ExprTableValuedFunctionArgumentValue] <;> try omega
theorem len_argT (name : String) (t : Tbl) : (printT t).length + 1 ≤ (printT (.argT name t)).length := by
  simp [printT, fmt_TableValuedFunctionArgument, fmt_TableDescriptorTableValuedFunctionArgumentValue] <;> try omega
theorem len_cte (name : String) (s : Sel) : (printS s).length + 1 ≤ (printS (.cte name s)).length := by
  simp [printS, fmt_CommonTableExpression] <;> try omega
theorem len_join (l : Tbl) (strat : Strategy) (kind : JoinKind) (r : Tbl) (on : Option Expr) (us : List String) :
    (printT l).length + (joinToks strat kind).length + (printT r).length +
      (match on with
       | some e => (printE e).length + 1
       | none => 0) ≤ (printT (.join l strat kind r on us)).length := by
  cases on <;> simp [printT_join, printJoinCond] <;> omega
theorem len_joinToks (strat : Strategy) (kind : JoinKind) : 1 ≤ (joinToks strat kind).length := by
  cases kind <;> simp [joinToks, JoinKind.toks, c_JoinStr, c_LeftJoinStr, c_RightJoinStr, c_OuterJoinStr, c_NaturalJoinStr,
    c_NaturalLeftJoinStr, c_NaturalRightJoinStr] <;> omega
theorem len_whereK (k : Kw) (w : Option Expr) :
    (match w with
     | some e => (printE e).length
     | none => 0) ≤ (printWhereK k w).length := by
  cases w <;> simp [printWhereK]
theorem len_limit (lo lc : Option Expr) :
    (match lc with
     | none => 0
     | some c => (match lo with
       | some e => (printE e).length
       | none => 0) + (printE c).length) ≤ (printLimit lo lc).length := by
  cases lo <;> cases lc <;> simp [printLimit] <;> omega

attribute [-simp] ListFmt.run

theorem sizeE_mem {es : List Expr} {e : Expr} (h : e ∈ es) : sizeE e ≤ sizeEs es := by
  induction es with
  | nil => simp at h
  | cons x xs ih =>
    simp at h
    rcases h with rfl | h
    · simp [sizeEs]; omega
    · have := ih h; simp [sizeEs]; omega
theorem sizeT_mem {ts : List Tbl} {t : Tbl} (h : t ∈ ts) : sizeT t ≤ sizeTs ts := by
  induction ts with
  | nil => simp at h
  | cons x xs ih =>
    simp at h
    rcases h with rfl | h
    · simp [sizeTs]; omega
    · have := ih h; simp [sizeTs]; omega
theorem sizeS_mem {ss : List Sel} {s : Sel} (h : s ∈ ss) : sizeS s ≤ sizeSs ss := by
  induction ss with
  | nil => simp at h
  | cons x xs ih =>
    simp at h
    rcases h with rfl | h
    · simp [sizeSs]; omega
    · have := ih h; simp [sizeSs]; omega

theorem depthEs_le (es : List Expr) (h : ∀ e ∈ es, depthE e ≤ (printE e).length) :
    depthEs es ≤ totalLen (printEs es) := by
  induction es with
  | nil => simp [depthEs, printEs, totalLen]
  | cons x xs ih =>
    have h1 := h x (by simp)
    have h2 := ih (fun e he => h e (by simp [he]))
    simp [depthEs, printEs, totalLen]; omega
theorem depthTs_le (ts : List Tbl) (h : ∀ t ∈ ts, depthT t ≤ (printT t).length) :
    depthTs ts ≤ totalLen (printTs ts) := by
  induction ts with
  | nil => simp [depthTs, printTs, totalLen]
  | cons x xs ih =>
    have h1 := h x (by simp)
    have h2 := ih (fun e he => h e (by simp [he]))
    simp [depthTs, printTs, totalLen]; omega
theorem depthSs_le (ss : List Sel) (h : ∀ s ∈ ss, depthS s ≤ (printS s).length) :
    depthSs ss ≤ totalLen (printSs ss) := by
  induction ss with
  | nil => simp [depthSs, printSs, totalLen]
  | cons x xs ih =>
    have h1 := h x (by simp)
    have h2 := ih (fun e he => h e (by simp [he]))
    simp [depthSs, printSs, totalLen]; omega

theorem depth_le_len : ∀ n,
    (∀ e, sizeE e ≤ n → depthE e ≤ (printE e).length) ∧
    (∀ t, sizeT t ≤ n → depthT t ≤ (printT t).length) ∧
    (∀ s, sizeS s ≤ n → depthS s ≤ (printS s).length) := by
  intro n
  induction n with
  | zero =>
    refine ⟨fun e h => ?_, fun t h => ?_, fun s h => ?_⟩
    · cases e <;> simp [sizeE] at h
    · cases t <;> simp [sizeT] at h
    · cases s <;> simp [sizeS] at h
  | succ n ih =>
    obtain ⟨ihE, ihT, ihS⟩ := ih
    have ihEs : ∀ es : List Expr, sizeEs es ≤ n → depthEs es ≤ totalLen (printEs es) :=
      fun es h => depthEs_le es (fun e he => ihE e (by have := sizeE_mem he; omega))
    have ihTs : ∀ ts : List Tbl, sizeTs ts ≤ n → depthTs ts ≤ totalLen (printTs ts) :=
      fun ts h => depthTs_le ts (fun e he => ihT e (by have := sizeT_mem he; omega))
    have ihSs : ∀ ss : List Sel, sizeSs ss ≤ n → depthSs ss ≤ totalLen (printSs ss) :=
      fun ss h => depthSs_le ss (fun e he => ihS e (by have := sizeS_mem he; omega))
    have ihOE : ∀ (k : Kw) (w : Option Expr), sizeOE w ≤ n → depthOE w ≤ (printWhereK k w).length := by
      intro k w h
      cases w with
      | none => simp [depthOE]
      | some e => simp [sizeOE] at h; have := ihE e (by omega); simp [depthOE, printWhereK]; omega
    refine ⟨fun e h => ?_, fun t h => ?_, fun s h => ?_⟩
    · cases e with
      | and l r =>
        simp [sizeE] at h; have := ihE l (by omega); have := ihE r (by omega)
        simp [depthE, printE_and]; omega
      | or l r =>
        simp [sizeE] at h; have := ihE l (by omega); have := ihE r (by omega)
        simp [depthE, printE_or]; omega
      | not e => simp [sizeE] at h; have := ihE e (by omega); simp [depthE, printE_not]; omega
      | paren e => simp [sizeE] at h; have := ihE e (by omega); simp [depthE, printE_paren]; omega
      | cmp op l r =>
        simp [sizeE] at h; have := ihE l (by omega); have := ihE r (by omega)
        simp [depthE, printE_cmp]; omega
      | is op e => simp [sizeE] at h; have := ihE e (by omega); simp [depthE, printE_is]; omega
      | exists_ s => simp [sizeE] at h; have := ihS s (by omega); simp [depthE, printE_exists]; omega
      | val _ _ _ => simp [depthE]
      | null => simp [depthE]
      | bool _ => simp [depthE]
      | col _ _ _ => simp [depthE]
      | tuple es =>
        simp [sizeE] at h; have := ihEs es (by omega); have := run_totalLen list_Exprs (printEs es)
        simp [depthE, printE_tuple]; omega
      | subq s => simp [sizeE] at h; have := ihS s (by omega); simp [depthE, printE_subq]; omega
      | bin op l r =>
        simp [sizeE] at h; have := ihE l (by omega); have := ihE r (by omega)
        simp [depthE, printE_bin]; omega
      | index l i =>
        simp [sizeE] at h; have := ihE l (by omega); have := ihE i (by omega)
        simp [depthE, printE_index]; omega
      | un op e => simp [sizeE] at h; have := ihE e (by omega); simp [depthE, printE_un]; omega
      | interval e u => simp [sizeE] at h; have := ihE e (by omega); simp [depthE, printE_interval]; omega
      | func q nm dst args =>
        simp [sizeE] at h; have := ihEs args (by omega); have := run_totalLen list_SelectExprs (printEs args)
        have := len_func q nm dst args
        simp [depthE]; omega
      | convert e t => simp [sizeE] at h; have := ihE e (by omega); simp [depthE, printE_convert]; omega
      | field e nm => simp [sizeE] at h; have := ihE e (by omega); have := len_field e nm; simp [depthE]; omega
      | star _ _ => simp [depthE]
      | aliased e a => simp [sizeE] at h; have := ihE e (by omega); have := len_aliased e a; simp [depthE]; omega
      | explode e => simp [sizeE] at h; have := ihE e (by omega); simp [depthE, printE_explode]; omega
      | trigCount e => simp [sizeE] at h; have := ihE e (by omega); simp [depthE, printE_trigCount]; omega
      | trigWm => simp [depthE]
      | trigEos => simp [depthE]
      | trigDelay e => simp [sizeE] at h; have := ihE e (by omega); simp [depthE, printE_trigDelay]; omega
      | order e dsc => simp [sizeE] at h; have := ihE e (by omega); have := len_order e dsc; simp [depthE]; omega
    · cases t with
      | table _ _ _ => simp [depthT]
      | sub s a => simp [sizeT] at h; have := ihS s (by omega); have := len_sub s a; simp [depthT]; omega
      | paren ts =>
        simp [sizeT] at h; have := ihTs ts (by omega); have := run_totalLen list_TableExprs (printTs ts)
        simp [depthT, printT_paren]; omega
      | join l strat kind r on us =>
        simp [sizeT] at h
        have := ihT l (by omega); have := ihT r (by omega)
        have := len_join l strat kind r on us; have := len_joinToks strat kind
        cases on with
        | none => cases hk : kind.isOuter <;> simp [depthT, depthOE, hk] at * <;> omega
        | some e =>
          simp [sizeOE] at h
          have := ihE e (by omega)
          cases hk : kind.isOuter <;> simp [depthT, depthOE, hk] at * <;> omega
      | tvf nm args a =>
        simp [sizeT] at h; have := ihTs args (by omega)
        have := run_totalLen list_TableValuedFunctionArguments (printTs args); have := len_tvf nm args a
        simp [depthT]; omega
      | argE nm e => simp [sizeT] at h; have := ihE e (by omega); have := len_argE nm e; simp [depthT]; omega
      | argT nm t => simp [sizeT] at h; have := ihT t (by omega); have := len_argT nm t; simp [depthT]; omega
      | argD _ _ _ _ => simp [depthT]
    · cases s with
      | select dst exprs from_ where_ groupBy having trig orderBy limOff limCnt =>
        simp [sizeS] at h
        have h1 := ihEs exprs (by omega); have h1' := run_totalLen list_SelectExprs (printEs exprs)
        have h2 := ihTs from_ (by omega); have h2' := run_totalLen list_TableExprs (printTs from_)
        have h3 := ihOE .WHERE where_ (by omega)
        have h4 := ihEs groupBy (by omega); have h4' := run_totalLen list_GroupBy (printEs groupBy)
        have h5 := ihOE .HAVING having (by omega)
        have h6 := ihEs trig (by omega); have h6' := run_totalLen list_Triggers (printEs trig)
        have h7 := ihEs orderBy (by omega); have h7' := run_totalLen list_OrderBy (printEs orderBy)
        have h8 := len_limit limOff limCnt
        have h9 : (if limCnt.isSome = true then max (depthOE limOff) (depthOE limCnt) else 0) ≤
            (printLimit limOff limCnt).length := by
          cases limCnt with
          | none => simp
          | some c =>
            simp [sizeOE] at h
            have := ihE c (by omega)
            cases limOff with
            | none => simp [depthOE] at h8 ⊢; omega
            | some o =>
              simp [sizeOE] at h
              have := ihE o (by omega)
              simp [depthOE] at h8 ⊢; omega
        simp only [depthS, printS_select, List.length_cons, List.length_append]
        omega
      | with_ ctes s =>
        simp [sizeS] at h
        have := ihSs ctes (by omega); have := run_totalLen list_CommonTableExpressions (printSs ctes)
        have := ihS s (by omega)
        simp [depthS, printS_with]; omega
      | cte nm s => simp [sizeS] at h; have := ihS s (by omega); have := len_cte nm s; simp [depthS]; omega

theorem depthS_le_len (s : Sel) : depthS s ≤ (printS s).length := (depth_le_len (sizeS s)).2.2 s (Nat.le_refl _)

end Octo.SqlSyn
