import Octo.Spec.NumFuncs
/-!
  Octo.Lemmas.Coalesce — `ObjectLayoutFixer`: the mapping computed by `calculateMapping(target, source)` and applied by
  `fixLayout` re-lays a value of the source type out exactly as the specification `relayout` says, for all
  normal-form types (unions sorted by TypeID with one alternative per TypeID, distinct field names) where the
  target can host the source (`Fits`, what `TypeSum` produces).
-/
namespace Octo.Coal
open Octo Octo.Num Octo.Spec13

/-! ### generic list lemmas -/

theorem mapM_some_of_forall {α β : Type} (f : α → Option β) (g : α → β) (l : List α)
    (h : ∀ x, x ∈ l → f x = some (g x)) : l.mapM f = some (l.map g) := by
  induction l with
  | nil => rfl
  | cons a as ih =>
    rw [List.mapM_cons, h a (List.mem_cons_self ..), ih (fun x hx => h x (List.mem_cons_of_mem _ hx))]
    rfl

/-! ### views of a mapping: what `fixLayout` reads for each kind of value -/

def Mapping.stView (m : Mapping) : Option (List Int × List Mapping) := if m.hasSt then some (m.srcIdx, m.srcMap) else none
def Mapping.liView (m : Mapping) : Option Mapping := m.li.head?
def Mapping.tuView (m : Mapping) : Option (List Mapping) := if m.hasTu then some m.tu else none

theorem stView_merge (m1 m2 : Mapping) : (mergeMappings m1 m2).stView = (m2.stView).orElse (fun _ => m1.stView) := by
  cases m1; cases m2
  simp only [mergeMappings, Mapping.stView, Mapping.hasSt, Mapping.srcIdx, Mapping.srcMap]
  rename_i h1 _ _ _ _ _ h2 _ _ _ _ _
  cases h1 <;> cases h2 <;> simp

theorem tuView_merge (m1 m2 : Mapping) : (mergeMappings m1 m2).tuView = (m2.tuView).orElse (fun _ => m1.tuView) := by
  cases m1; cases m2
  simp only [mergeMappings, Mapping.tuView, Mapping.hasTu, Mapping.tu]
  rename_i _ _ _ _ h1 _ _ _ _ _ h2 _
  cases h1 <;> cases h2 <;> simp

theorem liView_merge (m1 m2 : Mapping) : (mergeMappings m1 m2).liView = (m2.liView).orElse (fun _ => m1.liView) := by
  cases m1; cases m2
  simp only [mergeMappings, Mapping.liView, Mapping.li]
  rename_i _ _ _ l1 _ _ _ _ _ l2 _ _
  cases l2 <;> simp

/-- `fixLayout` of an object only reads the Struct pointer of the mapping … -/
theorem fixLayout_struct_congr (fx : Nat) (m m' : Mapping) (xs : List Value) (h : m.stView = m'.stView) :
    fixLayout fx m (.struct xs) = fixLayout fx m' (.struct xs) := by
  cases fx with
  | zero => rfl
  | succ f =>
    cases m; cases m'
    simp only [Mapping.stView, Mapping.hasSt, Mapping.srcIdx, Mapping.srcMap] at h
    simp only [fixLayout, fixStruct, Mapping.hasSt, Mapping.srcIdx, Mapping.srcMap]
    rename_i h1 _ _ _ _ _ h2 _ _ _ _ _
    cases h1 <;> cases h2 <;> simp_all

/-- … of a tuple only the Tuple pointer … -/
theorem fixLayout_tuple_congr (fx : Nat) (m m' : Mapping) (xs : List Value) (h : m.tuView = m'.tuView) :
    fixLayout fx m (.tuple xs) = fixLayout fx m' (.tuple xs) := by
  cases fx with
  | zero => rfl
  | succ f =>
    cases m; cases m'
    simp only [Mapping.tuView, Mapping.hasTu, Mapping.tu] at h
    simp only [fixLayout, fixTuple, Mapping.hasTu, Mapping.tu]
    rename_i _ _ _ _ h1 _ _ _ _ _ h2 _
    cases h1 <;> cases h2 <;> simp_all

/-- … of a list only the List pointer. -/
theorem fixLayout_list_congr (fx : Nat) (m m' : Mapping) (xs : List Value) (h : m.liView = m'.liView) :
    fixLayout fx m (.list xs) = fixLayout fx m' (.list xs) := by
  cases fx with
  | zero => rfl
  | succ f =>
    cases m; cases m'
    simp only [Mapping.liView, Mapping.li] at h
    simp only [fixLayout, Mapping.li]
    rename_i _ _ _ l1 _ _ _ _ _ l2 _ _
    cases xs with
    | nil => rfl
    | cons x xs =>
      cases l1 <;> cases l2 <;> simp_all

/-! ### the merge over the alternatives of a source union -/

/-- the fold of `calculateMapping` over a source union succeeds when every alternative does -/
theorem fold_calc_some (cm : Ty → Option Mapping) (ma : Ty → Mapping) (alts : List Ty)
    (h : ∀ a, a ∈ alts → cm a = some (ma a)) (init : Mapping) :
    alts.foldl (fun acc alt =>
      match acc, cm alt with
      | some out, some m => some (mergeMappings out m)
      | _, _ => none) (some init)
    = some (alts.foldl (fun out a => mergeMappings out (ma a)) init) := by
  induction alts generalizing init with
  | nil => rfl
  | cons a as ih =>
    rw [List.foldl_cons, List.foldl_cons, h a (List.mem_cons_self ..)]
    exact ih (fun b hb => h b (List.mem_cons_of_mem _ hb)) _

/-- a view with the "later non-nil pointer wins" law -/
def MergeLaw {γ : Type} (view : Mapping → Option γ) : Prop :=
  ∀ m1 m2, view (mergeMappings m1 m2) = (view m2).orElse (fun _ => view m1)

theorem fold_view_none {γ : Type} (view : Mapping → Option γ) (law : MergeLaw view) (ma : Ty → Mapping)
    (alts : List Ty) (init : Mapping) (h : ∀ b, b ∈ alts → view (ma b) = none) :
    view (alts.foldl (fun out a => mergeMappings out (ma a)) init) = view init := by
  induction alts generalizing init with
  | nil => rfl
  | cons a as ih =>
    rw [List.foldl_cons, ih _ (fun b hb => h b (List.mem_cons_of_mem _ hb)), law, h a (List.mem_cons_self ..)]
    rfl

/-- the merged mapping shows, for a kind of value, the pointer of alternative `a`, provided no later alternative sets that
    pointer and either `a` sets it or nobody before does -/
theorem fold_view_eq {γ : Type} (view : Mapping → Option γ) (law : MergeLaw view) (ma : Ty → Mapping)
    (pre post : List Ty) (a : Ty) (init : Mapping)
    (hpost : ∀ b, b ∈ post → view (ma b) = none)
    (hpre : (view (ma a)).isSome = true ∨ (view init = none ∧ ∀ b, b ∈ pre → view (ma b) = none)) :
    view ((pre ++ a :: post).foldl (fun out b => mergeMappings out (ma b)) init) = view (ma a) := by
  rw [List.foldl_append, List.foldl_cons, fold_view_none view law ma post _ hpost, law]
  cases hpre with
  | inl hs =>
    cases hv : view (ma a) with
    | none => rw [hv] at hs; cases hs
    | some x => rfl
  | inr hn =>
    rw [fold_view_none view law ma pre init hn.2, hn.1]
    cases view (ma a) <;> rfl

/-! ### sizes -/

theorem ty_size_le_sizeList {a : Ty} {l : List Ty} (h : a ∈ l) : Ty.size a ≤ Ty.sizeList l := by
  induction l with
  | nil => cases h
  | cons b bs ih =>
    rw [Ty.sizeList]
    cases h with
    | head => omega
    | tail _ h' => have := ih h'; omega

theorem ty_size_lt_union {a : Ty} {alts : List Ty} (h : a ∈ alts) : Ty.size a < Ty.size (.union alts) := by
  have := ty_size_le_sizeList h; rw [Ty.size]; omega
theorem ty_size_lt_struct {a : Ty} {ns : List Name} {ts : List Ty} (h : a ∈ ts) : Ty.size a < Ty.size (.struct ns ts) := by
  have := ty_size_le_sizeList h; rw [Ty.size]; omega
theorem ty_size_lt_tuple {a : Ty} {ts : List Ty} (h : a ∈ ts) : Ty.size a < Ty.size (.tuple ts) := by
  have := ty_size_le_sizeList h; rw [Ty.size]; omega
theorem ty_size_lt_list (e : Ty) : Ty.size e < Ty.size (.list e) := by rw [Ty.size]; omega
theorem ty_size_pos (t : Ty) : 0 < Ty.size t := by cases t <;> simp [Ty.size] <;> omega

theorem value_size_le_sizeList {x : Value} {l : List Value} (h : x ∈ l) : Value.size x ≤ Value.sizeList l := by
  induction l with
  | nil => cases h
  | cons b bs ih =>
    rw [Value.sizeList]
    cases h with
    | head => omega
    | tail _ h' => have := ih h'; omega

/-! ### type predicates -/

/-- a concrete type: neither a union nor `Any` -/
def Concrete (t : Ty) : Prop := (∀ alts, t ≠ .union alts) ∧ t ≠ .any

/-- normal form of the types the engine builds: a union has concrete alternatives in strictly ascending TypeID order
    (`TypeSum` keeps one alternative per TypeID and sorts), object field names are distinct -/
inductive NormTy : Ty → Prop
  | scalar (t : Ty) : t.id ≤ 6 → NormTy t
  | listNil : NormTy .listNil
  | list (e : Ty) : NormTy e → NormTy (.list e)
  | struct (names : List Name) (tys : List Ty) : names.Nodup → names.length = tys.length →
      (∀ t, t ∈ tys → NormTy t) → NormTy (.struct names tys)
  | tuple (ts : List Ty) : (∀ t, t ∈ ts → NormTy t) → NormTy (.tuple ts)
  | union (alts : List Ty) : (∀ a, a ∈ alts → Concrete a) → (∀ a, a ∈ alts → NormTy a) →
      alts.Pairwise (fun a b => a.id < b.id) → NormTy (.union alts)

/-- the target type can host values of the source type (what the `TypeSum` of the argument types guarantees) -/
inductive Fits : Ty → Ty → Prop
  | srcUnion (t : Ty) (alts : List Ty) : (∀ a, a ∈ alts → Fits t a) → Fits t (.union alts)
  | tgtUnion (talts : List Ty) (s ta : Ty) : Concrete s → findAlt s.id talts = some ta → Fits ta s →
      Fits (.union talts) s
  | scalar (t s : Ty) : Concrete t → s.id ≤ 6 → Fits t s
  | struct (tn : List Name) (tt : List Ty) (sn : List Name) (st : List Ty) :
      (∀ n ft j sj, (n, ft) ∈ tn.zip tt → lastIndexOf sn n = some j → st[j]? = some sj → Fits ft sj) →
      Fits (.struct tn tt) (.struct sn st)
  | listNilSrc (te : Ty) : Fits (.list te) .listNil
  | listNilBoth : Fits .listNil .listNil
  | list (te se : Ty) : Fits te se → Fits (.list te) (.list se)
  | tuple (te se : List Ty) : se.length ≤ te.length →
      (∀ (i : Nat) ft sj, te[i]? = some ft → se[i]? = some sj → Fits ft sj) → Fits (.tuple te) (.tuple se)

/-! ### findAlt -/

theorem findAlt_some {tid : Nat} {alts : List Ty} {a : Ty} (h : findAlt tid alts = some a) : a ∈ alts ∧ a.id = tid := by
  induction alts with
  | nil => simp [findAlt] at h
  | cons b bs ih =>
    unfold findAlt at h
    by_cases hb : (b.id == tid) = true
    · rw [if_pos hb] at h
      injection h with h; subst h
      exact ⟨List.mem_cons_self .., by simpa using hb⟩
    · rw [if_neg hb] at h
      have := ih h
      exact ⟨List.mem_cons_of_mem _ this.1, this.2⟩

theorem findAlt_of_mem {alts : List Ty} {a : Ty} (hp : alts.Pairwise (fun a b => a.id < b.id)) (h : a ∈ alts) :
    findAlt a.id alts = some a := by
  induction alts with
  | nil => cases h
  | cons b bs ih =>
    unfold findAlt
    rw [List.pairwise_cons] at hp
    cases h with
    | head => simp
    | tail _ h' =>
      have hlt := hp.1 a h'
      have : ¬ (b.id == a.id) = true := by simp; omega
      rw [if_neg this]
      exact ih hp.2 h'

/-! ### conforms -/

theorem conformsEach_length {ts : List Ty} {xs : List Value} (h : conformsEach ts xs = true) : ts.length = xs.length := by
  induction ts generalizing xs with
  | nil => cases xs with
    | nil => rfl
    | cons _ _ => simp [conformsEach] at h
  | cons t ts ih => cases xs with
    | nil => simp [conformsEach] at h
    | cons x xs =>
      simp only [conformsEach, Bool.and_eq_true] at h
      simp [ih h.2]

theorem conformsEach_get {ts : List Ty} {xs : List Value} (h : conformsEach ts xs = true) {i : Nat} {t : Ty} {x : Value}
    (ht : ts[i]? = some t) (hx : xs[i]? = some x) : conforms t x = true := by
  induction ts generalizing xs i with
  | nil => simp at ht
  | cons t' ts ih => cases xs with
    | nil => simp at hx
    | cons x' xs =>
      simp only [conformsEach, Bool.and_eq_true] at h
      cases i with
      | zero => simp at ht hx; subst ht; subst hx; exact h.1
      | succ k => simp at ht hx; exact ih h.2 ht hx

theorem conformsAny_exists {alts : List Ty} {v : Value} (h : conformsAny alts v = true) :
    ∃ a, a ∈ alts ∧ conforms a v = true := by
  induction alts with
  | nil => simp [conformsAny] at h
  | cons b bs ih =>
    simp only [conformsAny, Bool.or_eq_true] at h
    cases h with
    | inl h => exact ⟨b, List.mem_cons_self .., h⟩
    | inr h => obtain ⟨a, ha, hc⟩ := ih h; exact ⟨a, List.mem_cons_of_mem _ ha, hc⟩

/-- a value of a concrete type has the TypeID of the type -/
theorem rank_of_conforms {a : Ty} {v : Value} (hc : Concrete a) (h : conforms a v = true) : v.rank = a.id := by
  obtain ⟨hu, ha⟩ := hc
  cases a with
  | union alts => exact absurd rfl (hu alts)
  | any => exact absurd rfl ha
  | _ => cases v <;> simp [conforms] at h <;> rfl

/-! ### field lookup by name -/

theorem lastIndexOf_go_not_mem (n : Name) (names : List Name) (h : n ∉ names) (i : Nat) (acc : Option Nat) :
    lastIndexOf.go n i acc names = acc ∧ firstIndexOf.go n i names = none := by
  induction names generalizing i acc with
  | nil => exact ⟨rfl, rfl⟩
  | cons m ms ih =>
    have hm : ¬ m = n := fun e => h (e ▸ List.mem_cons_self ..)
    have hms : n ∉ ms := fun e => h (List.mem_cons_of_mem _ e)
    have hb : (m == n) = false := by simp [hm]
    unfold lastIndexOf.go firstIndexOf.go
    simp only [hb, Bool.false_eq_true, if_false]
    exact ih hms _ _

theorem lastIndexOf_go_nodup (n : Name) (names : List Name) (hnd : names.Nodup) (i : Nat) (acc : Option Nat) :
    lastIndexOf.go n i acc names = (match firstIndexOf.go n i names with | some j => some j | none => acc) := by
  induction names generalizing i acc with
  | nil => rfl
  | cons m ms ih =>
    rw [List.nodup_cons] at hnd
    unfold lastIndexOf.go firstIndexOf.go
    by_cases hm : m = n
    · subst hm
      simp only [beq_self_eq_true, if_true]
      exact (lastIndexOf_go_not_mem m ms hnd.1 _ _).1
    · have hb : (m == n) = false := by simp [hm]
      simp only [hb, Bool.false_eq_true, if_false]
      exact ih hnd.2 _ _

/-- with distinct field names "the last index of the name" (Go's map fill) is "the index of the name" -/
theorem lastIndexOf_eq_first (n : Name) (names : List Name) (hnd : names.Nodup) :
    lastIndexOf names n = firstIndexOf names n := by
  unfold lastIndexOf firstIndexOf
  rw [lastIndexOf_go_nodup n names hnd]
  cases firstIndexOf.go n 0 names <;> rfl

theorem firstIndexOf_go_lt (n : Name) (names : List Name) (i j : Nat) (h : firstIndexOf.go n i names = some j) :
    i ≤ j ∧ j < i + names.length := by
  induction names generalizing i with
  | nil => simp [firstIndexOf.go] at h
  | cons m ms ih =>
    unfold firstIndexOf.go at h
    by_cases hb : (m == n) = true
    · rw [if_pos hb] at h; injection h with h; subst h; simp
    · rw [if_neg hb] at h
      have := ih _ h
      simp only [List.length_cons]; omega

theorem firstIndexOf_lt {n : Name} {names : List Name} {j : Nat} (h : firstIndexOf names n = some j) : j < names.length := by
  have := firstIndexOf_go_lt n names 0 j h; omega

/-! ### relayout -/

theorem altFor_concrete {t : Ty} (hc : Concrete t) (tid : Nat) : altFor tid t = t := by
  cases t with
  | union alts => exact absurd rfl (hc.1 alts)
  | _ => rfl

theorem altFor_union_of_mem {alts : List Ty} {a : Ty} (hp : alts.Pairwise (fun a b => a.id < b.id)) (h : a ∈ alts) :
    altFor a.id (.union alts) = a := by
  simp [altFor, findAlt_of_mem hp h]

/-- `relayout` looks at its types only through the alternative that the value belongs to -/
theorem relayout_congr (fr : Nat) (t t' s s' : Ty) (v : Value)
    (ht : altFor v.rank t = altFor v.rank t') (hs : altFor v.rank s = altFor v.rank s') :
    relayout fr t s v = relayout fr t' s' v := by
  cases fr with
  | zero => rfl
  | succ f => unfold relayout; rw [ht, hs]

/-- a value that is not an object, list or tuple -/
def IsLeaf : Value → Prop
  | .struct _ => False
  | .list _ => False
  | .tuple _ => False
  | _ => True

theorem relayout_leaf (fr : Nat) (t s : Ty) (v : Value) (h : IsLeaf v) : relayout fr t s v = v := by
  cases fr with
  | zero => rfl
  | succ f => unfold relayout; cases v <;> simp [IsLeaf] at h <;> rfl

theorem fixLayout_leaf (fx : Nat) (m : Mapping) (v : Value) (h : IsLeaf v) (hf : 1 ≤ fx) : fixLayout fx m v = some v := by
  cases fx with
  | zero => omega
  | succ f => cases v <;> simp [IsLeaf] at h <;> rfl

theorem leaf_of_conforms_scalar {s : Ty} {v : Value} (hs : s.id ≤ 6) (h : conforms s v = true) : IsLeaf v := by
  cases s <;> simp [Ty.id] at hs <;> cases v <;> simp [conforms] at h <;> trivial

/-! ### the statement proved by induction on the types -/

/-- applying mapping `m` re-lays every value of type `s` out as the specification says -/
def Good (m : Mapping) (t s : Ty) : Prop :=
  ∀ v fx fr, conforms s v = true → Value.size v + 1 ≤ fx → Value.size v + 1 ≤ fr →
    fixLayout fx m v = some (relayout fr t s v)

/-- which pointers the mapping of a concrete source type sets: decided by the kind of the target alternative -/
def Shape (m : Mapping) (t s : Ty) : Prop :=
  (m.stView.isSome = true ↔ (altFor s.id t).id = 8) ∧
  (m.liView.isSome = true → (altFor s.id t).id = 7 ∧ s.id = 7) ∧
  (m.tuView.isSome = true ↔ (altFor s.id t).id = 9)

def Solved (fm : Nat) (t s : Ty) : Prop :=
  ∃ m, calcMapping fm t s = some m ∧ Good m t s ∧ (Concrete s → Shape m t s)

theorem mapM_map_some {α β γ : Type} (g : α → β) (f : β → Option γ) (k : α → γ) (l : List α)
    (h : ∀ x, x ∈ l → f (g x) = some (k x)) : (l.map g).mapM f = some (l.map k) := by
  induction l with
  | nil => rfl
  | cons a as ih =>
    rw [List.map_cons, List.mapM_cons, h a (List.mem_cons_self ..), ih (fun x hx => h x (List.mem_cons_of_mem _ hx))]
    rfl

theorem zip_map_fst_snd {α β : Type} (l : List (α × β)) : (l.map (·.1)).zip (l.map (·.2)) = l := by
  induction l with
  | nil => rfl
  | cons a as ih => simp [ih]

theorem mem_of_getElem? {α : Type} {l : List α} {i : Nat} {x : α} (h : l[i]? = some x) : x ∈ l := by
  rw [List.getElem?_eq_some_iff] at h
  obtain ⟨hi, hx⟩ := h
  exact hx ▸ List.getElem_mem hi

theorem struct_case (fm' : Nat) (tn : List Name) (tt : List Ty) (sn : List Name) (st : List Ty)
    (hnd : sn.Nodup) (hlen : sn.length = st.length)
    (ih : ∀ n ft j sj, (n, ft) ∈ tn.zip tt → lastIndexOf sn n = some j → st[j]? = some sj → Solved fm' ft sj) :
    Solved (fm' + 1) (.struct tn tt) (.struct sn st) := by
  -- the per-field mapping
  let mf : Ty → Ty → Mapping := fun ft sj => (calcMapping fm' ft sj).getD Mapping.empty
  let g : Name × Ty → Int × Mapping := fun nt =>
    match lastIndexOf sn nt.1 with
    | none => ((-1 : Int), Mapping.empty)
    | some j => match st[j]? with
      | none => ((-1 : Int), Mapping.empty)
      | some sj => ((j : Int), mf nt.2 sj)
  have hsome : ∀ n j, lastIndexOf sn n = some j → ∃ sj, st[j]? = some sj := by
    intro n j hj
    rw [lastIndexOf_eq_first n sn hnd] at hj
    have hlt := firstIndexOf_lt hj
    rw [hlen] at hlt
    exact ⟨st[j], List.getElem?_eq_getElem hlt⟩
  have hm : (tn.zip tt).mapM (calcStructField (calcMapping fm') sn st) = some ((tn.zip tt).map g) := by
    apply mapM_some_of_forall
    intro nt hnt
    simp only [g, calcStructField]
    cases hl : lastIndexOf sn nt.1 with
    | none => rfl
    | some j =>
      obtain ⟨sj, hsj⟩ := hsome nt.1 j hl
      obtain ⟨m, hm, _, _⟩ := ih nt.1 nt.2 j sj hnt hl hsj
      simp only [hsj, hm, mf, Option.getD_some]
  have hcalc : calcMapping (fm' + 1) (.struct tn tt) (.struct sn st)
      = some (.mk true (((tn.zip tt).map g).map (·.1)) (((tn.zip tt).map g).map (·.2)) [] false []) := by
    simp only [calcMapping, calcStruct, structNames, structTys]
    rw [hm]
  refine ⟨_, hcalc, ?_, ?_⟩
  · -- Good
    intro v fx fr hv hfx hfr
    cases v with
    | struct xs =>
      simp only [conforms] at hv
      have hxl := conformsEach_length hv
      cases fx with
      | zero => omega
      | succ f =>
        cases fr with
        | zero => omega
        | succ fr' =>
          have hsz : Value.size (.struct xs) = 1 + Value.sizeList xs := by rw [Value.size]
          rw [hsz] at hfx hfr
          have hrel : relayout (fr' + 1) (.struct tn tt) (.struct sn st) (.struct xs)
              = relayoutStruct (relayout fr') tn tt sn st xs := by
            simp [relayout, altFor, Value.rank]
          rw [hrel]
          have hfields : ((tn.zip tt).map g).mapM (fixStructField (fixLayout f) xs)
              = some ((tn.zip tt).map (relayoutField (relayout fr') sn st xs)) := by
            apply mapM_map_some
            intro nt hnt
            simp only [g, relayoutField, fixStructField]
            rw [← lastIndexOf_eq_first nt.1 sn hnd]
            cases hl : lastIndexOf sn nt.1 with
            | none => simp
            | some j =>
              obtain ⟨sj, hsj⟩ := hsome nt.1 j hl
              obtain ⟨m, hm, hgood, _⟩ := ih nt.1 nt.2 j sj hnt hl hsj
              have hjlt : j < xs.length := by
                rw [← hxl]
                rw [List.getElem?_eq_some_iff] at hsj
                exact hsj.1
              have hxj : xs[j]? = some xs[j] := List.getElem?_eq_getElem hjlt
              have hne : ((j : Int) == -1) = false := by
                simp only [beq_eq_false_iff_ne, ne_eq]; omega
              have hcx := conformsEach_get hv hsj hxj
              have hszx := value_size_le_sizeList (mem_of_getElem? hxj)
              simp only [hsj, hne, Bool.false_eq_true, if_false, Int.toNat_natCast, hxj, mf, hm, Option.getD_some]
              exact hgood xs[j] f fr' hcx (by omega) (by omega)
          simp only [fixLayout, Mapping.hasSt, if_true, fixStruct, Mapping.srcIdx, Mapping.srcMap, zip_map_fst_snd,
            hfields, relayoutStruct]
    | _ => simp [conforms] at hv
  · intro _
    refine ⟨?_, ?_, ?_⟩ <;> simp [Mapping.stView, Mapping.liView, Mapping.tuView, Mapping.hasSt, Mapping.li, Mapping.hasTu, altFor, Ty.id]

theorem tuple_elems (fm' : Nat) : ∀ (te se : List Ty), se.length ≤ te.length →
    (∀ (i : Nat) ft sj, te[i]? = some ft → se[i]? = some sj → Solved fm' ft sj) →
    ∃ ms, calcTupleElems (calcMapping fm') te se = some ms ∧
      ∀ xs f fr', conformsEach se xs = true →
        (∀ x, x ∈ xs → Value.size x + 1 ≤ f ∧ Value.size x + 1 ≤ fr') →
        fixTupleElems (fixLayout f) ms xs = some (relayoutElems (relayout fr') te se xs) := by
  intro te
  induction te with
  | nil =>
    intro se hlen _
    have : se = [] := by cases se with
      | nil => rfl
      | cons _ _ => simp at hlen
    subst this
    refine ⟨[], rfl, ?_⟩
    intro xs f fr' hc _
    cases xs with
    | nil => rfl
    | cons _ _ => simp [conformsEach] at hc
  | cons t ts iht =>
    intro se hlen ih
    cases se with
    | nil =>
      obtain ⟨ms, hms, hfix⟩ := iht [] (by simp) (by intro i ft sj _ h; simp at h)
      refine ⟨Mapping.empty :: ms, by simp [calcTupleElems, hms], ?_⟩
      intro xs f fr' hc hsz
      cases xs with
      | nil =>
        have := hfix [] f fr' rfl (by intro x hx; cases hx)
        simp [fixTupleElems, relayoutElems, this]
      | cons _ _ => simp [conformsEach] at hc
    | cons s ss =>
      obtain ⟨m, hm, hgood, _⟩ := ih 0 t s rfl rfl
      obtain ⟨ms, hms, hfix⟩ := iht ss (by simpa using hlen)
        (by intro i ft sj h1 h2; exact ih (i + 1) ft sj (by simpa using h1) (by simpa using h2))
      refine ⟨m :: ms, by simp [calcTupleElems, hm, hms], ?_⟩
      intro xs f fr' hc hsz
      cases xs with
      | nil => simp [conformsEach] at hc
      | cons x xs' =>
        simp only [conformsEach, Bool.and_eq_true] at hc
        have hx := hsz x (List.mem_cons_self ..)
        have h1 := hgood x f fr' hc.1 hx.1 hx.2
        have h2 := hfix xs' f fr' hc.2 (fun y hy => hsz y (List.mem_cons_of_mem _ hy))
        simp [fixTupleElems, relayoutElems, h1, h2]

theorem tuple_case (fm' : Nat) (te se : List Ty) (hlen : se.length ≤ te.length)
    (ih : ∀ (i : Nat) ft sj, te[i]? = some ft → se[i]? = some sj → Solved fm' ft sj) :
    Solved (fm' + 1) (.tuple te) (.tuple se) := by
  obtain ⟨ms, hms, hfix⟩ := tuple_elems fm' te se hlen ih
  have hcalc : calcMapping (fm' + 1) (.tuple te) (.tuple se) = some (.mk false [] [] [] true ms) := by
    simp only [calcMapping, calcTuple, tupleElems, hms]
  refine ⟨_, hcalc, ?_, ?_⟩
  · intro v fx fr hv hfx hfr
    cases v with
    | tuple xs =>
      simp only [conforms] at hv
      cases fx with
      | zero => omega
      | succ f =>
        cases fr with
        | zero => omega
        | succ fr' =>
          have hsz : Value.size (.tuple xs) = 1 + Value.sizeList xs := by rw [Value.size]
          rw [hsz] at hfx hfr
          have hrel : relayout (fr' + 1) (.tuple te) (.tuple se) (.tuple xs)
              = relayoutTuple (relayout fr') te se xs := by
            simp [relayout, altFor, Value.rank]
          have := hfix xs f fr' hv (by
            intro x hx
            have := value_size_le_sizeList hx
            omega)
          simp only [hrel, fixLayout, Mapping.hasTu, if_true, fixTuple, Mapping.tu, this, relayoutTuple]
    | _ => simp [conforms] at hv
  · intro _
    refine ⟨?_, ?_, ?_⟩ <;> simp [Mapping.stView, Mapping.liView, Mapping.tuView, Mapping.hasSt, Mapping.li, Mapping.hasTu, altFor, Ty.id]

theorem list_case (fm' : Nat) (te se : Ty) (ih : Solved fm' te se) : Solved (fm' + 1) (.list te) (.list se) := by
  obtain ⟨m', hm', hgood, _⟩ := ih
  have hcalc : calcMapping (fm' + 1) (.list te) (.list se) = some (.mk false [] [] [m'] false []) := by
    simp only [calcMapping, hm']
  refine ⟨_, hcalc, ?_, ?_⟩
  · intro v fx fr hv hfx hfr
    cases v with
    | list xs =>
      simp only [conforms, List.all_eq_true] at hv
      cases fx with
      | zero => omega
      | succ f =>
        cases fr with
        | zero => omega
        | succ fr' =>
          have hsz : Value.size (.list xs) = 1 + Value.sizeList xs := by rw [Value.size]
          rw [hsz] at hfx hfr
          have hrel : relayout (fr' + 1) (.list te) (.list se) (.list xs)
              = .list (xs.map fun x => relayout fr' te se x) := by
            simp [relayout, altFor, Value.rank]
          rw [hrel]
          cases xs with
          | nil => simp [fixLayout]
          | cons x xs' =>
            have hall : (x :: xs').mapM (fun y => fixLayout f m' y) = some ((x :: xs').map fun y => relayout fr' te se y) := by
              apply mapM_some_of_forall
              intro y hy
              have := value_size_le_sizeList hy
              exact hgood y f fr' (hv y hy) (by omega) (by omega)
            simp only [fixLayout, Mapping.li, hall]
    | _ => simp [conforms] at hv
  · intro _
    refine ⟨?_, ?_, ?_⟩ <;> simp [Mapping.stView, Mapping.liView, Mapping.tuView, Mapping.hasSt, Mapping.li, Mapping.hasTu, altFor, Ty.id]

theorem calcTupleElems_nil_src (rec : Ty → Ty → Option Mapping) (te : List Ty) :
    calcTupleElems rec te [] = some (te.map fun _ => Mapping.empty) := by
  induction te with
  | nil => rfl
  | cons t ts ih => simp [calcTupleElems, ih]

theorem calcStruct_no_fields (rec : Ty → Ty → Option Mapping) (z : List (Name × Ty)) (stys : List Ty) :
    z.mapM (calcStructField rec [] stys) = some (z.map fun _ => ((-1 : Int), Mapping.empty)) := by
  apply mapM_some_of_forall
  intro nt _
  simp [calcStructField, lastIndexOf, lastIndexOf.go]

theorem good_of_leaf (m : Mapping) (t s : Ty) (hs : s.id ≤ 6) : Good m t s := by
  intro v fx fr hv hfx _
  have hl := leaf_of_conforms_scalar hs hv
  rw [relayout_leaf fr t s v hl, fixLayout_leaf fx m v hl (by omega)]

/-- a scalar source type: nothing to re-lay out, whatever the (concrete) target -/
theorem scalar_case (fm' : Nat) (t s : Ty) (ht : Concrete t) (hs : s.id ≤ 6) : Solved (fm' + 1) t s := by
  have hnu : ∀ alts, s ≠ .union alts := by intro alts h; subst h; simp [Ty.id] at hs
  have hnl : ∀ se, s ≠ .list se := by intro se h; subst h; simp [Ty.id] at hs
  have hsn : structNames s = [] := by cases s <;> simp [Ty.id] at hs <;> rfl
  have hte : tupleElems s = [] := by cases s <;> simp [Ty.id] at hs <;> rfl
  have halt : altFor s.id t = t := altFor_concrete ht _
  cases t with
  | union alts => exact absurd rfl (ht.1 alts)
  | any => exact absurd rfl ht.2
  | struct tn tt =>
    refine ⟨.mk true (((tn.zip tt).map fun _ => ((-1 : Int), Mapping.empty)).map (·.1))
        (((tn.zip tt).map fun _ => ((-1 : Int), Mapping.empty)).map (·.2)) [] false [], ?_, good_of_leaf _ _ _ hs, ?_⟩
    · cases s <;> simp [Ty.id] at hs <;>
        simp only [calcMapping, calcStruct, structNames, calcStruct_no_fields]
    · intro _; unfold Shape; rw [halt]
      refine ⟨?_, ?_, ?_⟩ <;> simp [Mapping.stView, Mapping.liView, Mapping.tuView, Mapping.hasSt, Mapping.li, Mapping.hasTu, Ty.id]
  | tuple te =>
    refine ⟨.mk false [] [] [] true (te.map fun _ => Mapping.empty), ?_, good_of_leaf _ _ _ hs, ?_⟩
    · cases s <;> simp [Ty.id] at hs <;>
        simp only [calcMapping, calcTuple, tupleElems, calcTupleElems_nil_src]
    · intro _; unfold Shape; rw [halt]
      refine ⟨?_, ?_, ?_⟩ <;> simp [Mapping.stView, Mapping.liView, Mapping.tuView, Mapping.hasSt, Mapping.li, Mapping.hasTu, Ty.id]
  | _ =>
    refine ⟨Mapping.empty, ?_, good_of_leaf _ _ _ hs, ?_⟩
    · cases s <;> simp [Ty.id] at hs <;> simp only [calcMapping]
    · intro _; unfold Shape; rw [halt]
      refine ⟨?_, ?_, ?_⟩ <;> simp [Mapping.stView, Mapping.liView, Mapping.tuView, Mapping.empty, Mapping.hasSt, Mapping.li, Mapping.hasTu, Ty.id]

theorem listNil_src_case (fm' : Nat) (t : Ty) (ht : t = .listNil ∨ ∃ te, t = .list te) : Solved (fm' + 1) t .listNil := by
  refine ⟨Mapping.empty, ?_, ?_, ?_⟩
  · rcases ht with h | ⟨te, h⟩ <;> subst h <;> simp only [calcMapping]
  · intro v fx fr hv hfx hfr
    cases v with
    | list xs =>
      simp only [conforms, List.isEmpty_iff] at hv
      subst hv
      cases fx with
      | zero => omega
      | succ f =>
        cases fr with
        | zero => omega
        | succ fr' =>
          rcases ht with h | ⟨te, h⟩ <;> subst h <;> simp [fixLayout, relayout, altFor, Value.rank]
    | _ => simp [conforms] at hv
  · intro _
    unfold Shape
    rcases ht with h | ⟨te, h⟩ <;> subst h <;>
      (refine ⟨?_, ?_, ?_⟩ <;> simp [Mapping.stView, Mapping.liView, Mapping.tuView, Mapping.empty, Mapping.hasSt, Mapping.li, Mapping.hasTu, altFor, Ty.id])

theorem tgtUnion_case (fm' : Nat) (talts : List Ty) (s ta : Ty) (hs : Concrete s) (hta : Concrete ta)
    (hfind : findAlt s.id talts = some ta) (ih : Solved fm' ta s) : Solved (fm' + 1) (.union talts) s := by
  obtain ⟨m, hm, hgood, hshape⟩ := ih
  have halt : altFor s.id (.union talts) = altFor s.id ta := by
    rw [altFor_concrete hta]; simp [altFor, hfind]
  refine ⟨m, ?_, ?_, ?_⟩
  · cases s with
    | union alts => exact absurd rfl (hs.1 alts)
    | _ => simp only [calcMapping, hfind, hm]
  · intro v fx fr hv hfx hfr
    have hr := rank_of_conforms hs hv
    rw [relayout_congr fr (.union talts) ta s s v (by rw [hr]; exact halt) rfl]
    exact hgood v fx fr hv hfx hfr
  · intro hc
    have := hshape hc
    unfold Shape at this ⊢
    rw [halt]; exact this

/-- for a container source type the target alternative it is mapped to has the same TypeID -/
theorem resolved_id {t b : Ty} (hb : Concrete b) (hfit : Fits t b) : (altFor b.id t).id = b.id ∨ b.id ≤ 6 := by
  cases hfit with
  | srcUnion _ alts _ => exact absurd rfl (hb.1 alts)
  | tgtUnion talts _ ta _ hfind _ =>
    left
    simp only [altFor, hfind, Option.getD_some]
    exact (findAlt_some hfind).2
  | scalar _ _ _ h6 => right; exact h6
  | struct => left; rfl
  | listNilSrc => left; rfl
  | listNilBoth => left; rfl
  | list => left; rfl
  | tuple => left; rfl

theorem srcUnion_case (fm' : Nat) (t : Ty) (alts : List Ty) (hc : ∀ a, a ∈ alts → Concrete a)
    (hp : alts.Pairwise (fun a b => a.id < b.id)) (hfit : ∀ a, a ∈ alts → Fits t a)
    (ih : ∀ a, a ∈ alts → Solved fm' t a) : Solved (fm' + 1) t (.union alts) := by
  let ma : Ty → Mapping := fun a => (calcMapping fm' t a).getD Mapping.empty
  have hma : ∀ a, a ∈ alts → calcMapping fm' t a = some (ma a) := by
    intro a ha
    obtain ⟨m, hm, _, _⟩ := ih a ha
    simp only [ma, hm, Option.getD_some]
  have hgood : ∀ a, a ∈ alts → Good (ma a) t a := by
    intro a ha
    obtain ⟨m, hm, hg, _⟩ := ih a ha
    have : ma a = m := by simp only [ma, hm, Option.getD_some]
    rw [this]; exact hg
  have hshape : ∀ a, a ∈ alts → Shape (ma a) t a := by
    intro a ha
    obtain ⟨m, hm, _, hs⟩ := ih a ha
    have : ma a = m := by simp only [ma, hm, Option.getD_some]
    rw [this]; exact hs (hc a ha)
  refine ⟨alts.foldl (fun out a => mergeMappings out (ma a)) Mapping.empty, ?_, ?_, ?_⟩
  · simp only [calcMapping]
    exact fold_calc_some (calcMapping fm' t) ma alts hma Mapping.empty
  · intro v fx fr hv hfx hfr
    simp only [conforms] at hv
    obtain ⟨a, ha, hca⟩ := conformsAny_exists hv
    have hr := rank_of_conforms (hc a ha) hca
    obtain ⟨pre, post, hsplit⟩ := List.append_of_mem ha
    have hp' := hp
    rw [hsplit, List.pairwise_append] at hp'
    obtain ⟨_, hpost0, hprepost⟩ := hp'
    rw [List.pairwise_cons] at hpost0
    have hpre_lt : ∀ b, b ∈ pre → b.id < a.id := fun b hb => hprepost b hb a (List.mem_cons_self ..)
    have hpost_gt : ∀ b, b ∈ post → a.id < b.id := fun b hb => hpost0.1 b hb
    have hmem_pre : ∀ b, b ∈ pre → b ∈ alts := by intro b hb; rw [hsplit]; exact List.mem_append_left _ hb
    have hmem_post : ∀ b, b ∈ post → b ∈ alts := by
      intro b hb; rw [hsplit]; exact List.mem_append_right _ (List.mem_cons_of_mem _ hb)
    -- the specification only looks at alternative `a`
    have hrel : relayout fr t (.union alts) v = relayout fr t a v := by
      apply relayout_congr _ _ _ _ _ _ rfl
      rw [hr, altFor_union_of_mem hp ha, altFor_concrete (hc a ha)]
    rw [hrel, ← hgood a ha v fx fr hca hfx hfr]
    have ha_shape := hshape a ha
    have ha_res := resolved_id (hc a ha) (hfit a ha)
    cases v with
    | struct xs =>
      apply fixLayout_struct_congr
      rw [hsplit]
      have hid : a.id = 8 := by rw [← hr]; rfl
      apply fold_view_eq Mapping.stView stView_merge ma pre post a
      · intro b hb
        have hbs := hshape b (hmem_post b hb)
        have hbr := resolved_id (hc b (hmem_post b hb)) (hfit b (hmem_post b hb))
        have hgt := hpost_gt b hb
        cases hv' : (ma b).stView with
        | none => rfl
        | some x =>
          have := hbs.1.mp (by rw [hv']; rfl)
          omega
      · left
        apply ha_shape.1.mpr
        omega
    | tuple xs =>
      apply fixLayout_tuple_congr
      rw [hsplit]
      have hid : a.id = 9 := by rw [← hr]; rfl
      apply fold_view_eq Mapping.tuView tuView_merge ma pre post a
      · intro b hb
        have hbs := hshape b (hmem_post b hb)
        have hbr := resolved_id (hc b (hmem_post b hb)) (hfit b (hmem_post b hb))
        have hgt := hpost_gt b hb
        cases hv' : (ma b).tuView with
        | none => rfl
        | some x =>
          have := hbs.2.2.mp (by rw [hv']; rfl)
          omega
      · left
        apply ha_shape.2.2.mpr
        omega
    | list xs =>
      apply fixLayout_list_congr
      rw [hsplit]
      have hid : a.id = 7 := by rw [← hr]; rfl
      apply fold_view_eq Mapping.liView liView_merge ma pre post a
      · intro b hb
        have hbs := hshape b (hmem_post b hb)
        have hgt := hpost_gt b hb
        cases hv' : (ma b).liView with
        | none => rfl
        | some x =>
          have := hbs.2.1 (by rw [hv']; rfl)
          omega
      · right
        refine ⟨rfl, ?_⟩
        intro b hb
        have hbs := hshape b (hmem_pre b hb)
        have hlt := hpre_lt b hb
        cases hv' : (ma b).liView with
        | none => rfl
        | some x =>
          have := hbs.2.1 (by rw [hv']; rfl)
          omega
    | _ =>
      have h1 : 1 ≤ fx := by omega
      rw [fixLayout_leaf fx _ _ (by simp [IsLeaf]) h1, fixLayout_leaf fx _ _ (by simp [IsLeaf]) h1]
  · intro hcu
    exact absurd rfl (hcu.1 alts)

/-! ### inversion of `NormTy` -/

theorem normTy_union_inv {alts : List Ty} (h : NormTy (.union alts)) :
    (∀ a, a ∈ alts → Concrete a) ∧ (∀ a, a ∈ alts → NormTy a) ∧ alts.Pairwise (fun a b => a.id < b.id) := by
  cases h with
  | scalar _ h6 => simp [Ty.id] at h6
  | union _ hc hn hp => exact ⟨hc, hn, hp⟩

theorem normTy_struct_inv {ns : List Name} {ts : List Ty} (h : NormTy (.struct ns ts)) :
    ns.Nodup ∧ ns.length = ts.length ∧ (∀ t, t ∈ ts → NormTy t) := by
  cases h with
  | scalar _ h6 => simp [Ty.id] at h6
  | struct _ _ hnd hl ha => exact ⟨hnd, hl, ha⟩

theorem normTy_tuple_inv {ts : List Ty} (h : NormTy (.tuple ts)) : ∀ t, t ∈ ts → NormTy t := by
  cases h with
  | scalar _ h6 => simp [Ty.id] at h6
  | tuple _ ha => exact ha

theorem normTy_list_inv {e : Ty} (h : NormTy (.list e)) : NormTy e := by
  cases h with
  | scalar _ h6 => simp [Ty.id] at h6
  | list _ he => exact he

/-- **the layout fixer is correct on all normal-form types**: `calculateMapping` succeeds and `fixLayout` with its
    result re-lays every value of the source type out as the specification says -/
theorem solved_all : ∀ n t s, Ty.size t + Ty.size s < n → NormTy t → NormTy s → Fits t s →
    ∀ fm, Ty.size t + Ty.size s + 1 ≤ fm → Solved fm t s := by
  intro n
  induction n with
  | zero => intro t s h; omega
  | succ n ih =>
    intro t s hlt ht hs hfit fm hfm
    cases fm with
    | zero => omega
    | succ fm' =>
      cases hfit with
      | srcUnion _ alts h =>
        obtain ⟨hc, hn, hp⟩ := normTy_union_inv hs
        apply srcUnion_case fm' t alts hc hp h
        intro a ha
        have := ty_size_lt_union ha
        exact ih t a (by omega) ht (hn a ha) (h a ha) fm' (by omega)
      | tgtUnion talts _ ta hsC hfind hfit' =>
        obtain ⟨hc, hn, _⟩ := normTy_union_inv ht
        have hmem := (findAlt_some hfind).1
        have := ty_size_lt_union hmem
        exact tgtUnion_case fm' talts s ta hsC (hc ta hmem) hfind
          (ih ta s (by omega) (hn ta hmem) hs hfit' fm' (by omega))
      | scalar _ _ htC hs6 => exact scalar_case fm' t s htC hs6
      | struct tn tt sn st h =>
        obtain ⟨hnd, hlen, hns⟩ := normTy_struct_inv hs
        obtain ⟨_, _, hnt⟩ := normTy_struct_inv ht
        apply struct_case fm' tn tt sn st hnd hlen
        intro nm ft j sj hmem hl hsj
        have hft : ft ∈ tt := (List.of_mem_zip hmem).2
        have hsj' : sj ∈ st := mem_of_getElem? hsj
        have h1 := ty_size_lt_struct (ns := tn) hft
        have h2 := ty_size_lt_struct (ns := sn) hsj'
        exact ih ft sj (by omega) (hnt ft hft) (hns sj hsj') (h nm ft j sj hmem hl hsj) fm' (by omega)
      | listNilSrc te => exact listNil_src_case fm' (.list te) (Or.inr ⟨te, rfl⟩)
      | listNilBoth => exact listNil_src_case fm' .listNil (Or.inl rfl)
      | list te se h =>
        have h1 := ty_size_lt_list te
        have h2 := ty_size_lt_list se
        exact list_case fm' te se (ih te se (by omega) (normTy_list_inv ht) (normTy_list_inv hs) h fm' (by omega))
      | tuple te se hlen h =>
        apply tuple_case fm' te se hlen
        intro i ft sj hft hsj
        have hft' : ft ∈ te := mem_of_getElem? hft
        have hsj' : sj ∈ se := mem_of_getElem? hsj
        have h1 := ty_size_lt_tuple hft'
        have h2 := ty_size_lt_tuple hsj'
        exact ih ft sj (by omega) (normTy_tuple_inv ht ft hft') (normTy_tuple_inv hs sj hsj') (h i ft sj hft hsj) fm' (by omega)

/-- **`fixLayout ∘ calculateMapping = relayout`** with the fuels the model's `coalesce` uses -/
theorem fixLayout_calcMapping (t s : Ty) (v : Value) (ht : NormTy t) (hs : NormTy s) (hfit : Fits t s)
    (hv : conforms s v = true) :
    ∃ m, calcMapping (Ty.size t + Ty.size s + 1) t s = some m ∧
      fixLayout (fuelFor v) m v = some (relayout (Value.size v + 1) t s v) := by
  obtain ⟨m, hm, hgood, _⟩ := solved_all (Ty.size t + Ty.size s + 1) t s (by omega) ht hs hfit _ (Nat.le_refl _)
  exact ⟨m, hm, hgood v _ _ hv (Nat.le_refl _) (Nat.le_refl _)⟩

/-! ### COALESCE -/

/-- what the type checker guarantees about the arguments of a COALESCE whose result type is `target` -/
def ArgsFit (target : Ty) (args : List (Ty × Value)) : Prop :=
  ∀ sv, sv ∈ args → NormTy sv.1 ∧ Fits target sv.1 ∧ conforms sv.1 sv.2 = true

theorem coalesceGo_spec (target : Ty) (ht : NormTy target) (args : List (Ty × Value)) (h : ArgsFit target args) :
    coalesceGo (args.map fun sv => (calcMapping (Ty.size target + Ty.size sv.1 + 1) target sv.1).getD Mapping.empty) args
      = .val (coalesceSpec target args) := by
  induction args with
  | nil => rfl
  | cons sv rest ih =>
    obtain ⟨s, v⟩ := sv
    have hrest : ArgsFit target rest := fun x hx => h x (List.mem_cons_of_mem _ hx)
    obtain ⟨hs, hfit, hv⟩ := h (s, v) (List.mem_cons_self ..)
    obtain ⟨m, hm, hfix⟩ := fixLayout_calcMapping target s v ht hs hfit hv
    simp only [List.map_cons, hm, Option.getD_some]
    cases v with
    | null => simp only [coalesceGo, coalesceSpec]; exact ih hrest
    | _ => simp only [coalesceGo, coalesceSpec, hfix]

/-- **COALESCE yields its first non-NULL argument, re-laid-out for the result type (NULL when all are NULL), and never
    panics** -/
theorem coalesce_spec (target : Ty) (ht : NormTy target) (args : List (Ty × Value)) (h : ArgsFit target args) :
    coalesce target args = .val (coalesceSpec target args) := by
  unfold coalesce
  rw [mapM_some_of_forall _ (fun sv => (calcMapping (Ty.size target + Ty.size sv.1 + 1) target sv.1).getD Mapping.empty)]
  · exact coalesceGo_spec target ht args h
  · intro sv hsv
    obtain ⟨hs, hfit, hv⟩ := h sv hsv
    obtain ⟨m, hm, _⟩ := fixLayout_calcMapping target sv.1 sv.2 ht hs hfit hv
    simp only [hm, Option.getD_some]

end Octo.Coal
