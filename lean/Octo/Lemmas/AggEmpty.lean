import Octo.Lemmas.AggArray
import Octo.Lemmas.AggDistinct
import Octo.Lemmas.AggFloat
import Octo.Lemmas.AggOracle
/-!
  Why the property needs `M ≠ ∅`: on an empty net multiset `Trigger` of min / max / avg(Int, Duration)
  panics (nil interface conversion, integer division by zero) — also behind the Distinct wrapper.
-/
namespace Octo.Agg
open Octo

variable {A : Agg} {P : Value → Prop} {spec : List Value → Value}

/-- the state reached by a valid history satisfies the invariant for the running multiset -/
theorem AggProof.run_inv (pf : AggProof A P spec) (h : Hist) (hv : ValidHist h) (hP : ∀ e ∈ h, P e.2) :
    pf.Inv (A.run h).1 (bagRun [] h) :=
  (pf.foldl h A.init true [] pf.init rfl (by simp) hP ((validFrom_nil_iff h).mpr hv)).1

theorem bagRun_eq_nil {h : Hist} (hv : ValidHist h) (hM : IsNet [] h) : bagRun [] h = [] :=
  CntEq.nil_right (fun v => by rw [bagRun_isNet hv v, ← hM v])

/-- `Trigger` panics in every state that represents the empty multiset -/
def PanicsOnEmpty (pf : AggProof A P spec) : Prop := ∀ s, pf.Inv s [] → A.trigger s = .panic

theorem minProof_panics : PanicsOnEmpty minProof := by
  intro t hi
  have := tree_empty hi
  cases t with
  | nil => rfl
  | cons _ _ => simp at this

theorem maxProof_panics : PanicsOnEmpty maxProof := by
  intro t hi
  have := tree_empty hi
  cases t with
  | nil => rfl
  | cons _ _ => simp at this

theorem avgIntProof_panics : PanicsOnEmpty avgIntProof := by
  intro a hi
  have hc : a.count = 0 := hi.2
  simp [avgIntAgg, avgDiv, hc]

theorem avgDurProof_panics : PanicsOnEmpty avgDurProof := by
  intro a hi
  have hc : a.count = 0 := hi.2
  simp [avgDurAgg, avgDiv, hc]

theorem distinct_panics (pf : AggProof A P spec) (hp : PanicsOnEmpty pf) : PanicsOnEmpty (distinctProof pf) := by
  intro s hi
  obtain ⟨_, L', hinv, _, hL'⟩ := hi
  have : L' = [] := eq_nil_of_cnt_zero (fun v => by rw [hL' v]; rfl)
  subst this
  exact hp s.2 hinv

theorem AggProof.empty_panics (pf : AggProof A P spec) (hp : PanicsOnEmpty pf) (h : Hist) (hv : ValidHist h)
    (hP : ∀ e ∈ h, P e.2) (hM : IsNet [] h) : A.trigger (A.run h).1 = .panic := by
  have hi := pf.run_inv h hv hP
  rw [bagRun_eq_nil hv hM] at hi
  exact hp _ hi

end Octo.Agg
