import Octo.Lemmas.TriggerGroupBy
/-!
  ON WATERMARK at the level of the node (C17): the node triggers *before* it forwards a watermark, so when
  `wm W` appears in the output the output already holds the current row of every key at or below `W`
  (`wm_step_clean`), and with ON WATERMARK alone nothing above the highest watermark received so far is
  ever emitted before the end of the stream (`fold_no_early`).
-/
namespace Octo.Trig
open Octo Octo.TMap

variable {C : GBConf} {nk : Nat} {wl : WKey → WKey → Bool}

theorem gbFold_append (st : NState) (B₁ B₂ : List Msg) :
    gbFold wl C st (B₁ ++ B₂) =
      ((gbFold wl C (gbFold wl C st B₁).1 B₂).1, (gbFold wl C st B₁).2 ++ (gbFold wl C (gbFold wl C st B₁).1 B₂).2) := by
  induction B₁ generalizing st with
  | nil => simp [gbFold]
  | cons m ms ih => simp only [gbFold, List.cons_append, ih, List.append_assoc]

/-- a watermark trigger on key column `idx` that has not seen the end of the stream -/
def Leaf.isWm (idx : Nat) : Leaf → Bool
  | .watermark i _ e _ => i == idx && !e
  | _ => false

theorem Leaf.isWm_keyReceived (idx : Nat) (l : Leaf) (k : Key) (h : l.isWm idx = true) :
    (l.keyReceived wl k).isWm idx = true := by
  cases l <;> simp_all [Leaf.isWm, Leaf.keyReceived]
theorem Leaf.isWm_watermarkReceived (idx : Nat) (l : Leaf) (w : Int) (h : l.isWm idx = true) :
    (l.watermarkReceived w).isWm idx = true := by
  cases l <;> simp_all [Leaf.isWm, Leaf.watermarkReceived]
theorem Leaf.isWm_poll (idx : Nat) (l : Leaf) (h : l.isWm idx = true) : (l.poll wl).2.isWm idx = true := by
  cases l <;> simp_all [Leaf.isWm, Leaf.poll]

mutual
theorem hasWm_leaves (idx : Nat) : ∀ (c : TCfg), c.hasWm idx = true → ∃ l ∈ c.init.leaves, l.isWm idx = true
  | .counting n, h => by simp [TCfg.hasWm] at h
  | .watermark i, h => by
    simp only [TCfg.hasWm] at h
    exact ⟨.watermark i [] false zeroNs, by simp [TCfg.init, TState.leaves], by simp [Leaf.isWm, h]⟩
  | .eos, h => by simp [TCfg.hasWm] at h
  | .multi ts, h => by
    simp only [TCfg.hasWm] at h
    simp only [TCfg.init, TState.leaves]
    exact hasWmL_leaves idx ts h
theorem hasWmL_leaves (idx : Nat) : ∀ (cs : List TCfg), TCfg.hasWmL idx cs = true →
    ∃ l ∈ TState.leavesL (TCfg.initL cs), l.isWm idx = true
  | [], h => by simp [TCfg.hasWmL] at h
  | c :: cs, h => by
    simp only [TCfg.hasWmL, Bool.or_eq_true] at h
    simp only [TCfg.initL, TState.leavesL, List.mem_append]
    rcases h with h | h
    · obtain ⟨l, hl, hw⟩ := hasWm_leaves idx c h
      exact ⟨l, Or.inl hl, hw⟩
    · obtain ⟨l, hl, hw⟩ := hasWmL_leaves idx cs h
      exact ⟨l, Or.inr hl, hw⟩
end

theorem step_hasWm (idx : Nat) (st : NState) (m : Msg) (h : ∃ l ∈ st.trig.leaves, l.isWm idx = true) :
    ∃ l ∈ (gbStep wl C st m).1.trig.leaves, l.isWm idx = true := by
  obtain ⟨l, hl, hw⟩ := h
  cases m with
  | data r =>
    refine ⟨((l.keyReceived wl (C.keyOf r.vals)).poll wl).2, ?_, Leaf.isWm_poll idx _ (Leaf.isWm_keyReceived idx l _ hw)⟩
    simp only [gbStep, fire, poll_snd, leaves_keyReceived, List.mem_map]
    exact ⟨_, ⟨l, hl, rfl⟩, rfl⟩
  | wm w =>
    refine ⟨((l.watermarkReceived w).poll wl).2, ?_, Leaf.isWm_poll idx _ (Leaf.isWm_watermarkReceived idx l _ hw)⟩
    simp only [gbStep, fire, poll_snd, leaves_watermarkReceived, List.mem_map]
    exact ⟨_, ⟨l, hl, rfl⟩, rfl⟩

theorem fold_hasWm (idx : Nat) (st : NState) (B : List Msg) (h : ∃ l ∈ st.trig.leaves, l.isWm idx = true) :
    ∃ l ∈ (gbFold wl C st B).1.trig.leaves, l.isWm idx = true := by
  induction B generalizing st with
  | nil => exact h
  | cons m ms ih => exact ih _ (step_hasWm idx st m h)

/-- after the node handled (and forwarded) watermark `w`, no key at or below `w` is dirty -/
theorem wm_step_clean (W : WLaws wl) (idx : Nat) (st : NState) (w : Int) (h : Inv C nk wl st)
    (hex : ∃ l ∈ st.trig.leaves, l.isWm idx = true) (k : Key) (ht : (timeAt idx k).ns ≤ w) :
    cleanB C (gbStep wl C st (.wm w)).1.aggs (gbStep wl C st (.wm w)).1.prev k = true := by
  cases hc : cleanB C (gbStep wl C st (.wm w)).1.aggs (gbStep wl C st (.wm w)).1.prev k
  · exfalso
    simp only [gbStep, fire] at hc
    have hnp : ((st.trig.watermarkReceived w).poll wl).1.any (fun k0 => keq k0 k) = false := by
      cases hq : ((st.trig.watermarkReceived w).poll wl).1.any (fun k0 => keq k0 k)
      · rfl
      · rw [fireKeys_clean st.aggs w st.prev _ k hq] at hc; cases hc
    rw [cleanB_congr_prev C (fireKeys_find_other st.aggs w st.prev _ k hnp)] at hc
    obtain ⟨l, hl, hw⟩ := hex
    have hp := h.dirtyPending k hc l hl
    cases l with
    | counting n counts e tt => simp [Leaf.isWm] at hw
    | eos ks e => simp [Leaf.isWm] at hw
    | watermark i tks e wm0 =>
      simp only [Leaf.isWm, Bool.and_eq_true, beq_iff_eq, Bool.not_eq_true'] at hw
      obtain ⟨rfl, rfl⟩ := hw
      have hs : (Leaf.watermark i tks false w).sorted := (h.leafWF _ hl).2.2
      have h1 := Leaf.watermark_all W i tks w hs k hp ht
      rw [List.any_eq_true] at h1
      obtain ⟨k0, hk0, hq⟩ := h1
      have : ((st.trig.watermarkReceived w).poll wl).1.any (fun k0 => keq k0 k) = true := by
        rw [List.any_eq_true]
        refine ⟨k0, ?_, keq_symm hq⟩
        rw [poll_fst, leaves_watermarkReceived, List.mem_flatMap]
        exact ⟨_, List.mem_map.mpr ⟨_, hl, rfl⟩, hk0⟩
      rw [this] at hnp; cases hnp
  · rfl

/-! ### nothing early -/
/-- a record emitted for a polled key is the retraction of its stored row or its new row -/
theorem fireKey_recs_vals (aggs : List (Key × AggItem)) (curEt : Int) (prev : Prev) (k : Key) :
    ∀ r ∈ recs (fireKey C aggs curEt prev k).2,
      (∃ p, find keyLess k prev = some p ∧ r.vals = p.2.1) ∨ (∃ res, r.vals = k ++ res) := by
  intro r hr
  simp only [fireKey, curRow_eq] at hr
  cases hfa : find keyLess k aggs <;> cases hfp : find keyLess k prev <;>
    simp only [hfa, hfp, Option.map_none, Option.map_some, recs, List.nil_append, List.cons_append,
      List.mem_cons, List.not_mem_nil, or_false] at hr
  all_goals first
    | (rcases hr with rfl | rfl
       · exact Or.inl ⟨_, rfl, rfl⟩
       · exact Or.inr ⟨_, rfl⟩)
    | (subst hr; exact Or.inl ⟨_, rfl, rfl⟩)
    | (subst hr; exact Or.inr ⟨_, rfl⟩)
    | (cases hr)

/-- every record `trigger` emits belongs to one of the polled keys -/
theorem fireKeys_recs_key (aggs : List (Key × AggItem)) (curEt : Int) (prev : Prev) (ks : List Key)
    (hk : ∀ k ∈ ks, k.length = nk) (hp : PrevWF nk prev) :
    ∀ r ∈ recs (fireKeys C aggs curEt prev ks).2, ∃ k ∈ ks, keq k (r.vals.take nk) = true := by
  induction ks generalizing prev with
  | nil => intro r hr; simp [fireKeys, recs] at hr
  | cons k ks ih =>
    intro r hr
    simp only [fireKeys, recs_append, List.mem_append] at hr
    rcases hr with hr | hr
    · refine ⟨k, by simp, ?_⟩
      have hkl := hk k (by simp)
      rcases fireKey_recs_vals aggs curEt prev k r hr with ⟨p, hfp, hv⟩ | ⟨res, hv⟩
      · obtain ⟨hm, hq⟩ := find_some_mem hfp
        rw [eqv_keyLess] at hq
        obtain ⟨hl, res, hres⟩ := hp p hm
        rw [hv, hres, List.take_left' hl]; exact hq
      · rw [hv, List.take_left' hkl]; exact keq_refl _
    · obtain ⟨k', hk', hq⟩ := ih _ (fun k' hk' => hk k' (by simp [hk']))
        (fireKey_prevWF aggs curEt prev k (hk k (by simp)) hp) r hr
      exact ⟨k', by simp [hk'], hq⟩

/-- a watermark trigger on column `idx`, before the end of the stream, whose watermark is at most `M` -/
def Leaf.wmBound (idx : Nat) (M : Int) : Leaf → Prop
  | .watermark i _ e wm => i = idx ∧ e = false ∧ wm ≤ M
  | _ => False

theorem Leaf.wmBound_mono (idx : Nat) {M M' : Int} (hM : M ≤ M') (l : Leaf) (h : l.wmBound idx M) : l.wmBound idx M' := by
  cases l <;> simp_all [Leaf.wmBound]; omega

theorem Leaf.wmBound_keyReceived (idx : Nat) (M : Int) (l : Leaf) (k : Key) (h : l.wmBound idx M) :
    (l.keyReceived wl k).wmBound idx M := by
  cases l <;> simp_all [Leaf.wmBound, Leaf.keyReceived]
theorem Leaf.wmBound_watermarkReceived (idx : Nat) (M : Int) (l : Leaf) (w : Int) (h : l.wmBound idx M) :
    (l.watermarkReceived w).wmBound idx w := by
  cases l <;> simp_all [Leaf.wmBound, Leaf.watermarkReceived]
theorem Leaf.wmBound_poll (idx : Nat) (M : Int) (l : Leaf) (h : l.wmBound idx M) :
    (l.poll wl).2.wmBound idx M := by
  cases l <;> simp_all [Leaf.wmBound, Leaf.poll]

theorem Leaf.wmBound_polled (idx : Nat) (M : Int) (l : Leaf) (hw : l.wf) (h : l.wmBound idx M) :
    ∀ k ∈ (l.poll wl).1, (timeAt idx k).ns ≤ M := by
  cases l with
  | counting n counts e tt => cases h
  | eos ks e => cases h
  | watermark i tks e wm =>
    simp only [Leaf.wmBound] at h
    obtain ⟨rfl, rfl, hle⟩ := h
    intro k hk
    exact Int.le_trans (Leaf.watermark_upto i tks wm hw k hk) hle

/-- what `trigger` emits when every primitive trigger is a watermark trigger bounded by `M` -/
theorem fire_no_early (idx : Nat) (M : Int) (st : NState) (curEt : Int) (h : Inv C nk wl st)
    (hb : ∀ l ∈ st.trig.leaves, l.wmBound idx M) :
    ∀ r ∈ recs (fire wl C st curEt).2, (timeAt idx (r.vals.take nk)).ns ≤ M := by
  intro r hr
  simp only [fire] at hr
  obtain ⟨k, hk, hq⟩ := fireKeys_recs_key st.aggs curEt st.prev _ (polled_len (wl := wl) h.leafWF) h.prevWF r hr
  rw [poll_fst, List.mem_flatMap] at hk
  obtain ⟨l, hl, hkl⟩ := hk
  rw [← timeAt_congr idx (keq_iff.mp hq)]
  exact Leaf.wmBound_polled idx M l (h.leafWF l hl).1 (hb l hl) k hkl

/-- every record `trigger` emits belongs to a key that one of the primitive triggers just returned from `Poll` -/
theorem fire_emitted_polled (st : NState) (curEt : Int) (h : Inv C nk wl st) :
    ∀ r ∈ recs (fire wl C st curEt).2,
      ∃ l ∈ st.trig.leaves, ∃ k ∈ (l.poll wl).1, keq k (r.vals.take nk) = true := by
  intro r hr
  simp only [fire] at hr
  obtain ⟨k, hk, hq⟩ := fireKeys_recs_key st.aggs curEt st.prev _ (polled_len (wl := wl) h.leafWF) h.prevWF r hr
  rw [poll_fst, List.mem_flatMap] at hk
  obtain ⟨l, hl, hkl⟩ := hk
  exact ⟨l, hl, k, hkl, hq⟩

theorem le_foldl_max (M : Int) (ws : List Int) : M ≤ ws.foldl max M := by
  induction ws generalizing M with
  | nil => exact Int.le_refl _
  | cons w ws ih => exact Int.le_trans (Int.le_max_left M w) (ih _)

theorem fold_no_early (W : WLaws wl) (hK : KeyLen C nk) (idx : Nat) (M : Int) (st : NState) (B : List Msg)
    (h : Inv C nk wl st) (hb : ∀ l ∈ st.trig.leaves, l.wmBound idx M) :
    ∀ r ∈ recs (gbFold wl C st B).2, (timeAt idx (r.vals.take nk)).ns ≤ (wms B).foldl max M := by
  induction B generalizing st M with
  | nil => intro r hr; simp [gbFold, recs] at hr
  | cons m ms ih =>
    intro r hr
    simp only [gbFold, recs_append, List.mem_append] at hr
    have hinv := (step_inv W hK st m h).1
    cases m with
    | data rec =>
      have hb1 : ∀ l ∈ (NState.mk (updAggs C rec st.aggs) st.prev (st.trig.keyReceived wl (C.keyOf rec.vals))).trig.leaves,
          l.wmBound idx M := by
        intro l' hl'
        simp only [leaves_keyReceived, List.mem_map] at hl'
        obtain ⟨l, hl, rfl⟩ := hl'
        exact Leaf.wmBound_keyReceived idx M l _ (hb l hl)
      have hb2 : ∀ l ∈ (gbStep wl C st (.data rec)).1.trig.leaves, l.wmBound idx M := by
        intro l' hl'
        simp only [gbStep, fire, poll_snd, List.mem_map] at hl'
        obtain ⟨l, hl, rfl⟩ := hl'
        exact Leaf.wmBound_poll idx M l (hb1 l hl)
      rcases hr with hr | hr
      · have := fire_no_early (wl := wl) idx M _ (etNs rec.et) (pre_inv_data W hK st rec h) hb1 r hr
        simp only [wms]
        exact Int.le_trans this (le_foldl_max M _)
      · simpa [wms] using ih M _ hinv hb2 r hr
    | wm w =>
      have hb1 : ∀ l ∈ (NState.mk st.aggs st.prev (st.trig.watermarkReceived w)).trig.leaves, l.wmBound idx w := by
        intro l' hl'
        simp only [leaves_watermarkReceived, List.mem_map] at hl'
        obtain ⟨l, hl, rfl⟩ := hl'
        exact Leaf.wmBound_watermarkReceived idx M l w (hb l hl)
      have hb2 : ∀ l ∈ (gbStep wl C st (.wm w)).1.trig.leaves, l.wmBound idx (max M w) := by
        intro l' hl'
        simp only [gbStep, fire, poll_snd, List.mem_map] at hl'
        obtain ⟨l, hl, rfl⟩ := hl'
        exact Leaf.wmBound_mono idx (Int.le_max_right M w) _ (Leaf.wmBound_poll idx w l (hb1 l hl))
      rcases hr with hr | hr
      · simp only [gbStep, recs_append, List.mem_append, recs, List.not_mem_nil, or_false] at hr
        have := fire_no_early (wl := wl) idx w _ w (pre_inv_wm st w h) hb1 r hr
        simp only [wms, List.foldl_cons]
        exact Int.le_trans this (Int.le_trans (Int.le_max_right M w) (le_foldl_max _ _))
      · simpa [wms] using ih (max M w) _ hinv hb2 r hr

mutual
theorem onlyWm_leaves (idx : Nat) : ∀ (c : TCfg), c.onlyWm idx = true → ∀ l ∈ c.init.leaves, l.wmBound idx zeroNs
  | .counting n, h => by simp [TCfg.onlyWm] at h
  | .watermark i, h => by
    simp only [TCfg.onlyWm, beq_iff_eq] at h
    simp [TCfg.init, TState.leaves, Leaf.wmBound, h]
  | .eos, h => by simp [TCfg.onlyWm] at h
  | .multi ts, h => by
    simp only [TCfg.onlyWm] at h
    simp only [TCfg.init, TState.leaves]
    exact onlyWmL_leaves idx ts h
theorem onlyWmL_leaves (idx : Nat) : ∀ (cs : List TCfg), TCfg.onlyWmL idx cs = true →
    ∀ l ∈ TState.leavesL (TCfg.initL cs), l.wmBound idx zeroNs
  | [], _ => by simp [TCfg.initL, TState.leavesL]
  | c :: cs, h => by
    simp only [TCfg.onlyWmL, Bool.and_eq_true] at h
    simp only [TCfg.initL, TState.leavesL, List.mem_append]
    intro l hl
    rcases hl with hl | hl
    · exact onlyWm_leaves idx c h.1 l hl
    · exact onlyWmL_leaves idx cs h.2 l hl
end

end Octo.Trig
