import Octo.Lemmas.PlanEval
import Octo.Model.Optimizer
/-!
  Node-level lemmas for `Octo.Plan.denote`, the well-formedness predicate `Good` the soundness theorems assume,
  and the generic step: a sound local rewrite stays sound under `TransformNode`, under `finish`, under the
  rule loop and under the fixpoint.
-/
namespace Octo.Plan
open Octo

@[simp] theorem schema_leaf (s : Schema) (k : Leaf) : (Plan.leaf s k).schema = s := rfl
@[simp] theorem schema_un (s : Schema) (k : Un) (src : Plan) : (Plan.un s k src).schema = s := rfl
@[simp] theorem schema_bin (s : Schema) (k : Bin) (l r : Plan) : (Plan.bin s k l r).schema = s := rfl
@[simp] theorem fields_leaf (s : Schema) (k : Leaf) : (Plan.leaf s k).fields = s.fields := rfl
@[simp] theorem fields_un (s : Schema) (k : Un) (src : Plan) : (Plan.un s k src).fields = s.fields := rfl
@[simp] theorem fields_bin (s : Schema) (k : Bin) (l r : Plan) : (Plan.bin s k l r).fields = s.fields := rfl

/-! ### `checkNames`, `Filter` -/

theorem checkNames_pass {f : List String} {rows : List Row} (h : ∀ r ∈ rows, Row.names r = f) :
    checkNames f rows = some rows := by
  unfold checkNames
  rw [if_pos]
  simp only [List.all_eq_true, beq_iff_eq]
  exact h

theorem checkNames_some {f : List String} {rows out : List Row} (h : checkNames f rows = some out) :
    out = rows ∧ ∀ r ∈ rows, Row.names r = f := by
  unfold checkNames at h
  split at h
  · rename_i hc
    simp only [List.all_eq_true, beq_iff_eq] at hc
    simp only [Option.some.injEq] at h
    exact ⟨h.symm, hc⟩
  · cases h

theorem checked_some {s : Schema} {o : Option (List Row)} {out : List Row} (h : checked s o = some out) :
    o = some out ∧ ∀ r ∈ out, Row.names r = s.fields := by
  cases o with
  | none => simp [checked] at h
  | some rows =>
    simp only [checked] at h
    obtain ⟨h1, h2⟩ := checkNames_some h
    subst h1
    exact ⟨rfl, h2⟩

theorem checked_pass {s : Schema} {rows : List Row} (h : ∀ r ∈ rows, Row.names r = s.fields) :
    checked s (some rows) = some rows := by
  simp only [checked]
  exact checkNames_pass h

/-- every record a plan produces carries the field names of the plan's declared schema -/
theorem denote_names {db : Db} : ∀ {p : Plan} {ctx : Ctx} {rows : List Row},
    denote db p ctx = some rows → ∀ r ∈ rows, Row.names r = p.fields := by
  intro p ctx rows h
  cases p with
  | leaf s k =>
    simp only [denote] at h
    exact (checked_some h).2
  | un s k src =>
    simp only [denote] at h
    split at h
    · exact (checked_some h).2
    · cases h
  | bin s k l r =>
    cases k with
    | ljoin =>
      simp only [denote] at h
      split at h
      · exact (checked_some h).2
      · cases h
    | sjoin lk rk =>
      simp only [denote] at h
      split at h
      · exact (checked_some h).2
      · cases h
    | ojoin il ir lk rk =>
      simp only [denote] at h
      split at h
      · exact (checked_some h).2
      · cases h

/-- does the filter keep the record? -/
def keep (ctx : Ctx) (p : PExpr) (r : Row) : Bool := isTrueV (eval (r :: ctx) p)

theorem filterRows_eq {ctx : Ctx} {p : PExpr} : ∀ {rows : List Row},
    (∀ r ∈ rows, (eval (r :: ctx) p).isSome = true) → filterRows ctx p rows = some (rows.filter (keep ctx p))
  | [], _ => by simp [filterRows]
  | r :: rs, h => by
    have ih := filterRows_eq (ctx := ctx) (p := p) (rows := rs) (fun x hx => h x (by simp [hx]))
    have hr := h r (by simp)
    cases hv : eval (r :: ctx) p with
    | none => rw [hv] at hr; cases hr
    | some v =>
      simp only [filterRows, hv, ih, List.filter_cons, keep, isTrueV]
      cases v with
      | bool b => cases b <;> simp
      | _ => simp

theorem filterRows_none {ctx : Ctx} {p : PExpr} : ∀ {rows : List Row},
    (∃ r ∈ rows, eval (r :: ctx) p = none) → filterRows ctx p rows = none
  | [], h => by simp at h
  | r :: rs, h => by
    cases hv : eval (r :: ctx) p with
    | none => simp [filterRows, hv]
    | some v =>
      have : ∃ x ∈ rs, eval (x :: ctx) p = none := by
        obtain ⟨x, hx, he⟩ := h
        rcases List.mem_cons.mp hx with hx | hx
        · subst hx; rw [hv] at he; cases he
        · exact ⟨x, hx, he⟩
      simp [filterRows, hv, filterRows_none this]

/-! ### the hypotheses of the soundness theorems -/

/-- an expression whose variables are in scope and which (hereditarily) cannot fail -/
structure ExprOK (scope : List String) (e : PExpr) : Prop where
  inScope : ∀ x ∈ varsUsed e, x ∈ scope
  safe : HSafe e

def ExprsOK (scope : List String) (es : List PExpr) : Prop := ∀ e ∈ es, ExprOK scope e

/-- a datasource: its pushed-down predicates are well-formed and every declared field can be read from the table -/
def LeafGood (db : Db) (outer : List String) (s : Schema) : Leaf → Prop
  | .ds name _ _ preds mapping =>
    ExprsOK (s.fields ++ outer) preds ∧ ∀ trows, db name = some trows → (tableRows mapping s.fields trows).isSome = true
  | .mem _ => True
  | .tvf _ _ => True

def UnGood (outer : List String) (s srcS : Schema) : Un → Prop
  | .filter e => s = srcS ∧ ExprOK (srcS.fields ++ outer) e
  | .distinct => s.fields = srcS.fields
  | .map es => ExprsOK (srcS.fields ++ outer) es ∧ es.length = s.fields.length
  | .groupBy aggs aggExprs key _ _ =>
    ExprsOK (srcS.fields ++ outer) (aggExprs ++ key) ∧ aggs.length = aggExprs.length ∧
      s.fields.length = key.length + aggs.length ∧
      -- the aggregates cannot fail (e.g. no `sum` over a column that may hold a String)
      ∀ (ctx : Ctx) (rows : List Row), (∀ r ∈ rows, Binds (srcS.fields ++ outer) (r :: ctx)) →
        (groupByRows ctx s.fields aggs aggExprs key rows).isSome = true
  | .unnest _ => s.fields = srcS.fields
  | .ost keys _ limit => s.fields = srcS.fields ∧ ExprsOK (srcS.fields ++ outer) keys ∧ ∀ e, limit = some e → ExprOK outer e
  | .tvf name _ _ => name = "max_diff_watermark" → s.fields = srcS.fields

def BinGood (outer : List String) (s : Schema) (lf rf : List String) : Bin → Prop
  | .sjoin lk rk => s.fields = lf ++ rf ∧ ExprsOK (lf ++ outer) lk ∧ ExprsOK (rf ++ outer) rk ∧ lk.length = rk.length
  | .ljoin => s.fields = lf ++ rf ∧ ∀ x ∈ lf, x ∉ rf
  | .ojoin _ _ lk rk => s.fields = lf ++ rf ∧ ExprsOK (lf ++ outer) lk ∧ ExprsOK (rf ++ outer) rk

/-- `WellScoped ∧ TotalExprs`: declared schemas of filters and joins agree with their inputs (what the planner
    builds), every expression refers only to fields of its input or of the enclosing lookup-join records (`outer`)
    and cannot fail; the right side of a lookup join cannot fail -/
def Good (db : Db) : Plan → List String → Prop
  | .leaf s k, outer => s.fields.Nodup ∧ LeafGood db outer s k
  | .un s k src, outer => s.fields.Nodup ∧ Good db src outer ∧ UnGood outer s src.schema k
  | .bin s .ljoin l r, outer =>
    s.fields.Nodup ∧ Good db l outer ∧ Good db r (l.fields ++ outer) ∧ BinGood outer s l.fields r.fields .ljoin ∧
      ∀ ctx, Binds (l.fields ++ outer) ctx → (denote db r ctx).isSome = true
  | .bin s (.sjoin lk rk) l r, outer =>
    s.fields.Nodup ∧ Good db l outer ∧ Good db r outer ∧ BinGood outer s l.fields r.fields (.sjoin lk rk)
  | .bin s (.ojoin il ir lk rk) l r, outer =>
    s.fields.Nodup ∧ Good db l outer ∧ Good db r outer ∧ BinGood outer s l.fields r.fields (.ojoin il ir lk rk)

theorem Good.nodup {db : Db} : ∀ {p : Plan} {outer : List String}, Good db p outer → p.fields.Nodup
  | .leaf _ _, _, h => h.1
  | .un _ _ _, _, h => h.1
  | .bin _ .ljoin _ _, _, h => h.1
  | .bin _ (.sjoin _ _) _ _, _, h => h.1
  | .bin _ (.ojoin _ _ _ _) _ _, _, h => h.1

/-- what a sound rewrite step guarantees -/
def StepOK (db : Db) (outer : List String) (q q' : Plan) : Prop :=
  Good db q' outer ∧ q'.schema = q.schema ∧ ∀ ctx, Binds outer ctx → denote db q' ctx = denote db q ctx

theorem StepOK.refl {db : Db} {outer : List String} {q : Plan} (h : Good db q outer) : StepOK db outer q q :=
  ⟨h, rfl, fun _ _ => rfl⟩

theorem StepOK.trans {db : Db} {outer : List String} {a b c : Plan}
    (h1 : StepOK db outer a b) (h2 : StepOK db outer b c) : StepOK db outer a c :=
  ⟨h2.1, h2.2.1.trans h1.2.1, fun ctx hb => (h2.2.2 ctx hb).trans (h1.2.2 ctx hb)⟩

/-- a local rewrite (node transformer) is sound on well-formed nodes -/
def LocalOK (db : Db) (f : Plan → Option (Plan × Bool)) : Prop :=
  ∀ (outer : List String) (q q' : Plan) (c : Bool), Good db q outer → f q = some (q', c) → StepOK db outer q q'

/-- a rule is sound on well-formed plans -/
def RuleOK (db : Db) (r : Rule) : Prop :=
  ∀ (outer : List String) (p p' : Plan) (c : Bool), Good db p outer → r p = some (p', c) → StepOK db outer p p'

theorem lookupJoinRows_congr {j1 j2 : Ctx → Option (List Row)} {ctx : Ctx} : ∀ {ls : List Row},
    (∀ l ∈ ls, j1 (l :: ctx) = j2 (l :: ctx)) → lookupJoinRows j1 ctx ls = lookupJoinRows j2 ctx ls
  | [], _ => by simp [lookupJoinRows]
  | l :: ls, h => by
    simp only [lookupJoinRows]
    rw [h l (by simp), lookupJoinRows_congr (ls := ls) (fun x hx => h x (by simp [hx]))]

/-- `TransformNode` applies a sound local rewrite everywhere, bottom-up -/
theorem transformNode_ok {db : Db} {f : Plan → Option (Plan × Bool)} (hf : LocalOK db f) :
    LocalOK db (transformNode f) := by
  intro outer q
  induction q generalizing outer with
  | leaf s k =>
    intro q' c hg h
    simp only [transformNode] at h
    exact hf outer _ q' c hg h
  | un s k src ih =>
    intro q' c hg h
    simp only [transformNode] at h
    cases hsrc : transformNode f src with
    | none => simp [hsrc] at h
    | some pr =>
      obtain ⟨src', c1⟩ := pr
      simp only [hsrc] at h
      cases hn : f (.un s k src') with
      | none => simp [hn] at h
      | some pr2 =>
        obtain ⟨out, c2⟩ := pr2
        simp only [hn, Option.some.injEq, Prod.mk.injEq] at h
        obtain ⟨rfl, _⟩ := h
        simp only [Good] at hg
        obtain ⟨hs1, hs2, hs3⟩ := ih outer src' c1 hg.2.1 hsrc
        have hnode : StepOK db outer (.un s k src) (.un s k src') := by
          refine ⟨?_, rfl, ?_⟩
          · simp only [Good]
            exact ⟨hg.1, hs1, by rw [hs2]; exact hg.2.2⟩
          · intro ctx hb
            simp only [denote, hs3 ctx hb, hs2]
        exact hnode.trans (hf outer _ out c2 hnode.1 hn)
  | bin s k l r ihl ihr =>
    intro q' c hg h
    simp only [transformNode] at h
    cases hl : transformNode f l with
    | none => simp [hl] at h
    | some pl =>
      obtain ⟨l', c1⟩ := pl
      simp only [hl] at h
      cases hr : transformNode f r with
      | none => simp [hr] at h
      | some pr =>
        obtain ⟨r', c2⟩ := pr
        simp only [hr] at h
        cases hn : f (.bin s k l' r') with
        | none => simp [hn] at h
        | some pr2 =>
          obtain ⟨out, c3⟩ := pr2
          simp only [hn, Option.some.injEq, Prod.mk.injEq] at h
          obtain ⟨rfl, _⟩ := h
          have hnode : StepOK db outer (.bin s k l r) (.bin s k l' r') := by
            cases k with
            | ljoin =>
              simp only [Good] at hg
              obtain ⟨hnd, hgl, hgr, hb, htot⟩ := hg
              obtain ⟨hl1, hl2, hl3⟩ := ihl outer l' c1 hgl hl
              obtain ⟨hr1, hr2, hr3⟩ := ihr (l.fields ++ outer) r' c2 hgr hr
              have hlf : l'.fields = l.fields := by simp only [Plan.fields, hl2]
              have hrf : r'.fields = r.fields := by simp only [Plan.fields, hr2]
              refine ⟨?_, rfl, ?_⟩
              · simp only [Good, hlf, hrf]
                refine ⟨hnd, hl1, hr1, hb, ?_⟩
                intro ctx hbd
                rw [hr3 ctx hbd]
                exact htot ctx hbd
              · intro ctx hbd
                simp only [denote, hl3 ctx hbd]
                cases hd : denote db l ctx with
                | none => rfl
                | some ls =>
                  simp only
                  rw [lookupJoinRows_congr (j1 := denote db r') (j2 := denote db r)]
                  intro row hrow
                  exact hr3 _ (binds_cons (denote_names hd row hrow) hbd)
            | sjoin lk rk =>
              simp only [Good] at hg
              obtain ⟨hnd, hgl, hgr, hb⟩ := hg
              obtain ⟨hl1, hl2, hl3⟩ := ihl outer l' c1 hgl hl
              obtain ⟨hr1, hr2, hr3⟩ := ihr outer r' c2 hgr hr
              have hlf : l'.fields = l.fields := by simp only [Plan.fields, hl2]
              have hrf : r'.fields = r.fields := by simp only [Plan.fields, hr2]
              refine ⟨?_, rfl, ?_⟩
              · simp only [Good, hlf, hrf]
                exact ⟨hnd, hl1, hr1, hb⟩
              · intro ctx hbd
                simp only [denote, hl3 ctx hbd, hr3 ctx hbd, hlf, hrf]
            | ojoin il ir lk rk =>
              simp only [Good] at hg
              obtain ⟨hnd, hgl, hgr, hb⟩ := hg
              obtain ⟨hl1, hl2, hl3⟩ := ihl outer l' c1 hgl hl
              obtain ⟨hr1, hr2, hr3⟩ := ihr outer r' c2 hgr hr
              have hlf : l'.fields = l.fields := by simp only [Plan.fields, hl2]
              have hrf : r'.fields = r.fields := by simp only [Plan.fields, hr2]
              refine ⟨?_, rfl, ?_⟩
              · simp only [Good, hlf, hrf]
                exact ⟨hnd, hl1, hr1, hb⟩
              · intro ctx hbd
                simp only [denote, hl3 ctx hbd, hr3 ctx hbd, hlf, hrf]
          exact hnode.trans (hf outer _ out c3 hnode.1 hn)

/-- the tail of a `TransformNode` rule -/
theorem rule_of_local {db : Db} {f : Plan → Option (Plan × Bool)} (hf : LocalOK db f) :
    RuleOK db (fun p => finish p (transformNode f p)) := by
  intro outer p p' c hg h
  cases ht : transformNode f p with
  | none => simp [ht, finish] at h
  | some pr =>
    obtain ⟨out, ch⟩ := pr
    cases ch with
    | true =>
      simp only [ht, finish, Option.some.injEq, Prod.mk.injEq] at h
      obtain ⟨rfl, _⟩ := h
      exact transformNode_ok hf outer p out true hg ht
    | false =>
      simp only [ht, finish, Option.some.injEq, Prod.mk.injEq] at h
      obtain ⟨rfl, _⟩ := h
      exact StepOK.refl hg

/-- one pass over a list of sound rules -/
theorem runRules_ok {db : Db} : ∀ {rules : List Rule}, (∀ r ∈ rules, RuleOK db r) →
    ∀ (outer : List String) (p p' : Plan) (c c' : Bool), Good db p outer → runRules rules p c = some (p', c') →
      StepOK db outer p p'
  | [], _, outer, p, p', c, c', hg, h => by
    simp only [runRules, Option.some.injEq, Prod.mk.injEq] at h
    obtain ⟨rfl, _⟩ := h
    exact StepOK.refl hg
  | r :: rs, hr, outer, p, p', c, c', hg, h => by
    simp only [runRules] at h
    cases hrp : r p with
    | none => simp [hrp] at h
    | some pr =>
      obtain ⟨out, ch⟩ := pr
      simp only [hrp] at h
      have hrest : ∀ r' ∈ rs, RuleOK db r' := fun r' h' => hr r' (by simp [h'])
      cases ch with
      | true =>
        simp only [if_true] at h
        have h1 := hr r (by simp) outer p out true hg hrp
        exact h1.trans (runRules_ok hrest outer out p' true c' h1.1 h)
      | false =>
        simp only [Bool.false_eq_true, if_false] at h
        exact runRules_ok hrest outer p p' c c' hg h

/-- the fixpoint of sound rules, for every bound on the number of passes -/
theorem optimizeWith_ok {db : Db} {rules : List Rule} (hr : ∀ r ∈ rules, RuleOK db r) :
    ∀ (fuel : Nat) (outer : List String) (p p' : Plan), Good db p outer → optimizeWith rules fuel p = .ok p' →
      StepOK db outer p p'
  | 0, _, _, _, _, h => by simp [optimizeWith] at h
  | n + 1, outer, p, p', hg, h => by
    simp only [optimizeWith] at h
    cases hrr : runRules rules p false with
    | none => simp [hrr] at h
    | some pr =>
      obtain ⟨out, ch⟩ := pr
      have h1 := runRules_ok hr outer p out false ch hg hrr
      cases ch with
      | true =>
        simp only [hrr] at h
        exact h1.trans (optimizeWith_ok hr n outer out p' h1.1 h)
      | false =>
        simp only [hrr, OptRes.ok.injEq] at h
        subst h
        exact h1

end Octo.Plan
