import Octo.Lemmas.OpsGroup
/-!
  Octo.Lemmas.OpsGroupFinal — from the group-by state invariant to the batch result: rows compare
  equal blockwise (`rowEq_append`), "same keys up to Compare == 0 ⇒ same multiset of result rows"
  (`cnt_equiv`), the flush of SimpleGroupBy and the run lemma.
-/
namespace Octo.Ops
open Octo

/-! ### rows compare blockwise -/
theorem cmpList_cons (x y : Value) (xs ys : Row) :
    cmpList (x :: xs) (y :: ys) = if cmp x y != 0 then cmp x y else cmpList xs ys := by
  simp only [cmpList, cmp, cmpListWith]

theorem cmpList_append_of_eq : ∀ (a a' b b' : Row), cmpList a a' = 0 → cmpList (a ++ b) (a' ++ b') = cmpList b b'
  | [], [], _, _, _ => rfl
  | [], _ :: _, _, _, h => by simp [cmpList, cmpListWith] at h
  | _ :: _, [], _, _, h => by simp [cmpList, cmpListWith] at h
  | x :: xs, y :: ys, b, b', h => by
    rw [cmpList_cons] at h
    simp only [List.cons_append, cmpList_cons]
    by_cases hc : cmp x y = 0
    · simp only [hc, bne_self_eq_false, Bool.false_eq_true, ↓reduceIte] at h ⊢
      exact cmpList_append_of_eq xs ys b b' h
    · have : (cmp x y != 0) = true := by simpa using hc
      simp only [this, ↓reduceIte] at h
      exact absurd h hc

theorem rowEq_append {a a' b b' : Row} (h1 : rowEq a a' = true) (h2 : rowEq b b' = true) :
    rowEq (a ++ b) (a' ++ b') = true := by
  rw [rowEq_iff] at *
  rw [cmpList_append_of_eq a a' b b' h1]; exact h2

/-! ### two key-indexed families with the same keys (up to rowEq) have the same result multiset -/
def KeysNodup (l : List (Row × β)) : Prop := l.Pairwise (fun a b => rowEq a.1 b.1 = false)

theorem cnt_map_snd_append (l1 l2 : List (Row × Row)) (y : Row) :
    cnt ((l1 ++ l2).map (·.2)) y = cnt (l1.map (·.2)) y + cnt (l2.map (·.2)) y := by
  rw [List.map_append, cnt_append]

theorem cnt_equiv : ∀ (l1 l2 : List (Row × Row)), KeysNodup l1 → KeysNodup l2 →
    (∀ a ∈ l1, ∃ b ∈ l2, rowEq a.1 b.1 = true) → (∀ b ∈ l2, ∃ a ∈ l1, rowEq a.1 b.1 = true) →
    (∀ a ∈ l1, ∀ b ∈ l2, rowEq a.1 b.1 = true → rowEq a.2 b.2 = true) →
    ∀ y, cnt (l1.map (·.2)) y = cnt (l2.map (·.2)) y
  | [], l2, _, _, _, h21, _, y => by
    cases l2 with
    | nil => rfl
    | cons b bs => obtain ⟨a, ha, _⟩ := h21 b List.mem_cons_self; simp at ha
  | a :: l1, l2, n1, n2, h12, h21, hv, y => by
    obtain ⟨b, hb, hab⟩ := h12 a List.mem_cons_self
    obtain ⟨pre, post, rfl⟩ := List.append_of_mem hb
    have n1' := List.pairwise_cons.mp n1
    have n2a : KeysNodup (pre ++ post) := by
      have : (pre ++ post).Sublist (pre ++ b :: post) :=
        List.Sublist.append (List.Sublist.refl _) (List.sublist_cons_self _ _)
      exact List.Pairwise.sublist this n2
    have hb_pre : ∀ c ∈ pre, rowEq c.1 b.1 = false := by
      intro c hc
      have := List.pairwise_append.mp n2
      exact this.2.2 c hc b List.mem_cons_self
    have hb_post : ∀ c ∈ post, rowEq b.1 c.1 = false := by
      intro c hc
      have := (List.pairwise_append.mp n2).2.1
      exact (List.pairwise_cons.mp this).1 c hc
    have hb_other : ∀ c ∈ pre ++ post, rowEq c.1 b.1 = false := by
      intro c hc
      rcases List.mem_append.mp hc with h | h
      · exact hb_pre c h
      · rw [rowEq_symm]; exact hb_post c h
    have ih := cnt_equiv l1 (pre ++ post) n1'.2 n2a
      (by
        intro a' ha'
        obtain ⟨b', hb', hab'⟩ := h12 a' (List.mem_cons_of_mem _ ha')
        refine ⟨b', ?_, hab'⟩
        rcases List.mem_append.mp hb' with h | h
        · exact List.mem_append.mpr (Or.inl h)
        · rcases List.mem_cons.mp h with h | h
          · subst h
            -- a' ≃ b ≃ a contradicts the nodup of a :: l1
            have h1 : rowEq a.1 a'.1 = false := n1'.1 a' ha'
            have h2 : rowEq a.1 a'.1 = true :=
              rowEq_trans hab (by rw [rowEq_symm]; exact hab')
            rw [h1] at h2; cases h2
          · exact List.mem_append.mpr (Or.inr h))
      (by
        intro b' hb'
        have hb'2 : b' ∈ pre ++ b :: post := by
          rcases List.mem_append.mp hb' with h | h
          · exact List.mem_append.mpr (Or.inl h)
          · exact List.mem_append.mpr (Or.inr (List.mem_cons_of_mem _ h))
        obtain ⟨a', ha', hab'⟩ := h21 b' hb'2
        rcases List.mem_cons.mp ha' with h | h
        · subst h
          -- b' ≃ a ≃ b contradicts the nodup of l2
          have h1 := hb_other b' hb'
          have h2 : rowEq b'.1 b.1 = true := rowEq_trans (by rw [rowEq_symm]; exact hab') hab
          rw [h1] at h2; cases h2
        · exact ⟨a', h, hab'⟩)
      (by
        intro a' ha' b' hb' hab'
        refine hv a' (List.mem_cons_of_mem _ ha') b' ?_ hab'
        rcases List.mem_append.mp hb' with h | h
        · exact List.mem_append.mpr (Or.inl h)
        · exact List.mem_append.mpr (Or.inr (List.mem_cons_of_mem _ h)))
      y
    have hval := hv a List.mem_cons_self b hb hab
    simp only [List.map_cons, cnt, List.map_append, cnt_append]
    simp only [List.map_append, cnt_append] at ih
    rw [ih, rowEq_congr_left hval y]; omega

/-! ### dedupRows -/
theorem mem_dedupRows_sub (l : List Row) (k : Row) (h : k ∈ dedupRows l) : k ∈ l := by
  induction l with
  | nil => simp [dedupRows] at h
  | cons x xs ih =>
    simp only [dedupRows, List.mem_cons, List.mem_filter] at h
    rcases h with h | h
    · exact h ▸ List.mem_cons_self
    · exact List.mem_cons_of_mem _ (ih h.1)

theorem dedupRows_nodup (l : List Row) : (dedupRows l).Pairwise (fun a b => rowEq a b = false) := by
  induction l with
  | nil => exact List.Pairwise.nil
  | cons x xs ih =>
    simp only [dedupRows, List.pairwise_cons]
    refine ⟨?_, List.Pairwise.filter _ ih⟩
    intro y hy
    simp only [List.mem_filter, Bool.not_eq_eq_eq_not, Bool.not_true] at hy
    exact hy.2

theorem exists_dedupRows (l : List Row) (y : Row) (h : 0 < cnt l y) : ∃ k ∈ dedupRows l, rowEq k y = true := by
  induction l with
  | nil => simp [cnt] at h
  | cons x xs ih =>
    cases hx : rowEq x y
    · simp only [cnt, hx, Bool.false_eq_true, ↓reduceIte, Int.zero_add] at h
      obtain ⟨k, hk, hky⟩ := ih h
      refine ⟨k, ?_, hky⟩
      simp only [dedupRows, List.mem_cons, List.mem_filter, Bool.not_eq_eq_eq_not, Bool.not_true]
      right
      refine ⟨hk, ?_⟩
      cases hxk : rowEq x k
      · rfl
      · have := rowEq_trans hxk hky; rw [hx] at this; cases this
    · exact ⟨x, by simp [dedupRows], hx⟩

theorem cnt_pos_of_mem (l : List Row) (k : Row) (h : k ∈ l) : 0 < cnt l k := by
  induction l with
  | nil => simp at h
  | cons x xs ih =>
    have := cnt_nonneg xs k
    rcases List.mem_cons.mp h with h | h
    · subst h; simp only [cnt, rowEq_refl, ↓reduceIte]; omega
    · have := ih h; simp only [cnt]; split <;> omega

/-! ### the flush of SimpleGroupBy -/
def gOutRow (agg : GAgg α) (e : Row × GItem α) : Row := e.1 ++ (agg.trig e.2.st).getD []

theorem gFlush_eq (agg : GAgg α) (groups : List (Row × GItem α))
    (h : ∀ e ∈ groups, ∃ out, agg.trig e.2.st = some out) :
    gFlush agg groups = some (groups.map fun e => .data { vals := gOutRow agg e, retr := false, et := none }) := by
  induction groups with
  | nil => rfl
  | cons e es ih =>
    obtain ⟨out, ho⟩ := h e List.mem_cons_self
    have := ih (fun q hq => h q (List.mem_cons_of_mem _ hq))
    obtain ⟨k, it⟩ := e
    simp only [gFlush, gRow, this, List.map_cons, gOutRow]
    simp only at ho
    simp [ho]

theorem aget_of_mem_nodup (groups : List (Row × β)) (hn : groups.Pairwise (fun a b => rowEq a.1 b.1 = false))
    (e : Row × β) (he : e ∈ groups) : aget groups e.1 = some e := by
  induction groups with
  | nil => simp at he
  | cons a as ih =>
    have hn' := List.pairwise_cons.mp hn
    simp only [aget, List.find?_cons]
    rcases List.mem_cons.mp he with h | h
    · subst h; simp [rowEq_refl]
    · have := hn'.1 e h
      simp only [this, Bool.false_eq_true]
      exact ih hn'.2 h

theorem mem_of_aget (groups : List (Row × β)) (k : Row) (e : Row × β) (h : aget groups k = some e) : e ∈ groups := by
  simp only [aget] at h
  exact List.mem_of_find?_eq_some h

/-- watermarks pass through SimpleGroupBy as they arrive -/
def wmMsgs (ms : List Msg) : List Msg := (wms ms).map .wm

theorem recs_wmMsgs (ms : List Msg) : recs (wmMsgs ms) = [] := by
  simp only [wmMsgs]
  induction wms ms with
  | nil => rfl
  | cons t ts ih => simpa [recs] using ih

theorem sgroup_runFrom (agg : GAgg α) (kf inf : Row → Row) (hk : RowCongr kf) (hi : RowCongr inf) (ms : List Msg) :
    ∀ (groups : List (Row × GItem α)) (done : List Rec), GInv agg kf inf groups done →
      ValidLog (done ++ recs ms) →
      ∃ groups', GInv agg kf inf groups' (done ++ recs ms) ∧
        (simpleGroupOp agg (fun x => .ok (kf x)) (fun x => .ok (inf x))).runFrom groups ms false =
          (wmMsgs ms ++ ((simpleGroupOp agg (fun x => .ok (kf x)) (fun x => .ok (inf x))).onEnd groups').1,
           ((simpleGroupOp agg (fun x => .ok (kf x)) (fun x => .ok (inf x))).onEnd groups').2) := by
  induction ms with
  | nil =>
    intro groups done inv _
    exact ⟨groups, by simpa [recs] using inv, by simp [Op.runFrom, wmMsgs, wms]⟩
  | cons m ms ih =>
    intro groups done inv hv
    cases m with
    | wm t =>
      obtain ⟨g', hg', hrun⟩ := ih groups done inv (by simpa [recs] using hv)
      refine ⟨g', by simpa [recs] using hg', ?_⟩
      have hstep : (simpleGroupOp agg (fun x => .ok (kf x)) (fun x => .ok (inf x))).onMsg groups (.wm t) =
          (groups, [.wm t], none) := rfl
      simp only [Op.runFrom, hstep, hrun, wmMsgs, wms, List.map_cons, List.cons_append, List.nil_append]
    | data r =>
      have hv' : ValidLog ((done ++ [r]) ++ recs ms) := by simpa [recs, List.append_assoc] using hv
      have inv' := ginv_step agg kf inf hk hi groups done r inv (validLog_prefix hv')
      obtain ⟨g', hg', hrun⟩ := ih _ (done ++ [r]) inv' hv'
      refine ⟨g', by simpa [recs, List.append_assoc] using hg', ?_⟩
      have hstep : (simpleGroupOp agg (fun x => .ok (kf x)) (fun x => .ok (inf x))).onMsg groups (.data r) =
          (gUpdate agg groups (kf r.vals) r.retr (inf r.vals), [], none) := rfl
      simp only [Op.runFrom, hstep, hrun, wmMsgs, wms, List.nil_append]

/-- every stored group triggers, with the reference aggregate of the group's rows -/
theorem ginv_trig (agg : GAgg α) (spec : List Row → Row) (hagg : GAggOK agg spec) (kf inf : Row → Row)
    (hk : RowCongr kf) (hi : RowCongr inf) (log : List Rec) (groups : List (Row × GItem α))
    (inv : GInv agg kf inf groups log) (rows : List Row) (hc : Consolidates rows log) :
    ∀ e ∈ groups, ∃ out, agg.trig e.2.st = some out ∧
      rowEq out (spec ((rows.filter fun x => rowEq (kf x) e.1).map inf)) = true := by
  intro e he
  obtain ⟨_, _, h, hvh, hnet, hst⟩ := inv.present e.1 e (aget_of_mem_nodup groups inv.nodup e he)
  have hcons : Consolidates ((rows.filter fun x => rowEq (kf x) e.1).map inf) h := by
    intro y; rw [hnet y]; exact sub_consolidates kf inf hk hi e.1 hc y
  obtain ⟨out, ho, hr⟩ := hagg h _ hvh hcons
  exact ⟨out, hst ▸ ho, hr⟩

/-- what the entries of a state satisfying the invariant trigger, and the consolidated result -/
theorem ginv_result (agg : GAgg α) (spec : List Row → Row) (hagg : GAggOK agg spec) (kf inf : Row → Row)
    (hk : RowCongr kf) (hi : RowCongr inf) (log : List Rec) (groups : List (Row × GItem α))
    (inv : GInv agg kf inf groups log) (rows : List Row) (hc : Consolidates rows log) :
    (∀ e ∈ groups, ∃ out, agg.trig e.2.st = some out) ∧
    ∀ y, cnt (groups.map (gOutRow agg)) y = cnt (groupB spec kf inf rows) y := by
  -- every stored group triggers, with the reference aggregate of the group's rows
  have htrig : ∀ e ∈ groups, ∃ out, agg.trig e.2.st = some out ∧
      rowEq out (spec ((rows.filter fun x => rowEq (kf x) e.1).map inf)) = true := by
    intro e he
    obtain ⟨_, _, h, hvh, hnet, hst⟩ := inv.present e.1 e (aget_of_mem_nodup groups inv.nodup e he)
    have hcons : Consolidates ((rows.filter fun x => rowEq (kf x) e.1).map inf) h := by
      intro y; rw [hnet y]; exact sub_consolidates kf inf hk hi e.1 hc y
    obtain ⟨out, ho, hr⟩ := hagg h _ hvh hcons
    exact ⟨out, hst ▸ ho, hr⟩
  refine ⟨fun e he => (htrig e he).imp fun _ h => h.1, ?_⟩
  intro y
  let l1 : List (Row × Row) := groups.map fun e => (e.1, gOutRow agg e)
  let l2 : List (Row × Row) := (dedupRows (rows.map kf)).map fun k =>
    (k, k ++ spec ((rows.filter fun x => rowEq (kf x) k).map inf))
  have e1 : groups.map (gOutRow agg) = l1.map (·.2) := by simp [l1, List.map_map, Function.comp_def]
  have e2 : groupB spec kf inf rows = l2.map (·.2) := by simp [l2, groupB, List.map_map, Function.comp_def]
  rw [e1, e2]
  apply cnt_equiv l1 l2
  · simp only [KeysNodup, l1, List.pairwise_map]; exact inv.nodup
  · simp only [KeysNodup, l2, List.pairwise_map]; exact dedupRows_nodup _
  · intro a ha
    simp only [l1, List.mem_map] at ha
    obtain ⟨e, he, rfl⟩ := ha
    obtain ⟨hcount, hne, _⟩ := inv.present e.1 e (aget_of_mem_nodup groups inv.nodup e he)
    rw [keyCount_of_consolidates kf hk e.1 hc] at hcount
    have hpos : 0 < cnt (rows.map kf) e.1 := by
      have := cnt_nonneg (rows.map kf) e.1; omega
    obtain ⟨k, hk1, hk2⟩ := exists_dedupRows _ _ hpos
    exact ⟨(k, _), List.mem_map.mpr ⟨k, hk1, rfl⟩, by rw [rowEq_symm]; exact hk2⟩
  · intro b hb
    simp only [l2, List.mem_map] at hb
    obtain ⟨k, hkm, rfl⟩ := hb
    have hpos := cnt_pos_of_mem _ _ (mem_dedupRows_sub _ _ hkm)
    cases hg : aget groups k with
    | none =>
      have := inv.absent k hg
      rw [keyCount_of_consolidates kf hk k hc] at this; omega
    | some e =>
      exact ⟨(e.1, gOutRow agg e), List.mem_map.mpr ⟨e, mem_of_aget _ _ _ hg, rfl⟩, aget_key groups k e hg⟩
  · intro a ha b hb hab
    simp only [l1, List.mem_map] at ha
    obtain ⟨e, he, rfl⟩ := ha
    simp only [l2, List.mem_map] at hb
    obtain ⟨k, _, rfl⟩ := hb
    obtain ⟨out, ho, hr⟩ := htrig e he
    simp only [gOutRow, ho, Option.getD_some] at hab ⊢
    apply rowEq_append hab
    have : (rows.filter fun x => rowEq (kf x) e.1) = (rows.filter fun x => rowEq (kf x) k) := by
      apply List.filter_congr; intro x _; exact rowEq_congr_right hab _
    rw [← this]; exact hr

/-- SimpleGroupBy on a valid changelog: forwards the watermarks, then emits one addition per stored group -/
theorem sgroup_run (agg : GAgg α) (spec : List Row → Row) (hagg : GAggOK agg spec) (kf inf : Row → Row)
    (hk : RowCongr kf) (hi : RowCongr inf) (ms : List Msg) (hv : ValidLog (recs ms)) :
    ∃ groups, GInv agg kf inf groups (recs ms) ∧
      (simpleGroupOp agg (fun x => .ok (kf x)) (fun x => .ok (inf x))).run ms =
        (wmMsgs ms ++ (adds (groups.map (gOutRow agg))).map .data, none) := by
  obtain ⟨g, hg, hrun⟩ := sgroup_runFrom agg kf inf hk hi ms [] [] (ginv_init agg kf inf) (by simpa using hv)
  simp only [List.nil_append] at hg
  refine ⟨g, hg, ?_⟩
  have htrig := (ginv_result agg spec hagg kf inf hk hi (recs ms) g hg _ (consolidate_correct hv)).1
  have hend : (simpleGroupOp agg (fun x => .ok (kf x)) (fun x => .ok (inf x))).onEnd g =
      ((adds (g.map (gOutRow agg))).map .data, none) := by
    simp only [simpleGroupOp, gFlush_eq agg g htrig, adds, List.map_map, Function.comp_def]
  simp only [Op.run]
  show (simpleGroupOp agg (fun x => .ok (kf x)) (fun x => .ok (inf x))).runFrom [] ms false = _
  rw [hrun, hend]

end Octo.Ops
