import Octo.Model.Repopulate
/-!
  Lemmas for C26: the descriptor loop of `RepopulatePhysicalExpressionFunctions` against the typechecker's choice.

  `pairwiseOk ds` is the (decidable) condition on the descriptors of one function under which the signature that
  survives JSON, together with the argument types, identifies the descriptor again:
    * every descriptor matches its own signature;
    * two descriptors match each other's signature only if both have a `TypeFn`, both have the same `Strict` flag and
      their `TypeFn`s exclude one another syntactically (they demand different TypeIDs of the same argument).
  It is checked by `decide` over the regenerated table in `Octo.Props.C26`.
-/
namespace Octo.Wire
open Octo

/-- the `types[k].TypeID != a` guards of a `TypeFn` -/
def tidConds : List TfCond → List (Nat × Nat)
  | [] => []
  | .typeIdNe k a :: cs => (k, a) :: tidConds cs
  | _ :: cs => tidConds cs

/-- the two guard lists demand different TypeIDs of one argument -/
def exclusive (c1 c2 : List TfCond) : Bool :=
  (tidConds c1).any fun p => (tidConds c2).any fun q => p.1 == q.1 && p.2 != q.2

def tfExclusive (x d : FnDesc) : Bool :=
  match x.typeFn, d.typeFn with
  | some cx, some cd => exclusive cx cd && x.strict == d.strict
  | _, _ => false

def compat (x d : FnDesc) : Bool := (!sigMatch x d.sig && !sigMatch d x.sig) || tfExclusive x d

def pairwiseOk : List FnDesc → Bool
  | [] => true
  | d :: ds => sigMatch d d.sig && ds.all (compat d) && pairwiseOk ds

theorem pairwiseOk_split : ∀ (pre : List FnDesc) (d : FnDesc) (post : List FnDesc), pairwiseOk (pre ++ d :: post) = true →
    sigMatch d d.sig = true ∧ (∀ x ∈ pre, compat x d = true) ∧ (∀ x ∈ post, compat d x = true)
  | [], d, post, h => by
    simp only [List.nil_append, pairwiseOk, Bool.and_eq_true, List.all_eq_true] at h
    exact ⟨h.1.1, by simp, h.1.2⟩
  | p :: pre, d, post, h => by
    simp only [List.cons_append, pairwiseOk, Bool.and_eq_true, List.all_eq_true] at h
    have ih := pairwiseOk_split pre d post h.2
    refine ⟨ih.1, ?_, ih.2.2⟩
    intro x hx
    rcases List.mem_cons.mp hx with rfl | hx
    · exact h.1.2 d (by simp)
    · exact ih.2.1 x hx

/-! ### exclusive TypeFns never both accept -/

theorem tfAccept_true_all : ∀ (cs : List TfCond) (ts : List Ty), tfAccept cs ts = some true →
    ∀ c ∈ cs, tfCond c ts = some false
  | [], _, _ => by simp
  | c :: cs, ts, h => by
    intro c' hc'
    simp only [tfAccept] at h
    cases hc : tfCond c ts with
    | none => simp [hc] at h
    | some b =>
      cases b with
      | true => simp [hc] at h
      | false =>
        simp only [hc] at h
        rcases List.mem_cons.mp hc' with rfl | hm
        · exact hc
        · exact tfAccept_true_all cs ts h c' hm

theorem mem_tidConds : ∀ (cs : List TfCond) (k a : Nat), (k, a) ∈ tidConds cs → TfCond.typeIdNe k a ∈ cs
  | [], _, _, h => by simp [tidConds] at h
  | c :: cs, k, a, h => by
    cases c with
    | typeIdNe k' a' =>
      simp only [tidConds, List.mem_cons, Prod.mk.injEq] at h
      rcases h with ⟨rfl, rfl⟩ | h
      · simp
      · exact List.mem_cons_of_mem _ (mem_tidConds cs k a h)
    | lenNe n => simp only [tidConds] at h; exact List.mem_cons_of_mem _ (mem_tidConds cs k a h)
    | notEquals i j => simp only [tidConds] at h; exact List.mem_cons_of_mem _ (mem_tidConds cs k a h)

theorem exclusive_not_both (c1 c2 : List TfCond) (ts : List Ty) (hx : exclusive c1 c2 = true)
    (h1 : tfAccept c1 ts = some true) (h2 : tfAccept c2 ts = some true) : False := by
  simp only [exclusive, List.any_eq_true, Bool.and_eq_true, beq_iff_eq, bne_iff_ne, ne_eq] at hx
  obtain ⟨⟨k, a⟩, hp, ⟨k', b⟩, hq, hk, hab⟩ := hx
  simp only at hk hab
  subst hk
  have e1 := tfAccept_true_all c1 ts h1 _ (mem_tidConds c1 k a hp)
  have e2 := tfAccept_true_all c2 ts h2 _ (mem_tidConds c2 k b hq)
  simp only [tfCond] at e1 e2
  cases ht : ts[k]? with
  | none => simp [ht] at e1
  | some t =>
    simp only [ht, Option.some.injEq, bne_eq_false_iff_eq] at e1 e2
    exact hab (e1.symm.trans e2)

/-! ### the repopulate loop -/

/-- the loop passes over `x` -/
def skippable (r : Sig) (argTys : List Ty) (x : FnDesc) : Prop :=
  sigMatch x r = false ∨ ∃ c, x.typeFn = some c ∧ tfAccept c (viewArgs x.strict argTys) = some false

/-- the loop stops at `d` -/
def hit (r : Sig) (argTys : List Ty) (d : FnDesc) : Prop :=
  sigMatch d r = true ∧ (d.typeFn = none ∨ ∃ c, d.typeFn = some c ∧ tfAccept c (viewArgs d.strict argTys) = some true)

theorem repopulateFrom_skip (r : Sig) (argTys : List Ty) (k : Nat) (x : FnDesc) (rest : List FnDesc)
    (h : skippable r argTys x) :
    repopulateFrom r argTys k (x :: rest) = repopulateFrom r argTys (k + 1) rest := by
  rcases h with h | ⟨c, hc, ha⟩
  · simp [repopulateFrom, h]
  · by_cases hs : sigMatch x r = true
    · simp [repopulateFrom, hs, hc, ha]
    · simp [repopulateFrom, hs]

theorem repopulateFrom_hit (r : Sig) (argTys : List Ty) : ∀ (pre : List FnDesc) (k : Nat) (d : FnDesc) (post : List FnDesc),
    (∀ x ∈ pre, skippable r argTys x) → hit r argTys d →
    repopulateFrom r argTys k (pre ++ d :: post) = .found (k + pre.length)
  | [], k, d, post, _, hd => by
    rcases hd with ⟨hs, hn | ⟨c, hc, ha⟩⟩
    · simp [repopulateFrom, hs, hn]
    · simp [repopulateFrom, hs, hc, ha]
  | p :: pre, k, d, post, hp, hd => by
    rw [List.cons_append, repopulateFrom_skip r argTys k p _ (hp p (by simp))]
    rw [repopulateFrom_hit r argTys pre (k + 1) d post (fun x hx => hp x (List.mem_cons_of_mem _ hx)) hd]
    simp only [List.length_cons]
    congr 1
    omega

theorem repopulateFrom_none (r : Sig) (argTys : List Ty) : ∀ (ds : List FnDesc) (k : Nat),
    (∀ x ∈ ds, skippable r argTys x) → repopulateFrom r argTys k ds = .notFound
  | [], _, _ => by simp [repopulateFrom]
  | p :: ds, k, hp => by
    rw [repopulateFrom_skip r argTys k p _ (hp p (by simp))]
    exact repopulateFrom_none r argTys ds (k + 1) (fun x hx => hp x (List.mem_cons_of_mem _ hx))

/-! ### the typechecker's loops -/

theorem exactPassFrom_found (argTys : List Ty) : ∀ (ds : List FnDesc) (k : Nat) (acc : Option Nat) (i : Nat),
    exactPassFrom argTys k ds acc = .found i →
    (acc = some i ∧ ∀ x ∈ ds, exactFit x argTys = some false) ∨
    (∃ pre d post, ds = pre ++ d :: post ∧ i = k + pre.length ∧ exactFit d argTys = some true ∧
      (∀ x ∈ post, exactFit x argTys = some false) ∧
      (∀ x ∈ pre, exactFit x argTys = some true ∨ exactFit x argTys = some false))
  | [], k, acc, i, h => by
    cases acc with
    | none => simp [exactPassFrom] at h
    | some j => simp only [exactPassFrom, Pick.found.injEq] at h; subst h; left; simp
  | d :: ds, k, acc, i, h => by
    simp only [exactPassFrom] at h
    cases hf : exactFit d argTys with
    | none => simp [hf] at h
    | some b =>
      cases b with
      | true =>
        simp only [hf] at h
        rcases exactPassFrom_found argTys ds (k + 1) (some k) i h with ⟨hacc, hall⟩ | ⟨pre, d', post, e, hi, hd, hpost, hpre⟩
        · right
          simp only [Option.some.injEq] at hacc
          exact ⟨[], d, ds, by simp, by simp [hacc], hf, hall, by simp⟩
        · right
          refine ⟨d :: pre, d', post, by simp [e], by simp only [List.length_cons]; omega, hd, hpost, ?_⟩
          intro x hx
          rcases List.mem_cons.mp hx with rfl | hx
          · left; exact hf
          · exact hpre x hx
      | false =>
        simp only [hf] at h
        rcases exactPassFrom_found argTys ds (k + 1) acc i h with ⟨hacc, hall⟩ | ⟨pre, d', post, e, hi, hd, hpost, hpre⟩
        · left
          refine ⟨hacc, ?_⟩
          intro x hx
          rcases List.mem_cons.mp hx with rfl | hx
          · exact hf
          · exact hall x hx
        · right
          refine ⟨d :: pre, d', post, by simp [e], by simp only [List.length_cons]; omega, hd, hpost, ?_⟩
          intro x hx
          rcases List.mem_cons.mp hx with rfl | hx
          · right; exact hf
          · exact hpre x hx

theorem exactPassFrom_notFound (argTys : List Ty) : ∀ (ds : List FnDesc) (k : Nat) (acc : Option Nat),
    exactPassFrom argTys k ds acc = .notFound → acc = none ∧ ∀ x ∈ ds, exactFit x argTys = some false
  | [], k, acc, h => by
    cases acc with
    | none => simp
    | some j => simp [exactPassFrom] at h
  | d :: ds, k, acc, h => by
    simp only [exactPassFrom] at h
    cases hf : exactFit d argTys with
    | none => simp [hf] at h
    | some b =>
      cases b with
      | true =>
        simp only [hf] at h
        have := (exactPassFrom_notFound argTys ds (k + 1) (some k) h).1
        simp at this
      | false =>
        simp only [hf] at h
        have ih := exactPassFrom_notFound argTys ds (k + 1) acc h
        refine ⟨ih.1, ?_⟩
        intro x hx
        rcases List.mem_cons.mp hx with rfl | hx
        · exact hf
        · exact ih.2 x hx

theorem maybePassFrom_found (argTys : List Ty) : ∀ (ds : List FnDesc) (k i : Nat),
    maybePassFrom argTys k ds = .found i → ∃ pre d post, ds = pre ++ d :: post ∧ i = k + pre.length
  | [], _, _, h => by simp [maybePassFrom] at h
  | d :: ds, k, i, h => by
    simp only [maybePassFrom] at h
    split at h
    · split at h
      · simp at h
      · simp only [Pick.found.injEq] at h
        exact ⟨[], d, ds, by simp, by simp [h]⟩
    · obtain ⟨pre, d', post, e, hi⟩ := maybePassFrom_found argTys ds (k + 1) i h
      exact ⟨d :: pre, d', post, by simp [e], by simp only [List.length_cons]; omega⟩

theorem getElem?_mid (pre : List FnDesc) (d : FnDesc) (post : List FnDesc) :
    (pre ++ d :: post)[pre.length]? = some d := by
  simp

/-- what `exactFit` is for a `TypeFn` descriptor: the very test the repaired loop applies -/
theorem exactFit_typeFn (x : FnDesc) (c : List TfCond) (argTys : List Ty) (h : x.typeFn = some c) :
    exactFit x argTys = tfAccept c (viewArgs x.strict argTys) := by
  simp [exactFit, h]

/-- a descriptor other than `d` and compatible with `d` is passed over by the loop looking for `d.sig`, unless it
    accepts the argument types — which it cannot do together with `d` -/
theorem skippable_of_compat (x d : FnDesc) (argTys : List Ty)
    (hc : compat x d = true ∨ compat d x = true)
    (hx : exactFit x argTys = some false ∨ (exactFit x argTys = some true ∧ exactFit d argTys = some true)) :
    skippable d.sig argTys x := by
  by_cases hs : sigMatch x d.sig = true
  · -- the signatures match: both are TypeFn descriptors with exclusive guards
    have hex : tfExclusive x d = true ∨ tfExclusive d x = true := by
      rcases hc with hc | hc
      · simp only [compat, Bool.or_eq_true, Bool.and_eq_true, Bool.not_eq_true'] at hc
        rcases hc with ⟨h1, _⟩ | h
        · rw [h1] at hs; exact absurd hs (by simp)
        · left; exact h
      · simp only [compat, Bool.or_eq_true, Bool.and_eq_true, Bool.not_eq_true'] at hc
        rcases hc with ⟨_, h2⟩ | h
        · rw [h2] at hs; exact absurd hs (by simp)
        · right; exact h
    -- extract the guard lists
    have key : ∃ cx cd, x.typeFn = some cx ∧ d.typeFn = some cd ∧ x.strict = d.strict ∧
        (exclusive cx cd = true ∨ exclusive cd cx = true) := by
      rcases hex with h | h
      · simp only [tfExclusive] at h
        cases hxf : x.typeFn with
        | none => simp [hxf] at h
        | some cx =>
          cases hdf : d.typeFn with
          | none => simp [hxf, hdf] at h
          | some cd =>
            simp only [hxf, hdf, Bool.and_eq_true, beq_iff_eq] at h
            exact ⟨cx, cd, rfl, rfl, h.2, Or.inl h.1⟩
      · simp only [tfExclusive] at h
        cases hdf : d.typeFn with
        | none => simp [hdf] at h
        | some cd =>
          cases hxf : x.typeFn with
          | none => simp [hxf, hdf] at h
          | some cx =>
            simp only [hxf, hdf, Bool.and_eq_true, beq_iff_eq] at h
            exact ⟨cx, cd, rfl, rfl, h.2.symm, Or.inr h.1⟩
    obtain ⟨cx, cd, hxf, hdf, hst, hexc⟩ := key
    right
    refine ⟨cx, hxf, ?_⟩
    have ex := exactFit_typeFn x cx argTys hxf
    have ed := exactFit_typeFn d cd argTys hdf
    rcases hx with hx | ⟨hx, hdt⟩
    · rw [← ex]; exact hx
    · -- both accept: impossible
      exfalso
      rw [ex] at hx
      rw [ed, ← hst] at hdt
      rcases hexc with h | h
      · exact exclusive_not_both cx cd _ h hx hdt
      · exact exclusive_not_both cd cx _ h hdt hx
  · left
    simpa using hs

/-- **exact**: a call the typechecker resolved in its first pass keeps its descriptor through JSON + Repopulate -/
theorem transport_exact (ds : List FnDesc) (hok : pairwiseOk ds = true) (argTys : List Ty) (i : Nat)
    (h : exactPassFrom argTys 0 ds none = .found i) : transportPick ds argTys i = .found i := by
  rcases exactPassFrom_found argTys ds 0 none i h with ⟨hacc, _⟩ | ⟨pre, d, post, e, hi, hd, hpost, hpre⟩
  · simp at hacc
  · subst e
    have hi' : i = pre.length := by omega
    subst hi'
    obtain ⟨hself, hcpre, _⟩ := pairwiseOk_split pre d post hok
    simp only [transportPick, getElem?_mid]
    have := repopulateFrom_hit d.sig argTys pre 0 d post
      (fun x hx => skippable_of_compat x d argTys (Or.inl (hcpre x hx))
        (by rcases hpre x hx with h | h
            · right; exact ⟨h, hd⟩
            · left; exact h))
      ⟨hself, by
        cases hdf : d.typeFn with
        | none => left; rfl
        | some c => right; exact ⟨c, rfl, by rw [← exactFit_typeFn d c argTys hdf]; exact hd⟩⟩
    simpa [repopulate] using this

/-- **safe**: whatever the typechecker attached, after JSON + Repopulate the call has the same descriptor or is
    rejected (then the predicate is simply not pushed down) — never another function, never a panic -/
theorem transport_safe (ds : List FnDesc) (hok : pairwiseOk ds = true) (argTys : List Ty) (i : Nat)
    (h : typecheckPick ds argTys = .found i) :
    transportPick ds argTys i = .found i ∨ transportPick ds argTys i = .notFound := by
  unfold typecheckPick at h
  cases he : exactPassFrom argTys 0 ds none with
  | found j =>
    simp only [he, Pick.found.injEq] at h
    subst h
    left; exact transport_exact ds hok argTys j he
  | panic => simp [he] at h
  | notFound =>
    simp only [he] at h
    have hall := (exactPassFrom_notFound argTys ds 0 none he).2
    obtain ⟨pre, d, post, e, hi⟩ := maybePassFrom_found argTys ds 0 i h
    subst e
    have hi' : i = pre.length := by omega
    subst hi'
    obtain ⟨hself, hcpre, hcpost⟩ := pairwiseOk_split pre d post hok
    simp only [transportPick, getElem?_mid, repopulate]
    have hdF : exactFit d argTys = some false := hall d (by simp)
    cases hdf : d.typeFn with
    | none =>
      left
      have := repopulateFrom_hit d.sig argTys pre 0 d post
        (fun x hx => skippable_of_compat x d argTys (Or.inl (hcpre x hx))
          (Or.inl (hall x (by simp [hx]))))
        ⟨hself, Or.inl hdf⟩
      simpa using this
    | some cd =>
      right
      apply repopulateFrom_none
      intro x hx
      rcases List.mem_append.mp hx with hx | hx
      · exact skippable_of_compat x d argTys (Or.inl (hcpre x hx)) (Or.inl (hall x (by simp [hx])))
      · rcases List.mem_cons.mp hx with rfl | hx
        · right; exact ⟨cd, hdf, by rw [← exactFit_typeFn x cd argTys hdf]; exact hdF⟩
        · exact skippable_of_compat x d argTys (Or.inr (hcpost x hx)) (Or.inl (hall x (by simp [hx])))

theorem table_pairwise (hok : Gen.WireFunctions.table.all (fun e => pairwiseOk e.descs) = true)
    (name : List Nat) (ds : List FnDesc) (h : lookupFn Gen.WireFunctions.table name = some ds) :
    pairwiseOk ds = true := by
  simp only [lookupFn, Option.map_eq_some_iff] at h
  obtain ⟨e, he, rfl⟩ := h
  exact List.all_eq_true.mp hok e (List.mem_of_find?_eq_some he)


/-! ### whole predicates -/

mutual
theorem stripFns_ty : ∀ e, (stripFns e).ty = e.ty
  | .leaf _ => rfl
  | .node _ _ => rfl
  | .call _ _ _ _ _ => rfl
theorem tysOf_stripFnsL : ∀ es, tysOf (stripFnsL es) = tysOf es
  | [] => rfl
  | e :: es => by simp [stripFnsL, tysOf, stripFns_ty e, tysOf_stripFnsL es]
end

mutual
/-- rebuilding never changes a static type -/
theorem repopTree_ty (table : List FnEntry) : ∀ e e' ok, repopTree table e = some (e', ok) → e'.ty = e.ty
  | .leaf t, e', ok, h => by simp only [repopTree, Option.some.injEq, Prod.mk.injEq] at h; rw [← h.1]
  | .node t args, e', ok, h => by
    simp only [repopTree] at h
    cases hl : repopTreeL table args with
    | none => simp [hl] at h
    | some p => simp only [hl, Option.some.injEq, Prod.mk.injEq] at h; rw [← h.1]; rfl
  | .call t name sig fn args, e', ok, h => by
    simp only [repopTree] at h
    cases hl : repopTreeL table args with
    | none => simp [hl] at h
    | some p =>
      simp only [hl] at h
      cases hf : lookupFn table name with
      | none => simp only [hf, Option.some.injEq, Prod.mk.injEq] at h; rw [← h.1]; rfl
      | some ds =>
        simp only [hf] at h
        cases hr : repopulate ds sig (tysOf p.1) with
        | found i => simp only [hr, Option.some.injEq, Prod.mk.injEq] at h; rw [← h.1]; rfl
        | notFound => simp only [hr, Option.some.injEq, Prod.mk.injEq] at h; rw [← h.1]; rfl
        | panic => simp [hr] at h
theorem repopTreeL_tys (table : List FnEntry) : ∀ es es' ok, repopTreeL table es = some (es', ok) → tysOf es' = tysOf es
  | [], es', ok, h => by simp only [repopTreeL, Option.some.injEq, Prod.mk.injEq] at h; rw [← h.1]
  | e :: es, es', ok, h => by
    simp only [repopTreeL] at h
    cases h1 : repopTree table e with
    | none => simp [h1] at h
    | some p1 =>
      cases h2 : repopTreeL table es with
      | none => simp [h1, h2] at h
      | some p2 =>
        simp only [h1, h2, Option.some.injEq, Prod.mk.injEq] at h
        rw [← h.1]
        simp only [tysOf]
        rw [repopTree_ty table e p1.1 p1.2 h1, repopTreeL_tys table es p2.1 p2.2 h2]
end

mutual
/-- **every call found again**: a predicate whose calls were all resolved by the typechecker's exact pass comes out of
    JSON + Repopulate as it went in, and is accepted -/
theorem repopTree_exact (hok : Gen.WireFunctions.table.all (fun e => pairwiseOk e.descs) = true) :
    ∀ e, exactTyped Gen.WireFunctions.table e → repopTree Gen.WireFunctions.table (stripFns e) = some (e, true)
  | .leaf _, _ => rfl
  | .node t args, h => by
    simp only [exactTyped] at h
    simp [stripFns, repopTree, repopTreeL_exact hok args h]
  | .call t name sig fn args, h => by
    simp only [exactTyped] at h
    obtain ⟨hargs, ds, i, d, hl, hex, hd, hsig, hfn⟩ := h
    have ih := repopTreeL_exact hok args hargs
    have ht := transport_exact ds (table_pairwise hok name ds hl) (tysOf args) i hex
    simp only [transportPick, hd] at ht
    subst hsig hfn
    simp [stripFns, repopTree, ih, hl, ht]
theorem repopTreeL_exact (hok : Gen.WireFunctions.table.all (fun e => pairwiseOk e.descs) = true) :
    ∀ es, exactTypedL Gen.WireFunctions.table es → repopTreeL Gen.WireFunctions.table (stripFnsL es) = some (es, true)
  | [], _ => rfl
  | e :: es, h => by
    simp only [exactTypedL] at h
    simp [stripFnsL, repopTreeL, repopTree_exact hok e h.1, repopTreeL_exact hok es h.2]
end

mutual
/-- **never another function**: whatever the typechecker attached, JSON + Repopulate does not panic, and if it
    accepts the predicate (`outOk`), the predicate is exactly the one that was sent -/
theorem repopTree_safe (hok : Gen.WireFunctions.table.all (fun e => pairwiseOk e.descs) = true) :
    ∀ e, typechecked Gen.WireFunctions.table e →
      ∃ e' ok, repopTree Gen.WireFunctions.table (stripFns e) = some (e', ok) ∧ (ok = true → e' = e)
  | .leaf t, _ => ⟨.leaf t, true, rfl, fun _ => rfl⟩
  | .node t args, h => by
    simp only [typechecked] at h
    obtain ⟨as, ok, hl, himp⟩ := repopTreeL_safe hok args h
    refine ⟨.node t as, ok, by simp [stripFns, repopTree, hl], fun hk => ?_⟩
    rw [himp hk]
  | .call t name sig fn args, h => by
    simp only [typechecked] at h
    obtain ⟨hargs, ds, i, d, hl, htc, hd, hsig, hfn⟩ := h
    obtain ⟨as, ok, hal, himp⟩ := repopTreeL_safe hok args hargs
    have htys : tysOf as = tysOf args := by
      rw [repopTreeL_tys _ _ _ _ hal, tysOf_stripFnsL]
    have ht := transport_safe ds (table_pairwise hok name ds hl) (tysOf args) i htc
    simp only [transportPick, hd] at ht
    subst hsig hfn
    rcases ht with ht | ht
    · refine ⟨.call t name d.sig (some i) as, ok, by simp [stripFns, repopTree, hal, hl, htys, ht], fun hk => ?_⟩
      rw [himp hk]
    · exact ⟨.call t name d.sig none as, false, by simp [stripFns, repopTree, hal, hl, htys, ht], fun hk => by simp at hk⟩
theorem repopTreeL_safe (hok : Gen.WireFunctions.table.all (fun e => pairwiseOk e.descs) = true) :
    ∀ es, typecheckedL Gen.WireFunctions.table es →
      ∃ es' ok, repopTreeL Gen.WireFunctions.table (stripFnsL es) = some (es', ok) ∧ (ok = true → es' = es)
  | [], _ => ⟨[], true, rfl, fun _ => rfl⟩
  | e :: es, h => by
    simp only [typecheckedL] at h
    obtain ⟨e', ok1, h1, i1⟩ := repopTree_safe hok e h.1
    obtain ⟨es', ok2, h2, i2⟩ := repopTreeL_safe hok es h.2
    refine ⟨e' :: es', ok1 && ok2, by simp [stripFnsL, repopTreeL, h1, h2], fun hk => ?_⟩
    simp only [Bool.and_eq_true] at hk
    rw [i1 hk.1, i2 hk.2]
end

end Octo.Wire
