import Octo.Model.Utf8
/-!
  UTF-8 lemmas: decoding inverts encoding on Unicode scalar values, and decoding only ever yields
  scalar values. (Go: `[]rune(string(rs)) == rs` for valid `rs`; `range` never yields a surrogate.)
-/
namespace Octo.Utf8

theorem toNat_ofNat_lt {n : Nat} (h : n < 256) : (UInt8.ofNat n).toNat = n := by
  simp; omega

/-! ### one rune -/

theorem decode_encode1 (r : Nat) (t : Bytes) (h : r < 0x80) :
    decodeRune (encodeRune r ++ t) = (r, 1) := by
  have e : encodeRune r = [UInt8.ofNat r] := by
    unfold encodeRune; rw [if_pos h]
  rw [e]
  have a0 : (UInt8.ofNat r).toNat = r := toNat_ofNat_lt (by omega)
  simp only [List.cons_append, List.nil_append, decodeRune, a0]
  rw [if_pos h]

theorem decode_encode2 (r : Nat) (t : Bytes) (h1 : 0x80 ≤ r) (h2 : r < 0x800) :
    decodeRune (encodeRune r ++ t) = (r, 2) := by
  have e : encodeRune r = [UInt8.ofNat (0xC0 + r / 64), UInt8.ofNat (0x80 + r % 64)] := by
    unfold encodeRune; rw [if_neg (by omega), if_pos (by omega)]
  rw [e]
  have a0 : (UInt8.ofNat (0xC0 + r / 64)).toNat = 0xC0 + r / 64 := toNat_ofNat_lt (by omega)
  have a1 : (UInt8.ofNat (0x80 + r % 64)).toNat = 0x80 + r % 64 := toNat_ofNat_lt (by omega)
  simp only [List.cons_append, List.nil_append, decodeRune, a0, a1]
  have l : lead (0xC0 + r / 64) = some (2, 0x80, 0xBF) := by
    unfold lead; rw [if_neg (by omega), if_pos (by omega)]
  rw [l]
  simp only []
  rw [if_neg (by omega), if_neg (by omega), if_pos (by omega)]
  simp only [Prod.mk.injEq, and_true]
  omega

theorem decode_encode3 (r : Nat) (t : Bytes) (h1 : 0x800 ≤ r) (h2 : r < 0x10000)
    (hs : ¬ (0xD800 ≤ r ∧ r < 0xE000)) :
    decodeRune (encodeRune r ++ t) = (r, 3) := by
  have e : encodeRune r =
      [UInt8.ofNat (0xE0 + r / 4096), UInt8.ofNat (0x80 + r / 64 % 64), UInt8.ofNat (0x80 + r % 64)] := by
    unfold encodeRune
    rw [if_neg (by omega), if_neg (by omega), if_neg (by omega), if_pos (by omega)]
  rw [e]
  have a0 : (UInt8.ofNat (0xE0 + r / 4096)).toNat = 0xE0 + r / 4096 := toNat_ofNat_lt (by omega)
  have a1 : (UInt8.ofNat (0x80 + r / 64 % 64)).toNat = 0x80 + r / 64 % 64 := toNat_ofNat_lt (by omega)
  have a2 : (UInt8.ofNat (0x80 + r % 64)).toNat = 0x80 + r % 64 := toNat_ofNat_lt (by omega)
  simp only [List.cons_append, List.nil_append, decodeRune, a0, a1, a2]
  have l : ∃ lo hi, lead (0xE0 + r / 4096) = some (3, lo, hi) ∧ lo ≤ 0x80 + r / 64 % 64 ∧ 0x80 + r / 64 % 64 ≤ hi := by
    unfold lead
    by_cases c0 : r / 4096 = 0
    · refine ⟨0xA0, 0xBF, ?_, ?_, ?_⟩
      · rw [if_neg (by omega), if_neg (by omega), if_pos (by omega)]
      · omega
      · omega
    · by_cases c13 : r / 4096 = 13
      · refine ⟨0x80, 0x9F, ?_, ?_, ?_⟩
        · rw [if_neg (by omega), if_neg (by omega), if_neg (by omega), if_pos (by omega)]
        · omega
        · omega
      · refine ⟨0x80, 0xBF, ?_, ?_, ?_⟩
        · rw [if_neg (by omega), if_neg (by omega), if_neg (by omega), if_neg (by omega), if_pos (by omega)]
        · omega
        · omega
  obtain ⟨lo, hi, l, hlo, hhi⟩ := l
  rw [l]
  simp only []
  have hc : isCont (0x80 + r % 64) = true := by simp [isCont]; omega
  rw [if_neg (by omega), if_neg (by omega), if_neg (by omega)]
  simp only [hc, Bool.not_true, Bool.false_eq_true, if_false]
  rw [if_pos (by omega)]
  simp only [Prod.mk.injEq, and_true]
  omega

theorem decode_encode4 (r : Nat) (t : Bytes) (h1 : 0x10000 ≤ r) (h2 : r < 0x110000) :
    decodeRune (encodeRune r ++ t) = (r, 4) := by
  have e : encodeRune r =
      [UInt8.ofNat (0xF0 + r / 262144), UInt8.ofNat (0x80 + r / 4096 % 64),
       UInt8.ofNat (0x80 + r / 64 % 64), UInt8.ofNat (0x80 + r % 64)] := by
    unfold encodeRune
    rw [if_neg (by omega), if_neg (by omega), if_neg (by omega), if_neg (by omega)]
  rw [e]
  have a0 : (UInt8.ofNat (0xF0 + r / 262144)).toNat = 0xF0 + r / 262144 := toNat_ofNat_lt (by omega)
  have a1 : (UInt8.ofNat (0x80 + r / 4096 % 64)).toNat = 0x80 + r / 4096 % 64 := toNat_ofNat_lt (by omega)
  have a2 : (UInt8.ofNat (0x80 + r / 64 % 64)).toNat = 0x80 + r / 64 % 64 := toNat_ofNat_lt (by omega)
  have a3 : (UInt8.ofNat (0x80 + r % 64)).toNat = 0x80 + r % 64 := toNat_ofNat_lt (by omega)
  simp only [List.cons_append, List.nil_append, decodeRune, a0, a1, a2, a3]
  have l : ∃ lo hi, lead (0xF0 + r / 262144) = some (4, lo, hi) ∧ lo ≤ 0x80 + r / 4096 % 64 ∧
      0x80 + r / 4096 % 64 ≤ hi := by
    unfold lead
    by_cases c0 : r / 262144 = 0
    · refine ⟨0x90, 0xBF, ?_, ?_, ?_⟩
      · rw [if_neg (by omega), if_neg (by omega), if_neg (by omega), if_neg (by omega), if_neg (by omega),
          if_pos (by omega)]
      · omega
      · omega
    · by_cases c4 : r / 262144 = 4
      · refine ⟨0x80, 0x8F, ?_, ?_, ?_⟩
        · rw [if_neg (by omega), if_neg (by omega), if_neg (by omega), if_neg (by omega), if_neg (by omega),
            if_neg (by omega), if_neg (by omega), if_pos (by omega)]
        · omega
        · omega
      · refine ⟨0x80, 0xBF, ?_, ?_, ?_⟩
        · rw [if_neg (by omega), if_neg (by omega), if_neg (by omega), if_neg (by omega), if_neg (by omega),
            if_neg (by omega), if_pos (by omega)]
        · omega
        · omega
  obtain ⟨lo, hi, l, hlo, hhi⟩ := l
  rw [l]
  simp only []
  have hc2 : isCont (0x80 + r / 64 % 64) = true := by simp [isCont]; omega
  have hc3 : isCont (0x80 + r % 64) = true := by simp [isCont]; omega
  rw [if_neg (by omega), if_neg (by omega), if_neg (by omega)]
  simp only [hc2, hc3, Bool.not_true, Bool.false_eq_true, if_false]
  rw [if_neg (by omega)]
  simp only [Prod.mk.injEq, and_true]
  omega

theorem encodeRune_length_pos (r : Nat) : 0 < (encodeRune r).length := by
  unfold encodeRune
  repeat' split
  all_goals simp

/-- **decoding inverts encoding** on Unicode scalar values -/
theorem decodeRune_encodeRune (r : Nat) (hv : validRune r = true) (t : Bytes) :
    decodeRune (encodeRune r ++ t) = (r, (encodeRune r).length) := by
  simp only [validRune, decide_eq_true_eq] at hv
  by_cases c1 : r < 0x80
  · rw [decode_encode1 r t c1]; unfold encodeRune; rw [if_pos c1]; rfl
  · by_cases c2 : r < 0x800
    · rw [decode_encode2 r t (by omega) c2]; unfold encodeRune; rw [if_neg c1, if_pos c2]; rfl
    · by_cases c3 : r < 0x10000
      · rw [decode_encode3 r t (by omega) c3 (by omega)]
        unfold encodeRune; rw [if_neg c1, if_neg c2, if_neg (by omega), if_pos c3]; rfl
      · rw [decode_encode4 r t (by omega) (by omega)]
        unfold encodeRune; rw [if_neg c1, if_neg c2, if_neg (by omega), if_neg c3]; rfl

/-! ### whole strings -/

theorem decodeSkip_skip (xs t : Bytes) : decodeSkip xs.length (xs ++ t) = decodeSkip 0 t := by
  induction xs with
  | nil => rfl
  | cons x xs ih =>
    cases h : xs ++ t with
    | nil =>
      have := List.append_eq_nil_iff.1 h
      simp [this.1, this.2, decodeSkip]
    | cons y ys => simp only [List.length_cons, List.cons_append, h, decodeSkip]; rw [← h]; exact ih

theorem decodeAll_encodeRune_append (r : Nat) (hv : validRune r = true) (t : Bytes) :
    decodeAll (encodeRune r ++ t) = r :: decodeAll t := by
  have hd := decodeRune_encodeRune r hv t
  have hp := encodeRune_length_pos r
  cases he : encodeRune r with
  | nil => simp [he] at hp
  | cons b xs =>
    rw [he] at hd
    simp only [List.cons_append] at hd ⊢
    simp only [decodeAll, decodeSkip, hd, List.length_cons, Nat.add_sub_cancel]
    rw [decodeSkip_skip]

/-- `[]rune(string(rs)) = rs` when every rune is a scalar value -/
theorem decodeAll_encodeAll (rs : List Nat) (hv : ∀ r ∈ rs, validRune r = true) :
    decodeAll (encodeAll rs) = rs := by
  induction rs with
  | nil => rfl
  | cons r rs ih =>
    simp only [encodeAll, List.flatMap_cons]
    rw [decodeAll_encodeRune_append r (hv r (by simp))]
    congr 1
    exact ih (fun x hx => hv x (by simp [hx]))

theorem encodeAll_append (a b : List Nat) : encodeAll (a ++ b) = encodeAll a ++ encodeAll b := by
  simp [encodeAll]

/-! ### decoding yields scalar values only -/

theorem decodeRune_valid (s : Bytes) : validRune (decodeRune s).1 = true := by
  have hre : validRune runeError = true := by decide
  unfold decodeRune
  split
  · exact hre
  · rename_i b0 rest
    simp only []
    split
    · simp [validRune]; omega
    · split
      · exact hre
      · rename_i sz lo hi hl
        have hb0 := UInt8.toNat_lt b0
        -- what `lead` can return
        have hlead : (sz = 2 ∧ lo = 0x80 ∧ hi = 0xBF) ∨
            (sz = 3 ∧ ((b0.toNat = 0xE0 ∧ lo = 0xA0 ∧ hi = 0xBF) ∨ (b0.toNat = 0xED ∧ lo = 0x80 ∧ hi = 0x9F) ∨
              (0xE1 ≤ b0.toNat ∧ b0.toNat < 0xF0 ∧ b0.toNat ≠ 0xED ∧ lo = 0x80 ∧ hi = 0xBF))) ∨
            (sz = 4 ∧ ((b0.toNat = 0xF0 ∧ lo = 0x90 ∧ hi = 0xBF) ∨ (b0.toNat = 0xF4 ∧ lo = 0x80 ∧ hi = 0x8F) ∨
              (0xF1 ≤ b0.toNat ∧ b0.toNat < 0xF4 ∧ lo = 0x80 ∧ hi = 0xBF))) := by
          unfold lead at hl
          repeat' split at hl
          all_goals simp only [Option.some.injEq, Prod.mk.injEq, reduceCtorEq] at hl
          all_goals omega
        split
        · exact hre
        · rename_i b1 rest1
          have hb1 := UInt8.toNat_lt b1
          split
          · exact hre
          · split
            · simp [validRune]; omega
            · split
              · exact hre
              · rename_i b2 rest2
                have hb2 := UInt8.toNat_lt b2
                split
                · exact hre
                · rename_i hc2
                  simp [isCont] at hc2
                  split
                  · simp [validRune]; omega
                  · split
                    · exact hre
                    · rename_i b3 _
                      have hb3 := UInt8.toNat_lt b3
                      split
                      · exact hre
                      · rename_i hc3
                        simp [isCont] at hc3
                        simp [validRune]; omega

theorem decodeSkip_valid (s : Bytes) : ∀ k, ∀ r ∈ decodeSkip k s, validRune r = true := by
  induction s with
  | nil => intro k r h; simp [decodeSkip] at h
  | cons b rest ih =>
    intro k r h
    cases k with
    | zero =>
      simp only [decodeSkip, List.mem_cons] at h
      cases h with
      | inl h => subst h; exact decodeRune_valid _
      | inr h => exact ih _ r h
    | succ k =>
      simp only [decodeSkip] at h
      exact ih k r h

/-- `range s` / `[]rune(s)` only yield Unicode scalar values -/
theorem decodeAll_valid (s : Bytes) : ∀ r ∈ decodeAll s, validRune r = true := decodeSkip_valid s 0

/-- re-encoding decoded text is stable: `string([]rune(string([]rune(s)))) = string([]rune(s))` -/
theorem decodeAll_encodeAll_decodeAll (s : Bytes) : decodeAll (encodeAll (decodeAll s)) = decodeAll s :=
  decodeAll_encodeAll _ (decodeAll_valid s)

end Octo.Utf8
