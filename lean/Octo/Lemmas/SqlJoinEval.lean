import Octo.Lemmas.JoinBasics
import Octo.Spec.JoinSem
/-!
  Expression lemmas for the join proofs (C02):
  * `eval` does not distinguish equivalent rows (`eval_congr`) — rows are identified by `Compare = 0`;
  * re-indexing (`eval_shiftE`) and evaluation on a prefix (`eval_append_of_lt`);
  * a conjunction is TRUE iff all its parts are (`isTrue_splitAnd`, `isTrue_conj`), for predicates (`predOK`).
-/
namespace Octo.SqlJoin
open Octo Octo.Sql Octo.Join

/-! ### value order -/
theorem cmp_refl (a : Value) : cmp a a = 0 := cmpWith_refl cmpFloatFixed_laws a
theorem cmp_antisymm (a b : Value) : cmp a b = - cmp b a := cmpWith_antisymm cmpFloatFixed_laws a b
theorem cmp_trans (a b c : Value) : cmp a b ≤ 0 → cmp b c ≤ 0 → cmp a c ≤ 0 := cmpWith_trans cmpFloatFixed_laws a b c
theorem cmp_range (a b : Value) : cmp a b = -1 ∨ cmp a b = 0 ∨ cmp a b = 1 := cmpWith_range cmpFloatFixed_laws a b

theorem cmp_congr {x x' y y' : Value} (hx : cmp x x' = 0) (hy : cmp y y' = 0) : cmp x y = cmp x' y' := by
  have a1 := cmp_antisymm x x'
  have a2 := cmp_antisymm y y'
  have a3 := cmp_antisymm x y
  have a4 := cmp_antisymm x' y'
  have a5 := cmp_antisymm x' y
  have a6 := cmp_antisymm x y'
  have t1 := cmp_trans x' x y
  have t2 := cmp_trans x' y y'
  have t3 := cmp_trans y' y x
  have t4 := cmp_trans y' x x'
  have t5 := cmp_trans x x' y'
  have t6 := cmp_trans x y' y
  have t7 := cmp_trans y y' x'
  have t8 := cmp_trans y x' x
  have r1 := cmp_range x y
  have r2 := cmp_range x' y'
  have r3 := cmp_range x' y
  have r4 := cmp_range x y'
  omega

theorem rank_of_cmp_zero {x y : Value} (h : cmp x y = 0) : x.rank = y.rank := by
  have h1 := cmpWith_le_rank (cf := cmpFloatFixed) x y (by simp only [cmp] at h; omega)
  have h2 := cmpWith_le_rank (cf := cmpFloatFixed) y x (by have := cmp_antisymm y x; simp only [cmp] at h this; omega)
  omega

/-! ### value classes used by the boolean connectives -/
def asInt : Value → Option Int
  | .int i => some i
  | _ => none

/-- 0: NULL, 1: FALSE, 2: TRUE, 3: anything else -/
def tv : Value → Nat
  | .null => 0
  | .bool false => 1
  | .bool true => 2
  | _ => 3

theorem cmpInt_zero {a b : Int} (h : cmpInt a b = 0) : a = b := by
  unfold cmpInt at h; split at h; · omega
  split at h; · omega
  omega

theorem asInt_congr {x y : Value} (h : cmp x y = 0) : asInt x = asInt y := by
  have hr := rank_of_cmp_zero h
  cases x <;> cases y <;> simp only [Value.rank] at hr <;> first | omega | skip
  case int.int a b => simp only [cmp, cmpWith] at h; simp only [asInt]; rw [cmpInt_zero h]
  all_goals rfl

theorem tv_congr {x y : Value} (h : cmp x y = 0) : tv x = tv y := by
  have hr := rank_of_cmp_zero h
  cases x <;> cases y <;> simp only [Value.rank] at hr <;> first | omega | skip
  case bool.bool a b => cases a <;> cases b <;> simp [cmp, cmpWith] at h <;> rfl
  all_goals rfl

theorem isNullV_eq_tv (v : Value) : isNullV v = (tv v == 0) := by
  cases v with
  | bool b => cases b <;> rfl
  | _ => rfl

theorem isNullV_congr {x y : Value} (h : cmp x y = 0) : isNullV x = isNullV y := by
  rw [isNullV_eq_tv, isNullV_eq_tv, tv_congr h]

/-! ### eval in `if` form -/
theorem applyBin_add (x y : Value) : applyBin .add x y =
    match asInt x, asInt y with | some a, some b => some (.int (wrap64 (a + b))) | _, _ => none := by
  cases x <;> cases y <;> rfl
theorem applyBin_sub (x y : Value) : applyBin .sub x y =
    match asInt x, asInt y with | some a, some b => some (.int (wrap64 (a - b))) | _, _ => none := by
  cases x <;> cases y <;> rfl
theorem applyBin_mul (x y : Value) : applyBin .mul x y =
    match asInt x, asInt y with | some a, some b => some (.int (wrap64 (a * b))) | _, _ => none := by
  cases x <;> cases y <;> rfl

/-- equivalence of optional values -/
def optEq : Option Value → Option Value → Prop
  | none, none => True
  | some x, some y => cmp x y = 0
  | _, _ => False

theorem optEq_refl (o : Option Value) : optEq o o := by
  cases o with
  | none => trivial
  | some v => exact cmp_refl v

theorem applyBin_congr (op : BinOp) {x x' y y' : Value} (hx : cmp x x' = 0) (hy : cmp y y' = 0) :
    optEq (applyBin op x y) (applyBin op x' y') := by
  have hrx := rank_of_cmp_zero hx
  have hry := rank_of_cmp_zero hy
  have hc := cmp_congr hx hy
  cases op
  · rw [applyBin_add, applyBin_add, asInt_congr hx, asInt_congr hy]; exact optEq_refl _
  · rw [applyBin_sub, applyBin_sub, asInt_congr hx, asInt_congr hy]; exact optEq_refl _
  · rw [applyBin_mul, applyBin_mul, asInt_congr hx, asInt_congr hy]; exact optEq_refl _
  · simp only [applyBin, hc]; exact cmp_refl _
  · simp only [applyBin, hc]; exact cmp_refl _
  · simp only [applyBin, hc, hrx, hry]; split <;> first | exact cmp_refl _ | trivial
  · simp only [applyBin, hc, hrx, hry]; split <;> first | exact cmp_refl _ | trivial
  · simp only [applyBin, hc, hrx, hry]; split <;> first | exact cmp_refl _ | trivial
  · simp only [applyBin, hc, hrx, hry]; split <;> first | exact cmp_refl _ | trivial

theorem eval_bin_eq (row : List Value) (op : BinOp) (a b : SExpr) : eval row (.bin op a b) =
    (eval row a).bind fun va => (eval row b).bind fun vb =>
      if isNullV va || isNullV vb then some .null else applyBin op va vb := by
  simp only [eval]
  cases eval row a <;> cases eval row b <;> rfl

theorem eval_and_eq (row : List Value) (a b : SExpr) : eval row (.and a b) =
    (eval row a).bind fun va =>
      if tv va = 1 then some (.bool false)
      else (eval row b).bind fun vb =>
          if tv vb = 1 then some (.bool false)
          else if tv va = 0 || tv vb = 0 then some .null else some (.bool true) := by
  simp only [eval]
  cases ha : eval row a with
  | none => rfl
  | some va =>
    cases hb : eval row b with
    | none =>
      cases va with
      | bool x => cases x <;> rfl
      | _ => rfl
    | some vb =>
      cases va with
      | bool x =>
        cases vb with
        | bool y => cases x <;> cases y <;> rfl
        | _ => cases x <;> rfl
      | _ =>
        cases vb with
        | bool y => cases y <;> rfl
        | _ => rfl

theorem eval_or_eq (row : List Value) (a b : SExpr) : eval row (.or a b) =
    (eval row a).bind fun va =>
      if tv va = 2 then some (.bool true)
      else (eval row b).bind fun vb =>
          if tv vb = 2 then some (.bool true)
          else if tv va = 0 || tv vb = 0 then some .null else some (.bool false) := by
  simp only [eval]
  cases ha : eval row a with
  | none => rfl
  | some va =>
    cases hb : eval row b with
    | none =>
      cases va with
      | bool x => cases x <;> rfl
      | _ => rfl
    | some vb =>
      cases va with
      | bool x =>
        cases vb with
        | bool y => cases x <;> cases y <;> rfl
        | _ => cases x <;> rfl
      | _ =>
        cases vb with
        | bool y => cases y <;> rfl
        | _ => rfl

theorem eval_not_eq (row : List Value) (a : SExpr) : eval row (.not a) =
    (eval row a).bind fun va => if tv va = 0 then some .null else if tv va = 1 then some (.bool true)
                 else if tv va = 2 then some (.bool false) else none := by
  simp only [eval]
  cases ha : eval row a with
  | none => rfl
  | some va =>
    cases va with
    | bool x => cases x <;> rfl
    | _ => rfl

/-! ### eval respects row equivalence -/
theorem optEq_bind {o o' : Option Value} {f f' : Value → Option Value} (h : optEq o o')
    (hf : ∀ x y, cmp x y = 0 → optEq (f x) (f' y)) : optEq (o.bind f) (o'.bind f') := by
  cases o <;> cases o' <;> simp only [optEq] at h
  · trivial
  · exact hf _ _ h

theorem getElem?_congr : ∀ {r r' : List Value}, cmpList r r' = 0 → ∀ i : Nat, optEq r[i]? r'[i]?
  | [], [], _, i => by simp [optEq]
  | [], _ :: _, h, _ => by simp [cmpList, cmpListWith] at h
  | _ :: _, [], h, _ => by simp [cmpList, cmpListWith] at h
  | x :: xs, y :: ys, h, i => by
    have hh := (cmpList_cons_eq x y xs ys).mp h
    cases i with
    | zero => simpa [optEq] using hh.1
    | succ i => simpa using getElem?_congr hh.2 i

theorem eval_congr (e : SExpr) : ∀ {r r' : List Value}, cmpList r r' = 0 → optEq (eval r e) (eval r' e) := by
  induction e with
  | col i => intro r r' h; exact getElem?_congr h i
  | lit v => intro r r' _; exact cmp_refl v
  | bin op a b iha ihb =>
    intro r r' h
    rw [eval_bin_eq, eval_bin_eq]
    refine optEq_bind (iha h) (fun x x' hx => optEq_bind (ihb h) (fun y y' hy => ?_))
    rw [isNullV_congr hx, isNullV_congr hy]
    split
    · exact cmp_refl _
    · exact applyBin_congr op hx hy
  | and a b iha ihb =>
    intro r r' h
    rw [eval_and_eq, eval_and_eq]
    refine optEq_bind (iha h) (fun x x' hx => ?_)
    rw [tv_congr hx]
    split
    · exact cmp_refl _
    · refine optEq_bind (ihb h) (fun y y' hy => ?_)
      rw [tv_congr hy]
      exact optEq_refl _
  | or a b iha ihb =>
    intro r r' h
    rw [eval_or_eq, eval_or_eq]
    refine optEq_bind (iha h) (fun x x' hx => ?_)
    rw [tv_congr hx]
    split
    · exact cmp_refl _
    · refine optEq_bind (ihb h) (fun y y' hy => ?_)
      rw [tv_congr hy]
      exact optEq_refl _
  | not a iha =>
    intro r r' h
    rw [eval_not_eq, eval_not_eq]
    refine optEq_bind (iha h) (fun x x' hx => ?_)
    rw [tv_congr hx]
    exact optEq_refl _
  | isNull a iha =>
    intro r r' h
    have ha := iha h
    simp only [eval]
    cases ea : eval r a <;> cases ea' : eval r' a <;> simp only [ea, ea', optEq] at ha <;> try trivial
    simp only [Option.map_some, isNullV_congr ha]; exact cmp_refl _
  | isNotNull a iha =>
    intro r r' h
    have ha := iha h
    simp only [eval]
    cases ea : eval r a <;> cases ea' : eval r' a <;> simp only [ea, ea', optEq] at ha <;> try trivial
    simp only [Option.map_some, isNullV_congr ha]; exact cmp_refl _

theorem isTrue_eq_tv (row : List Value) (e : SExpr) :
    isTrue row e = match eval row e with | none => false | some v => tv v == 2 := by
  unfold isTrue
  cases eval row e with
  | none => rfl
  | some v =>
    cases v with
    | bool b => cases b <;> rfl
    | _ => rfl

theorem isTrue_congr (e : SExpr) {r r' : List Value} (h : cmpList r r' = 0) : isTrue r e = isTrue r' e := by
  have := eval_congr e h
  rw [isTrue_eq_tv, isTrue_eq_tv]
  cases ea : eval r e <;> cases ea' : eval r' e <;> simp only [ea, ea', optEq] at this <;> try trivial
  simp only [tv_congr this]

/-- equivalence of optional rows -/
def optRowEq : Option (List Value) → Option (List Value) → Prop
  | none, none => True
  | some x, some y => cmpList x y = 0
  | _, _ => False

theorem evalAll_congr (es : List SExpr) {r r' : List Value} (h : cmpList r r' = 0) :
    optRowEq (evalAll r es) (evalAll r' es) := by
  induction es with
  | nil => simp [evalAll, optRowEq, cmpList, cmpListWith]
  | cons e es ih =>
    have he := eval_congr e h
    simp only [evalAll]
    cases ea : eval r e <;> cases ea' : eval r' e <;> simp only [ea, ea', optEq] at he ⊢
    · cases evalAll r es <;> cases evalAll r' es <;> trivial
    · cases eb : evalAll r es <;> cases eb' : evalAll r' es <;> simp only [eb, eb', optRowEq] at ih ⊢ <;> try trivial
      exact (cmpList_cons_eq _ _ _ _).mpr ⟨he, ih⟩

/-! ### re-indexing -/
theorem eval_shiftE (c w : Nat) (ctx l r : List Value) (hc : ctx.length = c) (hl : l.length = w) (e : SExpr) :
    (∀ i ∈ colsOf e, i < c ∨ c + w ≤ i) → eval (ctx ++ l ++ r) e = eval (ctx ++ r) (shiftE c w e) := by
  induction e with
  | col i =>
    intro h
    have hi := h i (by simp [colsOf])
    simp only [eval, shiftE]
    by_cases hlt : i < c
    · have : ¬ (c + w ≤ i) := by omega
      simp only [this, ↓reduceIte]
      rw [List.append_assoc, List.getElem?_append_left (by omega), List.getElem?_append_left (by omega)]
    · have hge : c + w ≤ i := by omega
      simp only [hge, ↓reduceIte]
      rw [List.getElem?_append_right (by simp; omega), List.getElem?_append_right (by omega)]
      simp only [List.length_append]
      congr 1; omega
  | lit v => intro _; rfl
  | bin op a b iha ihb =>
    intro h
    simp only [colsOf, List.mem_append] at h
    simp only [eval, shiftE, iha (fun i hi => h i (Or.inl hi)), ihb (fun i hi => h i (Or.inr hi))]
  | and a b iha ihb =>
    intro h
    simp only [colsOf, List.mem_append] at h
    simp only [eval, shiftE, iha (fun i hi => h i (Or.inl hi)), ihb (fun i hi => h i (Or.inr hi))]
  | or a b iha ihb =>
    intro h
    simp only [colsOf, List.mem_append] at h
    simp only [eval, shiftE, iha (fun i hi => h i (Or.inl hi)), ihb (fun i hi => h i (Or.inr hi))]
  | not a iha => intro h; simp only [colsOf] at h; simp only [eval, shiftE, iha h]
  | isNull a iha => intro h; simp only [colsOf] at h; simp only [eval, shiftE, iha h]
  | isNotNull a iha => intro h; simp only [colsOf] at h; simp only [eval, shiftE, iha h]

theorem eval_append_of_lt (row x : List Value) (e : SExpr) :
    (∀ i ∈ colsOf e, i < row.length) → eval (row ++ x) e = eval row e := by
  induction e with
  | col i =>
    intro h
    have hi := h i (by simp [colsOf])
    simp only [eval]
    rw [List.getElem?_append_left hi]
  | lit v => intro _; rfl
  | bin op a b iha ihb =>
    intro h
    simp only [colsOf, List.mem_append] at h
    simp only [eval, iha (fun i hi => h i (Or.inl hi)), ihb (fun i hi => h i (Or.inr hi))]
  | and a b iha ihb =>
    intro h
    simp only [colsOf, List.mem_append] at h
    simp only [eval, iha (fun i hi => h i (Or.inl hi)), ihb (fun i hi => h i (Or.inr hi))]
  | or a b iha ihb =>
    intro h
    simp only [colsOf, List.mem_append] at h
    simp only [eval, iha (fun i hi => h i (Or.inl hi)), ihb (fun i hi => h i (Or.inr hi))]
  | not a iha => intro h; simp only [colsOf] at h; simp only [eval, iha h]
  | isNull a iha => intro h; simp only [colsOf] at h; simp only [eval, iha h]
  | isNotNull a iha => intro h; simp only [colsOf] at h; simp only [eval, iha h]

theorem usesRange_false {lo hi : Nat} {e : SExpr} (h : usesRange lo hi e = false) :
    ∀ i ∈ colsOf e, i < lo ∨ hi ≤ i := by
  intro i hi'
  unfold usesRange at h
  rw [List.any_eq_false] at h
  have := h i hi'
  simp only [Bool.and_eq_true, decide_eq_true_eq, not_and, Nat.not_lt] at this
  omega

/-! ### conjunctions -/

/-- the expression can only evaluate to NULL or a Boolean (what `TypecheckExpression` demands of a predicate) -/
def predOK : SExpr → Bool
  | .and a b => predOK a && predOK b
  | .col _ => false
  | .lit (.bool _) => true
  | .lit .null => true
  | .lit _ => false
  | .bin .add _ _ => false
  | .bin .sub _ _ => false
  | .bin .mul _ _ => false
  | .bin _ _ _ => true
  | .or _ _ => true
  | .not _ => true
  | .isNull _ => true
  | .isNotNull _ => true

/-- an optional value that is NULL or a Boolean when present -/
def Boolish (o : Option Value) : Prop := ∀ v, o = some v → tv v ≠ 3

theorem boolish_none : Boolish none := fun _ h => by cases h
theorem boolish_null : Boolish (some .null) := fun v h => by cases h; simp [tv]
theorem boolish_bool (b : Bool) : Boolish (some (.bool b)) := fun v h => by cases h; cases b <;> simp [tv]
theorem boolish_bind {o : Option Value} {f : Value → Option Value} (hf : ∀ x, Boolish (f x)) : Boolish (o.bind f) := by
  cases o with
  | none => exact boolish_none
  | some x => exact hf x
theorem boolish_ite {c : Prop} [Decidable c] {a b : Option Value} (ha : Boolish a) (hb : Boolish b) :
    Boolish (if c then a else b) := by
  split <;> assumption

theorem applyBin_boolish {op : BinOp} (hop : op ≠ .add ∧ op ≠ .sub ∧ op ≠ .mul) (x y : Value) :
    Boolish (applyBin op x y) := by
  cases op
  · exact absurd rfl hop.1
  · exact absurd rfl hop.2.1
  · exact absurd rfl hop.2.2
  · simp only [applyBin]; exact boolish_bool _
  · simp only [applyBin]; exact boolish_bool _
  · simp only [applyBin]; exact boolish_ite (boolish_bool _) boolish_none
  · simp only [applyBin]; exact boolish_ite (boolish_bool _) boolish_none
  · simp only [applyBin]; exact boolish_ite (boolish_bool _) boolish_none
  · simp only [applyBin]; exact boolish_ite (boolish_bool _) boolish_none

theorem boolish_of_predOK (row : List Value) : ∀ (e : SExpr), predOK e = true → Boolish (eval row e) := by
  intro e
  cases e with
  | col i => intro h; simp [predOK] at h
  | lit w =>
    intro h
    cases w with
    | bool b => exact boolish_bool b
    | null => exact boolish_null
    | _ => simp [predOK] at h
  | bin op a b =>
    intro h
    have hop : op ≠ .add ∧ op ≠ .sub ∧ op ≠ .mul := by cases op <;> simp [predOK] at h <;> simp
    rw [eval_bin_eq]
    exact boolish_bind fun x => boolish_bind fun y => boolish_ite boolish_null (applyBin_boolish hop x y)
  | and a b =>
    intro _
    rw [eval_and_eq]
    exact boolish_bind fun x => boolish_ite (boolish_bool _)
      (boolish_bind fun y => boolish_ite (boolish_bool _) (boolish_ite boolish_null (boolish_bool _)))
  | or a b =>
    intro _
    rw [eval_or_eq]
    exact boolish_bind fun x => boolish_ite (boolish_bool _)
      (boolish_bind fun y => boolish_ite (boolish_bool _) (boolish_ite boolish_null (boolish_bool _)))
  | not a =>
    intro _
    rw [eval_not_eq]
    exact boolish_bind fun x => boolish_ite boolish_null
      (boolish_ite (boolish_bool _) (boolish_ite (boolish_bool _) boolish_none))
  | isNull a =>
    intro _
    simp only [eval]
    cases eval row a with
    | none => exact boolish_none
    | some v => exact boolish_bool _
  | isNotNull a =>
    intro _
    simp only [eval]
    cases eval row a with
    | none => exact boolish_none
    | some v => exact boolish_bool _

theorem tv_le3 (v : Value) : tv v ≤ 3 := by
  cases v with
  | bool x => cases x <;> simp [tv]
  | _ => simp [tv]

theorem tv_false : tv (.bool false) = 1 := rfl
theorem tv_true : tv (.bool true) = 2 := rfl
theorem tv_null : tv .null = 0 := rfl

theorem isTrue_and (row : List Value) (a b : SExpr) (ha : predOK a = true) (hb : predOK b = true) :
    isTrue row (.and a b) = (isTrue row a && isTrue row b) := by
  rw [isTrue_eq_tv, isTrue_eq_tv, isTrue_eq_tv, eval_and_eq]
  cases ea : eval row a with
  | none => rfl
  | some va =>
    have h1 := boolish_of_predOK row a ha va ea
    have l1 := tv_le3 va
    have c1 : tv va = 0 ∨ tv va = 1 ∨ tv va = 2 := by omega
    cases eb : eval row b with
    | none =>
      simp only [Option.bind]
      rcases c1 with c1 | c1 | c1 <;> simp [c1, tv_false]
    | some vb =>
      have h2 := boolish_of_predOK row b hb vb eb
      have l2 := tv_le3 vb
      simp only [Option.bind]
      have c2 : tv vb = 0 ∨ tv vb = 1 ∨ tv vb = 2 := by omega
      rcases c1 with c1 | c1 | c1 <;> rcases c2 with c2 | c2 | c2 <;> simp [c1, c2, tv_false, tv_true, tv_null]

theorem isTrue_lit_true (row : List Value) : isTrue row (.lit (.bool true)) = true := rfl

theorem predOK_splitAnd : ∀ (e : SExpr), predOK e = true → ∀ c ∈ splitAnd e, predOK c = true := by
  intro e
  induction e with
  | and a b iha ihb =>
    intro h c hc
    simp only [predOK, Bool.and_eq_true] at h
    simp only [splitAnd, List.mem_append] at hc
    cases hc with
    | inl hc => exact iha h.1 c hc
    | inr hc => exact ihb h.2 c hc
  | col i => intro h c hc; simp only [splitAnd, List.mem_singleton] at hc; subst hc; exact h
  | lit v => intro h c hc; simp only [splitAnd, List.mem_singleton] at hc; subst hc; exact h
  | bin op a b _ _ => intro h c hc; simp only [splitAnd, List.mem_singleton] at hc; subst hc; exact h
  | or a b _ _ => intro h c hc; simp only [splitAnd, List.mem_singleton] at hc; subst hc; exact h
  | not a _ => intro h c hc; simp only [splitAnd, List.mem_singleton] at hc; subst hc; exact h
  | isNull a _ => intro h c hc; simp only [splitAnd, List.mem_singleton] at hc; subst hc; exact h
  | isNotNull a _ => intro h c hc; simp only [splitAnd, List.mem_singleton] at hc; subst hc; exact h

theorem isTrue_splitAnd (row : List Value) : ∀ (e : SExpr), predOK e = true →
    isTrue row e = (splitAnd e).all (isTrue row) := by
  intro e
  induction e with
  | and a b iha ihb =>
    intro h
    simp only [predOK, Bool.and_eq_true] at h
    rw [isTrue_and row a b h.1 h.2, iha h.1, ihb h.2, splitAnd, List.all_append]
  | col i => intro _; simp [splitAnd]
  | lit v => intro _; simp [splitAnd]
  | bin op a b _ _ => intro _; simp [splitAnd]
  | or a b _ _ => intro _; simp [splitAnd]
  | not a _ => intro _; simp [splitAnd]
  | isNull a _ => intro _; simp [splitAnd]
  | isNotNull a _ => intro _; simp [splitAnd]

theorem conj_cons2 (e e' : SExpr) (es : List SExpr) : conj (e :: e' :: es) = .and e (conj (e' :: es)) := rfl

theorem predOK_conj : ∀ (es : List SExpr), (∀ e ∈ es, predOK e = true) → predOK (conj es) = true
  | [], _ => rfl
  | [e], h => h e (by simp)
  | e :: e' :: es, h => by
    simp only [conj_cons2, predOK, Bool.and_eq_true]
    exact ⟨h e (by simp), predOK_conj (e' :: es) (fun x hx => h x (by simp [hx]))⟩

theorem isTrue_conj (row : List Value) : ∀ (es : List SExpr), (∀ e ∈ es, predOK e = true) →
    isTrue row (conj es) = es.all (isTrue row)
  | [], _ => rfl
  | [e], _ => by simp [conj]
  | e :: e' :: es, h => by
    have h1 := h e (by simp)
    have h2 : ∀ x ∈ e' :: es, predOK x = true := fun x hx => h x (by simp [hx])
    rw [conj_cons2, isTrue_and row e _ h1 (predOK_conj _ h2), isTrue_conj row (e' :: es) h2]
    simp [List.all_cons]

theorem predOK_shiftE (c w : Nat) : ∀ (e : SExpr), predOK (shiftE c w e) = predOK e := by
  intro e
  induction e with
  | and a b iha ihb => simp only [shiftE, predOK, iha, ihb]
  | col i => rfl
  | lit v => rfl
  | bin op a b _ _ => cases op <;> rfl
  | or a b _ _ => rfl
  | not a _ => rfl
  | isNull a _ => rfl
  | isNotNull a _ => rfl

end Octo.SqlJoin
