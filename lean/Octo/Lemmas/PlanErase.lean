import Octo.Lemmas.PlanRules
/-!
  Erasing one field: from records (`eraseKey`), from schemas (`eraseField`; what `append(Fields[:i], Fields[i+1:]...)`
  at the last index of the name does when names are unique), and the list lemmas the removal rules need.
-/
namespace Octo.Plan
open Octo

def eraseKey (f : String) (r : Row) : Row := r.filter fun p => p.1 != f
def eraseField (f : String) (fs : List String) : List String := fs.filter fun x => x != f

theorem names_eraseKey (f : String) (r : Row) : Row.names (eraseKey f r) = eraseField f (Row.names r) := by
  induction r with
  | nil => rfl
  | cons p r ih =>
    obtain ⟨k, v⟩ := p
    simp only [eraseKey, eraseField, Row.names] at ih ⊢
    simp only [List.filter_cons, List.map_cons]
    cases (k != f) <;> simp [ih]

theorem eraseField_id {f : String} {fs : List String} (h : f ∉ fs) : eraseField f fs = fs := by
  unfold eraseField
  rw [List.filter_eq_self]
  intro x hx
  simp only [bne_iff_ne, ne_eq]
  intro e
  exact h (e ▸ hx)

theorem eraseKey_id {f : String} {r : Row} (h : f ∉ Row.names r) : eraseKey f r = r := by
  unfold eraseKey
  rw [List.filter_eq_self]
  intro p hp
  simp only [bne_iff_ne, ne_eq]
  intro e
  exact h (by simp only [Row.names, List.mem_map]; exact ⟨p, hp, e⟩)

theorem map_eraseKey_id {f : String} {rows : List Row} (h : ∀ r ∈ rows, f ∉ Row.names r) :
    rows.map (eraseKey f) = rows := by
  induction rows with
  | nil => rfl
  | cons r rows ih =>
    simp only [List.map_cons, eraseKey_id (h r (by simp)), ih (fun x hx => h x (by simp [hx]))]

theorem eraseKey_append (f : String) (a b : Row) : eraseKey f (a ++ b) = eraseKey f a ++ eraseKey f b := by
  simp [eraseKey]

theorem eraseField_append (f : String) (a b : List String) : eraseField f (a ++ b) = eraseField f a ++ eraseField f b := by
  simp [eraseField]

theorem mem_eraseField {f x : String} {fs : List String} : x ∈ eraseField f fs ↔ x ∈ fs ∧ x ≠ f := by
  simp [eraseField]

theorem not_mem_eraseField (f : String) (fs : List String) : f ∉ eraseField f fs := by
  simp [eraseField]

theorem nodup_eraseField {f : String} {fs : List String} (h : fs.Nodup) : (eraseField f fs).Nodup :=
  h.filter _

theorem lookupRow_eraseKey {f x : String} (h : x ≠ f) (r : Row) : lookupRow x (eraseKey f r) = lookupRow x r := by
  induction r with
  | nil => rfl
  | cons p r ih =>
    obtain ⟨k, v⟩ := p
    simp only [eraseKey] at ih ⊢
    simp only [List.filter_cons]
    by_cases hk : k = f
    · subst hk
      have hkx : (k == x) = false := by
        simp only [beq_eq_false_iff_ne, ne_eq]
        exact fun e => h e.symm
      simp [lookupRow, hkx, ih]
    · have : (k != f) = true := by simpa using hk
      simp only [this, if_true, lookupRow, ih]

/-- an expression that does not mention `f` does not notice that `f` was erased from the current record -/
theorem eval_eraseKey {f : String} {e : PExpr} (hf : f ∉ varsUsed e) (r : Row) (ctx : Ctx) :
    eval (eraseKey f r :: ctx) e = eval (r :: ctx) e := by
  apply eval_congr
  intro x hx
  have : x ≠ f := fun e' => hf (e' ▸ hx)
  simp only [lookupVar, lookupRow_eraseKey this]

theorem evalL_eraseKey {f : String} {es : List PExpr} (hf : f ∉ varsUsedL es) (r : Row) (ctx : Ctx) :
    evalL (eraseKey f r :: ctx) es = evalL (r :: ctx) es := by
  apply evalL_congr
  intro x hx
  have : x ≠ f := fun e' => hf (e' ▸ hx)
  simp only [lookupVar, lookupRow_eraseKey this]

mutual
theorem exprUsesVar_iff (f : String) : ∀ e : PExpr, exprUsesVar f e = true ↔ f ∈ varsUsed e
  | .var x _ => by
    simp only [exprUsesVar, varsUsed, List.mem_singleton, beq_iff_eq]
    exact eq_comm
  | .const _ => by simp [exprUsesVar, varsUsed]
  | .nary _ args => by simp only [exprUsesVar, varsUsed, exprUsesVarL_iff f args]
  | .unary _ e => by simp only [exprUsesVar, varsUsed, exprUsesVar_iff f e]
theorem exprUsesVarL_iff (f : String) : ∀ es : List PExpr, exprUsesVarL f es = true ↔ f ∈ varsUsedL es
  | [] => by simp [exprUsesVarL, varsUsedL]
  | e :: es => by
    simp only [exprUsesVarL, varsUsedL, Bool.or_eq_true, List.mem_append, exprUsesVar_iff f e, exprUsesVarL_iff f es]
end

theorem not_uses_of_L {f : String} {es : List PExpr} (h : exprUsesVarL f es = false) : f ∉ varsUsedL es := by
  intro hm
  rw [← exprUsesVarL_iff] at hm
  rw [h] at hm
  cases hm

theorem not_uses_mem {f : String} {es : List PExpr} (h : exprUsesVarL f es = false) {e : PExpr} (he : e ∈ es) :
    f ∉ varsUsed e :=
  fun hm => not_uses_of_L h (mem_varsUsedL.mpr ⟨e, he, hm⟩)

/-! ### the index the removal loops compute -/

theorem lastIndexOf_go_none (f : String) : ∀ (fs : List String) (i : Nat) (acc : Option Nat),
    f ∉ fs → lastIndexOf.go f i acc fs = acc
  | [], _, _, _ => rfl
  | x :: fs, i, acc, h => by
    simp only [List.mem_cons, not_or] at h
    have hx : (x == f) = false := by
      simp only [beq_eq_false_iff_ne, ne_eq]
      exact fun e => h.1 e.symm
    simp only [lastIndexOf.go, hx, Bool.false_eq_true, if_false]
    exact lastIndexOf_go_none f fs (i + 1) acc h.2

/-- with unique names the last index is the only one, and erasing at it is erasing the name -/
theorem lastIndexOf_go_some (f : String) : ∀ (fs : List String) (i : Nat) (acc : Option Nat),
    fs.Nodup → f ∈ fs →
    ∃ j, lastIndexOf.go f i acc fs = some (i + j) ∧ j < fs.length ∧ fs[j]? = some f ∧ fs.eraseIdx j = eraseField f fs
  | [], _, _, _, h => by simp at h
  | x :: fs, i, acc, hnd, hm => by
    simp only [List.nodup_cons] at hnd
    by_cases hx : x = f
    · subst hx
      refine ⟨0, ?_, by simp, by simp, ?_⟩
      · simp only [lastIndexOf.go, beq_self_eq_true, if_true, Nat.add_zero]
        exact lastIndexOf_go_none x fs (i + 1) (some i) hnd.1
      · simp only [List.eraseIdx_cons_zero, eraseField, List.filter_cons, bne_self_eq_false, Bool.false_eq_true,
          if_false]
        exact (eraseField_id hnd.1).symm
    · have hm' : f ∈ fs := by
        rcases List.mem_cons.mp hm with h | h
        · exact absurd h.symm hx
        · exact h
      obtain ⟨j, h1, h2, h3, h4⟩ := lastIndexOf_go_some f fs (i + 1) acc hnd.2 hm'
      have hxf : (x == f) = false := by simpa using hx
      refine ⟨j + 1, ?_, by simp [h2], by simp [h3], ?_⟩
      · simp only [lastIndexOf.go, hxf, Bool.false_eq_true, if_false, h1]
        congr 1
        omega
      · have : (x != f) = true := by simpa using hx
        simp only [List.eraseIdx_cons_succ, eraseField, List.filter_cons, this, if_true, h4]

theorem lastIndexOf_none {f : String} {fs : List String} (h : f ∉ fs) : lastIndexOf f fs = none :=
  lastIndexOf_go_none f fs 0 none h

theorem lastIndexOf_some {f : String} {fs : List String} (hnd : fs.Nodup) (h : f ∈ fs) :
    ∃ j, lastIndexOf f fs = some j ∧ j < fs.length ∧ fs[j]? = some f ∧ fs.eraseIdx j = eraseField f fs := by
  obtain ⟨j, h1, h2, h3, h4⟩ := lastIndexOf_go_some f fs 0 none hnd h
  exact ⟨j, by simpa [lastIndexOf] using h1, h2, h3, h4⟩

theorem mem_of_lastIndexOf {f : String} {fs : List String} {i : Nat} (h : lastIndexOf f fs = some i) : f ∈ fs := by
  by_cases hm : f ∈ fs
  · exact hm
  · rw [lastIndexOf_none hm] at h
    cases h

theorem take_eraseIdx_of_le {α : Type} : ∀ (l : List α) (n i : Nat), n ≤ i → (l.eraseIdx i).take n = l.take n
  | [], _, _, _ => by simp
  | _ :: _, 0, _, _ => by simp
  | x :: l, n + 1, 0, h => by omega
  | x :: l, n + 1, i + 1, h => by
    simp only [List.eraseIdx_cons_succ, List.take_succ_cons, take_eraseIdx_of_le l n i (by omega)]

theorem mem_take_of_getElem? {α : Type} {l : List α} {i n : Nat} {x : α} (h : l[i]? = some x) (hi : i < n) :
    x ∈ l.take n := by
  have hlt : i < l.length := by
    rcases Nat.lt_or_ge i l.length with h' | h'
    · exact h'
    · rw [List.getElem?_eq_none h'] at h; cases h
  rw [List.mem_iff_getElem?]
  refine ⟨i, ?_⟩
  rw [List.getElem?_take]
  simp [hi, h]

/-! ### erasing at an index, in step in several lists -/

theorem evalL_eraseIdx (ctx : Ctx) : ∀ (es : List PExpr) (i : Nat), evalL ctx (es.eraseIdx i) = (evalL ctx es).eraseIdx i
  | [], _ => by simp [evalL]
  | _ :: es, 0 => by simp [evalL]
  | e :: es, i + 1 => by simp [evalL, evalL_eraseIdx ctx es i]

theorem sequence_eraseIdx : ∀ {rs : List (Option Value)} {vs : List Value} (i : Nat),
    sequence rs = some vs → sequence (rs.eraseIdx i) = some (vs.eraseIdx i)
  | [], vs, i, h => by
    simp only [sequence, Option.some.injEq] at h
    subst h
    simp [sequence]
  | none :: _, _, _, h => by simp [sequence] at h
  | some v :: rs, vs, i, h => by
    simp only [sequence] at h
    cases hs : sequence rs with
    | none => simp [hs] at h
    | some ws =>
      simp only [hs, Option.some.injEq] at h
      subst h
      cases i with
      | zero => simpa using hs
      | succ i => simp [sequence, sequence_eraseIdx i hs]

theorem zipNames_names : ∀ {fs : List String} {vs : List Value} {row : Row}, zipNames fs vs = some row → Row.names row = fs
  | [], [], row, h => by
    simp only [zipNames, Option.some.injEq] at h
    subst h
    rfl
  | [], _ :: _, _, h => by simp [zipNames] at h
  | _ :: _, [], _, h => by simp [zipNames] at h
  | f :: fs, v :: vs, row, h => by
    simp only [zipNames] at h
    cases hz : zipNames fs vs with
    | none => simp [hz] at h
    | some rest =>
      simp only [hz, Option.map_some, Option.some.injEq] at h
      subst h
      simp [Row.names, ← zipNames_names hz]

theorem zipNames_isSome : ∀ {fs : List String} {vs : List Value}, fs.length = vs.length → (zipNames fs vs).isSome = true
  | [], [], _ => rfl
  | [], _ :: _, h => by simp at h
  | _ :: _, [], h => by simp at h
  | f :: fs, v :: vs, h => by
    have := zipNames_isSome (fs := fs) (vs := vs) (by simpa using h)
    cases hz : zipNames fs vs with
    | none => rw [hz] at this; cases this
    | some rest => simp [zipNames, hz]

/-- dropping the value at the position of the (unique) name `f` is erasing `f` from the record -/
theorem zipNames_eraseIdx (f : String) : ∀ {fs : List String} {vs : List Value} {row : Row} (i : Nat),
    fs.Nodup → fs[i]? = some f → zipNames fs vs = some row →
    zipNames (fs.eraseIdx i) (vs.eraseIdx i) = some (eraseKey f row)
  | [], _, _, _, _, h, _ => by simp at h
  | _ :: _, [], _, _, _, _, h => by simp [zipNames] at h
  | g :: fs, v :: vs, row, i, hnd, hi, h => by
    simp only [zipNames] at h
    cases hz : zipNames fs vs with
    | none => simp [hz] at h
    | some rest =>
      simp only [hz, Option.map_some, Option.some.injEq] at h
      subst h
      simp only [List.nodup_cons] at hnd
      cases i with
      | zero =>
        simp only [List.getElem?_cons_zero, Option.some.injEq] at hi
        subst hi
        simp only [List.eraseIdx_cons_zero, hz, eraseKey, List.filter_cons, bne_self_eq_false, Bool.false_eq_true,
          if_false]
        congr 1
        exact (eraseKey_id (f := g) (r := rest) (by rw [zipNames_names hz]; exact hnd.1)).symm
      | succ i =>
        simp only [List.getElem?_cons_succ] at hi
        have hgf : g ≠ f := by
          intro e
          subst e
          exact hnd.1 (List.mem_of_getElem? hi)
        have : (g != f) = true := by simpa using hgf
        simp only [List.eraseIdx_cons_succ, zipNames, zipNames_eraseIdx f i hnd.2 hi hz, Option.map_some, eraseKey,
          List.filter_cons, this, if_true]

end Octo.Plan
