import Octo.Lemmas.TypingSound2
import Octo.Lemmas.Coalesce
import Octo.Model.TypingCovers
/-!
  Octo.Lemmas.TypingCoalesce — COALESCE over objects, tuples and lists.

  `Covers t s` (structural): the target type `t` hosts every value of the source type `s` after `ObjectLayoutFixer` has
  re-laid it out — object fields by name (a field the source lacks must admit NULL in the target), tuples padded with NULL,
  through lists and unions.  It refines C13's `Fits` (which only says that the fixer does not panic) with what is needed for
  TYPE soundness.  `coversF` is its decidable (fuel) version, `normB` the decidable version of C13's `NormTy`.

  * `covers_fits`     : `Covers t s → Fits t s`, so C13's `fixLayout_relayout` applies;
  * `covers_conforms` : `Covers t s → conforms s v → conforms t (relayout t s v)`.
-/
namespace Octo.Tc
open Octo Octo.Ty Octo.Coal Octo.Spec13

/-! ### the two `conforms` are the same function -/

theorem conforms13_eq_aux : ∀ (n : Nat) (t : Ty) (v : Value), t.size + v.size ≤ n → Spec13.conforms t v = Octo.conforms t v := by
  intro n
  induction n with
  | zero => intro t v h; have := size_pos t; omega
  | succ n ih =>
    intro t v hsz
    have each : ∀ (ts : List Ty) (xs : List Value), Ty.sizeList ts + Value.sizeList xs ≤ n →
        Spec13.conformsEach ts xs = Octo.conformsZip ts xs := by
      intro ts
      induction ts with
      | nil => intro xs _; cases xs <;> simp [Spec13.conformsEach, Octo.conformsZip]
      | cons t' ts iht =>
        intro xs h
        cases xs with
        | nil => simp [Spec13.conformsEach, Octo.conformsZip]
        | cons x xs =>
          simp only [Ty.sizeList, Value.sizeList] at h
          simp only [Spec13.conformsEach, Octo.conformsZip]
          rw [ih t' x (by omega), iht xs (by omega)]
    cases t with
    | union alts =>
      simp only [Spec13.conforms, Octo.conforms]
      have : ∀ (l : List Ty), Ty.sizeList l + v.size ≤ n → Spec13.conformsAny l v = Octo.conformsAny l v := by
        intro l
        induction l with
        | nil => intro _; simp [Spec13.conformsAny, Octo.conformsAny]
        | cons a as iha =>
          intro h
          simp only [Ty.sizeList] at h
          simp only [Spec13.conformsAny, Octo.conformsAny]
          rw [ih a v (by omega), iha (by have := size_pos a; omega)]
      exact this alts (by simp only [Ty.size] at hsz; omega)
    | list e =>
      cases v <;> simp only [Spec13.conforms, Octo.conforms]
      rename_i xs
      simp only [Ty.size, Value.size] at hsz
      have : ∀ (l : List Value), Value.sizeList l ≤ Value.sizeList xs →
          l.all (fun x => Spec13.conforms e x) = l.all (fun x => Octo.conforms e x) := by
        intro l
        induction l with
        | nil => intro _; rfl
        | cons y ys ihy =>
          intro h
          simp only [Value.sizeList] at h
          simp only [List.all_cons]
          rw [ih e y (by omega), ihy (by omega)]
      exact this xs (Nat.le_refl _)
    | struct ns ts =>
      cases v <;> simp only [Spec13.conforms, Octo.conforms]
      rename_i xs
      simp only [Ty.size, Value.size] at hsz
      exact each ts xs (by omega)
    | tuple ts =>
      cases v <;> simp only [Spec13.conforms, Octo.conforms]
      rename_i xs
      simp only [Ty.size, Value.size] at hsz
      exact each ts xs (by omega)
    | _ => cases v <;> simp [Spec13.conforms, Octo.conforms]

theorem conforms13_eq (t : Ty) (v : Value) : Spec13.conforms t v = Octo.conforms t v :=
  conforms13_eq_aux _ t v (Nat.le_refl _)


/-- the target type hosts every (re-laid-out) value of the source type -/
inductive Covers : Ty → Ty → Prop
  | srcUnion (t : Ty) (alts : List Ty) : (∀ a, a ∈ alts → Covers t a) → Covers t (.union alts)
  | tgtUnion (talts : List Ty) (s ta : Ty) : Concrete s → findAlt s.id talts = some ta → Covers ta s →
      Covers (.union talts) s
  | leaf (t : Ty) : t.id ≤ 6 → Covers t t
  | struct (tn : List Name) (tt : List Ty) (sn : List Name) (st : List Ty) :
      (∀ n ft j sj, (n, ft) ∈ tn.zip tt → lastIndexOf sn n = some j → st[j]? = some sj → Covers ft sj) →
      (∀ n ft, (n, ft) ∈ tn.zip tt → lastIndexOf sn n = none → Octo.conforms ft .null = true) →
      Covers (.struct tn tt) (.struct sn st)
  | listNilSrc (te : Ty) : Covers (.list te) .listNil
  | listNilBoth : Covers .listNil .listNil
  | list (te se : Ty) : Covers te se → Covers (.list te) (.list se)
  | tuple (te se : List Ty) : se.length ≤ te.length →
      (∀ (i : Nat) ft sj, te[i]? = some ft → se[i]? = some sj → Covers ft sj) →
      (∀ (i : Nat) ft, te[i]? = some ft → se.length ≤ i → Octo.conforms ft .null = true) →
      Covers (.tuple te) (.tuple se)

theorem concrete_of_leaf {t : Ty} (h : t.id ≤ 6) : Concrete t := by
  constructor
  · intro alts e; subst e; simp [Ty.id] at h
  · intro e; subst e; simp [Ty.id] at h

/-- `Covers` refines C13's `Fits` -/
theorem covers_fits {t s : Ty} (h : Covers t s) : Fits t s := by
  induction h with
  | srcUnion t alts _ ih => exact Fits.srcUnion t alts ih
  | tgtUnion talts s ta hc hf _ ih => exact Fits.tgtUnion talts s ta hc hf ih
  | leaf t hl => exact Fits.scalar t t (concrete_of_leaf hl) hl
  | struct tn tt sn st _ _ ih => exact Fits.struct tn tt sn st ih
  | listNilSrc te => exact Fits.listNilSrc te
  | listNilBoth => exact Fits.listNilBoth
  | list te se _ ih => exact Fits.list te se ih
  | tuple te se hl _ _ ih => exact Fits.tuple te se hl ih


theorem concrete_plain {t : Ty} (h : Concrete t) : t.isUnion = false ∧ t.isAny = false := by
  obtain ⟨h1, h2⟩ := h
  cases t <;> simp [isUnion, isAny]
  · exact absurd rfl (h1 _)
  · exact absurd rfl h2

/-- resolution: the alternatives of source and target that a value of the source type selects -/
theorem covers_resolve {t s : Ty} {v : Value} (h : Covers t s) (ht : NormTy t) (hs : NormTy s)
    (hv : Octo.conforms s v = true) :
    ∃ sa ta, altFor v.rank s = sa ∧ altFor v.rank t = ta ∧ Concrete sa ∧ Concrete ta ∧ NormTy sa ∧ NormTy ta ∧
      Octo.conforms sa v = true ∧ Covers ta sa ∧ (∀ x, Octo.conforms ta x = true → Octo.conforms t x = true) := by
  -- step 2: a concrete source
  have concrete_src : ∀ {t s : Ty}, Covers t s → NormTy t → NormTy s → Concrete s → Octo.conforms s v = true →
      ∃ ta, altFor v.rank t = ta ∧ Concrete ta ∧ NormTy ta ∧ Covers ta s ∧
        (∀ x, Octo.conforms ta x = true → Octo.conforms t x = true) := by
    intro t s h ht hs hc hv
    have ⟨su, sa⟩ := concrete_plain hc
    have hrank := rank_of_conforms_plain su sa hv
    cases h with
    | srcUnion _ alts _ => exact absurd rfl (hc.1 alts)
    | tgtUnion talts _ ta _ hf hcov =>
      have ⟨hm, _⟩ := findAlt_some hf
      have ⟨hcs, hns, _⟩ := normTy_union_inv ht
      refine ⟨ta, ?_, hcs ta hm, hns ta hm, hcov, ?_⟩
      · simp only [altFor, hrank, hf, Option.getD_some]
      · intro x hx; rw [conforms_union_iff]; exact ⟨ta, hm, hx⟩
    | leaf _ hl => exact ⟨_, altFor_concrete hc _, hc, hs, Covers.leaf _ hl, fun _ hx => hx⟩
    | struct tn tt sn st h1 h2 =>
      have hct : Concrete (.struct tn tt) := ⟨fun _ e => (by cases e), fun e => (by cases e)⟩
      exact ⟨_, altFor_concrete hct _, hct, ht, Covers.struct tn tt sn st h1 h2, fun _ hx => hx⟩
    | listNilSrc te =>
      have hct : Concrete (.list te) := ⟨fun _ e => (by cases e), fun e => (by cases e)⟩
      exact ⟨_, altFor_concrete hct _, hct, ht, Covers.listNilSrc te, fun _ hx => hx⟩
    | listNilBoth =>
      have hct : Concrete Ty.listNil := ⟨fun _ e => (by cases e), fun e => (by cases e)⟩
      exact ⟨_, altFor_concrete hct _, hct, ht, Covers.listNilBoth, fun _ hx => hx⟩
    | list te se hcov =>
      have hct : Concrete (.list te) := ⟨fun _ e => (by cases e), fun e => (by cases e)⟩
      exact ⟨_, altFor_concrete hct _, hct, ht, Covers.list te se hcov, fun _ hx => hx⟩
    | tuple te se h1 h2 h3 =>
      have hct : Concrete (.tuple te) := ⟨fun _ e => (by cases e), fun e => (by cases e)⟩
      exact ⟨_, altFor_concrete hct _, hct, ht, Covers.tuple te se h1 h2 h3, fun _ hx => hx⟩
  by_cases hu : s.isUnion = true
  · obtain ⟨alts, rfl⟩ := eq_union_of_isUnion hu
    have ⟨hcs, hns, hp⟩ := normTy_union_inv hs
    rw [conforms_union_iff] at hv
    obtain ⟨a, ha, hav⟩ := hv
    have ⟨au, aa⟩ := concrete_plain (hcs a ha)
    have hrank := rank_of_conforms_plain au aa hav
    have hcov : Covers t a := by
      cases h with
      | srcUnion _ _ hall => exact hall a ha
      | tgtUnion _ _ _ hc _ _ => exact absurd rfl (hc.1 alts)
      | leaf _ hl => simp [Ty.id] at hl
    obtain ⟨ta, h1, h2, h3, h4, h5⟩ := concrete_src hcov ht (hns a ha) (hcs a ha) hav
    refine ⟨a, ta, ?_, h1, hcs a ha, h2, hns a ha, h3, hav, h4, h5⟩
    rw [hrank]; exact altFor_union_of_mem hp ha
  · have hc : Concrete s := by
      constructor
      · intro alts e; subst e; simp [isUnion] at hu
      · intro e; subst e; cases hs with
        | scalar _ h6 => simp [Ty.id] at h6
    obtain ⟨ta, h1, h2, h3, h4, h5⟩ := concrete_src h ht hs hc hv
    exact ⟨s, ta, altFor_concrete hc _, h1, hc, h2, hs, h3, hv, h4, h5⟩


theorem conformsZip_map_zip (f : Name × Ty → Value) : ∀ (tn : List Name) (tt : List Ty), tn.length = tt.length →
    (∀ p ∈ tn.zip tt, Octo.conforms p.2 (f p) = true) → conformsZip tt ((tn.zip tt).map f) = true
  | [], [], _, _ => by simp [conformsZip]
  | [], _ :: _, hl, _ => by simp at hl
  | _ :: _, [], hl, _ => by simp at hl
  | n :: tn, t :: tt, hl, h => by
    simp only [List.zip_cons_cons, List.map_cons, conformsZip, Bool.and_eq_true]
    exact ⟨h (n, t) (by simp), conformsZip_map_zip f tn tt (by simpa using hl) (fun p hp => h p (by simp [hp]))⟩

theorem value_size_pos (v : Value) : 0 < Value.size v := by cases v <;> simp [Value.size] <;> omega

/-- tuples: position by position, padded with NULL -/
theorem conformsZip_relayoutElems (rec : Ty → Ty → Value → Value) : ∀ (te se : List Ty) (xs : List Value),
    conformsZip se xs = true →
    (∀ (i : Nat) ft sj x, te[i]? = some ft → se[i]? = some sj → xs[i]? = some x → Octo.conforms ft (rec ft sj x) = true) →
    (∀ (i : Nat) ft, te[i]? = some ft → se.length ≤ i → Octo.conforms ft .null = true) →
    conformsZip te (relayoutElems rec te se xs) = true
  | [], _, _, _, _, _ => by simp [relayoutElems, conformsZip]
  | ft :: te, [], [], _, h2, h3 => by
    simp only [relayoutElems, conformsZip, Bool.and_eq_true, List.tail_nil]
    refine ⟨h3 0 ft (by simp) (by simp), conformsZip_relayoutElems rec te [] [] (by simp [conformsZip]) ?_ ?_⟩
    · intro i ft' sj x _ hs; simp at hs
    · intro i ft' hi _; exact h3 (i + 1) ft' (by simpa using hi) (by simp)
  | _ :: _, [], _ :: _, hc, _, _ => by simp [conformsZip] at hc
  | _ :: _, _ :: _, [], hc, _, _ => by simp [conformsZip] at hc
  | ft :: te, sj :: se, x :: xs, hc, h2, h3 => by
    simp only [conformsZip, Bool.and_eq_true] at hc
    simp only [relayoutElems, conformsZip, Bool.and_eq_true]
    refine ⟨h2 0 ft sj x (by simp) (by simp) (by simp), conformsZip_relayoutElems rec te se xs hc.2 ?_ ?_⟩
    · intro i ft' sj' x' h1 h2' h3'
      exact h2 (i + 1) ft' sj' x' (by simpa using h1) (by simpa using h2') (by simpa using h3')
    · intro i ft' hi hl
      exact h3 (i + 1) ft' (by simpa using hi) (by simp; omega)


theorem conformsZip_len : ∀ (ts : List Ty) (xs : List Value), conformsZip ts xs = true → ts.length = xs.length
  | [], [], _ => rfl
  | [], _ :: _, h => by simp [conformsZip] at h
  | _ :: _, [], h => by simp [conformsZip] at h
  | _ :: ts, _ :: xs, h => by
    simp only [conformsZip, Bool.and_eq_true] at h
    simp [conformsZip_len ts xs h.2]

/-- **a re-laid-out value of the source type is a value of the target type** -/
theorem covers_conforms : ∀ (fr : Nat) (t s : Ty) (v : Value), Value.size v < fr → Covers t s → NormTy t → NormTy s →
    Octo.conforms s v = true → Octo.conforms t (relayout fr t s v) = true := by
  intro fr
  induction fr with
  | zero => intro t s v h; omega
  | succ fr ih =>
    intro t s v hsz hcov ht hs hv
    obtain ⟨sa, ta, e1, e2, csa, cta, nsa, nta, hva, hc, hup⟩ := covers_resolve hcov ht hs hv
    apply hup
    have hrel : relayout (fr + 1) t s v = relayout (fr + 1) ta sa v :=
      relayout_congr (fr + 1) t ta s sa v (by rw [e2, altFor_concrete cta]) (by rw [e1, altFor_concrete csa])
    rw [hrel]
    have ⟨su, sany⟩ := concrete_plain csa
    cases v with
    | struct xs =>
      -- the source alternative is an object type
      cases sa <;> simp [Octo.conforms, isUnion, isAny] at hva su sany
      rename_i sn st
      cases hc with
      | tgtUnion talts _ _ _ _ _ => exact absurd rfl (cta.1 talts)
      | leaf _ hl => simp [Ty.id] at hl
      | struct tn tt _ _ h1 h2 =>
        have ⟨hnd, hlen, hnst⟩ := normTy_struct_inv nsa
        have ⟨_, hlent, hntt⟩ := normTy_struct_inv nta
        unfold relayout
        simp only [altFor, relayoutStruct, Octo.conforms]
        apply conformsZip_map_zip _ tn tt hlent
        intro p hp
        obtain ⟨n, ft⟩ := p
        simp only [relayoutField]
        have hlast := lastIndexOf_eq_first n sn hnd
        cases hfi : firstIndexOf sn n with
        | none =>
          simp only
          exact h2 n ft hp (by rw [hlast, hfi])
        | some j =>
          simp only
          have hj : j < sn.length := firstIndexOf_lt hfi
          have hxl := conformsZip_len _ _ hva
          have hjs : j < st.length := by omega
          have hjx : j < xs.length := by omega
          rw [List.getElem?_eq_getElem hjx, List.getElem?_eq_getElem hjs]
          simp only
          have hmem : xs[j] ∈ xs := List.getElem_mem hjx
          have hszx := value_size_le_sizeList hmem
          simp only [Value.size] at hsz
          refine ih ft st[j] xs[j] (by omega) (h1 n ft j st[j] hp (by rw [hlast, hfi]) (List.getElem?_eq_getElem hjs)) ?_
            (hnst _ (List.getElem_mem hjs)) (conformsZip_get st xs j _ _ hva (List.getElem?_eq_getElem hjs) (List.getElem?_eq_getElem hjx))
          exact hntt ft (List.of_mem_zip hp).2
    | list xs =>
      cases sa <;> simp [Octo.conforms, isUnion, isAny] at hva su sany
      · -- the empty-list type: the value is the empty list
        subst hva
        cases hc with
        | tgtUnion talts _ _ _ _ _ => exact absurd rfl (cta.1 talts)
        | leaf _ hl => simp [Ty.id] at hl
        | listNilSrc te => unfold relayout; simp [altFor, Octo.conforms]
        | listNilBoth => unfold relayout; simp [altFor, Octo.conforms]
      · rename_i se
        cases hc with
        | tgtUnion talts _ _ _ _ _ => exact absurd rfl (cta.1 talts)
        | leaf _ hl => simp [Ty.id] at hl
        | list te _ hce =>
          unfold relayout
          simp only [altFor, Octo.conforms, List.all_map, List.all_eq_true, Function.comp]
          intro x hx
          have hszx := value_size_le_sizeList hx
          simp only [Value.size] at hsz
          exact ih te se x (by omega) hce (normTy_list_inv nta) (normTy_list_inv nsa) (hva x hx)
    | tuple xs =>
      cases sa <;> simp [Octo.conforms, isUnion, isAny] at hva su sany
      rename_i se
      cases hc with
      | tgtUnion talts _ _ _ _ _ => exact absurd rfl (cta.1 talts)
      | leaf _ hl => simp [Ty.id] at hl
      | tuple te _ hl h2 h3 =>
        unfold relayout
        simp only [altFor, relayoutTuple, Octo.conforms]
        apply conformsZip_relayoutElems _ te se xs hva
        · intro i ft sj x hi hsi hxi
          have hmem : x ∈ xs := List.mem_of_getElem? hxi
          have hszx := value_size_le_sizeList hmem
          simp only [Value.size] at hsz
          exact ih ft sj x (by omega) (h2 i ft sj hi hsi) (normTy_tuple_inv nta ft (List.mem_of_getElem? hi))
            (normTy_tuple_inv nsa sj (List.mem_of_getElem? hsi)) (conformsZip_get se xs i sj x hva hsi hxi)
        · exact h3
    | _ =>
      -- a leaf value is returned unchanged; the two alternatives are the same scalar type
      rw [relayout_leaf _ _ _ _ (by simp [IsLeaf])]
      cases hc with
      | tgtUnion talts _ _ _ _ _ => exact absurd rfl (cta.1 talts)
      | leaf _ _ => exact hva
      | srcUnion _ _ _ => simp [isUnion] at su
      | _ => simp [Octo.conforms] at hva


theorem isConcrete_sound {t : Ty} (h : isConcrete t = true) : Concrete t := by
  simp only [isConcrete, Bool.and_eq_true, Bool.not_eq_true'] at h
  constructor
  · intro alts e; subst e; simp [isUnion] at h
  · intro e; subst e; simp [isAny] at h

theorem namesNodup_sound : ∀ (l : List Name), namesNodup l = true → l.Nodup
  | [], _ => List.nodup_nil
  | n :: ns, h => by
    simp only [namesNodup, Bool.and_eq_true, Bool.not_eq_true', List.contains_eq_mem, decide_eq_false_iff_not] at h
    exact List.nodup_cons.mpr ⟨h.1, namesNodup_sound ns h.2⟩

theorem idsAscending_head : ∀ (l : List Ty) (a : Ty), idsAscending (a :: l) = true → ∀ b ∈ l, a.id < b.id
  | [], _, _, b, hb => by cases hb
  | c :: rest, a, h, b, hb => by
    simp only [idsAscending, Bool.and_eq_true, decide_eq_true_eq] at h
    simp only [List.mem_cons] at hb
    rcases hb with rfl | hb
    · exact h.1
    · exact Nat.lt_trans h.1 (idsAscending_head rest c h.2 b hb)

theorem idsAscending_tail : ∀ (l : List Ty) (a : Ty), idsAscending (a :: l) = true → idsAscending l = true
  | [], _, _ => rfl
  | _ :: _, _, h => by simp only [idsAscending, Bool.and_eq_true] at h; exact h.2

theorem idsAscending_sound : ∀ (l : List Ty), idsAscending l = true → l.Pairwise (fun a b => a.id < b.id)
  | [], _ => List.Pairwise.nil
  | a :: l, h => List.pairwise_cons.mpr ⟨idsAscending_head l a h, idsAscending_sound l (idsAscending_tail l a h)⟩

theorem normBList_iff : ∀ (l : List Ty), normBList l = true ↔ ∀ a ∈ l, normB a = true
  | [] => by simp [normBList]
  | a :: as => by simp [normBList, normBList_iff as]

theorem normB_sound_aux : ∀ (n : Nat) (t : Ty), t.size ≤ n → normB t = true → NormTy t := by
  intro n
  induction n with
  | zero => intro t h; have := size_pos t; omega
  | succ n ih =>
    intro t hsz h
    cases t with
    | any => simp [normB] at h
    | list e => simp only [normB] at h; exact NormTy.list e (ih e (by simp only [Ty.size] at hsz; omega) h)
    | struct ns ts =>
      simp only [normB, Bool.and_eq_true, beq_iff_eq] at h
      refine NormTy.struct ns ts (namesNodup_sound ns h.1.1) h.1.2 ?_
      intro t ht
      have := size_le_sizeList ht
      exact ih t (by simp only [Ty.size] at hsz; omega) ((normBList_iff ts).mp h.2 t ht)
    | tuple ts =>
      simp only [normB] at h
      refine NormTy.tuple ts ?_
      intro t ht
      have := size_le_sizeList ht
      exact ih t (by simp only [Ty.size] at hsz; omega) ((normBList_iff ts).mp h t ht)
    | union alts =>
      simp only [normB, Bool.and_eq_true, List.all_eq_true] at h
      refine NormTy.union alts (fun a ha => isConcrete_sound (h.1.1 a ha)) ?_ (idsAscending_sound alts h.1.2)
      intro a ha
      have := size_le_sizeList ha
      exact ih a (by simp only [Ty.size] at hsz; omega) ((normBList_iff alts).mp h.2 a ha)
    | listNil => exact NormTy.listNil
    | _ => exact NormTy.scalar _ (by simp [Ty.id])

theorem normB_sound {t : Ty} (h : normB t = true) : NormTy t := normB_sound_aux t.size t (Nat.le_refl _) h

theorem coversTuple_sound (f : Ty → Ty → Bool) : ∀ (te se : List Ty), coversTuple f te se = true →
    (∀ (i : Nat) ft sj, te[i]? = some ft → se[i]? = some sj → f ft sj = true) ∧
    (∀ (i : Nat) ft, te[i]? = some ft → se.length ≤ i → Octo.conforms ft .null = true)
  | [], _, _ => by simp
  | ft :: te, [], h => by
    simp only [coversTuple, Bool.and_eq_true] at h
    have ⟨_, r2⟩ := coversTuple_sound f te [] h.2
    refine ⟨by intro i ft' sj _ hs; simp at hs, ?_⟩
    intro i ft' hi _
    cases i with
    | zero => simp at hi; subst hi; exact h.1
    | succ k => exact r2 k ft' (by simpa using hi) (by simp)
  | ft :: te, sj :: se, h => by
    simp only [coversTuple, Bool.and_eq_true] at h
    have ⟨r1, r2⟩ := coversTuple_sound f te se h.2
    constructor
    · intro i ft' sj' hi hs
      cases i with
      | zero => simp at hi hs; subst hi; subst hs; exact h.1
      | succ k => exact r1 k ft' sj' (by simpa using hi) (by simpa using hs)
    · intro i ft' hi hl
      cases i with
      | zero => simp at hl
      | succ k => exact r2 k ft' (by simpa using hi) (by simp at hl; omega)

/-- the decidable check is sound for `Covers` -/
theorem coversF_sound : ∀ (n : Nat) (t s : Ty), coversF n t s = true → Covers t s := by
  intro n
  induction n with
  | zero => intro t s h; simp [coversF] at h
  | succ n ih =>
    intro t s h
    cases s with
    | union alts =>
      simp only [coversF, List.all_eq_true] at h
      exact Covers.srcUnion t alts (fun a ha => ih t a (h a ha))
    | _ =>
      cases t with
      | union talts =>
        simp only [coversF, Bool.and_eq_true] at h
        obtain ⟨hc, hm⟩ := h
        split at hm
        · rename_i ta hf
          exact Covers.tgtUnion talts _ ta (isConcrete_sound hc) hf (ih ta _ hm)
        · cases hm
      | struct tn tt =>
        first
        | (simp [coversF] at h; done)
        | (rename_i sn st
           simp only [coversF, List.all_eq_true] at h
           refine Covers.struct tn tt sn st ?_ ?_
           · intro nm ft j sj hp hj hs
             have := h (nm, ft) hp
             simp only [coversField, hj, hs] at this
             exact ih ft sj this
           · intro nm ft hp hj
             have := h (nm, ft) hp
             simp only [coversField, hj] at this
             exact this)
      | tuple te =>
        first
        | (simp [coversF] at h; done)
        | (rename_i se
           simp only [coversF, Bool.and_eq_true, decide_eq_true_eq] at h
           have ⟨r1, r2⟩ := coversTuple_sound (coversF n) te se h.2
           exact Covers.tuple te se h.1 (fun i ft sj hi hs => ih ft sj (r1 i ft sj hi hs)) r2)
      | list te =>
        first
        | (simp [coversF] at h; done)
        | exact Covers.listNilSrc te
        | (rename_i se; simp only [coversF] at h; exact Covers.list te se (ih te se h))
      | listNil =>
        first
        | (simp [coversF] at h; done)
        | exact Covers.listNilBoth
      | _ =>
        first
        | (simp [coversF] at h; done)
        | exact Covers.leaf _ (by simp [Ty.id])

theorem coversB_sound {t s : Ty} (h : coversB t s = true) : Covers t s := coversF_sound _ t s h


/-- the loop of `Coalesce.Evaluate` when the result type covers every argument type -/
theorem evalCoalesce_covered (S : Sig) (Γ : Ctx) (ρ : List (List Value)) (he : EnvConforms Γ ρ) (T : Ty) (nT : NormTy T) :
    ∀ (ms : List Mapping) (args : List PExpr) (v : Value),
      (∀ a ∈ args, Sound S Γ a ∧ NormTy a.ty ∧ Covers T a.ty) → coalesceOkList args = true →
      args.mapM (fun a => calcMapping (Ty.size T + Ty.size a.ty + 1) T a.ty) = some ms →
      (Octo.conforms T .null = true ∨ args ≠ []) →
      evalCoalesce S Γ ρ ms args = .val v → Octo.conforms T v = true
  | ms, [], v, _, _, hm, hn, h => by
    simp only [List.mapM_nil, Option.pure_def, Option.some.injEq] at hm
    subst hm
    simp only [evalCoalesce, Res.val.injEq] at h; subst h
    rcases hn with hn | hn
    · exact hn
    · exact absurd rfl hn
  | ms, a :: as, v, hs, hp, hm, _, h => by
    simp only [List.mapM_cons, Option.bind_eq_bind] at hm
    cases hma : calcMapping (Ty.size T + Ty.size a.ty + 1) T a.ty with
    | none => simp [hma] at hm
    | some m =>
      simp only [hma, Option.bind_some] at hm
      cases hmas : as.mapM (fun a => calcMapping (Ty.size T + Ty.size a.ty + 1) T a.ty) with
      | none => simp [hmas] at hm
      | some ms' =>
        simp only [hmas, Option.bind_some, Option.pure_def, Option.some.injEq] at hm
        subst hm
        simp only [evalCoalesce] at h
        simp only [coalesceOkList, Bool.and_eq_true] at hp
        have ⟨hsa, hna, hca⟩ := hs a (by simp)
        cases hav : eval S Γ ρ a with
        | val w =>
          simp only [hav] at h
          have hcw := hsa.2 hp.1 ρ w he hav
          by_cases hnull : isNullV w = true
          · simp only [hnull, if_true] at h
            have : w = .null := (isNullV_iff w).mp hnull
            subst this
            have hTn : Octo.conforms T .null = true := by
              have := covers_conforms 2 T a.ty .null (by simp [Value.size]) hca nT hna hcw
              rwa [relayout_leaf _ _ _ _ (by simp [IsLeaf])] at this
            exact evalCoalesce_covered S Γ ρ he T nT ms' as v (fun b hb => hs b (by simp [hb])) hp.2 hmas (Or.inl hTn) h
          · simp only [hnull, Bool.false_eq_true, if_false] at h
            obtain ⟨m', hm', hfix⟩ := fixLayout_calcMapping T a.ty w nT hna (covers_fits hca)
              (by rw [conforms13_eq]; exact hcw)
            rw [hma] at hm'
            simp only [Option.some.injEq] at hm'
            subst hm'
            rw [hfix] at h
            simp only [Res.val.injEq] at h
            subst h
            exact covers_conforms _ T a.ty w (Nat.lt_succ_self _) hca nT hna hcw
        | err => simp [hav] at h
        | panic => simp [hav] at h
        | unmodelled => simp [hav] at h

/-- COALESCE when the (normal-form) result type covers the (normal-form) argument types -/
theorem coalesce_sound_covered {S : Sig} {Γ : Ctx} {args : List PExpr} {T : Ty} (hargs : ∀ a ∈ args, Sound S Γ a)
    (hne : args ≠ []) (hpl : coalesceOkList args = true) (nT : normB T = true)
    (hcov : ∀ a ∈ args, normB a.ty = true ∧ coversB T a.ty = true)
    (ρ : List (List Value)) (v : Value) (he : EnvConforms Γ ρ) (hv : eval S Γ ρ (.coalesce T args) = .val v) :
    Octo.conforms T v = true := by
  simp only [eval] at hv
  cases hm : layoutMappings T args with
  | none => simp [hm] at hv
  | some ms =>
    simp only [hm] at hv
    exact evalCoalesce_covered S Γ ρ he T (normB_sound nT) ms args v
      (fun a ha => ⟨hargs a ha, normB_sound (hcov a ha).1, coversB_sound (hcov a ha).2⟩) hpl hm (Or.inr hne) hv

end Octo.Tc
