import Octo.Lemmas.JsonPipeQueue
import Octo.Lemmas.JsonPipeReach
/-! Global bookkeeping of batches: every batch found anywhere in the pipeline was submitted by the reader of its
pipe (`SubInv`), and — as long as the consumer is in its loop and the parent context is not cancelled — every
submitted batch is somewhere: job channel, a worker, `outChan`, in the consumer's hands, or processed (`ConsInv`). -/
namespace Octo.JsonPipe

structure SubInv (s : State) : Prop where
  jobs : ∀ j, j ∈ s.jobs → j ∈ (s.pipe j.pipe).sub
  workers : ∀ w j, s.worker w = some j → j ∈ (s.pipe j.pipe).sub
  out : ∀ p j, j ∈ (s.pipe p).out → j ∈ (s.pipe p).sub
  held : ∀ p j, ((s.pipe p).cpc = .tok j ∨ (s.pipe p).cpc = .proc j) → j ∈ (s.pipe p).sub

theorem subInv_setPipe {s : State} (h : SubInv s) (p : Nat) (P' : Pipe)
    (hsub : ∀ j, j ∈ (s.pipe p).sub → j ∈ P'.sub) (hout : ∀ j, j ∈ P'.out → j ∈ P'.sub)
    (hheld : ∀ j, (P'.cpc = .tok j ∨ P'.cpc = .proc j) → j ∈ P'.sub) : SubInv (s.setPipe p P') := by
  refine ⟨fun j hj => ?_, fun w j hw => ?_, fun q j hj => ?_, fun q j hj => ?_⟩
  · have := h.jobs j hj
    by_cases e : j.pipe = p
    · rw [e, setPipe_pipe_same]; rw [e] at this; exact hsub j this
    · rw [setPipe_pipe_ne s P' e]; exact this
  · have := h.workers w j hw
    by_cases e : j.pipe = p
    · rw [e, setPipe_pipe_same]; rw [e] at this; exact hsub j this
    · rw [setPipe_pipe_ne s P' e]; exact this
  · by_cases e : q = p
    · subst e; rw [setPipe_pipe_same] at hj ⊢; exact hout j hj
    · rw [setPipe_pipe_ne s P' e] at hj ⊢; exact h.out q j hj
  · by_cases e : q = p
    · subst e; rw [setPipe_pipe_same] at hj ⊢; exact hheld j hj
    · rw [setPipe_pipe_ne s P' e] at hj ⊢; exact h.held q j hj

theorem subInv_init (nw : Nat) (pipes : List Pipe) (hp : ∀ P, P ∈ pipes → P.IsInit) : SubInv (State.init nw pipes) := by
  have key : ∀ p, ((State.init nw pipes).pipe p).out = [] ∧ ((State.init nw pipes).pipe p).cpc = .sel := by
    intro p
    by_cases hlt : p < pipes.length
    · obtain ⟨lines, batch, se, bad, st, _, e⟩ := init_pipe_isInit (nw := nw) hp (p := p) (by simpa [State.init] using hlt)
      rw [e]; exact ⟨rfl, rfl⟩
    · have : pipes.getD p default = default := by simp [List.getD, Nat.le_of_not_lt hlt]
      simp only [State.init, this]; exact ⟨rfl, rfl⟩
  refine ⟨fun j hj => by simp [State.init] at hj, fun w j hw => by simp [State.init] at hw, fun p j hj => ?_, fun p j hj => ?_⟩
  · rw [(key p).1] at hj; simp at hj
  · rw [(key p).2] at hj; simp at hj

theorem step_subInv {s s' : State} {a : Action} (h : SubInv s) (hs : step s a = some s') : SubInv s' := by
  cases a with
  | rTok p =>
    simp only [step] at hs
    split at hs
    · injection hs with hs; subst hs
      exact subInv_setPipe h p _ (fun j hj => hj) (h.out p) (h.held p)
    · contradiction
  | rStop p =>
    simp only [step] at hs
    split at hs
    · injection hs with hs; subst hs
      exact subInv_setPipe h p _ (fun j hj => hj) (h.out p) (h.held p)
    · contradiction
  | rSub p =>
    simp only [step] at hs
    split at hs
    · injection hs with hs; subst hs
      have h' := subInv_setPipe h p { s.pipe p with rpc := .write, sub := (s.pipe p).sub ++ [⟨p, (s.pipe p).nextLine, (s.pipe p).cur⟩] }
        (fun j hj => by simp [hj]) (fun j hj => by simp [h.out p j hj]) (fun j hj => by simp [h.held p j hj])
      refine ⟨fun j hj => ?_, h'.workers, h'.out, h'.held⟩
      simp only [List.mem_append, List.mem_singleton] at hj
      rcases hj with hj | rfl
      · exact h'.jobs j hj
      · simp
    · contradiction
  | rWrite p =>
    simp only [step] at hs
    split at hs
    · injection hs with hs; subst hs
      exact subInv_setPipe h p _ (fun j hj => hj) (h.out p) (h.held p)
    · contradiction
  | rDone p =>
    simp only [step] at hs
    split at hs
    · injection hs with hs; subst hs
      exact subInv_setPipe h p _ (fun j hj => hj) (h.out p) (h.held p)
    · contradiction
  | wTake w k =>
    simp only [step] at hs
    split at hs
    · split at hs
      · rename_i j rest hta; injection hs with hs; subst hs
        obtain ⟨hm1, hm2, _⟩ := takeAt_mem hta
        refine ⟨fun x hx => h.jobs x (hm2 x hx), fun v x hv => ?_, h.out, h.held⟩
        simp only [State.setWorker] at hv
        split at hv
        · injection hv with hv; subst hv; exact h.jobs _ hm1
        · exact h.workers v x hv
      · contradiction
    · contradiction
  | wSend w =>
    simp only [step] at hs
    split at hs
    · rename_i j hj
      split at hs
      · injection hs with hs; subst hs
        have hjs := h.workers w j hj
        have h0 : SubInv (s.setWorker w none) := by
          refine ⟨h.jobs, fun v x hv => ?_, h.out, h.held⟩
          simp only [State.setWorker] at hv
          split at hv
          · contradiction
          · exact h.workers v x hv
        apply subInv_setPipe h0 j.pipe
        · exact fun x hx => hx
        · intro x hx
          simp only [List.mem_append, List.mem_singleton] at hx
          rcases hx with hx | rfl
          · exact h.out _ x hx
          · exact hjs
        · exact h.held j.pipe
      · contradiction
    · contradiction
  | wDrop w =>
    simp only [step] at hs
    split at hs
    · split at hs
      · injection hs with hs; subst hs
        refine ⟨h.jobs, fun v x hv => ?_, h.out, h.held⟩
        simp only [State.setWorker] at hv
        split at hv
        · contradiction
        · exact h.workers v x hv
      · contradiction
    · contradiction
  | cRecv p k =>
    simp only [step] at hs
    split at hs
    · split at hs
      · rename_i j rest hta; injection hs with hs; subst hs
        obtain ⟨hm1, hm2, _⟩ := takeAt_mem hta
        apply subInv_setPipe h p
        · exact fun x hx => hx
        · exact fun x hx => h.out p x (hm2 x hx)
        · intro x hx
          simp only [CPc.tok.injEq, reduceCtorEq, or_false] at hx
          subst hx; exact h.out p _ hm1
      · contradiction
    · contradiction
  | cTok p =>
    simp only [step] at hs
    split at hs
    · rename_i j hj
      split at hs
      · injection hs with hs; subst hs
        apply subInv_setPipe h p
        · exact fun x hx => hx
        · exact h.out p
        · intro x hx
          simp only [CPc.proc.injEq, reduceCtorEq, false_or] at hx
          subst hx; exact h.held p _ (Or.inl hj)
      · contradiction
    · contradiction
  | cProc p =>
    simp only [step] at hs
    split at hs
    · rename_i j hj
      split at hs
      · injection hs with hs; subst hs
        obtain ⟨fr, hc⟩ := procBatch_frame (s.pipe p) j
        apply subInv_setPipe h p
        · rw [fr.sub]; exact fun x hx => hx
        · rw [fr.sub, fr.out]; exact h.out p
        · intro x hx
          rcases hc with hc | hc <;> rw [hc] at hx <;> simp at hx
      · contradiction
    · contradiction
  | cDone p =>
    simp only [step] at hs
    split at hs
    · rename_i hg
      split at hs
      · injection hs with hs; subst hs
        exact subInv_setPipe h p _ (fun j hj => hj) (h.out p) (fun x hx => by simp at hx)
      · injection hs with hs; subst hs
        apply subInv_setPipe h p
        · split <;> exact fun x hx => hx
        · split <;> exact h.out p
        · intro x hx
          split at hx
          · simp at hx
          · simp only at hx; rw [hg.2.1] at hx; simp at hx
      · contradiction
    · contradiction
  | cCtx p =>
    simp only [step] at hs
    split at hs
    · injection hs with hs; subst hs
      exact subInv_setPipe h p _ (fun j hj => hj) (h.out p) (fun x hx => by simp at hx)
    · contradiction
  | cCancel p =>
    simp only [step] at hs
    split at hs
    · injection hs with hs; subst hs
      exact subInv_setPipe h p _ (fun j hj => hj) (h.out p) (fun x hx => by simp at hx)
    · contradiction
  | pCancel p =>
    simp only [step] at hs
    split at hs
    · injection hs with hs; subst hs
      exact subInv_setPipe h p _ (fun j hj => hj) (h.out p) (h.held p)
    · contradiction
  | rTrunc p u =>
    simp only [step] at hs
    split at hs
    · injection hs with hs; subst hs
      exact subInv_setPipe h p _ (fun j hj => hj) (h.out p) (h.held p)
    · contradiction

theorem reachable_subInv {s : State} (h : Reachable s) : SubInv s :=
  reachable_induction (fun nw pipes _ hp => subInv_init nw pipes hp) (fun _ _ _ hi hs => step_subInv hi hs) h

theorem reachable_qinv {s : State} (h : Reachable s) : ∀ p, p < s.np → QInv p (s.pipe p) := by
  have key : Reachable s → (SubInv s ∧ (∀ p, p < s.np → PInv (s.pipe p)) ∧ ∀ p, p < s.np → QInv p (s.pipe p)) := by
    intro h
    refine reachable_induction (I := fun s => SubInv s ∧ (∀ p, p < s.np → PInv (s.pipe p)) ∧ ∀ p, p < s.np → QInv p (s.pipe p)) ?_ ?_ h
    · intro nw pipes _ hp
      exact ⟨subInv_init nw pipes hp, fun p hlt => pinv_init (init_pipe_isInit hp hlt), fun p hlt => qinv_init p (init_pipe_isInit hp hlt)⟩
    · intro s a s' ⟨hsub, hpi, hq⟩ hs
      refine ⟨step_subInv hsub hs, fun p hp => ?_, fun p hp => ?_⟩
      · rw [(step_np hs).1] at hp
        rcases step_pipe hs p with e | e
        · rw [e]; exact hpi p hp
        · exact pinv_step (hpi p hp) e
      · rw [(step_np hs).1] at hp
        rcases step_pipe hs p with e | e
        · rw [e]; exact hq p hp
        · exact qinv_step (hpi p hp) (hq p hp) (fun j hj => hsub.held p j (Or.inr hj)) e
  exact (key h).2.2

end Octo.JsonPipe

namespace Octo.JsonPipe

/-- where a submitted batch of pipe `p` can be -/
def Located (s : State) (p : Nat) (j : Job) : Prop :=
  j ∈ s.jobs ∨ (∃ w, w < s.nw ∧ s.worker w = some j) ∨ j ∈ (s.pipe p).out ∨ (s.pipe p).cpc = .tok j ∨
    (s.pipe p).cpc = .proc j ∨ j ∈ (s.pipe p).got

def ConsInv (s : State) : Prop :=
  ∀ p, p < s.np → inLoop (s.pipe p) → (s.pipe p).parentCancelled = false → ∀ j, j ∈ (s.pipe p).sub → Located s p j

theorem consInv_setPipe {s : State} (h : ConsInv s) (p : Nat) (P' : Pipe)
    (hloc : inLoop P' → P'.parentCancelled = false → ∀ j, j ∈ P'.sub →
      (j ∈ s.jobs ∨ (∃ w, w < s.nw ∧ s.worker w = some j) ∨ j ∈ P'.out ∨ P'.cpc = .tok j ∨ P'.cpc = .proc j ∨ j ∈ P'.got)) :
    ConsInv (s.setPipe p P') := by
  intro q hq hl hc j hj
  by_cases e : q = p
  · subst e
    simp only [setPipe_pipe_same] at hl hc hj
    simp only [Located, setPipe_pipe_same, setPipe_jobs, setPipe_worker, setPipe_nw]
    exact hloc hl hc j hj
  · simp only [setPipe_pipe_ne s P' e] at hl hc hj
    simp only [Located, setPipe_pipe_ne s P' e, setPipe_jobs, setPipe_worker, setPipe_nw]
    exact h q hq hl hc j hj

/-- an update of pipe `p` that touches none of the fields the bookkeeping looks at -/
theorem consInv_setPipe_same {s : State} (h : ConsInv s) {p : Nat} (hp : p < s.np) (P' : Pipe)
    (h1 : P'.cpc = (s.pipe p).cpc) (h2 : P'.parentCancelled = (s.pipe p).parentCancelled) (h3 : P'.sub = (s.pipe p).sub)
    (h4 : P'.out = (s.pipe p).out) (h5 : P'.got = (s.pipe p).got) : ConsInv (s.setPipe p P') := by
  apply consInv_setPipe h p
  intro hl hc j hj
  have hl' : inLoop (s.pipe p) := by simpa [inLoop, h1] using hl
  rw [h2] at hc; rw [h3] at hj
  have := h p hp hl' hc j hj
  simpa [Located, h1, h4, h5] using this

theorem consInv_init (nw : Nat) (pipes : List Pipe) (hp : ∀ P, P ∈ pipes → P.IsInit) : ConsInv (State.init nw pipes) := by
  intro p hlt _ _ j hj
  obtain ⟨lines, batch, se, bad, st, _, e⟩ := init_pipe_isInit hp hlt
  rw [e] at hj; simp [Pipe.init] at hj

theorem not_inLoop_ret {P : Pipe} (h : P.cpc = .ret) : ¬ inLoop P := by
  intro hl; rcases hl with hl | ⟨x, hl⟩ | ⟨x, hl⟩ <;> rw [h] at hl <;> contradiction

theorem not_inLoop_exit {P : Pipe} (h : P.cpc = .exit) : ¬ inLoop P := by
  intro hl; rcases hl with hl | ⟨x, hl⟩ | ⟨x, hl⟩ <;> rw [h] at hl <;> contradiction

theorem step_consInv {s s' : State} {a : Action} (h : ConsInv s) (ht : TokInv s)
    (hpi : ∀ p, p < s.np → PInv (s.pipe p)) (hq : ∀ p, p < s.np → QInv p (s.pipe p))
    (hs : step s a = some s') : ConsInv s' := by
  cases a with
  | rTok p =>
    simp only [step] at hs
    split at hs
    · rename_i hg; injection hs with hs; subst hs
      exact consInv_setPipe_same h hg.1 _ rfl rfl rfl rfl rfl
    · contradiction
  | rStop p =>
    simp only [step] at hs
    split at hs
    · rename_i hg; injection hs with hs; subst hs
      exact consInv_setPipe_same h hg.1 _ rfl rfl rfl rfl rfl
    · contradiction
  | rSub p =>
    simp only [step] at hs
    split at hs
    · rename_i hg; injection hs with hs; subst hs
      intro q hqlt hl hc x hx
      by_cases e : q = p
      · subst e
        simp only [setPipe_pipe_same] at hl hc hx
        simp only [List.mem_append, List.mem_singleton] at hx
        rcases hx with hx | rfl
        · have := h q hg.1 (by simpa [inLoop] using hl) hc x hx
          simp only [Located, setPipe_pipe_same, setPipe_worker, setPipe_nw, List.mem_append] at this ⊢
          rcases this with h1 | h1
          · exact Or.inl (Or.inl h1)
          · exact Or.inr h1
        · left; simp
      · simp only [setPipe_pipe_ne s _ e] at hl hc hx
        have := h q hqlt hl hc x hx
        simp only [Located, setPipe_pipe_ne s _ e, setPipe_worker, setPipe_nw, List.mem_append] at this ⊢
        rcases this with h1 | h1
        · exact Or.inl (Or.inl h1)
        · exact Or.inr h1
    · contradiction
  | rWrite p =>
    simp only [step] at hs
    split at hs
    · rename_i hg; injection hs with hs; subst hs
      exact consInv_setPipe_same h hg.1 _ rfl rfl rfl rfl rfl
    · contradiction
  | rDone p =>
    simp only [step] at hs
    split at hs
    · rename_i hg; injection hs with hs; subst hs
      exact consInv_setPipe_same h hg.1 _ rfl rfl rfl rfl rfl
    · contradiction
  | wTake w k =>
    simp only [step] at hs
    split at hs
    · rename_i hg
      split at hs
      · rename_i j rest hta; injection hs with hs; subst hs
        obtain ⟨hm1, hm2, hm3⟩ := takeAt_mem hta
        intro q hqlt hl hc x hx
        have := h q hqlt hl hc x hx
        simp only [Located, State.setWorker] at this ⊢
        rcases this with h1 | ⟨v, hv, h1⟩ | h1
        · rcases hm3 x h1 with rfl | h2
          · right; left; exact ⟨w, hg.1, by simp⟩
          · left; exact h2
        · right; left
          refine ⟨v, hv, ?_⟩
          have : v ≠ w := by intro e; subst e; rw [hg.2] at h1; contradiction
          simp [this, h1]
        · right; right; exact h1
      · contradiction
    · contradiction
  | wSend w =>
    simp only [step] at hs
    split at hs
    · rename_i j hj
      split at hs
      · rename_i hg; injection hs with hs; subst hs
        intro q hqlt hl hc x hx
        by_cases e : q = j.pipe
        · subst e
          simp only [setPipe_pipe_same] at hl hc hx
          have := h j.pipe hqlt (by simpa [inLoop] using hl) hc x hx
          simp only [Located, setPipe_pipe_same, setPipe_jobs, setPipe_worker, setPipe_nw, State.setWorker, List.mem_append,
            List.mem_singleton] at this ⊢
          rcases this with h1 | ⟨v, hv, h1⟩ | h1 | h1
          · left; exact h1
          · by_cases hvw : v = w
            · subst hvw; rw [hj] at h1; injection h1 with h1
              right; right; left; right; exact h1.symm
            · right; left; exact ⟨v, hv, by simp [hvw, h1]⟩
          · right; right; left; left; exact h1
          · right; right; right; exact h1
        · simp only [setPipe_pipe_ne _ _ e] at hl hc hx
          have := h q hqlt hl hc x hx
          have hxp := (hq q hqlt).subPipe x hx
          simp only [Located, setPipe_pipe_ne _ _ e, setPipe_jobs, setPipe_worker, setPipe_nw, State.setWorker] at this ⊢
          rcases this with h1 | ⟨v, hv, h1⟩ | h1
          · left; exact h1
          · by_cases hvw : v = w
            · subst hvw; rw [hj] at h1; injection h1 with h1
              subst h1; exact absurd hxp.symm e
            · right; left; exact ⟨v, hv, by simp [hvw, h1]⟩
          · right; right; exact h1
      · contradiction
    · contradiction
  | wDrop w =>
    simp only [step] at hs
    split at hs
    · rename_i j hj
      split at hs
      · rename_i hg; injection hs with hs; subst hs
        intro q hqlt hl hc x hx
        have := h q hqlt hl hc x hx
        have hxp := (hq q hqlt).subPipe x hx
        simp only [Located, State.setWorker] at this ⊢
        rcases this with h1 | ⟨v, hv, h1⟩ | h1
        · left; exact h1
        · by_cases hvw : v = w
          · subst hvw; rw [hj] at h1; injection h1 with h1
            subst h1
            -- the dropped job belongs to pipe q = j.pipe, which is cancelled: the parent is not, so the local context is,
            -- so the consumer has left its loop
            rw [hxp] at hg
            have hcq := hg.2
            have hc' : (s.pipe q).parentCancelled = false := hc
            simp only [Pipe.cancelled, hc', Bool.false_or] at hcq
            have := (hpi q hqlt).exitLocal.mpr hcq
            exact absurd hl (not_inLoop_exit this)
          · right; left; exact ⟨v, hv, by simp [hvw, h1]⟩
        · right; right; exact h1
      · contradiction
    · contradiction
  | cRecv p k =>
    simp only [step] at hs
    split at hs
    · rename_i hg
      split at hs
      · rename_i j rest hta; injection hs with hs; subst hs
        obtain ⟨hm1, hm2, hm3⟩ := takeAt_mem hta
        apply consInv_setPipe h p
        intro hl hc x hx
        have := h p hg.1 (Or.inl hg.2) hc x hx
        simp only [Located, hg.2] at this
        rcases this with h1 | h1 | h1 | h1 | h1 | h1
        · exact Or.inl h1
        · exact Or.inr (Or.inl h1)
        · rcases hm3 x h1 with rfl | h2
          · right; right; right; left; rfl
          · right; right; left; exact h2
        · contradiction
        · contradiction
        · right; right; right; right; right; exact h1
      · contradiction
    · contradiction
  | cTok p =>
    simp only [step] at hs
    split at hs
    · rename_i j hj
      split at hs
      · rename_i hg; injection hs with hs; subst hs
        apply consInv_setPipe h p
        intro hl hc x hx
        have := h p hg.1 (Or.inr (Or.inl ⟨j, hj⟩)) hc x hx
        simp only [Located, hj] at this
        rcases this with h1 | h1 | h1 | h1 | h1 | h1
        · exact Or.inl h1
        · exact Or.inr (Or.inl h1)
        · exact Or.inr (Or.inr (Or.inl h1))
        · injection h1 with h1; subst h1
          right; right; right; right; left; rfl
        · contradiction
        · right; right; right; right; right; exact h1
      · contradiction
    · contradiction
  | cProc p =>
    simp only [step] at hs
    split at hs
    · rename_i j hj
      split at hs
      · rename_i hg; injection hs with hs; subst hs
        obtain ⟨fr, _⟩ := procBatch_frame (s.pipe p) j
        apply consInv_setPipe h p
        intro hl hc x hx
        rw [fr.parentCancelled] at hc; rw [fr.sub] at hx
        have := h p hg (Or.inr (Or.inr ⟨j, hj⟩)) hc x hx
        rcases procBatch_cases (s.pipe p) j with ⟨hr, _⟩ | ⟨Q, hcont, he⟩
        · exact absurd hl (not_inLoop_ret hr)
        · have hgot : (procBatch (s.pipe p) j).got = j :: (s.pipe p).got := by
            rw [he, (finishBatch_got Q).1, procCont_got hcont]
          simp only [Located, hj] at this
          rw [fr.out, hgot]
          rcases this with h1 | h1 | h1 | h1 | h1 | h1
          · exact Or.inl h1
          · exact Or.inr (Or.inl h1)
          · exact Or.inr (Or.inr (Or.inl h1))
          · contradiction
          · injection h1 with h1; subst h1
            right; right; right; right; right; simp
          · right; right; right; right; right; simp [h1]
      · contradiction
    · contradiction
  | cDone p =>
    simp only [step] at hs
    split at hs
    · rename_i hg
      split at hs
      · injection hs with hs; subst hs
        apply consInv_setPipe h p
        intro hl; exact absurd hl (not_inLoop_ret rfl)
      · injection hs with hs; subst hs
        split
        · apply consInv_setPipe h p
          intro hl; exact absurd hl (not_inLoop_ret rfl)
        · exact consInv_setPipe_same h hg.1 _ rfl rfl rfl rfl rfl
      · contradiction
    · contradiction
  | cCtx p =>
    simp only [step] at hs
    split at hs
    · injection hs with hs; subst hs
      apply consInv_setPipe h p
      intro hl; exact absurd hl (not_inLoop_ret rfl)
    · contradiction
  | cCancel p =>
    simp only [step] at hs
    split at hs
    · injection hs with hs; subst hs
      apply consInv_setPipe h p
      intro hl; exact absurd hl (not_inLoop_exit rfl)
    · contradiction
  | pCancel p =>
    simp only [step] at hs
    split at hs
    · injection hs with hs; subst hs
      apply consInv_setPipe h p
      intro _ hc; simp at hc
    · contradiction
  | rTrunc p u =>
    simp only [step] at hs
    split at hs
    · rename_i hg; injection hs with hs; subst hs
      exact consInv_setPipe_same h hg.1 _ rfl rfl rfl rfl rfl
    · contradiction

theorem reachable_consInv {s : State} (h : Reachable s) : ConsInv s := by
  have key : Reachable s → (ConsInv s ∧ Reachable s) := by
    intro h
    refine reachable_induction (I := fun s => ConsInv s ∧ Reachable s) ?_ ?_ h
    · intro nw pipes h1 hp
      exact ⟨consInv_init nw pipes hp, ⟨nw, pipes, [], h1, hp, rfl⟩⟩
    · intro s a s' ⟨hc, hr⟩ hs
      exact ⟨step_consInv hc (reachable_tokInv hr) (reachable_pinv hr) (reachable_qinv hr) hs, reachable_step hr hs⟩
  exact (key h).1

end Octo.JsonPipe
