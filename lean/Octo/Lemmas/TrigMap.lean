import Octo.Model.TrigMap
/-! Laws of the ordered container `Octo.TMap` that hold whenever "neither is less" is an equivalence. -/
namespace Octo.TMap

variable {α : Type} {β : Type} {lt : α → α → Bool}

/-- what the containers need of `Less`: "neither is less than the other" is an equivalence relation -/
structure EqvLaws (lt : α → α → Bool) : Prop where
  refl : ∀ a, eqv lt a a = true
  trans : ∀ a b c, eqv lt a b = true → eqv lt b c = true → eqv lt a c = true

theorem eqv_comm (a b : α) : eqv lt a b = eqv lt b a := by
  simp only [eqv]; exact Bool.and_comm _ _

theorem EqvLaws.symm (_E : EqvLaws lt) {a b : α} (h : eqv lt a b = true) : eqv lt b a = true := by
  rw [eqv_comm]; exact h

/-- equivalent probes are interchangeable -/
theorem EqvLaws.congr_left (E : EqvLaws lt) {a b : α} (h : eqv lt a b = true) (c : α) :
    eqv lt a c = eqv lt b c := by
  cases h1 : eqv lt a c <;> cases h2 : eqv lt b c <;> try rfl
  · have := E.trans a b c h h2; simp_all
  · have := E.trans b a c (E.symm h) h1; simp_all

theorem find_congr (E : EqvLaws lt) {k k' : α} (h : eqv lt k k' = true) (m : List (α × β)) :
    find lt k m = find lt k' m := by
  induction m with
  | nil => rfl
  | cons e es ih => simp only [find, E.congr_left h e.1, ih]

theorem find_some_mem {k : α} {m : List (α × β)} {e : α × β} (h : find lt k m = some e) :
    e ∈ m ∧ eqv lt k e.1 = true := by
  induction m with
  | nil => simp [find] at h
  | cons x xs ih =>
    simp only [find] at h
    split at h
    · cases h; simp_all
    · have := ih h; simp_all

theorem find_none_iff {k : α} {m : List (α × β)} :
    find lt k m = none ↔ ∀ e ∈ m, eqv lt k e.1 = false := by
  induction m with
  | nil => simp [find]
  | cons x xs ih =>
    simp only [find]
    split
    · simp_all
    · simp_all

theorem has_eq_isSome (k : α) (m : List (α × β)) : has lt k m = (find lt k m).isSome := by
  induction m with
  | nil => rfl
  | cons x xs ih =>
    simp only [has, List.any_cons, find] at *
    split <;> simp_all

theorem has_iff {k : α} {m : List (α × β)} : has lt k m = true ↔ ∃ e ∈ m, eqv lt k e.1 = true := by
  simp [has, List.any_eq_true]

theorem has_congr (E : EqvLaws lt) {k k' : α} (h : eqv lt k k' = true) (m : List (α × β)) :
    has lt k m = has lt k' m := by
  rw [has_eq_isSome, has_eq_isSome, find_congr E h]

theorem find_erase (E : EqvLaws lt) (k k' : α) (m : List (α × β)) :
    find lt k' (erase lt k m) = if eqv lt k k' then none else find lt k' m := by
  induction m with
  | nil => simp [erase, find]
  | cons e es ih =>
    have ih' : find lt k' (List.filter (fun e => !eqv lt k e.1) es) =
        if eqv lt k k' then none else find lt k' es := ih
    simp only [erase, List.filter_cons]
    by_cases hk : eqv lt k k' = true
    · rw [if_pos hk] at ih' ⊢
      by_cases he : eqv lt k e.1 = true
      · simp [he, ih']
      · have h2 : eqv lt k' e.1 = false := by
          cases h : eqv lt k' e.1
          · rfl
          · exact absurd (E.trans k k' e.1 hk h) he
        simp [he, find, h2, ih']
    · rw [if_neg hk] at ih' ⊢
      by_cases he : eqv lt k e.1 = true
      · have h2 : eqv lt k' e.1 = false := by
          cases h : eqv lt k' e.1
          · rfl
          · exact absurd (E.trans k e.1 k' he (E.symm h)) hk
        simp [he, find, h2, ih']
      · simp [he, find, ih']

theorem find_insSorted_of_not (x : α × β) (k' : α) (h : eqv lt k' x.1 = false) (m : List (α × β)) :
    find lt k' (insSorted lt x m) = find lt k' m := by
  induction m with
  | nil => simp [insSorted, find, h]
  | cons e es ih =>
    simp only [insSorted]
    split
    · simp [find, h]
    · simp [find, ih]

theorem find_insSorted_of_eqv (x : α × β) (k' : α) (h : eqv lt k' x.1 = true) (m : List (α × β))
    (hm : ∀ e ∈ m, eqv lt k' e.1 = false) : find lt k' (insSorted lt x m) = some x := by
  induction m with
  | nil => simp [insSorted, find, h]
  | cons e es ih =>
    simp only [insSorted]
    split
    · simp [find, h]
    · have h1 := hm e (by simp)
      simp only [find, h1]
      exact ih (fun e' he' => hm e' (by simp [he']))

theorem find_insert (E : EqvLaws lt) (k k' : α) (v : β) (m : List (α × β)) :
    find lt k' (insert lt k v m) = if eqv lt k k' then some (k, v) else find lt k' m := by
  simp only [insert]
  by_cases hk : eqv lt k k' = true
  · simp only [hk, if_true]
    apply find_insSorted_of_eqv
    · exact E.symm hk
    · have := find_erase E k k' m
      simp only [hk, if_true] at this
      exact find_none_iff.mp this
  · simp only [hk]
    rw [find_insSorted_of_not]
    · have := find_erase E k k' m
      simp only [hk] at this
      simpa using this
    · cases h : eqv lt k' k <;> try rfl
      rw [eqv_comm] at h; simp_all

theorem has_erase (E : EqvLaws lt) (k k' : α) (m : List (α × β)) :
    has lt k' (erase lt k m) = (!eqv lt k k' && has lt k' m) := by
  rw [has_eq_isSome, has_eq_isSome, find_erase E]
  split <;> simp_all

theorem has_insert (E : EqvLaws lt) (k k' : α) (v : β) (m : List (α × β)) :
    has lt k' (insert lt k v m) = (eqv lt k k' || has lt k' m) := by
  rw [has_eq_isSome, has_eq_isSome, find_insert E]
  split <;> simp_all

theorem mem_insSorted {x e : α × β} {m : List (α × β)} : e ∈ insSorted lt x m ↔ e = x ∨ e ∈ m := by
  induction m with
  | nil => simp [insSorted]
  | cons y ys ih =>
    simp only [insSorted]
    split
    · simp
    · simp only [List.mem_cons, ih]
      constructor
      · rintro (h | h | h) <;> simp_all
      · rintro (h | h | h) <;> simp_all

theorem mem_erase {k : α} {e : α × β} {m : List (α × β)} :
    e ∈ erase lt k m ↔ e ∈ m ∧ eqv lt k e.1 = false := by
  simp [erase, List.mem_filter]

theorem mem_insert {k : α} {v : β} {e : α × β} {m : List (α × β)} :
    e ∈ insert lt k v m ↔ e = (k, v) ∨ (e ∈ m ∧ eqv lt k e.1 = false) := by
  simp [insert, mem_insSorted, mem_erase]

/-- deleting a batch of probes: a stored item survives unless one of the probes is equivalent to it -/
theorem has_foldl_erase {γ : Type} (E : EqvLaws lt) (f : γ → α) (p : α) (ps : List γ) (m : List (α × β))
    (h : has lt p m = true) :
    ps.any (fun q => eqv lt (f q) p) = true ∨ has lt p (ps.foldl (fun m q => erase lt (f q) m) m) = true := by
  induction ps generalizing m with
  | nil => right; simpa using h
  | cons q qs ih =>
    simp only [List.any_cons, List.foldl_cons, Bool.or_eq_true]
    by_cases hq : eqv lt (f q) p = true
    · left; left; exact hq
    · have h' : has lt p (erase lt (f q) m) = true := by rw [has_erase E]; simp_all
      rcases ih (erase lt (f q) m) h' with h1 | h1
      · left; right; exact h1
      · right; exact h1

theorem mem_foldl_erase {γ : Type} (f : γ → α) {e : α × β} (ps : List γ) (m : List (α × β))
    (h : e ∈ ps.foldl (fun m q => erase lt (f q) m) m) : e ∈ m := by
  induction ps generalizing m with
  | nil => simpa using h
  | cons q qs ih =>
    simp only [List.foldl_cons] at h
    exact (mem_erase.mp (ih _ h)).1

/-! ### order invariants of the stored list -/
theorem pairwise_erase {R : α × β → α × β → Prop} (k : α) {m : List (α × β)} (h : m.Pairwise R) :
    (erase lt k m).Pairwise R := h.filter _

theorem pairwise_insSorted_all {R : α × β → α × β → Prop} (x : α × β) {m : List (α × β)}
    (hx : ∀ e ∈ m, R x e ∧ R e x) (h : m.Pairwise R) : (insSorted lt x m).Pairwise R := by
  induction m with
  | nil => simp [insSorted]
  | cons e es ih =>
    rw [List.pairwise_cons] at h
    simp only [insSorted]
    split
    · rw [List.pairwise_cons]
      refine ⟨fun e' he' => (hx e' he').1, ?_⟩
      rw [List.pairwise_cons]; exact h
    · rw [List.pairwise_cons]
      refine ⟨fun e' he' => ?_, ih (fun e' he' => hx e' (by simp [he'])) h.2⟩
      rcases mem_insSorted.mp he' with h1 | h1
      · rw [h1]; exact (hx e (by simp)).2
      · exact h.1 e' h1

/-- no two stored items are the same item for the tree -/
def NoDup (lt : α → α → Bool) (m : List (α × β)) : Prop := m.Pairwise fun a b => eqv lt a.1 b.1 = false

theorem nodup_erase (k : α) {m : List (α × β)} (h : NoDup lt m) : NoDup lt (erase lt k m) := pairwise_erase k h

theorem nodup_insert (k : α) (v : β) {m : List (α × β)} (h : NoDup lt m) : NoDup lt (insert lt k v m) := by
  apply pairwise_insSorted_all
  · intro e he
    have := (mem_erase.mp he).2
    exact ⟨this, by rw [eqv_comm]; exact this⟩
  · exact nodup_erase k h

/-- the stored list ascends along a measure that `Less` respects -/
theorem sorted_insSorted (f : α × β → Int) (x : α × β) {m : List (α × β)}
    (h1 : ∀ e : α × β, lt x.1 e.1 = true → f x ≤ f e) (h2 : ∀ e : α × β, lt x.1 e.1 = false → f e ≤ f x)
    (h : m.Pairwise fun a b => f a ≤ f b) : (insSorted lt x m).Pairwise fun a b => f a ≤ f b := by
  induction m with
  | nil => simp [insSorted]
  | cons e es ih =>
    rw [List.pairwise_cons] at h
    simp only [insSorted]
    split
    · rename_i hlt
      rw [List.pairwise_cons]
      refine ⟨fun e' he' => ?_, by rw [List.pairwise_cons]; exact h⟩
      rcases List.mem_cons.mp he' with h3 | h3
      · rw [h3]; exact h1 e hlt
      · exact Int.le_trans (h1 e hlt) (h.1 e' h3)
    · rename_i hlt
      have hlt' : lt x.1 e.1 = false := by simpa using hlt
      rw [List.pairwise_cons]
      refine ⟨fun e' he' => ?_, ih h.2⟩
      rcases mem_insSorted.mp he' with h3 | h3
      · rw [h3]; exact h2 e hlt'
      · exact h.1 e' h3

/-- in an ascending list `takeWhile (f · ≤ w)` takes every item at or below `w` -/
theorem mem_takeWhile_sorted (f : α × β → Int) (w : Int) {m : List (α × β)}
    (h : m.Pairwise fun a b => f a ≤ f b) {x : α × β} (hx : x ∈ m) (hw : f x ≤ w) :
    x ∈ m.takeWhile fun e => decide (f e ≤ w) := by
  induction m with
  | nil => cases hx
  | cons e es ih =>
    rw [List.pairwise_cons] at h
    rcases List.mem_cons.mp hx with h1 | h1
    · rw [← h1]; simp [List.takeWhile_cons, hw]
    · have : f e ≤ w := Int.le_trans (h.1 x h1) hw
      simp only [List.takeWhile_cons, this, decide_true, if_true, List.mem_cons]
      right; exact ih h.2 h1

end Octo.TMap
