import Octo.Lemmas.AggBag
import Octo.Lemmas.HashCongr
/-!
  The generic correctness argument for a retractable aggregate: an invariant between the
  aggregate's state and the running net multiset, preserved by every valid step, from which the
  reported value and the returned emptiness flag follow for *every* valid history.
  Then the instances for count, sum and average.
-/
namespace Octo.Agg
open Octo

/-- the running multiset after a history, starting from `L` -/
def bagRun (L : List Value) (h : Hist) : List Value := h.foldl bagStep L

theorem bagRun_nil (L : List Value) : bagRun L [] = L := rfl
theorem bagRun_cons (L : List Value) (e : Bool × Value) (h : Hist) :
    bagRun L (e :: h) = bagRun (bagStep L e) h := rfl

theorem cnt_bagRun : ∀ (h : Hist) (L : List Value), ValidFrom L h → ∀ v, cnt (bagRun L h) v = cnt L v + netH h v
  | [], L, _, v => by simp [bagRun, netH]
  | e :: h, L, hv, v => by
    rw [bagRun_cons, cnt_bagRun h _ hv.tail v, cnt_bagStep hv.head v, netH_cons]; omega

theorem mem_eraseEq {x y : Value} {L : List Value} (h : y ∈ eraseEq x L) : y ∈ L := by
  induction L with
  | nil => simp [eraseEq] at h
  | cons z r ih =>
    simp only [eraseEq] at h
    split at h
    · exact List.mem_cons_of_mem _ h
    · rcases List.mem_cons.mp h with rfl | h'
      · exact List.mem_cons_self
      · exact List.mem_cons_of_mem _ (ih h')

theorem mem_bagStep {L : List Value} {e : Bool × Value} {y : Value} (h : y ∈ bagStep L e) : y ∈ L ∨ y = e.2 := by
  unfold bagStep at h
  split at h
  · exact Or.inl (mem_eraseEq h)
  · rcases List.mem_cons.mp h with rfl | h'
    · exact Or.inr rfl
    · exact Or.inl h'

theorem all_bagStep {P : Value → Prop} {L : List Value} {e : Bool × Value}
    (hL : ∀ x ∈ L, P x) (he : P e.2) : ∀ x ∈ bagStep L e, P x := by
  intro x hx
  rcases mem_bagStep hx with h | rfl
  · exact hL x h
  · exact he

theorem exists_of_netH_pos : ∀ (h : Hist) (v : Value), 0 < netH h v → ∃ e ∈ h, cmp e.2 v = 0
  | [], v, hp => by simp [netH] at hp
  | e :: h, v, hp => by
    by_cases he : cmp e.2 v = 0
    · exact ⟨e, List.mem_cons_self, he⟩
    · rw [netH_cons] at hp
      simp only [weight, he, if_false] at hp
      obtain ⟨e', h1, h2⟩ := exists_of_netH_pos h v (by omega)
      exact ⟨e', List.mem_cons_of_mem _ h1, h2⟩

theorem isEmpty_congr {L M : List Value} (h : CntEq L M) : L.isEmpty = M.isEmpty := by
  cases L with
  | nil => rw [CntEq.nil_right h.symm]
  | cons x r =>
    cases M with
    | nil => exact absurd (CntEq.nil_right h) (by simp)
    | cons _ _ => rfl

/-- what has to be shown about one aggregate -/
structure AggProof (A : Agg) (P : Value → Prop) (spec : List Value → Value) where
  /-- the state represents the multiset -/
  Inv : A.σ → List Value → Prop
  init : Inv A.init []
  /-- a valid step keeps the invariant and `Add` returns "the multiset is now empty" -/
  step : ∀ {s : A.σ} {L : List Value} (e : Bool × Value), Inv s L → (∀ x ∈ L, P x) → P e.2 →
    (e.1 = true → 0 < cnt L e.2) →
    Inv (A.add s e.1 e.2).1 (bagStep L e) ∧ (A.add s e.1 e.2).2 = (bagStep L e).isEmpty
  /-- on a non-empty multiset `Trigger` returns (without panicking) the aggregate of the multiset -/
  result : ∀ {s : A.σ} {L : List Value}, Inv s L → (∀ x ∈ L, P x) → L ≠ [] →
    ∃ r, A.trigger s = .val r ∧ cmp r (spec L) = 0
  /-- the from-scratch aggregate does not depend on the representation of the multiset -/
  congr : ∀ {L M : List Value}, (∀ x ∈ L, P x) → (∀ x ∈ M, P x) → CntEq L M → cmp (spec L) (spec M) = 0
  P_congr : ∀ {a b : Value}, cmp a b = 0 → P a → P b

variable {A : Agg} {P : Value → Prop} {spec : List Value → Value}

theorem AggProof.foldl (pf : AggProof A P spec) :
    ∀ (h : Hist) (s : A.σ) (f : Bool) (L : List Value), pf.Inv s L → f = L.isEmpty → (∀ x ∈ L, P x) →
      (∀ e ∈ h, P e.2) → ValidFrom L h →
      pf.Inv (h.foldl A.step (s, f)).1 (bagRun L h) ∧ (h.foldl A.step (s, f)).2 = (bagRun L h).isEmpty ∧
        (∀ x ∈ bagRun L h, P x)
  | [], s, f, L, hi, hf, hL, _, _ => ⟨hi, hf, hL⟩
  | e :: h, s, f, L, hi, _, hL, hP, hv => by
    have he : P e.2 := hP e List.mem_cons_self
    obtain ⟨i1, f1⟩ := pf.step e hi hL he hv.head
    simp only [List.foldl_cons, bagRun_cons]
    exact AggProof.foldl pf h (A.add s e.1 e.2).1 (A.add s e.1 e.2).2 (bagStep L e) i1 f1
      (all_bagStep hL he) (fun e' h' => hP e' (List.mem_cons_of_mem _ h')) hv.tail

/-- **every valid history**: the value reported after the history is the aggregate, computed from
    scratch, of any list representing the net multiset; and the last `Add` returned whether that
    multiset is empty. -/
theorem AggProof.main (pf : AggProof A P spec) (h : Hist) (hv : ValidHist h) (hP : ∀ e ∈ h, P e.2)
    (M : List Value) (hM : IsNet M h) :
    (A.run h).2 = M.isEmpty ∧
    (M ≠ [] → ∃ r, A.trigger (A.run h).1 = .val r ∧ cmp r (spec M) = 0) := by
  have hv' : ValidFrom [] h := (validFrom_nil_iff h).mpr hv
  obtain ⟨hi, hf, hB⟩ := pf.foldl h A.init true [] pf.init rfl (by simp) hP hv'
  have hc : CntEq (bagRun [] h) M := fun v => by rw [cnt_bagRun h [] hv' v, hM v]; simp [cnt]
  have hMP : ∀ x ∈ M, P x := by
    intro x hx
    have : 0 < netH h x := by rw [← hM x]; exact cnt_pos_of_mem hx
    obtain ⟨e, he, hex⟩ := exists_of_netH_pos h x this
    exact pf.P_congr hex (hP e he)
  refine ⟨by rw [← isEmpty_congr hc]; exact hf, fun hne => ?_⟩
  have hne' : bagRun [] h ≠ [] := by
    intro h0; rw [h0] at hc; exact hne (CntEq.nil_right hc.symm)
  obtain ⟨r, hr, hrs⟩ := pf.result hi hB hne'
  exact ⟨r, hr, ceq_trans hrs (pf.congr hB hMP hc)⟩

/-! ### field reads respect `cmp = 0` -/
theorem intField_congr (a b : Value) (h : cmp a b = 0) : intField a = intField b := by
  have hr := cmpWith_zero_rank a b h
  cases a <;> cases b <;> simp only [Value.rank] at hr <;> (try omega) <;> simp only [intField]
  simp only [cmp, cmpWith] at h
  exact (cmpInt_eq_iff _ _).mp h

theorem durField_congr (a b : Value) (h : cmp a b = 0) : durField a = durField b := by
  have hr := cmpWith_zero_rank a b h
  cases a <;> cases b <;> simp only [Value.rank] at hr <;> (try omega) <;> simp only [durField]
  simp only [cmp, cmpWith] at h
  exact (cmpInt_eq_iff _ _).mp h

theorem wrap64_add (a b : Int) : wrap64 (wrap64 a + b) = wrap64 (a + b) := by
  unfold wrap64; omega
theorem wrap64_sub (a b : Int) : wrap64 (wrap64 a - b) = wrap64 (a - b) := by
  unfold wrap64; omega

theorem isEmpty_iff_length {α} (L : List α) : L.isEmpty = decide ((L.length : Int) = 0) := by
  cases L <;> simp <;> omega

/-! ### count -/
def countProof : AggProof countAgg (fun _ => True) specCount where
  Inv c L := c = (L.length : Int)
  init := rfl
  step := by
    intro s L e hi _ _ hv
    obtain ⟨r, x⟩ := e
    subst hi
    cases r with
    | false => simp [countAgg, countAdd, bagStep]; omega
    | true =>
      have hl := length_eraseEq (hv rfl)
      simp only [countAgg, countAdd, bagStep, if_true, Bool.not_true, Bool.false_eq_true, if_false]
      rw [isEmpty_iff_length, hl]
      exact ⟨rfl, rfl⟩
  result := by
    intro s L hi _ _
    exact ⟨.int s, rfl, by subst hi; exact crefl _⟩
  congr := by
    intro L M _ _ h
    simp only [specCount, length_congr L M h]; exact crefl _
  P_congr := fun _ _ => trivial

/-! ### sum and average over Int / Duration -/
def SumInv (fld : Value → Int) (s : SumS) (L : List Value) : Prop := s.sum = wrap64 (sumZ fld L) ∧ s.count = (L.length : Int)

theorem sumAdd_step (fld : Value → Int) (hf : ∀ a b, cmp a b = 0 → fld a = fld b)
    {s : SumS} {L : List Value} (e : Bool × Value) (hi : SumInv fld s L)
    (hv : e.1 = true → 0 < cnt L e.2) :
    SumInv fld (sumAdd fld s e.1 e.2).1 (bagStep L e) ∧ (sumAdd fld s e.1 e.2).2 = (bagStep L e).isEmpty := by
  obtain ⟨r, x⟩ := e
  obtain ⟨h1, h2⟩ := hi
  cases r with
  | false =>
    simp only [sumAdd, bagStep, SumInv, Bool.not_false, if_true, Bool.false_eq_true, if_false, sumZ,
      List.length_cons, List.isEmpty_cons]
    rw [h1, h2, wrap64_add]
    refine ⟨⟨by rw [Int.add_comm], by omega⟩, ?_⟩
    simp; omega
  | true =>
    have hl := length_eraseEq (hv rfl)
    have hs := sumZ_eraseEq fld hf (hv rfl)
    simp only [sumAdd, bagStep, SumInv, Bool.not_true, Bool.false_eq_true, if_false, if_true]
    rw [h1, h2, wrap64_sub, hs, hl, isEmpty_iff_length, hl]
    exact ⟨⟨rfl, rfl⟩, rfl⟩

def sumIntProof : AggProof sumIntAgg (fun _ => True) specSumInt where
  Inv := SumInv intField
  init := ⟨rfl, rfl⟩
  step := fun e hi _ _ hv => sumAdd_step intField intField_congr e hi hv
  result := by
    intro s L hi _ _
    exact ⟨.int s.sum, rfl, by rw [hi.1]; exact crefl _⟩
  congr := by
    intro L M _ _ h
    simp only [specSumInt, sumZ_congr intField intField_congr L M h]; exact crefl _
  P_congr := fun _ _ => trivial

def sumDurProof : AggProof sumDurAgg (fun _ => True) specSumDur where
  Inv := SumInv durField
  init := ⟨rfl, rfl⟩
  step := fun e hi _ _ hv => sumAdd_step durField durField_congr e hi hv
  result := by
    intro s L hi _ _
    exact ⟨.dur s.sum, rfl, by rw [hi.1]; exact crefl _⟩
  congr := by
    intro L M _ _ h
    simp only [specSumDur, sumZ_congr durField durField_congr L M h]; exact crefl _
  P_congr := fun _ _ => trivial

def AvgInv (fld : Value → Int) (a : AvgS) (L : List Value) : Prop := SumInv fld a.sum L ∧ a.count = (L.length : Int)

theorem avgAdd_step (fld : Value → Int) (hf : ∀ a b, cmp a b = 0 → fld a = fld b)
    {a : AvgS} {L : List Value} (e : Bool × Value) (hi : AvgInv fld a L)
    (hv : e.1 = true → 0 < cnt L e.2) :
    AvgInv fld (avgAdd fld a e.1 e.2).1 (bagStep L e) ∧ (avgAdd fld a e.1 e.2).2 = (bagStep L e).isEmpty := by
  obtain ⟨h1, h2⟩ := hi
  have hs := (sumAdd_step fld hf e h1 hv).1
  have hc := countProof.step (s := a.count) (L := L) e h2 (fun _ _ => trivial) trivial hv
  exact ⟨⟨hs, hc.1⟩, hc.2⟩

theorem avgDiv_eq (fld : Value → Int) {a : AvgS} {L : List Value} (hi : AvgInv fld a L) (hne : L ≠ []) :
    avgDiv a = some (wrap64 (Int.tdiv (wrap64 (sumZ fld L)) L.length)) := by
  obtain ⟨⟨h1, _⟩, h2⟩ := hi
  have : (L.length : Int) ≠ 0 := by cases L <;> simp at * <;> omega
  simp only [avgDiv, h1, h2, this, if_false]

def avgIntProof : AggProof avgIntAgg (fun _ => True) specAvgInt where
  Inv := AvgInv intField
  init := ⟨⟨rfl, rfl⟩, rfl⟩
  step := fun e hi _ _ hv => avgAdd_step intField intField_congr e hi hv
  result := by
    intro s L hi _ hne
    refine ⟨specAvgInt L, ?_, crefl _⟩
    simp only [avgIntAgg, avgDiv_eq intField hi hne, specAvgInt]
  congr := by
    intro L M _ _ h
    simp only [specAvgInt, sumZ_congr intField intField_congr L M h, length_congr L M h]; exact crefl _
  P_congr := fun _ _ => trivial

def avgDurProof : AggProof avgDurAgg (fun _ => True) specAvgDur where
  Inv := AvgInv durField
  init := ⟨⟨rfl, rfl⟩, rfl⟩
  step := fun e hi _ _ hv => avgAdd_step durField durField_congr e hi hv
  result := by
    intro s L hi _ hne
    refine ⟨specAvgDur L, ?_, crefl _⟩
    simp only [avgDurAgg, avgDiv_eq durField hi hne, specAvgDur]
  congr := by
    intro L M _ _ h
    simp only [specAvgDur, sumZ_congr durField durField_congr L M h, length_congr L M h]; exact crefl _
  P_congr := fun _ _ => trivial

end Octo.Agg
